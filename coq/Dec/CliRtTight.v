(* CliRtTight.v - round trip for Tight: for EVERY choice oracle of the reference encoder (fill, basic / copy filter,
   palette filter with 1-bit or 8-bit indices and palette padding, gradient filter, any of the four zlib streams,
   any stream-reset bits, raw or compressed payload) the mirror of HandleTight paints exactly the encoded rectangle
   and tracks the stream states. *)
From LV Require Import Dec.CliBase Dec.CliFbProofs Dec.CliDec Dec.CliDecZ Dec.RefEnc Dec.RefEncZ Dec.CliRtBase Dec.CliRtSimple
     Dec.RefPlanProofs Dec.CliCopyProofs Dec.CliRtHextile Dec.CliRtZ Dec.CliRtTile Dec.CliRtZrle.
Require Import ZifyBool.
Local Open Scope Z_scope.

(* ---------------------------------------------------------------- control byte *)
Lemma land_pow2 a i : 0 <= i -> Z.land a (2 ^ i) = if Z.testbit a i then 2 ^ i else 0.
Proof.
  intros Hi. apply Z.bits_inj'. intros n Hn. rewrite Z.land_spec, Z.pow2_bits_eqb by lia.
  destruct (Z.eqb_spec i n) as [->|Hne].
  - rewrite Bool.andb_true_r. destruct (Z.testbit a n) eqn:E; [now rewrite Z.pow2_bits_true|now rewrite Z.bits_0].
  - rewrite Bool.andb_false_r. destruct (Z.testbit a i); [rewrite Z.pow2_bits_false by lia; reflexivity|now rewrite Z.bits_0].
Qed.

Lemma flag_testbit a i : 0 <= i -> flag a (2 ^ i) = Z.testbit a i.
Proof.
  intros Hi. unfold flag. rewrite land_pow2 by lia. assert (0 < 2 ^ i) by (apply Z.pow_pos_nonneg; lia).
  destruct (Z.testbit a i); [destruct (Z.eqb_spec (2 ^ i) 0); [lia|reflexivity]|reflexivity].
Qed.

Lemma testbit_low r k i : 0 <= i < 4 -> Z.testbit (r + 16 * k) i = Z.testbit r i.
Proof.
  intros Hi. replace (r + 16 * k) with (r + k * 2 ^ 4) by (change (2 ^ 4) with 16; lia).
  rewrite !Z.testbit_eqb by lia.
  replace 4 with (i + (4 - i)) by lia. rewrite Z.pow_add_r by lia.
  replace (r + k * (2 ^ i * 2 ^ (4 - i))) with (r + (k * 2 ^ (4 - i)) * 2 ^ i) by ring.
  rewrite Z.div_add by (apply Z.pow_nonzero; lia).
  replace (2 ^ (4 - i)) with (2 * 2 ^ (4 - i - 1)) by (rewrite <- Z.pow_succ_r by lia; f_equal; lia).
  replace (r / 2 ^ i + k * (2 * 2 ^ (4 - i - 1))) with (r / 2 ^ i + (k * 2 ^ (4 - i - 1)) * 2) by ring.
  now rewrite Z.mod_add by lia.
Qed.

Definition st_reset (resets : Z) (st : list bool) : list bool :=
  map (fun i => if Z.testbit resets i then false else nth (Z.to_nat i) st false) [0; 1; 2; 3].

Lemma set_zact_twice s a b : set_zact (set_zact s a) b = set_zact s b.
Proof. reflexivity. Qed.

Lemma tight_resets s z0 a b c d resets k :
  c_zact s = [z0; a; b; c; d] ->
  fold_left (fun s0 i => if flag (resets + 16 * k) (2 ^ i) then zact_set s0 (i + 1) false else s0) [0; 1; 2; 3] s
  = set_zact s (z0 :: st_reset resets [a; b; c; d]).
Proof.
  intros Hz. cbn [fold_left]. rewrite !flag_testbit, !testbit_low by lia.
  unfold st_reset. cbn [map nth Z.to_nat]. change (Z.to_nat 1) with 1%nat. change (Z.to_nat 2) with 2%nat. change (Z.to_nat 3) with 3%nat.
  cbn [nth]. unfold zact_set.
  destruct (Z.testbit resets 0), (Z.testbit resets 1), (Z.testbit resets 2), (Z.testbit resets 3);
    cbn [Z.add Z.to_nat Pos.to_nat Pos.iter_op Nat.add c_zact set_zact]; rewrite ?Hz;
    cbn [list_set c_zact set_zact]; rewrite ?Hz; cbn [list_set]; rewrite ?set_zact_twice; try rewrite <- Hz;
    try reflexivity; destruct s; cbn in *; subst; reflexivity.
Qed.

(* ---------------------------------------------------------------- TPIXEL *)
Lemma tight888_is888 f : tight888 f = is888 f.
Proof. reflexivity. Qed.

Definition tpx (f : pixfmt) : Z := if tight888 f then 3 else f_bpp f / 8.

(* pixel values that survive the TPIXEL serialisation *)
Definition tp_ok (f : pixfmt) (p : Z) : Prop :=
  if tight888 f
  then rgb24_px32 f (comp_of p (f_rshift f) 255) (comp_of p (f_gshift f) 255) (comp_of p (f_bshift f) 255) = p
  else px_ok (f_bpp f / 8) p.

Lemma comp_byte p sh : 0 <= comp_of p sh 255 < 256.
Proof. unfold comp_of. change 255 with (Z.ones 8). rewrite Z.land_ones by lia. apply Z.mod_pos_bound. lia. Qed.

Lemma tpixel_ok f p : Forall byte_ok (tpixel f p).
Proof. unfold tpixel. destruct (tight888 f); [repeat (constructor; [apply comp_byte|]); constructor|apply lebytes_ok]. Qed.
Lemma tpixel_len f p : 0 <= f_bpp f / 8 -> zlen (tpixel f p) = tpx f.
Proof. intros H. unfold tpixel, tpx. destruct (tight888 f); [reflexivity|]. rewrite zlen_lebytes. lia. Qed.

Lemma flat_map_concat' {A B} (g : A -> list B) (l : list (list A)) : flat_map g (concat l) = concat (map (flat_map g) l).
Proof. induction l as [|r l IH]; [reflexivity|]. cbn [concat map]. now rewrite flat_map_app, IH. Qed.

Lemma chunks_flat_map {A} (g : A -> list Z) k l : 1 <= k -> (forall a, zlen (g a) = k) -> chunks k (flat_map g l) = map g l.
Proof.
  intros Hk Hg. rewrite flat_map_concat_map. apply chunks_concat; [exact Hk|].
  apply Forall_forall. intros r Hr. apply in_map_iff in Hr. destruct Hr as (a & <- & _). apply Hg.
Qed.

(* rows of TPIXELs *)
Lemma copy_rows_dec f (bypp : Z) tgt : f_bpp f = 8 * bypp -> 1 <= bypp <= 4 -> Forall (Forall (tp_ok f)) tgt ->
  map (fun rb => if is888 f then map (fun t => rgb24_px32 f (nthz t 0) (nthz t 1) (nthz t 2)) (chunks 3 rb)
                 else px_of_bytes bypp rb) (map (flat_map (tpixel f)) tgt) = tgt.
Proof.
  intros Hb Hb1 Hp. rewrite map_map. rewrite <- (map_id tgt) at 2. apply map_ext_in. intros row Hrow.
  rewrite Forall_forall in Hp. specialize (Hp row Hrow).
  assert (Hbp : f_bpp f / 8 = bypp) by (rewrite Hb; replace (8 * bypp) with (bypp * 8) by lia; apply Z.div_mul; lia).
  unfold tp_ok, tpixel in *. rewrite <- tight888_is888. destruct (tight888 f) eqn:E8.
  - rewrite (chunks_flat_map _ 3) by (try lia; intros; reflexivity). rewrite map_map.
    rewrite <- (map_id row) at 2. apply map_ext_in. intros p Hpp. rewrite Forall_forall in Hp. exact (Hp p Hpp).
  - rewrite Hbp in *. change (flat_map (fun p => lebytes (Z.to_nat bypp) p) row) with (px_bytes bypp row).
    apply px_of_bytes_px_bytes; [lia|exact Hp].
Qed.

(* ---------------------------------------------------------------- payload and filter loop (the tail of HandleTight) *)
Definition tight_tail (s0 : cst) (nozlib : bool) (cc rx ry rw rh : Z) (flt : tfilter) (bitspixel : Z) : M unit :=
  let f := c_fmt s0 in
  let bypp := bypp_of s0 in
  let cut := is888 f in
  let rowsize := (rw * bitspixel + 7) / 8 in
  let prev0 := repeat (0, 0, 0) (Z.to_nat rw) in
  if rh * rowsize <? cTIGHT_MIN_TO_COMPRESS then
    b <- rd_buf 71 cRFB_BUFFER_SIZE (rh * rowsize) ;;
    (match flt with
     | TFGradient => if (rw =? 0) && negb (fixed s0 10) then grad_zero_width 79 rx ry rh else ret tt
     | _ => ret tt
     end) ;;;
    tight_rows 72 f flt cut bypp rx ry rw rowsize (firstn (Z.to_nat rh) (chunks rowsize b)) prev0 ;;; ret tt
  else if nozlib then
    len <- rd_compact ;;
    if len <=? 0 then failM else
    if cRFB_BUFFER_SIZE <? len then failM else
    if fixed s0 3 && negb (len =? rh * rowsize) then failM else
    b <- rd len ;;
    (if cRFB_BUFFER_SIZE <? rh * rowsize then oobM 74 else ret tt) ;;;
    (if len <? rh * rowsize then upd_st set_taint else ret tt) ;;;
    tight_rows 75 f flt cut bypp rx ry rw rowsize
               (firstn (Z.to_nat rh) (chunks rowsize (b ++ repeat 0 (Z.to_nat (rh * rowsize - len))))) prev0 ;;; ret tt
  else
    r <- rd_stream (cc mod 4 + 1) ;;
    let '(ok, data) := r in
    let bufsize := Z.land (cRFB_BUFFER_SIZE * bitspixel / (bitspixel + f_bpp f)) 4294967292 in
    if bufsize <? rowsize then failM else
    if negb ok then failM else
    let nrows := zlen data / rowsize in
    if fixed s0 1 && (rh <? nrows) then failM else
    tight_rows 77 f flt cut bypp rx ry rw rowsize (firstn (Z.to_nat nrows) (chunks rowsize data)) prev0 ;;;
    if nrows =? rh then ret tt else failM.

(* states that differ from [s] in the stream flags only *)
Definition same_fb (s s' : cst) : Prop :=
  st_wf s' /\ c_w s' = c_w s /\ c_h s' = c_h s /\ c_fb s' = c_fb s /\ c_fmt s' = c_fmt s.

Definition tight_src (data : list Z) (sid : Z) (st1 : list bool) : list tok :=
  if zlen data <? cTIGHT_MIN_TO_COMPRESS then toks data else [TZ (sid + 1) (negb (nth (Z.to_nat sid) st1 false)) true data].

Lemma tight_tail_ok s0 s1 cc sid x y w h flt bits data RD tgt ts z0 st1 :
  same_fb s0 s1 -> c_zact s1 = z0 :: st1 -> 0 <= sid < 4 -> cc mod 4 = sid ->
  let rowsize := (w * bits + 7) / 8 in
  1 <= rowsize -> 1 <= h -> zlen data = h * rowsize -> Forall byte_ok data -> chunks rowsize data = RD -> zlen RD = h ->
  rowsize <= Z.land (cRFB_BUFFER_SIZE * bits / (bits + f_bpp (c_fmt s0))) 4294967292 ->
  (forall code s', same_fb s0 s' -> exists last,
     tight_rows code (c_fmt s0) flt (is888 (c_fmt s0)) (bypp_of s0) x y w rowsize RD (repeat (0, 0, 0) (Z.to_nat w)) s' ts
     = Ok last (set_fb s' (blit_spec (c_fb s0) x y tgt)) ts) ->
  tight_tail s0 false cc x y w h flt bits s1 (tight_src data sid st1 ++ ts)
  = Ok tt (set_fb (if zlen data <? cTIGHT_MIN_TO_COMPRESS then s1 else zact_set s1 (sid + 1) true) (blit_spec (c_fb s0) x y tgt)) ts.
Proof.
  intros Hsame Hz Hsid Hcc rowsize Hrs Hh Hlen Hdok Hch HRD Hbuf Hrows.
  unfold tight_tail, tight_src. cbv zeta. fold rowsize. rewrite <- Hlen.
  assert (Hfirst : firstn (Z.to_nat h) RD = RD) by (apply firstn_all2; unfold zlen in HRD; lia).
  destruct (Z.ltb_spec (zlen data) cTIGHT_MIN_TO_COMPRESS).
  - unfold rd_buf. destruct (Z.ltb_spec cRFB_BUFFER_SIZE (zlen data)); [unfold cTIGHT_MIN_TO_COMPRESS, cRFB_BUFFER_SIZE in *; lia|].
    erewrite bind_ok; [|apply rd_app; [exact Hdok|reflexivity]].
    rewrite Hch, Hfirst.
    assert (Ew : (w =? 0) = false).
    { destruct (Z.eqb_spec w 0) as [E0|]; [|reflexivity]. exfalso. unfold rowsize in Hrs. rewrite E0 in Hrs. cbn in Hrs. lia. }
    erewrite bind_ok; [|destruct flt; [reflexivity|reflexivity|rewrite Ew; reflexivity]].
    destruct (Hrows 72 s1 Hsame) as [last E]. erewrite bind_ok; [|exact E]. reflexivity.
  - cbn [app]. rewrite Hcc.
    erewrite bind_ok.
    2:{ apply rd_stream_ok. unfold zact_get. rewrite Hz. replace (Z.to_nat (sid + 1)) with (S (Z.to_nat sid)) by lia. reflexivity. }
    rewrite map_mod_id by exact Hdok.
    destruct (Z.ltb_spec (Z.land (cRFB_BUFFER_SIZE * bits / (bits + f_bpp (c_fmt s0))) 4294967292) rowsize); [lia|].
    cbn [negb].
    assert (Hnr : zlen data / rowsize = h) by (rewrite Hlen; apply Z.div_mul; lia).
    rewrite Hnr. destruct (Z.ltb_spec h h); [lia|]. rewrite Bool.andb_false_r.
    rewrite Hch, Hfirst.
    assert (Hsame' : same_fb s0 (zact_set s1 (sid + 1) true)).
    { destruct Hsame as (A & B & C & D & E). split; [eapply st_wf_ext; [| | |exact A]; reflexivity|]. auto. }
    destruct (Hrows 77 _ Hsame') as [last E]. erewrite bind_ok; [|exact E].
    rewrite Z.eqb_refl. reflexivity.
Qed.

(* ---------------------------------------------------------------- the filters *)
Lemma write_rows_same code s0 s' x y w h T ts :
  same_fb s0 s' -> 0 <= x -> 0 <= y -> x + w <= c_w s0 -> y + h <= c_h s0 -> rows_wf w h T ->
  write_rowsM code x y T s' ts = Ok tt (set_fb s' (blit_spec (c_fb s0) x y T)) ts.
Proof.
  intros (A & B & C & D & E) Hx Hy Hxw Hyh HT. rewrite <- D. apply (write_rows_ok code s' x y w h T ts); auto; lia.
Qed.

Lemma tight_rows_copy code s0 s' x y w h rowsize tgt prev ts :
  same_fb s0 s' -> bypp_ok s0 -> 0 <= x -> 0 <= y -> x + w <= c_w s0 -> y + h <= c_h s0 -> rows_wf w h tgt ->
  Forall (Forall (tp_ok (c_fmt s0))) tgt ->
  tight_rows code (c_fmt s0) TFCopy (is888 (c_fmt s0)) (bypp_of s0) x y w rowsize (map (flat_map (tpixel (c_fmt s0))) tgt) prev s' ts
  = Ok prev (set_fb s' (blit_spec (c_fb s0) x y tgt)) ts.
Proof.
  intros Hsame [Hb1 Hb2] Hx Hy Hxw Hyh HT Hp. unfold tight_rows.
  rewrite (copy_rows_dec (c_fmt s0) (bypp_of s0) tgt Hb2 ltac:(lia) Hp).
  erewrite bind_ok; [|eapply write_rows_same; eauto]. reflexivity.
Qed.

(* decoded palette *)
Definition tp_dec (f : pixfmt) (bypp : Z) (b : list Z) : list Z :=
  if is888 f then map (fun t => rgb24_px32 f (nthz t 0) (nthz t 1) (nthz t 2)) (chunks 3 b) else px_of_bytes bypp b.

Definition tp_norm (f : pixfmt) (bypp : Z) (p : Z) : Z :=
  if is888 f then rgb24_px32 f (comp_of p (f_rshift f) 255) (comp_of p (f_gshift f) 255) (comp_of p (f_bshift f) 255)
  else p mod 256 ^ bypp.

Lemma tp_dec_pal f bypp pal : f_bpp f = 8 * bypp -> 1 <= bypp <= 4 ->
  tp_dec f bypp (flat_map (tpixel f) pal) = map (tp_norm f bypp) pal.
Proof.
  intros Hb Hb1.
  assert (Hbp : f_bpp f / 8 = bypp) by (rewrite Hb; replace (8 * bypp) with (bypp * 8) by lia; apply Z.div_mul; lia).
  unfold tp_dec, tp_norm, tpixel. rewrite <- tight888_is888. destruct (tight888 f).
  - rewrite (chunks_flat_map _ 3) by (try lia; intros; reflexivity). rewrite map_map. reflexivity.
  - rewrite Hbp. unfold px_of_bytes. rewrite (chunks_flat_map _ bypp); [|lia|intros; rewrite zlen_lebytes; lia].
    rewrite map_map. apply map_ext. intros p. rewrite le_val_lebytes_mod. now rewrite Z2Nat.id by lia.
Qed.

Lemma tp_norm_ok f bypp p : f_bpp f = 8 * bypp -> 1 <= bypp <= 4 -> tp_ok f p -> tp_norm f bypp p = p.
Proof.
  intros Hb Hb1. assert (Hbp : f_bpp f / 8 = bypp) by (rewrite Hb; replace (8 * bypp) with (bypp * 8) by lia; apply Z.div_mul; lia).
  unfold tp_ok, tp_norm. change (is888 f) with (tight888 f). destruct (tight888 f); [auto|]. rewrite Hbp. unfold px_ok. intros H. apply Z.mod_small. lia.
Qed.

Lemma nth_map_tpn f bypp pal i : nth i (map (tp_norm f bypp) pal) (tp_norm f bypp 0) = tp_norm f bypp (nth i pal 0).
Proof. apply map_nth. Qed.

Lemma tight_rows_pal code s0 s' x y w h rowsize pal tgt prev ts :
  same_fb s0 s' -> bypp_ok s0 -> 0 <= x -> 0 <= y -> 1 <= w -> x + w <= c_w s0 -> y + h <= c_h s0 -> rows_wf w h tgt ->
  2 <= zlen pal <= 256 -> Forall (Forall (fun p => In p pal /\ tp_ok (c_fmt s0) p)) tgt ->
  tight_rows code (c_fmt s0) (TFPalette (map (tp_norm (c_fmt s0) (bypp_of s0)) pal)) (is888 (c_fmt s0)) (bypp_of s0) x y w rowsize
    (if zlen pal =? 2 then map (fun r => pack_row 1 (map (fun p => index_of p pal) r)) tgt
     else map (map (fun p => index_of p pal)) tgt) prev s' ts
  = Ok prev (set_fb s' (blit_spec (c_fb s0) x y tgt)) ts.
Proof.
  intros Hsame [Hb1 Hb2] Hx Hy Hw Hxw Hyh HT Hpal Hp. pose proof HT as [T1 T2]. unfold tight_rows.
  set (f := c_fmt s0) in *. set (bypp := bypp_of s0) in *. set (dpal := map (tp_norm f bypp) pal).
  assert (Hdl : zlen dpal = zlen pal) by (unfold dpal; apply zlen_map).
  assert (Hcol : forall p, In p pal -> tp_ok f p ->
            nth (Z.to_nat (index_of p pal)) dpal 0 = p /\ nth_error dpal (Z.to_nat (index_of p pal)) = Some p).
  { intros p Hin Hok. destruct (index_of_spec p pal Hin) as [I1 I2].
    assert (E : nth (Z.to_nat (index_of p pal)) dpal 0 = p).
    { unfold dpal. rewrite (nth_indep _ 0 (tp_norm f bypp 0)) by (rewrite map_length; unfold zlen in I1; lia).
      rewrite nth_map_tpn, I2. apply tp_norm_ok; auto; lia. }
    split; [exact E|]. replace (Some p) with (Some (nth (Z.to_nat (index_of p pal)) dpal 0)) by (now rewrite E).
    apply nth_error_nth'. unfold zlen in *. lia. }
  rewrite Hdl.
  destruct (Z.eqb_spec (zlen pal) 2) as [E2|E2].
  - erewrite bind_ok.
    2:{ apply (mapM_pure _ (fun rb => map (fun i => nth (Z.to_nat i) dpal 0) (packed_row 1 w rb))). intros rb Hrb.
        apply (mapM_pure _ (fun i => nth (Z.to_nat i) dpal 0)). intros; reflexivity. }
    assert (Erows : map (fun rb => map (fun i => nth (Z.to_nat i) dpal 0) (packed_row 1 w rb))
                        (map (fun r => pack_row 1 (map (fun p => index_of p pal) r)) tgt) = tgt).
    { rewrite map_map. rewrite <- (map_id tgt) at 2. apply map_ext_in. intros r Hr.
      rewrite Forall_forall in Hp, T2. pose proof (Hp r Hr) as Hpr. pose proof (T2 r Hr) as Hrw. cbn beta in Hrw.
      rewrite <- (app_nil_r (pack_row 1 (map (fun p => index_of p pal) r))).
      replace w with (zlen (map (fun p => index_of p pal) r)) by (rewrite zlen_map; exact Hrw).
      rewrite (pack_row_unpack 1 ltac:(auto)).
      2:{ apply Forall_forall. intros i Hi. apply in_map_iff in Hi. destruct Hi as (p & <- & Hpi).
          rewrite Forall_forall in Hpr. destruct (Hpr p Hpi) as [Hin _]. destruct (index_of_spec p pal Hin) as [I1 _]. cbn. lia. }
      rewrite map_map. rewrite <- (map_id r) at 2. apply map_ext_in. intros p Hpi.
      rewrite Forall_forall in Hpr. destruct (Hpr p Hpi) as [Hin Hok]. apply (Hcol p Hin Hok). }
    rewrite Erows.
    erewrite bind_ok; [|eapply write_rows_same; eauto]. reflexivity.
  - erewrite bind_ok.
    2:{ apply (mapM_pure _ (fun rb => map (fun i => nth (Z.to_nat i) dpal 0) (firstn (Z.to_nat w) rb))). intros rb Hrb.
        apply in_map_iff in Hrb. destruct Hrb as (r & <- & Hr).
        rewrite Forall_forall in Hp. pose proof (Hp r Hr) as Hpr.
        apply (mapM_pure _ (fun i => nth (Z.to_nat i) dpal 0)). intros i Hi.
        apply in_firstn in Hi. apply in_map_iff in Hi. destruct Hi as (p & <- & Hpi).
        rewrite Forall_forall in Hpr. destruct (Hpr p Hpi) as [Hin Hok]. destruct (Hcol p Hin Hok) as [C1 C2].
        rewrite C2, C1. reflexivity. }
    assert (Erows : map (fun rb => map (fun i => nth (Z.to_nat i) dpal 0) (firstn (Z.to_nat w) rb))
                        (map (map (fun p => index_of p pal)) tgt) = tgt).
    { rewrite map_map. rewrite <- (map_id tgt) at 2. apply map_ext_in. intros r Hr.
      rewrite Forall_forall in Hp, T2. pose proof (Hp r Hr) as Hpr. pose proof (T2 r Hr) as Hrw. cbn beta in Hrw.
      rewrite firstn_all2 by (rewrite map_length; unfold zlen in Hrw; lia).
      rewrite map_map. rewrite <- (map_id r) at 2. apply map_ext_in. intros p Hpi.
      rewrite Forall_forall in Hpr. destruct (Hpr p Hpi) as [Hin Hok]. apply (Hcol p Hin Hok). }
    rewrite Erows.
    erewrite bind_ok; [|eapply write_rows_same; eauto]. reflexivity.
Qed.

(* ---------------------------------------------------------------- gradient filter *)
Notation t3 := (Z * Z * Z)%type (only parsing).
Definition in3 (maxs : t3) (p : t3) : Prop :=
  let '(mr, mg, mb) := maxs in let '(r, g, b) := p in 0 <= r <= mr /\ 0 <= g <= mg /\ 0 <= b <= mb.

(* what the decoder must be able to do with the source component [d] that stands for the residual [res] *)
Definition fin_ok (cut : bool) (m d res : Z) : Prop :=
  forall e, 0 <= e <= m -> (if cut then (e + d) mod 256 else Z.land (d + e) m) = (res + e) mod (m + 1).
Definition src_ok (cut : bool) (maxs : t3) (d res : t3) : Prop :=
  let '(mr, mg, mb) := maxs in let '(dr, dg, db) := d in let '(rr, rg, rb) := res in
  fin_ok cut mr dr rr /\ fin_ok cut mg dg rg /\ fin_ok cut mb db rb.

Lemma clamp_range m e : 0 <= m -> 0 <= clampz 0 m e <= m.
Proof. intros Hm. unfold clampz. destruct (Z.ltb_spec m e); [lia|]. destruct (Z.ltb_spec e 0); lia. Qed.

Lemma clamp_same m e : (if m <? e then m else if e <? 0 then 0 else e) = clampz 0 m e.
Proof. reflexivity. Qed.

Lemma residual_back m r e : 0 <= m -> 0 <= r <= m -> ((r - e) mod (m + 1) + e) mod (m + 1) = r.
Proof. intros Hm Hr. rewrite Z.add_mod_idemp_l by lia. replace (r - e + e) with r by lia. apply Z.mod_small. lia. Qed.

Lemma grad_row_inv cut (maxs : t3) : (let '(mr, mg, mb) := maxs in 0 <= mr /\ 0 <= mg /\ 0 <= mb) ->
  forall cur prev left upleft first src,
    Forall2 (src_ok cut maxs) src (grad_enc_row maxs cur prev left upleft first) ->
    Forall (in3 maxs) cur -> Forall (in3 maxs) prev -> in3 maxs left -> in3 maxs upleft ->
    grad_row maxs cut src prev left upleft first = cur.
Proof.
  destruct maxs as [[mr mg] mb]. intros (Hmr & Hmg & Hmb).
  induction cur as [|[[r g] b] cur IH]; intros prev left upleft first src Hsrc Hcur Hprev Hleft Hupl.
  - cbn [grad_enc_row] in Hsrc. inversion Hsrc. reflexivity.
  - cbn [grad_enc_row] in Hsrc.
    set (up := match prev with u :: _ => u | [] => (0, 0, 0) end) in *.
    assert (Hup : in3 (mr, mg, mb) up).
    { unfold up. destruct prev as [|u prev']; [cbn; lia|exact (Forall_inv Hprev)]. }
    destruct up as [[ur ug] ub] eqn:Eup. destruct left as [[lr lg] lb]. destruct upleft as [[qr qg] qb].
    inversion Hsrc as [|d res src' enc' Hd Hrest]; subst. destruct d as [[dr dg] db].
    cbn [grad_row]. fold up. rewrite Eup.
    pose proof (Forall_inv Hcur) as Hc0. cbn [in3] in Hc0, Hup, Hleft, Hupl. destruct Hc0 as (Hr & Hg & Hb).
    cbn [src_ok] in Hd. destruct Hd as (Fr & Fg & Fb).
    set (er := if first then ur else clampz 0 mr (ur + lr - qr)).
    set (eg := if first then ug else clampz 0 mg (ug + lg - qg)).
    set (eb := if first then ub else clampz 0 mb (ub + lb - qb)).
    assert (Her : 0 <= er <= mr) by (unfold er; destruct first; [lia|now apply clamp_range]).
    assert (Heg : 0 <= eg <= mg) by (unfold eg; destruct first; [lia|now apply clamp_range]).
    assert (Heb : 0 <= eb <= mb) by (unfold eb; destruct first; [lia|now apply clamp_range]).
    unfold fin_ok in Fr, Fg, Fb.
    change (if first then ur else clampz 0 mr (ur + lr - qr)) with er.
    change (if first then ug else clampz 0 mg (ug + lg - qg)) with eg.
    change (if first then ub else clampz 0 mb (ub + lb - qb)) with eb.
    rewrite (Fr er Her), (Fg eg Heg), (Fb eb Heb).
    change (if first then ur else (let e := ur + lr - qr in if mr <? e then mr else if e <? 0 then 0 else e)) with er.
    change (if first then ug else (let e := ug + lg - qg in if mg <? e then mg else if e <? 0 then 0 else e)) with eg.
    change (if first then ub else (let e := ub + lb - qb in if mb <? e then mb else if e <? 0 then 0 else e)) with eb.
    rewrite !residual_back by lia.
    f_equal. apply IH.
    + exact Hrest.
    + exact (Forall_inv_tail Hcur).
    + destruct prev; [constructor|exact (Forall_inv_tail Hprev)].
    + cbn [in3]. lia.
    + cbn [in3]. lia.
Qed.

Lemma grad_row_prev_zeros maxs cut : forall src n left upleft first,
  grad_row maxs cut src (repeat (0, 0, 0) n) left upleft first = grad_row maxs cut src [] left upleft first.
Proof.
  induction src as [|[[dr dg] db] src IH]; intros n left upleft first; [reflexivity|].
  destruct n as [|n]; [reflexivity|]. cbn [repeat grad_row].
  destruct maxs as [[mr mg] mb]. destruct left as [[lr lg] lb]. destruct upleft as [[qr qg] qb].
  f_equal. apply IH.
Qed.

Lemma grad_enc_row_shape maxs : (let '(mr, mg, mb) := maxs in 0 <= mr /\ 0 <= mg /\ 0 <= mb) ->
  forall cur prev left upleft first,
    length (grad_enc_row maxs cur prev left upleft first) = length cur /\
    Forall (in3 maxs) (grad_enc_row maxs cur prev left upleft first).
Proof.
  destruct maxs as [[mr mg] mb]. intros (Hmr & Hmg & Hmb).
  induction cur as [|[[r g] b] cur IH]; intros prev left upleft first; cbn [grad_enc_row]; [split; [reflexivity|constructor]|].
  destruct (match prev with u :: _ => u | [] => (0, 0, 0) end) as [[ur ug] ub].
  destruct left as [[lr lg] lb]. destruct upleft as [[qr qg] qb].
  destruct (IH (match prev with _ :: t => t | [] => [] end) (r, g, b) (ur, ug, ub) false) as [I1 I2].
  split; [cbn [length]; now rewrite I1|]. constructor; [|exact I2].
  cbn [in3].
  match goal with |- 0 <= ?a mod _ <= _ /\ 0 <= ?b mod _ <= _ /\ 0 <= ?c mod _ <= _ =>
    pose proof (Z.mod_pos_bound a (mr + 1) ltac:(lia)); pose proof (Z.mod_pos_bound b (mg + 1) ltac:(lia));
    pose proof (Z.mod_pos_bound c (mb + 1) ltac:(lia)) end. lia.
Qed.

(* all rows: the decoder's previous row is the row it has just reconstructed *)
Lemma grad_rows_inv f (cut : bool) : let maxs := if cut then (255, 255, 255) else (f_rmax f, f_gmax f, f_bmax f) in
  (let '(mr, mg, mb) := maxs in 0 <= mr /\ 0 <= mg /\ 0 <= mb) ->
  forall tgtC prev srcRows,
    Forall2 (Forall2 (src_ok cut maxs)) srcRows (grad_enc_rows maxs tgtC prev) ->
    Forall (Forall (in3 maxs)) tgtC -> Forall (in3 maxs) prev ->
    fst (grad_rows f cut srcRows prev)
    = map (map (fun p : t3 => let '(a, b, c) := p in if cut then rgb24_px32 f a b c else rgb_px f a b c)) tgtC.
Proof.
  intros maxs Hm. induction tgtC as [|r tgtC IH]; intros prev srcRows Hsrc Hin Hprev.
  - cbn [grad_enc_rows] in Hsrc. inversion Hsrc. reflexivity.
  - cbn [grad_enc_rows] in Hsrc. inversion Hsrc as [|sr er srcRows' enc' Hr Hrest]; subst.
    cbn [grad_rows]. fold maxs.
    rewrite (grad_row_inv cut maxs Hm r prev (0, 0, 0) (0, 0, 0) true sr Hr (Forall_inv Hin) Hprev).
    2,3: (destruct maxs as [[mr mg] mb]; cbn [in3]; lia).
    specialize (IH r srcRows' Hrest (Forall_inv_tail Hin) (Forall_inv Hin)).
    destruct (grad_rows f cut srcRows' r) as [more last]. cbn [fst] in *. cbn [map]. now rewrite IH.
Qed.

Definition gmaxs (f : pixfmt) : t3 := if tight888 f then (255, 255, 255) else (f_rmax f, f_gmax f, f_bmax f).
Definition gcomps (f : pixfmt) (p : Z) : t3 :=
  (comp_of p (f_rshift f) (fst (fst (gmaxs f))), comp_of p (f_gshift f) (snd (fst (gmaxs f))), comp_of p (f_bshift f) (snd (gmaxs f))).
Definition gtobytes (f : pixfmt) (bypp : Z) (t : t3) : list Z :=
  let '(a, b, c) := t in
  if tight888 f then [a; b; c]
  else lebytes (Z.to_nat bypp) (Z.shiftl a (f_rshift f) + Z.shiftl b (f_gshift f) + Z.shiftl c (f_bshift f)).
Definition gtopix (f : pixfmt) (t : t3) : Z :=
  let '(a, b, c) := t in if is888 f then rgb24_px32 f a b c else rgb_px f a b c.

(* pixel values the gradient filter can transport: components in range, and they recompose the pixel *)
Definition gp_ok (f : pixfmt) (p : Z) : Prop := in3 (gmaxs f) (gcomps f p) /\ gtopix f (gcomps f p) = p.

(* formats whose three colour fields are separate power-of-two fields inside the pixel (stated as what the decoder
   needs: a serialised residual triple is read back field by field) *)
Definition gfmt_ok (f : pixfmt) (bypp : Z) : Prop :=
  if tight888 f then True else
  0 <= f_rmax f /\ 0 <= f_gmax f /\ 0 <= f_bmax f /\
  forall a b c, 0 <= a <= f_rmax f -> 0 <= b <= f_gmax f -> 0 <= c <= f_bmax f ->
    let P := Z.shiftl a (f_rshift f) + Z.shiftl b (f_gshift f) + Z.shiftl c (f_bshift f) in
    0 <= P < 256 ^ bypp /\
    fin_ok false (f_rmax f) (Z.shiftr P (f_rshift f) mod 65536) a /\
    fin_ok false (f_gmax f) (Z.shiftr P (f_gshift f) mod 65536) b /\
    fin_ok false (f_bmax f) (Z.shiftr P (f_bshift f) mod 65536) c.

Lemma gmaxs_nonneg f bypp : gfmt_ok f bypp -> let '(mr, mg, mb) := gmaxs f in 0 <= mr /\ 0 <= mg /\ 0 <= mb.
Proof. unfold gfmt_ok, gmaxs. destruct (tight888 f); [lia|]. intros (A & B & C & _). auto. Qed.

Lemma grad_src_row f bypp rr : gfmt_ok f bypp -> 1 <= bypp <= 4 -> Forall (in3 (gmaxs f)) rr ->
  Forall2 (src_ok (is888 f) (gmaxs f)) (grad_src f (is888 f) bypp (flat_map (gtobytes f bypp) rr)) rr.
Proof.
  intros Hf Hb Hr. unfold grad_src, gtobytes, gfmt_ok, gmaxs in *. change (is888 f) with (tight888 f). destruct (tight888 f).
  - rewrite (chunks_flat_map _ 3); [|lia|intros [[a b] c]; reflexivity]. rewrite map_map.
    induction Hr as [|[[a b] c] rr H1 H2 IH]; cbn [map]; [constructor|]. constructor; [|exact IH].
    cbn [src_ok]. change (nthz [a; b; c] 0) with a. change (nthz [a; b; c] 1) with b. change (nthz [a; b; c] 2) with c.
    unfold fin_ok. repeat split; intros e He; f_equal; lia.
  - destruct Hf as (M1 & M2 & M3 & Hf).
    rewrite (chunks_flat_map _ bypp); [|lia|intros [[a b] c]; rewrite zlen_lebytes; lia]. rewrite map_map.
    induction Hr as [|[[a b] c] rr H1 H2 IH]; cbn [map]; [constructor|]. constructor; [|exact IH].
    cbn [in3] in H1. destruct H1 as (Ha & Hb' & Hc).
    destruct (Hf a b c Ha Hb' Hc) as (HP & F1 & F2 & F3).
    rewrite le_val_lebytes_mod, Z2Nat.id by lia.
    rewrite (Z.mod_small (Z.shiftl a (f_rshift f) + Z.shiftl b (f_gshift f) + Z.shiftl c (f_bshift f)) (256 ^ bypp)) by exact HP.
    cbn [src_ok]. auto.
Qed.

Lemma grad_enc_rows_shape maxs : (let '(mr, mg, mb) := maxs in 0 <= mr /\ 0 <= mg /\ 0 <= mb) -> forall rows prev,
  Forall2 (fun er r => length er = length r /\ Forall (in3 maxs) er) (grad_enc_rows maxs rows prev) rows.
Proof.
  intros Hm. induction rows as [|r rows IH]; intros prev; cbn [grad_enc_rows]; [constructor|].
  constructor; [apply grad_enc_row_shape; exact Hm|apply IH].
Qed.

Lemma grad_rows_prev_zeros f cut rows n : fst (grad_rows f cut rows (repeat (0, 0, 0) n)) = fst (grad_rows f cut rows []).
Proof.
  destruct rows as [|r rows]; [reflexivity|]. cbn [grad_rows]. rewrite grad_row_prev_zeros. reflexivity.
Qed.

Lemma tight_rows_grad code s0 s' x y w h rowsize tgt ts :
  same_fb s0 s' -> bypp_ok s0 -> 0 <= x -> 0 <= y -> 1 <= w <= 2048 -> x + w <= c_w s0 -> y + h <= c_h s0 -> rows_wf w h tgt ->
  gfmt_ok (c_fmt s0) (bypp_of s0) -> Forall (Forall (gp_ok (c_fmt s0))) tgt ->
  exists last,
    tight_rows code (c_fmt s0) TFGradient (is888 (c_fmt s0)) (bypp_of s0) x y w rowsize
      (map (flat_map (gtobytes (c_fmt s0) (bypp_of s0))) (grad_enc_rows (gmaxs (c_fmt s0)) (map (map (gcomps (c_fmt s0))) tgt) []))
      (repeat (0, 0, 0) (Z.to_nat w)) s' ts
    = Ok last (set_fb s' (blit_spec (c_fb s0) x y tgt)) ts.
Proof.
  intros Hsame [Hb1 Hb2] Hx Hy Hw Hxw Hyh HT Hf Hp. unfold tight_rows.
  set (f := c_fmt s0) in *. set (bypp := bypp_of s0) in *.
  destruct (Z.ltb_spec cGradientRowMax w); [unfold cGradientRowMax in *; lia|].
  pose proof (gmaxs_nonneg f bypp Hf) as Hm.
  set (tgtC := map (map (gcomps f)) tgt).
  assert (HinC : Forall (Forall (in3 (gmaxs f))) tgtC).
  { unfold tgtC. apply Forall_forall. intros r Hr. apply in_map_iff in Hr. destruct Hr as (r0 & <- & Hr0).
    apply Forall_forall. intros c Hc. apply in_map_iff in Hc. destruct Hc as (p & <- & Hp0).
    rewrite Forall_forall in Hp. specialize (Hp r0 Hr0). rewrite Forall_forall in Hp. apply (Hp p Hp0). }
  set (res := grad_enc_rows (gmaxs f) tgtC []).
  pose proof (grad_enc_rows_shape (gmaxs f) Hm tgtC []) as Hshape. fold res in Hshape.
  assert (Hsrc : Forall2 (Forall2 (src_ok (is888 f) (gmaxs f))) (map (grad_src f (is888 f) bypp) (map (flat_map (gtobytes f bypp)) res)) res).
  { rewrite map_map. clear -Hshape Hf Hb1. induction Hshape as [|er r res' rows' [_ H1] H2 IH]; cbn [map]; constructor; [|exact IH].
    apply grad_src_row; auto. lia. }
  pose proof (grad_rows_inv f (is888 f)) as G. cbv zeta in G.
  assert (Emax : (if is888 f then (255, 255, 255) else (f_rmax f, f_gmax f, f_bmax f)) = gmaxs f) by reflexivity.
  rewrite Emax in G. specialize (G Hm tgtC [] _ Hsrc HinC ltac:(constructor)).
  pose proof (grad_rows_prev_zeros f (is888 f) (map (grad_src f (is888 f) bypp) (map (flat_map (gtobytes f bypp)) res)) (Z.to_nat w)) as Z0.
  destruct (grad_rows f (is888 f) (map (grad_src f (is888 f) bypp) (map (flat_map (gtobytes f bypp)) res)) (repeat (0, 0, 0) (Z.to_nat w))) as [rows last].
  cbn [fst] in Z0. rewrite G in Z0.
  assert (Erows : rows = tgt).
  { rewrite Z0. unfold tgtC. rewrite map_map. rewrite <- (map_id tgt) at 2. apply map_ext_in. intros r Hr.
    rewrite map_map. rewrite <- (map_id r) at 2. apply map_ext_in. intros p Hpp.
    rewrite Forall_forall in Hp. specialize (Hp r Hr). rewrite Forall_forall in Hp. destruct (Hp p Hpp) as [_ E].
    unfold gtopix in E. destruct (gcomps f p) as [[a b] c]. exact E. }
  exists last. rewrite Erows.
  erewrite bind_ok; [|eapply write_rows_same; eauto]. reflexivity.
Qed.

(* ---------------------------------------------------------------- HandleTight split into header / filter / payload *)
Definition tight_flt (s : cst) (cc rw : Z) : M (option (tfilter * Z)) :=
  let f := c_fmt s in
  let bypp := bypp_of s in
  if flag cc cTightExplicitFilter then
    fid <- rd_u8 ;;
    if fid =? cTightFilterCopy then ret (Some (TFCopy, if is888 f then 24 else f_bpp f))
    else if fid =? cTightFilterPalette then
      nc <- rd_u8 ;;
      let n := nc + 1 in
      if n <? 2 then ret None else
      if is888 f then
        b <- rd (n * 3) ;;
        ret (Some (TFPalette (map (fun t => rgb24_px32 f (nthz t 0) (nthz t 1) (nthz t 2)) (chunks 3 b)),
                   if n =? 2 then 1 else 8))
      else
        b <- rd (n * bypp) ;;
        ret (Some (TFPalette (px_of_bytes bypp b), if n =? 2 then 1 else 8))
    else if (fid =? cTightFilterGradient) && fixed s 2 && (cGradientRowMax <? rw) then ret None
    else if fid =? cTightFilterGradient then
      (if csizeof_tightPrevRow <? (if is888 f then rw * 3 else rw * 6) then oobM 70 else ret tt) ;;;
      ret (Some (TFGradient, if is888 f then 24 else f_bpp f))
    else failM
  else ret (Some (TFCopy, if is888 f then 24 else f_bpp f)).

Lemma dec_tight_eq rx ry rw rh :
  dec_tight rx ry rw rh =
  (s <- get_st ;;
   c0 <- rd_u8 ;;
   upd_st (fun s => fold_left (fun s i => if flag c0 (2 ^ i) then zact_set s (i + 1) false else s) [0; 1; 2; 3] s) ;;;
   let cc0 := c0 / 16 in
   let nozlib := Z.land cc0 cTightNoZlib =? cTightNoZlib in
   let cc := if nozlib then Z.land cc0 (Z.lnot cTightNoZlib) mod 16 else cc0 in
   if cc =? cTightFill then
     (if is888 (c_fmt s) then b <- rd 3 ;; fill_rect rx ry rw rh (rgb24_px32 (c_fmt s) (nthz b 0) (nthz b 1) (nthz b 2))
      else p <- rd_px (bypp_of s) ;; fill_rect rx ry rw rh p)
   else if cc =? cTightJpeg then (if bypp_of s =? 1 then failM else desyncM 5)
   else if cTightMaxSubencoding <? cc then failM
   else
     fl <- tight_flt s cc rw ;;
     match fl with
     | None => failM
     | Some (flt, bitspixel) => tight_tail s nozlib cc rx ry rw rh flt bitspixel
     end).
Proof. reflexivity. Qed.

Definition bits0 (f : pixfmt) : Z := if is888 f then 24 else f_bpp f.

Lemma tight_flt_basic s cc rw s1 ts : flag cc cTightExplicitFilter = false ->
  tight_flt s cc rw s1 ts = Ok (Some (TFCopy, bits0 (c_fmt s))) s1 ts.
Proof. intros H. unfold tight_flt. cbv zeta. rewrite H. reflexivity. Qed.

Lemma tight_flt_copy s cc rw s1 ts : flag cc cTightExplicitFilter = true ->
  tight_flt s cc rw s1 (toks [cTightFilterCopy] ++ ts) = Ok (Some (TFCopy, bits0 (c_fmt s))) s1 ts.
Proof.
  intros H. unfold tight_flt. cbv zeta. rewrite H. cbn [toks map app].
  erewrite bind_ok; [|apply rd_u8_app; unfold byte_ok, cTightFilterCopy; lia]. rewrite Z.eqb_refl. reflexivity.
Qed.

Lemma tight_flt_grad s cc rw s1 ts : flag cc cTightExplicitFilter = true -> 0 <= rw <= 2048 ->
  tight_flt s cc rw s1 (toks [cTightFilterGradient] ++ ts) = Ok (Some (TFGradient, bits0 (c_fmt s))) s1 ts.
Proof.
  intros H Hw. unfold tight_flt. cbv zeta. rewrite H. cbn [toks map app].
  erewrite bind_ok; [|apply rd_u8_app; unfold byte_ok, cTightFilterGradient; lia].
  change (cTightFilterGradient =? cTightFilterCopy) with false. change (cTightFilterGradient =? cTightFilterPalette) with false.
  rewrite Z.eqb_refl. cbv iota.
  destruct (Z.ltb_spec cGradientRowMax rw); [unfold cGradientRowMax in *; lia|]. rewrite Bool.andb_false_r.
  assert (E : (csizeof_tightPrevRow <? (if is888 (c_fmt s) then rw * 3 else rw * 6)) = false).
  { unfold csizeof_tightPrevRow. destruct (is888 (c_fmt s)); lia. }
  rewrite E. erewrite bind_ok; [|reflexivity]. reflexivity.
Qed.

Lemma tight_flt_pal s cc rw s1 ts pal : flag cc cTightExplicitFilter = true -> bypp_ok s -> 2 <= zlen pal <= 256 ->
  tight_flt s cc rw s1 (toks ([cTightFilterPalette; zlen pal - 1] ++ flat_map (tpixel (c_fmt s)) pal) ++ ts)
  = Ok (Some (TFPalette (map (tp_norm (c_fmt s) (bypp_of s)) pal), if zlen pal =? 2 then 1 else 8)) s1 ts.
Proof.
  intros H [Hb1 Hb2] Hpal. unfold tight_flt. cbv zeta. rewrite H. cbn [app]. rewrite !toks_cons. cbn [app].
  erewrite bind_ok; [|apply rd_u8_app; unfold byte_ok, cTightFilterPalette; lia].
  change (cTightFilterPalette =? cTightFilterCopy) with false. rewrite Z.eqb_refl. cbv iota.
  erewrite bind_ok; [|apply rd_u8_app; unfold byte_ok; lia].
  replace (zlen pal - 1 + 1) with (zlen pal) by lia.
  destruct (Z.ltb_spec (zlen pal) 2); [lia|].
  assert (Hbp : f_bpp (c_fmt s) / 8 = bypp_of s) by reflexivity.
  assert (Hlen : zlen (flat_map (tpixel (c_fmt s)) pal) = zlen pal * tpx (c_fmt s)).
  { rewrite (flat_map_zlen_const _ (tpx (c_fmt s))); [lia|]. intros p. apply tpixel_len. rewrite Hbp. lia. }
  pose proof (tp_dec_pal (c_fmt s) (bypp_of s) pal Hb2 ltac:(lia)) as Edec. unfold tp_dec in Edec.
  unfold tpx in Hlen. change (tight888 (c_fmt s)) with (is888 (c_fmt s)) in Hlen.
  destruct (is888 (c_fmt s)).
  - erewrite bind_ok; [|apply rd_app; [apply flat_map_ok; intros; apply tpixel_ok|now rewrite Hlen]].
    unfold ret. rewrite Edec. reflexivity.
  - erewrite bind_ok; [|apply rd_app; [apply flat_map_ok; intros; apply tpixel_ok|now rewrite Hlen, Hbp]].
    unfold ret. rewrite Edec. reflexivity.
Qed.

(* ---------------------------------------------------------------- a non-fill rectangle *)
Lemma ctl_div resets k : 0 <= resets < 16 -> (resets + 16 * k) / 16 = k.
Proof. intros H. symmetry. apply (Z.div_unique _ 16 k resets); lia. Qed.

Lemma tight_body_ok s x y w h tgt ts z0 a b c d resets sid hdr0 FH flt bits data RD :
  st_wf s -> bypp_ok s -> c_zact s = [z0; a; b; c; d] -> 0 <= resets < 16 -> 0 <= sid < 4 -> hdr0 = 0 \/ hdr0 = 4 ->
  let st1 := st_reset resets [a; b; c; d] in
  let s1 := set_zact s (z0 :: st1) in
  (forall ts', tight_flt s (sid + hdr0) w s1 (toks FH ++ ts') = Ok (Some (flt, bits)) s1 ts') ->
  let rowsize := (w * bits + 7) / 8 in
  1 <= rowsize -> 1 <= h -> zlen data = h * rowsize -> Forall byte_ok data -> chunks rowsize data = RD -> zlen RD = h ->
  rowsize <= Z.land (cRFB_BUFFER_SIZE * bits / (bits + f_bpp (c_fmt s))) 4294967292 ->
  (forall code s' ts', same_fb s s' -> exists last,
     tight_rows code (c_fmt s) flt (is888 (c_fmt s)) (bypp_of s) x y w rowsize RD (repeat (0, 0, 0) (Z.to_nat w)) s' ts'
     = Ok last (set_fb s' (blit_spec (c_fb s) x y tgt)) ts') ->
  dec_tight x y w h s (toks ([resets + 16 * (sid + hdr0)] ++ FH) ++ tight_src data sid st1 ++ ts)
  = Ok tt (set_fb (if zlen data <? cTIGHT_MIN_TO_COMPRESS then s1 else zact_set s1 (sid + 1) true) (blit_spec (c_fb s) x y tgt)) ts.
Proof.
  intros Hs Hbpp Hz Hres Hsid Hh0 st1 s1 Hflt rowsize Hrs Hh Hlen Hdok Hch HRD Hbuf Hrows.
  rewrite dec_tight_eq. erewrite bind_ok; [|reflexivity].
  cbn [app]. rewrite toks_cons. cbn [app].
  assert (Hk : 0 <= sid + hdr0 < 8) by lia.
  erewrite bind_ok; [|apply rd_u8_app; unfold byte_ok; lia].
  erewrite bind_ok.
  2:{ unfold upd_st. rewrite (tight_resets s z0 a b c d resets (sid + hdr0) Hz). reflexivity. }
  fold st1. fold s1. cbv zeta. rewrite (ctl_div resets (sid + hdr0) Hres).
  assert (Hnz : (Z.land (sid + hdr0) cTightNoZlib =? cTightNoZlib) = false /\ (sid + hdr0) mod 4 = sid).
  { assert (Hs4 : sid = 0 \/ sid = 1 \/ sid = 2 \/ sid = 3) by lia.
    destruct Hs4 as [E | [E | [E | E]]]; destruct Hh0 as [E0 | E0]; rewrite E, E0; split; reflexivity. }
  destruct Hnz as [Hnz Hmod]. rewrite Hnz.
  destruct (Z.eqb_spec (sid + hdr0) cTightFill); [unfold cTightFill in *; lia|].
  destruct (Z.eqb_spec (sid + hdr0) cTightJpeg); [unfold cTightJpeg in *; lia|].
  destruct (Z.ltb_spec cTightMaxSubencoding (sid + hdr0)); [unfold cTightMaxSubencoding in *; lia|].
  erewrite bind_ok; [|apply Hflt].
  assert (Hsame : same_fb s s1).
  { split; [eapply st_wf_ext; [| | |exact Hs]; reflexivity|]. repeat split. }
  apply (tight_tail_ok s s1 (sid + hdr0) sid x y w h flt bits data RD tgt ts z0 st1 Hsame eq_refl Hsid Hmod Hrs Hh Hlen Hdok Hch HRD Hbuf).
  intros code s' Hs'. apply Hrows. exact Hs'.
Qed.

(* ---------------------------------------------------------------- fill *)
Lemma tight_fill_ok s x y w h c ts z0 a b c1 d resets :
  st_wf s -> bypp_ok s -> c_zact s = [z0; a; b; c1; d] -> 0 <= resets < 16 ->
  0 <= x -> 0 <= y -> 0 <= w -> 0 <= h -> x + w <= c_w s -> y + h <= c_h s -> tp_ok (c_fmt s) c ->
  dec_tight x y w h s (toks ([resets + 16 * cTightFill] ++ tpixel (c_fmt s) c) ++ ts)
  = Ok tt (set_fb (set_zact s (z0 :: st_reset resets [a; b; c1; d])) (blit_spec (c_fb s) x y (fill_rows w h c))) ts.
Proof.
  intros Hs [Hb1 Hb2] Hz Hres Hx Hy Hw Hh Hxw Hyh Hc.
  rewrite dec_tight_eq. erewrite bind_ok; [|reflexivity].
  cbn [app]. rewrite toks_cons. cbn [app].
  erewrite bind_ok; [|apply rd_u8_app; unfold byte_ok, cTightFill; lia].
  erewrite bind_ok.
  2:{ unfold upd_st. rewrite (tight_resets s z0 a b c1 d resets cTightFill Hz). reflexivity. }
  set (s1 := set_zact s (z0 :: st_reset resets [a; b; c1; d])).
  cbv zeta. rewrite (ctl_div resets cTightFill Hres).
  change (Z.land cTightFill cTightNoZlib =? cTightNoZlib) with false. cbv iota. rewrite Z.eqb_refl.
  assert (Hs1 : st_wf s1) by (eapply st_wf_ext; [| | |exact Hs]; reflexivity).
  unfold tp_ok, tpixel in *. change (is888 (c_fmt s)) with (tight888 (c_fmt s)).
  destruct (tight888 (c_fmt s)).
  - erewrite bind_ok; [|apply (rd_app 3 s1 _ ts); [repeat (constructor; [apply comp_byte|]); constructor|reflexivity]].
    unfold nthz. cbn [nth].
    rewrite Hc. apply (fill_rect_spec s1 x y w h c ts Hs1); auto.
  - assert (Hbp : f_bpp (c_fmt s) / 8 = bypp_of s) by reflexivity. rewrite Hbp in *.
    erewrite bind_ok; [|apply rd_px_app; [lia|exact Hc]].
    apply (fill_rect_spec s1 x y w h c ts Hs1); auto.
Qed.

(* ---------------------------------------------------------------- the reference encoder's rectangles *)
Lemma tight_case s x y w h tgt ts z0 a b c d resets sid hdr0 FH flt bits data RD :
  st_wf s -> bypp_ok s -> c_zact s = [z0; a; b; c; d] -> 0 <= resets < 16 -> 0 <= sid < 4 -> hdr0 = 0 \/ hdr0 = 4 ->
  let st1 := st_reset resets [a; b; c; d] in
  let s1 := set_zact s (z0 :: st1) in
  (forall ts', tight_flt s (sid + hdr0) w s1 (toks FH ++ ts') = Ok (Some (flt, bits)) s1 ts') ->
  let rowsize := (w * bits + 7) / 8 in
  1 <= rowsize -> 1 <= h -> zlen data = h * rowsize -> Forall byte_ok data -> chunks rowsize data = RD -> zlen RD = h ->
  rowsize <= Z.land (cRFB_BUFFER_SIZE * bits / (bits + f_bpp (c_fmt s))) 4294967292 ->
  (forall code s' ts', same_fb s s' -> exists last,
     tight_rows code (c_fmt s) flt (is888 (c_fmt s)) (bypp_of s) x y w rowsize RD (repeat (0, 0, 0) (Z.to_nat w)) s' ts'
     = Ok last (set_fb s' (blit_spec (c_fb s) x y tgt)) ts') ->
  let ctl := resets + 16 * (sid + hdr0) in
  let enc := if zlen data <? cTIGHT_MIN_TO_COMPRESS
             then (toks ([ctl] ++ FH ++ data), st1)
             else (toks ([ctl] ++ FH) ++ [TZ (sid + 1) (negb (nth (Z.to_nat sid) st1 false)) true data],
                   map (fun i => if i =? sid then true else nth (Z.to_nat i) st1 false) [0; 1; 2; 3]) in
  dec_tight x y w h s (fst enc ++ ts) = Ok tt (set_fb (set_zact s (z0 :: snd enc)) (blit_spec (c_fb s) x y tgt)) ts.
Proof.
  intros Hs Hbpp Hz Hres Hsid Hh0 st1 s1 Hflt rowsize Hrs Hh Hlen Hdok Hch HRD Hbuf Hrows ctl enc.
  pose proof (tight_body_ok s x y w h tgt ts z0 a b c d resets sid hdr0 FH flt bits data RD
                Hs Hbpp Hz Hres Hsid Hh0 Hflt Hrs Hh Hlen Hdok Hch HRD Hbuf Hrows) as E.
  fold st1 in E. fold s1 in E. unfold tight_src in E. unfold enc.
  destruct (zlen data <? cTIGHT_MIN_TO_COMPRESS).
  - cbn [fst snd]. unfold ctl. rewrite app_assoc, toks_app, <- app_assoc. exact E.
  - cbn [fst snd]. unfold ctl. rewrite <- app_assoc. rewrite E. do 2 f_equal.
    unfold zact_set, s1, st1, st_reset. cbn [c_zact set_zact map]. rewrite set_zact_twice. f_equal.
    assert (Hs4 : sid = 0 \/ sid = 1 \/ sid = 2 \/ sid = 3) by lia.
    destruct Hs4 as [E0 | [E0 | [E0 | E0]]]; rewrite E0; reflexivity.
Qed.

Lemma div8r a : (a * 8 + 7) / 8 = a.
Proof. symmetry. apply (Z.div_unique _ 8 a 7); lia. Qed.

Lemma rowsize0 f bypp w : f_bpp f = 8 * bypp -> (w * bits0 f + 7) / 8 = w * tpx f.
Proof.
  intros Hb. unfold bits0, tpx. change (is888 f) with (tight888 f). destruct (tight888 f).
  - replace (w * 24) with (w * 3 * 8) by lia. apply div8r.
  - rewrite Hb. replace (8 * bypp / 8) with bypp by (replace (8 * bypp) with (bypp * 8) by lia; now rewrite Z.div_mul by lia).
    replace (w * (8 * bypp)) with (w * bypp * 8) by lia. apply div8r.
Qed.

Lemma bufsize_ok f bypp bits : (bypp = 1 \/ bypp = 2 \/ bypp = 4) -> f_bpp f = 8 * bypp ->
  bits = 1 \/ bits = 8 \/ bits = bits0 f ->
  8192 <= Z.land (cRFB_BUFFER_SIZE * bits / (bits + f_bpp f)) 4294967292.
Proof.
  intros Hb Hf Hbits. unfold bits0, cRFB_BUFFER_SIZE in *. rewrite Hf.
  assert (H888 : is888 f = true -> bypp = 4).
  { unfold is888. intros H. assert (f_bpp f = 32) by lia. lia. }
  destruct (is888 f) eqn:E8.
  - rewrite (H888 eq_refl) in *. destruct Hbits as [->|[->| ->]]; cbn; lia.
  - destruct Hb as [->|[->| ->]]; destruct Hbits as [->|[->|H]]; try rewrite H, Hf; cbn; lia.
Qed.

Lemma tpx_range f bypp : (bypp = 1 \/ bypp = 2 \/ bypp = 4) -> f_bpp f = 8 * bypp -> 1 <= tpx f <= 4.
Proof.
  intros Hb Hf. unfold tpx. destruct (tight888 f); [lia|]. rewrite Hf.
  replace (8 * bypp / 8) with bypp by (replace (8 * bypp) with (bypp * 8) by lia; now rewrite Z.div_mul by lia). lia.
Qed.

Lemma flag_explicit sid : 0 <= sid < 4 -> flag (sid + 0) cTightExplicitFilter = false /\ flag (sid + 4) cTightExplicitFilter = true.
Proof.
  intros H. assert (Hs4 : sid = 0 \/ sid = 1 \/ sid = 2 \/ sid = 3) by lia.
  destruct Hs4 as [E | [E | [E | E]]]; rewrite E; split; reflexivity.
Qed.

Lemma chunks_rows {A} (g : A -> list Z) k w (rows : list (list A)) : 1 <= k -> 1 <= w ->
  (forall a, zlen (g a) = k) -> Forall (fun r => zlen r = w) rows ->
  chunks (w * k) (flat_map g (concat rows)) = map (flat_map g) rows.
Proof.
  intros Hk Hw Hg Hr. rewrite flat_map_concat'. apply chunks_concat; [nia|].
  apply Forall_forall. intros b Hb. apply in_map_iff in Hb. destruct Hb as (r & <- & Hin).
  rewrite Forall_forall in Hr. rewrite (flat_map_zlen_const g k r Hg), (Hr r Hin). lia.
Qed.

Lemma pal_facts ch cols (n := zlen cols) : 1 <= n <= 256 ->
  let extra := Z.min (pick ch 3 3) (256 - n) in
  let extra' := if n + extra <? 2 then 1 else extra in
  forall pxmod, 2 <= zlen (cols ++ pad_palette ch 10 (Z.to_nat extra') pxmod) <= 256.
Proof.
  intros Hn extra extra' pxmod. pose proof (pick_range1 ch 3 3) as Hp.
  rewrite zlen_app. replace (zlen (pad_palette ch 10 (Z.to_nat extra') pxmod)) with (Z.of_nat (Z.to_nat extra'))
    by (unfold zlen; now rewrite pad_palette_len). fold n.
  unfold extra', extra. destruct (Z.ltb_spec (n + Z.min (pick ch 3 3) (256 - n)) 2); lia.
Qed.

Lemma flat_map_zlen_in {A} (g : A -> list Z) k l : (forall a, In a l -> zlen (g a) = k) -> zlen (flat_map g l) = k * zlen l.
Proof.
  induction l as [|a l IH]; intros H; cbn [flat_map]; [unfold zlen; cbn; lia|].
  rewrite zlen_app, zlen_cons, IH, H; [lia|now left|intros; apply H; now right].
Qed.

Lemma chunks_flat_map_in {A} (g : A -> list Z) k l : 1 <= k -> (forall a, In a l -> zlen (g a) = k) -> chunks k (flat_map g l) = map g l.
Proof.
  intros Hk Hg. rewrite flat_map_concat_map. apply chunks_concat; [exact Hk|].
  apply Forall_forall. intros r Hr. apply in_map_iff in Hr. destruct Hr as (a & <- & Ha). now apply Hg.
Qed.

Lemma concat_map_map {A B} (g : A -> B) (l : list (list A)) : map g (concat l) = concat (map (map g) l).
Proof. induction l as [|r l IH]; [reflexivity|]. cbn [concat map]. now rewrite map_app, IH. Qed.

(* ---------------------------------------------------------------- HandleTight *)
Definition tpix_ok (f : pixfmt) (p : Z) : Prop := tp_ok f p /\ gp_ok f p.

Definition tight_enc (resets sid : Z) (st1 : list bool) (hdr0 : Z) (FH data : list Z) : list tok * list bool :=
  if zlen data <? cTIGHT_MIN_TO_COMPRESS
  then (toks ([resets + 16 * (sid + hdr0)] ++ FH ++ data), st1)
  else (toks ([resets + 16 * (sid + hdr0)] ++ FH) ++ [TZ (sid + 1) (negb (nth (Z.to_nat sid) st1 false)) true data],
        map (fun i => if i =? sid then true else nth (Z.to_nat i) st1 false) [0; 1; 2; 3]).

Section TightCases.
  Variables (ch : Z -> Z) (s : cst) (x y w h : Z) (tgt : list (list Z)) (ts : list tok) (z0 a b c d : bool) (resets sid : Z).
  Hypothesis Hs : st_wf s.
  Hypothesis Hbpp : bypp_ok s.
  Hypothesis Hz : c_zact s = [z0; a; b; c; d].
  Hypothesis Hgf : gfmt_ok (c_fmt s) (bypp_of s).
  Hypothesis Hx : 0 <= x.
  Hypothesis Hy : 0 <= y.
  Hypothesis Hw : 1 <= w <= 2048.
  Hypothesis Hh : 1 <= h.
  Hypothesis Hxw : x + w <= c_w s.
  Hypothesis Hyh : y + h <= c_h s.
  Hypothesis HT : rows_wf w h tgt.
  Hypothesis Hp : Forall (Forall (tpix_ok (c_fmt s))) tgt.
  Hypothesis Hres : 0 <= resets < 16.
  Hypothesis Hsid : 0 <= sid < 4.
  Let f := c_fmt s.
  Let bypp := bypp_of s.
  Let st1 := st_reset resets [a; b; c; d].
  Let pix := concat tgt.

  Definition tight_goal (enc : list tok * list bool) : Prop :=
    dec_tight x y w h s (fst enc ++ ts) = Ok tt (set_fb (set_zact s (z0 :: snd enc)) (blit_spec (c_fb s) x y tgt)) ts.

  Lemma Hpixlen : zlen pix = w * h.
  Proof. destruct HT as [T1 T2]. unfold pix. rewrite (concat_zlen w tgt T2), T1. reflexivity. Qed.

  Lemma tight_enc_copy hdr0 FH : (hdr0 = 0 /\ FH = [] \/ hdr0 = 4 /\ FH = [cTightFilterCopy]) ->
    tight_goal (tight_enc resets sid st1 hdr0 FH (flat_map (tpixel f) pix)).
  Proof.
    intros Hcase. destruct Hbpp as [Hb1 Hb2]. destruct HT as [T1 T2].
    assert (Hbp : f_bpp f / 8 = bypp) by reflexivity.
    pose proof (tpx_range f bypp Hb1 Hb2) as Htpx. pose proof Hpixlen as Hpix.
    destruct (flag_explicit sid Hsid) as [Hfl0 Hfl4].
    assert (Hrs0 : (w * bits0 f + 7) / 8 = w * tpx f) by (apply (rowsize0 f bypp w Hb2)).
    unfold tight_goal, tight_enc.
    apply (tight_case s x y w h tgt ts z0 a b c d resets sid hdr0 FH TFCopy (bits0 f) (flat_map (tpixel f) pix) (map (flat_map (tpixel f)) tgt)
             Hs Hbpp Hz Hres Hsid ltac:(destruct Hcase as [[? _]|[? _]]; auto)).
    - intros ts'. destruct Hcase as [[E1 E2]|[E1 E2]]; rewrite E1, E2; [apply tight_flt_basic; exact Hfl0|apply tight_flt_copy; exact Hfl4].
    - rewrite Hrs0. nia.
    - lia.
    - rewrite Hrs0. rewrite (flat_map_zlen_const _ (tpx f)); [rewrite Hpix; lia|]. intros p. apply tpixel_len. rewrite Hbp. lia.
    - apply flat_map_ok. intros; apply tpixel_ok.
    - rewrite Hrs0. unfold pix. apply chunks_rows; try lia; [|exact T2]. intros p. apply tpixel_len. rewrite Hbp. lia.
    - rewrite zlen_map. exact T1.
    - pose proof (bufsize_ok f bypp (bits0 f) Hb1 Hb2 ltac:(auto)) as Hbs. rewrite Hrs0. fold f.
      assert (w * tpx f <= 8192) by nia. lia.
    - intros code s' ts' Hs'. exists (repeat (0, 0, 0) (Z.to_nat w)).
      apply (tight_rows_copy code s s' x y w h _ tgt _ ts' Hs' (conj Hb1 Hb2)); auto; try lia.
      eapply Forall_impl; [|exact Hp]. intros r Hr. eapply Forall_impl; [|exact Hr]. intros p Hpp. apply Hpp.
  Qed.

  Lemma tight_enc_pal pal : 2 <= zlen pal <= 256 -> (forall p, In p pix -> In p pal) ->
    tight_goal (tight_enc resets sid st1 cTightExplicitFilter ([cTightFilterPalette; zlen pal - 1] ++ flat_map (tpixel f) pal)
                  (if zlen pal =? 2 then flat_map (fun r => pack_row 1 (map (fun p => index_of p pal) r)) tgt
                   else map (fun p => index_of p pal) pix)).
  Proof.
    intros Hpl Hinpal. destruct Hbpp as [Hb1 Hb2]. destruct HT as [T1 T2].
    destruct (flag_explicit sid Hsid) as [Hfl0 Hfl4].
    assert (Hpixr : forall r, In r tgt -> forall p, In p r -> In p pix).
    { intros r Hr p Hpr. unfold pix. apply in_concat. exists r. split; assumption. }
    assert (Hin : Forall (Forall (fun p => In p pal /\ tp_ok f p)) tgt).
    { apply Forall_forall. intros r Hr. apply Forall_forall. intros p Hpr. split; [apply Hinpal, (Hpixr r Hr p Hpr)|].
      rewrite Forall_forall in Hp. specialize (Hp r Hr). rewrite Forall_forall in Hp. apply (Hp p Hpr). }
    assert (Hidx : forall r, In r tgt -> Forall (fun i => 0 <= i < zlen pal) (map (fun p => index_of p pal) r)).
    { intros r Hr. apply Forall_forall. intros i Hi. apply in_map_iff in Hi. destruct Hi as (p & <- & Hpi).
      rewrite Forall_forall in Hin. specialize (Hin r Hr). rewrite Forall_forall in Hin. destruct (Hin p Hpi) as [Hpin _].
      apply (index_of_spec p pal Hpin). }
    assert (Hrw : forall r, In r tgt -> zlen r = w) by (intros r Hr; rewrite Forall_forall in T2; now apply T2).
    assert (Hprl : forall r, In r tgt -> zlen (pack_row 1 (map (fun p => index_of p pal) r)) = (w * 1 + 7) / 8).
    { intros r Hr. rewrite (pack_row_len 1 ltac:(auto)), zlen_map, (Hrw r Hr). change (8 / 1) with 8. f_equal. lia. }
    assert (H18 : 1 <= (w * 1 + 7) / 8) by (apply Z.div_le_lower_bound; lia).
    unfold tight_goal, tight_enc.
    apply (tight_case s x y w h tgt ts z0 a b c d resets sid cTightExplicitFilter
             ([cTightFilterPalette; zlen pal - 1] ++ flat_map (tpixel f) pal)
             (TFPalette (map (tp_norm f bypp) pal)) (if zlen pal =? 2 then 1 else 8) _
             (if zlen pal =? 2 then map (fun r => pack_row 1 (map (fun p => index_of p pal) r)) tgt
              else map (map (fun p => index_of p pal)) tgt)
             Hs Hbpp Hz Hres Hsid ltac:(right; reflexivity)).
    - intros ts'. apply (tight_flt_pal s (sid + cTightExplicitFilter) w _ ts' pal Hfl4 (conj Hb1 Hb2) Hpl).
    - destruct (zlen pal =? 2); [exact H18|rewrite div8r; lia].
    - lia.
    - destruct (Z.eqb_spec (zlen pal) 2).
      + rewrite (flat_map_zlen_in _ ((w * 1 + 7) / 8)); [rewrite T1; lia|exact Hprl].
      + rewrite div8r, zlen_map. rewrite Hpixlen. lia.
    - destruct (Z.eqb_spec (zlen pal) 2).
      + apply Forall_forall. intros bb Hbb. apply in_flat_map in Hbb. destruct Hbb as (r & Hr & Hbb).
        assert (Hi1 : Forall (fun dd => 0 <= dd < 2 ^ 1) (map (fun p => index_of p pal) r)).
        { eapply Forall_impl; [|apply (Hidx r Hr)]. intros i Hi. cbn beta in *. change (2 ^ 1) with 2. lia. }
        pose proof (pack_row_ok 1 ltac:(auto) _ Hi1) as G. rewrite Forall_forall in G. now apply G.
      + apply Forall_forall. intros i Hi. apply in_map_iff in Hi. destruct Hi as (p & <- & Hpi).
        destruct (index_of_spec p pal (Hinpal p Hpi)) as [I1 _]. unfold byte_ok. lia.
    - destruct (Z.eqb_spec (zlen pal) 2).
      + apply chunks_flat_map_in; [exact H18|exact Hprl].
      + rewrite div8r. unfold pix. rewrite concat_map_map. apply chunks_concat; [lia|].
        apply Forall_forall. intros r Hr. apply in_map_iff in Hr. destruct Hr as (r0 & <- & Hr0). rewrite zlen_map. now apply Hrw.
    - destruct (zlen pal =? 2); rewrite zlen_map; exact T1.
    - pose proof (bufsize_ok f bypp (if zlen pal =? 2 then 1 else 8) Hb1 Hb2 ltac:(destruct (zlen pal =? 2); auto)) as Hbs.
      fold f. destruct (zlen pal =? 2).
      + assert ((w * 1 + 7) / 8 <= 8192) by (apply Z.div_le_upper_bound; lia). lia.
      + rewrite div8r. lia.
    - intros code s' ts' Hs'. exists (repeat (0, 0, 0) (Z.to_nat w)).
      apply (tight_rows_pal code s s' x y w h _ pal tgt _ ts' Hs' (conj Hb1 Hb2)); auto; try lia.
  Qed.
End TightCases.

Lemma concat_zlen_gen {A} w (rows : list (list A)) : Forall (fun r => zlen r = w) rows -> zlen (concat rows) = w * zlen rows.
Proof.
  induction 1 as [|r rows Hr1 Hr2 IH]; cbn [concat]; [unfold zlen; cbn; lia|].
  rewrite zlen_app, zlen_cons, IH, Hr1. lia.
Qed.

Lemma tight_enc_grad s x y w h tgt ts z0 a b c d resets sid :
  st_wf s -> bypp_ok s -> c_zact s = [z0; a; b; c; d] -> gfmt_ok (c_fmt s) (bypp_of s) ->
  0 <= x -> 0 <= y -> 1 <= w <= 2048 -> 1 <= h -> x + w <= c_w s -> y + h <= c_h s ->
  rows_wf w h tgt -> Forall (Forall (tpix_ok (c_fmt s))) tgt -> 0 <= resets < 16 -> 0 <= sid < 4 ->
  tight_goal s x y w h tgt ts z0
    (tight_enc resets sid (st_reset resets [a; b; c; d]) cTightExplicitFilter [cTightFilterGradient]
       (flat_map (gtobytes (c_fmt s) (bypp_of s))
          (concat (grad_enc_rows (gmaxs (c_fmt s)) (map (map (gcomps (c_fmt s))) tgt) [])))).
Proof.
  intros Hs Hbpp Hz Hgf Hx Hy Hw Hh Hxw Hyh HT Hp Hres Hsid.
  destruct Hbpp as [Hb1 Hb2]. destruct HT as [T1 T2].
  set (f := c_fmt s) in *. set (bypp := bypp_of s) in *.
  assert (Hbp : f_bpp f / 8 = bypp) by reflexivity.
  pose proof (tpx_range f bypp Hb1 Hb2) as Htpx.
  destruct (flag_explicit sid Hsid) as [Hfl0 Hfl4].
  assert (Hrs0 : (w * bits0 f + 7) / 8 = w * tpx f) by (apply (rowsize0 f bypp w Hb2)).
  pose proof (gmaxs_nonneg f bypp Hgf) as Hm.
  set (tgtC := map (map (gcomps f)) tgt).
  set (res := grad_enc_rows (gmaxs f) tgtC []).
  pose proof (grad_enc_rows_shape (gmaxs f) Hm tgtC []) as Hshape. fold res in Hshape.
  assert (Hresw : Forall (fun r => zlen r = w) res /\ zlen res = h /\ Forall (Forall (in3 (gmaxs f))) res).
  { assert (G : Forall2 (fun (er : list t3) (r : list Z) => length er = length r /\ Forall (in3 (gmaxs f)) er) res tgt).
    { unfold tgtC in Hshape. clear -Hshape. remember (map (map (gcomps f)) tgt) as rows eqn:E. revert tgt E.
      induction Hshape as [|er r res' rows' [H1 H2] H3 IH]; intros tgt E.
      - destruct tgt; [constructor|discriminate].
      - destruct tgt as [|r0 tgt']; [discriminate|]. cbn [map] in E. inversion E; subst. constructor.
        + split; [now rewrite H1, map_length|exact H2].
        + now apply IH. }
    clear -G T1 T2. revert T1 T2. generalize h. induction G as [|er r res' tgt' [H1 H2] H3 IH]; intros h0 T1 T2.
    - split; [constructor|]. split; [exact T1|constructor].
    - rewrite zlen_cons in T1. pose proof (Forall_inv T2) as Hr. cbn beta in Hr.
      destruct (IH (h0 - 1) ltac:(lia) (Forall_inv_tail T2)) as (I1 & I2 & I3).
      split; [constructor; [cbn beta; unfold zlen in *; lia|exact I1]|]. split; [rewrite zlen_cons; lia|constructor; assumption]. }
  destruct Hresw as (R1 & R2 & R3).
  assert (Hgl : forall t : t3, In t (concat res) -> zlen (gtobytes f bypp t) = tpx f).
  { intros [[a0 b0] c0] _. unfold gtobytes, tpx. destruct (tight888 f); [reflexivity|]. rewrite zlen_lebytes, Hbp. lia. }
  assert (Hcl : zlen (concat res) = w * h) by (rewrite (concat_zlen_gen w res R1), R2; reflexivity).
  unfold tight_goal, tight_enc.
  apply (tight_case s x y w h tgt ts z0 a b c d resets sid cTightExplicitFilter [cTightFilterGradient] TFGradient (bits0 f) _
           (map (flat_map (gtobytes f bypp)) res) Hs (conj Hb1 Hb2) Hz Hres Hsid ltac:(right; reflexivity)).
  - intros ts'. apply tight_flt_grad; [exact Hfl4|lia].
  - rewrite Hrs0. nia.
  - lia.
  - rewrite Hrs0. rewrite (flat_map_zlen_in _ (tpx f)); [rewrite Hcl; lia|exact Hgl].
  - apply Forall_forall. intros bb Hbb. apply in_flat_map in Hbb. destruct Hbb as ([[a0 b0] c0] & Ht & Hbb).
    unfold gtobytes in Hbb. destruct (tight888 f) eqn:E8.
    + assert (Hin3 : in3 (gmaxs f) (a0, b0, c0)).
      { apply in_concat in Ht. destruct Ht as (r & Hr & Htr). rewrite Forall_forall in R3. specialize (R3 r Hr).
        rewrite Forall_forall in R3. now apply R3. }
      unfold gmaxs in Hin3. rewrite E8 in Hin3. cbn [in3] in Hin3. unfold byte_ok.
      destruct Hbb as [<-|[<-|[<-|[]]]]; lia.
    + pose proof (lebytes_ok (Z.to_nat bypp) (Z.shiftl a0 (f_rshift f) + Z.shiftl b0 (f_gshift f) + Z.shiftl c0 (f_bshift f))) as G.
      rewrite Forall_forall in G. now apply G.
  - rewrite Hrs0. rewrite flat_map_concat'. apply chunks_concat; [nia|].
    apply Forall_forall. intros bb Hbb. apply in_map_iff in Hbb. destruct Hbb as (r & <- & Hr).
    rewrite (flat_map_zlen_in _ (tpx f)).
    + rewrite Forall_forall in R1. rewrite (R1 r Hr). lia.
    + intros t Ht. apply Hgl. apply in_concat. exists r. split; assumption.
  - rewrite zlen_map. exact R2.
  - pose proof (bufsize_ok f bypp (bits0 f) Hb1 Hb2 ltac:(auto)) as Hbs. rewrite Hrs0. fold f.
    assert (w * tpx f <= 8192) by nia. lia.
  - intros code s' ts' Hs'.
    apply (tight_rows_grad code s s' x y w h _ tgt ts' Hs' (conj Hb1 Hb2) Hx Hy Hw Hxw Hyh (conj T1 T2) Hgf).
    eapply Forall_impl; [|exact Hp]. intros r Hr. eapply Forall_impl; [|exact Hr]. intros p Hpp. apply Hpp.
Qed.

Theorem roundtrip_tight ch s x y w h tgt ts z0 a b c d :
  st_wf s -> bypp_ok s -> c_zact s = [z0; a; b; c; d] -> gfmt_ok (c_fmt s) (bypp_of s) ->
  0 <= x -> 0 <= y -> 1 <= w <= 2048 -> 1 <= h -> x + w <= c_w s -> y + h <= c_h s ->
  rows_wf w h tgt -> Forall (Forall (tpix_ok (c_fmt s))) tgt ->
  dec_tight x y w h s (fst (ref_tight ch (c_fmt s) w h tgt [a; b; c; d]) ++ ts)
  = Ok tt (set_fb (set_zact s (z0 :: snd (ref_tight ch (c_fmt s) w h tgt [a; b; c; d]))) (blit_spec (c_fb s) x y tgt)) ts.
Proof.
  intros Hs Hbpp Hz Hgf Hx Hy Hw Hh Hxw Hyh HT Hp. pose proof Hbpp as [Hb1 Hb2]. pose proof HT as [T1 T2].
  set (f := c_fmt s) in *. set (bypp := bypp_of s) in *.
  assert (Hpix : zlen (concat tgt) = w * h) by (rewrite (concat_zlen w tgt T2), T1; reflexivity).
  assert (Hok1 : Forall (tp_ok f) (concat tgt)).
  { apply Forall_concat. eapply Forall_impl; [|exact Hp]. intros r Hr. eapply Forall_impl; [|exact Hr]. intros p Hpp. apply Hpp. }
  unfold ref_tight. cbv zeta.
  set (pix := concat tgt) in *. set (cols := distinct pix). set (n := zlen cols).
  set (resets := pick ch 0 16).
  assert (Hres : 0 <= resets < 16) by (apply pick_range; lia).
  change (map (fun i => if Z.testbit resets i then false else nth (Z.to_nat i) [a; b; c; d] false) [0; 1; 2; 3])
    with (st_reset resets [a; b; c; d]).
  set (st1 := st_reset resets [a; b; c; d]).
  assert (Hcols : forall p, In p pix -> In p cols) by (intros p Hpi; now apply distinct_In).
  assert (Hcols' : forall p, In p cols -> In p pix) by (intros p Hpi; now apply distinct_In).
  assert (Hn1 : 1 <= n).
  { destruct pix as [|p0 pix'] eqn:E; [unfold zlen in Hpix; cbn in Hpix; nia|].
    assert (In p0 cols) by (apply Hcols; now left). unfold n. destruct cols; [contradiction|]. rewrite zlen_cons. pose proof (zlen_nonneg cols). lia. }
  destruct ((n =? 1) && (pick ch 1 5 =? 0)) eqn:Efill.
  { (* fill *)
    cbn [fst snd]. assert (En : n = 1) by lia.
    assert (Hc1 : exists c0, cols = [c0]).
    { unfold n in En. destruct cols as [|c0 [|c2 cols']]; [unfold zlen in En; cbn in En; lia|now exists c0|].
      rewrite !zlen_cons in En. pose proof (zlen_nonneg cols'). lia. }
    destruct Hc1 as [c0 Hc1]. rewrite Hc1. cbn [nth].
    assert (Hall : forall p, In p pix -> p = c0).
    { intros p Hpi. apply Hcols in Hpi. rewrite Hc1 in Hpi. destruct Hpi as [->|[]]. reflexivity. }
    rewrite (fill_rows_eq w h c0 tgt HT Hall).
    apply tight_fill_ok; auto; try lia.
    rewrite Forall_forall in Hok1. apply Hok1. apply Hcols'. rewrite Hc1. now left. }
  set (sid := pick ch 2 4). assert (Hsid : 0 <= sid < 4) by (apply pick_range; lia).
  destruct ((pick ch 1 5 =? 2) && (n <=? 256) && (2 <=? n) || (pick ch 1 5 =? 0) && (n =? 1)) eqn:Epal.
  { (* palette filter *)
    assert (Hn256 : 1 <= n <= 256) by lia.
    pose proof (pal_facts ch cols Hn256 (2 ^ f_bpp f)) as Hpl. cbv zeta in Hpl. fold n in Hpl.
    match goal with |- context [zlen ?pl - 1] => set (pal := pl) in * end.
    cbn [app nth skipn].
    apply (tight_enc_pal s x y w h tgt ts z0 a b c d resets sid Hs Hbpp Hz Hx Hy Hw Hh Hxw Hyh HT Hp Hres Hsid pal Hpl).
    intros p Hpi. unfold pal. apply in_or_app. left. now apply Hcols. }
  destruct ((pick ch 1 5 =? 3) && (2 <=? f_bpp f / 8)) eqn:Egr.
  { cbn [app nth skipn].
    apply (tight_enc_grad s x y w h tgt ts z0 a b c d resets sid Hs Hbpp Hz Hgf Hx Hy Hw Hh Hxw Hyh HT Hp Hres Hsid). }
  destruct (pick ch 1 5 =? 4).
  { cbn [app nth skipn].
    apply (tight_enc_copy s x y w h tgt ts z0 a b c d resets sid Hs Hbpp Hz Hx Hy Hw Hh Hxw Hyh HT Hp Hres Hsid 4 [cTightFilterCopy]).
    right. split; reflexivity. }
  cbn [app nth skipn].
  apply (tight_enc_copy s x y w h tgt ts z0 a b c d resets sid Hs Hbpp Hz Hx Hy Hw Hh Hxw Hyh HT Hp Hres Hsid 0 []).
  left. split; reflexivity.
Qed.

(* ---------------------------------------------------------------- the format hypothesis holds for the usual formats *)
Lemma gfmt_ok_888 f bypp : tight888 f = true -> gfmt_ok f bypp.
Proof. intros H. unfold gfmt_ok. now rewrite H. Qed.

Lemma land_ones_mod a k : 0 <= k -> Z.land a (2 ^ k - 1) = a mod 2 ^ k.
Proof. intros Hk. replace (2 ^ k - 1) with (Z.ones k) by (rewrite Z.ones_equiv; lia). now apply Z.land_ones. Qed.

Example gfmt_ok_565 : gfmt_ok (mkfmt 16 16 false 31 63 31 11 5 0) 2.
Proof.
  unfold gfmt_ok. change (tight888 (mkfmt 16 16 false 31 63 31 11 5 0)) with false. cbv iota. cbn [f_rmax f_gmax f_bmax f_rshift f_gshift f_bshift].
  repeat split; try lia.
  - rewrite !Z.shiftl_mul_pow2 by lia. cbn. lia.
  - rewrite !Z.shiftl_mul_pow2 by lia. cbn. lia.
  - intros e He. rewrite !Z.shiftl_mul_pow2, Z.shiftr_div_pow2 by lia. change (2 ^ 11) with 2048. change (2 ^ 5) with 32. change (2 ^ 0) with 1.
    replace ((a * 2048 + b * 32 + c * 1) / 2048) with a by (apply (Z.div_unique _ 2048 a (b * 32 + c)); lia).
    rewrite (Z.mod_small a 65536) by lia. change 31 with (2 ^ 5 - 1). rewrite land_ones_mod by lia. reflexivity.
  - intros e He. rewrite !Z.shiftl_mul_pow2, Z.shiftr_div_pow2 by lia. change (2 ^ 11) with 2048. change (2 ^ 5) with 32. change (2 ^ 0) with 1.
    replace ((a * 2048 + b * 32 + c * 1) / 32) with (a * 64 + b) by (apply (Z.div_unique _ 32 (a * 64 + b) c); lia).
    rewrite (Z.mod_small (a * 64 + b) 65536) by lia. change 63 with (2 ^ 6 - 1). rewrite land_ones_mod by lia. change (2 ^ 6) with 64. change (2 ^ 6 - 1 + 1) with 64.
    replace (a * 64 + b + e) with (b + e + a * 64) by lia. apply Z.mod_add. lia.
  - intros e He. rewrite !Z.shiftl_mul_pow2, Z.shiftr_div_pow2 by lia. change (2 ^ 11) with 2048. change (2 ^ 5) with 32. change (2 ^ 0) with 1.
    rewrite Z.div_1_r. rewrite (Z.mod_small (a * 2048 + b * 32 + c * 1) 65536) by lia.
    change 31 with (2 ^ 5 - 1). rewrite land_ones_mod by lia. change (2 ^ 5) with 32. change (2 ^ 5 - 1 + 1) with 32.
    replace (a * 2048 + b * 32 + c * 1 + e) with (c + e + (a * 64 + b) * 32) by lia. apply Z.mod_add. lia.
Qed.
