(* CliReadLink.v - ties the mirror of ReadFromRFBServer (CliRead.v: 8 KiB read-ahead buffer, arbitrary segmentation of
   the byte stream into read() results) to the byte source [rd] of the decoder mirror (CliBase.v: tokens [TB b]).
   [read_exact_is_rd]: one read of n bytes returns the same bytes, and leaves the same bytes pending, as [rd n] on the
   token form of the pending bytes - for EVERY segmentation schedule.  [reader_schedule_independent]: the same for every
   ADAPTIVE reader program (each read size and the continuation depend on all bytes read so far), i.e. for every decoder
   as far as it consumes plain bytes: its outcome on the token stream is its outcome over the buffered socket. *)
From LV Require Import Dec.CliBase Dec.CliFbProofs Dec.CliDec Dec.RefEnc Dec.CliRtBase Dec.CliRead Dec.CliInit.
Require Import ZifyBool Lia.
Local Open Scope Z_scope.

Lemma take_bytes_short bs : forall n, zlen bs < n -> take_bytes (toks bs) n = TkMore.
Proof.
  induction bs as [|b bs IH]; intros n H.
  - cbn. change (zlen (@nil Z)) with 0 in H. destruct (Z.leb_spec n 0); [lia|reflexivity].
  - rewrite toks_cons. cbn [take_bytes]. rewrite zlen_cons in H. pose proof (zlen_nonneg bs).
    destruct (Z.leb_spec n 0); [lia|]. rewrite IH by lia. reflexivity.
Qed.

Definition rst_ok (st : rstate) : Prop := zlen (r_buf st) <= cRFB_BUF_SIZE /\ Forall byte_ok (pending st).

Lemma zlen_firstn_le {A} n (l : list A) : 0 <= n <= zlen l -> zlen (firstn (Z.to_nat n) l) = n.
Proof. unfold zlen. intros H. rewrite firstn_length. lia. Qed.

Theorem read_exact_is_rd n st s : 0 <= n -> rst_ok st ->
  rd n s (toks (pending st)) =
    match read_exact n st with
    | Some (out, st') => Ok out s (toks (pending st'))
    | None => More
    end
  /\ (forall out st', read_exact n st = Some (out, st') -> rst_ok st').
Proof.
  intros Hn [Hb Hp]. destruct (read_buffering n st Hn Hb) as [H1 H2].
  destruct (Z.le_gt_cases n (zlen (pending st))) as [Hle|Hgt].
  - destruct (H1 Hle) as (out & st' & E & Eo & Ep & Eb). rewrite E. split.
    + rewrite <- (firstn_skipn (Z.to_nat n) (pending st)) at 1. rewrite toks_app, <- Eo, <- Ep.
      rewrite <- (firstn_skipn (Z.to_nat n) (pending st)) in Hp. apply Forall_app in Hp. destruct Hp as [Hp1 _].
      apply rd_app; [now rewrite Eo|]. rewrite Eo. symmetry. apply zlen_firstn_le. lia.
    + intros out0 st0 E0. inversion E0; subst out0 st0. split; [exact Eb|]. rewrite Ep.
      rewrite <- (firstn_skipn (Z.to_nat n) (pending st)) in Hp. apply Forall_app in Hp. tauto.
  - rewrite (H2 Hgt). split; [|discriminate]. unfold rd. now rewrite take_bytes_short.
Qed.

(* adaptive reader programs *)
Inductive rprog (A : Type) : Type :=
| RDone (a : A)
| RFail
| RRead (n : Z) (k : list Z -> rprog A).
Arguments RDone {A}. Arguments RFail {A}. Arguments RRead {A}.

Fixpoint run_tok {A} (p : rprog A) (s : cst) (ts : list tok) : res A :=
  match p with
  | RDone a => Ok a s ts
  | RFail => Fail
  | RRead n k => match rd n s ts with
                 | Ok l s' ts' => run_tok (k l) s' ts'
                 | Fail => Fail | More => More | Desync c r => Desync c r | Oob c => Oob c
                 end
  end.

(* None: a read could not be completed (EOF); Some None: the program gave up; Some (Some _): result and socket state *)
Fixpoint run_sock {A} (p : rprog A) (st : rstate) : option (option (A * rstate)) :=
  match p with
  | RDone a => Some (Some (a, st))
  | RFail => Some None
  | RRead n k => match read_exact n st with
                 | Some (l, st') => run_sock (k l) st'
                 | None => None
                 end
  end.

Inductive rprog_ok {A} : rprog A -> Prop :=
| ok_done a : rprog_ok (RDone a)
| ok_fail : rprog_ok RFail
| ok_read n k : 0 <= n -> (forall l, rprog_ok (k l)) -> rprog_ok (RRead n k).

Theorem reader_schedule_independent {A} (p : rprog A) : rprog_ok p -> forall st s, rst_ok st ->
  run_tok p s (toks (pending st)) =
    match run_sock p st with
    | Some (Some (a, st')) => Ok a s (toks (pending st'))
    | Some None => Fail
    | None => More
    end.
Proof.
  induction 1 as [a| |n k Hn Hk IH]; intros st s Hst; cbn [run_tok run_sock]; try reflexivity.
  destruct (read_exact_is_rd n st s Hn Hst) as [E K]. rewrite E.
  destruct (read_exact n st) as [[l st']|]; [|reflexivity].
  apply IH. now apply (K l st').
Qed.

Lemma toks_inj a : forall b, toks a = toks b -> a = b.
Proof.
  induction a as [|x a IH]; intros [|y b] E; try discriminate; [reflexivity|].
  rewrite !toks_cons in E. inversion E; subst. f_equal. now apply IH.
Qed.

(* two segmentations of the same pending bytes: same result, same bytes left *)
Corollary reader_two_schedules {A} (p : rprog A) st1 st2 : rprog_ok p -> rst_ok st1 -> rst_ok st2 ->
  pending st1 = pending st2 ->
  match run_sock p st1, run_sock p st2 with
  | Some (Some (a1, r1)), Some (Some (a2, r2)) => a1 = a2 /\ pending r1 = pending r2
  | Some None, Some None => True
  | None, None => True
  | _, _ => False
  end.
Proof.
  intros Hp H1 H2 E. set (s := init_state (mkfmt 8 8 false 7 7 3 0 3 6) 7 0 0).
  pose proof (reader_schedule_independent p Hp st1 s H1) as E1.
  pose proof (reader_schedule_independent p Hp st2 s H2) as E2.
  rewrite E in E1. rewrite E1 in E2. clear E1.
  destruct (run_sock p st1) as [[[a1 r1]|]|], (run_sock p st2) as [[[a2 r2]|]|]; try discriminate; auto.
  inversion E2; subst. split; [reflexivity|]. now apply toks_inj.
Qed.

(* the readers of the decoder mirror are such programs, e.g. the 16-bit field reader *)
Example rd_u16_is_rprog s ts : rd_u16 s ts = run_tok (RRead 2 (fun l => RDone (be_val l))) s ts.
Proof. unfold rd_u16, bind, ret. cbn [run_tok]. destruct (rd 2 s ts); reflexivity. Qed.
