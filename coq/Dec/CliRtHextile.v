(* CliRtHextile.v - Hextile round trip: for every choice oracle (raw / sub-rectangle tiles, background and
   foreground re-specified or carried over, monochrome or coloured sub-rectangles, redundant
   sub-rectangles) the client mirror paints exactly the target rectangle. *)
From LV Require Import Dec.CliBase Dec.CliFbProofs Dec.CliDec Dec.RefEnc Dec.RefPlanProofs Dec.CliRtBase Dec.CliRtSimple
     Dec.CliCopyProofs.
Require Import ZifyBool.
Local Open Scope Z_scope.

(* ---------------------------------------------------------------- sub-rectangle lists of one tile *)
Definition hx_ok (r : subr) : Prop :=
  let '(x, y, w, h, c) := r in 0 <= x < 16 /\ 0 <= y < 16 /\ 1 <= w <= 16 /\ 1 <= h <= 16.

Lemma hx_xy_ok r : hx_ok r -> Forall byte_ok (hx_xy r).
Proof.
  destruct r as [[[[x y] w] h] c]. unfold hx_ok, hx_xy, byte_ok. intros H. repeat constructor; lia.
Qed.

Lemma hx_decode x y w h :
  0 <= x < 16 -> 0 <= y < 16 -> 1 <= w <= 16 -> 1 <= h <= 16 ->
  (x * 16 + y) / 16 = x /\ (x * 16 + y) mod 16 = y /\ ((w - 1) * 16 + (h - 1)) / 16 + 1 = w /\ ((w - 1) * 16 + (h - 1)) mod 16 + 1 = h.
Proof.
  intros Hx Hy Hw Hh.
  assert (A : (x * 16 + y) / 16 = x) by (symmetry; apply (Z.div_unique _ 16 x y); lia).
  assert (B : (x * 16 + y) mod 16 = y) by (symmetry; apply (Z.mod_unique _ 16 x y); lia).
  assert (C : ((w - 1) * 16 + (h - 1)) / 16 = w - 1) by (symmetry; apply (Z.div_unique _ 16 (w - 1) (h - 1)); lia).
  assert (D : ((w - 1) * 16 + (h - 1)) mod 16 = h - 1) by (symmetry; apply (Z.mod_unique _ 16 (w - 1) (h - 1)); lia).
  rewrite A, B, C, D. repeat split; lia.
Qed.

Lemma hextile_mono_ok subs : forall s fb0 rx ry w h T c ts,
  st_wf s -> fb_wf (c_w s) (c_h s) fb0 -> c_fb s = blit_spec fb0 rx ry T -> rows_wf w h T ->
  0 <= rx -> 0 <= ry -> rx + w <= c_w s -> ry + h <= c_h s ->
  Forall (sub_inside w h) subs -> Forall hx_ok subs ->
  Forall (fun r : subr => let '(_, _, _, _, c') := r in c' = c) subs ->
  hextile_mono rx ry c (map hx_xy subs) s ts
  = Ok tt (set_fb s (blit_spec fb0 rx ry (fold_left apply_sub subs T))) ts.
Proof.
  induction subs as [|r subs IH]; intros s fb0 rx ry w h T c ts Hs Hfb0 Hfb HT Hrx Hry Hxw Hyh Hin Hhx Hcol.
  - cbn. unfold ret. rewrite <- Hfb, set_fb_id. reflexivity.
  - cbn [map hextile_mono fold_left].
    pose proof (Forall_inv Hin) as Hin1. pose proof (Forall_inv_tail Hin) as Hin2.
    pose proof (Forall_inv Hhx) as Hh1. pose proof (Forall_inv_tail Hhx) as Hh2.
    pose proof (Forall_inv Hcol) as Hc1. pose proof (Forall_inv_tail Hcol) as Hc2.
    pose proof (fill_rect_nest s fb0 rx ry w h T r ts Hs Hfb0 Hfb HT Hrx Hry Hxw Hyh Hin1) as Hfill.
    destruct r as [[[[sx sy] sw] sh] c']. cbn beta iota in Hc1. subst c'. unfold hx_ok in Hh1.
    unfold hx_xy at 1 2 3 4. unfold nthz. cbn [nth].
    destruct (hx_decode sx sy sw sh) as (D1 & D2 & D3 & D4); try lia.
    rewrite D1, D2, D3, D4.
    erewrite bind_ok; [|exact Hfill].
    erewrite (IH _ fb0 rx ry w h (apply_sub T (sx, sy, sw, sh, c))); auto.
    + apply st_wf_set_fb; [assumption|]. apply blit_spec_wf. assumption.
    + apply apply_sub_wf. assumption.
Qed.

Definition rec_hx (bypp : Z) (r : subr) : list Z := let '(_, _, _, _, c) := r in lebytes (Z.to_nat bypp) c ++ hx_xy r.

Definition last_colour (subs : list subr) (d : option Z) : option Z :=
  fold_left (fun _ (r : subr) => let '(_, _, _, _, c) := r in Some c) subs d.

Lemma hextile_coloured_ok subs : forall s fb0 rx ry w h T fg ts,
  st_wf s -> (bypp_of s = 1 \/ bypp_of s = 2 \/ bypp_of s = 4) ->
  fb_wf (c_w s) (c_h s) fb0 -> c_fb s = blit_spec fb0 rx ry T -> rows_wf w h T ->
  0 <= rx -> 0 <= ry -> rx + w <= c_w s -> ry + h <= c_h s ->
  Forall (sub_inside w h) subs -> Forall hx_ok subs -> Forall (sub_colour_ok (bypp_of s)) subs ->
  hextile_coloured rx ry (bypp_of s) (map (rec_hx (bypp_of s)) subs) fg s ts
  = Ok (last_colour subs fg) (set_fb s (blit_spec fb0 rx ry (fold_left apply_sub subs T))) ts.
Proof.
  induction subs as [|r subs IH]; intros s fb0 rx ry w h T fg ts Hs Hb Hfb0 Hfb HT Hrx Hry Hxw Hyh Hin Hhx Hcol.
  - cbn. unfold ret. rewrite <- Hfb, set_fb_id. reflexivity.
  - cbn [map hextile_coloured fold_left last_colour].
    pose proof (Forall_inv Hin) as Hin1. pose proof (Forall_inv_tail Hin) as Hin2.
    pose proof (Forall_inv Hhx) as Hh1. pose proof (Forall_inv_tail Hhx) as Hh2.
    pose proof (Forall_inv Hcol) as Hc1. pose proof (Forall_inv_tail Hcol) as Hc2.
    pose proof (fill_rect_nest s fb0 rx ry w h T r ts Hs Hfb0 Hfb HT Hrx Hry Hxw Hyh Hin1) as Hfill.
    destruct r as [[[[sx sy] sw] sh] c]. unfold hx_ok in Hh1. unfold sub_colour_ok, px_ok in Hc1.
    set (rest := map (rec_hx (bypp_of s)) subs).
    unfold rec_hx, hx_xy.
    rewrite firstn_app, firstn_all2 by (rewrite lebytes_len; lia).
    rewrite lebytes_len. replace (Z.to_nat (bypp_of s) - Z.to_nat (bypp_of s))%nat with 0%nat by lia.
    cbn [firstn]. rewrite app_nil_r.
    rewrite skipn_app, skipn_all2 by (rewrite lebytes_len; lia).
    rewrite lebytes_len. replace (Z.to_nat (bypp_of s) - Z.to_nat (bypp_of s))%nat with 0%nat by lia.
    cbn [skipn app]. unfold nthz. cbn [nth].
    rewrite le_val_lebytes by (rewrite Z2Nat.id by lia; exact Hc1).
    destruct (hx_decode sx sy sw sh) as (D1 & D2 & D3 & D4); try lia.
    rewrite D1, D2, D3, D4.
    erewrite bind_ok; [|exact Hfill].
    subst rest.
    change (bypp_of s) with (bypp_of (set_fb s (blit_spec fb0 rx ry (apply_sub T (sx, sy, sw, sh, c))))).
    erewrite (IH _ fb0 rx ry w h (apply_sub T (sx, sy, sw, sh, c))); auto.
    + apply st_wf_set_fb; [assumption|]. apply blit_spec_wf. assumption.
    + apply apply_sub_wf. assumption.
Qed.

(* ---------------------------------------------------------------- flag arithmetic *)
Lemma flag_raw k : 0 <= k < 128 -> flag (cHextileRaw + 2 * k) cHextileRaw = true.
Proof.
  intros H. unfold flag, cHextileRaw. replace (1 + 2 * k) with (2 * k + 1) by lia.
  change 1 with (Z.ones 1) at 2. rewrite Z.land_ones by lia. change (2 ^ 1) with 2.
  replace ((2 * k + 1) mod 2) with 1; [reflexivity|]. rewrite Z.add_comm, Z.mul_comm, Z.mod_add by lia. reflexivity.
Qed.

(* the decoder's and the encoder's idea of the colours carried over *)
Definition carried (bgE fgE : option Z) (bgD : Z) (fgD : option Z) : Prop :=
  (forall b, bgE = Some b -> bgD = b) /\ (forall f, fgE = Some f -> fgD = Some f).

Lemma all_same_spec subs c : all_same_colour subs = Some c ->
  subs <> [] /\ Forall (fun r : subr => let '(_, _, _, _, c') := r in c' = c) subs.
Proof.
  destruct subs as [|[[[[x y] w] h] c0] rest]; cbn [all_same_colour]; [discriminate|].
  destruct (forallb _ rest) eqn:E; [|discriminate]. intros Hq; inversion Hq; subst. split; [discriminate|].
  constructor; [reflexivity|]. rewrite forallb_forall in E. apply Forall_forall. intros r Hr. specialize (E r Hr).
  destruct r as [[[[? ?] ?] ?] c']. lia.
Qed.

Lemma chunks_map_concat k (f : subr -> list Z) subs :
  1 <= k -> (forall r, zlen (f r) = k) -> chunks k (flat_map f subs) = map f subs.
Proof.
  intros Hk Hf. rewrite flat_map_concat_map. apply chunks_concat; [exact Hk|].
  apply Forall_forall. intros l Hl. apply in_map_iff in Hl. destruct Hl as [r [<- _]]. apply Hf.
Qed.

Lemma flat_map_zlen k (f : subr -> list Z) subs : (forall r, zlen (f r) = k) -> zlen (flat_map f subs) = k * zlen subs.
Proof.
  intros Hf. induction subs; cbn [flat_map]; [unfold zlen; cbn; lia|]. rewrite zlen_app, zlen_cons, IHsubs, Hf. lia.
Qed.

(* ---------------------------------------------------------------- one tile *)
(* hextile_tile after the sub-encoding byte of a non-raw tile, with the four flags made explicit *)
Definition tile_tail (fB fF fA fC : bool) (x y w h bypp bg : Z) (fg : option Z) : M (Z * option Z) :=
  bg' <- (if fB then rd_px bypp else ret bg) ;;
  fill_rect x y w h bg' ;;;
  fg' <- (if fF then (p <- rd_px bypp ;; ret (Some p)) else ret fg) ;;
  if negb fA then ret (bg', fg') else
  n <- rd_u8 ;;
  if fC then
    bs <- rd_buf 21 cRFB_BUFFER_SIZE (n * (2 + bypp)) ;;
    fg'' <- hextile_coloured x y bypp (chunks (2 + bypp) bs) fg' ;;
    ret (bg', fg'')
  else
    bs <- rd_buf 22 cRFB_BUFFER_SIZE (n * 2) ;;
    match fg' with
    | Some c => hextile_mono x y c (chunks 2 bs) ;;; ret (bg', fg')
    | None => upd_st set_taint ;;; hextile_mono x y 0 (chunks 2 bs) ;;; ret (bg', fg')
    end.

Lemma hextile_tile_unfold fl x y w h bypp bg fg s ts :
  byte_ok fl -> flag fl cHextileRaw = false ->
  hextile_tile x y w h bypp bg fg s (TB fl :: ts) =
  tile_tail (flag fl cHextileBackgroundSpecified) (flag fl cHextileForegroundSpecified)
            (flag fl cHextileAnySubrects) (flag fl cHextileSubrectsColoured) x y w h bypp bg fg s ts.
Proof.
  intros Hfl Hraw. unfold hextile_tile. erewrite bind_ok; [|apply rd_u8_app; exact Hfl]. rewrite Hraw. reflexivity.
Qed.

Definition b2z (b : bool) (v : Z) : Z := if b then v else 0.

Lemma flags_of fB fF fA fC :
  let fl := b2z fB cHextileBackgroundSpecified + b2z fF cHextileForegroundSpecified + b2z fA cHextileAnySubrects + b2z fC cHextileSubrectsColoured in
  byte_ok fl /\ flag fl cHextileRaw = false /\ flag fl cHextileBackgroundSpecified = fB /\ flag fl cHextileForegroundSpecified = fF /\
  flag fl cHextileAnySubrects = fA /\ flag fl cHextileSubrectsColoured = fC.
Proof. destruct fB, fF, fA, fC; vm_compute; repeat split; congruence. Qed.

(* the sub-rectangle part of a tile whose background has been painted *)
Lemma tile_subs_ok s x y w h (fB fF : bool) fC bgD fgD pbg subs T bgbytes fgbytes (fgval : option Z) ts :
  st_wf s -> bypp_ok s -> 0 <= x -> 0 <= y -> 1 <= w <= 16 -> 1 <= h <= 16 -> x + w <= c_w s -> y + h <= c_h s ->
  rows_wf w h T -> px_ok (bypp_of s) pbg ->
  Forall (sub_inside w h) subs -> Forall hx_ok subs -> Forall (sub_colour_ok (bypp_of s)) subs -> zlen subs <= 255 ->
  fold_left apply_sub subs (fill_rows w h pbg) = T ->
  (* background: sent, or the decoder already holds it *)
  (if fB then bgbytes = lebytes (Z.to_nat (bypp_of s)) pbg else bgbytes = [] /\ bgD = pbg) ->
  (* foreground value after the optional foreground field *)
  (if fF then exists c, px_ok (bypp_of s) c /\ fgbytes = lebytes (Z.to_nat (bypp_of s)) c /\ fgval = Some c
   else fgbytes = [] /\ fgval = fgD) ->
  (* monochrome tiles need a foreground equal to the colour of all sub-rectangles *)
  (fC = false -> exists c, fgval = Some c /\ Forall (fun r : subr => let '(_, _, _, _, c') := r in c' = c) subs) ->
  tile_tail fB fF true fC x y w h (bypp_of s) bgD fgD s
    (toks (bgbytes ++ fgbytes ++ [zlen subs] ++
           (if fC then flat_map (rec_hx (bypp_of s)) subs else flat_map hx_xy subs)) ++ ts)
  = Ok (pbg, if fC then last_colour subs fgval else fgval) (set_fb s (blit_spec (c_fb s) x y T)) ts.
Proof.
  intros Hs [Hb1 Hb2] Hx Hy Hw Hh Hxw Hyh HT Hbg Hin Hhx Hcol Hcnt Hcor HB HF HM.
  unfold tile_tail. rewrite !toks_app, <- !app_assoc. pose proof (zlen_nonneg subs) as Hn0.
  (* background *)
  assert (E1 : (if fB then rd_px (bypp_of s) else ret bgD) s (toks bgbytes ++ toks fgbytes ++ toks [zlen subs] ++
                  toks (if fC then flat_map (rec_hx (bypp_of s)) subs else flat_map hx_xy subs) ++ ts)
               = Ok pbg s (toks fgbytes ++ toks [zlen subs] ++ toks (if fC then flat_map (rec_hx (bypp_of s)) subs else flat_map hx_xy subs) ++ ts)).
  { destruct fB.
    - subst bgbytes. apply rd_px_app; [lia|exact Hbg].
    - destruct HB as [-> ->]. reflexivity. }
  erewrite bind_ok; [|exact E1].
  erewrite bind_ok; [|apply fill_rect_spec; auto; lia].
  set (s1 := set_fb s (blit_spec (c_fb s) x y (fill_rows w h pbg))).
  assert (Hs1 : st_wf s1) by (apply st_wf_set_fb; [assumption|apply blit_spec_wf; apply Hs]).
  (* foreground *)
  assert (E2 : (if fF then bind (rd_px (bypp_of s)) (fun p => ret (Some p)) else ret fgD) s1
                 (toks fgbytes ++ toks [zlen subs] ++ toks (if fC then flat_map (rec_hx (bypp_of s)) subs else flat_map hx_xy subs) ++ ts)
               = Ok fgval s1 (toks [zlen subs] ++ toks (if fC then flat_map (rec_hx (bypp_of s)) subs else flat_map hx_xy subs) ++ ts)).
  { destruct fF.
    - destruct HF as (c & Hc & -> & ->). erewrite bind_ok; [reflexivity|apply rd_px_app; [lia|exact Hc]].
    - destruct HF as [-> ->]. reflexivity. }
  erewrite bind_ok; [|exact E2]. cbn [negb].
  cbn [toks map app].
  erewrite bind_ok; [|apply rd_u8_app; unfold byte_ok; lia].
  destruct fC.
  - (* coloured sub-rectangles *)
    assert (Hrec : forall r, zlen (rec_hx (bypp_of s) r) = 2 + bypp_of s).
    { intros [[[[sx sy] sw] sh] c]. unfold rec_hx, hx_xy, zlen. rewrite app_length, lebytes_len. cbn [length]. lia. }
    unfold rd_buf. destruct (Z.ltb_spec cRFB_BUFFER_SIZE (zlen subs * (2 + bypp_of s))); [unfold cRFB_BUFFER_SIZE in *; nia|].
    erewrite bind_ok.
    2:{ apply rd_app.
        - rewrite flat_map_concat_map. apply Forall_concat. apply Forall_forall. intros l Hl.
          apply in_map_iff in Hl. destruct Hl as [r [<- Hr]]. rewrite Forall_forall in Hhx. specialize (Hhx r Hr).
          destruct r as [[[[sx sy] sw] sh] c]. unfold rec_hx. apply Forall_app. split; [apply lebytes_ok|apply hx_xy_ok; exact Hhx].
        - rewrite (flat_map_zlen (2 + bypp_of s)) by exact Hrec. lia. }
    rewrite chunks_map_concat by (auto; lia).
    change (bypp_of s) with (bypp_of s1).
    erewrite bind_ok.
    2:{ apply (hextile_coloured_ok subs s1 (c_fb s) x y w h (fill_rows w h pbg)); auto; try lia.
        - apply Hs.
        - apply fill_rows_wf; lia. }
    unfold ret, s1. rewrite set_fb_set_fb, Hcor. reflexivity.
  - (* monochrome sub-rectangles *)
    destruct (HM eq_refl) as (c & -> & Hsame).
    assert (Hrec : forall r, zlen (hx_xy r) = 2) by (intros [[[[sx sy] sw] sh] c0]; reflexivity).
    unfold rd_buf. destruct (Z.ltb_spec cRFB_BUFFER_SIZE (zlen subs * 2)); [unfold cRFB_BUFFER_SIZE in *; lia|].
    erewrite bind_ok.
    2:{ apply rd_app.
        - rewrite flat_map_concat_map. apply Forall_concat. apply Forall_forall. intros l Hl.
          apply in_map_iff in Hl. destruct Hl as [r [<- Hr]]. rewrite Forall_forall in Hhx. apply hx_xy_ok. exact (Hhx r Hr).
        - rewrite (flat_map_zlen 2) by exact Hrec. lia. }
    rewrite chunks_map_concat by (auto; lia).
    erewrite bind_ok.
    2:{ apply (hextile_mono_ok subs s1 (c_fb s) x y w h (fill_rows w h pbg) c); auto; try lia.
        - apply Hs.
        - apply fill_rows_wf; lia. }
    unfold ret, s1. rewrite set_fb_set_fb, Hcor. reflexivity.
Qed.

Lemma tile_nosubs_ok s x y w h (fB fF : bool) bgD fgD pbg T bgbytes fgbytes (fgval : option Z) ts :
  st_wf s -> bypp_ok s -> 0 <= x -> 0 <= y -> 1 <= w <= 16 -> 1 <= h <= 16 -> x + w <= c_w s -> y + h <= c_h s ->
  px_ok (bypp_of s) pbg -> fill_rows w h pbg = T ->
  (if fB then bgbytes = lebytes (Z.to_nat (bypp_of s)) pbg else bgbytes = [] /\ bgD = pbg) ->
  (if fF then exists c, px_ok (bypp_of s) c /\ fgbytes = lebytes (Z.to_nat (bypp_of s)) c /\ fgval = Some c
   else fgbytes = [] /\ fgval = fgD) ->
  tile_tail fB fF false false x y w h (bypp_of s) bgD fgD s (toks (bgbytes ++ fgbytes) ++ ts)
  = Ok (pbg, fgval) (set_fb s (blit_spec (c_fb s) x y T)) ts.
Proof.
  intros Hs [Hb1 Hb2] Hx Hy Hw Hh Hxw Hyh Hbg Hcor HB HF.
  unfold tile_tail. rewrite !toks_app, <- !app_assoc.
  assert (E1 : (if fB then rd_px (bypp_of s) else ret bgD) s (toks bgbytes ++ toks fgbytes ++ ts) = Ok pbg s (toks fgbytes ++ ts)).
  { destruct fB; [subst bgbytes; apply rd_px_app; [lia|exact Hbg]|destruct HB as [-> ->]; reflexivity]. }
  erewrite bind_ok; [|exact E1].
  erewrite bind_ok; [|apply fill_rect_spec; auto; lia].
  set (s1 := set_fb s (blit_spec (c_fb s) x y (fill_rows w h pbg))).
  assert (E2 : (if fF then bind (rd_px (bypp_of s)) (fun p => ret (Some p)) else ret fgD) s1 (toks fgbytes ++ ts) = Ok fgval s1 ts).
  { destruct fF.
    - destruct HF as (c & Hc & -> & ->). erewrite bind_ok; [reflexivity|apply rd_px_app; [lia|exact Hc]].
    - destruct HF as [-> ->]. reflexivity. }
  erewrite bind_ok; [|exact E2]. cbn [negb]. unfold ret, s1. rewrite Hcor. reflexivity.
Qed.

Lemma tile_ok ch base s x y w h T bgE fgE bgD fgD ts :
  st_wf s -> bypp_ok s -> 0 <= x -> 0 <= y -> 1 <= w <= 16 -> 1 <= h <= 16 -> x + w <= c_w s -> y + h <= c_h s ->
  rows_wf w h T -> Forall (Forall (px_ok (bypp_of s))) T -> carried bgE fgE bgD fgD ->
  exists bgD' fgD',
    hextile_tile x y w h (bypp_of s) bgD fgD s (toks (fst (fst (ref_hextile_tile ch base (bypp_of s) w h T bgE fgE))) ++ ts)
    = Ok (bgD', fgD') (set_fb s (blit_spec (c_fb s) x y T)) ts
    /\ carried (snd (fst (ref_hextile_tile ch base (bypp_of s) w h T bgE fgE)))
               (snd (ref_hextile_tile ch base (bypp_of s) w h T bgE fgE)) bgD' fgD'.
Proof.
  intros Hs Hbpp Hx Hy Hw Hh Hxw Hyh HT Hp Hcar. pose proof Hbpp as [Hb1 Hb2]. unfold ref_hextile_tile.
  pose proof (plan_correct ch (base + 8) 16 16 w h (pxmod_of (bypp_of s)) T ltac:(lia) ltac:(lia) HT) as Hcor.
  pose proof (plan_inside ch (base + 8) 16 16 w h (pxmod_of (bypp_of s)) T ltac:(lia) ltac:(lia) ltac:(lia) ltac:(lia) HT) as Hin.
  destruct (plan_colour_ok ch (base + 8) 16 16 w h (bypp_of s) T ltac:(lia) Hp) as [Hbg Hcol].
  destruct (plan ch (base + 8) 16 16 w h (pxmod_of (bypp_of s)) T) as [pbg subs]. cbn [fst snd] in Hcor, Hin, Hbg, Hcol.
  assert (Hin' : Forall (sub_inside w h) subs) by (eapply Forall_impl; [|exact Hin]; intros r [A _]; exact A).
  assert (Hhx : Forall hx_ok subs).
  { eapply Forall_impl; [|exact Hin]. intros [[[[sx sy] sw] sh] c] [A B]. unfold sub_inside, sub_capped, hx_ok in *. lia. }
  pose proof (zlen_nonneg subs) as Hn0.
  destruct ((pick ch base 4 =? 0) || (255 <? zlen subs)) eqn:Eraw.
  - (* raw tile *)
    exists bgD, fgD. cbn [fst snd]. split; [|exact Hcar].
    destruct HT as [T1 T2].
    rewrite toks_app. cbn [toks map app]. unfold hextile_tile.
    erewrite bind_ok; [|apply rd_u8_app; pose proof (pick_range ch (base + 1) 128 ltac:(lia)); unfold byte_ok, cHextileRaw; lia].
    rewrite flag_raw by (apply pick_range; lia).
    assert (Hlen : zlen (px_bytes (bypp_of s) (concat T)) = w * h * bypp_of s)
      by (rewrite px_bytes_zlen by lia; rewrite (concat_zlen w T T2), T1; ring).
    unfold rd_buf. destruct (Z.ltb_spec cRFB_BUFFER_SIZE (w * h * bypp_of s)); [unfold cRFB_BUFFER_SIZE in *; nia|].
    erewrite bind_ok; [|apply rd_app; [apply px_bytes_ok|now symmetry]].
    rewrite px_of_bytes_px_bytes; [|lia|apply Forall_concat; exact Hp].
    erewrite bind_ok; [|apply copy_rect_spec; auto; try lia; split; assumption].
    reflexivity.
  - apply orb_false_iff in Eraw. destruct Eraw as [_ Ecnt]. assert (Hcnt : zlen subs <= 255) by lia.
    destruct Hcar as [Hc1 Hc2].
    set (bgspec := match bgE with Some b => negb (b =? pbg) || (pick ch (base + 2) 2 =? 1) | None => true end).
    assert (HB : if bgspec then lebytes (Z.to_nat (bypp_of s)) pbg = lebytes (Z.to_nat (bypp_of s)) pbg
                 else (@nil Z) = [] /\ bgD = pbg).
    { unfold bgspec. destruct bgE as [b|]; [|reflexivity].
      destruct (negb (b =? pbg) || (pick ch (base + 2) 2 =? 1)) eqn:Eb; [reflexivity|].
      split; [reflexivity|]. specialize (Hc1 b eq_refl). lia. }
    destruct (match all_same_colour subs with
              | Some c => if pick ch (base + 4) 2 =? 0 then Some c else None
              | None => None end) as [c|] eqn:Emono.
    + (* monochrome sub-rectangles *)
      destruct (all_same_colour subs) as [c0|] eqn:Esame; [|discriminate].
      destruct (pick ch (base + 4) 2 =? 0); [|discriminate]. inversion Emono; subst c0.
      destruct (all_same_spec subs c Esame) as [Hne Hsame].
      assert (Hcc : px_ok (bypp_of s) c).
      { destruct subs as [|[[[[sx sy] sw] sh] c1] rest]; [congruence|].
        pose proof (Forall_inv Hsame) as E1. cbn beta iota in E1. subst c1. exact (Forall_inv Hcol). }
      set (fgspec := match fgE with Some f => negb (f =? c) || (pick ch (base + 5) 2 =? 1) | None => true end).
      cbn [fst snd].
      destruct (flags_of bgspec fgspec true false) as (F0 & F1 & F2 & F3 & F4 & F5).
      set (fl := b2z bgspec cHextileBackgroundSpecified + b2z fgspec cHextileForegroundSpecified + b2z true cHextileAnySubrects + b2z false cHextileSubrectsColoured) in *.
      replace ((if bgspec then cHextileBackgroundSpecified else 0) + (if fgspec then cHextileForegroundSpecified else 0) + cHextileAnySubrects)
        with fl by (unfold fl, b2z; lia).
      exists pbg, (Some c). split.
      * cbn [app toks map]. rewrite hextile_tile_unfold by assumption. rewrite F2, F3, F4, F5.
        pose proof (tile_subs_ok s x y w h bgspec fgspec false bgD fgD pbg subs T
                      (if bgspec then lebytes (Z.to_nat (bypp_of s)) pbg else [])
                      (if fgspec then lebytes (Z.to_nat (bypp_of s)) c else []) (Some c) ts
                      Hs Hbpp Hx Hy Hw Hh Hxw Hyh HT Hbg Hin' Hhx Hcol Hcnt Hcor) as Hsub.
        cbn iota in Hsub. apply Hsub.
        -- destruct bgspec; [reflexivity|exact HB].
        -- unfold fgspec. destruct fgE as [f|].
           ++ destruct (negb (f =? c) || (pick ch (base + 5) 2 =? 1)) eqn:Ef; [exists c; auto|].
              split; [reflexivity|]. specialize (Hc2 f eq_refl). rewrite Hc2. f_equal. lia.
           ++ exists c; auto.
        -- intros _. exists c. split; [reflexivity|exact Hsame].
      * split; intros v Hv; inversion Hv; reflexivity.
    + (* coloured sub-rectangles, or none *)
      destruct (negb (length subs =? 0)%nat || (pick ch (base + 3) 3 =? 0)) eqn:Eany.
      * cbn [fst snd].
        destruct (flags_of bgspec false true true) as (F0 & F1 & F2 & F3 & F4 & F5).
        set (fl := b2z bgspec cHextileBackgroundSpecified + b2z false cHextileForegroundSpecified + b2z true cHextileAnySubrects + b2z true cHextileSubrectsColoured) in *.
        replace ((if bgspec then cHextileBackgroundSpecified else 0) + cHextileAnySubrects + cHextileSubrectsColoured)
          with fl by (unfold fl, b2z; lia).
        exists pbg, (last_colour subs fgD). split.
        -- cbn [app toks map]. rewrite hextile_tile_unfold by assumption. rewrite F2, F3, F4, F5.
           pose proof (tile_subs_ok s x y w h bgspec false true bgD fgD pbg subs T
                         (if bgspec then lebytes (Z.to_nat (bypp_of s)) pbg else []) [] fgD ts
                         Hs Hbpp Hx Hy Hw Hh Hxw Hyh HT Hbg Hin' Hhx Hcol Hcnt Hcor) as Hsub.
           cbn iota in Hsub. cbn [app] in Hsub.
           replace (fun r : subr => let '(_, _, _, _, c) := r in lebytes (Z.to_nat (bypp_of s)) c ++ hx_xy r) with (rec_hx (bypp_of s)) by reflexivity.
           apply Hsub.
           ++ destruct bgspec; [reflexivity|exact HB].
           ++ split; reflexivity.
           ++ discriminate.
        -- split; [intros v Hv; inversion Hv; reflexivity|intros v Hv; discriminate].
      * (* no sub-rectangle at all *)
        apply orb_false_iff in Eany. destruct Eany as [Elen _].
        assert (subs = []) by (destruct subs; [reflexivity|cbn in Elen; discriminate]). subst subs.
        cbn [fold_left] in Hcor. cbn [fst snd].
        set (fgspec := pick ch (base + 6) 4 =? 0).
        set (v := ch (base + 7) mod pxmod_of (bypp_of s)).
        destruct (flags_of bgspec fgspec false false) as (F0 & F1 & F2 & F3 & F4 & F5).
        set (fl := b2z bgspec cHextileBackgroundSpecified + b2z fgspec cHextileForegroundSpecified + b2z false cHextileAnySubrects + b2z false cHextileSubrectsColoured) in *.
        replace ((if bgspec then cHextileBackgroundSpecified else 0) + (if fgspec then cHextileForegroundSpecified else 0))
          with fl by (unfold fl, b2z; lia).
        assert (Hv : px_ok (bypp_of s) v).
        { unfold v, px_ok, pxmod_of. replace (256 ^ bypp_of s) with (2 ^ (8 * bypp_of s)) by (rewrite Z.pow_mul_r by lia; reflexivity).
          apply Z.mod_pos_bound. apply Z.pow_pos_nonneg; lia. }
        exists pbg, (if fgspec then Some v else fgD). split.
        -- cbn [app toks map]. rewrite hextile_tile_unfold by assumption. rewrite F2, F3, F4, F5.
           apply (tile_nosubs_ok s x y w h bgspec fgspec bgD fgD pbg T); auto.
           ++ destruct bgspec; [reflexivity|exact HB].
           ++ destruct fgspec; [exists v; auto|split; reflexivity].
        -- split; [intros b Hb; inversion Hb; reflexivity|].
           intros f Hf. destruct fgspec; [inversion Hf; reflexivity|apply Hc2; exact Hf].
Qed.

(* ---------------------------------------------------------------- tiling *)
Lemma sub_block_rows_wf (tgt : list (list Z)) W H a ty wa th :
  rows_wf W H tgt -> 0 <= a -> 0 <= ty -> 0 <= wa -> 0 <= th -> a + wa <= W -> ty + th <= H ->
  rows_wf wa th (sub_block tgt a ty wa th).
Proof. intros. eapply sub_block_wf; eauto. Qed.

Lemma row_splice_nil r x : row_splice r x [] = r.
Proof.
  unfold row_splice, row_write. destruct ((0 <=? x) && (x + zlen (@nil Z) <=? zlen r)); [|reflexivity].
  cbn [length app]. rewrite Nat.add_0_r. apply firstn_skipn.
Qed.

Lemma blit_from_nils fb x : forall k rows, Forall (fun r => r = []) rows -> blit_from fb x k rows = fb.
Proof.
  induction fb as [|r fb IH]; intros k rows Hr; cbn [blit_from]; [reflexivity|].
  destruct (0 <? k); [now rewrite IH|].
  destruct rows as [|v rows']; [reflexivity|].
  inversion Hr; subst. rewrite row_splice_nil. now rewrite IH.
Qed.

Lemma blit_zero_width fb x y (rows : list (list Z)) : Forall (fun r => r = []) rows -> blit_spec fb x y rows = fb.
Proof. intros Hr. unfold blit_spec. now apply blit_from_nils. Qed.

Lemma sub_block_zero (tgt : list (list Z)) a ty th : Forall (fun r => r = []) (sub_block tgt a ty 0 th).
Proof.
  unfold sub_block. apply Forall_forall. intros r Hr. apply in_map_iff in Hr. destruct Hr as [r0 [<- _]]. reflexivity.
Qed.

(* two horizontally adjacent pieces of the same rows of tgt *)
Lemma blit_hjoin W H fb X Y (tgt : list (list Z)) TW TH a ty wa wb th :
  fb_wf W H fb -> rows_wf TW TH tgt -> 0 <= X -> 0 <= Y -> 0 <= a -> 0 <= ty -> 0 <= wa -> 0 <= wb -> 0 <= th ->
  a + wa + wb <= TW -> ty + th <= TH -> X + wa + wb <= W -> Y + th <= H ->
  blit_spec (blit_spec fb X Y (sub_block tgt a ty wa th)) (X + wa) Y (sub_block tgt (a + wa) ty wb th)
  = blit_spec fb X Y (sub_block tgt a ty (wa + wb) th).
Proof.
  intros Hfb Ht HX HY Ha Hty Hwa Hwb Hth Haw Htyh HXw HYh.
  assert (R1 : rows_wf wa th (sub_block tgt a ty wa th)) by (eapply sub_block_wf; eauto; lia).
  assert (R2 : rows_wf wb th (sub_block tgt (a + wa) ty wb th)) by (eapply sub_block_wf; eauto; lia).
  assert (R3 : rows_wf (wa + wb) th (sub_block tgt a ty (wa + wb) th)) by (eapply sub_block_wf; eauto; lia).
  eapply fb_ext; [apply blit_spec_wf, blit_spec_wf; exact Hfb|apply blit_spec_wf; exact Hfb|].
  intros px py Hpx Hpy.
  rewrite (fb_get_blit_in W H _ (X + wa) Y wb th _ px py (blit_spec_wf _ _ _ _ _ _ Hfb) R2) by lia.
  rewrite (fb_get_blit_in W H fb X Y wa th _ px py Hfb R1) by lia.
  rewrite (fb_get_blit_in W H fb X Y (wa + wb) th _ px py Hfb R3) by lia.
  destruct (in_rect (X + wa) Y wb th px py) eqn:E1.
  - apply in_rect_true in E1. assert (E3 : in_rect X Y (wa + wb) th px py = true) by (apply in_rect_true; lia). rewrite E3.
    rewrite (sub_block_get TW TH tgt (a + wa) ty wb th) by (auto; lia).
    rewrite (sub_block_get TW TH tgt a ty (wa + wb) th) by (auto; lia). f_equal; lia.
  - destruct (in_rect X Y wa th px py) eqn:E2.
    + apply in_rect_true in E2. assert (E3 : in_rect X Y (wa + wb) th px py = true) by (apply in_rect_true; lia). rewrite E3.
      rewrite (sub_block_get TW TH tgt a ty wa th) by (auto; lia).
      rewrite (sub_block_get TW TH tgt a ty (wa + wb) th) by (auto; lia). reflexivity.
    + assert (E3 : in_rect X Y (wa + wb) th px py = false).
      { destruct (in_rect X Y (wa + wb) th px py) eqn:E3; [|reflexivity]. apply in_rect_true in E3.
        destruct (Z.ltb_spec px (X + wa)).
        - assert (in_rect X Y wa th px py = true) by (apply in_rect_true; lia). congruence.
        - assert (in_rect (X + wa) Y wb th px py = true) by (apply in_rect_true; lia). congruence. }
      rewrite E3. reflexivity.
Qed.

Lemma skipn_skipn' {A} (a b : nat) (l : list A) : skipn a (skipn b l) = skipn (b + a) l.
Proof. revert l; induction b; intros l; cbn [skipn Nat.add]; [reflexivity|]. destruct l; [now rewrite skipn_nil|apply IHb]. Qed.

Lemma firstn_add_split {A} (a b : nat) (l : list A) : firstn (a + b) l = firstn a l ++ firstn b (skipn a l).
Proof.
  revert l; induction a; intros l; cbn [firstn skipn Nat.add app]; [reflexivity|].
  destruct l; [now rewrite firstn_nil|]. cbn [app]. f_equal. apply IHa.
Qed.

Lemma sub_block_vsplit (tgt : list (list Z)) a ty w h1 h2 :
  0 <= ty -> 0 <= h1 -> 0 <= h2 ->
  sub_block tgt a ty w (h1 + h2) = sub_block tgt a ty w h1 ++ sub_block tgt a (ty + h1) w h2.
Proof.
  intros Hty H1 H2. unfold sub_block. rewrite <- map_app. f_equal.
  replace (Z.to_nat (h1 + h2)) with (Z.to_nat h1 + Z.to_nat h2)%nat by lia.
  replace (Z.to_nat (ty + h1)) with (Z.to_nat ty + Z.to_nat h1)%nat by lia.
  rewrite <- skipn_skipn'. apply firstn_add_split.
Qed.

Lemma sub_block_all (tgt : list (list Z)) w h : rows_wf w h tgt -> 0 <= w -> sub_block tgt 0 0 w h = tgt.
Proof.
  intros [T1 T2] Hw. unfold sub_block. cbn [Z.to_nat skipn]. rewrite firstn_all2 by (unfold zlen in T1; lia).
  rewrite <- (map_id tgt) at 2. apply map_ext_in. intros r Hr. rewrite Forall_forall in T2. specialize (T2 r Hr).
  apply firstn_all2. unfold zlen in T2. lia.
Qed.

Lemma sub_block_px (tgt : list (list Z)) P a ty w h :
  Forall (Forall P) tgt -> Forall (Forall P) (sub_block tgt a ty w h).
Proof.
  intros Hp. unfold sub_block. apply Forall_forall. intros r Hr. apply in_map_iff in Hr. destruct Hr as [r0 [<- Hr0]].
  apply in_firstn, in_skipn in Hr0. rewrite Forall_forall in Hp. specialize (Hp r0 Hr0).
  apply Forall_forall. intros v Hv. apply in_firstn, in_skipn in Hv. rewrite Forall_forall in Hp. auto.
Qed.

(* one tile row *)
Lemma cols_ok ch fuel : forall base s rx ry rw y th tgt TH cx bgE fgE bgD fgD ts,
  st_wf s -> bypp_ok s -> 0 <= rx -> 0 <= ry -> 0 <= y -> 1 <= th <= 16 -> 0 <= cx -> 0 <= rw ->
  rx + rw <= c_w s -> ry + y + th <= c_h s -> rows_wf rw TH tgt -> y + th <= TH ->
  Forall (Forall (px_ok (bypp_of s))) tgt -> carried bgE fgE bgD fgD -> rw - cx <= 16 * Z.of_nat fuel ->
  exists bgD' fgD',
    hextile_cols fuel (rx + cx) (ry + y) rx rw th (bypp_of s) bgD fgD s
      (toks (fst (fst (ref_hextile_cols ch base fuel (bypp_of s) cx y rw th tgt bgE fgE))) ++ ts)
    = Ok (bgD', fgD') (set_fb s (blit_spec (c_fb s) (rx + cx) (ry + y) (sub_block tgt cx y (Z.max 0 (rw - cx)) th))) ts
    /\ carried (snd (fst (ref_hextile_cols ch base fuel (bypp_of s) cx y rw th tgt bgE fgE)))
               (snd (ref_hextile_cols ch base fuel (bypp_of s) cx y rw th tgt bgE fgE)) bgD' fgD'.
Proof.
  induction fuel as [|fuel IH]; intros base s rx ry rw y th tgt TH cx bgE fgE bgD fgD ts
    Hs Hbpp Hrx Hry Hy Hth Hcx Hrw Hxw Hyh Ht HyTH Hp Hcar Hfuel.
  - cbn [ref_hextile_cols hextile_cols fst snd toks map app]. exists bgD, fgD. split; [|exact Hcar].
    unfold ret. assert (rw - cx <= 0) by lia. replace (Z.max 0 (rw - cx)) with 0 by lia.
    rewrite blit_zero_width by apply sub_block_zero. now rewrite set_fb_id.
  - cbn [ref_hextile_cols hextile_cols].
    destruct (Z.leb_spec rw cx).
    + destruct (Z.leb_spec (rx + rw) (rx + cx)); [|lia].
      cbn [fst snd toks map app]. exists bgD, fgD. split; [|exact Hcar].
      unfold ret. replace (Z.max 0 (rw - cx)) with 0 by lia.
      rewrite blit_zero_width by apply sub_block_zero. now rewrite set_fb_id.
    + destruct (Z.leb_spec (rx + rw) (rx + cx)); [lia|].
      set (w := Z.min 16 (rw - cx)).
      assert (Hw : 1 <= w <= 16) by lia.
      replace (if rx + rw - (rx + cx) <? cHextile_tile then rx + rw - (rx + cx) else cHextile_tile) with w
        by (unfold w, cHextile_tile; destruct (Z.ltb_spec (rx + rw - (rx + cx)) 16); lia).
      set (T := sub_block tgt cx y w th).
      assert (HT : rows_wf w th T) by (eapply sub_block_wf; [exact Ht| | | | | |]; lia).
      assert (HpT : Forall (Forall (px_ok (bypp_of s))) T) by (apply sub_block_px; exact Hp).
      destruct (tile_ok ch base s (rx + cx) (ry + y) w th T bgE fgE bgD fgD
                  (toks (fst (fst (ref_hextile_cols ch (base + 1000) fuel (bypp_of s) (cx + 16) y rw th tgt
                      (snd (fst (ref_hextile_tile ch base (bypp_of s) w th T bgE fgE)))
                      (snd (ref_hextile_tile ch base (bypp_of s) w th T bgE fgE))))) ++ ts)
                  Hs Hbpp ltac:(lia) ltac:(lia) Hw Hth ltac:(lia) ltac:(lia) HT HpT Hcar)
        as (bgD1 & fgD1 & Etile & Hcar1).
      destruct (ref_hextile_tile ch base (bypp_of s) w th T bgE fgE) as [[bs bgE1] fgE1] eqn:Eenc. cbn [fst snd] in *.
      set (s1 := set_fb s (blit_spec (c_fb s) (rx + cx) (ry + y) T)) in *.
      assert (Hs1 : st_wf s1) by (apply st_wf_set_fb; [assumption|apply blit_spec_wf; apply Hs]).
      destruct (IH (base + 1000) s1 rx ry rw y th tgt TH (cx + 16) bgE1 fgE1 bgD1 fgD1 ts
                  Hs1 Hbpp Hrx Hry Hy Hth ltac:(lia) Hrw Hxw Hyh Ht HyTH Hp Hcar1 ltac:(lia))
        as (bgD2 & fgD2 & Erest & Hcar2).
      change (bypp_of s1) with (bypp_of s) in Erest, Hcar2.
      destruct (ref_hextile_cols ch (base + 1000) fuel (bypp_of s) (cx + 16) y rw th tgt bgE1 fgE1) as [[rest bgE2] fgE2] eqn:Erec.
      cbn [fst snd] in *.
      exists bgD2, fgD2. split; [|exact Hcar2].
      rewrite toks_app, <- app_assoc.
      erewrite bind_ok; [|exact Etile]. cbn [fst snd].
      replace (rx + cx + cHextile_tile) with (rx + (cx + 16)) by (unfold cHextile_tile; lia).
      rewrite Erest. f_equal.
      unfold s1. rewrite set_fb_set_fb. f_equal. cbn [c_fb set_fb].
      (* join the tile with the rest of the row *)
      destruct (Z.leb_spec (rw - cx) 16).
      * (* last tile of the row: the rest is empty *)
        assert (Hwl : w = rw - cx) by lia.
        replace (Z.max 0 (rw - (cx + 16))) with 0 by lia.
        rewrite (blit_zero_width _ (rx + (cx + 16)) (ry + y)) by apply sub_block_zero.
        unfold T. f_equal. f_equal. lia.
      * assert (Hw16 : w = 16) by lia.
        replace (Z.max 0 (rw - (cx + 16))) with (rw - cx - 16) by lia.
        replace (Z.max 0 (rw - cx)) with (16 + (rw - cx - 16)) by lia.
        replace (rx + (cx + 16)) with (rx + cx + 16) by lia. replace (cx + 16) with (cx + 16) by lia.
        unfold T. rewrite Hw16.
        apply (blit_hjoin (c_w s) (c_h s) (c_fb s) (rx + cx) (ry + y) tgt rw TH cx y 16 (rw - cx - 16) th); auto; try lia.
        apply Hs.
Qed.

Lemma rows_ok ch fuel : forall base s rx ry rw rh tgt cy bgE fgE bgD fgD ts,
  st_wf s -> bypp_ok s -> 0 <= rx -> 0 <= ry -> 0 <= cy -> 0 <= rw -> 0 <= rh ->
  rx + rw <= c_w s -> ry + rh <= c_h s -> rows_wf rw rh tgt ->
  Forall (Forall (px_ok (bypp_of s))) tgt -> carried bgE fgE bgD fgD -> rh - cy <= 16 * Z.of_nat fuel ->
  hextile_rows fuel (ry + cy) rx ry rw rh (bypp_of s) bgD fgD s
    (toks (ref_hextile_rows ch base fuel (bypp_of s) cy rw rh tgt bgE fgE) ++ ts)
  = Ok tt (set_fb s (blit_spec (c_fb s) rx (ry + cy) (sub_block tgt 0 cy rw (Z.max 0 (rh - cy))))) ts.
Proof.
  induction fuel as [|fuel IH]; intros base s rx ry rw rh tgt cy bgE fgE bgD fgD ts
    Hs Hbpp Hrx Hry Hcy Hrw Hrh Hxw Hyh Ht Hp Hcar Hfuel.
  - cbn [ref_hextile_rows hextile_rows toks map app]. unfold ret.
    replace (Z.max 0 (rh - cy)) with 0 by lia. unfold sub_block. cbn [Z.to_nat firstn map].
    unfold blit_spec. rewrite blit_from_nil, set_fb_id. reflexivity.
  - cbn [ref_hextile_rows hextile_rows].
    destruct (Z.leb_spec rh cy).
    + destruct (Z.leb_spec (ry + rh) (ry + cy)); [|lia]. cbn [toks map app]. unfold ret.
      replace (Z.max 0 (rh - cy)) with 0 by lia. unfold sub_block. cbn [Z.to_nat firstn map].
      unfold blit_spec. rewrite blit_from_nil, set_fb_id. reflexivity.
    + destruct (Z.leb_spec (ry + rh) (ry + cy)); [lia|].
      set (th := Z.min 16 (rh - cy)). assert (Hth : 1 <= th <= 16) by lia.
      replace (if ry + rh - (ry + cy) <? cHextile_tile then ry + rh - (ry + cy) else cHextile_tile) with th
        by (unfold th, cHextile_tile; destruct (Z.ltb_spec (ry + rh - (ry + cy)) 16); lia).
      assert (Hcf : rw - 0 <= 16 * Z.of_nat (Z.to_nat (rw / 16 + 1))).
      { pose proof (Z.div_mod rw 16 ltac:(lia)). pose proof (Z.mod_pos_bound rw 16 ltac:(lia)).
        assert (0 <= rw / 16) by (apply Z.div_pos; lia). lia. }
      destruct (cols_ok ch (Z.to_nat (rw / 16 + 1)) base s rx ry rw cy th tgt rh 0 bgE fgE bgD fgD
                  (toks (ref_hextile_rows ch (base + 1000000) fuel (bypp_of s) (cy + 16) rw rh tgt
                          (snd (fst (ref_hextile_cols ch base (Z.to_nat (rw / 16 + 1)) (bypp_of s) 0 cy rw th tgt bgE fgE)))
                          (snd (ref_hextile_cols ch base (Z.to_nat (rw / 16 + 1)) (bypp_of s) 0 cy rw th tgt bgE fgE))) ++ ts)
                  Hs Hbpp Hrx Hry Hcy Hth ltac:(lia) Hrw Hxw ltac:(lia) Ht ltac:(lia) Hp Hcar Hcf)
        as (bgD1 & fgD1 & Ecols & Hcar1).
      destruct (ref_hextile_cols ch base (Z.to_nat (rw / 16 + 1)) (bypp_of s) 0 cy rw th tgt bgE fgE) as [[bs bgE1] fgE1] eqn:Eenc.
      cbn [fst snd] in *.
      rewrite toks_app, <- app_assoc.
      change (rw / cHextile_tile + 1) with (rw / 16 + 1).
      replace (rx + 0) with rx in Ecols by lia.
      erewrite bind_ok; [|exact Ecols]. cbn [fst snd].
      set (A := sub_block tgt 0 cy (Z.max 0 (rw - 0)) th) in *.
      set (s1 := set_fb s (blit_spec (c_fb s) rx (ry + cy) A)) in *.
      assert (Hs1 : st_wf s1) by (apply st_wf_set_fb; [assumption|apply blit_spec_wf; apply Hs]).
      replace (ry + cy + cHextile_tile) with (ry + (cy + 16)) by (unfold cHextile_tile; lia).
      pose proof (IH (base + 1000000) s1 rx ry rw rh tgt (cy + 16) bgE1 fgE1 bgD1 fgD1 ts
                    Hs1 Hbpp Hrx Hry ltac:(lia) Hrw Hrh Hxw Hyh Ht Hp Hcar1 ltac:(lia)) as Erest.
      change (bypp_of s1) with (bypp_of s) in Erest. rewrite Erest. f_equal.
      unfold s1. rewrite set_fb_set_fb. f_equal. cbn [c_fb set_fb].
      assert (HA : rows_wf rw th A).
      { unfold A. replace (Z.max 0 (rw - 0)) with rw by lia. eapply sub_block_wf; [exact Ht| | | | | |]; lia. }
      destruct HA as [A1 A2].
      destruct (Z.leb_spec (rh - cy) 16).
      * replace (Z.max 0 (rh - (cy + 16))) with 0 by lia.
        unfold sub_block at 1. cbn [Z.to_nat firstn map]. unfold blit_spec at 1. rewrite blit_from_nil.
        unfold A. f_equal. f_equal; lia.
      * assert (Hth16 : th = 16) by lia.
        replace (ry + (cy + 16)) with (ry + cy + zlen A) by lia.
        rewrite blit_split_v by lia. f_equal.
        replace (Z.max 0 (rh - cy)) with (16 + Z.max 0 (rh - (cy + 16))) by lia.
        rewrite sub_block_vsplit by lia. unfold A. rewrite Hth16. f_equal. f_equal. lia.
Qed.

Theorem roundtrip_hextile ch s x y w h tgt ts :
  st_wf s -> bypp_ok s -> 0 <= x -> 0 <= y -> 0 <= w -> 0 <= h -> x + w <= c_w s -> y + h <= c_h s ->
  rows_wf w h tgt -> Forall (Forall (px_ok (bypp_of s))) tgt ->
  dec_hextile x y w h s (toks (ref_hextile ch (bypp_of s) w h tgt) ++ ts) = Ok tt (set_fb s (blit_spec (c_fb s) x y tgt)) ts.
Proof.
  intros Hs Hbpp Hx Hy Hw Hh Hxw Hyh Ht Hp. unfold dec_hextile, ref_hextile.
  erewrite bind_ok; [|reflexivity].
  assert (Hcf : h - 0 <= 16 * Z.of_nat (Z.to_nat (h / 16 + 1))).
  { pose proof (Z.div_mod h 16 ltac:(lia)). pose proof (Z.mod_pos_bound h 16 ltac:(lia)).
    assert (0 <= h / 16) by (apply Z.div_pos; lia). lia. }
  pose proof (rows_ok ch (Z.to_nat (h / 16 + 1)) 0 s x y w h tgt 0 None None 0 None ts
                Hs Hbpp Hx Hy ltac:(lia) Hw Hh Hxw Hyh Ht Hp) as E.
  replace (y + 0) with y in E by lia. change (h / cHextile_tile + 1) with (h / 16 + 1).
  rewrite E; [|split; intros v Hv; discriminate|exact Hcf].
  replace (Z.max 0 (h - 0)) with h by lia. rewrite sub_block_all by assumption. reflexivity.
Qed.
