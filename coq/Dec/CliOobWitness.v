(* CliOobWitness.v - concrete server streams on which the mirror of the client BEFORE the fix commits
   dd06ff7..a7a3a60 (fix mask 0) performs an out-of-bounds access (each was replayed on the real library under
   ASan; corpus/C08 keeps them as regression witnesses), and what the repaired control flow (baseline,
   fix mask 127) does with the same streams: a clean failure. *)
From LV Require Import Dec.CliBase Dec.CliFbProofs Dec.CliDec Dec.CliDecZ Dec.CliMsg Dec.CliInit Dec.RefEnc Dec.CliRtBase.
Local Open Scope Z_scope.

Definition f888 : pixfmt := mkfmt 32 24 false 255 255 255 16 8 0.
Definition f101010 : pixfmt := mkfmt 32 30 false 1023 1023 1023 20 10 0.

Lemma init_state_wf f g w h : 0 <= w -> 0 <= h -> st_wf (init_state f g w h).
Proof.
  intros Hw Hh. unfold st_wf, init_state, fb_wf, new_fb. cbn [c_w c_h c_fb].
  repeat split; try lia.
  - unfold zlen. rewrite repeat_length. lia.
  - apply Forall_forall. intros r Hr. apply repeat_spec in Hr. subst. unfold zlen. rewrite repeat_length. lia.
Qed.

Definition old_state (f : pixfmt) (g w h : Z) : cst := set_fix (init_state f g w h) 0.
Lemma old_state_wf f g w h : 0 <= w -> 0 <= h -> st_wf (old_state f g w h).
Proof. intros. apply init_state_wf; assumption. Qed.

Definition fbu1 (x y w h enc : Z) : list tok := toks (fbu_header 1 ++ rect_header x y w h enc).

(* F20: HandleUltraZip walks rx records of 12 bytes through a 504-byte raw_buffer *)
Definition w_ultrazip : list tok := fbu1 1000 1 0 0 cE_UltraZip ++ [TL [0; 0; 0; 0]].
Lemma w_ultrazip_oob : handle_msg (old_state f888 255 16 16) w_ultrazip = Oob 40.
Proof. vm_compute. reflexivity. Qed.
Lemma w_ultrazip_fixed : match handle_msg (init_state f888 255 16 16) w_ultrazip with Oob _ => False | _ => True end.
Proof. vm_compute. exact I. Qed.

(* Tight: 40 rows of decompressed data for a rectangle of 4 rows at the bottom of an 8x8 framebuffer *)
Definition w_tight_rows : list tok := fbu1 0 4 8 4 cE_Tight ++ [TB 0; TZ 1 true true (repeat 171 (8 * 3 * 40))].
Lemma w_tight_rows_oob : handle_msg (old_state f888 255 8 8) w_tight_rows = Oob 77.
Proof. vm_compute. reflexivity. Qed.
Lemma w_tight_rows_fixed : match handle_msg (init_state f888 255 8 8) w_tight_rows with Oob _ => False | _ => True end.
Proof. vm_compute. exact I. Qed.

(* Tight gradient filter on a rectangle wider than 2048: thisRow[2048*3] on the stack *)
Definition w_tight_wide : list tok := fbu1 0 0 2100 2 cE_Tight ++ [TB 64; TB 2; TZ 1 true true (repeat 1 (2100 * 3 * 2))].
Lemma w_tight_wide_oob : handle_msg (old_state f888 255 2100 2) w_tight_wide = Oob 78.
Proof. vm_compute. reflexivity. Qed.
Lemma w_tight_wide_fixed : match handle_msg (init_state f888 255 2100 2) w_tight_wide with Oob _ => False | _ => True end.
Proof. vm_compute. exact I. Qed.

(* Tight "no zlib" mode: 12 bytes received, the filter nevertheless reads rh rows from client->buffer *)
Definition w_tight_nozlib : list tok := fbu1 0 0 640 480 cE_Tight ++ toks ([160; 12] ++ repeat 0 12).
Lemma w_tight_nozlib_oob : handle_msg (old_state f888 255 640 480) w_tight_nozlib = Oob 74.
Proof. vm_compute. reflexivity. Qed.
Lemma w_tight_nozlib_fixed : match handle_msg (init_state f888 255 640 480) w_tight_nozlib with Oob _ => False | _ => True end.
Proof. vm_compute. exact I. Qed.

(* TRLE plain RLE: [buffer] is never reset between runs, the per-run bound does not protect raw_buffer *)
Definition w_trle : list tok :=
  fbu1 0 0 16 16 cE_TRLE ++ toks ([128] ++ concat (repeat [17; 34; 51; 68; 0] 255) ++ [17; 34; 51; 68] ++ repeat 255 900 ++ [0]).
Lemma w_trle_oob : handle_msg (old_state f101010 255 16 16) w_trle = Oob 50.
Proof. vm_compute. reflexivity. Qed.
Lemma w_trle_fixed : match handle_msg (init_state f101010 255 16 16) w_trle with Oob _ => False | _ => True end.
Proof. vm_compute. exact I. Qed.

(* ZRLE: a raw tile is not checked against the decompressed length (8/16/32-bit CPIXEL variants); the
   signed [remaining] goes negative and is passed on as a huge size_t *)
Definition w_zrle_neg : list tok :=
  fbu1 0 0 65 1 cE_ZRLE ++ [TZ 5 true true [0]].
Lemma w_zrle_neg_oob : handle_msg (old_state f101010 255 65 1) w_zrle_neg = Oob 35.
Proof. vm_compute. reflexivity. Qed.
Lemma w_zrle_neg_fixed : match handle_msg (init_state f101010 255 65 1) w_zrle_neg with Oob _ => False | _ => True end.
Proof. vm_compute. exact I. Qed.

(* ZRLE packed palette types 17..127 use 8-bit indices into palette[128] *)
Definition w_zrle_pal : list tok :=
  fbu1 0 0 16 8 cE_ZRLE ++ [TZ 5 true true ([100] ++ concat (repeat [1; 2; 3; 4] 100) ++ repeat 200 128)].
Lemma w_zrle_pal_oob : handle_msg (old_state f101010 255 16 16) w_zrle_pal = Oob 44.
Proof. vm_compute. reflexivity. Qed.
Lemma w_zrle_pal_fixed : match handle_msg (init_state f101010 255 16 16) w_zrle_pal with Oob _ => False | _ => True end.
Proof. vm_compute. exact I. Qed.

(* F27 (fixed by 281f33a, known_findings.d/C08.json): a 3-byte CPIXEL is read as a 32-bit word; when the
   last CPIXEL of the decompressed data ends exactly at the end of the scratch area (390 = 65*1*3*2 bytes) the
   read leaves the heap block by one byte.  Present with the fixes 0..6 only (state127); gone with fix 8
   (notes/fix_C08_7.diff = 281f33a: 4 spare bytes), i.e. on the baseline. *)
Definition w_zrle_cp24 : list tok :=
  fbu1 0 0 65 1 cE_ZRLE ++
  [TZ 5 true true ([128] ++ concat (repeat [17; 34; 51; 0] 63) ++ [17; 34; 51] ++ repeat 255 129 ++ [0] ++ [0; 68; 85; 102])].
Definition state127 (f : pixfmt) (g w h : Z) : cst := set_fix (init_state f g w h) 127.   (* before d211e4c / 281f33a *)
Definition state511 (f : pixfmt) (g w h : Z) : cst := set_fix (init_state f g w h) 511.   (* before a41e88e *)
Definition state1023 (f : pixfmt) (g w h : Z) : cst := set_fix (init_state f g w h) 1023.   (* before a24a50e / 9fe693e *)
Lemma w_zrle_cp24_oob : handle_msg (state127 f888 255 65 1) w_zrle_cp24 = Oob 36.
Proof. vm_compute. reflexivity. Qed.
Lemma w_zrle_cp24_fixed :
  match handle_msg (init_state f888 255 65 1) w_zrle_cp24 with Ok _ _ [] => True | _ => False end.
Proof. vm_compute. exact I. Qed.

(* F29 (known_findings.d/C08.json): HandleUltraZip computes ry + rw * 65535 in [int]; for rw >= 32769 the size wraps to a
   negative value, the allocation is skipped and the block is decompressed into the NULL raw_buffer of a fresh
   client (SEGV, reproduced under ASan: corpus/C08/w_ultrazip_hugew.script).  Present before a41e88e (state511); gone with fix 9
   (notes/fix_C08_9.diff = a41e88e), i.e. on the baseline. *)
Definition w_ultrazip_hugew : list tok := fbu1 1 0 40000 0 cE_UltraZip ++ [TL [0; 0; 0; 0; 0; 1; 0; 1; 0; 0; 0; 0; 170; 187; 204; 221]].
Lemma w_ultrazip_hugew_oob : handle_msg (state511 f888 255 16 16) w_ultrazip_hugew = Oob 45.
Proof. vm_compute. reflexivity. Qed.
Lemma w_ultrazip_hugew_fixed :
  match handle_msg (init_state f888 255 16 16) w_ultrazip_hugew with Oob _ => False | _ => True end.
Proof. vm_compute. exact I. Qed.

(* F31 (known_findings.d/C08.json): the Tight gradient filter stores the first pixel of every row even for a rectangle
   of width 0; at x = width the last store is one pixel past the framebuffer (reproduced under ASan:
   corpus/C08/w_tightgrad_w0.script).  Present before a24a50e (state1023); gone with fix 10 = the baseline. *)
Definition w_tightgrad_w0 : list tok := fbu1 8 0 0 4 cE_Tight ++ toks [64; 2].
Lemma w_tightgrad_w0_oob : handle_msg (state1023 f888 255 8 4) w_tightgrad_w0 = Oob 79.
Proof. vm_compute. reflexivity. Qed.
Lemma w_tightgrad_w0_fixed :
  match handle_msg (init_state f888 255 8 4) w_tightgrad_w0 with Oob _ => False | _ => True end.
Proof. vm_compute. exact I. Qed.
