(* RefEnc.v - reference encoders written from the RFB specification, parameterised by a CHOICE
   ORACLE [ch : Z -> Z] (any function): every decision a foreign server is free to take (background
   colour, redundant / overlapping sub-rectangles, raw vs. sub-rectangle tiles, re-specifying or
   carrying over Hextile colours, coloured vs. monochrome sub-rectangles ...) is taken by consulting
   [ch], so that all sub-encodings are reachable.  Independent of the client mirror: uses only
   CliBase's token alphabet and the spec-level [blit_spec].  Definitions only. *)
From LV Require Export Dec.CliBase.
Local Open Scope Z_scope.

Definition pick (ch : Z -> Z) (i n : Z) : Z := (ch i) mod (Z.max 1 n).

Fixpoint lebytes (n : nat) (v : Z) : list Z :=
  match n with O => [] | S n' => v mod 256 :: lebytes n' (v / 256) end.
Definition be16 (v : Z) : list Z := [(v / 256) mod 256; v mod 256].
Definition be32 (v : Z) : list Z := [(v / 16777216) mod 256; (v / 65536) mod 256; (v / 256) mod 256; v mod 256].

Definition px_bytes (bypp : Z) (pix : list Z) : list Z := flat_map (lebytes (Z.to_nat bypp)) pix.

Definition tile_get (T : list (list Z)) (x y : Z) : Z :=
  match fb_get T x y with Some v => v | None => 0 end.

(* ---------------------------------------------------------------- Raw, CopyRect *)
Definition ref_raw (bypp : Z) (rows : list (list Z)) : list Z := px_bytes bypp (concat rows).
Definition ref_copyrect (sx sy : Z) : list Z := be16 sx ++ be16 sy.

(* ---------------------------------------------------------------- sub-rectangle plans (RRE, CoRRE, Hextile) *)
Definition subr : Type := (Z * Z * Z * Z * Z)%type.     (* x, y, w, h, colour, tile-relative *)

Definition fill_rows (w h c : Z) : list (list Z) := repeat (repeat c (Z.to_nat w)) (Z.to_nat h).

Definition apply_sub (T : list (list Z)) (r : subr) : list (list Z) :=
  let '(x, y, w, h, c) := r in blit_spec T x y (fill_rows w h c).

(* run-length form of a row, runs capped at maxw *)
Fixpoint rle (maxw : Z) (l : list Z) : list (Z * Z) :=
  match l with
  | [] => []
  | a :: r => match rle maxw r with
              | (b, n) :: t => if (a =? b) && (n <? maxw) then (a, n + 1) :: t else (a, 1) :: (b, n) :: t
              | [] => [(a, 1)]
              end
  end.

(* fix-ups of one row: walk the runs of the target row; a run is emitted unless the current
   content of the tile row already shows it *)
Fixpoint fix_runs (cur : list Z) (x y : Z) (runs : list (Z * Z)) : list subr :=
  match runs with
  | [] => []
  | (c, n) :: rest =>
      let seg := firstn (Z.to_nat n) cur in
      let tail := fix_runs (skipn (Z.to_nat n) cur) (x + n) y rest in
      if forallb (fun v => v =? c) seg && (length seg =? Z.to_nat n)%nat then tail else (x, y, n, 1, c) :: tail
  end.

Fixpoint fix_rows (maxw : Z) (cur tgt : list (list Z)) (y : Z) : list subr :=
  match cur, tgt with
  | c :: cur', t :: tgt' => fix_runs c 0 y (rle maxw t) ++ fix_rows maxw cur' tgt' (y + 1)
  | _, _ => []
  end.

(* choice-driven redundant sub-rectangles, coloured with the target colour at their corner *)
Fixpoint junk (ch : Z -> Z) (base : Z) (n : nat) (maxw maxh w h : Z) (tgt : list (list Z)) : list subr :=
  match n with
  | O => []
  | S n' =>
      let jx := pick ch base w in
      let jy := pick ch (base + 1) h in
      let jw := 1 + pick ch (base + 2) (Z.min maxw (w - jx)) in
      let jh := 1 + pick ch (base + 3) (Z.min maxh (h - jy)) in
      (jx, jy, jw, jh, tile_get tgt jx jy) :: junk ch (base + 4) n' maxw maxh w h tgt
  end.

(* the plan for a w x h tile: background, then sub-rectangles painted in order *)
Definition plan (ch : Z -> Z) (base maxw maxh w h pxmod : Z) (tgt : list (list Z)) : Z * list subr :=
  let bg := if pick ch base 2 =? 0
            then tile_get tgt (pick ch (base + 1) w) (pick ch (base + 2) h)
            else (ch (base + 1)) mod pxmod in
  let js := if (0 <? w) && (0 <? h) then junk ch (base + 4) (Z.to_nat (pick ch (base + 3) 4)) maxw maxh w h tgt else [] in
  let T1 := fold_left apply_sub js (fill_rows w h bg) in
  (bg, js ++ fix_rows maxw T1 tgt 0).

Definition pxmod_of (bypp : Z) : Z := 2 ^ (8 * bypp).

Definition ref_rre (ch : Z -> Z) (bypp w h : Z) (tgt : list (list Z)) : list Z :=
  let '(bg, subs) := plan ch 0 65535 65535 w h (pxmod_of bypp) tgt in
  be32 (zlen subs) ++ lebytes (Z.to_nat bypp) bg ++
  flat_map (fun r : subr => let '(x, y, sw, sh, c) := r in
                            lebytes (Z.to_nat bypp) c ++ be16 x ++ be16 y ++ be16 sw ++ be16 sh) subs.

Definition ref_corre (ch : Z -> Z) (bypp w h : Z) (tgt : list (list Z)) : list Z :=
  let '(bg, subs) := plan ch 0 255 255 w h (pxmod_of bypp) tgt in
  be32 (zlen subs) ++ lebytes (Z.to_nat bypp) bg ++
  flat_map (fun r : subr => let '(x, y, sw, sh, c) := r in
                            lebytes (Z.to_nat bypp) c ++ [x; y; sw; sh]) subs.

(* ---------------------------------------------------------------- Hextile *)
(* rows y0 .. y0+n-1, columns x0 .. x0+m-1 of a block *)
Definition sub_block (rows : list (list Z)) (x0 y0 m n : Z) : list (list Z) :=
  map (fun r => firstn (Z.to_nat m) (skipn (Z.to_nat x0) r)) (firstn (Z.to_nat n) (skipn (Z.to_nat y0) rows)).

Definition all_same_colour (subs : list subr) : option Z :=
  match subs with
  | [] => None
  | (_, _, _, _, c) :: rest => if forallb (fun r : subr => let '(_, _, _, _, c') := r in c' =? c) rest then Some c else None
  end.

Definition hx_xy (r : subr) : list Z := let '(x, y, w, h, _) := r in [x * 16 + y; (w - 1) * 16 + (h - 1)].

(* one tile; (bg, fg) = what the decoder currently holds; returns bytes and the new (bg, fg) *)
Definition ref_hextile_tile (ch : Z -> Z) (base bypp w h : Z) (tgt : list (list Z)) (bg fg : option Z)
  : list Z * option Z * option Z :=
  let nb := Z.to_nat bypp in
  let '(pbg, subs) := plan ch (base + 8) 16 16 w h (pxmod_of bypp) tgt in
  (* raw tile by choice, or when the plan does not fit the one-byte sub-rectangle count; with the
     Raw bit set the other bits are irrelevant, so they are chosen freely *)
  if (pick ch base 4 =? 0) || (255 <? zlen subs) then
    ([cHextileRaw + 2 * pick ch (base + 1) 128] ++ px_bytes bypp (concat tgt), bg, fg)
  else
    let bgspec := match bg with
                  | Some b => negb (b =? pbg) || (pick ch (base + 2) 2 =? 1)
                  | None => true
                  end in
    let anysub := negb (length subs =? 0)%nat || (pick ch (base + 3) 3 =? 0) in
    let mono := match all_same_colour subs with
                | Some c => if pick ch (base + 4) 2 =? 0 then Some c else None
                | None => None
                end in
    match mono with
    | Some c =>
        let fgspec := match fg with
                      | Some f => negb (f =? c) || (pick ch (base + 5) 2 =? 1)
                      | None => true
                      end in
        ([ (if bgspec then cHextileBackgroundSpecified else 0) + (if fgspec then cHextileForegroundSpecified else 0)
           + cHextileAnySubrects ]
         ++ (if bgspec then lebytes nb pbg else [])
         ++ (if fgspec then lebytes nb c else [])
         ++ [zlen subs] ++ flat_map hx_xy subs,
         Some pbg, Some c)
    | None =>
        if anysub then
          ([ (if bgspec then cHextileBackgroundSpecified else 0) + cHextileAnySubrects + cHextileSubrectsColoured ]
           ++ (if bgspec then lebytes nb pbg else [])
           ++ [zlen subs]
           ++ flat_map (fun r : subr => let '(_, _, _, _, c) := r in lebytes nb c ++ hx_xy r) subs,
           Some pbg, None)
        else
          (* no sub-rectangles: optionally send a (useless) foreground colour *)
          let fgspec := pick ch (base + 6) 4 =? 0 in
          ([ (if bgspec then cHextileBackgroundSpecified else 0) + (if fgspec then cHextileForegroundSpecified else 0) ]
           ++ (if bgspec then lebytes nb pbg else [])
           ++ (if fgspec then lebytes nb (ch (base + 7) mod pxmod_of bypp) else []),
           Some pbg, if fgspec then Some (ch (base + 7) mod pxmod_of bypp) else fg)
    end.

Fixpoint ref_hextile_cols (ch : Z -> Z) (base : Z) (fuel : nat) (bypp cx y rw th : Z) (rows : list (list Z))
         (bg fg : option Z) : list Z * option Z * option Z :=
  match fuel with
  | O => ([], bg, fg)
  | S f =>
      if rw <=? cx then ([], bg, fg) else
      let w := Z.min 16 (rw - cx) in
      let '(bs, bg', fg') := ref_hextile_tile ch base bypp w th (sub_block rows cx y w th) bg fg in
      let '(rest, bg'', fg'') := ref_hextile_cols ch (base + 1000) f bypp (cx + 16) y rw th rows bg' fg' in
      (bs ++ rest, bg'', fg'')
  end.

Fixpoint ref_hextile_rows (ch : Z -> Z) (base : Z) (fuel : nat) (bypp cy rw rh : Z) (rows : list (list Z))
         (bg fg : option Z) : list Z :=
  match fuel with
  | O => []
  | S f =>
      if rh <=? cy then [] else
      let h := Z.min 16 (rh - cy) in
      let '(bs, bg', fg') := ref_hextile_cols ch base (Z.to_nat (rw / 16 + 1)) bypp 0 cy rw h rows bg fg in
      bs ++ ref_hextile_rows ch (base + 1000000) f bypp (cy + 16) rw rh rows bg' fg'
  end.

Definition ref_hextile (ch : Z -> Z) (bypp w h : Z) (tgt : list (list Z)) : list Z :=
  ref_hextile_rows ch 0 (Z.to_nat (h / 16 + 1)) bypp 0 w h tgt None None.

(* ---------------------------------------------------------------- message framing *)
Definition rect_header (x y w h enc : Z) : list Z := be16 x ++ be16 y ++ be16 w ++ be16 h ++ be32 enc.
Definition fbu_header (nrects : Z) : list Z := [cM_FramebufferUpdate; 0] ++ be16 nrects.
Definition toks (bs : list Z) : list tok := map TB bs.
