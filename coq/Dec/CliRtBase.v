(* CliRtBase.v - reading lemmas for the client mirror: what the reader monad returns on a stream that
   starts with serialised values; byte/pixel (de)serialisation round trips; list chunking. *)
From LV Require Import Dec.CliBase Dec.CliFbProofs Dec.CliDec Dec.RefEnc.
Require Import ZifyBool.
Local Open Scope Z_scope.

Definition byte_ok (b : Z) : Prop := 0 <= b < 256.

Lemma toks_app a b : toks (a ++ b) = toks a ++ toks b.
Proof. unfold toks. apply map_app. Qed.
Lemma toks_cons a b : toks (a :: b) = TB a :: toks b.
Proof. reflexivity. Qed.

Lemma take_bytes_app bs ts : Forall byte_ok bs -> take_bytes (toks bs ++ ts) (zlen bs) = TkOk bs ts.
Proof.
  induction 1 as [|b bs Hb Hbs IH].
  - cbn. destruct ts; reflexivity.
  - rewrite toks_cons, zlen_cons. cbn [app take_bytes]. pose proof (zlen_nonneg bs).
    destruct (Z.leb_spec (1 + zlen bs) 0); [lia|].
    replace (1 + zlen bs - 1) with (zlen bs) by lia. rewrite IH.
    unfold byte_ok in Hb. rewrite Z.mod_small by lia. reflexivity.
Qed.

Lemma rd_app n s bs ts : Forall byte_ok bs -> n = zlen bs -> rd n s (toks bs ++ ts) = Ok bs s ts.
Proof. intros H ->. unfold rd. now rewrite take_bytes_app. Qed.

Lemma bind_ok {A B} (m : M A) (k : A -> M B) s ts a s' ts' :
  m s ts = Ok a s' ts' -> bind m k s ts = k a s' ts'.
Proof. intros H. unfold bind. now rewrite H. Qed.

(* ---------------------------------------------------------------- integers *)
Lemma be16_ok v : Forall byte_ok (be16 v).
Proof. unfold be16. repeat constructor; apply Z.mod_pos_bound; lia. Qed.
Lemma be32_ok v : Forall byte_ok (be32 v).
Proof. unfold be32. repeat constructor; apply Z.mod_pos_bound; lia. Qed.
Lemma lebytes_ok n v : Forall byte_ok (lebytes n v).
Proof. revert v; induction n; intros v; cbn [lebytes]; constructor; auto. apply Z.mod_pos_bound; lia. Qed.
Lemma lebytes_len n v : length (lebytes n v) = n.
Proof. revert v; induction n; intros v; cbn [lebytes length]; auto. Qed.

Lemma be_val_be16 v : 0 <= v < 65536 -> be_val (be16 v) = v.
Proof.
  intros H. unfold be16, be_val. cbn [fold_left].
  rewrite (Z.mod_small (v / 256)) by (split; [apply Z.div_pos; lia|apply Z.div_lt_upper_bound; lia]).
  pose proof (Z.div_mod v 256). lia.
Qed.

Lemma be_val_be32 v : 0 <= v < 4294967296 -> be_val (be32 v) = v.
Proof.
  intros H. unfold be32, be_val. cbn [fold_left].
  assert (H1 : v / 16777216 mod 256 = v / 16777216).
  { apply Z.mod_small. split; [apply Z.div_pos; lia|apply Z.div_lt_upper_bound; lia]. }
  rewrite H1.
  pose proof (Z.div_mod v 256 ltac:(lia)). pose proof (Z.div_mod (v / 256) 256 ltac:(lia)).
  pose proof (Z.div_mod (v / 256 / 256) 256 ltac:(lia)).
  rewrite !Z.div_div in * by lia. change (256 * 256) with 65536 in *. change (65536 * 256) with 16777216 in *.
  lia.
Qed.

Lemma le_val_lebytes n v : 0 <= v < 256 ^ Z.of_nat n -> le_val (lebytes n v) = v.
Proof.
  revert v; induction n; intros v H.
  - cbn in *. lia.
  - cbn [lebytes le_val]. rewrite IHn.
    + pose proof (Z.div_mod v 256). lia.
    + rewrite Nat2Z.inj_succ, Z.pow_succ_r in H by lia.
      split; [apply Z.div_pos; lia|apply Z.div_lt_upper_bound; lia].
Qed.

Lemma rd_u8_app v s ts : byte_ok v -> rd_u8 s (TB v :: ts) = Ok v s ts.
Proof.
  intros H. unfold rd_u8. erewrite bind_ok.
  2:{ apply (rd_app 1 s [v] ts); [constructor; [exact H|constructor]|reflexivity]. }
  unfold ret, be_val. cbn. f_equal.
Qed.

Lemma rd_u16_app v s ts : 0 <= v < 65536 -> rd_u16 s (toks (be16 v) ++ ts) = Ok v s ts.
Proof.
  intros H. unfold rd_u16. erewrite bind_ok; [|apply rd_app; [apply be16_ok|reflexivity]].
  unfold ret. now rewrite be_val_be16.
Qed.

Lemma rd_u32_app v s ts : 0 <= v < 4294967296 -> rd_u32 s (toks (be32 v) ++ ts) = Ok v s ts.
Proof.
  intros H. unfold rd_u32. erewrite bind_ok; [|apply rd_app; [apply be32_ok|reflexivity]].
  unfold ret. now rewrite be_val_be32.
Qed.

Lemma rd_px_app bypp v s ts :
  0 <= bypp -> 0 <= v < 256 ^ bypp -> rd_px bypp s (toks (lebytes (Z.to_nat bypp) v) ++ ts) = Ok v s ts.
Proof.
  intros Hb H. unfold rd_px. erewrite bind_ok.
  2:{ apply rd_app; [apply lebytes_ok|]. unfold zlen. rewrite lebytes_len. lia. }
  unfold ret. rewrite le_val_lebytes; [reflexivity|]. now rewrite Z2Nat.id.
Qed.

(* ---------------------------------------------------------------- chunks *)
Lemma chunks_aux_concat (w : nat) (rows : list (list Z)) fuel :
  (1 <= w)%nat -> Forall (fun r => length r = w) rows -> (length rows <= fuel)%nat ->
  chunks_aux fuel w (concat rows) = rows.
Proof.
  intros Hw Hr. revert fuel. induction Hr as [|r rows Hr1 Hr2 IH]; intros fuel Hf.
  - cbn [concat]. destruct fuel; reflexivity.
  - destruct fuel; [cbn in Hf; lia|]. cbn [concat chunks_aux].
    destruct (r ++ concat rows) eqn:E.
    + destruct r; [cbn in Hr1; lia|discriminate].
    + rewrite <- E. rewrite firstn_app, Hr1, Nat.sub_diag, firstn_all2 by lia. cbn [firstn]. rewrite app_nil_r.
      rewrite skipn_app, Hr1, Nat.sub_diag, skipn_all2 by lia. cbn [skipn app].
      f_equal. apply IH. cbn in Hf. lia.
Qed.

Lemma concat_len_ge (w : nat) (rows : list (list Z)) :
  (1 <= w)%nat -> Forall (fun r => length r = w) rows -> (length rows <= length (concat rows))%nat.
Proof.
  intros Hw Hr. induction Hr as [|r rows Hr1 Hr2 IH]; cbn [concat length]; [lia|].
  rewrite app_length. lia.
Qed.

Lemma chunks_concat w (rows : list (list Z)) : 1 <= w -> Forall (fun r => zlen r = w) rows -> chunks w (concat rows) = rows.
Proof.
  intros Hw Hr. unfold chunks. destruct (Z.leb_spec w 0); [lia|].
  assert (Hr' : Forall (fun r => length r = Z.to_nat w) rows).
  { eapply Forall_impl; [|exact Hr]. intros r Hl. unfold zlen in Hl. lia. }
  apply chunks_aux_concat; [lia|exact Hr'|]. apply (concat_len_ge (Z.to_nat w)); [lia|exact Hr'].
Qed.

Lemma concat_zlen w (rows : list (list Z)) : Forall (fun r => zlen r = w) rows -> zlen (concat rows) = w * zlen rows.
Proof.
  induction 1 as [|r rows Hr1 Hr2 IH]; cbn [concat]; [unfold zlen; cbn; lia|].
  rewrite zlen_app, zlen_cons, IH, Hr1. lia.
Qed.

(* pixels <-> bytes *)
Definition px_ok (bypp : Z) (v : Z) : Prop := 0 <= v < 256 ^ bypp.

Lemma px_bytes_ok bypp pix : Forall byte_ok (px_bytes bypp pix).
Proof.
  unfold px_bytes. induction pix; cbn [flat_map]; [constructor|].
  apply Forall_app. split; [apply lebytes_ok|assumption].
Qed.

Lemma px_bytes_zlen bypp pix : 0 <= bypp -> zlen (px_bytes bypp pix) = bypp * zlen pix.
Proof.
  intros Hb. unfold px_bytes. induction pix; cbn [flat_map]; [unfold zlen; cbn; lia|].
  rewrite zlen_app, zlen_cons, IHpix. unfold zlen at 1. rewrite lebytes_len. lia.
Qed.

Lemma px_bytes_app bypp a b : px_bytes bypp (a ++ b) = px_bytes bypp a ++ px_bytes bypp b.
Proof. unfold px_bytes. apply flat_map_app. Qed.

Lemma px_of_bytes_px_bytes bypp pix :
  1 <= bypp -> Forall (px_ok bypp) pix -> px_of_bytes bypp (px_bytes bypp pix) = pix.
Proof.
  intros Hb Hp. unfold px_of_bytes, px_bytes.
  rewrite flat_map_concat_map.
  rewrite chunks_concat; [| lia |].
  - rewrite map_map. rewrite <- (map_id pix) at 2. apply map_ext_in. intros v Hv.
    rewrite Forall_forall in Hp. specialize (Hp v Hv). unfold px_ok in Hp.
    apply le_val_lebytes. rewrite Z2Nat.id by lia. exact Hp.
  - apply Forall_forall. intros r Hr. apply in_map_iff in Hr. destruct Hr as [v [<- _]].
    unfold zlen. rewrite lebytes_len. lia.
Qed.

(* take_rows on exactly w*h pixels *)
Lemma take_rows_concat w h rows : 1 <= w -> rows_wf w h rows -> take_rows w h (concat rows) = rows.
Proof.
  intros Hw [Hl Hr]. unfold take_rows.
  pose proof (concat_zlen w rows Hr) as Hc. pose proof (zlen_nonneg rows).
  replace (Z.to_nat (w * h) - length (concat rows))%nat with 0%nat by (unfold zlen in *; nia).
  cbn [repeat]. rewrite app_nil_r. rewrite chunks_concat by assumption.
  apply firstn_all2. unfold zlen in *. lia.
Qed.

(* ---------------------------------------------------------------- vertical composition of blits *)
Lemma blit_split_v fb x y A B :
  0 <= y -> blit_spec (blit_spec fb x y A) x (y + zlen A) B = blit_spec fb x y (A ++ B).
Proof.
  unfold blit_spec. revert fb y. induction A as [|v A IH]; intros fb y Hy.
  - rewrite blit_from_nil. cbn [app]. f_equal. unfold zlen; cbn; lia.
  - cbn [app]. rewrite <- (blit_from_cons fb x y v A Hy).
    rewrite zlen_cons. replace (y + (1 + zlen A)) with (y + 1 + zlen A) by lia.
    rewrite IH by lia. apply blit_from_cons. exact Hy.
Qed.

(* ---------------------------------------------------------------- state bookkeeping *)
Lemma set_fb_set_fb s a b : set_fb (set_fb s a) b = set_fb s b.
Proof. reflexivity. Qed.
Lemma set_fb_id s : set_fb s (c_fb s) = s.
Proof. destruct s; reflexivity. Qed.

Lemma st_wf_set_fb s fb : st_wf s -> fb_wf (c_w s) (c_h s) fb -> st_wf (set_fb s fb).
Proof. intros (A & B & C) H. repeat split; auto; apply H. Qed.
