(* CliMsgProofs.v - message level: callbacks are invoked with the transmitted values; a
   FramebufferUpdate made of rectangles that each decode correctly is processed completely, the
   incremental update request is sent and FinishedFrameBufferUpdate is reported. *)
From LV Require Import Dec.CliBase Dec.CliFbProofs Dec.CliDec Dec.CliDecZ Dec.CliMsg Dec.RefEnc Dec.CliRtBase Dec.CliRtSimple.
Require Import ZifyBool.
Local Open Scope Z_scope.

Theorem msg_bell s ts : handle_msg s (TB cM_Bell :: ts) = Ok tt (add_ev s EvBell) ts.
Proof.
  unfold handle_msg. erewrite bind_ok; [|apply rd_u8_app; unfold byte_ok, cM_Bell; lia]. reflexivity.
Qed.

Theorem msg_cuttext s txt ts :
  Forall byte_ok txt -> zlen txt <= cCutTextLimit ->
  handle_msg s (toks ([cM_ServerCutText; 0; 0; 0] ++ be32 (zlen txt) ++ txt) ++ ts) = Ok tt (add_ev s (EvCut txt)) ts.
Proof.
  intros Hb Hl. unfold handle_msg. cbn [app toks map].
  erewrite bind_ok; [|apply rd_u8_app; unfold byte_ok, cM_ServerCutText; lia].
  change (cM_ServerCutText =? cM_SetColourMapEntries) with false.
  change (cM_ServerCutText =? cM_FramebufferUpdate) with false.
  change (cM_ServerCutText =? cM_Bell) with false. rewrite Z.eqb_refl. cbn iota.
  pose proof (zlen_nonneg txt). unfold cCutTextLimit in Hl.
  pose proof (be32_ok (zlen txt)) as Hb32.
  assert (Hv : be_val (be32 (zlen txt)) = zlen txt) by (apply be_val_be32; lia).
  unfold be32 in *. cbn [map app] in *.
  set (b3 := zlen txt / 16777216 mod 256) in *. set (b2 := zlen txt / 65536 mod 256) in *.
  set (b1 := zlen txt / 256 mod 256) in *. set (b0 := zlen txt mod 256) in *.
  erewrite bind_ok.
  2:{ apply (rd_app (csz_ServerCutTextMsg - 1) s [0; 0; 0; b3; b2; b1; b0]); [|reflexivity].
      repeat (constructor; [unfold byte_ok; lia|]); exact Hb32. }
  cbn [skipn]. rewrite Hv.
  destruct (Z.leb_spec (2 ^ 31) (zlen txt)); [lia|].
  destruct (Z.ltb_spec (zlen txt) 0); [lia|].
  rewrite Z.mod_small by lia.
  destruct (Z.ltb_spec cCutTextLimit (zlen txt)); [unfold cCutTextLimit in *; lia|].
  fold (toks txt). erewrite bind_ok; [|apply rd_app; [exact Hb|reflexivity]].
  reflexivity.
Qed.

(* RichCursor: pixel data and the unpacked mask reach GotCursorShape unchanged *)
Theorem cursor_rich s xh yh w h pix mask ts :
  1 <= w < cMAX_CURSOR_SIZE -> 1 <= h < cMAX_CURSOR_SIZE ->
  Forall byte_ok pix -> Forall byte_ok mask -> 0 <= bypp_of s ->
  zlen pix = w * h * bypp_of s -> zlen mask = (w + 7) / 8 * h ->
  dec_cursor xh yh w h cE_RichCursor s (toks (pix ++ mask) ++ ts)
  = Ok tt (add_ev s (EvCursor xh yh w h (bypp_of s) pix (bits_of mask ((w + 7) / 8) w h))) ts.
Proof.
  intros Hw Hh Hp Hm Hb Hlp Hlm. unfold dec_cursor.
  erewrite bind_ok; [|reflexivity].
  destruct (Z.eqb_spec (w * h) 0); [nia|].
  destruct (Z.leb_spec cMAX_CURSOR_SIZE w); [lia|]. destruct (Z.leb_spec cMAX_CURSOR_SIZE h); [lia|]. cbn [orb].
  change (cE_RichCursor =? cE_XCursor) with false. cbn iota.
  rewrite toks_app, <- app_assoc.
  erewrite bind_ok; [|apply rd_app; [exact Hp|now symmetry]].
  erewrite bind_ok; [|apply rd_app; [exact Hm|now symmetry]].
  reflexivity.
Qed.

(* ---------------------------------------------------------------- FramebufferUpdate framing *)
(* a rectangle record: its bytes are processed by do_rect, leaving the state s' *)
Definition rect_steps (s : cst) (r : list tok) (s' : cst) : Prop :=
  forall ts, do_rect s (r ++ ts) = Ok false s' ts.

Inductive rects_run : cst -> list (list tok) -> cst -> Prop :=
| rr_nil s : rects_run s [] s
| rr_cons s r s1 rs s2 : rect_steps s r s1 -> rects_run s1 rs s2 -> rects_run s (r :: rs) s2.

Lemma rect_loop_run rs : forall s s' ts, rects_run s rs s' ->
  rect_loop (length rs) s (concat rs ++ ts) = Ok tt s' ts.
Proof.
  induction rs as [|r rs IH]; intros s s' ts Hrun; inversion Hrun as [|? ? s1 ? ? Hstep Hrest]; subst; cbn [length rect_loop concat].
  - reflexivity.
  - rewrite <- app_assoc. erewrite bind_ok; [|apply Hstep]. cbn iota. now apply IH.
Qed.

Lemma send_incr_ok s ts : c_canfur s = true -> c_reqrs s = false ->
  send_incr s ts = Ok tt (add_out s (let '(x, y, w, h) := c_upd s in fur_bytes 1 x y w h)) ts.
Proof.
  intros H H2. unfold send_incr, bind, get_st. destruct (c_upd s) as [[[x y] w] h].
  unfold send_fur, bind, get_st. rewrite H, H2. reflexivity.
Qed.

(* while a SetDesktopSize is pending the request is withheld *)
Lemma send_incr_pending s ts : c_reqrs s = true -> send_incr s ts = Ok tt s ts.
Proof.
  intros H. unfold send_incr, bind, get_st. destruct (c_upd s) as [[[x y] w] h].
  unfold send_fur, bind, get_st. rewrite H. destruct (c_canfur s); reflexivity.
Qed.

Theorem fbu_run s rs s' ts :
  rects_run s rs s' -> zlen rs < 65535 -> c_canfur s' = true -> c_reqrs s' = false ->
  handle_msg s (toks (fbu_header (zlen rs)) ++ concat rs ++ ts)
  = Ok tt (add_ev (add_out s' (let '(x, y, w, h) := c_upd s' in fur_bytes 1 x y w h)) EvFinished) ts.
Proof.
  intros Hrun Hn Hfur Hrq. unfold handle_msg, fbu_header. cbn [app toks map].
  erewrite bind_ok; [|apply rd_u8_app; unfold byte_ok, cM_FramebufferUpdate; lia].
  change (cM_FramebufferUpdate =? cM_SetColourMapEntries) with false. rewrite Z.eqb_refl. cbn iota.
  pose proof (zlen_nonneg rs).
  pose proof (be16_ok (zlen rs)) as Hb16. pose proof (be_val_be16 (zlen rs) ltac:(lia)) as Hv.
  unfold be16 in *. cbn [map app] in *.
  erewrite bind_ok.
  2:{ apply (rd_app (csz_FramebufferUpdateMsg - 1) s [0; zlen rs / 256 mod 256; zlen rs mod 256]); [|reflexivity].
      constructor; [unfold byte_ok; lia|exact Hb16]. }
  cbn [skipn]. rewrite Hv. unfold zlen at 1. rewrite Nat2Z.id.
  erewrite bind_ok; [|apply rect_loop_run; exact Hrun].
  erewrite bind_ok; [|apply send_incr_ok; [exact Hfur|exact Hrq]]. reflexivity.
Qed.

(* a Raw rectangle is such a step *)
Theorem rect_step_raw s x y w h rows :
  st_wf s -> bypp_ok s -> c_w s <= 65535 -> c_h s <= 65535 ->
  0 <= x -> 0 <= y -> 1 <= w <= 65535 -> 0 <= h <= 65535 ->
  x + w <= c_w s -> y + h <= c_h s ->
  rows_wf w h rows -> Forall (Forall (px_ok (bypp_of s))) rows ->
  rect_steps s (toks (rect_header x y w h cE_Raw ++ ref_raw (bypp_of s) rows))
             (add_ev (set_fb s (blit_spec (c_fb s) x y rows)) (EvUpdate x y w h)).
Proof.
  intros Hs Hb HW HH Hx Hy Hw Hh Hxw Hyh Hr Hp ts. unfold do_rect, rect_header.
  destruct Hs as (Hw0 & Hh0 & Hfb).
  assert (Hx' : x < 65536) by lia. assert (Hy' : y < 65536) by lia.
  rewrite !toks_app, <- !app_assoc.
  erewrite bind_ok; [|apply rd_u16_app; lia].
  erewrite bind_ok; [|apply rd_u16_app; lia].
  erewrite bind_ok; [|apply rd_u16_app; lia].
  erewrite bind_ok; [|apply rd_u16_app; lia].
  erewrite bind_ok; [|apply rd_u32_app; unfold cE_Raw; lia].
  change (cE_Raw =? cE_LastRect) with false. change (cE_Raw =? cE_XCursor) with false.
  change (cE_Raw =? cE_RichCursor) with false. change (cE_Raw =? cE_PointerPos) with false.
  change (cE_Raw =? cE_KeyboardLedState) with false. change (cE_Raw =? cE_NewFBSize) with false.
  change (cE_Raw =? cE_ExtDesktopSize) with false. change (cE_Raw =? cE_SupportedMessages) with false.
  change (cE_Raw =? cE_SupportedEncodings) with false. change (cE_Raw =? cE_ServerIdentity) with false.
  cbn [orb]. cbn iota.
  erewrite bind_ok; [|reflexivity].
  change (cE_Raw =? cE_UltraZip) with false. cbn [negb andb].
  destruct (Z.ltb_spec (c_w s) (x + w)); [lia|]. destruct (Z.ltb_spec (c_h s) (y + h)); [lia|]. cbn [orb]. cbn iota.
  rewrite Z.eqb_refl.
  erewrite bind_ok; [|apply roundtrip_raw; auto; try lia; repeat split; auto; apply Hfb].
  erewrite bind_ok; [|reflexivity]. reflexivity.
Qed.
