(* CliRead.v - mirror of ReadFromRFBServer (sockets.c:63-242): the 8 KiB read-ahead buffer client->buf.
   A read() on the socket returns between 1 and min(requested, available) bytes, as dictated by an
   arbitrary segmentation schedule (EAGAIN only delays and is not represented); 0 available bytes = EOF.
   Definitions and the theorem that the bytes delivered do not depend on the schedule. *)
From LV Require Import Dec.CliBase Dec.CliFbProofs.
Require Import ZifyBool.
Local Open Scope Z_scope.

Record rstate : Type := mkr { r_buf : list Z;      (* client->bufoutptr .. +buffered *)
                              r_rest : list Z;     (* bytes still in the socket *)
                              r_seg : list Z }.    (* how much the next read() calls are willing to return *)

(* one read(sock, p, cap) with cap >= 1: None = EOF *)
Definition sock_read (cap : Z) (st : rstate) : option (list Z * rstate) :=
  match r_rest st with
  | [] => None
  | _ => let want := match r_seg st with k :: _ => Z.max 1 k | [] => cap end in
         let k := Z.to_nat (Z.min (Z.min want cap) (zlen (r_rest st))) in
         Some (firstn k (r_rest st), mkr (r_buf st) (skipn k (r_rest st)) (tl (r_seg st)))
  end.

(* while (client->buffered < n) read(sock, buf + buffered, RFB_BUF_SIZE - buffered) *)
Fixpoint fill_buf (fuel : nat) (n : Z) (st : rstate) : option rstate :=
  if n <=? zlen (r_buf st) then Some st else
  match fuel with
  | O => None
  | S f => match sock_read (cRFB_BUF_SIZE - zlen (r_buf st)) st with
           | None => None
           | Some (bs, st') => fill_buf f n (mkr (r_buf st ++ bs) (r_rest st') (r_seg st'))
           end
  end.

(* while (n > 0) read(sock, out, n) *)
Fixpoint read_direct (fuel : nat) (n : Z) (acc : list Z) (st : rstate) : option (list Z * rstate) :=
  if n <=? 0 then Some (acc, st) else
  match fuel with
  | O => None
  | S f => match sock_read n st with
           | None => None
           | Some (bs, st') => read_direct f (n - zlen bs) (acc ++ bs) st'
           end
  end.

Definition read_exact (n : Z) (st : rstate) : option (list Z * rstate) :=
  if n <=? zlen (r_buf st) then
    Some (firstn (Z.to_nat n) (r_buf st), mkr (skipn (Z.to_nat n) (r_buf st)) (r_rest st) (r_seg st))
  else
    let out1 := r_buf st in
    let n' := n - zlen (r_buf st) in
    let st0 := mkr [] (r_rest st) (r_seg st) in
    if n' <=? cRFB_BUF_SIZE then
      match fill_buf (S (length (r_rest st))) n' st0 with
      | None => None
      | Some st1 => Some (out1 ++ firstn (Z.to_nat n') (r_buf st1),
                          mkr (skipn (Z.to_nat n') (r_buf st1)) (r_rest st1) (r_seg st1))
      end
    else
      match read_direct (S (length (r_rest st))) n' [] st0 with
      | None => None
      | Some (bs, st1) => Some (out1 ++ bs, st1)
      end.

Definition pending (st : rstate) : list Z := r_buf st ++ r_rest st.

(* ---------------------------------------------------------------- proofs *)
Lemma sock_read_spec cap st bs st' :
  1 <= cap -> sock_read cap st = Some (bs, st') ->
  r_rest st = bs ++ r_rest st' /\ 1 <= zlen bs <= cap /\ r_buf st' = r_buf st.
Proof.
  intros Hc. unfold sock_read. destruct (r_rest st) as [|b r] eqn:E; [discriminate|].
  intros H; inversion H; subst; clear H. cbn [r_rest r_buf].
  split; [symmetry; apply firstn_skipn|]. split; [|reflexivity].
  unfold zlen. rewrite firstn_length. cbn [length]. 
  destruct (r_seg st); lia.
Qed.

Lemma sock_read_some cap st : 1 <= cap -> r_rest st <> [] -> exists bs st', sock_read cap st = Some (bs, st').
Proof. intros Hc Hr. unfold sock_read. destruct (r_rest st); [congruence|eauto]. Qed.

Lemma fill_buf_spec fuel : forall n st,
  n <= cRFB_BUF_SIZE -> (length (r_rest st) < fuel)%nat -> zlen (r_buf st) <= cRFB_BUF_SIZE ->
  (n <= zlen (pending st) ->
     exists st', fill_buf fuel n st = Some st' /\ pending st' = pending st /\ n <= zlen (r_buf st') <= cRFB_BUF_SIZE
                 /\ exists more, r_buf st' = r_buf st ++ more) /\
  (zlen (pending st) < n -> fill_buf fuel n st = None).
Proof.
  induction fuel as [|fuel IH]; intros n st Hn Hf Hb; [lia|].
  cbn [fill_buf]. destruct (Z.leb_spec n (zlen (r_buf st))).
  - split; [|unfold pending; rewrite zlen_app; pose proof (zlen_nonneg (r_rest st)); lia].
    intros _. exists st. repeat split; auto; try lia. exists []. now rewrite app_nil_r.
  - destruct (r_rest st) as [|b r] eqn:Er.
    + unfold sock_read. rewrite Er. split; [|reflexivity].
      unfold pending. rewrite Er, app_nil_r. lia.
    + destruct (sock_read_some (cRFB_BUF_SIZE - zlen (r_buf st)) st ltac:(lia) ltac:(congruence)) as [bs [st' E]].
      rewrite E. destruct (sock_read_spec (cRFB_BUF_SIZE - zlen (r_buf st)) _ _ _ ltac:(lia) E) as [H1 [H2 H3]].
      set (st2 := mkr (r_buf st ++ bs) (r_rest st') (r_seg st')).
      assert (Hp : pending st2 = pending st).
      { unfold pending, st2. cbn [r_buf r_rest]. rewrite H1. now rewrite <- app_assoc. }
      destruct (IH n st2 Hn) as [A B].
      { cbn [st2 r_rest]. rewrite Er in H1. assert (Hlen : length (b :: r) = length (bs ++ r_rest st')) by now rewrite H1.
        rewrite app_length in Hlen. unfold zlen in H2. cbn [length] in *. lia. }
      { cbn [st2 r_buf]. rewrite zlen_app. lia. }
      rewrite Hp in A, B. split; [|exact B].
      intros Hle. destruct (A Hle) as [st3 [E3 [P3 [L3 [more M3]]]]].
      exists st3. repeat split; auto; try lia. exists (bs ++ more). cbn [st2 r_buf] in M3. now rewrite M3, app_assoc.
Qed.

Lemma read_direct_spec fuel : forall n acc st,
  (length (r_rest st) < fuel)%nat -> r_buf st = [] -> 0 <= n ->
  (n <= zlen (r_rest st) ->
     exists st', read_direct fuel n acc st = Some (acc ++ firstn (Z.to_nat n) (r_rest st), st') /\
                 r_buf st' = [] /\ r_rest st' = skipn (Z.to_nat n) (r_rest st)) /\
  (zlen (r_rest st) < n -> read_direct fuel n acc st = None).
Proof.
  induction fuel as [|fuel IH]; intros n acc st Hf Hb Hn; [lia|].
  cbn [read_direct]. destruct (Z.leb_spec n 0).
  - assert (n = 0) by lia. subst n. split; [|pose proof (zlen_nonneg (r_rest st)); lia].
    intros _. exists st. cbn [Z.to_nat firstn skipn]. rewrite app_nil_r. auto.
  - destruct (r_rest st) as [|b r] eqn:Er.
    + unfold sock_read. rewrite Er. split; [cbn; lia|reflexivity].
    + destruct (sock_read_some n st ltac:(lia) ltac:(congruence)) as [bs [st' E]].
      rewrite E. destruct (sock_read_spec n _ _ _ ltac:(lia) E) as [H1 [H2 H3]].
      rewrite Er in H1.
      destruct (IH (n - zlen bs) (acc ++ bs) st') as [A B]; try lia; try congruence.
      { assert (Hlen : length (b :: r) = length (bs ++ r_rest st')) by now rewrite H1.
        rewrite app_length in Hlen. unfold zlen in H2. cbn [length] in *. lia. }
      assert (Hl : zlen (b :: r) = zlen bs + zlen (r_rest st')) by (rewrite H1, zlen_app; reflexivity).
      split.
      * intros Hle. destruct A as [st3 [E3 [B3 R3]]]; [lia|]. exists st3. split; [|split; [exact B3|]].
        -- rewrite E3. f_equal. rewrite <- app_assoc. f_equal. f_equal. rewrite H1.
           rewrite firstn_app. unfold zlen in *.
           rewrite (@firstn_all2 _ (Z.to_nat n) bs) by lia. f_equal. f_equal. lia.
        -- rewrite R3, H1. rewrite skipn_app. unfold zlen in *. rewrite (skipn_all2 bs) by lia. cbn [app].
           f_equal. lia.
      * intros Hlt. apply B. lia.
Qed.

Theorem read_buffering n st :
  0 <= n -> zlen (r_buf st) <= cRFB_BUF_SIZE ->
  (n <= zlen (pending st) ->
     exists out st', read_exact n st = Some (out, st') /\ out = firstn (Z.to_nat n) (pending st) /\
                     pending st' = skipn (Z.to_nat n) (pending st) /\ zlen (r_buf st') <= cRFB_BUF_SIZE) /\
  (zlen (pending st) < n -> read_exact n st = None).
Proof.
  intros Hn Hb. unfold read_exact. destruct (Z.leb_spec n (zlen (r_buf st))).
  - split; [|unfold pending; rewrite zlen_app; pose proof (zlen_nonneg (r_rest st)); lia].
    intros _. eexists. eexists. split; [reflexivity|]. unfold pending. cbn [r_buf r_rest].
    unfold zlen in *. rewrite firstn_app, skipn_app.
    replace (Z.to_nat n - length (r_buf st))%nat with 0%nat by lia. cbn [firstn skipn]. rewrite app_nil_r.
    repeat split; auto. rewrite skipn_length. lia.
  - set (n' := n - zlen (r_buf st)). set (st0 := mkr [] (r_rest st) (r_seg st)).
    assert (Hpend : zlen (pending st) = zlen (r_buf st) + zlen (r_rest st)) by (unfold pending; now rewrite zlen_app).
    destruct (Z.leb_spec n' cRFB_BUF_SIZE).
    + destruct (fill_buf_spec (S (length (r_rest st))) n' st0 ltac:(lia)) as [A B]; [cbn; lia|cbn; unfold cRFB_BUF_SIZE; lia|].
      assert (Hp0 : pending st0 = r_rest st) by reflexivity. rewrite Hp0 in A, B.
      split.
      * intros Hle. destruct A as [st1 [E1 [P1 [L1 [more M1]]]]]; [lia|]. rewrite E1.
        eexists. eexists. split; [reflexivity|]. cbn [r_buf r_rest] in *.
        unfold pending in *. cbn [r_buf r_rest] in *.
        assert (Hnn : Z.to_nat n = (length (r_buf st) + Z.to_nat n')%nat) by (unfold n', zlen in *; lia).
        destruct L1 as [L1a L1b]. unfold zlen in L1a, L1b.
        assert (Hz : (Z.to_nat n' - length (r_buf st1))%nat = 0%nat) by lia.
        repeat split.
        -- rewrite Hnn, firstn_app_2. f_equal. rewrite <- P1. rewrite firstn_app, Hz.
           cbn [firstn]. now rewrite app_nil_r.
        -- rewrite Hnn, skipn_app. rewrite (@skipn_all2 _ (length (r_buf st) + Z.to_nat n') (r_buf st)) by lia. cbn [app].
           replace (length (r_buf st) + Z.to_nat n' - length (r_buf st))%nat with (Z.to_nat n') by lia.
           rewrite <- P1. rewrite skipn_app, Hz. reflexivity.
        -- unfold zlen. rewrite skipn_length. lia.
      * intros Hlt. rewrite B; [reflexivity|lia].
    + destruct (read_direct_spec (S (length (r_rest st))) n' [] st0) as [A B]; [cbn; lia|reflexivity|lia|].
      cbn [st0 r_rest] in A, B. split.
      * intros Hle. destruct A as [st1 [E1 [B1 R1]]]; [lia|]. rewrite E1. cbn [app].
        eexists. eexists. split; [reflexivity|]. unfold pending. rewrite B1, R1. cbn [app].
        assert (Hnn : Z.to_nat n = (length (r_buf st) + Z.to_nat n')%nat) by (unfold n', zlen in *; lia).
        repeat split.
        -- now rewrite Hnn, firstn_app_2.
        -- rewrite Hnn, skipn_app. rewrite (@skipn_all2 _ (length (r_buf st) + Z.to_nat n') (r_buf st)) by lia. cbn [app]. f_equal. lia.
        -- unfold cRFB_BUF_SIZE, zlen. cbn. lia.
      * intros Hlt. rewrite B; [reflexivity|lia].
Qed.
