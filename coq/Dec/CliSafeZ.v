(* CliSafeZ.v - the REPAIRED ZRLE (fix bits 5, 6, 8 = commits 112b5b7, a7a3a60, 281f33a) and TRLE (fix bit 4 =
   d9a5962) decoders of the mirror never leave an object, for EVERY token stream.  With CliSafe.v and
   CliSafeFix.v: no out-of-bounds outcome at all for the repaired mirror (no_oob_repaired). *)
From LV Require Import Dec.CliBase Dec.CliFbProofs Dec.CliDec Dec.CliDecZ Dec.CliMsg Dec.RefEnc Dec.CliRtBase Dec.CliRtSimple
     Dec.CliCopyProofs Dec.CliSound Dec.CliSafe Dec.CliSafeFix.
Require Import ZifyBool.
Local Open Scope Z_scope.

(* ---------------------------------------------------------------- more frames *)
Lemma frame_cpix_at code cap v c k : frame (cpix_at code cap v c k).
Proof. unfold cpix_at. destruct v; frm. Qed.
Hint Resolve frame_cpix_at : frm.
Lemma frame_cpixels code cap v c n : forall k, frame (cpixels code cap v c k n).
Proof. induction n; intros; cbn [cpixels]; frm. Qed.
Lemma frame_pal_get code pal i : frame (pal_get code pal i).
Proof. unfold pal_get. frm. Qed.
Lemma frame_paint_seq code x y w pix : frame (paint_seq code x y w pix).
Proof. unfold paint_seq. frm. Qed.
Hint Resolve frame_cpixels frame_pal_get frame_paint_seq frame_mapM : frm.
Lemma frame_zrle_runlen l : forall cap pos bend acc n, frame (zrle_runlen l cap pos bend acc n).
Proof. induction l; intros; cbn [zrle_runlen]; frm. Qed.
Hint Resolve frame_zrle_runlen : frm.
Lemma frame_zrle_plain fuel : forall cap v c c0 blen total acc k, frame (zrle_plain fuel cap v c c0 blen total acc k).
Proof. induction fuel; intros; cbn [zrle_plain]; frm. Qed.
Lemma frame_zrle_palrle fuel : forall cap c c0 blen total pal acc k, frame (zrle_palrle fuel cap c c0 blen total pal acc k).
Proof. induction fuel; intros; cbn [zrle_palrle]; frm. Qed.
Hint Resolve frame_zrle_plain frame_zrle_palrle : frm.
Lemma frame_zrle_tile cap v c rem x y w h : frame (zrle_tile cap v c rem x y w h).
Proof. unfold zrle_tile. frm; try (apply frame_mapM; intros; frm; try (apply frame_mapM; intros; frm)). Qed.
Hint Resolve frame_zrle_tile : frm.
Lemma frame_zrle_cols fuel : forall cap v c rem i j rx ry rw th, frame (zrle_cols fuel cap v c rem i j rx ry rw th).
Proof. induction fuel; intros; cbn [zrle_cols]; frm. Qed.
Hint Resolve frame_zrle_cols : frm.

(* ---------------------------------------------------------------- scratch area with 4 spare bytes *)
Definition zcur_ok (cap : Z) (c : bcur) : Prop :=
  bytes_ok (bc_data c) /\ 0 <= bc_pos c /\ bc_pos c + zlen (bc_data c) + 4 <= cap.

Lemma bytes_ok_app a b : bytes_ok a -> bytes_ok b -> bytes_ok (a ++ b).
Proof. unfold bytes_ok. intros. apply Forall_app; auto. Qed.
Lemma bytes_ok_zeros n : bytes_ok (repeat 0 n).
Proof. apply Forall_forall. intros x Hx. apply repeat_spec in Hx. subst. unfold byte_ok. lia. Qed.

Lemma safe_peek_at code cap c k n : bytes_ok (bc_data c) -> 0 <= k -> bc_pos c + k + n <= cap ->
  safeP (fun l => bytes_ok l /\ zlen l = Z.max 0 n) (peek_at code cap c k n).
Proof.
  intros Hb Hk Hc. unfold peek_at.
  destruct (Z.leb_spec n 0); [apply safe_ret; split; [constructor|unfold zlen; cbn; lia]|].
  destruct (Z.ltb_spec cap (bc_pos c + k + n)); [lia|].
  pose proof (bytes_ok_skipn (Z.to_nat k) _ Hb) as Hd.
  destruct (Z.ltb_spec (zlen (skipn (Z.to_nat k) (bc_data c))) n).
  - eapply safe_bind; [auto with snd|apply safe_upd|]. intros _ _. apply safe_ret. split.
    + apply bytes_ok_firstn. apply bytes_ok_app; [exact Hd|apply bytes_ok_zeros].
    + unfold zlen. rewrite firstn_length, app_length, repeat_length. lia.
  - apply safe_ret. split; [now apply bytes_ok_firstn|rewrite zlen_firstn_le; lia].
Qed.

Lemma rbytes_range v : 1 <= rbytes v <= 4 /\ 1 <= cbpp v / 8 <= 4.
Proof. destruct v; cbn; lia. Qed.

Lemma safe_cpix_at code cap v c k : bytes_ok (bc_data c) -> 0 <= k -> bc_pos c + k + 4 <= cap ->
  safe (cpix_at code cap v c k).
Proof.
  intros Hb Hk Hc. unfold cpix_at.
  destruct v.
  all: try (destruct (Z.ltb_spec cap (bc_pos c + k + 4)); [lia|]).
  all: (eapply safe_bind; [auto with snd|apply safe_peek_at; [exact Hb|exact Hk|unfold cbpp; try change (8 / 8) with 1; try change (16 / 8) with 2; try change (32 / 8) with 4; lia]|]; intros; apply safe_ret; exact I).
Qed.

Lemma safe_cpixels code cap v c n : forall k, bytes_ok (bc_data c) -> 0 <= k ->
  bc_pos c + k + Z.of_nat n * rbytes v + 4 <= cap + rbytes v ->
  safeP (fun l => length l = n) (cpixels code cap v c k n).
Proof.
  pose proof (rbytes_range v) as [Hr _].
  induction n as [|n IH]; intros k Hb Hk Hc; cbn [cpixels]; [apply safe_ret; reflexivity|].
  eapply safe_bind; [auto with snd|apply safe_cpix_at; [exact Hb|exact Hk|nia]|]. intros p _.
  eapply safe_bind; [apply sound_cpixels|apply IH; [exact Hb|lia|nia]|]. intros r Hl.
  apply safe_ret. cbn beta in Hl. cbn [length]. lia.
Qed.

Lemma safe_pal_get code pal i : i < 128 -> safe (pal_get code pal i).
Proof.
  intros Hi. unfold pal_get. destruct (Z.leb_spec 128 i); [lia|].
  destruct (nth_error pal (Z.to_nat i)); [apply safe_ret; exact I|].
  eapply safe_bind; [auto with snd|apply safe_upd|]. intros; apply safe_ret; exact I.
Qed.

(* the run length stays inside the defined bytes, which end at [bend] *)
Lemma safe_zrle_runlen l : forall cap pos bend acc n,
  bytes_ok l -> pos + zlen l = bend -> bend + 1 <= cap -> 1 <= acc ->
  safeP (fun r => match r with None => True | Some (len, n') => 1 <= len /\ n <= n' /\ (l <> [] -> n' <= n + zlen l) end)
        (zrle_runlen l cap pos bend acc n).
Proof.
  induction l as [|b r IH]; intros cap pos bend acc n Hb Hp Hc Ha; cbn [zrle_runlen].
  - unfold zlen in Hp. cbn in Hp.
    destruct (Z.ltb_spec cap (pos + 1)); [lia|]. destruct (Z.ltb_spec cap bend); [lia|].
    eapply safe_bind; [auto with snd|apply safe_upd|]. intros _ _. apply safe_ret. split; [lia|]. split; [lia|]. intros C; contradiction.
  - rewrite zlen_cons in Hp. pose proof (Forall_inv Hb) as H0. unfold byte_ok in H0.
    destruct (Z.eqb_spec b 255).
    + destruct (Z.leb_spec bend (pos + 1)); [apply safe_ret; exact I|].
      eapply safeP_weaken; [|apply (IH cap (pos + 1) bend (acc + 255) (n + 1)); [exact (Forall_inv_tail Hb)|lia|lia|lia]].
      intros [[len n']|]; [|auto]. intros (L1 & L2 & L3). split; [exact L1|]. split; [lia|]. intros _. rewrite zlen_cons.
      assert (r <> []) by (intros ->; unfold zlen in Hp; cbn in Hp; lia). specialize (L3 H1). lia.
    + apply safe_ret. split; [lia|]. split; [lia|]. intros _. rewrite zlen_cons. pose proof (zlen_nonneg r). lia.
Qed.

Lemma zlen_skipn_le {A} n (l : list A) : 0 <= n <= zlen l -> zlen (skipn (Z.to_nat n) l) = zlen l - n.
Proof. apply zlen_skipn. Qed.

Lemma safe_zrle_plain fuel : forall cap v c blen total acc k,
  zcur_ok cap c -> blen = zlen (bc_data c) -> 0 <= k <= blen -> zlen acc <= total ->
  safeP (fun r => let '(ok, acc', k') := r in zlen acc' <= total /\ 0 <= k' <= blen)
        (zrle_plain fuel cap v c (bc_pos c) blen total acc k).
Proof.
  induction fuel as [|fuel IH]; intros cap v c blen total acc k Hc Hbl Hk Ha; cbn [zrle_plain].
  - destruct (total <=? zlen acc); apply safe_ret; auto.
  - destruct (Z.leb_spec total (zlen acc)); [apply safe_ret; auto|].
    cbv zeta. replace (bc_pos c + k - bc_pos c) with k by lia.
    pose proof (rbytes_range v) as [Hr _]. destruct Hc as (Hb & Hp & Hcap).
    destruct (Z.ltb_spec blen (k + rbytes v + 1)); [apply safe_ret; auto|].
    eapply safe_bind; [auto with snd|apply safe_cpix_at; [exact Hb|lia|lia]|]. intros col _.
    eapply safe_bind; [auto with snd| |].
    { apply (safe_zrle_runlen (skipn (Z.to_nat (k + rbytes v)) (bc_data c)) cap (bc_pos c + k + rbytes v) (bc_pos c + blen) 1 0).
      - now apply bytes_ok_skipn.
      - rewrite zlen_skipn_le by lia. lia.
      - lia.
      - lia. }
    intros [[len used']|]; [|intros _; apply safe_ret; auto].
    intros (L1 & L2 & L3).
    assert (Hne : skipn (Z.to_nat (k + rbytes v)) (bc_data c) <> []).
    { intros E. pose proof (zlen_skipn_le (k + rbytes v) (bc_data c) ltac:(lia)) as Z1. rewrite E in Z1. unfold zlen in Z1 at 1. cbn in Z1. lia. }
    specialize (L3 Hne). rewrite zlen_skipn_le in L3 by lia.
    apply IH; [repeat split; assumption|exact Hbl|lia|].
    rewrite zlen_app, zlen_repeat. lia.
Qed.

Lemma safe_zrle_palrle fuel : forall cap c blen total pal acc k,
  zcur_ok cap c -> blen = zlen (bc_data c) -> 0 <= k <= blen -> zlen acc <= total ->
  safeP (fun r => let '(ok, acc', k') := r in zlen acc' <= total /\ 0 <= k' <= blen)
        (zrle_palrle fuel cap c (bc_pos c) blen total pal acc k).
Proof.
  induction fuel as [|fuel IH]; intros cap c blen total pal acc k Hc Hbl Hk Ha; cbn [zrle_palrle].
  - destruct (total <=? zlen acc); apply safe_ret; auto.
  - destruct (Z.leb_spec total (zlen acc)); [apply safe_ret; auto|].
    cbv zeta. replace (bc_pos c + k - bc_pos c) with k by lia.
    destruct Hc as (Hb & Hp & Hcap).
    destruct (Z.leb_spec blen k); [apply safe_ret; auto|].
    eapply safe_bind; [auto with snd|apply safe_peek_at; [exact Hb|lia|lia]|]. intros b [Hbb _].
    eapply safe_bind; [auto with snd|apply safe_pal_get; pose proof (Z.mod_pos_bound (nthz b 0) 128 ltac:(lia)); lia|]. intros col _.
    destruct (128 <=? nthz b 0).
    + destruct (Z.leb_spec blen (k + 1)); [apply safe_ret; auto|].
      eapply safe_bind; [auto with snd| |].
      { apply (safe_zrle_runlen (skipn (Z.to_nat (k + 1)) (bc_data c)) cap (bc_pos c + k + 1) (bc_pos c + blen) 1 0).
        - now apply bytes_ok_skipn.
        - rewrite zlen_skipn_le by lia. lia.
        - lia.
        - lia. }
      intros [[len used']|]; [|intros _; apply safe_ret; auto].
      intros (L1 & L2 & L3).
      assert (Hne : skipn (Z.to_nat (k + 1)) (bc_data c) <> []).
      { intros E. pose proof (zlen_skipn_le (k + 1) (bc_data c) ltac:(lia)) as Z1. rewrite E in Z1. unfold zlen in Z1 at 1. cbn in Z1. lia. }
      specialize (L3 Hne). rewrite zlen_skipn_le in L3 by lia.
      apply IH; [repeat split; assumption|exact Hbl|lia|].
      rewrite zlen_app, zlen_repeat. lia.
    + apply IH; [repeat split; assumption|exact Hbl|lia|]. rewrite zlen_cons. lia.
Qed.

(* ---------------------------------------------------------------- helpers for the tile proofs *)
Lemma safeD_get (D : Z -> Z -> Z -> Prop) {B} (Q : B -> Prop) (k : cst -> M B) :
  (forall s0, st_ok s0 -> D (c_w s0) (c_h s0) (c_fix s0) -> safeD D Q (k s0)) -> safeD D Q (bind get_st k).
Proof. intros H s ts Hs HD. unfold bind, get_st. exact (H s Hs HD s ts Hs HD). Qed.

Lemma safe_mapM_in {A B} (P : B -> Prop) (f : A -> M B) l : (forall a, sound (f a)) -> (forall a, In a l -> safeP P (f a)) ->
  safeP (fun r => Forall P r /\ length r = length l) (mapM f l).
Proof.
  intros Hs. induction l as [|a l IH]; intros Hf; cbn [mapM].
  - apply safe_ret. split; [constructor|reflexivity].
  - eapply safe_bind; [apply Hs|apply Hf; left; reflexivity|]. intros b Hb.
    eapply safe_bind; [apply sound_mapM; exact Hs|apply IH; intros; apply Hf; right; assumption|]. intros bs [H1 H2].
    apply safe_ret. split; [constructor; assumption|cbn [length]; lia].
Qed.

Lemma mul_div8_ge a R : 0 <= a -> 0 <= R -> a * (R / 8) <= a * R / 8.
Proof. intros Ha HR. apply Z.div_le_lower_bound; [lia|]. pose proof (Z.mul_div_le R 8 ltac:(lia)). nia. Qed.

Lemma realbpp_range v : 8 <= realbpp v <= 32.
Proof. destruct v; cbn; lia. Qed.

Lemma safe_paint_seq code x y w h pix : 0 <= x -> 0 <= y -> 0 <= w -> 0 <= h -> zlen pix <= w * h ->
  safeD (fun W H _ => x + w <= W /\ y + h <= H) (fun _ => True) (paint_seq code x y w pix).
Proof.
  intros Hx Hy Hw Hh Hn. unfold paint_seq. apply safe_write_rows; auto.
  - eapply Forall_impl; [|apply chunks_each]. intros r Hr. cbn beta in *. lia.
  - destruct (Z.leb_spec w 0).
    + unfold chunks. destruct (Z.leb_spec w 0); [|lia]. unfold zlen. cbn. lia.
    + apply chunks_count; lia.
Qed.

Lemma packed_row_small bits w bs i : In i (packed_row bits w bs) -> 1 <= bits <= 4 -> i < 128.
Proof.
  intros Hi Hb. unfold packed_row in Hi. apply in_map_iff in Hi. destruct Hi as (j & <- & _). cbv zeta.
  match goal with |- ?a mod ?m < _ => pose proof (Z.mod_pos_bound a m ltac:(apply Z.pow_pos_nonneg; lia)) as Hm end.
  assert (2 ^ bits <= 2 ^ 4) by (apply Z.pow_le_mono_r; lia). change (2 ^ 4) with 16 in *. lia.
Qed.

Lemma packed_row_len bits w bs : 0 <= w -> zlen (packed_row bits w bs) = w.
Proof. intros Hw. unfold packed_row, zseq, zlen. rewrite !map_length, seq_length. lia. Qed.
Lemma zseq_len n : 0 <= n -> zlen (zseq n) = n.
Proof. intros Hn. unfold zseq, zlen. rewrite map_length, seq_length. lia. Qed.
Lemma in_zseq i n : In i (zseq n) -> 0 <= i < n.
Proof. unfold zseq. intros H. apply in_map_iff in H. destruct H as (k & <- & Hk). apply in_seq in Hk. lia. Qed.
Lemma zlen_rev {A} (l : list A) : zlen (rev l) = zlen l.
Proof. unfold zlen. now rewrite rev_length. Qed.

(* ---------------------------------------------------------------- one ZRLE tile, fixes 5 and 6 *)
Definition DZ (x y w h : Z) : Z -> Z -> Z -> Prop := fun W H fx =>
  Z.testbit fx 5 = true /\ Z.testbit fx 6 = true /\ x + w <= W /\ y + h <= H.

Lemma DZ_dims x y w h : forall W H fx, DZ x y w h W H fx -> (fun W H (_ : Z) => x + w <= W /\ y + h <= H) W H fx.
Proof. intros W H fx (_ & _ & A & B). split; assumption. Qed.

Lemma safe_zrle_tile cap v c remaining x y w h :
  zcur_ok cap c -> remaining = zlen (bc_data c) -> 0 <= x -> 0 <= y -> 0 <= w -> 0 <= h ->
  safeD (DZ x y w h) (fun r => match r with None => True | Some n => 0 <= n <= remaining end)
        (zrle_tile cap v c remaining x y w h).
Proof.
  intros Hc Hrem Hx Hy Hw Hh. unfold zrle_tile.
  assert (Hbl : size_t_of remaining = remaining).
  { unfold size_t_of. destruct (Z.ltb_spec remaining 0); [pose proof (zlen_nonneg (bc_data c)); lia|reflexivity]. }
  rewrite Hbl. cbv zeta.
  destruct (Z.ltb_spec remaining 1); [apply safeD_ret; exact I|].
  pose proof Hc as (Hb & Hp & Hcap).
  pose proof (rbytes_range v) as [Hr Hcb]. pose proof (realbpp_range v) as HR.
  assert (Hwh : 0 <= w * h) by nia.
  eapply (safeD_bind _ (fun _ => True)).
  { destruct (bc_data c); snd. }
  { destruct (bc_data c); frm. }
  { destruct (bc_data c) eqn:E; [unfold zlen in Hrem; cbn in Hrem; lia|apply safeD_ret; exact I]. }
  intros _ _.
  eapply safeD_bind; [auto with snd|auto with frm|apply safeD_of_safe; unfold peek; apply safe_peek_at; [exact Hb|lia|lia]|].
  intros tb [Htb _]. pose proof (nthz_byte tb 0 Htb) as Hty. set (type := nthz tb 0) in *.
  destruct (Z.eqb_spec type 0).
  { (* raw *)
    destruct (Z.eqb_spec (realbpp v) (cbpp v)) as [Ebpp|Nbpp]; cbn [negb].
    - apply safeD_get. intros s0 Hs0 (F5 & F6 & _). unfold fixed. rewrite F5. cbn [andb].
      pose proof (mul_div8_ge (w * h) (realbpp v) Hwh ltac:(lia)) as Hge. fold (rbytes v) in Hge.
      assert (H0d : 0 <= w * h * realbpp v / 8) by (apply Z.div_pos; nia).
      destruct (Z.ltb_spec remaining (1 + w * h * realbpp v / 8)); [apply safeD_ret; exact I|].
      eapply (safeD_bind _ (fun _ => True)).
      + destruct (check_rect s0 x y w h); snd.
      + destruct (check_rect s0 x y w h); frm.
      + destruct (check_rect s0 x y w h); [|apply safeD_ret; exact I].
        apply safeD_of_safe.
        eapply safe_bind; [auto with snd|apply safe_peek_at; [exact Hb|lia|]|].
        * unfold rbytes in Hge. rewrite Ebpp in Hge. rewrite Ebpp in *. lia.
        * intros bs _. apply safe_copy_rect; assumption.
      + intros _ _. apply safeD_ret. lia.
    - pose proof (mul_div8_ge (w * h) (realbpp v) Hwh ltac:(lia)) as Hge. fold (rbytes v) in Hge.
      destruct (Z.ltb_spec remaining (1 + w * h * realbpp v / 8)); [apply safeD_ret; exact I|].
      eapply (safeD_bind _ (fun pix => length pix = Z.to_nat (w * h))); [auto with snd|auto with frm| |].
      + apply safeD_of_safe. apply safe_cpixels; [exact Hb|lia|]. rewrite Z2Nat.id by lia. lia.
      + intros pix Hpix.
        eapply safeD_bind; [auto with snd|auto with frm| |].
        * eapply safeD_weaken; [apply DZ_dims|]. apply (safe_paint_seq 37 x y w h); auto. unfold zlen. lia.
        * intros _ _. apply safeD_ret. nia. }
  destruct (Z.eqb_spec type 1).
  { (* solid *)
    apply safeD_get. intros s0 Hs0 (F5 & F6 & _). unfold fixed. rewrite F5. cbn [andb].
    destruct (Z.ltb_spec remaining (1 + rbytes v)); [apply safeD_ret; exact I|].
    eapply safeD_bind; [auto with snd|auto with frm|apply safeD_of_safe; apply safe_cpix_at; [exact Hb|lia|lia]|]. intros col _.
    eapply safeD_bind; [auto with snd|auto with frm|apply safeD_of_safe; apply safe_fill_rect; assumption|]. intros _ _.
    apply safeD_ret. lia. }
  destruct (Z.leb_spec type 127).
  { (* packed palette *)
    apply safeD_get. intros s0 Hs0 (F5 & F6 & _). unfold fixed. rewrite F6. cbn [andb].
    destruct (Z.ltb_spec 16 type); [apply safeD_ret; exact I|].
    set (bits := if 4 <? type then 4 else (if 2 <? type then 2 else 1)).
    assert (Hbits : 1 <= bits <= 4) by (unfold bits; destruct (4 <? type); destruct (2 <? type); lia).
    set (rowbytes := (w + 8 / bits - 1) / (8 / bits)).
    assert (Hper : 1 <= 8 / bits).
    { apply Z.div_le_lower_bound; lia. }
    assert (Hrow : 0 <= rowbytes) by (apply Z.div_pos; lia).
    pose proof (mul_div8_ge type (realbpp v) ltac:(lia) ltac:(lia)) as Hge. fold (rbytes v) in Hge.
    destruct (Z.ltb_spec remaining (1 + type * realbpp v / 8 + rowbytes * h)); [apply safeD_ret; exact I|].
    assert (Hrh : 0 <= rowbytes * h) by nia.
    eapply (safeD_bind _ (fun _ => True)); [auto with snd|auto with frm| |].
    { apply safeD_of_safe. eapply safeP_weaken; [|apply safe_cpixels; [exact Hb|lia|]]; [auto|]. rewrite Z2Nat.id by lia. lia. }
    intros pal _.
    eapply (safeD_bind _ (fun rows => Forall (fun r => zlen r <= w) rows /\ length rows = length (zseq h))).
    { apply sound_mapM; intros; snd; apply sound_mapM; intros; snd. }
    { apply frame_mapM; intros; frm; apply frame_mapM; intros; frm. }
    { apply safeD_of_safe. apply safe_mapM_in.
      - intros; snd; apply sound_mapM; intros; snd.
      - intros j Hj. apply in_zseq in Hj.
        eapply safe_bind; [auto with snd|apply safe_peek_at; [exact Hb|nia|nia]|]. intros bs _.
        eapply safeP_weaken; [|apply (safe_mapM_in (fun _ => True))].
        + intros r [_ Hl]. cbn beta. pose proof (packed_row_len bits w bs Hw) as Hpl. unfold zlen in *. lia.
        + intros; snd.
        + intros i Hi. apply safe_pal_get. eapply packed_row_small; eauto. }
    intros rows [R1 R2].
    eapply safeD_bind; [auto with snd|auto with frm| |].
    - eapply safeD_weaken; [apply DZ_dims|]. apply safe_write_rows; auto.
      pose proof (zseq_len h Hh) as Hz. unfold zlen in *. lia.
    - intros _ _. apply safeD_ret. nia. }
  destruct (Z.eqb_spec type 128).
  { (* plain RLE *)
    eapply safeD_bind; [auto with snd|auto with frm|apply safeD_of_safe; apply (safe_zrle_plain _ cap v c remaining (w * h) [] 1 Hc Hrem); [lia|unfold zlen; cbn; lia]|].
    intros [[ok acc] k] [A1 A2].
    eapply safeD_bind; [auto with snd|auto with frm| |].
    - eapply safeD_weaken; [apply DZ_dims|]. apply (safe_paint_seq 46 x y w h); auto. rewrite zlen_rev. exact A1.
    - intros _ _. destruct ok; apply safeD_ret; auto. }
  destruct (Z.eqb_spec type 129); [apply safeD_ret; exact I|].
  (* palette RLE *)
  pose proof (mul_div8_ge (type - 128) (realbpp v) ltac:(lia) ltac:(lia)) as Hge. fold (rbytes v) in Hge.
  destruct (Z.ltb_spec remaining (2 + (type - 128) * realbpp v / 8)); [apply safeD_ret; exact I|].
  eapply (safeD_bind _ (fun _ => True)); [auto with snd|auto with frm| |].
  { apply safeD_of_safe. eapply safeP_weaken; [|apply safe_cpixels; [exact Hb|lia|]]; [auto|]. rewrite Z2Nat.id by lia. nia. }
  intros pal _.
  eapply safeD_bind; [auto with snd|auto with frm|apply safeD_of_safe; apply (safe_zrle_palrle _ cap c remaining (w * h) pal [] _ Hc Hrem); [nia|unfold zlen; cbn; lia]|].
  intros [[ok acc] k] [A1 A2].
  eapply safeD_bind; [auto with snd|auto with frm| |].
  - eapply safeD_weaken; [apply DZ_dims|]. apply (safe_paint_seq 48 x y w h); auto. rewrite zlen_rev. exact A1.
  - intros _ _. destruct ok; apply safeD_ret; auto.
Qed.

(* ---------------------------------------------------------------- tiles of a rectangle, HandleZRLE *)
Lemma zadv_ok cap c n : zcur_ok cap c -> 0 <= n <= zlen (bc_data c) ->
  zcur_ok cap (adv c n) /\ zlen (bc_data c) - n = zlen (bc_data (adv c n)).
Proof.
  intros (Hb & Hp & Hc) Hn. rewrite adv_len by lia. split; [|reflexivity].
  unfold zcur_ok. rewrite adv_len by lia. unfold adv. cbn [bc_data bc_pos]. split; [now apply bytes_ok_skipn|lia].
Qed.

Lemma safe_zrle_cols fuel : forall cap v c remaining i j rx ry rw rh th,
  zcur_ok cap c -> remaining = zlen (bc_data c) -> 0 <= i -> 0 <= j -> 0 <= rx -> 0 <= ry -> 0 <= th -> j + th <= rh ->
  safeD (DZ rx ry rw rh) (fun r => match r with None => True | Some (c', rem') => zcur_ok cap c' /\ rem' = zlen (bc_data c') end)
        (zrle_cols fuel cap v c remaining i j rx ry rw th).
Proof.
  induction fuel as [|fuel IH]; intros cap v c remaining i j rx ry rw rh th Hc Hrem Hi Hj Hx Hy Hth Hjh; cbn [zrle_cols].
  - apply safeD_ret. auto.
  - destruct (Z.leb_spec rw i); [apply safeD_ret; auto|]. cbv zeta.
    set (tw := if rw <? i + cZRLETileWidth then rw - i else cZRLETileWidth).
    assert (Htw : 0 <= tw /\ i + tw <= rw) by (unfold tw, cZRLETileWidth; destruct (Z.ltb_spec rw (i + 64)); lia).
    eapply safeD_bind; [auto with snd|auto with frm| |].
    + eapply safeD_weaken; [|apply (safe_zrle_tile cap v c remaining (rx + i) (ry + j) tw th Hc Hrem); lia].
      intros W0 H0 fx (F5 & F6 & A & B). unfold DZ. repeat split; auto; lia.
    + intros [n|] Hn; [|apply safeD_ret; exact I]. cbn beta iota in Hn.
      destruct (zadv_ok cap c n Hc ltac:(lia)) as [Hc' Hl'].
      apply (IH cap v (adv c n) (remaining - n) (i + cZRLETileWidth) j rx ry rw rh th); auto; try lia.
      unfold cZRLETileWidth. lia.
Qed.

Lemma safe_zrle_rows fuel : forall cap v c remaining j rx ry rw rh,
  zcur_ok cap c -> remaining = zlen (bc_data c) -> 0 <= j -> 0 <= rx -> 0 <= ry ->
  safeD (DZ rx ry rw rh) (fun _ => True) (zrle_rows fuel cap v c remaining j rx ry rw rh).
Proof.
  induction fuel as [|fuel IH]; intros cap v c remaining j rx ry rw rh Hc Hrem Hj Hx Hy; cbn [zrle_rows].
  - apply safeD_ret. exact I.
  - destruct (Z.leb_spec rh j); [apply safeD_ret; exact I|]. cbv zeta.
    set (th := if rh <? j + cZRLETileHeight then rh - j else cZRLETileHeight).
    assert (Hth : 0 <= th /\ j + th <= rh) by (unfold th, cZRLETileHeight; destruct (Z.ltb_spec rh (j + 64)); lia).
    eapply safeD_bind; [auto with snd|auto with frm|apply (safe_zrle_cols _ cap v c remaining 0 j rx ry rw rh th); auto; lia|].
    intros [[c' rem']|] Hr; [|apply safeD_ret; exact I]. cbn beta iota in Hr. destruct Hr as [Hc' Hrem'].
    apply IH; auto. unfold cZRLETileHeight. lia.
Qed.

Lemma safe_rd_stream_ok sid : safeP (fun r => bytes_ok (snd r)) (rd_stream sid).
Proof.
  unfold rd_stream.
  eapply (safe_bind (fun z => bytes_ok (snd z))); [auto with snd| |].
  { intros s ts _. unfold rd_zblock. destruct ts as [|[| |] r]; try exact I. cbn [snd].
    apply Forall_forall. intros b Hb. apply in_map_iff in Hb. destruct Hb as (b0 & <- & _).
    unfold byte_ok. apply Z.mod_pos_bound. lia. }
  intros [[[sid' fresh] ok] data] Hd. cbn [snd] in Hd.
  apply safe_bind_get. intros s Hs ts.
  destruct (negb (sid' =? sid)); [exact I|].
  destruct (Bool.eqb fresh (zact_get s sid)); [destruct ((sid =? 0) && negb (fixed s 11)); exact I|].
  exact Hd.
Qed.

Lemma safe_rd_zblock_ok : safeP (fun z => bytes_ok (snd z)) rd_zblock.
Proof.
  intros s ts _. unfold rd_zblock. destruct ts as [|[| |] r]; try exact I. cbn [snd].
  apply Forall_forall. intros b Hb. apply in_map_iff in Hb. destruct Hb as (b0 & <- & _).
  unfold byte_ok. apply Z.mod_pos_bound. lia.
Qed.

Lemma safe_rd_zrle_stream : safeP (fun r => bytes_ok (snd r)) rd_zrle_stream.
Proof.
  unfold rd_zrle_stream. apply safe_bind_get. intros s0 Hs0 ts0. destruct (fixed s0 11).
  - assert (G : safeP (fun r : bool * list Z => bytes_ok (snd r))
                  (z <- rd_zblock ;; let '(sid', fresh, ok, data) := z in s <- get_st ;;
                   if negb (sid' =? 5) then desyncM 4 else
                   if Bool.eqb fresh (c_zrlez s) then desyncM 4 else upd_st (fun s => set_zrlez s true) ;;; ret (ok, data))).
    { eapply safe_bind; [auto with snd|apply safe_rd_zblock_ok|]. intros [[[sid' fresh] ok] data] Hd. cbn [snd] in Hd.
      apply safe_bind_get. intros s Hs ts. destruct (negb (sid' =? 5)); [exact I|].
      destruct (Bool.eqb fresh (c_zrlez s)); [exact I|exact Hd]. }
    exact (G s0 ts0 Hs0).
  - assert (G : safeP (fun r : bool * list Z => bytes_ok (snd r)) (rd_shared c_zrlez c_zlibz (fun s => set_zrlez s true) 5)).
    { unfold rd_shared. eapply safe_bind; [auto with snd|apply safe_rd_zblock_ok|]. intros [[[sid' fresh] ok] data] Hd. cbn [snd] in Hd.
      apply safe_bind_get. intros s Hs ts. destruct (negb (sid' =? 5)); [exact I|].
      destruct (negb fresh && negb (c_zrlez s)); [exact I|].
      destruct fresh; [destruct (zact_get s 0); [exact I|exact Hd]|]. destruct (zact_get s 0 && negb (c_zlibz s)); [exact Hd|exact I]. }
    exact (G s0 ts0 Hs0).
Qed.
Lemma frame_rd_zrle_stream : frame rd_zrle_stream.
Proof. unfold rd_zrle_stream, rd_shared. frm; try (apply frame_upd; intros s1; destruct s1; unfold dimfix, zact_set; cbn; auto). Qed.

Definition DZ8 (x y w h : Z) : Z -> Z -> Z -> Prop := fun W H fx =>
  Z.testbit fx 5 = true /\ Z.testbit fx 6 = true /\ Z.testbit fx 8 = true /\ x + w <= W /\ y + h <= H.

Lemma safe_dec_zrle x y w h : 0 <= x -> 0 <= y -> 0 <= w -> 0 <= h ->
  safeD (DZ8 x y w h) (fun _ => True) (dec_zrle x y w h).
Proof.
  intros Hx Hy Hw Hh. unfold dec_zrle. apply safeD_get. intros s0 Hs0 (F5 & F6 & F8 & HW & HH).
  unfold fixed. rewrite F8. cbv zeta.
  set (v := variant_of s0).
  set (sz := if Z.testbit (c_fix s0) 12 then zrle_bound w h (rbytes v) else w * h * rbytes v * 2).
  assert (Hsz : 0 <= sz).
  { assert (1 <= rbytes v) by (destruct v; cbn; lia). unfold sz, zrle_bound. destruct (Z.testbit (c_fix s0) 12); [|nia].
    assert (0 <= w / 64) by (apply Z.div_pos; lia). assert (0 <= h / 64) by (apply Z.div_pos; lia). nia. }
  set (cap := if c_rawsz s0 <? sz + 4 then sz + 4 else c_rawsz s0).
  assert (Hcap : 4 <= cap) by (unfold cap; destruct (Z.ltb_spec (c_rawsz s0) (sz + 4)); lia).
  eapply safeD_bind; [auto with snd|frm|apply safeD_of_safe; apply safe_upd|]. intros _ _.
  eapply safeD_bind; [auto with snd|apply frame_rd_zrle_stream|apply safeD_of_safe; apply safe_rd_zrle_stream|]. intros [ok data] Hd. cbn [snd] in Hd.
  destruct (negb ok); [apply safeD_fail|].
  destruct (Z.ltb_spec (cap - 4) (zlen data)); [apply safeD_fail|].
  eapply safeD_weaken; [|apply safe_zrle_rows; auto; try lia].
  - intros W0 H0 fx (A5 & A6 & _ & A & B). unfold DZ. auto.
  - unfold zcur_ok. cbn [bc_data bc_pos]. split; [exact Hd|lia].
Qed.

(* ================================================================ TRLE, fix 4 (commit d9a5962) *)
Lemma frame_trle_runlen cap cur off pos acc : frame (trle_runlen cap cur off pos acc).
Proof.
  intros s ts. unfold trle_runlen. revert cap cur off pos acc.
  induction ts as [|t ts IH]; intros cap cur off pos acc; cbn [trle_runlen_ts].
  - destruct ((cur =? 255) && (pos <? cap - 1)); [destruct (cap <? off + 2); exact I|apply dimfix_refl].
  - destruct ((cur =? 255) && (pos <? cap - 1)); [|apply dimfix_refl].
    destruct (cap <? off + 2); [exact I|]. destruct t; try exact I. apply IH.
Qed.
Hint Resolve frame_trle_runlen : frm.
Lemma frame_trle_plain fuel : forall cap v total acc off, frame (trle_plain fuel cap v total acc off).
Proof. induction fuel; intros; cbn [trle_plain]; frm. Qed.
Lemma frame_trle_palrle fuel : forall cap total pal acc off, frame (trle_palrle fuel cap total pal acc off).
Proof. induction fuel; intros; cbn [trle_palrle]; frm. Qed.
Hint Resolve frame_trle_plain frame_trle_palrle : frm.
Lemma frame_trle_case127 cap v x y w h t type off : frame (trle_case127 cap v x y w h t type off).
Proof. unfold trle_case127. frm; try (apply frame_mapM; intros; frm; try (apply frame_mapM; intros; frm)). Qed.
Hint Resolve frame_trle_case127 : frm.
Lemma frame_trle_tile cap v x y w h t : frame (trle_tile cap v x y w h t).
Proof. unfold trle_tile. frm. Qed.
Hint Resolve frame_trle_tile : frm.
Lemma frame_trle_cols fuel : forall cap v cx y rx rw h t, frame (trle_cols fuel cap v cx y rx rw h t).
Proof. induction fuel; intros; cbn [trle_cols]; frm. Qed.
Hint Resolve frame_trle_cols : frm.

(* the write position of the run-length loop never passes buffer_pos, which the loop bounds *)
Lemma trle_runlen_ts_safe ts : forall cap cur off pos acc s, off <= pos ->
  match trle_runlen_ts ts cap cur off pos acc s with Oob _ => False | _ => True end.
Proof.
  induction ts as [|t ts IH]; intros cap cur off pos acc s Hop; cbn [trle_runlen_ts].
  - destruct (cur =? 255); cbn [andb]; [|exact I]. destruct (Z.ltb_spec pos (cap - 1)); [|exact I].
    destruct (Z.ltb_spec cap (off + 2)); [lia|exact I].
  - destruct (cur =? 255); cbn [andb]; [|exact I]. destruct (Z.ltb_spec pos (cap - 1)); [|exact I].
    destruct (Z.ltb_spec cap (off + 2)); [lia|]. destruct t; try exact I. apply IH. lia.
Qed.
Lemma safe_trle_runlen cap cur off pos acc : off <= pos -> safe (trle_runlen cap cur off pos acc).
Proof.
  intros H s ts _. unfold trle_runlen. pose proof (trle_runlen_ts_safe ts cap cur off pos acc s H) as G.
  destruct (trle_runlen_ts ts cap cur off pos acc s); auto.
Qed.

Definition D4 : Z -> Z -> Z -> Prop := fun _ _ fx => Z.testbit fx 4 = true.

Lemma zlen_repeat_min {A} (col : A) len total (acc : list A) : zlen acc <= total ->
  zlen (repeat col (Z.to_nat (Z.min len (total - zlen acc))) ++ acc) <= total.
Proof. intros H. rewrite zlen_app, zlen_repeat. lia. Qed.

Lemma safe_trle_plain fuel : forall cap v total acc, 8 <= cap -> zlen acc <= total ->
  safeD D4 (fun acc' => zlen acc' <= total) (trle_plain fuel cap v total acc 0).
Proof.
  induction fuel as [|fuel IH]; intros cap v total acc Hcap Ha; cbn [trle_plain].
  - destruct (total <=? zlen acc); apply safeD_ret; exact Ha.
  - destruct (total <=? zlen acc); [apply safeD_ret; exact Ha|].
    pose proof (rbytes_range v) as [Hr Hcb].
    destruct (Z.ltb_spec cap (0 + rbytes v + 1)); [lia|].
    eapply safeD_bind; [auto with snd|auto with frm|apply (safeD_ret _ (fun _ => True)); exact I|]. intros _ _.
    eapply safeD_bind; [auto with snd|auto with frm|apply safeT_rd|]. intros bs _.
    eapply (safeD_bind _ (fun _ => True)).
    { match goal with |- sound (if ?b then _ else _) => destruct b end; auto with snd. }
    { match goal with |- frame (if ?b then _ else _) => destruct b end; frm. }
    { match goal with |- safeD _ _ (if ?b then _ else _) => destruct b end; [apply safeD_of_safe; apply safe_upd|apply safeD_ret; exact I]. }
    intros _ _.
    destruct (Z.ltb_spec cap (0 + cbpp v / 8)); [lia|].
    eapply safeD_bind; [auto with snd|auto with frm|apply (safeD_ret _ (fun _ => True)); exact I|]. intros _ _.
    eapply safeD_bind; [auto with snd|auto with frm|apply safeD_of_safe; apply safe_trle_runlen; lia|]. intros [len off'] _.
    apply safeD_get. intros s0 Hs0 F4. unfold fixed. unfold D4 in F4. rewrite F4.
    apply IH; [exact Hcap|]. now apply zlen_repeat_min.
Qed.

Lemma safe_trle_palrle fuel : forall cap total pal acc, 8 <= cap -> zlen acc <= total ->
  safeD D4 (fun acc' => zlen acc' <= total) (trle_palrle fuel cap total pal acc 0).
Proof.
  induction fuel as [|fuel IH]; intros cap total pal acc Hcap Ha; cbn [trle_palrle].
  - destruct (total <=? zlen acc); apply safeD_ret; exact Ha.
  - destruct (Z.leb_spec total (zlen acc)); [apply safeD_ret; exact Ha|].
    destruct (Z.ltb_spec cap (0 + 1)); [lia|].
    eapply safeD_bind; [auto with snd|auto with frm|apply (safeD_ret _ (fun _ => True)); exact I|]. intros _ _.
    eapply safeD_bind; [auto with snd|auto with frm|apply safeT_rd|]. intros b _.
    eapply safeD_bind; [auto with snd|auto with frm|apply safeD_of_safe; apply safe_pal_get; pose proof (Z.mod_pos_bound (nthz b 0) 128 ltac:(lia)); lia|].
    intros col _.
    destruct (128 <=? nthz b 0).
    + destruct (Z.ltb_spec cap (0 + 2)); [lia|].
      eapply safeD_bind; [auto with snd|auto with frm|apply (safeD_ret _ (fun _ => True)); exact I|]. intros _ _.
      eapply safeD_bind; [auto with snd|auto with frm|apply safeT_rd|]. intros b2 _.
      eapply safeD_bind; [auto with snd|auto with frm|apply safeD_of_safe; apply safe_trle_runlen; lia|]. intros [len off'] _.
      apply safeD_get. intros s0 Hs0 F4. unfold fixed. unfold D4 in F4. rewrite F4.
      apply IH; [exact Hcap|]. now apply zlen_repeat_min.
    + apply safeD_get. intros s0 Hs0 F4. unfold fixed. unfold D4 in F4. rewrite F4.
      apply IH; [exact Hcap|]. rewrite zlen_cons. lia.
Qed.

Definition DTr (x y w h : Z) : Z -> Z -> Z -> Prop := fun W H fx => Z.testbit fx 4 = true /\ x + w <= W /\ y + h <= H.
Lemma DTr_dims x y w h : forall W H fx, DTr x y w h W H fx -> (fun W H (_ : Z) => x + w <= W /\ y + h <= H) W H fx.
Proof. intros W0 H0 fx (_ & A & B). split; assumption. Qed.
Lemma DTr_D4 x y w h : forall W H fx, DTr x y w h W H fx -> D4 W H fx.
Proof. intros W0 H0 fx (A & _). exact A. Qed.

(* last_type is a byte; a packed palette of 2..16 entries comes with 1, 2 or 4 index bits *)
Definition tinv (t : trst) : Prop := 0 <= tr_last t < 256 /\ (2 <= tr_last t <= 16 -> 1 <= tr_bits t <= 4).

Lemma bits_of_palsize_small n : n <= 16 -> 1 <= bits_of_palsize n <= 4.
Proof. intros H. unfold bits_of_palsize. destruct (4 <? n); destruct (Z.ltb_spec 16 n); destruct (2 <? n); lia. Qed.

Lemma safe_trle_case127 cap v x y w h t type off :
  0 <= x -> 0 <= y -> 0 <= w <= 16 -> 0 <= h <= 16 -> 0 <= off <= 64 -> 512 <= cap -> tinv t ->
  safeD (DTr x y w h) (fun r => tinv (mktr (snd r) (tr_pal (fst r)) (tr_bits (fst r)) (tr_color (fst r))))
        (trle_case127 cap v x y w h t type off).
Proof.
  intros Hx Hy Hw Hh Hoff Hcap [Ht1 Ht2]. unfold trle_case127. cbv zeta.
  destruct (Z.eqb_spec (tr_last t) 0); [apply safeD_fail|].
  destruct (Z.eqb_spec (tr_last t) 1).
  { eapply safeD_bind; [auto with snd|auto with frm|apply safeD_of_safe; apply safe_fill_rect; lia|]. intros _ _.
    apply safeD_ret. cbn [fst snd]. unfold tinv. cbn [tr_last tr_bits]. lia. }
  destruct (Z.eqb_spec (tr_last t) 128); [apply safeD_fail|].
  assert (Hlb : exists last' bits,
            (if 130 <=? tr_last t then (tr_last t mod 128, bits_of_palsize (tr_last t mod 128)) else (tr_last t, tr_bits t)) = (last', bits)
            /\ 2 <= last' < 256 /\ (last' <= 16 -> 1 <= bits <= 4)).
  { destruct (Z.leb_spec 130 (tr_last t)).
    - exists (tr_last t mod 128), (bits_of_palsize (tr_last t mod 128)). split; [reflexivity|].
      assert (tr_last t mod 128 = tr_last t - 128) by (symmetry; apply (Z.mod_unique _ 128 1); lia).
      split; [lia|]. intros. now apply bits_of_palsize_small.
    - exists (tr_last t), (tr_bits t). split; [reflexivity|]. split; [lia|]. intros. apply Ht2. lia. }
  destruct Hlb as (last' & bits & -> & Hl & Hbits).
  destruct (Z.leb_spec last' 16); [|apply safeD_fail].
  specialize (Hbits ltac:(lia)).
  assert (Hper : 1 <= 8 / bits) by (apply Z.div_le_lower_bound; lia).
  set (rowbytes := (w + 8 / bits - 1) / (8 / bits)).
  assert (Hrow : 0 <= rowbytes <= 16).
  { split; [apply Z.div_pos; lia|]. apply Z.div_le_upper_bound; lia. }
  assert (Hrh : 0 <= rowbytes * h <= 256) by nia.
  destruct (Z.ltb_spec cap (off + rowbytes * h)); [lia|].
  eapply safeD_bind; [auto with snd|auto with frm|apply (safeD_ret _ (fun _ => True)); exact I|]. intros _ _.
  eapply safeD_bind; [auto with snd|auto with frm|apply safeT_rd|]. intros bs _.
  eapply (safeD_bind _ (fun rows => Forall (fun r => zlen r <= w) rows /\ length rows = length (zseq h))).
  { apply sound_mapM; intros; apply sound_mapM; intros; snd. }
  { apply frame_mapM; intros; apply frame_mapM; intros; frm. }
  { apply safeD_of_safe. apply safe_mapM_in.
    - intros; apply sound_mapM; intros; snd.
    - intros j Hj. eapply safeP_weaken; [|apply (safe_mapM_in (fun _ => True))].
      + intros r [_ Hl2]. cbn beta. pose proof (packed_row_len bits w (skipn (Z.to_nat (j * rowbytes)) bs) ltac:(lia)) as Hpl. unfold zlen in *. lia.
      + intros; snd.
      + intros i Hi. apply safe_pal_get. eapply packed_row_small; eauto. }
  intros rows [R1 R2].
  eapply safeD_bind; [auto with snd|auto with frm| |].
  - eapply safeD_weaken; [apply DTr_dims|]. apply safe_write_rows; try lia; auto.
    pose proof (zseq_len h ltac:(lia)) as Hz. unfold zlen in *. lia.
  - intros _ _. apply safeD_ret. cbn [fst snd tr_pal tr_bits tr_color]. unfold tinv. cbn [tr_last tr_bits]. lia.
Qed.

Lemma tile_bytes_fit v w h : 0 <= w <= 16 -> 0 <= h <= 16 ->
  0 <= w * h * realbpp v / 8 <= 512 * rbytes v /\ (w * h - 1) * rbytes v + cbpp v / 8 <= 512 * rbytes v.
Proof.
  intros Hw Hh. assert (Hwh : 0 <= w * h <= 256) by nia.
  destruct v; cbn [realbpp rbytes cbpp];
    (split; [split; [apply Z.div_pos; nia|apply Z.div_le_upper_bound; [lia|]; cbn; nia]|cbn; nia]).
Qed.

Lemma safe_taint_if (D : Z -> Z -> Z -> Prop) (b : bool) : safeD D (fun _ => True) (if b then upd_st set_taint else ret tt).
Proof. destruct b; [apply safeD_of_safe; apply safe_upd|apply safeD_ret; exact I]. Qed.
Lemma safe_taint_v (D : Z -> Z -> Z -> Prop) v :
  safeD D (fun _ => True) (match v with CP24 | CP24Up => ret tt | _ => upd_st set_taint end).
Proof. destruct v; first [apply safeD_ret; exact I|apply safeD_of_safe; apply safe_upd]. Qed.

Lemma safe_trle_tile cap v x y w h t :
  0 <= x -> 0 <= y -> 0 <= w <= 16 -> 0 <= h <= 16 -> 512 * rbytes v <= cap -> tinv t ->
  safeD (DTr x y w h) tinv (trle_tile cap v x y w h t).
Proof.
  intros Hx Hy Hw Hh Hcap Ht. unfold trle_tile. cbv zeta.
  pose proof (rbytes_range v) as [Hrb Hcb]. pose proof (tile_bytes_fit v w h Hw Hh) as [[Hn0 Hn] Hn2].
  assert (Hwh : 0 <= w * h) by nia.
  eapply safeD_bind; [auto with snd|auto with frm|apply safeD_of_safe; apply safe_rd_u8|]. intros type Hty. cbn beta in Hty.
  destruct (Z.eqb_spec type 0).
  { destruct (Z.ltb_spec cap (w * h * realbpp v / 8)); [lia|].
    eapply safeD_bind; [auto with snd|auto with frm|apply (safeD_ret _ (fun _ => True)); exact I|]. intros _ _.
    eapply safeD_bind; [auto with snd|auto with frm|apply safeT_rd|]. intros bs _.
    eapply (safeD_bind _ (fun _ => True)).
    { destruct (negb (realbpp v =? cbpp v)); [|auto with snd]. destruct v; snd. }
    { destruct (negb (realbpp v =? cbpp v)); [|auto with frm]. destruct v; frm. }
    { destruct (negb (realbpp v =? cbpp v)).
      - eapply safeD_bind; [destruct v; snd|destruct v; frm|apply safe_taint_v|]. intros _ _.
        destruct (Z.ltb_spec cap ((w * h - 1) * rbytes v + cbpp v / 8)); [lia|].
        eapply safeD_bind; [auto with snd|auto with frm|apply (safeD_ret _ (fun _ => True)); exact I|]. intros _ _.
        eapply safeD_weaken; [apply DTr_dims|]. apply (safe_paint_seq 61 x y w h); try lia.
        unfold cpix_list, zlen. rewrite map_length, seq_length. lia.
      - apply safeD_of_safe. apply safe_copy_rect; lia. }
    intros _ _. apply safeD_ret. exact Ht. }
  destruct (Z.eqb_spec type 1).
  { eapply safeD_bind; [auto with snd|auto with frm|apply safeT_rd|]. intros bs _.
    eapply safeD_bind; [match goal with |- sound (if ?b then _ else _) => destruct b end; auto with snd
                       |match goal with |- frame (if ?b then _ else _) => destruct b end; frm|apply safe_taint_if|]. intros _ _.
    eapply safeD_bind; [auto with snd|auto with frm|apply safeD_of_safe; apply safe_fill_rect; lia|]. intros _ _.
    apply safeD_ret. unfold tinv. cbn [tr_last tr_bits]. lia. }
  destruct (Z.eqb_spec type 127).
  { eapply safeD_bind; [auto with snd|auto with frm|apply (safe_trle_case127 cap v x y w h t type 0); auto; lia|].
    intros r Hr. apply safeD_ret. exact Hr. }
  destruct (Z.eqb_spec type 128).
  { eapply safeD_bind; [auto with snd|auto with frm| |].
    - eapply safeD_weaken; [apply DTr_D4|]. apply safe_trle_plain; [lia|unfold zlen; cbn; lia].
    - intros acc Hacc.
      eapply safeD_bind; [auto with snd|auto with frm| |intros _ _; apply safeD_ret; exact Ht].
      eapply safeD_weaken; [apply DTr_dims|]. apply (safe_paint_seq 62 x y w h); try lia. rewrite zlen_rev. exact Hacc. }
  destruct (Z.eqb_spec type 129).
  { eapply safeD_bind; [auto with snd|auto with frm| |].
    - eapply safeD_weaken; [apply DTr_D4|]. apply safe_trle_palrle; [lia|unfold zlen; cbn; lia].
    - intros acc Hacc.
      eapply safeD_bind; [auto with snd|auto with frm| |intros _ _; apply safeD_ret; exact Ht].
      eapply safeD_weaken; [apply DTr_dims|]. apply (safe_paint_seq 63 x y w h); try lia. rewrite zlen_rev. exact Hacc. }
  destruct (Z.leb_spec type 16).
  { eapply safeD_bind; [auto with snd|auto with frm|apply safeT_rd|]. intros bs _.
    eapply (safeD_bind _ (fun _ => True)).
    { destruct (negb (realbpp v =? cbpp v)); [|auto with snd]. destruct v; snd. }
    { destruct (negb (realbpp v =? cbpp v)); [|auto with frm]. destruct v; frm. }
    { destruct (negb (realbpp v =? cbpp v)); [apply safe_taint_v|apply safeD_ret; exact I]. }
    intros _ _.
    eapply safeD_bind; [auto with snd|auto with frm| |intros r Hr; apply safeD_ret; exact Hr].
    apply safe_trle_case127; auto; try lia; try nia.
    unfold tinv. cbn [tr_last tr_bits]. split; [lia|]. intros _. destruct (4 <? type); [lia|]. destruct (2 <? type); lia. }
  destruct (Z.leb_spec 130 type); [|apply safeD_fail].
  eapply safeD_bind; [auto with snd|auto with frm|apply safeT_rd|]. intros bs _.
  eapply (safeD_bind _ (fun _ => True)).
  { destruct (negb (realbpp v =? cbpp v)); [|auto with snd]. destruct v; snd. }
  { destruct (negb (realbpp v =? cbpp v)); [|auto with frm]. destruct v; frm. }
  { destruct (negb (realbpp v =? cbpp v)); [apply safe_taint_v|apply safeD_ret; exact I]. }
  intros _ _.
  apply safeD_get. intros s0 Hs0 (F4 & _). unfold fixed. rewrite F4.
  eapply safeD_bind; [auto with snd|auto with frm| |].
  - eapply safeD_weaken; [apply DTr_D4|]. apply safe_trle_palrle; [lia|unfold zlen; cbn; lia].
  - intros acc Hacc.
    eapply safeD_bind; [auto with snd|auto with frm| |].
    + eapply safeD_weaken; [apply DTr_dims|]. apply (safe_paint_seq 64 x y w h); try lia. rewrite zlen_rev. exact Hacc.
    + intros _ _. apply safeD_ret. unfold tinv. cbn [tr_last tr_bits]. lia.
Qed.

Lemma safe_trle_cols fuel : forall cap v cx y rx ry rw rh h t,
  0 <= rx <= cx -> 0 <= y -> 0 <= h <= 16 -> y + h <= ry + rh -> 512 * rbytes v <= cap -> tinv t ->
  safeD (DTr rx ry rw rh) tinv (trle_cols fuel cap v cx y rx rw h t).
Proof.
  induction fuel as [|fuel IH]; intros cap v cx y rx ry rw rh h t Hcx Hy Hh Hyh Hcap Ht; cbn [trle_cols].
  - apply safeD_ret. exact Ht.
  - destruct (Z.leb_spec (rx + rw) cx); [apply safeD_ret; exact Ht|]. cbv zeta.
    set (w := if rx + rw - cx <? cTRLE_tile then rx + rw - cx else cTRLE_tile).
    assert (Hw : 0 <= w <= 16 /\ cx + w <= rx + rw) by (unfold w, cTRLE_tile; destruct (Z.ltb_spec (rx + rw - cx) 16); lia).
    eapply safeD_bind; [auto with snd|auto with frm| |].
    + eapply safeD_weaken; [|apply (safe_trle_tile cap v cx y w h t); auto; lia].
      intros W0 H0 fx (F4 & A & B). unfold DTr. repeat split; auto; lia.
    + intros t' Ht'. apply (IH cap v (cx + cTRLE_tile) y rx ry rw rh h t'); auto. unfold cTRLE_tile. lia.
Qed.

Lemma safe_trle_rows fuel : forall cap v cy rx ry rw rh t,
  0 <= rx -> 0 <= ry <= cy -> 512 * rbytes v <= cap -> tinv t ->
  safeD (DTr rx ry rw rh) (fun _ => True) (trle_rows fuel cap v cy rx ry rw rh t).
Proof.
  induction fuel as [|fuel IH]; intros cap v cy rx ry rw rh t Hx Hy Hcap Ht; cbn [trle_rows].
  - apply safeD_ret. exact I.
  - destruct (Z.leb_spec (ry + rh) cy); [apply safeD_ret; exact I|]. cbv zeta.
    set (h := if ry + rh - cy <? cTRLE_tile then ry + rh - cy else cTRLE_tile).
    assert (Hh : 0 <= h <= 16 /\ cy + h <= ry + rh) by (unfold h, cTRLE_tile; destruct (Z.ltb_spec (ry + rh - cy) 16); lia).
    eapply safeD_bind; [auto with snd|auto with frm|apply (safe_trle_cols _ cap v rx cy rx ry rw rh h t); auto; lia|].
    intros t' Ht'. apply IH; auto. unfold cTRLE_tile. lia.
Qed.

Lemma safe_dec_trle x y w h : 0 <= x -> 0 <= y -> safeD (DTr x y w h) (fun _ => True) (dec_trle x y w h).
Proof.
  intros Hx Hy. unfold dec_trle. apply safeD_get. intros s0 Hs0 HD. cbv zeta.
  set (v := variant_of s0).
  set (cap := if c_rawsz s0 <? cTRLE_tile * cTRLE_tile * rbytes v * 2 then cTRLE_tile * cTRLE_tile * rbytes v * 2 else c_rawsz s0).
  assert (Hcap : 512 * rbytes v <= cap).
  { unfold cap, cTRLE_tile. destruct (Z.ltb_spec (c_rawsz s0) (16 * 16 * rbytes v * 2)); lia. }
  eapply safeD_bind; [auto with snd|frm|apply safeD_of_safe; apply safe_upd|]. intros _ _.
  apply safe_trle_rows; auto; try lia. unfold tinv. cbn [tr_last tr_bits]. lia.
Qed.

(* ================================================================ the whole repaired mirror *)
Definition FA (fx : Z) : Prop :=
  Z.testbit fx 0 = true /\ Z.testbit fx 1 = true /\ Z.testbit fx 2 = true /\ Z.testbit fx 3 = true /\
  Z.testbit fx 4 = true /\ Z.testbit fx 5 = true /\ Z.testbit fx 6 = true /\ Z.testbit fx 8 = true /\ Z.testbit fx 9 = true /\
  Z.testbit fx 10 = true.
Definition DA : Z -> Z -> Z -> Prop := fun _ _ fx => FA fx.

(* for a predicate on the fix mask alone, [sound] is all a bind needs *)
Lemma safeF_bind {A B} (P : A -> Prop) (Q : B -> Prop) (m : M A) (k : A -> M B) :
  sound m -> safeD DA P m -> (forall a, P a -> safeD DA Q (k a)) -> safeD DA Q (bind m k).
Proof.
  intros Hs Hm Hk s ts H HD. unfold bind. specialize (Hs s ts (proj1 H)). specialize (Hm s ts H HD).
  destruct (m s ts) as [a s1 ts1| | | |]; auto.
  destruct Hs as [K _]. apply (Hk a Hm s1 ts1 (st_ok_keeps _ _ K H)).
  destruct K as (_ & _ & E). unfold DA in *. now rewrite E.
Qed.

Theorem rect_body_safe_all x y w h enc :
  0 <= x -> 0 <= y -> 0 <= w -> 0 <= h -> safeD DA (fun _ => True) (rect_body x y w h enc).
Proof.
  intros Hx Hy Hw Hh. unfold rect_body.
  destruct (enc =? cE_LastRect); [apply safeD_of_safe; apply clean_safe; cln|].
  destruct ((enc =? cE_XCursor) || (enc =? cE_RichCursor)).
  { apply safeD_of_safe. eapply safe_bind; [auto with snd|apply safe_dec_cursor|]. intros; apply safe_ret; exact I. }
  destruct (enc =? cE_PointerPos); [apply safeD_of_safe; apply clean_safe; cln|].
  destruct (enc =? cE_KeyboardLedState); [apply safeD_of_safe; apply clean_safe; cln|].
  destruct (enc =? cE_NewFBSize); [apply safeD_of_safe; apply clean_safe; cln|].
  destruct (enc =? cE_ExtDesktopSize); [apply safeD_of_safe; apply clean_safe; cln|].
  destruct (enc =? cE_SupportedMessages); [apply safeD_of_safe; apply clean_safe; cln|].
  destruct (enc =? cE_SupportedEncodings); [apply safeD_of_safe; apply clean_safe; cln|].
  destruct (enc =? cE_ServerIdentity); [apply safeD_of_safe; apply clean_safe; cln|].
  apply safeD_bind_get. intros s Hs HD ts. revert ts.
  destruct (negb (enc =? cE_UltraZip) && ((c_w s <? x + w) || (c_h s <? y + h))) eqn:Echk; [intros; exact I|].
  intros ts.
  set (D' := fun W H fx => FA fx /\ W = c_w s /\ H = c_h s).
  match goal with |- match ?m s ts with _ => _ end =>
    assert (G : safeD D' (fun _ => True) m); [|exact (G s ts Hs (conj HD (conj eq_refl eq_refl)))] end.
  apply safeD_then_clean; [|intros; cln].
  cbv zeta.
  set (ok := (f_bpp (c_fmt s) =? 8) || (f_bpp (c_fmt s) =? 16) || (f_bpp (c_fmt s) =? 32)).
  assert (Hin : enc <> cE_UltraZip -> x + w <= c_w s /\ y + h <= c_h s).
  { intros Hne. destruct (Z.eqb_spec enc cE_UltraZip); [contradiction|]. cbn [negb andb] in Echk. lia. }
  destruct (enc =? cE_Raw); [apply safeD_of_safe; apply safe_dec_raw; assumption|].
  destruct (enc =? cE_CopyRect); [apply safeD_of_safe; apply safe_dec_copyrect; assumption|].
  destruct (enc =? cE_RRE); [destruct ok; apply safeD_of_safe; [apply safe_dec_rre; assumption|apply safe_ret; exact I]|].
  destruct (enc =? cE_CoRRE); [destruct ok; apply safeD_of_safe; [apply safe_dec_corre; assumption|apply safe_ret; exact I]|].
  destruct (enc =? cE_Hextile); [destruct ok; apply safeD_of_safe; [apply safe_dec_hextile; assumption|apply safe_ret; exact I]|].
  destruct (enc =? cE_Ultra); [destruct ok; apply safeD_of_safe; [apply safe_dec_ultra; assumption|apply safe_ret; exact I]|].
  destruct (Z.eqb_spec enc cE_UltraZip).
  { destruct ok; [|apply safeD_ret; exact I].
    eapply safeD_weaken; [|apply safe_dec_ultrazip]. intros W0 H0 fx [(F0 & _ & _ & _ & _ & _ & _ & _ & F9 & _) _]. split; assumption. }
  specialize (Hin n). destruct Hin as [HinW HinH].
  destruct (enc =? cE_TRLE).
  { destruct ok; [|apply safeD_ret; exact I].
    eapply safeD_weaken; [|apply safe_dec_trle; assumption].
    intros W0 H0 fx [(_ & _ & _ & _ & F4 & _) [-> ->]]. unfold DTr. auto. }
  destruct (enc =? cE_Zlib); [destruct ok; apply safeD_of_safe; [apply safe_dec_zlib; assumption|apply safe_ret; exact I]|].
  destruct (enc =? cE_Tight).
  { destruct ok; [|apply safeD_ret; exact I].
    eapply safeD_weaken; [|apply safe_dec_tight; assumption].
    intros W0 H0 fx [(_ & F1 & F2 & F3 & _ & _ & _ & _ & _ & F10) [-> ->]]. unfold DT. repeat split; assumption. }
  destruct ((enc =? cE_ZRLE) || (enc =? cE_ZYWRLE)).
  { destruct ok; [|apply safeD_ret; exact I].
    eapply safeD_weaken; [|apply safe_dec_zrle; assumption].
    intros W0 H0 fx [(_ & _ & _ & _ & _ & F5 & F6 & F8 & _ & _) [-> ->]]. unfold DZ8. auto. }
  destruct (enc =? cE_QemuExtendedKeyEvent); [apply safeD_ret; exact I|apply safeD_fail].
Qed.

Lemma safeA_rd_u16 : safeD DA (fun a => 0 <= a < 65536) rd_u16.
Proof. apply safeD_of_safe. apply safe_rd_u16. Qed.

Lemma safe_do_rect_all : safeD DA (fun _ => True) do_rect.
Proof.
  rewrite do_rect_eq.
  eapply safeF_bind; [auto with snd|apply safeA_rd_u16|]. intros x Hx.
  eapply safeF_bind; [auto with snd|apply safeA_rd_u16|]. intros y Hy.
  eapply safeF_bind; [auto with snd|apply safeA_rd_u16|]. intros w Hw.
  eapply safeF_bind; [auto with snd|apply safeA_rd_u16|]. intros h Hh.
  eapply (safeF_bind (fun _ => True)); [auto with snd|apply safeD_of_safe; eapply safeP_weaken; [|apply safe_rd_u32]; auto|]. intros enc _.
  cbn beta in *. apply rect_body_safe_all; lia.
Qed.

Lemma safe_rect_loop_all n : safeD DA (fun _ => True) (rect_loop n).
Proof.
  induction n as [|n IH]; cbn [rect_loop]; [apply safeD_ret; exact I|].
  eapply safeF_bind; [auto with snd|apply safe_do_rect_all|]. intros b _.
  destruct b; [apply safeD_ret; exact I|exact IH].
Qed.

Theorem no_oob_repaired s ts : st_ok s -> FA (c_fix s) ->
  match handle_msg s ts with Oob _ => False | _ => True end.
Proof.
  intros Hs Hf.
  assert (G : safeD DA (fun _ => True) handle_msg).
  { rewrite handle_msg_eq.
    eapply (safeF_bind (fun _ => True)); [auto with snd|apply safeD_of_safe; eapply safeP_weaken; [|apply safe_rd_u8]; auto|]. intros t _.
    unfold handle_body.
    destruct (t =? cM_SetColourMapEntries); [apply safeD_ret; exact I|].
    destruct (t =? cM_FramebufferUpdate); [|apply safeD_of_safe; apply clean_safe; cln].
    eapply (safeF_bind (fun _ => True)); [auto with snd|apply safeT_rd|]. intros hdr _.
    apply safeD_then_clean; [apply safe_rect_loop_all|intros; cln]. }
  specialize (G s ts Hs Hf). destruct (handle_msg s ts); auto.
Qed.
