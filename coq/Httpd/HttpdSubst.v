(* C20 - C20_substitution: the $-substitution of .vnc files replaces exactly the documented
   variables by their values, turns "$$" into "$", leaves every other '$' alone, and copies
   everything else unchanged *)
From Coq Require Import ZArith List Bool Lia.
From LV Require Import Gen.Consts_C20 Httpd.HttpdDefs Httpd.HttpdProofs Httpd.HttpdGate Httpd.HttpdSafe.
Import ListNotations.
Local Open Scope Z_scope.

Lemma subst_at_used : forall cfg params r t u, subst_at cfg params r = Some (t, u) -> (1 <= u)%nat.
Proof.
  intros cfg params r t u. unfold subst_at.
  repeat match goal with
  | |- context [if is_prefix ?p r then _ else _] => destruct (is_prefix p r)
  end; try (intro H; inversion H; lia).
  destruct (Zlength (host cfg ++ [c_colon] ++ z_dec (port cfg - 5900)) + 1 >? C20_STR_SIZE); intro H; inversion H; lia.
Qed.

(* the result does not depend on the fuel once it exceeds the length *)
Lemma subst_loop_fuel : forall f1 f2 cfg params rest,
  (length rest < f1)%nat -> (length rest < f2)%nat ->
  subst_loop f1 cfg params rest = subst_loop f2 cfg params rest.
Proof.
  induction f1 as [|k1 IH]; intros f2 cfg params rest H1 H2; [lia|].
  destruct f2 as [|k2]; [lia|]. cbn [subst_loop].
  destruct (index_of c_dollar (cstr rest)) as [i|] eqn:Ei; auto.
  destruct (subst_at cfg params (skipn i rest)) as [[txt used]|] eqn:Es; auto.
  apply index_of_lt in Ei. pose proof (cstr_len rest). apply subst_at_used in Es.
  rewrite (IH k2); auto; rewrite !skipn_length; lia.
Qed.

Lemma cstr_plain_app : forall pre r, plain pre -> cstr (pre ++ r) = pre ++ cstr r.
Proof.
  induction pre as [|x t IH]; intros r Hp; simpl; auto.
  inversion Hp as [|? ? [_ Hx] Ht]; subst. destruct (x =? 0) eqn:E; [apply Z.eqb_eq in E; contradiction|].
  rewrite IH; auto.
Qed.

Lemma index_plain : forall pre r, plain pre -> index_of c_dollar (pre ++ c_dollar :: r) = Some (length pre).
Proof.
  induction pre as [|x t IH]; intros r Hp; simpl.
  - reflexivity.
  - inversion Hp as [|? ? [Hx _] Ht]; subst. destruct (x =? c_dollar) eqn:E; [apply Z.eqb_eq in E; contradiction|].
    rewrite IH; auto.
Qed.

Lemma index_plain_none : forall s, plain s -> index_of c_dollar s = None.
Proof.
  induction s as [|x t IH]; intros Hp; simpl; auto.
  inversion Hp as [|? ? [Hx _] Ht]; subst. destruct (x =? c_dollar) eqn:E; [apply Z.eqb_eq in E; contradiction|].
  rewrite IH; auto.
Qed.

(* text without '$' (up to a NUL byte, after which the C code stops looking) is copied unchanged *)
Theorem subst_plain : forall cfg params chunk,
  index_of c_dollar (cstr chunk) = None -> subst_text cfg params chunk = Some chunk.
Proof.
  intros cfg params chunk H. unfold subst_text. cbn [subst_loop]. rewrite H. simpl. rewrite app_nil_r. reflexivity.
Qed.

(* one step at the first '$' after plain text *)
Lemma subst_step : forall cfg params pre r t u,
  plain pre -> subst_at cfg params (c_dollar :: r) = Some (t, u) ->
  subst_text cfg params (pre ++ c_dollar :: r) =
  match subst_text cfg params (skipn u (c_dollar :: r)) with
  | Some rest => Some (pre ++ t ++ rest)
  | None => None
  end.
Proof.
  intros cfg params pre r t u Hp Hs.
  remember (subst_text cfg params (skipn u (c_dollar :: r))) as X eqn:HX.
  unfold subst_text. cbn [subst_loop].
  assert (Hc : cstr (pre ++ c_dollar :: r) = pre ++ c_dollar :: cstr r).
  { rewrite cstr_plain_app; auto. }
  rewrite Hc, index_plain; auto.
  replace (skipn (length pre) (pre ++ c_dollar :: r)) with (c_dollar :: r)
    by (rewrite skipn_app, skipn_all, Nat.sub_diag; reflexivity).
  rewrite Hs.
  replace (firstn (length pre) (pre ++ c_dollar :: r)) with pre
    by (rewrite firstn_app, firstn_all, Nat.sub_diag; simpl; rewrite app_nil_r; reflexivity).
  pose proof (subst_at_used _ _ _ _ _ Hs) as Hu.
  rewrite (subst_loop_fuel (length (pre ++ c_dollar :: r)) (S (length (skipn u (c_dollar :: r))))).
  - subst X. unfold subst_text.
    destruct (subst_loop (S (length (skipn u (c_dollar :: r)))) cfg params (skipn u (c_dollar :: r))); auto.
  - rewrite skipn_length, app_length. cbn [length]. lia.
  - lia.
Qed.

(* every documented variable is replaced by its value *)
Lemma subst_at_var : forall cfg params var value post,
  display_fits cfg -> In (var, value) (var_table cfg params) ->
  subst_at cfg params (var ++ post) = Some (value, length var).
Proof.
  intros cfg params var value post Hd Hin. unfold var_table in Hin.
  repeat (destruct Hin as [Hin|Hin]; [inversion Hin; subst; clear Hin|]); try contradiction;
    unfold subst_at; simpl; try reflexivity.
  unfold display_fits in Hd.
  destruct (Zlength (host cfg ++ c_colon :: z_dec (port cfg - 5900)) + 1 >? C20_STR_SIZE) eqn:E; auto.
  exfalso. rewrite Zlength_app, Zlength_cons in E. unfold C20_STR_SIZE in *. lia.
Qed.

Theorem substitution_variable : forall cfg params pre var value post,
  display_fits cfg -> plain pre -> In (var, value) (var_table cfg params) ->
  subst_text cfg params (pre ++ var ++ post) =
  match subst_text cfg params post with
  | Some rest => Some (pre ++ value ++ rest)
  | None => None
  end.
Proof.
  intros cfg params pre var value post Hd Hp Hin.
  pose proof (subst_at_var cfg params var value post Hd Hin) as Hs.
  assert (Hv : exists v', var = c_dollar :: v').
  { unfold var_table in Hin. repeat (destruct Hin as [Hin|Hin]; [inversion Hin; subst; eexists; reflexivity|]). contradiction. }
  destruct Hv as [v' Hv]. subst var. cbn [app] in *.
  rewrite (subst_step cfg params pre (v' ++ post) value (length (c_dollar :: v'))); auto.
  replace (skipn (length (c_dollar :: v')) (c_dollar :: v' ++ post)) with post; auto.
  change (c_dollar :: v' ++ post) with ((c_dollar :: v') ++ post).
  rewrite skipn_app, skipn_all, Nat.sub_diag. reflexivity.
Qed.

(* "$$" gives one '$'; a '$' that starts no documented variable is left alone *)
Definition no_var (cfg : config) (params : str) (r : str) : Prop :=
  forall var value, In (var, value) (var_table cfg params) -> is_prefix var r = false.

Lemma subst_at_other : forall cfg params r,
  no_var cfg params r ->
  subst_at cfg params r = Some (s_dollar, if is_prefix v_DD r then 2%nat else 1%nat).
Proof.
  intros cfg params r H. unfold subst_at.
  repeat match goal with
  | |- context [if is_prefix ?p r then _ else _] =>
      first [ rewrite (H p _ ltac:(unfold var_table; simpl; tauto)) | destruct (is_prefix p r); reflexivity ]
  end.
Qed.

Theorem substitution_other_dollar : forall cfg params pre r,
  plain pre -> no_var cfg params (c_dollar :: r) ->
  subst_text cfg params (pre ++ c_dollar :: r) =
  match subst_text cfg params (if is_prefix v_DD (c_dollar :: r) then skipn 2 (c_dollar :: r) else r) with
  | Some rest => Some (pre ++ s_dollar ++ rest)
  | None => None
  end.
Proof.
  intros cfg params pre r Hp Hn.
  rewrite (subst_step cfg params pre r s_dollar (if is_prefix v_DD (c_dollar :: r) then 2%nat else 1%nat)); auto.
  - destruct (is_prefix v_DD (c_dollar :: r)); reflexivity.
  - apply subst_at_other. exact Hn.
Qed.

Example substitution_nonvacuous :
  subst_text (cfg_w false) [112] [97; 36; 87; 73; 68; 84; 72; 36; 36; 36; 120; 36; 80; 65; 82; 65; 77; 83]
  = Some [97; 54; 52; 48; 36; 36; 120; 112].
Proof. vm_compute. reflexivity. Qed.
