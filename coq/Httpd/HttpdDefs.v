(* C20 - executable mirror model of src/libvncserver/httpd.c : httpProcessInput, parseParams,
   validateString, compareAndSkip.  Definitions only (proofs in HttpdProofs.v).

   Bytes are Z (0..255), byte strings are [list Z].  C strings are modelled by their contents up to
   (excluding) the terminating NUL; every place where the C text forms a pointer that may lie
   beyond a terminator or dereferences the result of strchr without a test is an explicit error
   value ([Crash]).  Buffer capacities are the constants regenerated from the source
   (Gen/Consts_C20.v); every copy into a fixed buffer is preceded by an explicit capacity check that
   yields [Crash Overflow] when it would not fit.

   [variant]: the tree had two defects (DESIGN.md section 7, F16), repaired by the fix commits 057fee4
   and 6ca4ce7.  [v_tree] (flags set) is the current control flow; [v_prefix] (flags clear) is the flow
   before the fixes, kept as regression variant. *)
From Coq Require Import ZArith List Bool Lia.
From LV Require Import Gen.Consts_C20.
Import ListNotations.
Local Open Scope Z_scope.

Definition str := list Z.

(* ------------------------------------------------------------------ literals (ASCII codes) *)
Definition s_CONNECT : str := [67; 79; 78; 78; 69; 67; 84; 32].
Definition s_GET : str := [71; 69; 84; 32].
Definition s_proxied : str := [47; 112; 114; 111; 120; 105; 101; 100; 46; 99; 111; 110; 110; 101; 99; 116; 105; 111; 110; 32; 72; 84; 84; 80; 47; 49; 46].
Definition s_dotdot : str := [46; 46].
Definition s_slash : str := [47].
Definition s_index : str := [47; 105; 110; 100; 101; 120; 46; 118; 110; 99].
Definition s_vnc : str := [46; 118; 110; 99].
Definition s_css : str := [46; 99; 115; 115].
Definition s_svg : str := [46; 115; 118; 103].
Definition s_js : str := [46; 106; 115].
Definition s_ct_html : str := [67; 111; 110; 116; 101; 110; 116; 45; 84; 121; 112; 101; 58; 32; 116; 101; 120; 116; 47; 104; 116; 109; 108; 13; 10].
Definition s_ct_css : str := [67; 111; 110; 116; 101; 110; 116; 45; 84; 121; 112; 101; 58; 32; 116; 101; 120; 116; 47; 99; 115; 115; 13; 10].
Definition s_ct_svg : str := [67; 111; 110; 116; 101; 110; 116; 45; 84; 121; 112; 101; 58; 32; 105; 109; 97; 103; 101; 47; 115; 118; 103; 43; 120; 109; 108; 13; 10].
Definition s_ct_js : str := [67; 111; 110; 116; 101; 110; 116; 45; 84; 121; 112; 101; 58; 32; 97; 112; 112; 108; 105; 99; 97; 116; 105; 111; 110; 47; 106; 97; 118; 97; 115; 99; 114; 105; 112; 116; 13; 10].
Definition s_crlf : str := [13; 10].
Definition s_rr : str := [13; 13].
Definition s_nn : str := [10; 10].
Definition s_rnrn : str := [13; 10; 13; 10].
Definition s_nrnr : str := [10; 13; 10; 13].
Definition v_WIDTH : str := [36; 87; 73; 68; 84; 72].
Definition v_HEIGHT : str := [36; 72; 69; 73; 71; 72; 84].
Definition v_APPLETWIDTH : str := [36; 65; 80; 80; 76; 69; 84; 87; 73; 68; 84; 72].
Definition v_APPLETHEIGHT : str := [36; 65; 80; 80; 76; 69; 84; 72; 69; 73; 71; 72; 84].
Definition v_PORT : str := [36; 80; 79; 82; 84].
Definition v_DESKTOP : str := [36; 68; 69; 83; 75; 84; 79; 80].
Definition v_DISPLAY : str := [36; 68; 73; 83; 80; 76; 65; 89].
Definition v_USER : str := [36; 85; 83; 69; 82].
Definition v_PARAMS : str := [36; 80; 65; 82; 65; 77; 83].
Definition v_DD : str := [36; 36].
Definition s_dollar : str := [36].
Definition s_qmark : str := [63].
Definition s_param1 : str := [60; 80; 65; 82; 65; 77; 32; 78; 65; 77; 69; 61; 34].
Definition s_param2 : str := [34; 32; 86; 65; 76; 85; 69; 61; 34].
Definition s_param3 : str := [34; 62; 10].
Definition c_slash := 47.
Definition c_qmark := 63.
Definition c_amp := 38.
Definition c_eq := 61.
Definition c_colon := 58.
Definition c_dollar := 36.
Definition c_dot := 46.
Definition c_plus := 43.

(* ------------------------------------------------------------------ C string helpers *)
Fixpoint list_eqb (a b : str) : bool :=
  match a, b with
  | [], [] => true
  | x :: a', y :: b' => (x =? y) && list_eqb a' b'
  | _, _ => false
  end.

(* strncmp(s, p, strlen p) == 0  for a literal p without NUL *)
Fixpoint is_prefix (p s : str) : bool :=
  match p with
  | [] => true
  | x :: p' => match s with [] => false | y :: s' => (x =? y) && is_prefix p' s' end
  end.

(* contents of the C string starting at the head of a byte buffer *)
Fixpoint cstr (l : str) : str :=
  match l with [] => [] | x :: t => if x =? 0 then [] else x :: cstr t end.

(* strstr(s, pat) != NULL *)
Fixpoint strstr (pat s : str) : bool :=
  is_prefix pat s || match s with [] => false | _ :: t => strstr pat t end.

(* strchr: offset of the first occurrence *)
Fixpoint index_of (c : Z) (s : str) : option nat :=
  match s with
  | [] => None
  | x :: t => if x =? c then Some O else match index_of c t with Some i => Some (S i) | None => None end
  end.

(* strrchr(s, c): the suffix starting at the last occurrence *)
Fixpoint strrchr (c : Z) (s : str) : option str :=
  match s with
  | [] => None
  | x :: t => match strrchr c t with
              | Some r => Some r
              | None => if x =? c then Some s else None
              end
  end.

Definition isspace (c : Z) : bool := (c =? 32) || ((9 <=? c) && (c <=? 13)).
Definition isdigit (c : Z) : bool := (48 <=? c) && (c <=? 57).
Definition isalnum (c : Z) : bool :=
  isdigit c || ((65 <=? c) && (c <=? 90)) || ((97 <=? c) && (c <=? 122)).
Definition tolower (c : Z) : Z := if (65 <=? c) && (c <=? 90) then c + 32 else c.

Fixpoint skip_ws (s : str) : str :=
  match s with [] => [] | x :: t => if isspace x then skip_ws t else s end.
Fixpoint take_token (s : str) : str :=
  match s with [] => [] | x :: t => if isspace x then [] else x :: take_token t end.
(* buf[strcspn(buf, "\n\r")] = 0 *)
Fixpoint first_line (s : str) : str :=
  match s with [] => [] | x :: t => if (x =? 10) || (x =? 13) then [] else x :: first_line t end.

(* glibc atoi = (int) strtol(s, NULL, 10): white space, optional sign, digits; strtol saturates at
   LONG_MIN/LONG_MAX, the conversion to int keeps the low 32 bits (two's complement) *)
Definition LONG_MAX := 9223372036854775807.
Fixpoint atoi_digits (s : str) (acc : Z) : Z :=
  match s with
  | [] => acc
  | x :: t => if isdigit x then atoi_digits t (if acc >? LONG_MAX then acc else acc * 10 + (x - 48)) else acc
  end.
Definition wrap32 (v : Z) : Z := let m := v mod 4294967296 in if m >=? 2147483648 then m - 4294967296 else m.
Definition atoi (s : str) : Z :=
  let s1 := skip_ws s in
  let '(neg, s2) := match s1 with
                    | 45 :: t => (true, t)
                    | 43 :: t => (false, t)
                    | _ => (false, s1)
                    end in
  let v := atoi_digits s2 0 in
  let l := if neg then (if v >? LONG_MAX + 1 then - (LONG_MAX + 1) else - v)
           else (if v >? LONG_MAX then LONG_MAX else v) in
  wrap32 l.

(* sprintf("%d") *)
Fixpoint uint_bytes (u : Decimal.uint) : str :=
  match u with
  | Decimal.Nil => []
  | Decimal.D0 r => 48 :: uint_bytes r | Decimal.D1 r => 49 :: uint_bytes r
  | Decimal.D2 r => 50 :: uint_bytes r | Decimal.D3 r => 51 :: uint_bytes r
  | Decimal.D4 r => 52 :: uint_bytes r | Decimal.D5 r => 53 :: uint_bytes r
  | Decimal.D6 r => 54 :: uint_bytes r | Decimal.D7 r => 55 :: uint_bytes r
  | Decimal.D8 r => 56 :: uint_bytes r | Decimal.D9 r => 57 :: uint_bytes r
  end.
Definition z_dec (n : Z) : str :=
  match Z.to_int n with
  | Decimal.Pos u => uint_bytes u
  | Decimal.Neg u => 45 :: uint_bytes u
  end.

(* ------------------------------------------------------------------ configuration, inputs, effects *)
Record config := {
  httpDir : str;             (* rfbScreen->httpDir, a C string *)
  proxy : bool;              (* rfbScreen->httpEnableProxyConnect *)
  port : Z; width : Z; height : Z;
  desktop : str;             (* rfbScreen->desktopName *)
  host : str;                (* rfbScreen->thisHost, char[255] *)
  user : option str;         (* getenv("USER") *)
  r_notfound : str; r_invalid : str; r_ok : str; r_proxyok : str   (* response texts of httpd.c *)
}.

Record variant := { nullchk : bool; paramchk : bool }.
(* the tree since fix commits 057fee4 (strchr results tested) and 6ca4ce7 (empty parameter refused) *)
Definition v_tree := {| nullchk := true; paramchk := true |}.
(* the flow before those commits: kept as regression variant and for the refutation witnesses *)
Definition v_prefix := {| nullchk := false; paramchk := false |}.

(* what successive read() calls on the HTTP socket deliver; the end of the list is EAGAIN *)
Inductive seg := Data (l : str) | Eof | Rerr.

Inductive effect :=
| Open (path : str) (ok : bool)    (* fopen(path, "r") and whether it succeeded *)
| Send (b : str)                   (* rfbWriteExact on the HTTP socket *)
| NewRfbClient                     (* rfbNewClientConnection(screen, httpSock) *)
| Close.                           (* httpCloseSock *)

Inductive err :=
| NullDeref          (* result of strchr used without a NULL test *)
| UninitRead         (* pointer formed beyond the terminator of a freshly copied string *)
| Overflow (which : Z)   (* a copy that does not fit its buffer; [which] numbers the site *)
| OutOfFuel.

Inductive status := Done | Again | Crash (e : err).

(* ------------------------------------------------------------------ validateString / parseParams *)
Definition param_char_ok (c : Z) : bool :=
  isalnum c || (c =? 95) || (c =? 46) || (c =? 58) || (c =? 91) || (c =? 93).

(* None = FALSE; Some s' = TRUE with '+' replaced by ' ' *)
Fixpoint validate (s : str) : option str :=
  match s with
  | [] => Some []
  | c :: t =>
      if param_char_ok c then match validate t with Some t' => Some (c :: t') | None => None end
      else if c =? c_plus then match validate t with Some t' => Some (32 :: t') | None => None end
      else None
  end.

(* the successive "name=value" pieces separated by '&' (delim_ptr / tail walk) *)
Fixpoint split_amp (s : str) (cur : str) : list str :=
  match s with
  | [] => [rev cur]
  | x :: t => if x =? c_amp then rev cur :: split_amp t [] else split_amp t (x :: cur)
  end.

Inductive presult := POk (r : str) | PFalse | PErr (e : err).

Definition format_param (name value : str) : str :=
  s_param1 ++ name ++ s_param2 ++ value ++ s_param3.

Fixpoint parse_pieces (v : variant) (pieces : list str) (result : str) (max_bytes : Z) : presult :=
  match pieces with
  | [] => POk result
  | piece :: rest =>
      if Zlength piece >=? C20_PARAM_REQ_SIZE then PFalse else
      match piece with
      | [] => (* param_request = "": &param_request[1] lies beyond the terminator *)
          if paramchk v then PFalse else PErr UninitRead
      | c0 :: p1 =>
          match index_of c_eq p1 with
          | None => PFalse
          | Some i =>
              let name := c0 :: firstn i p1 in
              let value := skipn (S i) p1 in
              match value with
              | [] => PFalse
              | _ =>
                match validate name with
                | None => PFalse
                | Some name' =>
                  match validate value with
                  | None => PFalse
                  | Some value' =>
                      let fmt := format_param name' value' in
                      if Zlength fmt + 1 >? C20_PARAM_FMT_SIZE then PErr (Overflow 4) else
                      if Zlength result + Zlength fmt + 1 >? max_bytes then PFalse else
                      parse_pieces v rest (result ++ fmt) max_bytes
                  end
                end
              end
          end
      end
  end.

Definition parse_params (v : variant) (request : str) (max_bytes : Z) : presult :=
  parse_pieces v (split_amp request []) [] max_bytes.

(* ------------------------------------------------------------------ $-substitution of one chunk *)
Definition user_text (cfg : config) : str :=
  match user cfg with Some u => u | None => s_qmark end.

(* one step at a '$': (text written, bytes consumed); None = a sprintf into str[] would overflow *)
Definition subst_at (cfg : config) (params : str) (r : str) : option (str * nat) :=
  if is_prefix v_WIDTH r then Some (z_dec (width cfg), 6%nat)
  else if is_prefix v_HEIGHT r then Some (z_dec (height cfg), 7%nat)
  else if is_prefix v_APPLETWIDTH r then Some (z_dec (width cfg), 12%nat)
  else if is_prefix v_APPLETHEIGHT r then Some (z_dec (height cfg + 32), 13%nat)
  else if is_prefix v_PORT r then Some (z_dec (port cfg), 5%nat)
  else if is_prefix v_DESKTOP r then Some (desktop cfg, 8%nat)
  else if is_prefix v_DISPLAY r then
    let t := host cfg ++ [c_colon] ++ z_dec (port cfg - 5900) in
    if Zlength t + 1 >? C20_STR_SIZE then None else Some (t, 8%nat)
  else if is_prefix v_USER r then Some (user_text cfg, 5%nat)
  else if is_prefix v_PARAMS r then Some (params, 7%nat)
  else if is_prefix v_DD r then Some (s_dollar, 2%nat)
  else Some (s_dollar, 1%nat).

(* [rest] = the bytes from ptr to &buf[n]; strchr stops at a NUL inside the file *)
Fixpoint subst_loop (fuel : nat) (cfg : config) (params : str) (rest : str) : option (list str) :=
  match fuel with
  | O => None
  | S k =>
      match index_of c_dollar (cstr rest) with
      | None => Some [rest]
      | Some i =>
          let r := skipn i rest in
          match subst_at cfg params r with
          | None => None
          | Some (txt, used) =>
              match subst_loop k cfg params (skipn used r) with
              | Some ws => Some (firstn i rest :: txt :: ws)
              | None => None
              end
          end
      end
  end.

(* successive fread(buf, 1, BUF_SIZE-1, fd) results *)
Fixpoint chunks (fuel : nat) (n : nat) (l : str) : list str :=
  match fuel with
  | O => []
  | S k => match l with [] => [] | _ => firstn n l :: chunks k n (skipn n l) end
  end.

Definition chunk_len : nat := Z.to_nat (C20_BUF_SIZE - C20_FREAD_SLACK).

(* the .vnc path stores a terminator behind the first chunk: n = fread(buf, 1, BUF_SIZE-1, fd); buf[n] = 0;
   (site Overflow 8: it would lie outside buf[BUF_SIZE] if fread could fill the whole buffer) *)
Definition term_overflows (subst : bool) (content : str) : bool :=
  subst && (Z.of_nat (Nat.min chunk_len (length content)) >=? C20_BUF_SIZE).

(* holds because of the slack in the fread count (C20_FREAD_SLACK, regenerated from httpd.c) *)
Lemma term_fits : forall subst content, term_overflows subst content = false.
Proof.
  intros subst content. unfold term_overflows. destruct subst; [|reflexivity]. cbn [andb].
  assert (H : Z.of_nat chunk_len < C20_BUF_SIZE).
  { unfold chunk_len. rewrite Z2Nat.id; unfold C20_BUF_SIZE, C20_FREAD_SLACK; lia. }
  rewrite Z.geb_leb. apply Z.leb_gt. lia.
Qed.

Fixpoint body_effects (cfg : config) (params : str) (subst : bool) (cs : list str) : option (list effect) :=
  match cs with
  | [] => Some []
  | c :: rest =>
      match (if subst then subst_loop (S (length c)) cfg params c else Some [c]) with
      | None => None
      | Some ws => match body_effects cfg params subst rest with
                   | Some e => Some (map Send ws ++ e)
                   | None => None
                   end
      end
  end.

Definition content_type (fname : str) : str :=
  match strrchr c_dot fname with
  | None => []
  | Some ext =>
      let e := map tolower ext in
      if list_eqb e s_vnc then s_ct_html
      else if list_eqb e s_css then s_ct_css
      else if list_eqb e s_svg then s_ct_svg
      else if list_eqb e s_js then s_ct_js
      else []
  end.

Definition ends_with_vnc (f : str) : bool :=
  (4 <=? Zlength f) && list_eqb (skipn (length f - 4) f) s_vnc.

(* split the token at the first '?' *)
Definition split_query (tok : str) : str * option str :=
  match index_of c_qmark tok with
  | None => (tok, None)
  | Some i => (firstn i tok, Some (skipn (S i) tok))
  end.

(* ------------------------------------------------------------------ request processing *)
Section WithFs.
Variable fs : str -> option str.      (* fopen + complete fread of a path: None = fopen failed *)

Definition serve (v : variant) (cfg : config) (tok : str) : list effect * status :=
  let dir := httpDir cfg in
  let '(fname, q) := split_query tok in
  match (match q with None => POk [] | Some qs => parse_params v qs C20_PARAMS_MAX end) with
  | PErr e => ([], Crash e)
  | pr =>
      let params := match pr with POk r => r | _ => [] end in
      if Zlength params + 1 >? C20_PARAMS_SIZE then ([], Crash (Overflow 5)) else
      if strstr s_dotdot fname then ([Send (r_notfound cfg); Close], Done) else
      let fname' := if list_eqb fname s_slash then s_index else fname in
      if Zlength dir + Zlength fname' + 1 >? C20_FULLFNAME_SIZE then ([], Crash (Overflow 3)) else
      let subst := ends_with_vnc fname' in
      let path := dir ++ fname' in
      match fs path with
      | None => ([Open path false; Send (r_notfound cfg); Close], Done)
      | Some content =>
          if term_overflows subst content
          then ([Open path true; Send (r_ok cfg); Send (content_type fname'); Send s_crlf], Crash (Overflow 8)) else
          match body_effects cfg params subst (chunks (S (length content)) chunk_len content) with
          | None => ([Open path true; Send (r_ok cfg); Send (content_type fname'); Send s_crlf], Crash (Overflow 6))
          | Some body =>
              ([Open path true; Send (r_ok cfg); Send (content_type fname'); Send s_crlf] ++ body ++ [Close], Done)
          end
      end
  end.

Definition get_stage (v : variant) (cfg : config) (s : str) : list effect * status :=
  let dir := httpDir cfg in
  if negb (is_prefix s_GET s) then ([Close], Done) else
  let line := first_line s in
  let maxF := C20_MAXFNAME_BASE - Zlength dir in
  if Zlength line >? maxF then ([Close], Done) else
  let tok := take_token (skip_ws (skipn 3 line)) in
  match tok with
  | [] => ([Close], Done)                       (* sscanf(...) != 1 *)
  | c :: _ =>
      if Zlength dir + Zlength tok + 1 >? C20_FULLFNAME_SIZE then ([], Crash (Overflow 2)) else
      if negb (c =? c_slash) then ([Send (r_notfound cfg); Close], Done) else
      serve v cfg tok
  end.

Inductive pstage := PContinue | PResult (e : list effect) (st : status).

Definition proxy_stage (v : variant) (cfg : config) (s : str) : pstage :=
  if negb (proxy cfg) then PContinue else
  if is_prefix s_CONNECT s then
    match index_of c_colon s with
    | None => if nullchk v then PResult [Send (r_invalid cfg); Close] Done
              else PResult [] (Crash NullDeref)
    | Some i =>
        if negb (atoi (skipn (S i) s) =? port cfg) then PResult [Send (r_invalid cfg); Close] Done
        else PResult [Send (r_proxyok cfg); NewRfbClient] Done
    end
  else if is_prefix s_GET s then
    match index_of c_slash s with
    | None => if nullchk v then PContinue else PResult [] (Crash NullDeref)
    | Some i =>
        if is_prefix (firstn (Z.to_nat C20_PROXIED_CMP_LEN) s_proxied) (skipn i s)
           && (Z.of_nat (length s_proxied) >=? C20_PROXIED_CMP_LEN)
        then PResult [Send (r_proxyok cfg); NewRfbClient] Done
        else PContinue
    end
  else PContinue.

Definition process_request (v : variant) (cfg : config) (s : str) : list effect * status :=
  match proxy_stage v cfg s with
  | PResult e st => (e, st)
  | PContinue => get_stage v cfg s
  end.

(* ------------------------------------------------------------------ request accumulation *)
Definition complete (s : str) : bool :=
  strstr s_rr s || strstr s_nn s || strstr s_rnrn s || strstr s_nrnr s.

Inductive rl_result :=
| RL_buf (b : str)       (* a blank line was seen; b = buf[0..buf_filled) *)
| RL_again               (* EAGAIN: return, socket stays open *)
| RL_close               (* httpCloseSock *)
| RL_err (e : err).

(* returns the result and the number of read() calls performed *)
Fixpoint read_loop (fuel : nat) (filled : str) (segs : list seg) (reads : nat) : rl_result * nat :=
  match fuel with
  | O => (RL_err OutOfFuel, reads)
  | S k =>
      let n := Zlength filled in
      if n >? C20_BUF_SIZE then (RL_close, reads) else
      let count := C20_BUF_SIZE - n - C20_READ_SLACK in
      if count <? 0 then (RL_err (Overflow 0), reads) else
      if count =? 0 then (RL_close, S reads) else    (* read(fd, p, 0) returns 0: "premature close" *)
      match segs with
      | [] => (RL_again, S reads)
      | Eof :: _ => (RL_close, S reads)
      | Rerr :: _ => (RL_close, S reads)
      | Data l :: rest =>
          let take := firstn (Z.to_nat count) l in
          let remain := skipn (Z.to_nat count) l in
          match take with
          | [] => (RL_close, S reads)            (* read returned 0 *)
          | _ =>
              let filled' := filled ++ take in
              if Zlength filled' >=? C20_BUF_SIZE then (RL_err (Overflow 1), S reads) else
              if complete (cstr filled') then (RL_buf filled', S reads)
              else read_loop k filled' (match remain with [] => rest | _ => Data remain :: rest end) (S reads)
          end
      end
  end.

Definition read_fuel : nat := S (Z.to_nat C20_BUF_SIZE).

Definition http_process_n (v : variant) (cfg : config) (segs : list seg) : (list effect * status) * nat :=
  let dir := httpDir cfg in
  if Zlength dir >? C20_DIR_MAX then (([Close], Done), O) else
  if Zlength dir + 1 >? C20_FULLFNAME_SIZE then (([], Crash (Overflow 7)), O) else
  match read_loop read_fuel [] segs O with
  | (RL_buf b, n) => (process_request v cfg (cstr b), n)
  | (RL_again, n) => (([], Again), n)
  | (RL_close, n) => (([Close], Done), n)
  | (RL_err e, n) => (([], Crash e), n)
  end.

(* one call of httpProcessInput *)
Definition http_process (v : variant) (cfg : config) (segs : list seg) : list effect * status :=
  fst (http_process_n v cfg segs).

End WithFs.

(* ------------------------------------------------------------------ spec-level notions used by the theorems *)
(* the GET grammar accepted by httpd: "GET", white space, a token starting with '/', all on the
   first line; the result is the token *)
Definition get_target (s : str) : option str :=
  if is_prefix s_GET s then
    match take_token (skip_ws (skipn 3 (first_line s))) with
    | c :: t => if c =? c_slash then Some (c :: t) else None
    | [] => None
    end
  else None.

(* the request as accumulated by one call (None: the call ended before a blank line was seen) *)
Definition request_of (segs : list seg) : option str :=
  match read_loop read_fuel [] segs O with
  | (RL_buf b, _) => Some (cstr b)
  | _ => None
  end.

(* the Data payloads up to the first EOF / error *)
Fixpoint payload (segs : list seg) : str :=
  match segs with
  | Data l :: rest => l ++ payload rest
  | _ => []
  end.

(* ------------------------------------------------------------------ the documented $-substitution (spec level) *)
(* what one chunk of a .vnc file is sent as *)
Definition subst_text (cfg : config) (params : str) (chunk : str) : option str :=
  match subst_loop (S (length chunk)) cfg params chunk with
  | Some ws => Some (concat ws)
  | None => None
  end.

(* the documented variables and their values *)
Definition var_table (cfg : config) (params : str) : list (str * str) :=
  [ (v_WIDTH, z_dec (width cfg)); (v_HEIGHT, z_dec (height cfg));
    (v_APPLETWIDTH, z_dec (width cfg)); (v_APPLETHEIGHT, z_dec (height cfg + 32));
    (v_PORT, z_dec (port cfg)); (v_DESKTOP, desktop cfg);
    (v_DISPLAY, host cfg ++ [c_colon] ++ z_dec (port cfg - 5900));
    (v_USER, user_text cfg); (v_PARAMS, params) ].

(* text without '$' and without NUL *)
Definition plain (s : str) : Prop := Forall (fun c => c <> c_dollar /\ c <> 0) s.

(* ------------------------------------------------------------------ rfbHttpCheckFds: accepting a connection *)
Record hsock := { from_v6 : bool; nonblocking : bool }.

(* [l4]/[l6]: which HTTP listener select() reports readable; [nb_ok]: result of rfbSetNonBlocking.
   The connection is taken from the IPv4 listener if that is readable, otherwise from the IPv6 one;
   after either branch the socket is made non-blocking, and closed if that fails. *)
Definition accept_step (l4 l6 nb_ok : bool) : option hsock :=
  if l4 || l6 then
    let s := {| from_v6 := negb l4; nonblocking := false |} in
    if nb_ok then Some {| from_v6 := from_v6 s; nonblocking := true |} else None
  else None.

Inductive call_result :=
| Returned (r : list effect * status) (reads : nat)
| Blocked.        (* read() on a blocking socket with nothing to read: the event loop stalls *)

(* httpProcessInput on an accepted socket: where a non-blocking socket makes read() fail with EAGAIN
   (the end of the segment list), a blocking one never returns *)
Definition http_call (sock : hsock) (fs : str -> option str) (v : variant) (cfg : config) (segs : list seg) : call_result :=
  match http_process_n fs v cfg segs with
  | ((e, Again), n) => if nonblocking sock then Returned (e, Again) n else Blocked
  | (r, n) => Returned r n
  end.

(* ------------------------------------------------------------------ the send side: rfbWriteExact (sockets.c) *)
(* what one iteration of its loop meets *)
Inductive wev :=
| WWrote (k : Z)   (* write() accepted k > 0 bytes *)
| WZero            (* write() returned 0 *)
| WErr             (* write() failed, not EAGAIN/EINTR *)
| WReady           (* EAGAIN, then select() reports the socket writable *)
| WTimeout         (* EAGAIN, then select() times out after its slice *)
| WSelErr.         (* EAGAIN, then select() fails *)

Inductive wres := WOk | WRet0 | WFail | WGiveUp.

(* the peer never reads again: only timeouts from here on *)
Fixpoint wx_tail (fuel : nat) (timeout slice waited total : Z) : option (wres * Z) :=
  match fuel with
  | O => None
  | S k =>
      let w := waited + slice in
      let t := total + slice in
      if w >=? timeout then Some (WGiveUp, t) else wx_tail k timeout slice w t
  end.

(* [waited] = totalTimeWaited (reset whenever select reports the socket writable); [total] = virtual
   time spent waiting in this call; the result carries the total.  End of the schedule = the peer
   never reads again. *)
Fixpoint wx_loop (sched : list wev) (timeout slice len waited total : Z) : option (wres * Z) :=
  if len <=? 0 then Some (WOk, total) else
  match sched with
  | [] => wx_tail (Z.to_nat (timeout / slice) + 2) timeout slice waited total
  | WWrote k :: r => if k <=? 0 then Some (WRet0, total) else wx_loop r timeout slice (len - k) waited total
  | WZero :: _ => Some (WRet0, total)
  | WErr :: _ => Some (WFail, total)
  | WSelErr :: _ => Some (WFail, total)
  | WReady :: r => wx_loop r timeout slice len 0 total
  | WTimeout :: r =>
      let w := waited + slice in
      let t := total + slice in
      if w >=? timeout then Some (WGiveUp, t) else wx_loop r timeout slice len w t
  end.

Fixpoint count_ready (sched : list wev) : nat :=
  match sched with
  | [] => O
  | WReady :: r => S (count_ready r)
  | _ :: r => count_ready r
  end.
