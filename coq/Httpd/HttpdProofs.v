(* C20 - proofs about the mirror model Httpd/HttpdDefs.v *)
From Coq Require Import ZArith List Bool Lia.
From LV Require Import Gen.Consts_C20 Httpd.HttpdDefs.
Import ListNotations.
Local Open Scope Z_scope.
Local Opaque chunk_len read_fuel.

(* ------------------------------------------------------------------ small facts on lists *)
Lemma Zlength_app : forall (a b : str), Zlength (a ++ b) = Zlength a + Zlength b.
Proof. intros. rewrite !Zlength_correct, app_length. lia. Qed.

Lemma Zlength_nonneg : forall (a : str), 0 <= Zlength a.
Proof. intros. rewrite Zlength_correct. lia. Qed.

Lemma is_prefix_app : forall p s, is_prefix p (p ++ s) = true.
Proof. induction p; simpl; intros; auto. rewrite Z.eqb_refl. simpl. auto. Qed.

Lemma list_eqb_eq : forall a b, list_eqb a b = true <-> a = b.
Proof.
  induction a; destruct b; simpl; split; intro H; try discriminate; auto.
  - apply andb_true_iff in H. destruct H as [H1 H2]. apply Z.eqb_eq in H1. apply IHa in H2. congruence.
  - inversion H; subst. rewrite Z.eqb_refl. simpl. apply IHa. reflexivity.
Qed.

Lemma index_of_firstn_head : forall c x t i,
  index_of c (x :: t) = Some i -> x <> c -> exists j, i = S j /\ firstn i (x :: t) = x :: firstn j t.
Proof.
  intros c x t i H Hx. simpl in H. destruct (x =? c) eqn:E.
  - apply Z.eqb_eq in E. contradiction.
  - destruct (index_of c t) eqn:E2; inversion H; subst. exists n. split; auto.
Qed.

Lemma strstr_firstn_false : forall pat s, strstr pat s = false -> forall t, s = t -> strstr pat t = false.
Proof. intros; subst; auto. Qed.

(* ------------------------------------------------------------------ confinement *)
(* the property predicate on a path: below the directory, by a name that starts with '/' and has
   no ".." anywhere *)
Definition confined (dir p : str) : Prop :=
  exists f t, p = dir ++ f /\ f = c_slash :: t /\ strstr s_dotdot f = false.

Definition is_send (e : effect) : Prop := exists b, e = Send b.

Lemma body_effects_sends : forall cfg params subst cs e,
  body_effects cfg params subst cs = Some e -> Forall is_send e.
Proof.
  induction cs as [|c rest IH]; cbn [body_effects]; intros e H.
  - inversion H. constructor.
  - destruct (if subst then subst_loop (S (length c)) cfg params c else Some [c]) as [ws|] eqn:E1; try discriminate.
    destruct (body_effects cfg params subst rest) as [e'|] eqn:E2; try discriminate.
    inversion H; subst. apply Forall_app. split.
    + clear. induction ws; simpl; constructor; auto. exists a; reflexivity.
    + apply IH; reflexivity.
Qed.

Lemma not_open_send : forall p ok e, is_send e -> Open p ok <> e.
Proof. intros p ok e [b Hb]. subst. discriminate. Qed.

Lemma in_sends_not_open : forall p ok l, Forall is_send l -> ~ In (Open p ok) l.
Proof.
  intros p ok l H Hin. rewrite Forall_forall in H. apply H in Hin. destruct Hin as [b Hb]. discriminate.
Qed.

Lemma split_query_head : forall t fname q,
  split_query (c_slash :: t) = (fname, q) -> exists t', fname = c_slash :: t'.
Proof.
  intros t fname q H. unfold split_query in H.
  destruct (index_of c_qmark (c_slash :: t)) as [i|] eqn:E.
  - inversion H; subst. destruct (index_of_firstn_head _ _ _ _ E) as [j [Hi Hf]].
    + unfold c_slash, c_qmark. lia.
    + rewrite Hf. eexists; reflexivity.
  - inversion H; subst. eexists; reflexivity.
Qed.

Section Fs.
Variable fs : str -> option str.

Lemma serve_open_confined : forall v cfg t p ok,
  In (Open p ok) (fst (serve fs v cfg (c_slash :: t))) -> confined (httpDir cfg) p.
Proof.
  intros v cfg t p ok. unfold serve.
  destruct (split_query (c_slash :: t)) as [fname q] eqn:Esq.
  destruct (split_query_head _ _ _ Esq) as [t' Hf].
  set (pr := match q with None => POk [] | Some qs => parse_params v qs C20_PARAMS_MAX end).
  assert (Hmain : forall params,
    In (Open p ok)
      (fst (if Zlength params + 1 >? C20_PARAMS_SIZE then ([], Crash (Overflow 5)) else
      if strstr s_dotdot fname then ([Send (r_notfound cfg); Close], Done) else
      let fname' := if list_eqb fname s_slash then s_index else fname in
      if Zlength (httpDir cfg) + Zlength fname' + 1 >? C20_FULLFNAME_SIZE then ([], Crash (Overflow 3)) else
      let subst := ends_with_vnc fname' in
      let path := httpDir cfg ++ fname' in
      match fs path with
      | None => ([Open path false; Send (r_notfound cfg); Close], Done)
      | Some content =>
          if term_overflows subst content
          then ([Open path true; Send (r_ok cfg); Send (content_type fname'); Send s_crlf], Crash (Overflow 8)) else
          match body_effects cfg params subst (chunks (S (length content)) chunk_len content) with
          | None => ([Open path true; Send (r_ok cfg); Send (content_type fname'); Send s_crlf], Crash (Overflow 6))
          | Some body =>
              ([Open path true; Send (r_ok cfg); Send (content_type fname'); Send s_crlf] ++ body ++ [Close], Done)
          end
      end)) -> confined (httpDir cfg) p).
  { intros params.
    destruct (Zlength params + 1 >? C20_PARAMS_SIZE); [simpl; tauto|].
    destruct (strstr s_dotdot fname) eqn:Edd.
    { simpl. intros [H|[H|[]]]; discriminate. }
    cbv zeta.
    set (fname' := if list_eqb fname s_slash then s_index else fname).
    assert (Hf' : exists t'', fname' = c_slash :: t'' /\ strstr s_dotdot fname' = false).
    { unfold fname'. destruct (list_eqb fname s_slash).
      - eexists. split; [reflexivity|]. vm_compute. reflexivity.
      - exists t'. split; auto. }
    destruct Hf' as [t'' [Hf1 Hf2]].
    destruct (Zlength (httpDir cfg) + Zlength fname' + 1 >? C20_FULLFNAME_SIZE); [simpl; tauto|].
    destruct (fs (httpDir cfg ++ fname')) as [content|].
    - rewrite term_fits; destruct (body_effects cfg params (ends_with_vnc fname') (chunks (S (length content)) chunk_len content)) as [body|] eqn:Eb.
      + simpl. intros [H|[H|[H|[H|H]]]]; try discriminate.
        * inversion H; subst. exists fname', t''. auto.
        * apply in_app_or in H. destruct H as [H|[H|[]]]; try discriminate.
          exfalso. eapply in_sends_not_open; [eapply body_effects_sends; eauto| eauto].
      + simpl. intros [H|[H|[H|[H|[]]]]]; try discriminate.
        inversion H; subst. exists fname', t''. auto.
    - simpl. intros [H|[H|[H|[]]]]; try discriminate.
      inversion H; subst. exists fname', t''. auto. }
  destruct pr as [r| |e] eqn:Epr.
  - apply Hmain.
  - apply Hmain.
  - simpl. tauto.
Qed.

Lemma get_stage_open_confined : forall v cfg s p ok,
  In (Open p ok) (fst (get_stage fs v cfg s)) -> confined (httpDir cfg) p.
Proof.
  intros v cfg s p ok. unfold get_stage.
  destruct (negb (is_prefix s_GET s)). { simpl. intros [H|[]]; discriminate. }
  destruct (Zlength (first_line s) >? C20_MAXFNAME_BASE - Zlength (httpDir cfg)). { simpl. intros [H|[]]; discriminate. }
  destruct (take_token (skip_ws (skipn 3 (first_line s)))) as [|c tok] eqn:Et. { simpl. intros [H|[]]; discriminate. }
  destruct (Zlength (httpDir cfg) + Zlength (c :: tok) + 1 >? C20_FULLFNAME_SIZE). { simpl; tauto. }
  destruct (c =? c_slash) eqn:Ec; simpl negb; cbv iota.
  - apply Z.eqb_eq in Ec. subst c. apply serve_open_confined.
  - simpl. intros [H|[H|[]]]; discriminate.
Qed.

Lemma proxy_stage_no_open : forall v cfg s e st p ok,
  proxy_stage v cfg s = PResult e st -> ~ In (Open p ok) e.
Proof.
  intros v cfg s e st p ok. unfold proxy_stage.
  destruct (negb (proxy cfg)); try discriminate.
  destruct (is_prefix s_CONNECT s).
  - destruct (index_of c_colon s).
    + destruct (negb (atoi (skipn (S n) s) =? port cfg)); intro H; inversion H; subst; simpl; intros [X|[X|[]]]; discriminate.
    + destruct (nullchk v); intro H; inversion H; subst; simpl; try tauto. intros [X|[X|[]]]; discriminate.
  - destruct (is_prefix s_GET s); try discriminate.
    destruct (index_of c_slash s).
    + destruct (is_prefix (firstn (Z.to_nat C20_PROXIED_CMP_LEN) s_proxied) (skipn n s) &&
                (Z.of_nat (length s_proxied) >=? C20_PROXIED_CMP_LEN)); try discriminate.
      intro H; inversion H; subst; simpl. intros [X|[X|[]]]; discriminate.
    + destruct (nullchk v); try discriminate. intro H; inversion H; subst; simpl; tauto.
Qed.

Lemma process_request_open_confined : forall v cfg s p ok,
  In (Open p ok) (fst (process_request fs v cfg s)) -> confined (httpDir cfg) p.
Proof.
  intros v cfg s p ok. unfold process_request.
  destruct (proxy_stage v cfg s) as [|e st] eqn:Ep.
  - apply get_stage_open_confined.
  - simpl. intro H. exfalso. eapply proxy_stage_no_open; eauto.
Qed.

(* every file httpProcessInput opens, for every configuration, file system, request bytes,
   segmentation and early close, in both variants *)
Theorem confined_all : forall v cfg segs p ok,
  In (Open p ok) (fst (http_process fs v cfg segs)) -> confined (httpDir cfg) p.
Proof.
  intros v cfg segs p ok. unfold http_process, http_process_n.
  destruct (Zlength (httpDir cfg) >? C20_DIR_MAX). { simpl. intros [H|[]]; discriminate. }
  destruct (Zlength (httpDir cfg) + 1 >? C20_FULLFNAME_SIZE). { simpl; tauto. }
  destruct (read_loop read_fuel [] segs 0) as [[b| | |e] n].
  - simpl fst. apply process_request_open_confined.
  - simpl; tauto.
  - simpl. intros [H|[]]; discriminate.
  - simpl; tauto.
Qed.

End Fs.
