(* C20 - the send side: rfbWriteExact gives up after at most rfbMaxClientWait (+ one slice) of
   waiting without progress, for every schedule of would-block results *)
From Coq Require Import ZArith List Bool Lia ZifyBool.
From LV Require Import Gen.Consts_C20 Httpd.HttpdDefs Httpd.HttpdSafe.
Import ListNotations.
Local Open Scope Z_scope.

(* the counter advances by exactly the time select() was allowed to wait (regenerated constants) *)
Lemma slice_is_select_timeout : C20_WX_SLICE_MS = C20_WX_TV_SEC * 1000 /\ 0 < C20_WX_SLICE_MS.
Proof. vm_compute. split; reflexivity. Qed.

Definition budget (timeout slice : Z) : Z := Z.max timeout 0 + slice.

Lemma wx_tail_bound : forall fuel timeout slice waited total,
  0 < slice -> 0 <= waited -> (waited < timeout \/ waited = 0) -> (0 < fuel)%nat -> (timeout - waited) < Z.of_nat fuel * slice ->
  exists t, wx_tail fuel timeout slice waited total = Some (WGiveUp, t) /\
            total < t /\ t - total <= budget timeout slice - waited /\ timeout - waited <= t - total.
Proof.
  induction fuel as [|k IH]; intros timeout slice waited total Hs Hw Hlt Hpos Hf.
  - exfalso. lia.
  - cbn [wx_tail]. cbv zeta. destruct (waited + slice >=? timeout) eqn:E.
    + exists (total + slice). unfold budget. repeat split; auto; lia.
    + rewrite Nat2Z.inj_succ in Hf.
      assert (Hk : (0 < k)%nat). { destruct k; [exfalso; change (Z.of_nat 0) with 0 in Hf; lia|lia]. }
      destruct (IH timeout slice (waited + slice) (total + slice)) as [t [H1 [H2 [H3 H4]]]]; try lia.
      exists t. unfold budget in *. repeat split; auto; lia.
Qed.

Lemma tail_fuel_ok : forall timeout slice waited, 0 < slice -> 0 <= waited ->
  timeout - waited < Z.of_nat (Z.to_nat (timeout / slice) + 2) * slice.
Proof.
  intros timeout slice waited Hs Hw. rewrite Nat2Z.inj_add. change (Z.of_nat 2) with 2.
  destruct (Z_lt_le_dec timeout 0) as [Hn|Hp].
  - pose proof (Zle_0_nat (Z.to_nat (timeout / slice))). nia.
  - rewrite Z2Nat.id by (apply Z.div_pos; lia).
    pose proof (Z.mul_succ_div_gt timeout slice Hs). nia.
Qed.

(* C20_send_bounded: for every schedule, length and time-out the loop terminates, and the virtual
   time it has waited is at most one budget (rfbMaxClientWait + one slice) per time the peer made the
   socket writable again, plus one *)
Theorem send_bounded : forall sched timeout slice len waited total,
  0 < slice -> 0 <= waited -> (waited < timeout \/ waited = 0) ->
  exists r t, wx_loop sched timeout slice len waited total = Some (r, t) /\
              total <= t /\
              t - total <= Z.of_nat (count_ready sched) * budget timeout slice + budget timeout slice - waited.
Proof.
  induction sched as [|e rest IH]; intros timeout slice len waited total Hs Hw Hlt; cbn [wx_loop].
  - destruct (len <=? 0).
    { exists WOk, total. pose proof (Zle_0_nat (count_ready (@nil wev))). unfold budget. simpl. repeat split; auto; try lia. }
    destruct (wx_tail_bound (Z.to_nat (timeout / slice) + 2) timeout slice waited total Hs Hw Hlt) as [t [H1 [H2 [H3 _]]]].
    { lia. }
    { apply tail_fuel_ok; auto. }
    exists WGiveUp, t. simpl. repeat split; auto; try lia.
  - assert (B : 0 < budget timeout slice) by (unfold budget; lia).
    assert (Bw : waited <= budget timeout slice - slice) by (unfold budget; lia).
    destruct (len <=? 0).
    { exists WOk, total. repeat split; auto; try lia; try nia. }
    destruct e; cbn [count_ready].
    + destruct (k <=? 0). { exists WRet0, total. repeat split; auto; try lia; try nia. }
      destruct (IH timeout slice (len - k) waited total Hs Hw Hlt) as [r [t [H1 [H2 H3]]]]. exists r, t. auto.
    + exists WRet0, total. repeat split; auto; try lia; try nia.
    + exists WFail, total. repeat split; auto; try lia; try nia.
    + destruct (IH timeout slice len 0 total Hs ltac:(lia) ltac:(right; reflexivity)) as [r [t [H1 [H2 H3]]]].
      exists r, t. repeat split; auto. rewrite Nat2Z.inj_succ. try nia.
    + cbv zeta. destruct (waited + slice >=? timeout) eqn:E.
      * exists WGiveUp, (total + slice). repeat split; auto; try lia; try nia.
      * destruct (IH timeout slice len (waited + slice) (total + slice) Hs ltac:(lia) ltac:(left; lia)) as [r [t [H1 [H2 H3]]]].
        exists r, t. repeat split; auto; try lia; try nia.
    + exists WFail, total. repeat split; auto; try lia; try nia.
Qed.

(* a peer that stops reading: the call gives up, having waited between the time-out and the time-out
   plus one slice *)
Theorem send_gives_up : forall timeout slice len,
  0 < slice -> 0 < len ->
  exists t, wx_loop [] timeout slice len 0 0 = Some (WGiveUp, t) /\ Z.max timeout 1 <= t + 0 /\ t <= Z.max timeout 0 + slice.
Proof.
  intros timeout slice len Hs Hl. cbn [wx_loop]. replace (len <=? 0) with false by lia.
  destruct (wx_tail_bound (Z.to_nat (timeout / slice) + 2) timeout slice 0 0 Hs ltac:(lia) ltac:(right; reflexivity)) as [t [H1 [H2 [H3 H4]]]].
  { lia. }
  { apply tail_fuel_ok; auto; lia. }
  exists t. unfold budget in H3. repeat split; auto; lia.
Qed.

Example send_nonvacuous :
  wx_loop [] C20_MAX_CLIENT_WAIT C20_WX_SLICE_MS 70000 0 0 = Some (WGiveUp, 20000) /\
  wx_loop [WTimeout; WTimeout; WReady; WWrote 70000] C20_MAX_CLIENT_WAIT C20_WX_SLICE_MS 70000 0 0 = Some (WOk, 10000) /\
  wx_loop [] 12000 C20_WX_SLICE_MS 70000 0 0 = Some (WGiveUp, 15000).
Proof. vm_compute. auto. Qed.

(* ------------------------------------------------------------------ several writes per request
   httpProcessInput sends a response with many rfbWriteExact calls and looks at the result of only some
   of them (httpd.c: the three header writes and, in the .vnc substitution loop, the text before a
   variable and the variable's value are unchecked; the literal "$" and the rest of the chunk are
   checked).  For a client that has stopped reading every call waits until it gives up. *)
Definition literal_dollar (txt : str) (used : nat) : bool := list_eqb txt s_dollar && (Nat.leb used 2).

(* which of the writes of one chunk of a .vnc file have their result checked (true) *)
Fixpoint subst_checks (fuel : nat) (cfg : config) (params : str) (rest : str) : list bool :=
  match fuel with
  | O => []
  | S k =>
      match index_of c_dollar (cstr rest) with
      | None => [true]
      | Some i =>
          let r := skipn i rest in
          match subst_at cfg params r with
          | None => []
          | Some (txt, used) => false :: literal_dollar txt used :: subst_checks k cfg params (skipn used r)
          end
      end
  end.

(* number of blocked rfbWriteExact calls before httpd stops writing, the peer being dead from the first
   of them on.  [stop_at_first] = true: the tree since 394d4bb (httpWrite: nothing more is written after a failure); false: the
   flow before it (regression variant) *)
Fixpoint blocked_writes (stop_at_first : bool) (checks : list bool) : nat :=
  match checks with
  | [] => O
  | c :: r => if stop_at_first || c then 1%nat else S (blocked_writes stop_at_first r)
  end.

(* the tree: one give-up per request, whatever the file looks like *)
Theorem vnc_stall_fixed : forall checks, (blocked_writes true checks <= 1)%nat.
Proof. destruct checks; simpl; lia. Qed.

(* before 394d4bb: text, "$HEIGHT", text, "$WIDTH", rest - a dead client is waited for five times (four unchecked writes and the checked last one) *)
Lemma vnc_stall_w :
  blocked_writes false (subst_checks 100 (cfg_w false) [] [120; 36; 72; 69; 73; 71; 72; 84; 120; 36; 87; 73; 68; 84; 72; 120]) = 5%nat.
Proof. vm_compute. reflexivity. Qed.

(* ------------------------------------------------------------------ a deadline per response (notes/fix_C20_4.diff)
   httpWrite with the proposed repair of F20b: the write loop of rfbWriteExact plus a deadline for the whole response,
   HTTP_RESPONSE_WAIT_FACTOR * rfbMaxClientWait after its start.  [total] = time since the start of the response (it is
   carried from one write of the response to the next), [waited] = consecutive time without progress as before.  Here a
   select() that reports the socket writable costs time too ([DReady dt]: after dt ms). *)
Inductive dev :=
| DWrote (k : Z) | DZero | DErr
| DReady (dt : Z)    (* EAGAIN, then select() reports the socket writable after dt ms *)
| DTimeout           (* EAGAIN, then select() times out *)
| DSelErr.

Definition dl_left (slice deadline total : Z) : Z := Z.min slice (deadline - total).

Fixpoint wxd_tail (fuel : nat) (timeout slice deadline waited total : Z) : option (wres * Z) :=
  match fuel with
  | O => None
  | S k =>
      let left := dl_left slice deadline total in
      if left <=? 0 then Some (WGiveUp, total) else
      let w := waited + left in
      let t := total + left in
      if w >=? timeout then Some (WGiveUp, t) else wxd_tail k timeout slice deadline w t
  end.

Fixpoint wxd_loop (sched : list dev) (timeout slice deadline len waited total : Z) : option (wres * Z) :=
  if len <=? 0 then Some (WOk, total) else
  match sched with
  | [] => wxd_tail (Z.to_nat (deadline / slice) + 2) timeout slice deadline waited total
  | DWrote k :: r => if k <=? 0 then Some (WRet0, total) else wxd_loop r timeout slice deadline (len - k) waited total
  | DZero :: _ => Some (WRet0, total)
  | DErr :: _ => Some (WFail, total)
  | DReady dt :: r =>
      let left := dl_left slice deadline total in
      if left <=? 0 then Some (WGiveUp, total) else
      wxd_loop r timeout slice deadline len 0 (total + Z.max 0 (Z.min dt left))
  | DTimeout :: r =>
      let left := dl_left slice deadline total in
      if left <=? 0 then Some (WGiveUp, total) else
      let w := waited + left in
      let t := total + left in
      if w >=? timeout then Some (WGiveUp, t) else wxd_loop r timeout slice deadline len w t
  | DSelErr :: _ =>
      if dl_left slice deadline total <=? 0 then Some (WGiveUp, total) else Some (WFail, total)
  end.

Lemma wxd_tail_bound : forall fuel timeout slice deadline waited total,
  0 < slice -> Z.max 0 (deadline - total) + slice <= Z.of_nat fuel * slice ->
  exists t, wxd_tail fuel timeout slice deadline waited total = Some (WGiveUp, t) /\ total <= t <= Z.max total deadline.
Proof.
  induction fuel as [|k IH]; intros timeout slice deadline waited total Hs Hf.
  - exfalso. change (Z.of_nat 0) with 0 in Hf. lia.
  - cbn [wxd_tail]. cbv zeta. unfold dl_left.
    destruct (Z.min slice (deadline - total) <=? 0) eqn:E0. { exists total. split; auto. lia. }
    destruct (waited + Z.min slice (deadline - total) >=? timeout). { eexists. split; eauto. lia. }
    rewrite Nat2Z.inj_succ, Z.mul_succ_l in Hf.
    assert (Hk : slice <= Z.of_nat k * slice).
    { destruct k as [|k']; [exfalso; change (Z.of_nat 0) with 0 in Hf; lia|].
      rewrite Nat2Z.inj_succ, Z.mul_succ_l. pose proof (Zle_0_nat k'). nia. }
    destruct (IH timeout slice deadline (waited + Z.min slice (deadline - total)) (total + Z.min slice (deadline - total)) Hs)
      as [t [H1 H2]]; [lia|].
    exists t. split; auto. lia.
Qed.

Lemma wxd_fuel_ok : forall slice deadline total, 0 < slice -> 0 <= total ->
  Z.max 0 (deadline - total) + slice <= Z.of_nat (Z.to_nat (deadline / slice) + 2) * slice.
Proof.
  intros slice deadline total Hs Ht. rewrite Nat2Z.inj_add. change (Z.of_nat 2) with 2.
  destruct (Z_lt_le_dec deadline 0) as [Hn|Hp].
  - pose proof (Zle_0_nat (Z.to_nat (deadline / slice))). nia.
  - rewrite Z2Nat.id by (apply Z.div_pos; lia).
    pose proof (Z.mul_succ_div_gt deadline slice Hs). nia.
Qed.

(* C20_send_time_bounded: with the repair, for every schedule (every behaviour of the peer, incl. the slow reader of
   F20b), every length, time-out and slice, a write started [total] ms into the response ends not later than the
   deadline (or at once, if the deadline has already passed) *)
Theorem send_time_bounded : forall sched timeout slice deadline len waited total,
  0 < slice -> 0 <= total ->
  exists r t, wxd_loop sched timeout slice deadline len waited total = Some (r, t) /\ total <= t <= Z.max total deadline.
Proof.
  induction sched as [|e rest IH]; intros timeout slice deadline len waited total Hs Ht; cbn [wxd_loop].
  - destruct (len <=? 0). { exists WOk, total. split; auto. lia. }
    destruct (wxd_tail_bound (Z.to_nat (deadline / slice) + 2) timeout slice deadline waited total Hs) as [t [H1 H2]].
    { apply wxd_fuel_ok; auto. }
    exists WGiveUp, t. auto.
  - destruct (len <=? 0). { exists WOk, total. split; auto. lia. }
    destruct e; cbv zeta; unfold dl_left.
    + destruct (k <=? 0). { exists WRet0, total. split; auto. lia. }
      apply IH; auto.
    + exists WRet0, total. split; auto. lia.
    + exists WFail, total. split; auto. lia.
    + destruct (Z.min slice (deadline - total) <=? 0) eqn:E0. { exists WGiveUp, total. split; auto. lia. }
      destruct (IH timeout slice deadline len 0 (total + Z.max 0 (Z.min dt (Z.min slice (deadline - total)))) Hs) as [r [t [H1 H2]]]; [lia|].
      exists r, t. split; auto. lia.
    + destruct (Z.min slice (deadline - total) <=? 0) eqn:E0. { exists WGiveUp, total. split; auto. lia. }
      destruct (waited + Z.min slice (deadline - total) >=? timeout). { eexists; eexists. split; eauto. lia. }
      destruct (IH timeout slice deadline len (waited + Z.min slice (deadline - total)) (total + Z.min slice (deadline - total)) Hs) as [r [t [H1 H2]]]; [lia|].
      exists r, t. split; auto. lia.
    + destruct (Z.min slice (deadline - total) <=? 0); eexists; eexists; split; eauto; lia.
Qed.

(* a whole response: its writes one after the other, each continuing at the time the previous one ended; [None] =
   a write failed (nothing more is written: httpWriteFailed) *)
Fixpoint response_time (writes : list (list dev * Z)) (timeout slice deadline total : Z) : Z :=
  match writes with
  | [] => total
  | (sched, len) :: rest =>
      match wxd_loop sched timeout slice deadline len 0 total with
      | Some (WOk, t) => response_time rest timeout slice deadline t
      | Some (_, t) => t
      | None => total
      end
  end.

(* one response holds rfbHttpCheckFds for at most the deadline, however many writes it consists of and whatever the
   peer does *)
Theorem response_time_bounded : forall writes timeout slice deadline total,
  0 < slice -> 0 <= total -> total <= response_time writes timeout slice deadline total <= Z.max total deadline.
Proof.
  induction writes as [|[sched len] rest IH]; intros timeout slice deadline total Hs Ht; cbn [response_time]; [lia|].
  destruct (send_time_bounded sched timeout slice deadline len 0 total Hs Ht) as [r [t [H1 H2]]]. rewrite H1.
  destruct r; try lia. specialize (IH timeout slice deadline t Hs ltac:(lia)). lia.
Qed.

(* the slow reader of F20b under the repair: one byte per slice, 70000 bytes, rfbMaxClientWait 20 s: given up at 60 s *)
Fixpoint ddrip (n : nat) : list dev :=
  match n with O => [] | S k => DTimeout :: DReady 0 :: DWrote 1 :: ddrip k end.
Example slow_reader_fixed_w :
  wxd_loop (ddrip 100) 20000 5000 60000 70000 0 0 = Some (WGiveUp, 60000).
Proof. vm_compute. reflexivity. Qed.
