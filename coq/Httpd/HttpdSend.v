(* C20 - the send side: rfbWriteExact gives up after at most rfbMaxClientWait (+ one slice) of
   waiting without progress, for every schedule of would-block results *)
From Coq Require Import ZArith List Bool Lia ZifyBool.
From LV Require Import Gen.Consts_C20 Httpd.HttpdDefs Httpd.HttpdSafe.
Import ListNotations.
Local Open Scope Z_scope.

(* the counter advances by exactly the time select() was allowed to wait (regenerated constants) *)
Lemma slice_is_select_timeout : C20_WX_SLICE_MS = C20_WX_TV_SEC * 1000 /\ 0 < C20_WX_SLICE_MS.
Proof. vm_compute. split; reflexivity. Qed.

Definition budget (timeout slice : Z) : Z := Z.max timeout 0 + slice.

Lemma wx_tail_bound : forall fuel timeout slice waited total,
  0 < slice -> 0 <= waited -> (waited < timeout \/ waited = 0) -> (0 < fuel)%nat -> (timeout - waited) < Z.of_nat fuel * slice ->
  exists t, wx_tail fuel timeout slice waited total = Some (WGiveUp, t) /\
            total < t /\ t - total <= budget timeout slice - waited /\ timeout - waited <= t - total.
Proof.
  induction fuel as [|k IH]; intros timeout slice waited total Hs Hw Hlt Hpos Hf.
  - exfalso. lia.
  - cbn [wx_tail]. cbv zeta. destruct (waited + slice >=? timeout) eqn:E.
    + exists (total + slice). unfold budget. repeat split; auto; lia.
    + rewrite Nat2Z.inj_succ in Hf.
      assert (Hk : (0 < k)%nat). { destruct k; [exfalso; change (Z.of_nat 0) with 0 in Hf; lia|lia]. }
      destruct (IH timeout slice (waited + slice) (total + slice)) as [t [H1 [H2 [H3 H4]]]]; try lia.
      exists t. unfold budget in *. repeat split; auto; lia.
Qed.

Lemma tail_fuel_ok : forall timeout slice waited, 0 < slice -> 0 <= waited ->
  timeout - waited < Z.of_nat (Z.to_nat (timeout / slice) + 2) * slice.
Proof.
  intros timeout slice waited Hs Hw. rewrite Nat2Z.inj_add. change (Z.of_nat 2) with 2.
  destruct (Z_lt_le_dec timeout 0) as [Hn|Hp].
  - pose proof (Zle_0_nat (Z.to_nat (timeout / slice))). nia.
  - rewrite Z2Nat.id by (apply Z.div_pos; lia).
    pose proof (Z.mul_succ_div_gt timeout slice Hs). nia.
Qed.

(* C20_send_bounded: for every schedule, length and time-out the loop terminates, and the virtual
   time it has waited is at most one budget (rfbMaxClientWait + one slice) per time the peer made the
   socket writable again, plus one *)
Theorem send_bounded : forall sched timeout slice len waited total,
  0 < slice -> 0 <= waited -> (waited < timeout \/ waited = 0) ->
  exists r t, wx_loop sched timeout slice len waited total = Some (r, t) /\
              total <= t /\
              t - total <= Z.of_nat (count_ready sched) * budget timeout slice + budget timeout slice - waited.
Proof.
  induction sched as [|e rest IH]; intros timeout slice len waited total Hs Hw Hlt; cbn [wx_loop].
  - destruct (len <=? 0).
    { exists WOk, total. pose proof (Zle_0_nat (count_ready (@nil wev))). unfold budget. simpl. repeat split; auto; try lia. }
    destruct (wx_tail_bound (Z.to_nat (timeout / slice) + 2) timeout slice waited total Hs Hw Hlt) as [t [H1 [H2 [H3 _]]]].
    { lia. }
    { apply tail_fuel_ok; auto. }
    exists WGiveUp, t. simpl. repeat split; auto; try lia.
  - assert (B : 0 < budget timeout slice) by (unfold budget; lia).
    assert (Bw : waited <= budget timeout slice - slice) by (unfold budget; lia).
    destruct (len <=? 0).
    { exists WOk, total. repeat split; auto; try lia; try nia. }
    destruct e; cbn [count_ready].
    + destruct (k <=? 0). { exists WRet0, total. repeat split; auto; try lia; try nia. }
      destruct (IH timeout slice (len - k) waited total Hs Hw Hlt) as [r [t [H1 [H2 H3]]]]. exists r, t. auto.
    + exists WRet0, total. repeat split; auto; try lia; try nia.
    + exists WFail, total. repeat split; auto; try lia; try nia.
    + destruct (IH timeout slice len 0 total Hs ltac:(lia) ltac:(right; reflexivity)) as [r [t [H1 [H2 H3]]]].
      exists r, t. repeat split; auto. rewrite Nat2Z.inj_succ. try nia.
    + cbv zeta. destruct (waited + slice >=? timeout) eqn:E.
      * exists WGiveUp, (total + slice). repeat split; auto; try lia; try nia.
      * destruct (IH timeout slice len (waited + slice) (total + slice) Hs ltac:(lia) ltac:(left; lia)) as [r [t [H1 [H2 H3]]]].
        exists r, t. repeat split; auto; try lia; try nia.
    + exists WFail, total. repeat split; auto; try lia; try nia.
Qed.

(* a peer that stops reading: the call gives up, having waited between the time-out and the time-out
   plus one slice *)
Theorem send_gives_up : forall timeout slice len,
  0 < slice -> 0 < len ->
  exists t, wx_loop [] timeout slice len 0 0 = Some (WGiveUp, t) /\ Z.max timeout 1 <= t + 0 /\ t <= Z.max timeout 0 + slice.
Proof.
  intros timeout slice len Hs Hl. cbn [wx_loop]. replace (len <=? 0) with false by lia.
  destruct (wx_tail_bound (Z.to_nat (timeout / slice) + 2) timeout slice 0 0 Hs ltac:(lia) ltac:(right; reflexivity)) as [t [H1 [H2 [H3 H4]]]].
  { lia. }
  { apply tail_fuel_ok; auto; lia. }
  exists t. unfold budget in H3. repeat split; auto; lia.
Qed.

Example send_nonvacuous :
  wx_loop [] C20_MAX_CLIENT_WAIT C20_WX_SLICE_MS 70000 0 0 = Some (WGiveUp, 20000) /\
  wx_loop [WTimeout; WTimeout; WReady; WWrote 70000] C20_MAX_CLIENT_WAIT C20_WX_SLICE_MS 70000 0 0 = Some (WOk, 10000) /\
  wx_loop [] 12000 C20_WX_SLICE_MS 70000 0 0 = Some (WGiveUp, 15000).
Proof. vm_compute. auto. Qed.

(* ------------------------------------------------------------------ several writes per request
   httpProcessInput sends a response with many rfbWriteExact calls and looks at the result of only some
   of them (httpd.c: the three header writes and, in the .vnc substitution loop, the text before a
   variable and the variable's value are unchecked; the literal "$" and the rest of the chunk are
   checked).  For a client that has stopped reading every call waits until it gives up. *)
Definition literal_dollar (txt : str) (used : nat) : bool := list_eqb txt s_dollar && (Nat.leb used 2).

(* which of the writes of one chunk of a .vnc file have their result checked (true) *)
Fixpoint subst_checks (fuel : nat) (cfg : config) (params : str) (rest : str) : list bool :=
  match fuel with
  | O => []
  | S k =>
      match index_of c_dollar (cstr rest) with
      | None => [true]
      | Some i =>
          let r := skipn i rest in
          match subst_at cfg params r with
          | None => []
          | Some (txt, used) => false :: literal_dollar txt used :: subst_checks k cfg params (skipn used r)
          end
      end
  end.

(* number of blocked rfbWriteExact calls before httpd stops writing, the peer being dead from the first
   of them on.  [stop_at_first] = true: the tree since 394d4bb (httpWrite: nothing more is written after a failure); false: the
   flow before it (regression variant) *)
Fixpoint blocked_writes (stop_at_first : bool) (checks : list bool) : nat :=
  match checks with
  | [] => O
  | c :: r => if stop_at_first || c then 1%nat else S (blocked_writes stop_at_first r)
  end.

(* the tree: one give-up per request, whatever the file looks like *)
Theorem vnc_stall_fixed : forall checks, (blocked_writes true checks <= 1)%nat.
Proof. destruct checks; simpl; lia. Qed.

(* before 394d4bb: text, "$HEIGHT", text, "$WIDTH", rest - a dead client is waited for five times (four unchecked writes and the checked last one) *)
Lemma vnc_stall_w :
  blocked_writes false (subst_checks 100 (cfg_w false) [] [120; 36; 72; 69; 73; 71; 72; 84; 120; 36; 87; 73; 68; 84; 72; 120]) = 5%nat.
Proof. vm_compute. reflexivity. Qed.
