(* C20 - what is sent after a successful fopen: for files that are not subject to substitution the
   answer is exactly  OK header ++ content type ++ blank line ++ the bytes of the opened file *)
From Coq Require Import ZArith List Bool Lia.
From LV Require Import Gen.Consts_C20 Httpd.HttpdDefs Httpd.HttpdProofs.
Import ListNotations.
Local Open Scope Z_scope.
Local Opaque chunk_len read_fuel.

Definition sent_bytes (effs : list effect) : str :=
  concat (map (fun e => match e with Send b => b | _ => [] end) effs).

Lemma sent_bytes_app : forall a b, sent_bytes (a ++ b) = sent_bytes a ++ sent_bytes b.
Proof. intros. unfold sent_bytes. rewrite map_app, concat_app. reflexivity. Qed.

Lemma chunks_concat : forall fuel n l, (0 < n)%nat -> (length l < fuel)%nat -> concat (chunks fuel n l) = l.
Proof.
  induction fuel as [|k IH]; intros n l Hn Hl; [exfalso; lia|].
  cbn [chunks]. destruct l as [|x t]; [reflexivity|].
  cbn [concat]. rewrite IH; auto.
  - apply firstn_skipn.
  - rewrite skipn_length. cbn [length] in *. lia.
Qed.

Lemma body_plain : forall cfg params cs e,
  body_effects cfg params false cs = Some e -> sent_bytes e = concat cs.
Proof.
  induction cs as [|c rest IH]; cbn [body_effects]; intros e H.
  - inversion H. reflexivity.
  - destruct (body_effects cfg params false rest) as [e'|]; try discriminate.
    inversion H; subst. cbn [map app]. unfold sent_bytes in *. cbn [map concat]. rewrite (IH _ eq_refl). reflexivity.
Qed.

Lemma chunk_len_pos : (0 < chunk_len)%nat.
Proof. Local Transparent chunk_len. unfold chunk_len, C20_BUF_SIZE, C20_FREAD_SLACK. lia. Qed.
Local Opaque chunk_len.

Section Fs.
Variable fs : str -> option str.

Lemma serve_body : forall v cfg tok p,
  In (Open p true) (fst (serve fs v cfg tok)) -> snd (serve fs v cfg tok) = Done ->
  exists fname content,
    p = httpDir cfg ++ fname /\ fs p = Some content /\
    (ends_with_vnc fname = false ->
     sent_bytes (fst (serve fs v cfg tok)) = r_ok cfg ++ content_type fname ++ s_crlf ++ content).
Proof.
  intros v cfg tok p. unfold serve.
  destruct (split_query tok) as [fname q].
  set (pr := match q with None => POk [] | Some qs => parse_params v qs C20_PARAMS_MAX end).
  assert (Hmain : forall params,
    let r := (if Zlength params + 1 >? C20_PARAMS_SIZE then ([], Crash (Overflow 5)) else
      if strstr s_dotdot fname then ([Send (r_notfound cfg); Close], Done) else
      let fname' := if list_eqb fname s_slash then s_index else fname in
      if Zlength (httpDir cfg) + Zlength fname' + 1 >? C20_FULLFNAME_SIZE then ([], Crash (Overflow 3)) else
      let subst := ends_with_vnc fname' in
      let path := httpDir cfg ++ fname' in
      match fs path with
      | None => ([Open path false; Send (r_notfound cfg); Close], Done)
      | Some content =>
          if term_overflows subst content
          then ([Open path true; Send (r_ok cfg); Send (content_type fname'); Send s_crlf], Crash (Overflow 8)) else
          match body_effects cfg params subst (chunks (S (length content)) chunk_len content) with
          | None => ([Open path true; Send (r_ok cfg); Send (content_type fname'); Send s_crlf], Crash (Overflow 6))
          | Some body =>
              ([Open path true; Send (r_ok cfg); Send (content_type fname'); Send s_crlf] ++ body ++ [Close], Done)
          end
      end) in
    In (Open p true) (fst r) -> snd r = Done ->
    exists fname0 content, p = httpDir cfg ++ fname0 /\ fs p = Some content /\
      (ends_with_vnc fname0 = false -> sent_bytes (fst r) = r_ok cfg ++ content_type fname0 ++ s_crlf ++ content)).
  { intros params. cbv zeta.
    destruct (Zlength params + 1 >? C20_PARAMS_SIZE); [simpl; tauto|].
    destruct (strstr s_dotdot fname). { simpl. intros [H|[H|[]]]; discriminate. }
    set (fname' := if list_eqb fname s_slash then s_index else fname).
    destruct (Zlength (httpDir cfg) + Zlength fname' + 1 >? C20_FULLFNAME_SIZE); [simpl; tauto|].
    destruct (fs (httpDir cfg ++ fname')) as [content|] eqn:Efs.
    2:{ simpl. intros [H|[H|[H|[]]]]; discriminate. }
    rewrite term_fits; destruct (body_effects cfg params (ends_with_vnc fname') (chunks (S (length content)) chunk_len content)) as [body|] eqn:Eb.
    2:{ simpl. intros _ H; discriminate. }
    simpl fst. simpl snd. intros Hin _.
    assert (Hp : p = httpDir cfg ++ fname').
    { destruct Hin as [H|[H|[H|[H|H]]]]; try discriminate.
      - inversion H; reflexivity.
      - exfalso. apply in_app_or in H. destruct H as [H|[H|[]]]; try discriminate.
        eapply in_sends_not_open; [eapply body_effects_sends; eauto|eauto]. }
    exists fname', content. subst p. repeat split; auto.
    intros Hv. rewrite Hv in Eb.
    assert (Hs : forall pre, sent_bytes (Open (httpDir cfg ++ fname') true :: Send (r_ok cfg) :: Send (content_type fname') :: Send s_crlf :: pre)
                 = r_ok cfg ++ content_type fname' ++ s_crlf ++ sent_bytes pre).
    { intros pre. unfold sent_bytes. cbn [map concat app]. reflexivity. }
    cbn [app]. rewrite Hs. rewrite sent_bytes_app. rewrite (body_plain _ _ _ _ Eb).
    rewrite chunks_concat; [|apply chunk_len_pos|lia].
    unfold sent_bytes. cbn [map concat]. rewrite !app_nil_r. reflexivity. }
  destruct pr as [r| |e] eqn:Epr; try apply Hmain.
  simpl. tauto.
Qed.

(* a 200 answer is the file that was opened below httpDir: for every request, segmentation,
   configuration and file system *)
Theorem served_is_file : forall v cfg segs p,
  In (Open p true) (fst (http_process fs v cfg segs)) -> snd (http_process fs v cfg segs) = Done ->
  exists fname content,
    p = httpDir cfg ++ fname /\ fs p = Some content /\
    (ends_with_vnc fname = false ->
     sent_bytes (fst (http_process fs v cfg segs)) = r_ok cfg ++ content_type fname ++ s_crlf ++ content).
Proof.
  intros v cfg segs p. unfold http_process, http_process_n.
  destruct (Zlength (httpDir cfg) >? C20_DIR_MAX). { simpl. intros [H|[]]; discriminate. }
  destruct (Zlength (httpDir cfg) + 1 >? C20_FULLFNAME_SIZE). { simpl; tauto. }
  destruct (read_loop read_fuel [] segs 0) as [[b| | |e] n]; simpl fst; simpl snd; try (simpl; tauto).
  2:{ simpl. intros [H|[]]; discriminate. }
  unfold process_request. destruct (proxy_stage v cfg (cstr b)) as [|e st] eqn:Ep.
  2:{ simpl. intro H. exfalso. eapply proxy_stage_no_open; eauto. }
  unfold get_stage.
  destruct (negb (is_prefix s_GET (cstr b))). { simpl. intros [H|[]]; discriminate. }
  destruct (Zlength (first_line (cstr b)) >? C20_MAXFNAME_BASE - Zlength (httpDir cfg)). { simpl. intros [H|[]]; discriminate. }
  destruct (take_token (skip_ws (skipn 3 (first_line (cstr b))))) as [|c tok]. { simpl. intros [H|[]]; discriminate. }
  destruct (Zlength (httpDir cfg) + Zlength (c :: tok) + 1 >? C20_FULLFNAME_SIZE). { simpl; tauto. }
  destruct (negb (c =? c_slash)). { simpl. intros [H|[H|[]]]; discriminate. }
  apply serve_body.
Qed.

End Fs.
