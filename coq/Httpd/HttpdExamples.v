(* C20 - non-vacuity examples for the hypotheses of the property theorems and refutation witnesses *)
From Coq Require Import ZArith List Bool Lia.
From LV Require Import Gen.Consts_C20 Httpd.HttpdDefs Httpd.HttpdProofs Httpd.HttpdGate Httpd.HttpdSafe.
Import ListNotations.
Local Open Scope Z_scope.

(* "GET / HTTP/1.0\r\n\r\n" *)
Definition req_root : str := [71; 69; 84; 32; 47; 32; 72; 84; 84; 80; 47; 49; 46; 48; 13; 10; 13; 10].
(* "POST / HTTP/1.0\r\n\r\n" *)
Definition req_post : str := [80; 79; 83; 84; 32; 47; 32; 72; 84; 84; 80; 47; 49; 46; 48; 13; 10; 13; 10].
(* "CONNECT h:5900\r\n\r\n" *)
Definition req_connect_ok : str := [67; 79; 78; 78; 69; 67; 84; 32; 104; 58; 53; 57; 48; 48; 13; 10; 13; 10].

(* C20_confined: a run that does open a file (split over two reads) *)
Example C20_confined_nonvacuous :
  In (Open [47; 119; 47; 105; 110; 100; 101; 120; 46; 118; 110; 99] true)
     (fst (http_process fs_w v_tree (cfg_w false) [Data (firstn 7 req_root); Data (skipn 7 req_root)])).
Proof. vm_compute. left. reflexivity. Qed.

(* C20_only_get_served: a complete request outside the GET grammar exists, and it is answered by close only *)
Example C20_only_get_served_nonvacuous :
  request_of [Data req_post] = Some req_post /\ get_target req_post = None /\
  http_process fs_w v_tree (cfg_w false) [Data req_post] = ([Close], Done).
Proof. vm_compute. auto. Qed.

(* ... while a GET inside the grammar is served *)
Example C20_get_grammar_nonvacuous : get_target req_root = Some [47].
Proof. vm_compute. reflexivity. Qed.

(* C20_proxy_gated: the same CONNECT is honoured when enabled and refused when disabled *)
Example C20_proxy_gated_nonvacuous :
  In NewRfbClient (fst (http_process fs_w v_tree (cfg_w true) [Data req_connect_ok])) /\
  http_process fs_w v_tree (cfg_w false) [Data req_connect_ok] = ([Close], Done).
Proof. vm_compute. split; auto. Qed.

(* C20_buffers_safe_*: the configuration hypothesis is satisfiable; the excluding hypotheses of the
   partial theorem hold on ordinary requests with parameters *)
Example C20_buffers_safe_nonvacuous :
  display_fits (cfg_w true) /\
  snd (http_process fs_w v_tree (cfg_w true) [Data req_param]) = Done /\
  fst (http_process fs_w v_tree (cfg_w true) [Data req_param]) <> [].
Proof. split; [apply display_fits_w|]. vm_compute. split; [reflexivity|discriminate]. Qed.

(* C20_params_alphabet: a parameter string that is accepted *)
Example C20_params_alphabet_nonvacuous :
  parse_params v_tree [97; 61; 98; 43; 99] C20_PARAMS_MAX = POk (format_param [97] [98; 32; 99]).
Proof. vm_compute. reflexivity. Qed.

(* C20_no_stall: a peer that drips one byte per read: the call ends with EAGAIN after n+1 reads *)
Example C20_no_stall_nonvacuous :
  http_process_n fs_w v_tree (cfg_w false) [Data [71]; Data [69]; Data [84]] = (([], Again), 4%nat).
Proof. vm_compute. reflexivity. Qed.

(* a request longer than the buffer without blank line is dropped (close), never overruns *)
Example C20_long_request_closed :
  http_process_n fs_w v_tree (cfg_w false) [Data (repeat 97 40000)] = (([Close], Done), 2%nat).
Proof. vm_compute. reflexivity. Qed.

(* traversal attempt: refused without opening anything *)
Example C20_dotdot_refused :
  http_process fs_w v_tree (cfg_w false) [Data req_dotdot] = ([Send [52; 48; 52]; Close], Done).
Proof. vm_compute. reflexivity. Qed.

(* refutation witnesses of the safety statement for the flow before the fix commits *)
Lemma proxy_safe_refuted : exists fs cfg,
  display_fits cfg /\
  snd (http_process fs v_prefix cfg [Data req_connect]) = Crash NullDeref /\
  snd (http_process fs v_prefix cfg [Data req_get_noslash]) = Crash NullDeref.
Proof.
  exists fs_w, (cfg_w true). split; [exact (display_fits_w true)|].
  split; [exact (f_equal snd proxy_refuted_connect) | exact (f_equal snd proxy_refuted_get)].
Qed.

Lemma params_refuted : exists fs cfg,
  display_fits cfg /\ proxy cfg = false /\
  snd (http_process fs v_prefix cfg [Data req_empty_param]) = Crash UninitRead.
Proof.
  exists fs_w, (cfg_w false). split; [exact (display_fits_w false)|]. split; [reflexivity|].
  exact (f_equal snd params_refuted_w).
Qed.

(* C20_served_is_file: a plain file is served byte for byte ("GET /a\n\n", file /w/a = "hi$") *)
Definition fs_plain (p : str) : option str := if list_eqb p [47; 119; 47; 97] then Some [104; 105; 36] else None.
Example C20_served_is_file_nonvacuous :
  http_process fs_plain v_tree (cfg_w false) [Data [71; 69; 84; 32; 47; 97; 10; 10]] =
  ([Open [47; 119; 47; 97] true; Send [50; 48; 48]; Send []; Send [13; 10]; Send [104; 105; 36]; Close], Done).
Proof. vm_compute. reflexivity. Qed.

(* the former crash requests on the current tree: 400 / close / empty PARAMS *)
Example C20_proxy_safe_nonvacuous :
  http_process fs_w v_tree (cfg_w true) [Data req_connect] = ([Send [52; 48; 48]; Close], Done) /\
  http_process fs_w v_tree (cfg_w true) [Data req_get_noslash] = ([Close], Done) /\
  snd (http_process fs_w v_tree (cfg_w false) [Data req_empty_param]) = Done.
Proof. vm_compute. auto. Qed.
