(* C20 - request accumulation (bounded reads, no overrun), absence of Crash outcomes in the fixed
   variant, relation between the unchanged-tree variant and the fixed variant, witnesses *)
From Coq Require Import ZArith List Bool Lia ZifyBool.
From LV Require Import Gen.Consts_C20 Httpd.HttpdDefs Httpd.HttpdProofs Httpd.HttpdGate.
Import ListNotations.
Local Open Scope Z_scope.
Local Opaque chunk_len read_fuel.

(* ------------------------------------------------------------------ lengths *)
Lemma Zlength_firstn_le : forall n (l : str), Zlength (firstn n l) <= Zlength l.
Proof. intros. rewrite !Zlength_correct, firstn_length. lia. Qed.

Lemma Zlength_firstn_le_n : forall n (l : str), Zlength (firstn n l) <= Z.of_nat n.
Proof. intros. rewrite Zlength_correct, firstn_length. lia. Qed.

Lemma Zlength_skipn_le : forall n (l : str), Zlength (skipn n l) <= Zlength l.
Proof. intros. rewrite !Zlength_correct, skipn_length. lia. Qed.

Lemma skip_ws_len : forall s, Zlength (skip_ws s) <= Zlength s.
Proof.
  induction s; simpl; [lia|]. destruct (isspace a); rewrite ?Zlength_cons in *; lia.
Qed.

Lemma take_token_len : forall s, Zlength (take_token s) <= Zlength s.
Proof.
  induction s; simpl; [lia|]. destruct (isspace a); rewrite ?Zlength_cons, ?Zlength_nil in *; try lia.
  pose proof (Zlength_nonneg s). lia.
Qed.

Lemma index_of_lt : forall c s i, index_of c s = Some i -> (i < length s)%nat.
Proof.
  induction s as [|x t IH]; simpl; intros i H; try discriminate.
  destruct (x =? c). { inversion H; lia. }
  destruct (index_of c t); inversion H; subst. specialize (IH _ eq_refl). lia.
Qed.

Lemma cstr_len : forall l, (length (cstr l) <= length l)%nat.
Proof. induction l; simpl; auto. destruct (a =? 0); simpl; lia. Qed.

(* ------------------------------------------------------------------ request accumulation *)
Lemma read_loop_inv : forall fuel filled segs reads,
  Zlength filled < C20_BUF_SIZE ->
  Z.of_nat fuel >= C20_BUF_SIZE - Zlength filled + 1 ->
  (forall e, fst (read_loop fuel filled segs reads) <> RL_err e) /\
  Z.of_nat (snd (read_loop fuel filled segs reads)) <= Z.of_nat reads + (C20_BUF_SIZE - Zlength filled) /\
  (forall b, fst (read_loop fuel filled segs reads) = RL_buf b ->
     exists take rest, b = filled ++ take /\ payload segs = take ++ rest /\
                       Zlength b < C20_BUF_SIZE /\ complete (cstr b) = true).
Proof.
  induction fuel as [|k IH]; intros filled segs reads Hlt Hfuel.
  - exfalso. lia.
  - cbn [read_loop]. cbv zeta.
    assert (Hn := Zlength_nonneg filled).
    destruct (Zlength filled >? C20_BUF_SIZE) eqn:E0. { exfalso; lia. }
    assert (Hslack : C20_READ_SLACK = 1) by reflexivity.
    destruct (C20_BUF_SIZE - Zlength filled - C20_READ_SLACK <? 0) eqn:E1. { exfalso; lia. }
    destruct (C20_BUF_SIZE - Zlength filled - C20_READ_SLACK =? 0) eqn:E2.
    { cbn [fst snd]. repeat split; try discriminate. lia. }
    destruct segs as [|[l| |] rest].
    + cbn [fst snd]. repeat split; try discriminate. lia.
    + set (count := Z.to_nat (C20_BUF_SIZE - Zlength filled - C20_READ_SLACK)).
      destruct (firstn count l) as [|t0 tk] eqn:Etake.
      { cbn [fst snd]. repeat split; try discriminate. lia. }
      assert (Htl : 1 <= Zlength (t0 :: tk) <= C20_BUF_SIZE - Zlength filled - 1).
      { split. { rewrite Zlength_cons. pose proof (Zlength_nonneg tk). lia. }
        rewrite <- Etake. pose proof (Zlength_firstn_le_n count l). unfold count in *. lia. }
      assert (Hf' : Zlength (filled ++ t0 :: tk) = Zlength filled + Zlength (t0 :: tk)) by apply Zlength_app.
      destruct (Zlength (filled ++ t0 :: tk) >=? C20_BUF_SIZE) eqn:E3. { exfalso; lia. }
      destruct (complete (cstr (filled ++ t0 :: tk))) eqn:Ec.
      { cbn [fst snd]. repeat split; try discriminate; try lia.
        intros b Hb. inversion Hb; subst b. exists (t0 :: tk), (skipn count l ++ payload rest).
        repeat split; auto; try lia.
        cbn [payload]. rewrite <- Etake. rewrite app_assoc, firstn_skipn. reflexivity. }
      set (segs' := match skipn count l with [] => rest | _ :: _ => Data (skipn count l) :: rest end).
      assert (Hpay : payload segs' = skipn count l ++ payload rest).
      { unfold segs'. destruct (skipn count l); reflexivity. }
      destruct (IH (filled ++ t0 :: tk) segs' (S reads)) as [I1 [I2 I3]]; try lia.
      repeat split; auto.
      * rewrite Nat2Z.inj_succ in I2. lia.
      * intros b Hb. destruct (I3 _ Hb) as [take [rst [B1 [B2 [B3 B4]]]]].
        exists ((t0 :: tk) ++ take), rst. repeat split; auto.
        { rewrite B1, app_assoc. reflexivity. }
        { cbn [payload]. rewrite <- Etake, <- app_assoc, <- B2, Hpay, app_assoc, firstn_skipn. reflexivity. }
    + cbn [fst snd]. repeat split; try discriminate. lia.
    + cbn [fst snd]. repeat split; try discriminate. lia.
Qed.

Lemma read_fuel_ok : Z.of_nat read_fuel >= C20_BUF_SIZE - Zlength (@nil Z) + 1.
Proof. Local Transparent read_fuel. unfold read_fuel. rewrite Zlength_nil. rewrite Nat2Z.inj_succ, Z2Nat.id; [lia|]. vm_compute; discriminate. Qed.
Local Opaque read_fuel.

Lemma read_loop_top : forall segs,
  (forall e, fst (read_loop read_fuel [] segs 0) <> RL_err e) /\
  Z.of_nat (snd (read_loop read_fuel [] segs 0)) <= C20_BUF_SIZE /\
  (forall b, fst (read_loop read_fuel [] segs 0) = RL_buf b ->
     exists rest, payload segs = b ++ rest /\ Zlength b < C20_BUF_SIZE /\ complete (cstr b) = true).
Proof.
  intros segs. destruct (read_loop_inv read_fuel [] segs 0) as [H1 [H2 H3]].
  - rewrite Zlength_nil. reflexivity.
  - apply read_fuel_ok.
  - repeat split; auto.
    intros b Hb. destruct (H3 _ Hb) as [take [rest [B1 [B2 [B3 B4]]]]]. simpl in B1. subst take. eauto.
Qed.

(* one call performs at most BUF_SIZE read() calls, whatever the peer sends (no stall) *)
Theorem no_stall : forall fs v cfg segs,
  Z.of_nat (snd (http_process_n fs v cfg segs)) <= C20_BUF_SIZE.
Proof.
  intros fs v cfg segs. unfold http_process_n.
  destruct (Zlength (httpDir cfg) >? C20_DIR_MAX). { simpl. unfold C20_BUF_SIZE. lia. }
  destruct (Zlength (httpDir cfg) + 1 >? C20_FULLFNAME_SIZE). { simpl. unfold C20_BUF_SIZE. lia. }
  destruct (read_loop_top segs) as [_ [H _]].
  destruct (read_loop read_fuel [] segs 0) as [[b| | |e] n]; simpl in *; auto.
Qed.

(* the request httpd acts on is a prefix of what the peer sent, contains a blank line and fits buf *)
Theorem request_is_prefix : forall segs s,
  request_of segs = Some s ->
  exists b rest, s = cstr b /\ payload segs = b ++ rest /\ Zlength b < C20_BUF_SIZE /\ complete s = true.
Proof.
  intros segs s. unfold request_of. destruct (read_loop_top segs) as [_ [_ H]].
  destruct (read_loop read_fuel [] segs 0) as [[b| | |e] n]; try discriminate.
  intro E; inversion E; subst. destruct (H b eq_refl) as [rest [H1 [H2 H3]]]. exists b, rest. auto.
Qed.

(* ------------------------------------------------------------------ parameters never overflow *)
Lemma format_param_len : forall n v, Zlength (format_param n v) = 25 + Zlength n + Zlength v.
Proof.
  intros. unfold format_param. rewrite !Zlength_app.
  change (Zlength s_param1) with 13. change (Zlength s_param2) with 9. change (Zlength s_param3) with 3. lia.
Qed.

Lemma validate_len : forall s s', validate s = Some s' -> Zlength s' = Zlength s.
Proof. intros s s' H. apply validate_alpha in H. destruct H as [_ H]. rewrite !Zlength_correct. lia. Qed.

Lemma parse_pieces_fixed_no_err : forall pieces result maxb e,
  parse_pieces v_tree pieces result maxb <> PErr e.
Proof.
  induction pieces as [|piece rest IH]; intros result maxb e; cbn [parse_pieces]; try discriminate.
  destruct (Zlength piece >=? C20_PARAM_REQ_SIZE) eqn:El; try discriminate.
  destruct piece as [|c0 p1]. { simpl. discriminate. }
  destruct (index_of c_eq p1) as [i|] eqn:Ei; try discriminate.
  destruct (skipn (S i) p1) as [|v0 vt] eqn:Ev; try discriminate.
  destruct (validate (c0 :: firstn i p1)) as [name'|] eqn:En; try discriminate.
  destruct (validate (v0 :: vt)) as [value'|] eqn:Eva; try discriminate.
  assert (Hlen : Zlength (format_param name' value') + 1 <= C20_PARAM_FMT_SIZE).
  { rewrite format_param_len. rewrite (validate_len _ _ En), (validate_len _ _ Eva).
    rewrite <- Ev. apply index_of_lt in Ei.
    rewrite Zlength_cons in *. rewrite !Zlength_correct in *. rewrite firstn_length, skipn_length.
    unfold C20_PARAM_REQ_SIZE, C20_PARAM_FMT_SIZE in *. lia. }
  destruct (Zlength (format_param name' value') + 1 >? C20_PARAM_FMT_SIZE) eqn:Ef. { exfalso; lia. }
  destruct (Zlength result + Zlength (format_param name' value') + 1 >? maxb); try discriminate.
  apply IH.
Qed.

(* ------------------------------------------------------------------ substitution never fails *)
Definition display_fits (cfg : config) : Prop :=
  Zlength (host cfg) + Zlength (z_dec (port cfg - 5900)) + 2 <= C20_STR_SIZE.

Lemma subst_at_some : forall cfg params r, display_fits cfg ->
  exists txt used, subst_at cfg params r = Some (txt, used) /\ (1 <= used)%nat.
Proof.
  intros cfg params r Hd. unfold subst_at.
  repeat match goal with
  | |- context [if is_prefix ?p r then _ else _] => destruct (is_prefix p r); [try (eexists; eexists; split; [reflexivity|lia])|]
  end.
  - unfold display_fits in Hd.
    destruct (Zlength (host cfg ++ [c_colon] ++ z_dec (port cfg - 5900)) + 1 >? C20_STR_SIZE) eqn:E.
    + rewrite !Zlength_app in E. change (Zlength [c_colon]) with 1 in E. lia.
    + eexists; eexists; split; [reflexivity|lia].
  - eexists; eexists; split; [reflexivity|lia].
Qed.

Lemma subst_loop_some : forall fuel cfg params rest, display_fits cfg ->
  (length rest < fuel)%nat -> exists ws, subst_loop fuel cfg params rest = Some ws.
Proof.
  induction fuel as [|k IH]; intros cfg params rest Hd Hf; [lia|].
  cbn [subst_loop].
  destruct (index_of c_dollar (cstr rest)) as [i|] eqn:Ei; [|eauto].
  destruct (subst_at_some cfg params (skipn i rest) Hd) as [txt [used [Hs Hu]]]. rewrite Hs.
  apply index_of_lt in Ei. pose proof (cstr_len rest).
  destruct (IH cfg params (skipn used (skipn i rest)) Hd) as [ws Hws].
  - rewrite !skipn_length. lia.
  - rewrite Hws. eauto.
Qed.

Lemma body_effects_some : forall cfg params subst cs, display_fits cfg ->
  exists e, body_effects cfg params subst cs = Some e.
Proof.
  induction cs as [|c rest IH]; intros Hd; cbn [body_effects]; [eauto|].
  destruct (IH Hd) as [e He]. rewrite He.
  destruct subst.
  - destruct (subst_loop_some (S (length c)) cfg params c Hd) as [ws Hws]; [lia|]. rewrite Hws. eauto.
  - eauto.
Qed.

(* ------------------------------------------------------------------ no Crash in the fixed variant *)
Section Fs.
Variable fs : str -> option str.

Lemma serve_fixed_safe : forall cfg tok e,
  display_fits cfg -> Zlength (httpDir cfg) <= C20_DIR_MAX ->
  Zlength (httpDir cfg) + Zlength tok + 1 <= C20_FULLFNAME_SIZE ->
  snd (serve fs v_tree cfg tok) <> Crash e.
Proof.
  intros cfg tok e Hd Hdir Htok. unfold serve.
  destruct (split_query tok) as [fname q] eqn:Esq.
  assert (Hfn : Zlength fname <= Zlength tok).
  { unfold split_query in Esq. destruct (index_of c_qmark tok); inversion Esq; subst; [apply Zlength_firstn_le|lia]. }
  assert (Hmain : forall params, Zlength params + 1 <= C20_PARAMS_SIZE ->
    snd (if Zlength params + 1 >? C20_PARAMS_SIZE then ([], Crash (Overflow 5)) else
      if strstr s_dotdot fname then ([Send (r_notfound cfg); Close], Done) else
      let fname' := if list_eqb fname s_slash then s_index else fname in
      if Zlength (httpDir cfg) + Zlength fname' + 1 >? C20_FULLFNAME_SIZE then ([], Crash (Overflow 3)) else
      let subst := ends_with_vnc fname' in
      let path := httpDir cfg ++ fname' in
      match fs path with
      | None => ([Open path false; Send (r_notfound cfg); Close], Done)
      | Some content =>
          if term_overflows subst content
          then ([Open path true; Send (r_ok cfg); Send (content_type fname'); Send s_crlf], Crash (Overflow 8)) else
          match body_effects cfg params subst (chunks (S (length content)) chunk_len content) with
          | None => ([Open path true; Send (r_ok cfg); Send (content_type fname'); Send s_crlf], Crash (Overflow 6))
          | Some body =>
              ([Open path true; Send (r_ok cfg); Send (content_type fname'); Send s_crlf] ++ body ++ [Close], Done)
          end
      end) <> Crash e).
  { intros params Hp.
    destruct (Zlength params + 1 >? C20_PARAMS_SIZE) eqn:E1. { exfalso; lia. }
    destruct (strstr s_dotdot fname). { simpl; discriminate. }
    cbv zeta. set (fname' := if list_eqb fname s_slash then s_index else fname).
    assert (Hf' : Zlength (httpDir cfg) + Zlength fname' + 1 <= C20_FULLFNAME_SIZE).
    { unfold fname'. destruct (list_eqb fname s_slash); [|lia].
      change (Zlength s_index) with 10. unfold C20_DIR_MAX, C20_FULLFNAME_SIZE in *. lia. }
    destruct (Zlength (httpDir cfg) + Zlength fname' + 1 >? C20_FULLFNAME_SIZE) eqn:E2. { exfalso; lia. }
    destruct (fs (httpDir cfg ++ fname')) as [content|]; [|simpl; discriminate].
    rewrite term_fits.
    destruct (body_effects_some cfg params (ends_with_vnc fname') (chunks (S (length content)) chunk_len content) Hd) as [b Hb].
    rewrite Hb. simpl. discriminate. }
  destruct q as [qs|].
  - destruct (parse_params v_tree qs C20_PARAMS_MAX) as [r| |e'] eqn:Ep.
    + apply Hmain. apply params_alphabet in Ep. destruct Ep as [_ [_ [_ H]]].
      unfold C20_PARAMS_MAX, C20_PARAMS_SIZE in *. lia.
    + apply Hmain. rewrite Zlength_nil. unfold C20_PARAMS_SIZE. lia.
    + exfalso. unfold parse_params in Ep. eapply parse_pieces_fixed_no_err; eauto.
  - apply Hmain. rewrite Zlength_nil. unfold C20_PARAMS_SIZE. lia.
Qed.

Lemma get_stage_fixed_safe : forall cfg s e,
  display_fits cfg -> Zlength (httpDir cfg) <= C20_DIR_MAX ->
  snd (get_stage fs v_tree cfg s) <> Crash e.
Proof.
  intros cfg s e Hd Hdir. unfold get_stage.
  destruct (negb (is_prefix s_GET s)). { simpl; discriminate. }
  destruct (Zlength (first_line s) >? C20_MAXFNAME_BASE - Zlength (httpDir cfg)) eqn:El. { simpl; discriminate. }
  destruct (take_token (skip_ws (skipn 3 (first_line s)))) as [|c tok] eqn:Et. { simpl; discriminate. }
  assert (Hlen : Zlength (c :: tok) <= Zlength (first_line s)).
  { rewrite <- Et. eapply Z.le_trans; [apply take_token_len|]. eapply Z.le_trans; [apply skip_ws_len|]. apply Zlength_skipn_le. }
  assert (Hfit : Zlength (httpDir cfg) + Zlength (c :: tok) + 1 <= C20_FULLFNAME_SIZE).
  { unfold C20_MAXFNAME_BASE, C20_FULLFNAME_SIZE in *. lia. }
  destruct (Zlength (httpDir cfg) + Zlength (c :: tok) + 1 >? C20_FULLFNAME_SIZE) eqn:Eo. { exfalso; lia. }
  destruct (negb (c =? c_slash)). { simpl; discriminate. }
  apply serve_fixed_safe; auto.
Qed.

Lemma proxy_stage_fixed_safe : forall cfg s ef st e,
  proxy_stage v_tree cfg s = PResult ef st -> st <> Crash e.
Proof.
  intros cfg s ef st e. unfold proxy_stage.
  destruct (negb (proxy cfg)); try discriminate.
  destruct (is_prefix s_CONNECT s).
  - destruct (index_of c_colon s).
    + destruct (negb (atoi (skipn (S n) s) =? port cfg)); intro H; inversion H; subst; discriminate.
    + simpl. intro H; inversion H; subst; discriminate.
  - destruct (is_prefix s_GET s); try discriminate.
    destruct (index_of c_slash s).
    + destruct (is_prefix (firstn (Z.to_nat C20_PROXIED_CMP_LEN) s_proxied) (skipn n s) &&
                (Z.of_nat (length s_proxied) >=? C20_PROXIED_CMP_LEN)); try discriminate.
      intro H; inversion H; subst; discriminate.
    + simpl. discriminate.
Qed.

(* with the two fixes: for every configuration whose $DISPLAY text fits str[], every file system and
   every input, one call never overruns a buffer, never reads beyond a terminator, never
   dereferences NULL and never runs out of fuel *)
Theorem fixed_never_crashes : forall cfg segs e,
  display_fits cfg -> snd (http_process fs v_tree cfg segs) <> Crash e.
Proof.
  intros cfg segs e Hd. unfold http_process, http_process_n.
  destruct (Zlength (httpDir cfg) >? C20_DIR_MAX) eqn:Edir. { simpl; discriminate. }
  assert (Hdir : Zlength (httpDir cfg) <= C20_DIR_MAX) by lia.
  destruct (Zlength (httpDir cfg) + 1 >? C20_FULLFNAME_SIZE) eqn:E2.
  { unfold C20_DIR_MAX, C20_FULLFNAME_SIZE in *. lia. }
  destruct (read_loop_top segs) as [Hne _].
  destruct (read_loop read_fuel [] segs 0) as [[b| | |e'] n]; simpl fst; simpl snd; try discriminate.
  - unfold process_request. destruct (proxy_stage v_tree cfg (cstr b)) as [|ef st] eqn:Ep.
    + apply get_stage_fixed_safe; auto.
    + simpl. eapply proxy_stage_fixed_safe; eauto.
  - exfalso. apply (Hne e'). reflexivity.
Qed.

(* without any hypothesis on the configuration: the only Crash outcome the tree can have is the
   $DISPLAY text not fitting str[] (excluded by display_fits); in particular never a NULL
   dereference, never a read beyond a terminator, never an overrun of the request buffers *)
Lemma serve_tree_crash : forall cfg tok e,
  Zlength (httpDir cfg) <= C20_DIR_MAX ->
  Zlength (httpDir cfg) + Zlength tok + 1 <= C20_FULLFNAME_SIZE ->
  snd (serve fs v_tree cfg tok) = Crash e -> e = Overflow 6.
Proof.
  intros cfg tok e Hdir Htok. unfold serve.
  destruct (split_query tok) as [fname q] eqn:Esq.
  assert (Hfn : Zlength fname <= Zlength tok).
  { unfold split_query in Esq. destruct (index_of c_qmark tok); inversion Esq; subst; [apply Zlength_firstn_le|lia]. }
  assert (Hmain : forall params, Zlength params + 1 <= C20_PARAMS_SIZE ->
    snd (if Zlength params + 1 >? C20_PARAMS_SIZE then ([], Crash (Overflow 5)) else
      if strstr s_dotdot fname then ([Send (r_notfound cfg); Close], Done) else
      let fname' := if list_eqb fname s_slash then s_index else fname in
      if Zlength (httpDir cfg) + Zlength fname' + 1 >? C20_FULLFNAME_SIZE then ([], Crash (Overflow 3)) else
      let subst := ends_with_vnc fname' in
      let path := httpDir cfg ++ fname' in
      match fs path with
      | None => ([Open path false; Send (r_notfound cfg); Close], Done)
      | Some content =>
          if term_overflows subst content
          then ([Open path true; Send (r_ok cfg); Send (content_type fname'); Send s_crlf], Crash (Overflow 8)) else
          match body_effects cfg params subst (chunks (S (length content)) chunk_len content) with
          | None => ([Open path true; Send (r_ok cfg); Send (content_type fname'); Send s_crlf], Crash (Overflow 6))
          | Some body =>
              ([Open path true; Send (r_ok cfg); Send (content_type fname'); Send s_crlf] ++ body ++ [Close], Done)
          end
      end) = Crash e -> e = Overflow 6).
  { intros params Hp.
    destruct (Zlength params + 1 >? C20_PARAMS_SIZE) eqn:E1. { exfalso; lia. }
    destruct (strstr s_dotdot fname). { simpl; discriminate. }
    cbv zeta. set (fname' := if list_eqb fname s_slash then s_index else fname).
    assert (Hf' : Zlength (httpDir cfg) + Zlength fname' + 1 <= C20_FULLFNAME_SIZE).
    { unfold fname'. destruct (list_eqb fname s_slash); [|lia].
      change (Zlength s_index) with 10. unfold C20_DIR_MAX, C20_FULLFNAME_SIZE in *. lia. }
    destruct (Zlength (httpDir cfg) + Zlength fname' + 1 >? C20_FULLFNAME_SIZE) eqn:E2. { exfalso; lia. }
    destruct (fs (httpDir cfg ++ fname')) as [content|]; [|simpl; discriminate].
    rewrite term_fits; destruct (body_effects cfg params (ends_with_vnc fname') (chunks (S (length content)) chunk_len content)).
    - simpl. discriminate.
    - simpl. intro H; inversion H; reflexivity. }
  destruct q as [qs|].
  - destruct (parse_params v_tree qs C20_PARAMS_MAX) as [r| |e'] eqn:Ep.
    + apply Hmain. apply params_alphabet in Ep. destruct Ep as [_ [_ [_ H]]].
      unfold C20_PARAMS_MAX, C20_PARAMS_SIZE in *. lia.
    + apply Hmain. rewrite Zlength_nil. unfold C20_PARAMS_SIZE. lia.
    + exfalso. unfold parse_params in Ep. eapply parse_pieces_fixed_no_err; eauto.
  - apply Hmain. rewrite Zlength_nil. unfold C20_PARAMS_SIZE. lia.
Qed.

Theorem tree_crash_only_display : forall cfg segs e,
  snd (http_process fs v_tree cfg segs) = Crash e -> e = Overflow 6.
Proof.
  intros cfg segs e. unfold http_process, http_process_n.
  destruct (Zlength (httpDir cfg) >? C20_DIR_MAX) eqn:Edir. { simpl; discriminate. }
  assert (Hdir : Zlength (httpDir cfg) <= C20_DIR_MAX) by lia.
  destruct (Zlength (httpDir cfg) + 1 >? C20_FULLFNAME_SIZE) eqn:E2.
  { exfalso. unfold C20_DIR_MAX, C20_FULLFNAME_SIZE in *. lia. }
  destruct (read_loop_top segs) as [Hne _].
  destruct (read_loop read_fuel [] segs 0) as [[b| | |e'] n]; simpl fst; simpl snd; try discriminate.
  2:{ intros _. exfalso. apply (Hne e'). reflexivity. }
  unfold process_request. destruct (proxy_stage v_tree cfg (cstr b)) as [|ef st] eqn:Ep.
  2:{ simpl. intro H. exfalso. eapply proxy_stage_fixed_safe; eauto. }
  unfold get_stage.
  destruct (negb (is_prefix s_GET (cstr b))). { simpl; discriminate. }
  destruct (Zlength (first_line (cstr b)) >? C20_MAXFNAME_BASE - Zlength (httpDir cfg)) eqn:El. { simpl; discriminate. }
  destruct (take_token (skip_ws (skipn 3 (first_line (cstr b))))) as [|c tok] eqn:Et. { simpl; discriminate. }
  assert (Hlen : Zlength (c :: tok) <= Zlength (first_line (cstr b))).
  { rewrite <- Et. eapply Z.le_trans; [apply take_token_len|]. eapply Z.le_trans; [apply skip_ws_len|]. apply Zlength_skipn_le. }
  assert (Hfit : Zlength (httpDir cfg) + Zlength (c :: tok) + 1 <= C20_FULLFNAME_SIZE).
  { unfold C20_MAXFNAME_BASE, C20_FULLFNAME_SIZE in *. lia. }
  destruct (Zlength (httpDir cfg) + Zlength (c :: tok) + 1 >? C20_FULLFNAME_SIZE) eqn:Eo. { exfalso; lia. }
  destruct (negb (c =? c_slash)). { simpl; discriminate. }
  apply serve_tree_crash; auto.
Qed.

(* proxy requests and parameter strings are safe for every configuration and request *)
Theorem tree_proxy_params_safe : forall cfg segs,
  snd (http_process fs v_tree cfg segs) <> Crash NullDeref /\
  snd (http_process fs v_tree cfg segs) <> Crash UninitRead.
Proof.
  intros cfg segs. split; intro H; apply tree_crash_only_display in H; discriminate.
Qed.

(* ------------------------------------------------------------------ unchanged tree vs fixed variant *)
Lemma parse_pieces_variants : forall pieces result maxb,
  parse_pieces v_prefix pieces result maxb = PErr UninitRead \/
  parse_pieces v_prefix pieces result maxb = parse_pieces v_tree pieces result maxb.
Proof.
  induction pieces as [|piece rest IH]; intros result maxb; cbn [parse_pieces]; auto.
  destruct (Zlength piece >=? C20_PARAM_REQ_SIZE); auto.
  destruct piece as [|c0 p1]. { simpl. auto. }
  destruct (index_of c_eq p1) as [i|]; auto.
  destruct (skipn (S i) p1) as [|v0 vt]; auto.
  destruct (validate (c0 :: firstn i p1)) as [name'|]; auto.
  destruct (validate (v0 :: vt)) as [value'|]; auto.
  destruct (Zlength (format_param name' value') + 1 >? C20_PARAM_FMT_SIZE); auto.
  destruct (Zlength result + Zlength (format_param name' value') + 1 >? maxb); auto.
Qed.

Lemma serve_variants : forall cfg tok,
  serve fs v_prefix cfg tok = ([], Crash UninitRead) \/ serve fs v_prefix cfg tok = serve fs v_tree cfg tok.
Proof.
  intros cfg tok. unfold serve. destruct (split_query tok) as [fname q].
  destruct q as [qs|]; auto.
  unfold parse_params. destruct (parse_pieces_variants (split_amp qs []) [] C20_PARAMS_MAX) as [H|H]; rewrite H; auto.
Qed.

Lemma get_stage_variants : forall cfg s,
  get_stage fs v_prefix cfg s = ([], Crash UninitRead) \/ get_stage fs v_prefix cfg s = get_stage fs v_tree cfg s.
Proof.
  intros cfg s. unfold get_stage.
  destruct (negb (is_prefix s_GET s)); auto.
  destruct (Zlength (first_line s) >? C20_MAXFNAME_BASE - Zlength (httpDir cfg)); auto.
  destruct (take_token (skip_ws (skipn 3 (first_line s)))) as [|c tok]; auto.
  destruct (Zlength (httpDir cfg) + Zlength (c :: tok) + 1 >? C20_FULLFNAME_SIZE); auto.
  destruct (negb (c =? c_slash)); auto. apply serve_variants.
Qed.

Lemma proxy_stage_variants : forall cfg s,
  proxy_stage v_prefix cfg s = PResult [] (Crash NullDeref) \/ proxy_stage v_prefix cfg s = proxy_stage v_tree cfg s.
Proof.
  intros cfg s. unfold proxy_stage.
  destruct (negb (proxy cfg)); auto.
  destruct (is_prefix s_CONNECT s).
  - destruct (index_of c_colon s); auto.
  - destruct (is_prefix s_GET s); auto. destruct (index_of c_slash s); auto.
Qed.

(* the unchanged tree behaves exactly like the fixed variant unless it reaches one of the two
   defect sites (then it has produced no effect yet) *)
Theorem tree_vs_fixed : forall cfg segs,
  http_process fs v_prefix cfg segs = ([], Crash NullDeref) \/
  http_process fs v_prefix cfg segs = ([], Crash UninitRead) \/
  http_process fs v_prefix cfg segs = http_process fs v_tree cfg segs.
Proof.
  intros cfg segs. unfold http_process, http_process_n.
  destruct (Zlength (httpDir cfg) >? C20_DIR_MAX); auto.
  destruct (Zlength (httpDir cfg) + 1 >? C20_FULLFNAME_SIZE); auto.
  destruct (read_loop read_fuel [] segs 0) as [[b| | |e'] n]; simpl fst; auto.
  unfold process_request.
  destruct (proxy_stage_variants cfg (cstr b)) as [H|H]; rewrite H; auto.
  destruct (proxy_stage v_tree cfg (cstr b)); auto.
  destruct (get_stage_variants cfg (cstr b)) as [G|G]; rewrite G; auto.
Qed.

Theorem tree_safe_partial : forall cfg segs e,
  display_fits cfg ->
  snd (http_process fs v_prefix cfg segs) <> Crash NullDeref ->
  snd (http_process fs v_prefix cfg segs) <> Crash UninitRead ->
  snd (http_process fs v_prefix cfg segs) <> Crash e.
Proof.
  intros cfg segs e Hd H1 H2. destruct (tree_vs_fixed cfg segs) as [H|[H|H]].
  - rewrite H in H1. simpl in H1. congruence.
  - rewrite H in H2. simpl in H2. congruence.
  - rewrite H. apply fixed_never_crashes; auto.
Qed.

(* proxying disabled and no '?' in the request: neither defect site is reachable *)
End Fs.

(* ------------------------------------------------------------------ witnesses (replayed on the library) *)
Definition cfg_w (px : bool) : config :=
  {| httpDir := [47; 119]; proxy := px; port := 5900; width := 640; height := 480; desktop := [100]; host := [104];
     user := None; r_notfound := [52; 48; 52]; r_invalid := [52; 48; 48]; r_ok := [50; 48; 48]; r_proxyok := [80] |}.
Definition fs_w (p : str) : option str :=
  if list_eqb p [47; 119; 47; 105; 110; 100; 101; 120; 46; 118; 110; 99] then Some [36; 80; 65; 82; 65; 77; 83] else None.
(* "CONNECT \r\r" *)
Definition req_connect : str := [67; 79; 78; 78; 69; 67; 84; 32; 13; 13].
(* "GET \r\r" *)
Definition req_get_noslash : str := [71; 69; 84; 32; 13; 13].
(* "GET /?\r\r" *)
Definition req_empty_param : str := [71; 69; 84; 32; 47; 63; 13; 13].
(* "GET /../x\n\n" *)
Definition req_dotdot : str := [71; 69; 84; 32; 47; 46; 46; 47; 120; 10; 10].
(* "GET /?a=b\n\n" *)
Definition req_param : str := [71; 69; 84; 32; 47; 63; 97; 61; 98; 10; 10].

Lemma display_fits_w : forall px, display_fits (cfg_w px).
Proof. intros px. unfold display_fits. vm_compute. discriminate. Qed.

Lemma proxy_refuted_connect :
  http_process fs_w v_prefix (cfg_w true) [Data req_connect] = ([], Crash NullDeref).
Proof. vm_compute. reflexivity. Qed.

Lemma proxy_refuted_get :
  http_process fs_w v_prefix (cfg_w true) [Data req_get_noslash] = ([], Crash NullDeref).
Proof. vm_compute. reflexivity. Qed.

Lemma params_refuted_w :
  http_process fs_w v_prefix (cfg_w false) [Data req_empty_param] = ([], Crash UninitRead).
Proof. vm_compute. reflexivity. Qed.

(* ------------------------------------------------------------------ accepted sockets never block *)
Theorem accepted_nonblocking : forall l4 l6 nb s, accept_step l4 l6 nb = Some s -> nonblocking s = true.
Proof. intros l4 l6 nb s. unfold accept_step. destruct (l4 || l6); try discriminate. destruct nb; try discriminate. intro H; inversion H; reflexivity. Qed.

(* C20_no_stall: whichever listener (IPv4 or IPv6) a connection was accepted from, a call of
   httpProcessInput on it returns after at most BUF_SIZE reads, whatever the peer sends or withholds *)
Theorem no_stall_accepted : forall l4 l6 nb s fs v cfg segs,
  accept_step l4 l6 nb = Some s ->
  exists r n, http_call s fs v cfg segs = Returned r n /\ Z.of_nat n <= C20_BUF_SIZE.
Proof.
  intros l4 l6 nb s fs v cfg segs Ha. apply accepted_nonblocking in Ha.
  pose proof (no_stall fs v cfg segs) as Hn. unfold http_call. rewrite Ha.
  destruct (http_process_n fs v cfg segs) as [[e st] n]. simpl in Hn.
  destruct st; eexists; eexists; split; eauto.
Qed.

(* a socket left blocking (what an accept branch without rfbSetNonBlocking would produce) stalls on a
   request that is not complete yet *)
Lemma blocking_socket_stalls :
  http_call {| from_v6 := true; nonblocking := false |} fs_w v_tree (cfg_w false) [Data [71; 69; 84; 32; 47]] = Blocked.
Proof. vm_compute. reflexivity. Qed.
