(* C20 - theorems added after the independent audit (notes/audit_B.md, section C20):
   the .vnc answer tied to http_process, the shape of refused requests, the lexical meaning of "no .."
   in terms of path components, display_fits discharged for every TCP port, and the witness that the
   time one rfbWriteExact may take is NOT bounded by rfbMaxClientWait when the peer keeps reading slowly. *)
From Coq Require Import ZArith List Bool Lia.
From LV Require Import Gen.Consts_C20 Httpd.HttpdDefs Httpd.HttpdProofs Httpd.HttpdGate Httpd.HttpdSafe Httpd.HttpdBody.
Import ListNotations.
Local Open Scope Z_scope.
Local Opaque chunk_len read_fuel.

(* ------------------------------------------------------------------ the .vnc answer *)
(* the file name served for a token: the part before '?', "/" standing for "/index.vnc" *)
Definition served_name (tok : str) : str :=
  let f := fst (split_query tok) in if list_eqb f s_slash then s_index else f.

(* what $PARAMS stands for: the formatted query, empty when there is none or it is refused *)
Definition query_params (v : variant) (tok : str) : str :=
  match snd (split_query tok) with
  | None => []
  | Some qs => match parse_params v qs C20_PARAMS_MAX with POk r => r | _ => [] end
  end.

Lemma sent_bytes_sends : forall ws, sent_bytes (map Send ws) = concat ws.
Proof. induction ws as [|w r IH]; [reflexivity|]. unfold sent_bytes in *. cbn [map concat]. rewrite IH. reflexivity. Qed.

Lemma chunks_nil : forall k n, chunks k n [] = [].
Proof. destruct k; reflexivity. Qed.

Lemma chunks_single : forall content, (length content <= chunk_len)%nat ->
  chunks (S (length content)) chunk_len content = match content with [] => [] | _ => [content] end.
Proof.
  intros content H. cbn [chunks]. destruct content as [|x t]; [reflexivity|].
  rewrite firstn_all2 by lia. rewrite skipn_all2 by lia. rewrite chunks_nil. reflexivity.
Qed.

Section Fs.
Variable fs : str -> option str.

Lemma serve_vnc : forall v cfg tok p,
  In (Open p true) (fst (serve fs v cfg tok)) -> snd (serve fs v cfg tok) = Done ->
  exists content,
    p = httpDir cfg ++ served_name tok /\ fs p = Some content /\
    (ends_with_vnc (served_name tok) = true -> (length content <= chunk_len)%nat ->
     exists text, subst_text cfg (query_params v tok) content = Some text /\
       sent_bytes (fst (serve fs v cfg tok)) = r_ok cfg ++ content_type (served_name tok) ++ s_crlf ++ text).
Proof.
  intros v cfg tok p. unfold serve, served_name, query_params.
  destruct (split_query tok) as [fname q]. cbn [fst snd].
  assert (Hmain : forall params,
    let r := (if Zlength params + 1 >? C20_PARAMS_SIZE then ([], Crash (Overflow 5)) else
      if strstr s_dotdot fname then ([Send (r_notfound cfg); Close], Done) else
      let fname' := if list_eqb fname s_slash then s_index else fname in
      if Zlength (httpDir cfg) + Zlength fname' + 1 >? C20_FULLFNAME_SIZE then ([], Crash (Overflow 3)) else
      let subst := ends_with_vnc fname' in
      let path := httpDir cfg ++ fname' in
      match fs path with
      | None => ([Open path false; Send (r_notfound cfg); Close], Done)
      | Some content =>
          if term_overflows subst content
          then ([Open path true; Send (r_ok cfg); Send (content_type fname'); Send s_crlf], Crash (Overflow 8)) else
          match body_effects cfg params subst (chunks (S (length content)) chunk_len content) with
          | None => ([Open path true; Send (r_ok cfg); Send (content_type fname'); Send s_crlf], Crash (Overflow 6))
          | Some body =>
              ([Open path true; Send (r_ok cfg); Send (content_type fname'); Send s_crlf] ++ body ++ [Close], Done)
          end
      end) in
    In (Open p true) (fst r) -> snd r = Done ->
    exists content, p = httpDir cfg ++ (if list_eqb fname s_slash then s_index else fname) /\ fs p = Some content /\
      (ends_with_vnc (if list_eqb fname s_slash then s_index else fname) = true -> (length content <= chunk_len)%nat ->
       exists text, subst_text cfg params content = Some text /\
         sent_bytes (fst r) = r_ok cfg ++ content_type (if list_eqb fname s_slash then s_index else fname) ++ s_crlf ++ text)).
  { intros params. cbv zeta.
    destruct (Zlength params + 1 >? C20_PARAMS_SIZE); [simpl; tauto|].
    destruct (strstr s_dotdot fname). { simpl. intros [H|[H|[]]]; discriminate. }
    set (fname' := if list_eqb fname s_slash then s_index else fname).
    destruct (Zlength (httpDir cfg) + Zlength fname' + 1 >? C20_FULLFNAME_SIZE); [simpl; tauto|].
    destruct (fs (httpDir cfg ++ fname')) as [content|] eqn:Efs.
    2:{ simpl. intros [H|[H|[H|[]]]]; discriminate. }
    rewrite term_fits.
    destruct (body_effects cfg params (ends_with_vnc fname') (chunks (S (length content)) chunk_len content)) as [body|] eqn:Eb.
    2:{ simpl. intros _ H; discriminate. }
    simpl fst. simpl snd. intros Hin _.
    assert (Hp : p = httpDir cfg ++ fname').
    { destruct Hin as [H|[H|[H|[H|H]]]]; try discriminate.
      - inversion H; reflexivity.
      - exfalso. apply in_app_or in H. destruct H as [H|[H|[]]]; try discriminate.
        eapply in_sends_not_open; [eapply body_effects_sends; eauto|eauto]. }
    exists content. subst p. repeat split; auto.
    intros Hv Hlen. rewrite Hv in Eb. rewrite chunks_single in Eb by exact Hlen.
    assert (Hs : forall pre, sent_bytes (Open (httpDir cfg ++ fname') true :: Send (r_ok cfg) :: Send (content_type fname') :: Send s_crlf :: pre)
                 = r_ok cfg ++ content_type fname' ++ s_crlf ++ sent_bytes pre).
    { intros pre. unfold sent_bytes. cbn [map concat app]. reflexivity. }
    cbn [app]. rewrite Hs. rewrite sent_bytes_app.
    unfold subst_text. destruct content as [|x t].
    - cbn [body_effects] in Eb. inversion Eb; subst body. exists []. split; [reflexivity|].
      unfold sent_bytes. cbn [map concat app]. reflexivity.
    - cbn [body_effects] in Eb.
      destruct (subst_loop (S (length (x :: t))) cfg params (x :: t)) as [ws|]; [|discriminate].
      inversion Eb; subst body. exists (concat ws). split; [reflexivity|].
      rewrite (app_nil_r (map Send ws)), sent_bytes_sends. unfold sent_bytes. cbn [map concat]. rewrite !app_nil_r. reflexivity. }
  destruct q as [qs|].
  - destruct (parse_params v qs C20_PARAMS_MAX) as [r| |e] eqn:Epr; try apply Hmain.
    simpl. tauto.
  - apply Hmain.
Qed.

(* C20_served_vnc: a 200 answer for a name ending in ".vnc" (the default "/" included) whose file fits one
   fread chunk is  header ++ "Content-Type: text/html" ++ blank line ++ subst_text of the file, with $PARAMS
   standing for the formatted query of the same request *)
Theorem served_vnc : forall v cfg segs p,
  In (Open p true) (fst (http_process fs v cfg segs)) -> snd (http_process fs v cfg segs) = Done ->
  exists s tok content,
    request_of segs = Some s /\ get_target s = Some tok /\
    p = httpDir cfg ++ served_name tok /\ fs p = Some content /\
    (ends_with_vnc (served_name tok) = true -> (length content <= chunk_len)%nat ->
     exists text, subst_text cfg (query_params v tok) content = Some text /\
       sent_bytes (fst (http_process fs v cfg segs)) = r_ok cfg ++ content_type (served_name tok) ++ s_crlf ++ text).
Proof.
  intros v cfg segs p. unfold http_process, http_process_n, request_of.
  destruct (Zlength (httpDir cfg) >? C20_DIR_MAX). { simpl. intros [H|[]]; discriminate. }
  destruct (Zlength (httpDir cfg) + 1 >? C20_FULLFNAME_SIZE). { simpl; tauto. }
  destruct (read_loop read_fuel [] segs 0) as [[b| | |e] n]; simpl fst; simpl snd; try (simpl; tauto).
  2:{ simpl. intros [H|[]]; discriminate. }
  unfold process_request. destruct (proxy_stage v cfg (cstr b)) as [|e st] eqn:Ep.
  2:{ simpl. intro H. exfalso. eapply proxy_stage_no_open; eauto. }
  unfold get_stage.
  destruct (is_prefix s_GET (cstr b)) eqn:E1; cbn [negb]. 2:{ simpl. intros [H|[]]; discriminate. }
  destruct (Zlength (first_line (cstr b)) >? C20_MAXFNAME_BASE - Zlength (httpDir cfg)). { simpl. intros [H|[]]; discriminate. }
  destruct (take_token (skip_ws (skipn 3 (first_line (cstr b))))) as [|c tok] eqn:E3. { simpl. intros [H|[]]; discriminate. }
  destruct (Zlength (httpDir cfg) + Zlength (c :: tok) + 1 >? C20_FULLFNAME_SIZE). { simpl; tauto. }
  destruct (c =? c_slash) eqn:E5; cbn [negb]. 2:{ simpl. intros [H|[H|[]]]; discriminate. }
  intros H1 H2. destruct (serve_vnc _ _ _ _ H1 H2) as [content [Hp [Hf Hv]]].
  exists (cstr b), (c :: tok), content. split; [reflexivity|]. split; [unfold get_target; rewrite E1, E3, E5; reflexivity|]. split; [exact Hp|]. split; [exact Hf|exact Hv].
Qed.

(* C20_get_refused: with proxying off, a call that completes without a successful fopen produces one of
   exactly three effect lists: close only; 404 + close; a failed fopen (of a confined path: C20_confined),
   404 + close.  Nothing else reaches the peer - in particular no byte of any file. *)
Lemma serve_refused : forall v cfg tok,
  snd (serve fs v cfg tok) = Done -> (forall p, ~ In (Open p true) (fst (serve fs v cfg tok))) ->
  fst (serve fs v cfg tok) = [Send (r_notfound cfg); Close] \/
  exists p, fs p = None /\ fst (serve fs v cfg tok) = [Open p false; Send (r_notfound cfg); Close].
Proof.
  intros v cfg tok. unfold serve. destruct (split_query tok) as [fname q].
  assert (Hmain : forall params,
    let r := (if Zlength params + 1 >? C20_PARAMS_SIZE then ([], Crash (Overflow 5)) else
      if strstr s_dotdot fname then ([Send (r_notfound cfg); Close], Done) else
      let fname' := if list_eqb fname s_slash then s_index else fname in
      if Zlength (httpDir cfg) + Zlength fname' + 1 >? C20_FULLFNAME_SIZE then ([], Crash (Overflow 3)) else
      let subst := ends_with_vnc fname' in
      let path := httpDir cfg ++ fname' in
      match fs path with
      | None => ([Open path false; Send (r_notfound cfg); Close], Done)
      | Some content =>
          if term_overflows subst content
          then ([Open path true; Send (r_ok cfg); Send (content_type fname'); Send s_crlf], Crash (Overflow 8)) else
          match body_effects cfg params subst (chunks (S (length content)) chunk_len content) with
          | None => ([Open path true; Send (r_ok cfg); Send (content_type fname'); Send s_crlf], Crash (Overflow 6))
          | Some body =>
              ([Open path true; Send (r_ok cfg); Send (content_type fname'); Send s_crlf] ++ body ++ [Close], Done)
          end
      end) in
    snd r = Done -> (forall p, ~ In (Open p true) (fst r)) ->
    fst r = [Send (r_notfound cfg); Close] \/
    exists p, fs p = None /\ fst r = [Open p false; Send (r_notfound cfg); Close]).
  { intros params. cbv zeta.
    destruct (Zlength params + 1 >? C20_PARAMS_SIZE); [simpl; discriminate|].
    destruct (strstr s_dotdot fname). { simpl. auto. }
    set (fname' := if list_eqb fname s_slash then s_index else fname).
    destruct (Zlength (httpDir cfg) + Zlength fname' + 1 >? C20_FULLFNAME_SIZE); [simpl; discriminate|].
    destruct (fs (httpDir cfg ++ fname')) as [content|] eqn:Efs.
    2:{ simpl. intros _ _. right. exists (httpDir cfg ++ fname'). auto. }
    rewrite term_fits.
    destruct (body_effects cfg params (ends_with_vnc fname') (chunks (S (length content)) chunk_len content)) as [body|].
    2:{ simpl. discriminate. }
    simpl fst. intros _ H. exfalso. apply (H (httpDir cfg ++ fname')). left; reflexivity. }
  destruct q as [qs|].
  - destruct (parse_params v qs C20_PARAMS_MAX) as [r| |e] eqn:Epr; try apply Hmain.
    simpl. discriminate.
  - apply Hmain.
Qed.

Theorem get_refused : forall v cfg segs,
  proxy cfg = false -> snd (http_process fs v cfg segs) = Done ->
  (forall p, ~ In (Open p true) (fst (http_process fs v cfg segs))) ->
  fst (http_process fs v cfg segs) = [Close] \/
  fst (http_process fs v cfg segs) = [Send (r_notfound cfg); Close] \/
  exists p, fs p = None /\ fst (http_process fs v cfg segs) = [Open p false; Send (r_notfound cfg); Close].
Proof.
  intros v cfg segs Hpx. unfold http_process, http_process_n.
  destruct (Zlength (httpDir cfg) >? C20_DIR_MAX). { simpl. auto. }
  destruct (Zlength (httpDir cfg) + 1 >? C20_FULLFNAME_SIZE). { simpl; discriminate. }
  destruct (read_loop read_fuel [] segs 0) as [[b| | |e] n]; simpl fst; simpl snd; try (simpl; auto; discriminate).
  unfold process_request, proxy_stage. rewrite Hpx. cbn [negb].
  unfold get_stage.
  destruct (negb (is_prefix s_GET (cstr b))). { simpl. auto. }
  destruct (Zlength (first_line (cstr b)) >? C20_MAXFNAME_BASE - Zlength (httpDir cfg)). { simpl. auto. }
  destruct (take_token (skip_ws (skipn 3 (first_line (cstr b))))) as [|c tok]. { simpl. auto. }
  destruct (Zlength (httpDir cfg) + Zlength (c :: tok) + 1 >? C20_FULLFNAME_SIZE). { simpl; discriminate. }
  destruct (negb (c =? c_slash)). { simpl. auto. }
  intros H1 H2. right. apply serve_refused; auto.
Qed.

End Fs.

(* ------------------------------------------------------------------ "no .." in terms of path components *)
Fixpoint split_at (c : Z) (s cur : str) : list str :=
  match s with
  | [] => [rev cur]
  | x :: t => if x =? c then rev cur :: split_at c t [] else split_at c t (x :: cur)
  end.

Definition components (f : str) : list str := split_at c_slash f [].

Lemma strstr_suffix_false : forall pat a b, strstr pat (a ++ b) = false -> strstr pat b = false.
Proof.
  induction a as [|x a IH]; intros b H; [exact H|].
  apply IH. cbn [app strstr] in H. apply orb_false_iff in H. destruct H as [_ H].
  destruct pat; exact H.
Qed.

Lemma strstr_unfold : forall pat s,
  strstr pat s = is_prefix pat s || match s with [] => false | _ :: t => strstr pat t end.
Proof. intros pat s. destruct s; reflexivity. Qed.

Lemma strstr_head_false : forall pat s, strstr pat (pat ++ s) = false -> False.
Proof. intros pat s H. rewrite strstr_unfold, is_prefix_app in H. discriminate. Qed.

Lemma no_dotdot_split : forall s cur,
  strstr s_dotdot (rev cur ++ s) = false -> ~ In s_dotdot (split_at c_slash s cur).
Proof.
  induction s as [|x t IH]; intros cur H; cbn [split_at].
  - intros [E|[]]. rewrite E in H. eapply strstr_head_false; eauto.
  - destruct (x =? c_slash).
    + intros [E|Hin].
      * rewrite E in H. eapply strstr_head_false; eauto.
      * apply (IH []); auto. cbn [rev app]. apply strstr_suffix_false with (a := rev cur ++ [x]).
        rewrite <- app_assoc. exact H.
    + apply IH. cbn [rev]. rewrite <- app_assoc. exact H.
Qed.

(* a name without the substring ".." has no ".." component *)
Theorem no_dotdot_component : forall f, strstr s_dotdot f = false -> ~ In s_dotdot (components f).
Proof. intros f H. apply no_dotdot_split. exact H. Qed.

(* lexical normalisation: "" and "." are dropped, ".." removes the innermost directory (None: it would
   climb above the start), any other component descends *)
Fixpoint normalise (stack : list str) (comps : list str) : option (list str) :=
  match comps with
  | [] => Some stack
  | c :: r =>
      if list_eqb c [] || list_eqb c [46] then normalise stack r
      else if list_eqb c s_dotdot then match stack with [] => None | _ :: st => normalise st r end
      else normalise (c :: stack) r
  end.

(* without a ".." component the walk never leaves the directory it starts in: the start stack - the
   components of httpDir, innermost first - stays at the bottom of the result *)
Theorem normalise_stays_below : forall comps stack,
  ~ In s_dotdot comps -> exists deeper, normalise stack comps = Some (deeper ++ stack).
Proof.
  induction comps as [|c r IH]; intros stack H; cbn [normalise].
  - exists []. reflexivity.
  - assert (Hr : ~ In s_dotdot r) by (intro; apply H; right; assumption).
    destruct (list_eqb c [] || list_eqb c [46]); [apply IH; exact Hr|].
    destruct (list_eqb c s_dotdot) eqn:E.
    + exfalso. apply H. left. apply list_eqb_eq. exact E.
    + destruct (IH (c :: stack) Hr) as [d Hd]. exists (d ++ [c]). rewrite Hd. rewrite <- app_assoc. reflexivity.
Qed.

(* ------------------------------------------------------------------ display_fits for every TCP port *)
Fixpoint all_from (fuel : nat) (z : Z) (f : Z -> bool) : bool :=
  match fuel with O => true | S k => f z && all_from k (z + 1) f end.

Lemma all_from_spec : forall fuel z f, all_from fuel z f = true ->
  forall x, z <= x < z + Z.of_nat fuel -> f x = true.
Proof.
  induction fuel as [|k IH]; intros z f H x Hx; [exfalso; lia|].
  cbn [all_from] in H. apply andb_true_iff in H. destruct H as [H0 H1].
  destruct (Z.eq_dec x z) as [->|Hne]; [exact H0|].
  apply (IH (z + 1) f H1). lia.
Qed.

Lemma dec_len_ports : all_from (Z.to_nat 65537) (-1) (fun p => Zlength (z_dec (p - 5900)) <=? 5) = true.
Proof. vm_compute. reflexivity. Qed.

(* thisHost is char[255] (C20_THISHOST_SIZE, regenerated from rfb.h), the port a TCP port or -1:
   the $DISPLAY text fits str[] *)
Theorem display_fits_port : forall cfg,
  Zlength (host cfg) < C20_THISHOST_SIZE -> -1 <= port cfg <= 65535 -> display_fits cfg.
Proof.
  intros cfg Hh Hp. unfold display_fits.
  pose proof (all_from_spec _ _ _ dec_len_ports (port cfg)) as H.
  assert (Hin : Zlength (z_dec (port cfg - 5900)) <=? 5 = true) by (apply H; lia).
  apply Z.leb_le in Hin. unfold C20_THISHOST_SIZE, C20_STR_SIZE in *. lia.
Qed.

(* ------------------------------------------------------------------ the send time is not bounded by the time-out *)
(* a peer that lets one select slice pass, then takes one byte, and so on *)
Fixpoint drip (n : nat) : list wev :=
  match n with O => [] | S k => WTimeout :: WReady :: WWrote 1 :: drip k end.

Lemma drip_time : forall timeout slice n total,
  0 < slice -> slice < timeout ->
  wx_loop (drip n) timeout slice (Z.of_nat n) 0 total = Some (WOk, total + Z.of_nat n * slice).
Proof.
  intros timeout slice n. induction n as [|k IH]; intros total Hs Ht.
  - cbn [drip wx_loop Z.of_nat Z.leb Z.compare]. f_equal. f_equal. lia.
  - cbn [drip]. rewrite Nat2Z.inj_succ.
    assert (Hl : Z.succ (Z.of_nat k) <=? 0 = false) by (apply Z.leb_gt; lia).
    cbn [wx_loop]. rewrite Hl.
    assert (Hw : 0 + slice >=? timeout = false) by (rewrite Z.geb_leb; apply Z.leb_gt; lia).
    rewrite Hw. change (1 <=? 0) with false. cbv iota.
    replace (Z.succ (Z.of_nat k) - 1) with (Z.of_nat k) by lia.
    rewrite IH by assumption. f_equal. f_equal. lia.
Qed.

(* the timing clause of the property does not hold for a peer that keeps reading a little: sending n
   bytes can take n select slices, whatever rfbMaxClientWait is (C behaves the same: sockets.c resets
   totalTimeWaited whenever select reports the socket writable; finding F20b) *)
Theorem send_time_unbounded : forall timeout slice n,
  0 < slice -> slice < timeout ->
  exists sched, wx_loop sched timeout slice (Z.of_nat n) 0 0 = Some (WOk, Z.of_nat n * slice).
Proof. intros timeout slice n Hs Ht. exists (drip n). rewrite drip_time by assumption. f_equal. Qed.
