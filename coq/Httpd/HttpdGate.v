(* C20 - proxy gating, only-GET-served, parameter alphabet *)
From Coq Require Import ZArith List Bool Lia.
From LV Require Import Gen.Consts_C20 Httpd.HttpdDefs Httpd.HttpdProofs.
Import ListNotations.
Local Open Scope Z_scope.
Local Opaque chunk_len read_fuel.

(* ------------------------------------------------------------------ effect shapes *)
(* an effect of the plain file-serving path *)
Definition is_file_effect (e : effect) : Prop :=
  e = Close \/ (exists b, e = Send b) \/ (exists p ok, e = Open p ok).

(* an effect that answers a refused request *)
Definition is_error_effect (cfg : config) (e : effect) : Prop :=
  e = Close \/ e = Send (r_notfound cfg) \/ e = Send (r_invalid cfg).

Definition is_proxy_effect (cfg : config) (e : effect) : Prop :=
  e = Send (r_proxyok cfg) \/ e = NewRfbClient.

Lemma sends_file : forall l, Forall is_send l -> Forall is_file_effect l.
Proof. intros l H. eapply Forall_impl; [|exact H]. intros a [b Hb]. right; left; eauto. Qed.

Ltac fe_close := left; reflexivity.
Ltac fe_send := right; left; eexists; reflexivity.
Ltac fe_open := right; right; eexists; eexists; reflexivity.

Section Fs.
Variable fs : str -> option str.

Ltac fe := simpl fst; repeat (apply Forall_cons; [first [fe_close | fe_send | fe_open]|]); try apply Forall_nil.

Lemma serve_file_effects : forall v cfg tok, Forall is_file_effect (fst (serve fs v cfg tok)).
Proof.
  intros v cfg tok. unfold serve.
  destruct (split_query tok) as [fname q].
  assert (Hmain : forall params, Forall is_file_effect
      (fst (if Zlength params + 1 >? C20_PARAMS_SIZE then ([], Crash (Overflow 5)) else
      if strstr s_dotdot fname then ([Send (r_notfound cfg); Close], Done) else
      let fname' := if list_eqb fname s_slash then s_index else fname in
      if Zlength (httpDir cfg) + Zlength fname' + 1 >? C20_FULLFNAME_SIZE then ([], Crash (Overflow 3)) else
      let subst := ends_with_vnc fname' in
      let path := httpDir cfg ++ fname' in
      match fs path with
      | None => ([Open path false; Send (r_notfound cfg); Close], Done)
      | Some content =>
          if term_overflows subst content
          then ([Open path true; Send (r_ok cfg); Send (content_type fname'); Send s_crlf], Crash (Overflow 8)) else
          match body_effects cfg params subst (chunks (S (length content)) chunk_len content) with
          | None => ([Open path true; Send (r_ok cfg); Send (content_type fname'); Send s_crlf], Crash (Overflow 6))
          | Some body =>
              ([Open path true; Send (r_ok cfg); Send (content_type fname'); Send s_crlf] ++ body ++ [Close], Done)
          end
      end))).
  { intros params.
    destruct (Zlength params + 1 >? C20_PARAMS_SIZE); [fe|].
    destruct (strstr s_dotdot fname); [fe|]. cbv zeta.
    set (fname' := if list_eqb fname s_slash then s_index else fname).
    destruct (Zlength (httpDir cfg) + Zlength fname' + 1 >? C20_FULLFNAME_SIZE); [fe|].
    destruct (fs (httpDir cfg ++ fname')) as [content|]; [|fe].
    rewrite term_fits; destruct (body_effects cfg params (ends_with_vnc fname') (chunks (S (length content)) chunk_len content)) as [body|] eqn:Eb; [|fe].
    simpl fst. repeat (apply Forall_cons; [first [fe_close | fe_send | fe_open]|]).
    apply Forall_app; split; [apply sends_file; eapply body_effects_sends; eauto| fe]. }
  destruct (match q with None => POk [] | Some qs => parse_params v qs C20_PARAMS_MAX end) as [r| |e].
  - apply Hmain.
  - apply Hmain.
  - fe.
Qed.

Lemma get_stage_file_effects : forall v cfg s, Forall is_file_effect (fst (get_stage fs v cfg s)).
Proof.
  intros v cfg s. unfold get_stage.
  destruct (negb (is_prefix s_GET s)). { fe. }
  destruct (Zlength (first_line s) >? C20_MAXFNAME_BASE - Zlength (httpDir cfg)). { fe. }
  destruct (take_token (skip_ws (skipn 3 (first_line s)))) as [|c tok]. { fe. }
  destruct (Zlength (httpDir cfg) + Zlength (c :: tok) + 1 >? C20_FULLFNAME_SIZE). { fe. }
  destruct (negb (c =? c_slash)). { fe. }
  apply serve_file_effects.
Qed.

(* a request outside the GET grammar: only an error answer or close *)
Ltac ee := simpl fst; repeat (apply Forall_cons; [first [left; reflexivity | right; left; reflexivity | right; right; reflexivity]|]); try apply Forall_nil.

Lemma get_stage_no_target : forall v cfg s,
  get_target s = None -> Forall (is_error_effect cfg) (fst (get_stage fs v cfg s)).
Proof.
  intros v cfg s. unfold get_target, get_stage.
  destruct (is_prefix s_GET s); cbn [negb].
  2:{ intros _. ee. }
  destruct (Zlength (first_line s) >? C20_MAXFNAME_BASE - Zlength (httpDir cfg)). { intros _; ee. }
  destruct (take_token (skip_ws (skipn 3 (first_line s)))) as [|c tok]. { intros _; ee. }
  destruct (c =? c_slash); try discriminate. intros _.
  destruct (Zlength (httpDir cfg) + Zlength (c :: tok) + 1 >? C20_FULLFNAME_SIZE). { ee. }
  cbn [negb]. ee.
Qed.

Ltac pe := repeat (apply Forall_cons; [first [left; left; reflexivity | left; right; left; reflexivity | left; right; right; reflexivity
                                              | right; left; reflexivity | right; right; reflexivity]|]); try apply Forall_nil.

Lemma proxy_stage_effects : forall v cfg s e st,
  proxy_stage v cfg s = PResult e st ->
  proxy cfg = true /\ Forall (fun x => is_error_effect cfg x \/ is_proxy_effect cfg x) e.
Proof.
  intros v cfg s e st. unfold proxy_stage.
  destruct (proxy cfg); cbn [negb]; try discriminate.
  destruct (is_prefix s_CONNECT s).
  - destruct (index_of c_colon s).
    + destruct (negb (atoi (skipn (S n) s) =? port cfg)); intro H; inversion H; subst; split; auto; pe.
    + destruct (nullchk v); intro H; inversion H; subst; split; auto; pe.
  - destruct (is_prefix s_GET s); try discriminate.
    destruct (index_of c_slash s).
    + destruct (is_prefix (firstn (Z.to_nat C20_PROXIED_CMP_LEN) s_proxied) (skipn n s) &&
                (Z.of_nat (length s_proxied) >=? C20_PROXIED_CMP_LEN)); try discriminate.
      intro H; inversion H; subst; split; auto; pe.
    + destruct (nullchk v); try discriminate. intro H; inversion H; subst; split; auto.
Qed.

(* proxying disabled: the connection is never handed to the RFB server *)
Theorem proxy_gated : forall v cfg segs,
  proxy cfg = false -> ~ In NewRfbClient (fst (http_process fs v cfg segs)).
Proof.
  intros v cfg segs Hp. unfold http_process, http_process_n.
  destruct (Zlength (httpDir cfg) >? C20_DIR_MAX). { simpl. intros [H|[]]; discriminate. }
  destruct (Zlength (httpDir cfg) + 1 >? C20_FULLFNAME_SIZE). { simpl; tauto. }
  destruct (read_loop read_fuel [] segs 0) as [[b| | |e] n]; simpl fst; try (simpl; tauto).
  2:{ simpl. intros [H|[]]; discriminate. }
  unfold process_request. destruct (proxy_stage v cfg (cstr b)) as [|e st] eqn:Ep.
  - intro H. pose proof (get_stage_file_effects v cfg (cstr b)) as F. rewrite Forall_forall in F.
    apply F in H. destruct H as [H|[[x H]|[p [ok H]]]]; discriminate.
  - apply proxy_stage_effects in Ep. destruct Ep as [Ep _]. congruence.
Qed.

(* the two request forms httpd.c hands over to the RFB server:
   "CONNECT " ... ':' <number equal to the RFB port>   (strchr(buf, ':'), atoi(colon + 1) == port), and
   "GET " ... where the text from the first '/' on starts with "/proxied.connection HTTP/1." *)
Definition proxy_request (cfg : config) (s : str) : Prop :=
  (is_prefix s_CONNECT s = true /\
   exists i, index_of c_colon s = Some i /\ atoi (skipn (S i) s) = port cfg) \/
  (is_prefix s_CONNECT s = false /\ is_prefix s_GET s = true /\
   exists i, index_of c_slash s = Some i /\
             is_prefix (firstn (Z.to_nat C20_PROXIED_CMP_LEN) s_proxied) (skipn i s) = true).

(* whenever the connection is handed over, proxying is on and the request has one of these forms *)
Theorem proxy_only_on_request : forall v cfg segs,
  In NewRfbClient (fst (http_process fs v cfg segs)) ->
  proxy cfg = true /\ exists s, request_of segs = Some s /\ proxy_request cfg s.
Proof.
  intros v cfg segs. unfold http_process, http_process_n, request_of.
  destruct (Zlength (httpDir cfg) >? C20_DIR_MAX). { simpl. intros [H|[]]; discriminate. }
  destruct (Zlength (httpDir cfg) + 1 >? C20_FULLFNAME_SIZE). { simpl; tauto. }
  destruct (read_loop read_fuel [] segs 0) as [[b| | |e] n]; simpl fst; try (simpl; tauto).
  2:{ simpl. intros [H|[]]; discriminate. }
  unfold process_request. destruct (proxy_stage v cfg (cstr b)) as [|e st] eqn:Ep.
  - intro H. pose proof (get_stage_file_effects v cfg (cstr b)) as F. rewrite Forall_forall in F.
    apply F in H. destruct H as [H|[[x H]|[p [ok H]]]]; discriminate.
  - cbn [fst]. intros Hin. pose proof (proxy_stage_effects _ _ _ _ _ Ep) as [Hp _]. split; auto.
    exists (cstr b). split; auto. unfold proxy_stage, proxy_request in *. rewrite Hp in Ep. cbn [negb] in Ep.
    destruct (is_prefix s_CONNECT (cstr b)).
    + left. split; auto. destruct (index_of c_colon (cstr b)) as [i|].
      * exists i. split; auto.
        destruct (atoi (skipn (S i) (cstr b)) =? port cfg) eqn:Ea; cbn [negb] in Ep.
        -- apply Z.eqb_eq; exact Ea.
        -- inversion Ep; subst. exfalso. destruct Hin as [H|[H|[]]]; discriminate.
      * exfalso. destruct (nullchk v); inversion Ep; subst; [destruct Hin as [H|[H|[]]]; discriminate|destruct Hin].
    + right. split; auto. destruct (is_prefix s_GET (cstr b)); [|discriminate]. split; auto.
      destruct (index_of c_slash (cstr b)) as [i|].
      * exists i. split; auto.
        destruct (is_prefix (firstn (Z.to_nat C20_PROXIED_CMP_LEN) s_proxied) (skipn i (cstr b))); auto.
        cbn [andb] in Ep. discriminate.
      * destruct (nullchk v); inversion Ep; subst. destruct Hin.
Qed.

(* anything outside the GET grammar (and not a proxy request on a proxy-enabled server) yields only
   an error response or close: no file is opened, no other byte is sent *)
Theorem only_get_served : forall v cfg segs,
  (forall s, request_of segs = Some s -> get_target s = None) ->
  Forall (fun e => is_error_effect cfg e \/ (proxy cfg = true /\ is_proxy_effect cfg e))
         (fst (http_process fs v cfg segs)).
Proof.
  intros v cfg segs. unfold http_process, http_process_n, request_of.
  destruct (Zlength (httpDir cfg) >? C20_DIR_MAX). { intros _. simpl. repeat constructor. }
  destruct (Zlength (httpDir cfg) + 1 >? C20_FULLFNAME_SIZE). { intros _. simpl; constructor. }
  destruct (read_loop read_fuel [] segs 0) as [[b| | |e] n]; simpl fst; try (intros _; simpl; repeat constructor; fail).
  intro H. specialize (H _ eq_refl).
  unfold process_request. destruct (proxy_stage v cfg (cstr b)) as [|e st] eqn:Ep.
  - eapply Forall_impl; [|apply get_stage_no_target; exact H]. intros a Ha. left; exact Ha.
  - apply proxy_stage_effects in Ep. destruct Ep as [Hp F]. simpl fst.
    eapply Forall_impl; [|exact F]. intros a [Ha|Ha]; [left|right]; auto.
Qed.

End Fs.

(* ------------------------------------------------------------------ the GET grammar, declaratively *)
Lemma is_prefix_exists : forall p s, is_prefix p s = true -> exists r, s = p ++ r.
Proof.
  induction p as [|x p IH]; simpl; intros s H.
  - exists s; reflexivity.
  - destruct s as [|y s]; try discriminate. apply andb_true_iff in H. destruct H as [H1 H2].
    apply Z.eqb_eq in H1. subst y. destruct (IH _ H2) as [r Hr]. exists r. subst s. reflexivity.
Qed.

Lemma skip_ws_split : forall s, exists ws, s = ws ++ skip_ws s /\ Forall (fun c => isspace c = true) ws
  /\ (forall c t, skip_ws s = c :: t -> isspace c = false).
Proof.
  induction s as [|x t IH]; simpl.
  - exists []. repeat split; auto. intros; discriminate.
  - destruct (isspace x) eqn:E.
    + destruct IH as [ws [H1 [H2 H3]]]. exists (x :: ws). repeat split; auto.
      * simpl. congruence.
    + exists []. repeat split; auto. intros c t' H. inversion H; subst. auto.
Qed.

Lemma take_token_split : forall s, exists rest, s = take_token s ++ rest
  /\ Forall (fun c => isspace c = false) (take_token s)
  /\ (rest = [] \/ exists c r, rest = c :: r /\ isspace c = true).
Proof.
  induction s as [|x t IH]; simpl.
  - exists []. repeat split; auto.
  - destruct (isspace x) eqn:E.
    + exists (x :: t). repeat split; auto. right. eauto.
    + destruct IH as [rest [H1 [H2 H3]]]. exists rest. repeat split; auto. simpl. congruence.
Qed.

(* get_target s = Some tok: the first line reads  G E T <white space>+ tok <end or white space ...>,
   tok starts with '/' and has no white space *)
Theorem get_target_grammar : forall s tok,
  get_target s = Some tok ->
  exists ws rest t, first_line s = [71; 69; 84] ++ ws ++ tok ++ rest
    /\ ws <> [] /\ Forall (fun c => isspace c = true) ws
    /\ tok = c_slash :: t /\ Forall (fun c => isspace c = false) tok
    /\ (rest = [] \/ exists c r, rest = c :: r /\ isspace c = true).
Proof.
  intros s tok. unfold get_target.
  destruct (is_prefix s_GET s) eqn:Ep; try discriminate.
  apply is_prefix_exists in Ep. destruct Ep as [s' Hs]. subst s. unfold s_GET. cbn [app].
  assert (Hfl : first_line (71 :: 69 :: 84 :: 32 :: s') = 71 :: 69 :: 84 :: 32 :: first_line s') by reflexivity.
  rewrite Hfl. cbn [skipn].
  destruct (skip_ws_split (32 :: first_line s')) as [ws [H1 [H2 H3]]].
  destruct (take_token (skip_ws (32 :: first_line s'))) as [|c t] eqn:Et; try discriminate.
  destruct (c =? c_slash) eqn:Ecs; try discriminate. intro H; inversion H; subst tok. apply Z.eqb_eq in Ecs. subst c.
  destruct (take_token_split (skip_ws (32 :: first_line s'))) as [rest [T1 [T2 T3]]].
  rewrite Et in T1, T2.
  exists ws, rest, t. repeat split; auto.
  - simpl. f_equal. f_equal. f_equal. rewrite H1 at 1. rewrite T1 at 1. reflexivity.
  - intro Hw. subst ws. simpl in H1. simpl skip_ws in *. change (isspace 32) with true in *. cbv iota in *.
    (* skip_ws (32 :: l) = skip_ws l, and 32 :: l = skip_ws l is impossible by length *)
    assert (L : forall l, (length (skip_ws l) <= length l)%nat).
    { induction l; simpl; auto. destruct (isspace a); simpl; lia. }
    pose proof (L (first_line s')) as L1. rewrite <- H1 in L1. simpl in L1. lia.
Qed.

(* ------------------------------------------------------------------ parameter alphabet *)
Definition alpha (c : Z) : Prop := param_char_ok c = true \/ c = 32.

Lemma validate_alpha : forall s s', validate s = Some s' -> Forall alpha s' /\ length s' = length s.
Proof.
  induction s as [|c t IH]; simpl; intros s' H.
  - inversion H. split; auto.
  - destruct (param_char_ok c) eqn:E.
    + destruct (validate t) as [t'|]; try discriminate. inversion H; subst.
      destruct (IH _ eq_refl). split; [constructor; [left; auto|auto]|simpl; lia].
    + destruct (c =? c_plus); try discriminate.
      destruct (validate t) as [t'|]; try discriminate. inversion H; subst.
      destruct (IH _ eq_refl). split; [constructor; [right; auto|auto]|simpl; lia].
Qed.

Definition format_all (ps : list (str * str)) : str :=
  concat (map (fun nv => format_param (fst nv) (snd nv)) ps).

Lemma parse_pieces_alpha : forall v pieces result maxb r ps0,
  result = format_all ps0 ->
  Forall (fun nv => Forall alpha (fst nv) /\ Forall alpha (snd nv)) ps0 ->
  parse_pieces v pieces result maxb = POk r ->
  exists ps, r = format_all ps /\ Forall (fun nv => Forall alpha (fst nv) /\ Forall alpha (snd nv)) ps
             /\ Zlength r + 1 <= Z.max maxb (Zlength result + 1).
Proof.
  induction pieces as [|piece rest IH]; intros result maxb r ps0 Hr Hps; cbn [parse_pieces].
  - intro H; inversion H; subst. exists ps0. repeat split; auto. lia.
  - destruct (Zlength piece >=? C20_PARAM_REQ_SIZE); try discriminate.
    destruct piece as [|c0 p1]. { destruct (paramchk v); discriminate. }
    destruct (index_of c_eq p1) as [i|]; try discriminate.
    destruct (skipn (S i) p1) as [|v0 vt] eqn:Ev; try discriminate.
    destruct (validate (c0 :: firstn i p1)) as [name'|] eqn:En; try discriminate.
    destruct (validate (v0 :: vt)) as [value'|] eqn:Eva; try discriminate.
    destruct (Zlength (format_param name' value') + 1 >? C20_PARAM_FMT_SIZE); try discriminate.
    destruct (Zlength result + Zlength (format_param name' value') + 1 >? maxb) eqn:Emax; try discriminate.
    intro H. apply (IH _ _ _ (ps0 ++ [(name', value')])) in H.
    + destruct H as [ps [H1 [H2 H3]]]. exists ps. repeat split; auto.
      rewrite Zlength_app in H3. lia.
    + subst result. unfold format_all. rewrite map_app, concat_app. simpl. rewrite app_nil_r. reflexivity.
    + apply Forall_app. split; auto. constructor; auto. simpl.
      split; [eapply validate_alpha; eauto|eapply validate_alpha; eauto].
Qed.

(* what $PARAMS can be substituted by: a sequence of <PARAM NAME="n" VALUE="v"> lines whose n and v
   consist of letters, digits, '_', '.', ':', '[', ']' and ' ' only; and it fits params[] *)
Theorem params_alphabet : forall v q maxb r,
  parse_params v q maxb = POk r ->
  exists ps, r = format_all ps /\ Forall (fun nv => Forall alpha (fst nv) /\ Forall alpha (snd nv)) ps
             /\ Zlength r + 1 <= Z.max maxb 1.
Proof.
  intros v q maxb r H. unfold parse_params in H.
  eapply (parse_pieces_alpha v _ [] maxb r []) in H; auto.
Qed.
