(* The iterator machine (iter_next = one sraRgnIteratorNext) produces exactly the specified
   rectangle sequence rgn_iter, for every region whose bands are non-empty (in particular WF ones). *)
From LV Require Import Region.RegionDefs Region.RegionSem Region.RegionProofs0 Region.RegionProofs.
Local Open Scope Z_scope.

Definition mk_rect (y1 y2 : Z) (sp : span unit) : rect := let '(x1, x2, _) := sp in (x1, y1, x2, y2).

Definition rects_of_band (revx : bool) (b : span xspans) : list rect :=
  let '(y1, y2, xs) := b in map (mk_rect y1 y2) (if revx then rev xs else xs).

Lemma rgn_iter_unfold revX revY r :
  rgn_iter revX revY r = flat_map (rects_of_band revX) (if revY then rev r else r).
Proof.
  unfold rgn_iter. apply flat_map_ext. intros [[y1 y2] xs]. unfold rects_of_band.
  apply map_ext. intros [[x1 x2] u]. reflexivity.
Qed.

Definition band_nonempty (b : span xspans) : Prop := snd b <> [].

Fixpoint spans_dir (revx : bool) (bands : region) : nat :=
  match bands with [] => O | b :: t => (length (snd b) + spans_dir revx t)%nat end.

Lemma spans_dir_total revx r : spans_dir revx r = total_spans r.
Proof.
  unfold total_spans. induction r as [|b t IH]; cbn [spans_dir fold_right]; [reflexivity|].
  rewrite IH. reflexivity.
Qed.

Lemma spans_dir_app revx l1 l2 : spans_dir revx (l1 ++ l2) = (spans_dir revx l1 + spans_dir revx l2)%nat.
Proof.
  induction l1 as [|c l1 IH1]; cbn [spans_dir app]; [reflexivity|]. rewrite IH1. apply Nat.add_assoc.
Qed.

Lemma total_spans_rev r : total_spans (rev r) = total_spans r.
Proof.
  rewrite <- !(spans_dir_total false).
  induction r as [|b t IH]; [reflexivity|]. cbn [rev]. rewrite spans_dir_app, IH.
  cbn [spans_dir]. rewrite Nat.add_0_r. apply Nat.add_comm.
Qed.

(* from inside a band: the remaining spans of the band, then all remaining bands *)
Lemma run_cur revx : forall bands, Forall band_nonempty bands ->
  forall xr y1 y2 fuel, (length xr + spans_dir revx bands < fuel)%nat ->
  iter_run fuel (mk_iter revx bands (Some (y1, y2, xr))) =
  Some (map (mk_rect y1 y2) xr ++ flat_map (rects_of_band revx) bands).
Proof.
  induction bands as [|[[by1 by2] bxs] br IHb]; intros Hne.
  - induction xr as [|[[x1 x2] u] xr IHx]; intros y1 y2 fuel Hf.
    + destruct fuel as [|f]; [cbn in Hf; lia|]. reflexivity.
    + destruct fuel as [|f]; [cbn in Hf; lia|]. cbn [iter_run iter_next it_cur it_revx it_bands].
      rewrite IHx by (cbn in Hf |- *; lia). reflexivity.
  - inversion Hne as [|b0 t0 Hb Hrest]; subst.
    induction xr as [|[[x1 x2] u] xr IHx]; intros y1 y2 fuel Hf.
    + destruct fuel as [|f]; [cbn in Hf; lia|].
      cbn [iter_run iter_next it_cur it_revx it_bands iter_enter].
      unfold band_nonempty in Hb. cbn [snd] in Hb.
      assert (Hd : (if revx then rev bxs else bxs) <> []).
      { destruct revx; [|exact Hb]. intros E. apply Hb.
        rewrite <- (rev_involutive bxs), E. reflexivity. }
      destruct (if revx then rev bxs else bxs) as [|[[x1 x2] u] xr2] eqn:Ed; [congruence|].
      rewrite (IHb Hrest xr2 by1 by2 f).
      * cbn [flat_map rects_of_band map app]. rewrite Ed. reflexivity.
      * assert (L : length (if revx then rev bxs else bxs) = length bxs)
          by (destruct revx; [apply rev_length|reflexivity]).
        rewrite Ed in L. cbn in L, Hf |- *. lia.
    + destruct fuel as [|f]; [cbn in Hf; lia|]. cbn [iter_run iter_next it_cur it_revx it_bands].
      rewrite IHx by (cbn in Hf |- *; lia). reflexivity.
Qed.

Lemma run_start revx : forall bands, Forall band_nonempty bands ->
  forall fuel, (spans_dir revx bands < fuel)%nat ->
  iter_run fuel (mk_iter revx bands None) = Some (flat_map (rects_of_band revx) bands).
Proof.
  intros bands Hne fuel Hf.
  destruct fuel as [|f]; [lia|].
  destruct bands as [|[[by1 by2] bxs] br].
  - reflexivity.
  - inversion Hne as [|b0 t0 Hb Hrest]; subst.
    cbn [iter_run iter_next it_cur it_revx it_bands iter_enter].
    unfold band_nonempty in Hb. cbn [snd] in Hb.
    assert (Hd : (if revx then rev bxs else bxs) <> []).
    { destruct revx; [|exact Hb]. intros E. apply Hb.
      rewrite <- (rev_involutive bxs), E. reflexivity. }
    destruct (if revx then rev bxs else bxs) as [|[[x1 x2] u] xr2] eqn:Ed; [congruence|].
    rewrite (run_cur revx br Hrest xr2 by1 by2 f).
    + cbn [flat_map rects_of_band map app]. rewrite Ed. reflexivity.
    + assert (L : length (if revx then rev bxs else bxs) = length bxs)
        by (destruct revx; [apply rev_length|reflexivity]).
      rewrite Ed in L. cbn in L, Hf |- *. lia.
Qed.

Theorem iter_machine_is_spec revX revY r : Forall band_nonempty r ->
  rgn_iter_machine revX revY r = Some (rgn_iter revX revY r).
Proof.
  intros Hne. unfold rgn_iter_machine, iter_init. rewrite rgn_iter_unfold.
  apply run_start.
  - destruct revY; [|exact Hne]. apply Forall_rev. exact Hne.
  - rewrite spans_dir_total. destruct revY; [rewrite total_spans_rev|]; lia.
Qed.

Lemma WF_bands_nonempty r : WF r -> Forall band_nonempty r.
Proof.
  intros [lo W]. revert lo W. induction r as [|[[s e] xs] t IH]; intros lo W; [constructor|].
  cbn in W. destruct W as (_ & _ & [_ Nx] & W'). constructor; [exact Nx|exact (IH e W')].
Qed.

Theorem iter_machine_wf revX revY r : WF r ->
  rgn_iter_machine revX revY r = Some (rgn_iter revX revY r).
Proof. intros W. apply iter_machine_is_spec, WF_bands_nonempty, W. Qed.
