(* Semantics of span lists: sortedness, lookup, and the specifications of the merge helpers.
   Generic in the payload type (used at the x level with unit, at the y level with xspans). *)
From LV Require Import Region.RegionDefs.
From Coq Require Import ZifyBool.
Local Open Scope Z_scope.

Section Sem.
  Variable A : Type.
  Variable P : A -> Prop.                  (* well-formedness of a payload *)
  Variable a_eqb : A -> A -> bool.
  Hypothesis a_eqb_eq : forall a b, a_eqb a b = true -> a = b.

  (* spans strictly increasing, starting at or after lo; touching spans allowed *)
  Fixpoint sorted_from (lo : Z) (l : list (span A)) : Prop :=
    match l with
    | [] => True
    | (s, e, a) :: t => lo <= s /\ s < e /\ P a /\ sorted_from e t
    end.

  (* the zipper prefix: nearest span first, everything ends at or before hi *)
  Fixpoint sorted_down (hi : Z) (p : list (span A)) : Prop :=
    match p with
    | [] => True
    | (s, e, a) :: t => e <= hi /\ s < e /\ P a /\ sorted_down s t
    end.

  Definition WFl (l : list (span A)) : Prop := exists lo, sorted_from lo l.

  Lemma sorted_from_weaken lo lo' l : sorted_from lo l -> lo' <= lo -> sorted_from lo' l.
  Proof. destruct l as [|[[s e] a] t]; cbn; [auto|]. intuition lia. Qed.

  Lemma sorted_down_weaken hi hi' p : sorted_down hi p -> hi <= hi' -> sorted_down hi' p.
  Proof. destruct p as [|[[s e] a] t]; cbn; [auto|]. intuition lia. Qed.

  Lemma lookup_below lo l v : sorted_from lo l -> v < lo -> lookup l v = None.
  Proof.
    revert lo; induction l as [|[[s e] a] t IH]; intros lo H Hv; cbn in *; [reflexivity|].
    destruct H as (H1 & H2 & _ & H4).
    replace ((s <=? v) && (v <? e)) with false by lia. apply (IH e); [assumption|lia].
  Qed.

  Lemma lookup_above hi p v : sorted_down hi p -> hi <= v -> lookup p v = None.
  Proof.
    revert hi; induction p as [|[[s e] a] t IH]; intros hi H Hv; cbn in *; [reflexivity|].
    destruct H as (H1 & H2 & _ & H4).
    replace ((s <=? v) && (v <? e)) with false by lia. apply (IH s); [assumption|lia].
  Qed.

  Lemma lookup_app (l1 l2 : list (span A)) v :
    lookup (l1 ++ l2) v = match lookup l1 v with Some a => Some a | None => lookup l2 v end.
  Proof.
    induction l1 as [|[[s e] a] t IH]; cbn; [reflexivity|].
    destruct ((s <=? v) && (v <? e)); [reflexivity|apply IH].
  Qed.

  Lemma lookup_rev hi p v : sorted_down hi p -> lookup (rev p) v = lookup p v.
  Proof.
    revert hi; induction p as [|[[s e] a] t IH]; intros hi H; cbn [rev]; [reflexivity|].
    cbn in H. destruct H as (H1 & H2 & H3 & H4).
    rewrite lookup_app, (IH s H4). cbn [lookup].
    destruct ((s <=? v) && (v <? e)) eqn:E.
    - rewrite (lookup_above s t v H4) by lia. reflexivity.
    - destruct (lookup t v); reflexivity.
  Qed.

  Variable X : Type.                       (* points of the payload's own space *)
  Variable amem : A -> X -> bool.          (* pixel-set semantics of a payload *)

  (* membership semantics of a span list: v is the coordinate of this level *)
  Definition memL (l : list (span A)) (v : Z) (x : X) : bool :=
    match lookup l v with Some a => amem a x | None => false end.

  (* one span seen as a membership function *)
  Definition msp (s e : Z) (a : A) (v : Z) (x : X) : bool :=
    if (s <=? v) && (v <? e) then amem a x else false.

  Lemma memL_nil v x : memL [] v x = false.
  Proof. reflexivity. Qed.

  Lemma memL_cons s e a t v x :
    memL ((s, e, a) :: t) v x = if (s <=? v) && (v <? e) then amem a x else memL t v x.
  Proof. unfold memL; cbn [lookup]. destruct ((s <=? v) && (v <? e)); reflexivity. Qed.

  Lemma memL_below lo l v x : sorted_from lo l -> v < lo -> memL l v x = false.
  Proof. intros H Hv. unfold memL. rewrite (lookup_below lo l v H Hv). reflexivity. Qed.

  Lemma memL_above hi p v x : sorted_down hi p -> hi <= v -> memL p v x = false.
  Proof. intros H Hv. unfold memL. rewrite (lookup_above hi p v H Hv). reflexivity. Qed.

  Lemma memL_rev_append hi p d v x :
    sorted_down hi p -> sorted_from hi d ->
    memL (rev_append p d) v x = memL p v x || memL d v x.
  Proof.
    intros Hp Hd. unfold memL at 1.
    rewrite rev_append_rev, lookup_app, (lookup_rev hi p v Hp).
    destruct (lookup p v) eqn:E.
    - destruct (Z.lt_ge_cases v hi) as [Hv|Hv].
      + rewrite (memL_below hi d v x Hd Hv). unfold memL. rewrite E. rewrite orb_false_r. reflexivity.
      + rewrite (lookup_above hi p v Hp Hv) in E. discriminate.
    - unfold memL at 1. rewrite E. reflexivity.
  Qed.

  Lemma sorted_rev_append hi p d :
    sorted_down hi p -> sorted_from hi d -> WFl (rev_append p d).
  Proof.
    revert hi d; induction p as [|[[s e] a] t IH]; intros hi d Hp Hd; cbn [rev_append].
    - exists hi; assumption.
    - cbn in Hp. destruct Hp as (H1 & H2 & H3 & H4).
      apply (IH s); [assumption|]. cbn. repeat split; try lia; try assumption.
      apply sorted_from_weaken with (lo := hi); [assumption|lia].
  Qed.

  Lemma sorted_down_min a b p : sorted_down a p -> sorted_down b p -> sorted_down (Z.min a b) p.
  Proof. destruct p as [|[[s e] c] t]; cbn; [auto|]. intuition lia. Qed.

  (* sraSpanMergePrevious *)
  Lemma merge_prev_spec p : forall m ds da p' ds',
    sorted_down m p -> m <= ds -> merge_prev a_eqb p ds da = (p', ds') ->
    sorted_down ds' p' /\ sorted_down m p' /\ ds' <= ds /\
    forall v x de, ds < de ->
      memL p' v x || msp ds' de da v x = memL p v x || msp ds de da v x.
  Proof.
    induction p as [|[[ps pe] pa] t IH]; intros m ds da p' ds' Hp Hm E; cbn [merge_prev] in E.
    - inversion E; subst. cbn. repeat split; try lia.
    - pose proof Hp as Hp0. cbn in Hp. destruct Hp as (H1 & H2 & H3 & H4).
      destruct ((pe =? ds) && a_eqb pa da) eqn:C.
      + apply andb_prop in C. destruct C as [C1 C2]. apply a_eqb_eq in C2. subst pa.
        assert (pe = ds) by lia. subst pe.
        destruct (IH ps ps da p' ds' H4 (Z.le_refl _) E) as (I1 & I1' & I2 & I3).
        repeat split; [assumption|apply sorted_down_weaken with (hi := ps); [assumption|lia]|lia|].
        intros v x de Hde. rewrite (I3 v x de) by lia. rewrite memL_cons. unfold msp.
        destruct ((ps <=? v) && (v <? ds)) eqn:E1.
        * rewrite (memL_above ps t v x H4) by lia.
          replace ((ps <=? v) && (v <? de)) with true by lia.
          replace ((ds <=? v) && (v <? de)) with false by lia.
          rewrite orb_false_r. reflexivity.
        * replace ((ps <=? v) && (v <? de)) with ((ds <=? v) && (v <? de)) by lia. reflexivity.
      + inversion E; subst. repeat split; try lia; try assumption;
        cbn; repeat split; try lia; assumption.
  Qed.

  (* sraSpanMergeNext *)
  Lemma merge_next_spec n : forall de da n' de',
    sorted_from de n -> merge_next a_eqb n de da = (n', de') ->
    sorted_from de' n' /\ de <= de' /\ (length n' <= length n)%nat /\
    forall v x ds, ds < de ->
      msp ds de' da v x || memL n' v x = msp ds de da v x || memL n v x.
  Proof.
    induction n as [|[[ns ne] na] t IH]; intros de da n' de' Hn E; cbn [merge_next] in E.
    - inversion E; subst. cbn. repeat split; try lia.
    - cbn in Hn. destruct Hn as (H1 & H2 & H3 & H4).
      destruct ((ns =? de) && a_eqb na da) eqn:C.
      + apply andb_prop in C. destruct C as [C1 C2]. apply a_eqb_eq in C2. subst na.
        assert (ns = de) by lia. subst ns.
        destruct (IH ne da n' de' H4 E) as (I1 & I2 & I3 & I4).
        repeat split; [assumption|lia|cbn [length]; lia|].
        intros v x ds Hds. rewrite (I4 v x ds) by lia. rewrite memL_cons. unfold msp.
        destruct ((ds <=? v) && (v <? de)) eqn:E1.
        * replace ((ds <=? v) && (v <? ne)) with true by lia.
          replace ((de <=? v) && (v <? ne)) with false by lia.
          rewrite (memL_below ne t v x H4) by lia. reflexivity.
        * destruct ((de <=? v) && (v <? ne)) eqn:E2.
          -- replace ((ds <=? v) && (v <? ne)) with true by lia. rewrite orb_false_l.
             rewrite (memL_below ne t v x H4) by lia. rewrite orb_false_r. reflexivity.
          -- replace ((ds <=? v) && (v <? ne)) with false by lia. reflexivity.
      + inversion E; subst. cbn. repeat split; try lia; try assumption.
  Qed.
End Sem.

Arguments sorted_from {A}.
Arguments sorted_down {A}.
Arguments WFl {A}.
Arguments memL {A X}.
Arguments msp {A X}.
