(* sraRgnBBox is exact (smallest enclosing rectangle) and the booleans returned by
   sraRgnAnd / sraRgnSubtract have their pixel-level meaning. *)
From LV Require Import Region.RegionDefs Region.RegionSem Region.RegionProofs0 Region.RegionProofs.
From Coq Require Import ZifyBool.
Local Open Scope Z_scope.

Lemma sorted_in_lo {A} (P : A -> Prop) : forall (l : list (span A)) lo s e a,
  sorted_from P lo l -> In (s, e, a) l -> lo <= s /\ s < e.
Proof.
  induction l as [|[[s0 e0] a0] t IH]; intros lo s e a W Hin; [destruct Hin|].
  cbn in W. destruct W as (K1 & K2 & K3 & K4).
  destruct Hin as [E|Hin].
  - inversion E; subst. lia.
  - destruct (IH e0 s e a K4 Hin). lia.
Qed.

Lemma lookup_in {A} (P : A -> Prop) : forall (l : list (span A)) lo s e a v,
  sorted_from P lo l -> In (s, e, a) l -> s <= v < e -> lookup l v = Some a.
Proof.
  induction l as [|[[s0 e0] a0] t IH]; intros lo s e a v W Hin Hv; [destruct Hin|].
  cbn in W. destruct W as (K1 & K2 & K3 & K4). cbn [lookup].
  destruct Hin as [E|Hin].
  - inversion E; subst. replace ((s <=? v) && (v <? e)) with true by lia. reflexivity.
  - destruct (sorted_in_lo P t e0 s e a K4 Hin) as [L1 L2].
    replace ((s0 <=? v) && (v <? e0)) with false by lia.
    apply (IH e0 s e a v K4 Hin Hv).
Qed.

Lemma x_mem_in lo xs s e u v : sorted_from Px lo xs -> In (s, e, u) xs -> s <= v < e -> x_mem xs v = true.
Proof.
  intros W Hin Hv. unfold x_mem. rewrite (lookup_in Px xs lo s e u v W Hin Hv). reflexivity.
Qed.

(* a pixel of the later bands is a pixel of the whole region *)
Lemma rgn_mem_later s e xs t x y :
  sorted_from Py e t -> rgn_mem t x y = true -> rgn_mem ((s, e, xs) :: t) x y = true.
Proof.
  intros W Hm. unfold rgn_mem in *. cbn [lookup].
  destruct (Z_lt_le_dec y e) as [Hlt|Hge].
  - rewrite (lookup_below _ Py e t y W Hlt) in Hm. discriminate.
  - replace ((s <=? y) && (y <? e)) with false by lia. exact Hm.
Qed.

Lemma rgn_mem_band s e xs t x y : s <= y < e -> rgn_mem ((s, e, xs) :: t) x y = x_mem xs x.
Proof.
  intros Hy. unfold rgn_mem. cbn [lookup]. replace ((s <=? y) && (y <? e)) with true by lia. reflexivity.
Qed.

(* every side of the box the fold computes is either the initial value or touched by a pixel *)
Lemma bbox_fold_attain : forall t lo0 xmin ymin xmax ymax, sorted_from Py lo0 t ->
  let '(a, b, c, d) := fold_left bbox_step t (xmin, ymin, xmax, ymax) in
  (a = xmin \/ exists y, rgn_mem t a y = true) /\
  (c = xmax \/ exists y, rgn_mem t (c - 1) y = true) /\
  (b = ymin \/ exists x, rgn_mem t x b = true) /\
  (d = ymax \/ exists x, rgn_mem t x (d - 1) = true).
Proof.
  induction t as [|[[s e] xs] t IH]; intros lo0 xmin ymin xmax ymax Wt; cbn [fold_left].
  - repeat split; left; reflexivity.
  - cbn in Wt. destruct Wt as (K1 & K2 & [[lox Wx] Nx] & K4).
    unfold bbox_step at 2.
    pose proof (bbox_fold_x xs xmin xmax) as Bx. cbv beta iota zeta.
    match type of Bx with context [fold_left ?f0 xs ?i0] =>
      destruct (fold_left f0 xs i0) as [xa xb] end.
    destruct Bx as (_ & _ & _ & _ & B5 & B6).
    specialize (IH e xa (if s <? ymin then s else ymin) xb (if e >? ymax then e else ymax) K4).
    destruct (fold_left bbox_step t _) as [[[a b] c] d].
    destruct IH as (I1 & I2 & I3 & I4).
    destruct xs as [|[[x1 x2] u1] xt] eqn:Exs; [congruence|]. rewrite <- Exs in *.
    assert (Hx1 : In (x1, x2, u1) xs) by (rewrite Exs; left; reflexivity).
    destruct (sorted_in_lo Px xs lox x1 x2 u1 Wx Hx1) as [_ Hx12].
    assert (Later : forall x y, rgn_mem t x y = true -> rgn_mem ((s, e, xs) :: t) x y = true)
      by (intros x y; apply rgn_mem_later; exact K4).
    split; [|split; [|split]].
    + destruct I1 as [I1|[y Hy]]; [|right; exists y; apply Later; exact Hy].
      destruct B5 as [B5|(s' & e' & u' & Hin & Ha)]; [left; lia|].
      right. exists s. rewrite rgn_mem_band by lia.
      destruct (sorted_in_lo Px xs lox s' e' u' Wx Hin) as [_ Hse].
      apply (x_mem_in lox xs s' e' u'); [exact Wx|exact Hin|lia].
    + destruct I2 as [I2|[y Hy]]; [|right; exists y; apply Later; exact Hy].
      destruct B6 as [B6|(s' & e' & u' & Hin & Ha)]; [left; lia|].
      right. exists s. rewrite rgn_mem_band by lia.
      destruct (sorted_in_lo Px xs lox s' e' u' Wx Hin) as [_ Hse].
      apply (x_mem_in lox xs s' e' u'); [exact Wx|exact Hin|lia].
    + destruct I3 as [I3|[x Hx]]; [|right; exists x; apply Later; exact Hx].
      destruct (s <? ymin) eqn:Es; [|left; lia].
      right. exists x1. subst b. rewrite rgn_mem_band by lia.
      apply (x_mem_in lox xs x1 x2 u1); [exact Wx|exact Hx1|lia].
    + destruct I4 as [I4|[x Hx]]; [|right; exists x; apply Later; exact Hx].
      destruct (e >? ymax) eqn:Ee; [|left; lia].
      right. exists x1. subst d. rewrite rgn_mem_band by lia.
      apply (x_mem_in lox xs x1 x2 u1); [exact Wx|exact Hx1|lia].
Qed.

Lemma nonempty_witness r : WF r -> r <> [] -> exists x y, rgn_mem r x y = true.
Proof.
  intros [lo W] Hne. destruct r as [|[[s e] xs] t]; [congruence|].
  cbn in W. destruct W as (K1 & K2 & [[lox Wx] Nx] & K4).
  destruct xs as [|[[x1 x2] u1] xt] eqn:Exs; [congruence|]. rewrite <- Exs in *.
  assert (Hx1 : In (x1, x2, u1) xs) by (rewrite Exs; left; reflexivity).
  destruct (sorted_in_lo Px xs lox x1 x2 u1 Wx Hx1) as [_ Hx12].
  exists x1, s. rewrite rgn_mem_band by lia.
  apply (x_mem_in lox xs x1 x2 u1); [exact Wx|exact Hx1|lia].
Qed.

Definition int_coord (v : Z) : Prop := 1 - INT_MAX <= v < INT_MAX.

(* the bounding box of a non-empty region is a rectangle each of whose four sides is touched by
   a pixel of the region; with bbox_sup (every pixel lies inside) it is the smallest enclosing one *)
Theorem bbox_exact r : WF r -> r <> [] ->
  (forall x y, rgn_mem r x y = true -> int_coord x /\ int_coord y) ->
  exists x1 y1 x2 y2, rgn_bbox r = rgn_create_rect x1 y1 x2 y2 /\ x1 < x2 /\ y1 < y2 /\
    (exists y, rgn_mem r x1 y = true) /\ (exists y, rgn_mem r (x2 - 1) y = true) /\
    (exists x, rgn_mem r x y1 = true) /\ (exists x, rgn_mem r x (y2 - 1) = true).
Proof.
  intros W Hne Hrange. destruct (nonempty_witness r W Hne) as (x0 & y0 & H0).
  destruct (Hrange x0 y0 H0) as [Rx Ry]. unfold int_coord in *.
  destruct W as [lo W]. rewrite rgn_bbox_unfold.
  pose proof (bbox_fold_y x0 y0 r lo INT_MAX INT_MAX (1 - INT_MAX) (1 - INT_MAX) W) as G.
  pose proof (bbox_fold_attain r lo INT_MAX INT_MAX (1 - INT_MAX) (1 - INT_MAX) W) as T.
  destruct (fold_left bbox_step r _) as [[[a b] c] d].
  destruct G as (_ & _ & _ & _ & G & G2). specialize (G H0). destruct (G2 Hne) as [G3 G4].
  destruct T as (T1 & T2 & T3 & T4).
  replace ((c <? a) || (d <? b)) with false by lia.
  exists a, b, c, d. split; [reflexivity|]. split; [exact G3|]. split; [exact G4|].
  split; [destruct T1 as [T1|T1]; [lia|exact T1]|].
  split; [destruct T2 as [T2|T2]; [lia|exact T2]|].
  split; [destruct T3 as [T3|T3]; [lia|exact T3]|].
  destruct T4 as [T4|T4]; [lia|exact T4].
Qed.

Lemma bbox_empty : rgn_bbox [] = [].
Proof. reflexivity. Qed.

(* ---- what the booleans of sraRgnAnd / sraRgnSubtract mean ---- *)
Lemma nonempty_iff r : WF r ->
  (negb (rgn_is_empty r) = true <-> exists x y, rgn_mem r x y = true).
Proof.
  intros W. split.
  - intros H. apply nonempty_witness; [exact W|]. destruct r; [discriminate|discriminate].
  - intros (x & y & Hm). destruct (rgn_is_empty r) eqn:E; [|reflexivity].
    apply (proj1 (is_empty_sem r W)) with (x := x) (y := y) in E. congruence.
Qed.

Theorem and_nonempty_iff a b : WF a -> WF b ->
  (snd (rgn_and a b) = true <-> exists x y, rgn_mem a x y = true /\ rgn_mem b x y = true).
Proof.
  intros Wa Wb. rewrite (rgn_and_bool a b Wa Wb), (nonempty_iff _ (rgn_and_wf a b Wa Wb)).
  split; intros (x & y & H); exists x, y.
  - rewrite (rgn_and_mem a b Wa Wb) in H. apply andb_true_iff in H. exact H.
  - rewrite (rgn_and_mem a b Wa Wb). apply andb_true_iff. exact H.
Qed.

Theorem sub_nonempty_iff a b : WF a -> WF b ->
  (snd (rgn_sub a b) = true <-> exists x y, rgn_mem a x y = true /\ rgn_mem b x y = false).
Proof.
  intros Wa Wb. rewrite (rgn_sub_bool a b Wa Wb), (nonempty_iff _ (rgn_sub_wf a b Wa Wb)).
  split; intros (x & y & H); exists x, y.
  - rewrite (rgn_sub_mem a b Wa Wb) in H. apply andb_true_iff in H. destruct H as [H1 H2].
    split; [exact H1|]. destruct (rgn_mem b x y); [discriminate|reflexivity].
  - rewrite (rgn_sub_mem a b Wa Wb). destruct H as [H1 H2]. rewrite H1, H2. reflexivity.
Qed.
