(* sraSpanListSubtract: the loop mirror computes the set difference, for any payload level. *)
From LV Require Import Region.RegionDefs Region.RegionSem Region.RegionTac Region.RegionAnd.
From Coq Require Import ZifyBool.
Local Open Scope Z_scope.

Section SubProof.
  Variable A : Type.
  Variable P : A -> Prop.
  Variable a_eqb : A -> A -> bool.
  Hypothesis a_eqb_eq : forall a b, a_eqb a b = true -> a = b.
  Variable X : Type.
  Variable amem : A -> X -> bool.
  Variable a_sub : A -> A -> A * bool.
  Hypothesis a_sub_mem : forall a b x, P a -> P b -> snd (a_sub a b) = true ->
    amem (fst (a_sub a b)) x = amem a x && negb (amem b x).
  Hypothesis a_sub_P : forall a b, P a -> P b -> snd (a_sub a b) = true -> P (fst (a_sub a b)).
  Hypothesis a_sub_none : forall a b x, P a -> P b -> snd (a_sub a b) = false ->
    amem a x && negb (amem b x) = false.

  Notation sorted_from := (sorted_from P).
  Notation sorted_down := (sorted_down P).
  Notation memL := (memL amem).
  Notation msp := (msp amem).
  Notation WFl := (WFl P).
  Notation mps := (merge_prev_spec A P a_eqb a_eqb_eq X amem).
  Notation mns := (merge_next_spec A P a_eqb a_eqb_eq X amem).
  Notation ind := (ind A).

  Lemma sub_loop_spec : forall fuel p d s m lo,
    (4 * length s + 2 * length d + ind d s < fuel)%nat ->
    sorted_down m p -> sorted_from m d -> sorted_from lo s ->
    exists r, sub_loop a_eqb a_sub fuel p d s = Some r /\ WFl r /\
      forall v x, memL r v x = memL p v x || (memL d v x && negb (memL s v x)).
  Proof.
    unfold span in *.
    induction fuel as [|f IH]; intros p d s m lo Hfuel Hp Hd Hs; [lia|].
    cbn [sub_loop].
    destruct d as [|[[ds de] da] dn].
    { eexists; split; [reflexivity|]. split; [apply (sorted_rev_append _ _ m); [assumption|exact I]|].
      intros v x. rewrite (memL_rev_append A P X amem m p _ v x Hp Hd), !memL_nil.
      cbn. reflexivity. }
    destruct s as [|[[ss se] sa] sr].
    { eexists; split; [reflexivity|]. split; [apply (sorted_rev_append _ _ m); assumption|].
      intros v x. rewrite (memL_rev_append A P X amem m p _ v x Hp Hd), !memL_nil.
      cbn [negb]. rewrite andb_true_r. reflexivity. }
    pose proof Hd as Hd0. pose proof Hs as Hs0.
    cbn in Hd. destruct Hd as (D1 & D2 & D3 & D4).
    cbn in Hs. destruct Hs as (S1 & S2 & S3 & S4).
    destruct (ds >=? se) eqn:C1.
    - destruct (IH p ((ds, de, da) :: dn) sr m se) as (r & R1 & R2 & R3); try assumption.
      + pose proof (ind_le1 A ((ds, de, da) :: dn) sr).
        unfold RegionAnd.ind in Hfuel. replace (ds <? se) with false in Hfuel by lia.
        unfold span in *; unfold span in *; cbn [length] in *; lia.
      + exists r. split; [exact R1|]. split; [exact R2|].
        intros v x. rewrite R3. zsplit v ds; zsplit v de; zsplit v ss; zsplit v se; mem_crush amem.
    - destruct (de <=? ss) eqn:C2.
      + destruct (IH ((ds, de, da) :: p) dn ((ss, se, sa) :: sr) de lo) as (r & R1 & R2 & R3);
          try assumption.
        * pose proof (ind_le1 A dn ((ss, se, sa) :: sr)).
          unfold RegionAnd.ind in Hfuel. replace (ds <? se) with true in Hfuel by lia.
          unfold span in *; unfold span in *; cbn [length] in *; lia.
        * cbn. repeat split; try lia; try assumption.
          apply sorted_down_weaken with (hi := m); [assumption|lia].
        * exists r. split; [exact R1|]. split; [exact R2|].
          intros v x. rewrite R3.
          zsplit v m; zsplit v ds; zsplit v de; zsplit v ss; zsplit v se; mem_crush amem.
      + (* overlap *)
        match goal with |- context [if ss >? ds then ?a else ?b] =>
          destruct (if ss >? ds then a else b) as [p1 ds1] eqn:E1 end.
        match goal with |- context [if se <? de then ?a else ?b] =>
          destruct (if se <? de then a else b) as [de1 dn1] eqn:E2 end.
        assert (SA : sorted_down ds1 p1 /\ ds1 = Z.max ss ds /\
                     forall v x, memL p1 v x = memL p v x || msp ds ds1 da v x).
        { destruct (ss >? ds) eqn:C; inversion E1; subst p1 ds1.
          - split; [cbn; repeat split; try lia; try assumption;
                    apply sorted_down_weaken with (hi := m); [assumption|lia]|].
            split; [lia|]. intros v x. zsplit v m; zsplit v ds; zsplit v ss; mem_crush amem.
          - split; [apply sorted_down_weaken with (hi := m); [assumption|lia]|].
            split; [lia|]. intros v x. zsplit v ds; mem_crush amem. }
        destruct SA as (A1 & A2 & A3).
        assert (SB : sorted_from de1 dn1 /\ de1 = Z.min se de /\
                     (if se <? de then dn1 = (se, de, da) :: dn else dn1 = dn) /\
                     forall v x, memL dn1 v x = msp de1 de da v x || memL dn v x).
        { destruct (se <? de) eqn:C; inversion E2; subst de1 dn1.
          - split; [cbn; repeat split; try lia; assumption|]. split; [lia|].
            split; [reflexivity|].
            intros v x. zsplit v se; zsplit v de; mem_crush amem.
          - split; [assumption|]. split; [lia|]. split; [reflexivity|].
            intros v x. zsplit v de; mem_crush amem. }
        destruct SB as (B1 & B2 & B3 & B4).
        destruct (a_sub da sa) as [da' ne] eqn:EA.
        pose proof (a_sub_mem da sa) as Hmem. pose proof (a_sub_P da sa D3 S3) as HP'.
        pose proof (a_sub_none da sa) as Hnone. rewrite EA in Hmem, HP', Hnone. cbn [fst snd] in *.
        destruct ne; cbn [negb].
        * (* kept *)
          specialize (HP' eq_refl).
          destruct (merge_prev a_eqb p1 ds1 da') as [p2 ds2] eqn:EM.
          destruct (merge_next a_eqb dn1 de1 da') as [dn2 de2] eqn:EN.
          destruct (mps p1 ds1 ds1 da' p2 ds2 A1 ltac:(lia) EM) as (M1 & _ & M3 & M4).
          destruct (mns dn1 de1 da' dn2 de2 B1 EN) as (N1 & N2 & N3 & N4).
          destruct (se >? de2) eqn:C3.
          -- destruct (IH ((ds2, de2, da') :: p2) dn2 ((ss, se, sa) :: sr) de2 lo)
               as (r & R1 & R2 & R3); try assumption.
             ++ pose proof (ind_le1 A dn2 ((ss, se, sa) :: sr)).
                unfold RegionAnd.ind in Hfuel. replace (ds <? se) with true in Hfuel by lia.
                destruct (se <? de) eqn:C; [exfalso; lia|]. subst dn1.
                unfold span in *; unfold span in *; cbn [length] in *; lia.
             ++ cbn. repeat split; try lia; assumption.
             ++ exists r. split; [exact R1|]. split; [exact R2|].
                intros v x. rewrite R3.
                generalize (M4 v x de2 ltac:(lia)). generalize (N4 v x ds1 ltac:(lia)).
                generalize (A3 v x). generalize (B4 v x). specialize (Hmem x D3 S3 eq_refl).
                zsplit v ds; zsplit v de; zsplit v ss; zsplit v se; zsplit v ds2; zsplit v de2;
                  zsplit v ds1; zsplit v de1;
                  rewrite ?memL_cons; unfold RegionSem.msp; rewrite ?Hmem; mem_crush amem.
          -- destruct (IH p2 ((ds2, de2, da') :: dn2) sr ds2 se) as (r & R1 & R2 & R3);
               try assumption.
             ++ pose proof (ind_le1 A ((ds2, de2, da') :: dn2) sr).
                unfold RegionAnd.ind in Hfuel. replace (ds <? se) with true in Hfuel by lia.
                destruct (se <? de) eqn:C; subst dn1; unfold span in *; cbn [length] in *; lia.
             ++ cbn. repeat split; try lia; assumption.
             ++ exists r. split; [exact R1|]. split; [exact R2|].
                intros v x. rewrite R3.
                generalize (M4 v x de2 ltac:(lia)). generalize (N4 v x ds1 ltac:(lia)).
                generalize (A3 v x). generalize (B4 v x). specialize (Hmem x D3 S3 eq_refl).
                zsplit v ds; zsplit v de; zsplit v ss; zsplit v se; zsplit v ds2; zsplit v de2;
                  zsplit v ds1; zsplit v de1;
                  rewrite ?memL_cons; unfold RegionSem.msp; rewrite ?Hmem; mem_crush amem.
        * (* nothing left of d_curr: remove it *)
          destruct (IH p1 dn1 ((ss, se, sa) :: sr) ds1 lo) as (r & R1 & R2 & R3); try assumption.
          -- pose proof (ind_le1 A dn1 ((ss, se, sa) :: sr)).
             unfold RegionAnd.ind in Hfuel. replace (ds <? se) with true in Hfuel by lia.
             destruct (se <? de) eqn:C; subst dn1.
             ++ unfold RegionAnd.ind. replace (se <? se) with false by lia. unfold span in *; unfold span in *; cbn [length] in *; lia.
             ++ unfold span in *; unfold span in *; cbn [length] in *; lia.
          -- apply sorted_from_weaken with (lo := de1); [assumption|lia].
          -- exists r. split; [exact R1|]. split; [exact R2|].
             intros v x. rewrite R3.
             generalize (A3 v x). generalize (B4 v x). specialize (Hnone x D3 S3 eq_refl).
             zsplit v ds; zsplit v de; zsplit v ss; zsplit v se; zsplit v ds1; zsplit v de1;
               rewrite ?memL_cons; unfold RegionSem.msp; mem_crush amem.
  Qed.

  Theorem span_sub_spec dest src :
    WFl dest -> WFl src ->
    let '(r, b) := span_sub a_eqb a_sub dest src in
    WFl r /\ (forall v x, memL r v x = memL dest v x && negb (memL src v x)) /\
    b = match r with [] => false | _ => true end.
  Proof.
    intros [lo Hd] [lo2 Hs]. unfold span_sub.
    destruct (sub_loop_spec (sub_fuel A dest src) [] dest src lo lo2) as (r & R1 & R2 & R3);
      try assumption.
    - pose proof (ind_le1 A dest src). unfold sub_fuel. unfold span in *. lia.
    - exact I.
    - unfold span in *. rewrite R1. split; [assumption|]. split; [|reflexivity].
      intros v x. rewrite R3, memL_nil. reflexivity.
  Qed.
End SubProof.
