(* sraSpanListAnd: the loop mirror computes the intersection, for any payload level. *)
From LV Require Import Region.RegionDefs Region.RegionSem Region.RegionTac.
From Coq Require Import ZifyBool.
Local Open Scope Z_scope.

Section AndProof.
  Variable A : Type.
  Variable P : A -> Prop.
  Variable a_eqb : A -> A -> bool.
  Hypothesis a_eqb_eq : forall a b, a_eqb a b = true -> a = b.
  Variable X : Type.
  Variable amem : A -> X -> bool.
  Variable a_and : A -> A -> A * bool.
  Hypothesis a_and_mem : forall a b x, P a -> P b ->
    amem (fst (a_and a b)) x = amem a x && amem b x.
  Hypothesis a_and_P : forall a b, P a -> P b -> snd (a_and a b) = true -> P (fst (a_and a b)).
  Hypothesis a_and_none : forall a b x, P a -> P b -> snd (a_and a b) = false ->
    amem a x && amem b x = false.

  Notation sorted_from := (sorted_from P).
  Notation sorted_down := (sorted_down P).
  Notation memL := (memL amem).
  Notation msp := (msp amem).
  Notation WFl := (WFl P).
  Notation mps := (merge_prev_spec A P a_eqb a_eqb_eq X amem).

  (* 1 when the head of d starts before the end of the head of s *)
  Definition ind (d s : list (Z * Z * A)) : nat :=
    match d, s with
    | (ds, _, _) :: _, (_, se, _) :: _ => if ds <? se then 1 else 0
    | _, _ => 0
    end.

  Lemma ind_le1 d s : (ind d s <= 1)%nat.
  Proof.
    unfold ind. destruct d as [|[[? ?] ?] ?]; [lia|]. destruct s as [|[[? ?] ?] ?]; [lia|].
    destruct (_ <? _); lia.
  Qed.

  Lemma and_loop_spec : forall fuel p d s m lo,
    (4 * length s + 2 * length d + ind d s < fuel)%nat ->
    sorted_down m p -> sorted_from m d -> sorted_from lo s ->
    exists r, and_loop a_eqb a_and fuel p d s = Some r /\ WFl r /\
      forall v x, memL r v x = memL p v x || (memL d v x && memL s v x).
  Proof.
    unfold span in *.
    induction fuel as [|f IH]; intros p d s m lo Hfuel Hp Hd Hs; [lia|].
    cbn [and_loop].
    destruct d as [|[[ds de] da] dn].
    { eexists; split; [reflexivity|]. split; [apply (sorted_rev_append _ _ m); [assumption|exact I]|].
      intros v x. rewrite (memL_rev_append A P X amem m p [] v x Hp I), !memL_nil.
      cbn. reflexivity. }
    destruct s as [|[[ss se] sa] sr].
    { eexists; split; [reflexivity|]. split; [apply (sorted_rev_append _ _ m); [assumption|exact I]|].
      intros v x. rewrite (memL_rev_append A P X amem m p [] v x Hp I), !memL_nil.
      rewrite andb_false_r. reflexivity. }
    cbn in Hd. destruct Hd as (D1 & D2 & D3 & D4).
    cbn in Hs. destruct Hs as (S1 & S2 & S3 & S4).
    destruct (ds >=? se) eqn:C1.
    - (* source span entirely before d_curr: next source span *)
      destruct (IH p ((ds, de, da) :: dn) sr m se) as (r & R1 & R2 & R3); try assumption.
      + pose proof (ind_le1 ((ds, de, da) :: dn) sr).
        unfold ind in Hfuel. replace (ds <? se) with false in Hfuel by lia.
        cbn [length] in *. lia.
      + cbn. repeat split; try lia; assumption.
      + exists r. split; [exact R1|]. split; [exact R2|].
        intros v x. rewrite R3. zsplit v ds; zsplit v de; zsplit v ss; zsplit v se; mem_crush amem.
    - destruct (de <=? ss) eqn:C2.
      + (* d_curr entirely before the source span: remove it *)
        destruct (IH p dn ((ss, se, sa) :: sr) m lo) as (r & R1 & R2 & R3); try assumption.
        * pose proof (ind_le1 dn ((ss, se, sa) :: sr)).
          unfold ind in Hfuel. replace (ds <? se) with true in Hfuel by lia.
          cbn [length] in *. lia.
        * apply sorted_from_weaken with (lo := de); [assumption|lia].
        * cbn. repeat split; try lia; assumption.
        * exists r. split; [exact R1|]. split; [exact R2|].
          intros v x. rewrite R3. zsplit v ds; zsplit v de; zsplit v ss; zsplit v se; mem_crush amem.
      + (* overlap *)
        match goal with |- context [if se <? de then ?a else ?b] =>
          destruct (if se <? de then a else b) as [de1 dn1] eqn:E2 end.
        assert (SB : sorted_from de1 dn1 /\ de1 = Z.min se de /\
                     (if se <? de then length dn1 = S (length dn) /\ dn1 = (se, de, da) :: dn
                      else dn1 = dn) /\
                     forall v x, de1 <= v -> memL dn1 v x = memL ((ds, de, da) :: dn) v x).
        { destruct (se <? de) eqn:C; inversion E2; subst de1 dn1.
          - split; [cbn; repeat split; try lia; assumption|]. split; [lia|].
            split; [split; reflexivity|].
            intros v x Hv. zsplit v de; mem_crush amem.
          - split; [assumption|]. split; [lia|]. split; [reflexivity|].
            intros v x Hv. mem_crush amem. }
        destruct SB as (B1 & B2 & B3 & B4).
        destruct (a_and da sa) as [da' ne] eqn:EA.
        pose proof (a_and_mem da sa) as Hmem. pose proof (a_and_P da sa D3 S3) as HP'.
        pose proof (a_and_none da sa) as Hnone. rewrite EA in Hmem, HP', Hnone. cbn [fst snd] in *.
        destruct ne; cbn [negb].
        * (* kept *)
          destruct (merge_prev a_eqb p (if ss >? ds then ss else ds) da') as [p1 ds2] eqn:EM.
          assert (Hds1 : (if ss >? ds then ss else ds) = Z.max ss ds) by (destruct (ss >? ds) eqn:?; lia).
          rewrite Hds1 in EM.
          destruct (mps p m (Z.max ss ds) da' p1 ds2 Hp ltac:(lia) EM) as (M1 & M2 & M3 & M4).
          specialize (HP' eq_refl).
          replace (se >=? de1) with true by lia.
          destruct (IH ((ds2, de1, da') :: p1) dn1 (if se <=? de1 then sr else (ss, se, sa) :: sr) de1
                       (if se <=? de1 then se else lo)) as (r & R1 & R2 & R3); try assumption.
          -- pose proof (ind_le1 dn1 (if se <=? de1 then sr else (ss, se, sa) :: sr)).
             unfold ind in Hfuel. replace (ds <? se) with true in Hfuel by lia.
             destruct (se <? de) eqn:C.
             ++ destruct B3 as [B3 _]. replace (se <=? de1) with true in * by lia.
                cbn [length] in *. lia.
             ++ subst dn1. destruct (se <=? de1); cbn [length] in *; lia.
          -- cbn. repeat split; try lia; assumption.
          -- destruct (se <=? de1); [assumption|cbn; repeat split; try lia; assumption].
          -- exists r. split; [exact R1|]. split; [exact R2|].
             intros v x. rewrite R3.
             generalize (M4 v x de1 ltac:(lia)). generalize (B4 v x).
             specialize (Hmem x D3 S3).
             destruct (se <=? de1) eqn:C3.
             ++ zsplit v ds; zsplit v de; zsplit v ss; zsplit v se; zsplit v ds2; zsplit v de1;
                  rewrite ?memL_cons; unfold RegionSem.msp; rewrite ?Hmem; mem_crush amem.
             ++ zsplit v ds; zsplit v de; zsplit v ss; zsplit v se; zsplit v ds2; zsplit v de1;
                  rewrite ?memL_cons; unfold RegionSem.msp; rewrite ?Hmem; mem_crush amem.
        * (* the recursive And left nothing: remove d_curr *)
          destruct (IH p dn1 ((ss, se, sa) :: sr) m lo) as (r & R1 & R2 & R3); try assumption.
          -- pose proof (ind_le1 dn1 ((ss, se, sa) :: sr)).
             unfold ind in Hfuel. replace (ds <? se) with true in Hfuel by lia.
             destruct (se <? de) eqn:C.
             ++ destruct B3 as [B3 B3']. subst dn1. unfold ind. replace (se <? se) with false by lia.
                cbn [length] in *. lia.
             ++ subst dn1. cbn [length] in *. lia.
          -- apply sorted_from_weaken with (lo := de1); [assumption|lia].
          -- cbn. repeat split; try lia; assumption.
          -- exists r. split; [exact R1|]. split; [exact R2|].
             intros v x. rewrite R3. generalize (B4 v x). specialize (Hnone x D3 S3 eq_refl).
             zsplit v ds; zsplit v de; zsplit v ss; zsplit v se; zsplit v de1;
               rewrite ?memL_cons; unfold RegionSem.msp; mem_crush amem.
  Qed.

  Theorem span_and_spec dest src :
    WFl dest -> WFl src ->
    let '(r, b) := span_and a_eqb a_and dest src in
    WFl r /\ (forall v x, memL r v x = memL dest v x && memL src v x) /\
    b = match r with [] => false | _ => true end.
  Proof.
    intros [lo Hd] [lo2 Hs]. unfold span_and.
    destruct (and_loop_spec (and_fuel A dest src) [] dest src lo lo2) as (r & R1 & R2 & R3);
      try assumption.
    - pose proof (ind_le1 dest src). unfold and_fuel. unfold span in *. lia.
    - exact I.
    - unfold span in *. rewrite R1. split; [assumption|]. split; [|reflexivity].
      intros v x. rewrite R3, memL_nil. reflexivity.
  Qed.
End AndProof.
