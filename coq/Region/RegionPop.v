(* sraRgnPopRect for all four flag values: the region splits into the popped rectangle and the
   rest (nothing lost, nothing added), the rest is well-formed. *)
From LV Require Import Region.RegionDefs Region.RegionSem Region.RegionProofs0 Region.RegionProofs
     Region.RegionBBox.
From Coq Require Import ZifyBool.
Local Open Scope Z_scope.

Definition in_span (s e v : Z) : bool := (s <=? v) && (v <? e).

Lemma lookup_app {A} (l1 l2 : list (span A)) v :
  lookup (l1 ++ l2) v = match lookup l1 v with Some a => Some a | None => lookup l2 v end.
Proof.
  induction l1 as [|[[s e] a] t IH]; [reflexivity|]. cbn [app lookup].
  destruct ((s <=? v) && (v <? e)); [reflexivity|exact IH].
Qed.

Lemma sorted_app_in {A} (P : A -> Prop) : forall (l : list (span A)) lo s e a,
  sorted_from P lo (l ++ [(s, e, a)]) -> lo <= s.
Proof.
  intros l lo s e a W.
  destruct (sorted_in_lo P (l ++ [(s, e, a)]) lo s e a W) as [H _]; [|exact H].
  apply in_or_app. right. left. reflexivity.
Qed.

Lemma sorted_snoc_inv {A} (P : A -> Prop) : forall (l : list (span A)) lo s e a,
  sorted_from P lo (l ++ [(s, e, a)]) ->
  sorted_from P lo l /\ s < e /\ P a /\ (forall v, lookup l v <> None -> v < s).
Proof.
  induction l as [|[[s0 e0] a0] t IH]; intros lo s e a W.
  - cbn in W. destruct W as (_ & W2 & W3 & _). cbn. repeat split; try assumption.
    intros v H. congruence.
  - cbn [app] in W. cbn [sorted_from] in W. destruct W as (K1 & K2 & K3 & K4).
    destruct (IH e0 s e a K4) as (I1 & I2 & I3 & I4).
    pose proof (sorted_app_in P t e0 s e a K4) as Hle.
    split; [cbn; repeat split; assumption|]. split; [exact I2|]. split; [exact I3|].
    intros v Hv. cbn [lookup] in Hv.
    destruct ((s0 <=? v) && (v <? e0)) eqn:E; [lia|]. apply I4. exact Hv.
Qed.

Lemma sorted_snoc_replace {A} (P : A -> Prop) : forall (l : list (span A)) lo s e a a',
  sorted_from P lo (l ++ [(s, e, a)]) -> P a' -> sorted_from P lo (l ++ [(s, e, a')]).
Proof.
  induction l as [|[[s0 e0] a0] t IH]; intros lo s e a a' W Pa'.
  - cbn in W |- *. destruct W as (W1 & W2 & _ & _). repeat split; assumption.
  - cbn [app sorted_from] in W |- *. destruct W as (K1 & K2 & K3 & K4).
    repeat split; try assumption. exact (IH e0 s e a a' K4 Pa').
Qed.

Lemma x_mem_cons s e u xs x : x_mem ((s, e, u) :: xs) x = in_span s e x || x_mem xs x.
Proof. unfold x_mem, in_span. cbn [lookup]. destruct ((s <=? x) && (x <? e)); reflexivity. Qed.

Lemma x_mem_snoc xs s e u x : x_mem (xs ++ [(s, e, u)]) x = x_mem xs x || in_span s e x.
Proof.
  unfold x_mem, in_span. rewrite lookup_app. destruct (lookup xs x); [reflexivity|].
  cbn [lookup]. destruct ((s <=? x) && (x <? e)); reflexivity.
Qed.

Lemma rev_cons_inv {A} (l : list A) a t : rev l = a :: t -> l = rev t ++ [a].
Proof. intros H. rewrite <- (rev_involutive l), H. reflexivity. Qed.

(* x level: taking the first or the last span out of a span list *)
Lemma pop_x (r2l : bool) xs x1 x2 u xrest : WFx xs ->
  (if r2l then rev xs else xs) = (x1, x2, u) :: xrest ->
  let xs2 := if r2l then rev xrest else xrest in
  x1 < x2 /\ WFx xs2 /\ forall x, x_mem xs x = in_span x1 x2 x || x_mem xs2 x.
Proof.
  intros [lo W] E. destruct r2l.
  - apply rev_cons_inv in E. subst xs. cbn zeta.
    destruct (sorted_snoc_inv Px (rev xrest) lo x1 x2 u W) as (S1 & S2 & _ & _).
    split; [exact S2|]. split; [exists lo; exact S1|].
    intros x. rewrite x_mem_snoc. apply orb_comm.
  - subst xs. cbn zeta. cbn in W. destruct W as (W1 & W2 & _ & W4).
    split; [exact W2|]. split; [exists x2; exact W4|].
    intros x. apply x_mem_cons.
Qed.

Lemma rgn_mem_cons y1 y2 xs rest x y :
  rgn_mem ((y1, y2, xs) :: rest) x y = if in_span y1 y2 y then x_mem xs x else rgn_mem rest x y.
Proof. unfold rgn_mem, in_span. cbn [lookup]. destruct ((y1 <=? y) && (y <? y2)); reflexivity. Qed.

Lemma rgn_mem_snoc pre y1 y2 xs x y :
  rgn_mem (pre ++ [(y1, y2, xs)]) x y =
  match lookup pre y with Some xs' => x_mem xs' x | None => in_span y1 y2 y && x_mem xs x end.
Proof.
  unfold rgn_mem, in_span. rewrite lookup_app. destruct (lookup pre y); [reflexivity|].
  cbn [lookup]. destruct ((y1 <=? y) && (y <? y2)); reflexivity.
Qed.

Lemma rect_mem_spans x1 y1 x2 y2 x y :
  rect_mem (x1, y1, x2, y2) x y = in_span x1 x2 x && in_span y1 y2 y.
Proof. unfold rect_mem, in_span. rewrite andb_assoc. reflexivity. Qed.

Theorem pop_rect_sem_all r r2l b2t : WF r ->
  match rgn_pop_rect r r2l b2t with
  | None => r = []
  | Some (rc, r') =>
      WF r' /\
      (let '(x1, y1, x2, y2) := rc in x1 < x2 /\ y1 < y2) /\
      forall x y, rgn_mem r x y = rect_mem rc x y || rgn_mem r' x y
  end.
Proof.
  intros W. unfold rgn_pop_rect.
  destruct (if b2t then rev r else r) as [|[[y1 y2] xs] rest] eqn:Er.
  { destruct b2t; [|exact Er]. rewrite <- (rev_involutive r), Er. reflexivity. }
  (* the band and its payload *)
  assert (Hband : y1 < y2 /\ WFx xs /\ xs <> []).
  { destruct W as [lo W]. destruct b2t.
    - apply rev_cons_inv in Er. subst r.
      destruct (sorted_snoc_inv Py (rev rest) lo y1 y2 xs W) as (_ & S2 & [S3 S4] & _). auto.
    - subst r. cbn in W. destruct W as (_ & W2 & [W3 W4] & _). auto. }
  destruct Hband as (Hy & Wxs & Nxs).
  destruct (if r2l then rev xs else xs) as [|[[x1 x2] u] xrest] eqn:Ex.
  { exfalso. apply Nxs. destruct r2l; [|exact Ex]. rewrite <- (rev_involutive xs), Ex. reflexivity. }
  destruct (pop_x r2l xs x1 x2 u xrest Wxs Ex) as (Hx & Wxs2 & Hmemx).
  set (xs2 := if r2l then rev xrest else xrest) in *.
  change (WFx xs2) in Wxs2.
  change (forall x, x_mem xs x = in_span x1 x2 x || x_mem xs2 x) in Hmemx.
  clearbody xs2.
  split; [|split; [split; assumption|]].
  - (* WF of the rest *)
    destruct W as [lo W]. destruct b2t.
    + apply rev_cons_inv in Er. subst r.
      destruct (sorted_snoc_inv Py (rev rest) lo y1 y2 xs W) as (S1 & _ & _ & _).
      destruct xs2 as [|sp2 xt2].
      * exists lo. exact S1.
      * cbn [rev]. exists lo.
        apply (sorted_snoc_replace Py (rev rest) lo y1 y2 xs (sp2 :: xt2) W).
        split; [exact Wxs2|discriminate].
    + subst r. cbn in W. destruct W as (W1 & W2 & _ & W4).
      destruct xs2 as [|sp2 xt2].
      * exists y2. exact W4.
      * exists lo. cbn. repeat split; try assumption. discriminate.
  - (* membership *)
    intros x y. rewrite rect_mem_spans. destruct W as [lo W]. destruct b2t.
    + apply rev_cons_inv in Er. subst r.
      destruct (sorted_snoc_inv Py (rev rest) lo y1 y2 xs W) as (_ & _ & _ & Sbelow).
      rewrite rgn_mem_snoc, Hmemx.
      destruct xs2 as [|sp2 xt2].
      * unfold rgn_mem. destruct (lookup (rev rest) y) as [xs'|] eqn:El.
        -- assert (y < y1) by (apply Sbelow; congruence).
           replace (in_span y1 y2 y) with false by (unfold in_span; lia).
           rewrite andb_false_r. reflexivity.
        -- change (x_mem [] x) with false. rewrite !orb_false_r. apply andb_comm.
      * cbn [rev]. rewrite rgn_mem_snoc.
        destruct (lookup (rev rest) y) as [xs'|] eqn:El.
        -- assert (y < y1) by (apply Sbelow; congruence).
           replace (in_span y1 y2 y) with false by (unfold in_span; lia).
           rewrite andb_false_r. reflexivity.
        -- destruct (in_span y1 y2 y), (in_span x1 x2 x), (x_mem (sp2 :: xt2) x); reflexivity.
    + subst r. cbn in W. destruct W as (_ & _ & _ & W4).
      rewrite rgn_mem_cons, Hmemx.
      destruct xs2 as [|sp2 xt2].
      * destruct (in_span y1 y2 y) eqn:Ey.
        -- assert (Hn : rgn_mem rest x y = false).
           { unfold rgn_mem. rewrite (lookup_below _ Py y2 rest y W4); [reflexivity|].
             unfold in_span in Ey. lia. }
           rewrite Hn. change (x_mem [] x) with false.
           rewrite !orb_false_r, andb_true_r. reflexivity.
        -- rewrite andb_false_r. reflexivity.
      * rewrite rgn_mem_cons.
        destruct (in_span y1 y2 y), (in_span x1 x2 x), (x_mem (sp2 :: xt2) x); reflexivity.
Qed.
