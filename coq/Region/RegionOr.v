(* sraSpanListOr: the loop mirror computes the union, for any payload level. *)
From LV Require Import Region.RegionDefs Region.RegionSem Region.RegionTac.
From Coq Require Import ZifyBool.
Local Open Scope Z_scope.

Section OrProof.
  Variable A : Type.
  Variable P : A -> Prop.
  Variable a_eqb : A -> A -> bool.
  Hypothesis a_eqb_eq : forall a b, a_eqb a b = true -> a = b.
  Variable X : Type.
  Variable amem : A -> X -> bool.
  Variable a_or : A -> A -> A.
  Hypothesis a_or_P : forall a b, P a -> P b -> P (a_or a b).
  Hypothesis a_or_mem : forall a b x, P a -> P b -> amem (a_or a b) x = amem a x || amem b x.

  Notation sorted_from := (sorted_from P).
  Notation sorted_down := (sorted_down P).
  Notation memL := (memL amem).
  Notation msp := (msp amem).
  Notation WFl := (WFl P).
  Notation mps := (merge_prev_spec A P a_eqb a_eqb_eq X amem).
  Notation mns := (merge_next_spec A P a_eqb a_eqb_eq X amem).

  (* the overlap branch of the loop body, up to the two merges *)
  Lemma or_overlap_stage :
    forall p ds de da dn ss se sa m p1 ds1 de1 dn1 p2 ds2 p3 ds3 dn2 de2,
    sorted_down m p -> sorted_down ss p -> m <= ds -> ds < de -> P da -> sorted_from de dn ->
    ss < se -> P sa -> ds < se -> ss < de ->
    (if ss <? ds then merge_prev a_eqb ((ss, ds, sa) :: p) ds da else (p, ds)) = (p1, ds1) ->
    (if se <? de then (se, (se, de, da) :: dn) else (de, dn)) = (de1, dn1) ->
    (if ss >? ds1 then ((ds1, ss, da) :: p1, ss) else (p1, ds1)) = (p2, ds2) ->
    merge_prev a_eqb p2 ds2 (a_or da sa) = (p3, ds3) ->
    merge_next a_eqb dn1 de1 (a_or da sa) = (dn2, de2) ->
    sorted_down ds3 p3 /\ ds3 < de1 /\ ds3 < se /\ sorted_from de2 dn2 /\
    de1 = Z.min se de /\ de1 <= de2 /\
    (length dn2 <= S (length dn))%nat /\ (de2 < se -> (length dn2 <= length dn)%nat) /\
    (forall v x, memL p3 v x || msp ds3 de2 (a_or da sa) v x || memL dn2 v x =
                 memL p v x || msp ds de da v x || memL dn v x || msp ss de1 sa v x) /\
    (forall v x, msp de1 de2 sa v x = true ->
                 memL p v x || msp ds de da v x || memL dn v x = true).
  Proof.
    intros p ds de da dn ss se sa m p1 ds1 de1 dn1 p2 ds2 p3 ds3 dn2 de2
           Hp Hps Hm Hd HPa Hdn Hs HPs Hov1 Hov2 EA EB EC ED1 ED2.
    (* step A *)
    assert (SA : sorted_down ds1 p1 /\ ds1 <= ds /\
                forall v x, memL p1 v x || msp ds1 de da v x =
                            memL p v x || msp ds de da v x || msp ss (Z.max ss ds) sa v x).
    { destruct (ss <? ds) eqn:C.
      - assert (Hq : sorted_down ds ((ss, ds, sa) :: p)) by (cbn; repeat split; try lia; assumption).
        destruct (mps ((ss, ds, sa) :: p) ds ds da p1 ds1 Hq ltac:(lia) EA) as (M1 & _ & M3 & M4).
        split; [assumption|]. split; [assumption|].
        intros v x. generalize (M4 v x de Hd). zsplit v ss; zsplit v ds; zsplit v de; mem_crush amem.
      - inversion EA; subst p1 ds1.
        split; [apply sorted_down_weaken with (hi := m); [assumption|lia]|]. split; [lia|].
        intros v x. zsplit v ss; zsplit v ds; zsplit v de; mem_crush amem. }
    destruct SA as (A1 & A2 & A3).
    (* step B *)
    assert (SB : sorted_from de1 dn1 /\ de1 = Z.min se de /\ (length dn1 <= S (length dn))%nat /\
                (de <= se -> dn1 = dn) /\
                forall v x, msp ds1 de1 da v x || memL dn1 v x = msp ds1 de da v x || memL dn v x).
    { destruct (se <? de) eqn:C; inversion EB; subst de1 dn1.
      - split; [cbn; repeat split; try lia; assumption|]. split; [lia|]. split; [cbn; apply le_n|].
        split; [intros; exfalso; lia|].
        intros v x. zsplit v ds1; zsplit v se; zsplit v de; mem_crush amem.
      - split; [assumption|]. split; [lia|]. split; [apply le_S, le_n|]. split; [reflexivity|].
        intros v x. reflexivity. }
    destruct SB as (B1 & B2 & B3 & B4 & B5).
    (* step C *)
    assert (SC : sorted_down ds2 p2 /\ ds2 = Z.max ss ds1 /\
                forall v x, memL p2 v x || msp ds2 de1 da v x = memL p1 v x || msp ds1 de1 da v x).
    { destruct (ss >? ds1) eqn:C; inversion EC; subst p2 ds2.
      - split; [cbn; repeat split; try lia; assumption|]. split; [lia|].
        intros v x. zsplit v ds1; zsplit v ss; zsplit v de1; mem_crush amem.
      - split; [assumption|]. split; [lia|]. intros v x. reflexivity. }
    destruct SC as (C1 & C2 & C3).
    (* step D *)
    assert (HPo : P (a_or da sa)) by (apply a_or_P; assumption).
    destruct (mps p2 ds2 ds2 (a_or da sa) p3 ds3 C1 ltac:(lia) ED1) as (D1 & _ & D3 & D4).
    destruct (mns dn1 de1 (a_or da sa) dn2 de2 B1 ED2) as (N1 & N2 & N3 & N4).
    split; [assumption|]. split; [lia|]. split; [lia|]. split; [assumption|].
    split; [assumption|]. split; [assumption|]. split; [eapply Nat.le_trans; eassumption|].
    split; [intros Hlt; rewrite B4 in N3 by lia; assumption|].
    split.
    - intros v x.
      generalize (D4 v x de2 ltac:(lia)). generalize (N4 v x ds2 ltac:(lia)).
      generalize (C3 v x). generalize (B5 v x). generalize (A3 v x).
      unfold RegionSem.msp. rewrite !(a_or_mem da sa x HPa HPs).
      zsplit v ss; zsplit v ds; zsplit v ds1; zsplit v ds3; zsplit v de1; zsplit v de2; zsplit v de;
        zsplit v se; mem_crush amem.
    - intros v x.
      generalize (N4 v x ds2 ltac:(lia)). generalize (B5 v x).
      unfold RegionSem.msp. rewrite !(a_or_mem da sa x HPa HPs).
      zsplit v ds; zsplit v ds1; zsplit v de1; zsplit v de2; zsplit v de; zsplit v ss; zsplit v se;
        mem_crush amem.
  Qed.

  Lemma or_loop_spec : forall fuel p d ss se sa sr m,
    (4 * S (length sr) + 2 * length d < fuel)%nat ->
    sorted_down m p -> sorted_from m d -> sorted_down ss p ->
    ss < se -> P sa -> sorted_from se sr ->
    exists r, or_loop a_eqb a_or fuel p d ss se sa sr = Some r /\ WFl r /\
      forall v x, memL r v x = memL p v x || memL d v x || msp ss se sa v x || memL sr v x.
  Proof.
    unfold span in *.
    induction fuel as [|f IH]; intros p d ss se sa sr m Hfuel Hp Hd Hps Hs HPa Hsr; [lia|].
    (* the common continuation: move to the next source span *)
    assert (NEXT : forall p' d' m',
      (4 * length sr + 2 * length d' < f)%nat \/ sr = [] ->
      sorted_down m' p' -> sorted_from m' d' -> sorted_down se p' ->
      exists r, match sr with
                | [] => Some (rev_append p' d')
                | (s2, e2, a2) :: sr' => or_loop a_eqb a_or f p' d' s2 e2 a2 sr'
                end = Some r /\ WFl r /\
        forall v x, memL r v x = memL p' v x || memL d' v x || memL sr v x).
    { intros p' d' m' Hf Hp' Hd' Hpe.
      destruct sr as [|[[s2 e2] a2] sr'].
      - eexists; split; [reflexivity|]. split; [apply (sorted_rev_append _ _ m'); assumption|].
        intros v x. rewrite (memL_rev_append A P X amem m' p' d' v x Hp' Hd'). rewrite memL_nil, orb_false_r.
        reflexivity.
      - cbn in Hsr. destruct Hsr as (S1 & S2 & S3 & S4).
        destruct Hf as [Hf|Hf]; [|discriminate].
        destruct (IH p' d' s2 e2 a2 sr' m') as (r & R1 & R2 & R3); try assumption.
        + apply sorted_down_weaken with (hi := se); [assumption|lia].
        + exists r. split; [assumption|]. split; [assumption|].
          intros v x. rewrite R3. zsplit v s2; zsplit v e2; mem_crush amem. }
    cbn [or_loop].
    destruct d as [|[[ds de] da] dn].
    - (* d_curr is the back sentinel: append *)
      destruct (NEXT ((ss, se, sa) :: p) [] se) as (r & R1 & R2 & R3).
      + destruct sr; [right; reflexivity|left]. unfold span in *; cbn [length] in *; lia.
      + cbn. repeat split; try lia; assumption.
      + exact I.
      + cbn. repeat split; try lia; assumption.
      + exists r. split; [exact R1|]. split; [exact R2|].
        intros v x. rewrite R3. zsplit v ss; zsplit v se; mem_crush amem.
    - cbn in Hd. destruct Hd as (D1 & D2 & D3 & D4).
      destruct (ds >=? se) eqn:C1.
      + (* the new span comes before d_curr *)
        destruct (merge_prev a_eqb ((ss, se, sa) :: p) ds da) as [p2 ds2] eqn:EM.
        assert (Hp1 : sorted_down se ((ss, se, sa) :: p)).
        { cbn. repeat split; try lia; assumption. }
        destruct (mps ((ss, se, sa) :: p) se ds da p2 ds2 Hp1 ltac:(lia) EM) as (M1 & M2 & M3 & M4).
        destruct (NEXT p2 ((ds2, de, da) :: dn) ds2) as (r & R1 & R2 & R3).
        * destruct sr; [right; reflexivity|left]. unfold span in *; cbn [length] in *; lia.
        * assumption.
        * cbn. repeat split; try lia; assumption.
        * assumption.
        * exists r. split; [exact R1|]. split; [exact R2|].
          intros v x. rewrite R3. generalize (M4 v x de D2).
          zsplit v ss; zsplit v se; zsplit v ds2; zsplit v ds; zsplit v de; mem_crush amem.
      + destruct ((ss <? de) && (se >? ds)) eqn:C2.
        * (* overlap *)
          match goal with |- context [if ss <? ds then ?a else ?b] =>
            destruct (if ss <? ds then a else b) as [p1 ds1] eqn:E1 end.
          match goal with |- context [if se <? de then ?a else ?b] =>
            destruct (if se <? de then a else b) as [de1 dn1] eqn:E2 end.
          match goal with |- context [if ss >? ds1 then ?a else ?b] =>
            destruct (if ss >? ds1 then a else b) as [p2 ds2] eqn:E3 end.
          match goal with |- context [merge_prev a_eqb p2 ds2 ?a] =>
            destruct (merge_prev a_eqb p2 ds2 a) as [p3 ds3] eqn:E4 end.
          match goal with |- context [merge_next a_eqb dn1 de1 ?a] =>
            destruct (merge_next a_eqb dn1 de1 a) as [dn2 de2] eqn:E5 end.
          destruct (or_overlap_stage p ds de da dn ss se sa m p1 ds1 de1 dn1 p2 ds2 p3 ds3 dn2 de2)
            as (T1 & T2 & T3 & T4 & T5 & T6 & T7 & T8 & T9 & T10); try assumption; try lia.
          assert (HPo : P (a_or da sa)) by (apply a_or_P; assumption).
          destruct (se >? de2) eqn:C3.
          -- (* the source span continues after d_curr *)
             destruct (IH ((ds3, de2, a_or da sa) :: p3) dn2 de2 se sa sr de2)
               as (r & R1 & R2 & R3); try assumption; try lia.
             ++ specialize (T8 ltac:(lia)). unfold span in *; cbn [length] in *; lia.
             ++ cbn. repeat split; try lia; assumption.
             ++ cbn. repeat split; try lia; assumption.
             ++ exists r. split; [exact R1|]. split; [exact R2|].
                intros v x. rewrite R3. generalize (T9 v x). generalize (T10 v x).
                rewrite ?memL_cons; unfold RegionSem.msp; rewrite ?(a_or_mem da sa x D3 HPa).
                zsplit v ds3; zsplit v de1; zsplit v de2; zsplit v ss; zsplit v se; zsplit v ds; zsplit v de; mem_crush amem.
          -- destruct (NEXT p3 ((ds3, de2, a_or da sa) :: dn2) ds3) as (r & R1 & R2 & R3).
             ++ destruct sr; [right; reflexivity|left]. unfold span in *; cbn [length] in *; lia.
             ++ assumption.
             ++ cbn. repeat split; try lia; assumption.
             ++ apply sorted_down_weaken with (hi := ds3); [assumption|lia].
             ++ exists r. split; [exact R1|]. split; [exact R2|].
                intros v x. rewrite R3. generalize (T9 v x).
                rewrite ?memL_cons; unfold RegionSem.msp; rewrite ?(a_or_mem da sa x D3 HPa).
                zsplit v ds3; zsplit v de1; zsplit v de2; zsplit v ss; zsplit v se; zsplit v ds; zsplit v de; mem_crush amem.
        * (* no overlap: next destination span *)
          destruct (IH ((ds, de, da) :: p) dn ss se sa sr de) as (r & R1 & R2 & R3); try assumption.
          -- unfold span in *; cbn [length] in *; lia.
          -- cbn. repeat split; try lia; try assumption.
             apply sorted_down_weaken with (hi := m); [assumption|lia].
          -- cbn. repeat split; try lia; try assumption.
             apply sorted_down_weaken with (hi := m); [assumption|lia].
          -- exists r. split; [exact R1|]. split; [exact R2|].
             intros v x. rewrite R3. zsplit v ds; zsplit v de; zsplit v m; mem_crush amem.
  Qed.

  Definition memL_or_spec (dest src r : list (span A)) : Prop :=
    WFl r /\ forall v x, memL r v x = memL dest v x || memL src v x.

  Theorem span_or_spec dest src :
    WFl dest -> WFl src -> memL_or_spec dest src (span_or a_eqb a_or dest src).
  Proof.
    intros [lo Hd] [lo2 Hs]. unfold span_or, memL_or_spec.
    destruct src as [|[[ss se] sa] sr].
    - split; [exists lo; assumption|]. intros v x. rewrite memL_nil, orb_false_r. reflexivity.
    - cbn in Hs. destruct Hs as (S1 & S2 & S3 & S4).
      destruct (or_loop_spec (or_fuel A dest ((ss, se, sa) :: sr)) [] dest ss se sa sr
                             (match dest with [] => ss | (s, _, _) :: _ => s end))
        as (r & R1 & R2 & R3); try assumption.
      + unfold or_fuel. cbn [length]. lia.
      + exact I.
      + destruct dest as [|[[s e] a] t]; [exact I|]. cbn in *. intuition lia.
      + exact I.
      + unfold span in *. rewrite R1. split; [assumption|]. intros v x. rewrite R3, memL_nil.
        zsplit v ss; zsplit v se; mem_crush amem.
  Qed.
End OrProof.
