(* Region-level theorems: the two instantiations of the generic span-list proofs
   (x level: payload unit; y level: payload xspans) and what follows for rgn_* . *)
From LV Require Import Region.RegionDefs Region.RegionSem Region.RegionTac Region.RegionOr
     Region.RegionAnd Region.RegionSub Region.RegionProofs0.
From Coq Require Import ZifyBool.
Local Open Scope Z_scope.

(* ---------- well-formedness ---------- *)
Definition Px (_ : unit) : Prop := True.
Definition WFx (xs : xspans) : Prop := WFl Px xs.
Definition Py (xs : xspans) : Prop := WFx xs /\ xs <> [].
Definition WF (r : region) : Prop := WFl Py r.

Definition umem (_ : unit) (_ : unit) : bool := true.

Lemma x_mem_memL xs x : x_mem xs x = memL umem xs x tt.
Proof. unfold x_mem, memL, umem. destruct (lookup xs x); reflexivity. Qed.

Lemma rgn_mem_memL r x y : rgn_mem r x y = memL x_mem r y x.
Proof. unfold rgn_mem, memL. destruct (lookup r y); reflexivity. Qed.

Lemma WF_empty : WF [].
Proof. exists 0. exact I. Qed.

Lemma u_eqb_eq : forall a b : unit, u_eqb a b = true -> a = b.
Proof. intros [] [] _. reflexivity. Qed.

Lemma spans_eqb_eq {A} (eqb : A -> A -> bool) :
  (forall a b, eqb a b = true -> a = b) ->
  forall l1 l2 : list (span A), spans_eqb eqb l1 l2 = true -> l1 = l2.
Proof.
  intros H. induction l1 as [|[[s1 e1] a1] t1 IH]; intros [|[[s2 e2] a2] t2] E; cbn in E;
    try discriminate; [reflexivity|].
  apply andb_prop in E. destruct E as [E E4]. apply andb_prop in E. destruct E as [E E3].
  apply andb_prop in E. destruct E as [E1 E2].
  apply H in E3. apply IH in E4. assert (s1 = s2) by lia. assert (e1 = e2) by lia. subst. reflexivity.
Qed.

Lemma x_eqb_eq : forall a b, x_eqb a b = true -> a = b.
Proof. apply spans_eqb_eq. exact u_eqb_eq. Qed.

(* a well-formed non-empty list has a member *)
Lemma memL_witness {A X} (P : A -> Prop) (amem : A -> X -> bool) (l : list (span A)) :
  (forall a, P a -> exists x, amem a x = true) ->
  WFl P l -> l <> [] -> exists v x, memL amem l v x = true.
Proof.
  intros HP [lo H] Hne. destruct l as [|[[s e] a] t]; [congruence|].
  cbn in H. destruct H as (H1 & H2 & H3 & H4). destruct (HP a H3) as [x Hx].
  exists s, x. rewrite memL_cons. replace ((s <=? s) && (s <? e)) with true by lia. exact Hx.
Qed.

Lemma memL_nonempty {A X} (amem : A -> X -> bool) (l : list (span A)) v x :
  memL amem l v x = true -> l <> [].
Proof. intros H E. subst. discriminate. Qed.

(* ---------- x level ---------- *)
Lemma x_or_spec a b : WFx a -> WFx b ->
  WFx (x_or a b) /\ forall x, x_mem (x_or a b) x = x_mem a x || x_mem b x.
Proof.
  intros Ha Hb.
  destruct (span_or_spec unit Px u_eqb u_eqb_eq unit umem u_or) with (dest := a) (src := b)
    as [W M]; try assumption.
  - intros; exact I.
  - intros; reflexivity.
  - split; [exact W|]. intros x. rewrite !x_mem_memL. apply M.
Qed.

Lemma x_and_spec a b : WFx a -> WFx b ->
  WFx (fst (x_and a b)) /\ (forall x, x_mem (fst (x_and a b)) x = x_mem a x && x_mem b x) /\
  snd (x_and a b) = match fst (x_and a b) with [] => false | _ => true end.
Proof.
  intros Ha Hb.
  pose proof (span_and_spec unit Px u_eqb u_eqb_eq unit umem u_and) as S.
  specialize (S ltac:(intros; reflexivity) ltac:(intros; exact I)
                ltac:(intros ? ? ? ? ? E; discriminate E) a b Ha Hb).
  unfold x_and. destruct (span_and u_eqb u_and a b) as [r bb]. cbn [fst snd].
  destruct S as (W & M & B). split; [exact W|]. split; [|exact B].
  intros x. rewrite !x_mem_memL. apply M.
Qed.

Lemma x_sub_spec a b : WFx a -> WFx b ->
  WFx (fst (x_sub a b)) /\ (forall x, x_mem (fst (x_sub a b)) x = x_mem a x && negb (x_mem b x)) /\
  snd (x_sub a b) = match fst (x_sub a b) with [] => false | _ => true end.
Proof.
  intros Ha Hb.
  pose proof (span_sub_spec unit Px u_eqb u_eqb_eq unit umem u_sub) as S.
  specialize (S ltac:(intros ? ? ? ? ? E; discriminate E) ltac:(intros ? ? ? ? E; discriminate E)
                ltac:(intros; reflexivity) a b Ha Hb).
  unfold x_sub. destruct (span_sub u_eqb u_sub a b) as [r bb]. cbn [fst snd].
  destruct S as (W & M & B). split; [exact W|]. split; [|exact B].
  intros x. rewrite !x_mem_memL. apply M.
Qed.

Lemma Py_witness a : Py a -> exists x, x_mem a x = true.
Proof.
  intros [W N]. destruct (memL_witness Px umem a) as (v & x & H); try assumption.
  - intros; exists tt; reflexivity.
  - exists v. rewrite x_mem_memL. destruct x. exact H.
Qed.

Lemma x_mem_nonempty a x : x_mem a x = true -> a <> [].
Proof. intros H E. subst. discriminate. Qed.

(* the hypotheses of the generic proofs, at the y level *)
Lemma y_or_P a b : Py a -> Py b -> Py (x_or a b).
Proof.
  intros [Wa Na] [Wb Nb]. destruct (x_or_spec a b Wa Wb) as [W M]. split; [exact W|].
  destruct (Py_witness a (conj Wa Na)) as [x Hx].
  apply (x_mem_nonempty _ x). rewrite M, Hx. reflexivity.
Qed.

Lemma y_or_mem a b x : Py a -> Py b -> x_mem (x_or a b) x = x_mem a x || x_mem b x.
Proof. intros [Wa _] [Wb _]. apply (x_or_spec a b Wa Wb). Qed.

Lemma y_and_mem a b x : Py a -> Py b -> x_mem (fst (x_and a b)) x = x_mem a x && x_mem b x.
Proof. intros [Wa _] [Wb _]. apply (x_and_spec a b Wa Wb). Qed.

Lemma y_and_P a b : Py a -> Py b -> snd (x_and a b) = true -> Py (fst (x_and a b)).
Proof.
  intros [Wa _] [Wb _] E. destruct (x_and_spec a b Wa Wb) as (W & _ & B). split; [exact W|].
  rewrite B in E. destruct (fst (x_and a b)); [discriminate|congruence].
Qed.

Lemma y_and_none a b x : Py a -> Py b -> snd (x_and a b) = false -> x_mem a x && x_mem b x = false.
Proof.
  intros [Wa _] [Wb _] E. destruct (x_and_spec a b Wa Wb) as (_ & M & B).
  rewrite <- M. rewrite B in E. destruct (fst (x_and a b)); [reflexivity|discriminate].
Qed.

Lemma y_sub_mem a b x : Py a -> Py b -> snd (x_sub a b) = true ->
  x_mem (fst (x_sub a b)) x = x_mem a x && negb (x_mem b x).
Proof. intros [Wa _] [Wb _] _. apply (x_sub_spec a b Wa Wb). Qed.

Lemma y_sub_P a b : Py a -> Py b -> snd (x_sub a b) = true -> Py (fst (x_sub a b)).
Proof.
  intros [Wa _] [Wb _] E. destruct (x_sub_spec a b Wa Wb) as (W & _ & B). split; [exact W|].
  rewrite B in E. destruct (fst (x_sub a b)); [discriminate|congruence].
Qed.

Lemma y_sub_none a b x : Py a -> Py b -> snd (x_sub a b) = false ->
  x_mem a x && negb (x_mem b x) = false.
Proof.
  intros [Wa _] [Wb _] E. destruct (x_sub_spec a b Wa Wb) as (_ & M & B).
  rewrite <- M. rewrite B in E. destruct (fst (x_sub a b)); [reflexivity|discriminate].
Qed.

(* ---------- region level ---------- *)
Theorem rgn_or_wf a b : WF a -> WF b -> WF (rgn_or a b).
Proof.
  intros Ha Hb.
  apply (span_or_spec xspans Py x_eqb x_eqb_eq Z x_mem x_or y_or_P y_or_mem a b Ha Hb).
Qed.

Theorem rgn_or_mem a b : WF a -> WF b ->
  forall x y, rgn_mem (rgn_or a b) x y = rgn_mem a x y || rgn_mem b x y.
Proof.
  intros Ha Hb x y. rewrite !rgn_mem_memL.
  apply (span_or_spec xspans Py x_eqb x_eqb_eq Z x_mem x_or y_or_P y_or_mem a b Ha Hb).
Qed.

Lemma rgn_and_spec a b : WF a -> WF b ->
  WF (fst (rgn_and a b)) /\
  (forall x y, rgn_mem (fst (rgn_and a b)) x y = rgn_mem a x y && rgn_mem b x y) /\
  snd (rgn_and a b) = negb (rgn_is_empty (fst (rgn_and a b))).
Proof.
  intros Ha Hb.
  pose proof (span_and_spec xspans Py x_eqb x_eqb_eq Z x_mem x_and y_and_mem y_and_P y_and_none
                            a b Ha Hb) as S.
  unfold rgn_and. destruct (span_and x_eqb x_and a b) as [r bb]. cbn [fst snd].
  destruct S as (W & M & B). split; [exact W|]. split.
  - intros x y. rewrite !rgn_mem_memL. apply M.
  - rewrite B. destruct r; reflexivity.
Qed.

Theorem rgn_and_wf a b : WF a -> WF b -> WF (fst (rgn_and a b)).
Proof. intros Ha Hb. apply (rgn_and_spec a b Ha Hb). Qed.

Theorem rgn_and_mem a b : WF a -> WF b ->
  forall x y, rgn_mem (fst (rgn_and a b)) x y = rgn_mem a x y && rgn_mem b x y.
Proof. intros Ha Hb. apply (rgn_and_spec a b Ha Hb). Qed.

Theorem rgn_and_bool a b : WF a -> WF b ->
  snd (rgn_and a b) = negb (rgn_is_empty (fst (rgn_and a b))).
Proof. intros Ha Hb. apply (rgn_and_spec a b Ha Hb). Qed.

Lemma rgn_sub_spec a b : WF a -> WF b ->
  WF (fst (rgn_sub a b)) /\
  (forall x y, rgn_mem (fst (rgn_sub a b)) x y = rgn_mem a x y && negb (rgn_mem b x y)) /\
  snd (rgn_sub a b) = negb (rgn_is_empty (fst (rgn_sub a b))).
Proof.
  intros Ha Hb.
  pose proof (span_sub_spec xspans Py x_eqb x_eqb_eq Z x_mem x_sub y_sub_mem y_sub_P y_sub_none
                            a b Ha Hb) as S.
  unfold rgn_sub. destruct (span_sub x_eqb x_sub a b) as [r bb]. cbn [fst snd].
  destruct S as (W & M & B). split; [exact W|]. split.
  - intros x y. rewrite !rgn_mem_memL. apply M.
  - rewrite B. destruct r; reflexivity.
Qed.

Theorem rgn_sub_wf a b : WF a -> WF b -> WF (fst (rgn_sub a b)).
Proof. intros Ha Hb. apply (rgn_sub_spec a b Ha Hb). Qed.

Theorem rgn_sub_mem a b : WF a -> WF b ->
  forall x y, rgn_mem (fst (rgn_sub a b)) x y = rgn_mem a x y && negb (rgn_mem b x y).
Proof. intros Ha Hb. apply (rgn_sub_spec a b Ha Hb). Qed.

Theorem rgn_sub_bool a b : WF a -> WF b ->
  snd (rgn_sub a b) = negb (rgn_is_empty (fst (rgn_sub a b))).
Proof. intros Ha Hb. apply (rgn_sub_spec a b Ha Hb). Qed.

(* emptiness test = no pixel *)
Theorem is_empty_sem r : WF r ->
  (rgn_is_empty r = true <-> forall x y, rgn_mem r x y = false).
Proof.
  intros W. split.
  - destruct r; [reflexivity|discriminate].
  - intros H. destruct r as [|sp t]; [reflexivity|exfalso].
    destruct (memL_witness Py x_mem (sp :: t) Py_witness W ltac:(discriminate)) as (v & x & E).
    rewrite <- rgn_mem_memL, H in E. discriminate.
Qed.

Lemma create_rect_wf x1 y1 x2 y2 : x1 < x2 -> y1 < y2 -> WF (rgn_create_rect x1 y1 x2 y2).
Proof.
  intros Hx Hy. exists y1. cbn. repeat split; try lia; try discriminate.
  exists x1. cbn. repeat split; lia.
Qed.

Lemma sorted_from_offset {A} (P Q : A -> Prop) (f : A -> A) d lo (l : list (span A)) :
  (forall a, P a -> Q (f a)) ->
  sorted_from P lo l -> sorted_from Q (lo + d) (map (fun '(s, e, a) => (s + d, e + d, f a)) l).
Proof.
  intros HPQ. revert lo. induction l as [|[[s e] a] t IH]; intros lo H; cbn in *; [exact I|].
  destruct H as (H1 & H2 & H3 & H4). repeat split; try lia; [apply HPQ; assumption|apply IH; assumption].
Qed.

Lemma offset_wf r dx dy : WF r -> WF (rgn_offset r dx dy).
Proof.
  intros [lo H]. exists (lo + dy). unfold rgn_offset.
  apply (sorted_from_offset Py Py (fun xs => map (fun '(xs0, xe0, u) => (xs0 + dx, xe0 + dx, u)) xs) dy lo r);
    [|exact H].
  intros a [[lo2 Wa] Na]. split.
  - exists (lo2 + dx). apply (sorted_from_offset Px Px (fun u => u) dx lo2 a); [auto|exact Wa].
  - destruct a; [congruence|discriminate].
Qed.

(* ---------- iteration ---------- *)
Definition in_span_b (s e v : Z) : bool := (s <=? v) && (v <? e).

Lemma count_sorted {A} (P : A -> Prop) lo (l : list (span A)) v :
  sorted_from P lo l ->
  length (filter (fun '(s, e, _) => in_span_b s e v) l) =
  match lookup l v with Some _ => 1%nat | None => 0%nat end.
Proof.
  revert lo; induction l as [|[[s e] a] t IH]; intros lo H; cbn [filter lookup]; [reflexivity|].
  cbn in H. destruct H as (H1 & H2 & H3 & H4). unfold in_span_b at 1.
  destruct ((s <=? v) && (v <? e)) eqn:E.
  - cbn [length]. rewrite (IH e H4), (lookup_below A P e t v H4) by lia. reflexivity.
  - apply (IH e H4).
Qed.

Lemma flat_map_cons_eq {A B} (f : A -> list B) a l : flat_map f (a :: l) = f a ++ flat_map f l.
Proof. reflexivity. Qed.

Lemma filter_rev_length {A} (f : A -> bool) l : length (filter f (rev l)) = length (filter f l).
Proof.
  induction l as [|a l IH]; [reflexivity|]. cbn [rev]. rewrite filter_app, app_length, IH.
  cbn [filter]. destruct (f a); cbn [length]; lia.
Qed.

Lemma filter_flat_map_rev_length {A B} (f : B -> bool) (g : A -> list B) l :
  length (filter f (flat_map g (rev l))) = length (filter f (flat_map g l)).
Proof.
  induction l as [|a l IH]; [reflexivity|]. cbn [rev]. rewrite flat_map_app, filter_app, app_length, IH.
  cbn [flat_map]. rewrite app_nil_r, filter_app, app_length. lia.
Qed.

(* each pixel of the region lies in exactly one iterated rectangle, each other pixel in none:
   the rectangles are pairwise disjoint and their union is the region *)
Theorem iter_partition revX revY r x y : WF r ->
  length (filter (fun rc => rect_mem rc x y) (rgn_iter revX revY r)) =
  if rgn_mem r x y then 1%nat else 0%nat.
Proof.
  intros [lo W]. unfold rgn_iter.
  assert (H : length (filter (fun rc => rect_mem rc x y)
                (flat_map (fun '(y1, y2, xs) =>
                   map (fun '(x1, x2, _) => (x1, y1, x2, y2)) (if revX then rev xs else xs)) r)) =
              if rgn_mem r x y then 1%nat else 0%nat).
  { unfold rgn_mem. unfold rect in *. revert lo W. induction r as [|[[s e] xs] t IH]; intros lo W; [reflexivity|].
    cbn in W. destruct W as (H1 & H2 & [[lox Wx] Nx] & H4).
    cbn [lookup]. rewrite flat_map_cons_eq, filter_app, app_length. cbv beta iota.
    match goal with |- (length (filter ?f (map ?g ?l)) + _)%nat = _ =>
      assert (Hm : forall l0 : xspans,
                length (filter f (map g l0)) =
                if (s <=? y) && (y <? e)
                then length (filter (fun '(x1, x2, _) => in_span_b x1 x2 x) l0) else 0%nat)
    end.
    { induction l0 as [|[[x1 x2] u] l0 IHl]; cbn [map filter]; [destruct (_ && _); reflexivity|].
      change (rect_mem (x1, s, x2, e) x y) with ((x1 <=? x) && (x <? x2) && (s <=? y) && (y <? e)).
      unfold in_span_b at 1. rewrite <- andb_assoc.
      destruct ((s <=? y) && (y <? e)) eqn:Ey.
      - rewrite andb_true_r. destruct ((x1 <=? x) && (x <? x2)); cbn [length]; rewrite IHl; reflexivity.
      - rewrite andb_false_r. apply IHl. }
    rewrite Hm.
    match goal with |- context [if _ then ?t0 else 0%nat] =>
      assert (Hc : t0 = if x_mem xs x then 1%nat else 0%nat)
    end.
    { destruct revX; rewrite ?filter_rev_length; rewrite (count_sorted Px lox xs x Wx);
        unfold x_mem; destruct (lookup xs x); reflexivity. }
    rewrite Hc. clear Hm Hc.
    destruct ((s <=? y) && (y <? e)) eqn:Ey.
    - rewrite (IH e H4). rewrite (lookup_below _ Py e t y H4) by lia.
      destruct (x_mem xs x); reflexivity.
    - rewrite (IH e H4). reflexivity. }
  destruct revY; [rewrite filter_flat_map_rev_length|]; exact H.
Qed.

(* every iterated rectangle is non-empty *)
Theorem iter_nonempty revX revY r : WF r ->
  Forall (fun '(x1, y1, x2, y2) => x1 < x2 /\ y1 < y2) (rgn_iter revX revY r).
Proof.
  intros [lo W]. unfold rgn_iter. apply Forall_forall. intros [[[x1 y1] x2] y2] Hin.
  apply in_flat_map in Hin. destruct Hin as ([[s e] xs] & Hin1 & Hin2).
  assert (Hr : In (s, e, xs) r) by (destruct revY; [apply in_rev|]; assumption).
  apply in_map_iff in Hin2. destruct Hin2 as ([[a b] u] & Heq & Hin3).
  inversion Heq; subst.
  assert (Hxs : In (x1, x2, u) xs) by (destruct revX; [apply in_rev|]; assumption).
  assert (G : forall (A : Type) (P : A -> Prop) lo (l : list (span A)) s e a,
             sorted_from P lo l -> In (s, e, a) l -> s < e /\ P a).
  { intros A P lo0 l. revert lo0. induction l as [|[[s0 e0] a0] t IH]; intros lo0 s' e' a' Hs Hi;
      [destruct Hi|].
    cbn in Hs. destruct Hs as (K1 & K2 & K3 & K4). destruct Hi as [Hi|Hi].
    - inversion Hi; subst. split; assumption.
    - apply (IH e0 s' e' a' K4 Hi). }
  destruct (G _ Py lo r y1 y2 xs W Hr) as [Hy [[lox Wx] _]].
  destruct (G _ Px lox xs x1 x2 u Wx Hxs) as [Hx _]. split; assumption.
Qed.

(* bounding box *)
Lemma bbox_fold_x (xs : xspans) xmin xmax :
  let '(a, b) := fold_left (fun '(xmin, xmax) '(xs0, xe0, _) =>
                   (if xs0 <? xmin then xs0 else xmin, if xe0 >? xmax then xe0 else xmax))
                 xs (xmin, xmax) in
  a <= xmin /\ xmax <= b /\
  (forall x, x_mem xs x = true -> a <= x < b) /\
  (forall s e u, In (s, e, u) xs -> a <= s /\ e <= b) /\
  (a = xmin \/ exists s e u, In (s, e, u) xs /\ a = s) /\
  (b = xmax \/ exists s e u, In (s, e, u) xs /\ b = e).
Proof.
  revert xmin xmax. induction xs as [|[[s e] u] t IH]; intros xmin xmax; cbn [fold_left].
  - split; [lia|]. split; [lia|]. split; [intros x Hx; discriminate|].
    split; [intros ? ? ? []|]. split; left; reflexivity.
  - specialize (IH (if s <? xmin then s else xmin) (if e >? xmax then e else xmax)).
    destruct (fold_left _ t _) as [a b]. destruct IH as (I1 & I2 & I3 & I4 & I5 & I6).
    split; [destruct (s <? xmin) eqn:?; lia|]. split; [destruct (e >? xmax) eqn:?; lia|].
    split.
    { intros x Hx. unfold x_mem in Hx. cbn [lookup] in Hx.
      destruct ((s <=? x) && (x <? e)) eqn:E.
      - destruct (s <? xmin) eqn:?; destruct (e >? xmax) eqn:?; lia.
      - apply I3. exact Hx. }
    split.
    { intros s' e' u' [Hin|Hin].
      - inversion Hin; subst. destruct (s' <? xmin) eqn:?; destruct (e' >? xmax) eqn:?; lia.
      - apply (I4 s' e' u' Hin). }
    split.
    { destruct I5 as [I5|(s' & e' & u' & Hin & Ha)].
      - destruct (s <? xmin) eqn:?; [right; exists s, e, u; split; [left; reflexivity|lia]|left; lia].
      - right. exists s', e', u'. split; [right; assumption|assumption]. }
    { destruct I6 as [I6|(s' & e' & u' & Hin & Ha)].
      - destruct (e >? xmax) eqn:?; [right; exists s, e, u; split; [left; reflexivity|lia]|left; lia].
      - right. exists s', e', u'. split; [right; assumption|assumption]. }
Qed.

Definition bbox_step : Z * Z * Z * Z -> span xspans -> Z * Z * Z * Z :=
  fun '(xmin, ymin, xmax, ymax) '(s, e, xs) =>
    let ymin := if s <? ymin then s else ymin in
    let ymax := if e >? ymax then e else ymax in
    let '(xmin, xmax) :=
        fold_left (fun '(xmin, xmax) '(xs0, xe0, _) =>
                     (if xs0 <? xmin then xs0 else xmin, if xe0 >? xmax then xe0 else xmax))
                  xs (xmin, xmax) in
    (xmin, ymin, xmax, ymax).

Lemma rgn_bbox_unfold r :
  rgn_bbox r =
  let '(xmin, ymin, xmax, ymax) :=
      fold_left bbox_step r (INT_MAX, INT_MAX, 1 - INT_MAX, 1 - INT_MAX) in
  if (xmax <? xmin) || (ymax <? ymin) then rgn_empty else rgn_create_rect xmin ymin xmax ymax.
Proof. reflexivity. Qed.

Lemma bbox_fold_y x y : forall t lo0 xmin ymin xmax ymax, sorted_from Py lo0 t ->
  let '(a, b, c, d) := fold_left bbox_step t (xmin, ymin, xmax, ymax) in
  a <= xmin /\ b <= ymin /\ xmax <= c /\ ymax <= d /\
  (rgn_mem t x y = true -> a <= x < c /\ b <= y < d) /\
  (t <> [] -> a < c /\ b < d).
Proof.
  induction t as [|[[s e] xs] t IH]; intros lo0 xmin ymin xmax ymax Wt; cbn [fold_left].
  - repeat split; try lia; try (intros; discriminate); intros; congruence.
  - cbn in Wt. destruct Wt as (K1 & K2 & [[lox Wx] Nx] & K4).
    unfold bbox_step at 2.
    pose proof (bbox_fold_x xs xmin xmax) as Bx. cbv beta iota zeta.
    match type of Bx with context [fold_left ?f0 xs ?i0] =>
      destruct (fold_left f0 xs i0) as [xa xb] end.
    destruct Bx as (B1 & B2 & B3 & B4 & _).
    specialize (IH e xa (if s <? ymin then s else ymin) xb (if e >? ymax then e else ymax) K4).
    destruct (fold_left bbox_step t _) as [[[a b] c] d].
    destruct IH as (I1 & I2 & I3 & I4 & I5 & _).
    split; [lia|]. split; [destruct (s <? ymin) eqn:?; lia|]. split; [lia|].
    split; [destruct (e >? ymax) eqn:?; lia|]. split.
    + intros Hmem. unfold rgn_mem in Hmem. cbn [lookup] in Hmem.
      destruct ((s <=? y) && (y <? e)) eqn:E.
      * specialize (B3 x Hmem). destruct (s <? ymin) eqn:?; destruct (e >? ymax) eqn:?; lia.
      * apply I5. exact Hmem.
    + intros _. destruct xs as [|[[x1 x2] u] xt]; [congruence|].
      destruct (B4 x1 x2 u (or_introl eq_refl)) as [Q1 Q2].
      cbn in Wx. destruct Wx as (_ & Wx & _).
      destruct (s <? ymin) eqn:?; destruct (e >? ymax) eqn:?; lia.
Qed.

Theorem bbox_sup r x y : WF r -> rgn_mem r x y = true -> rgn_mem (rgn_bbox r) x y = true.
Proof.
  intros [lo W] Hm. rewrite rgn_bbox_unfold.
  pose proof (bbox_fold_y x y r lo INT_MAX INT_MAX (1 - INT_MAX) (1 - INT_MAX) W) as G.
  destruct (fold_left bbox_step r _) as [[[a b] c] d].
  destruct G as (_ & _ & _ & _ & G & _). specialize (G Hm).
  replace ((c <? a) || (d <? b)) with false by lia.
  rewrite create_rect_mem. unfold rect_mem. lia.
Qed.

Theorem bbox_wf r : WF r -> WF (rgn_bbox r).
Proof.
  intros [lo W]. rewrite rgn_bbox_unfold.
  pose proof (bbox_fold_y 0 0 r lo INT_MAX INT_MAX (1 - INT_MAX) (1 - INT_MAX) W) as G.
  destruct (fold_left bbox_step r _) as [[[a b] c] d] eqn:E.
  destruct G as (_ & _ & _ & _ & _ & G).
  destruct r as [|sp t].
  - cbn in E. inversion E; subst. cbn. apply WF_empty.
  - destruct (G ltac:(discriminate)) as [G1 G2].
    replace ((c <? a) || (d <? b)) with false by lia. apply create_rect_wf; assumption.
Qed.
