(* Tactics for membership equations over span lists. *)
From LV Require Import Region.RegionDefs Region.RegionSem.
From Coq Require Import ZifyBool.
Local Open Scope Z_scope.

(* split the line at point a relative to v, pruning impossible regions at once *)
Ltac zsplit v a := destruct (Z.lt_ge_cases v a); try (exfalso; lia).

(* decide every integer comparison occurring in the goal by lia *)
Ltac decide_cmp :=
  repeat match goal with
         | |- context [?a <=? ?b] =>
           first [ replace (a <=? b) with true by lia | replace (a <=? b) with false by lia ]
         | |- context [?a <? ?b] =>
           first [ replace (a <? b) with true by lia | replace (a <? b) with false by lia ]
         end.

(* membership of an abstract list outside its range is false *)
Ltac kill_mem :=
  repeat match goal with
         | H : sorted_down _ ?hi ?p |- context [memL ?f ?p ?v ?x] =>
           rewrite (memL_above _ _ _ f hi p v x H) by lia
         | H : sorted_from _ ?lo ?l |- context [memL ?f ?l ?v ?x] =>
           rewrite (memL_below _ _ _ f lo l v x H) by lia
         end.

(* destruct the remaining boolean atoms and close *)
Ltac atoms_finish amem :=
  cbn [andb orb negb];
  repeat match goal with
         | |- context [memL amem ?l ?v ?x] => destruct (memL amem l v x)
         | |- context [amem ?a ?x] => destruct (amem a x)
         | |- context [?a <=? ?b] => destruct (a <=? b) eqn:?
         | |- context [?a <? ?b] => destruct (a <? b) eqn:?
         end;
  cbn [andb orb negb]; intros;
  first [ reflexivity | congruence | exfalso; lia | discriminate ].

(* after the relevant zsplits: normalise, decide, finish *)
Ltac mem_crush amem :=
  rewrite ?memL_cons, ?memL_nil; unfold msp;
  kill_mem; decide_cmp; kill_mem; atoms_finish amem.
