(* Iteration order: in every direction the iterated rectangles are ordered monotonically
   (by band in y, and by x inside a band). *)
From LV Require Import Region.RegionDefs Region.RegionSem Region.RegionProofs.
From Coq Require Import ZifyBool.
Local Open Scope Z_scope.

Fixpoint allpairs {A} (R : A -> A -> Prop) (l : list A) : Prop :=
  match l with [] => True | a :: t => Forall (R a) t /\ allpairs R t end.

Lemma allpairs_app {A} (R : A -> A -> Prop) l1 l2 :
  allpairs R l1 -> allpairs R l2 -> Forall (fun a => Forall (R a) l2) l1 -> allpairs R (l1 ++ l2).
Proof.
  induction l1 as [|a t IH]; intros H1 H2 H12; cbn; [assumption|].
  destruct H1 as [Ha Ht]. inversion H12; subst. split.
  - apply Forall_app. split; assumption.
  - apply IH; assumption.
Qed.

Lemma allpairs_rev {A} (R : A -> A -> Prop) l :
  allpairs (fun a b => R b a) l -> allpairs R (rev l).
Proof.
  induction l as [|a t IH]; intros H; cbn; [exact I|]. destruct H as [Ha Ht].
  apply allpairs_app; [apply IH; assumption|cbn; split; [constructor|exact I]|].
  apply Forall_forall. intros b Hb. constructor; [|constructor].
  apply in_rev in Hb. rewrite Forall_forall in Ha. apply Ha. assumption.
Qed.

Lemma allpairs_map {A B} (R : B -> B -> Prop) (g : A -> B) l :
  allpairs (fun a b => R (g a) (g b)) l -> allpairs R (map g l).
Proof.
  induction l as [|a t IH]; intros H; cbn; [exact I|]. destruct H as [Ha Ht]. split; [|apply IH; assumption].
  apply Forall_map. exact Ha.
Qed.

Lemma allpairs_flat_map {A B} (R : B -> B -> Prop) (g : A -> list B) l :
  (forall a, In a l -> allpairs R (g a)) ->
  allpairs (fun a b => forall u v, In u (g a) -> In v (g b) -> R u v) l ->
  allpairs R (flat_map g l).
Proof.
  induction l as [|a t IH]; intros Hg H; cbn; [exact I|]. destruct H as [Ha Ht].
  apply allpairs_app.
  - apply Hg. left; reflexivity.
  - apply IH; [intros b Hb; apply Hg; right; assumption|assumption].
  - apply Forall_forall. intros u Hu. apply Forall_forall. intros v Hv.
    apply in_flat_map in Hv. destruct Hv as (b & Hb & Hv).
    rewrite Forall_forall in Ha. apply (Ha b Hb u v Hu Hv).
Qed.

Lemma allpairs_impl {A} (R Q : A -> A -> Prop) l :
  (forall a b, In a l -> In b l -> R a b -> Q a b) -> allpairs R l -> allpairs Q l.
Proof.
  induction l as [|a t IH]; intros HRQ H; cbn; [exact I|]. destruct H as [Ha Ht]. split.
  - rewrite Forall_forall in *. intros b Hb. apply HRQ; [left; reflexivity|right; assumption|apply Ha; assumption].
  - apply IH; [|assumption]. intros x y Hx Hy. apply HRQ; right; assumption.
Qed.

(* sortedness gives the all-pairs order of span ends/starts *)
Lemma sorted_allpairs {A} (P : A -> Prop) lo (l : list (span A)) :
  sorted_from P lo l ->
  allpairs (fun '(s1, e1, _) '(s2, e2, _) => e1 <= s2) l /\
  Forall (fun '(s, e, a) => lo <= s /\ s < e /\ P a) l.
Proof.
  revert lo; induction l as [|[[s e] a] t IH]; intros lo H; cbn; [split; [exact I|constructor]|].
  cbn in H. destruct H as (H1 & H2 & H3 & H4). destruct (IH e H4) as [I1 I2]. split; [split|].
  - rewrite Forall_forall in *. intros [[s2 e2] a2] Hin. specialize (I2 _ Hin). cbn in I2. lia.
  - assumption.
  - constructor; [repeat split; assumption|].
    rewrite Forall_forall in *. intros [[s2 e2] a2] Hin. specialize (I2 _ Hin). cbn in I2.
    destruct I2 as (J1 & J2 & J3). repeat split; try assumption; lia.
Qed.

Definition rect_before (rx ry : bool) (a b : rect) : Prop :=
  let '(ax1, ay1, ax2, ay2) := a in
  let '(bx1, by1, bx2, by2) := b in
  (ay1 = by1 /\ ay2 = by2 /\ (if rx then bx2 <= ax1 else ax2 <= bx1)) \/
  (if ry then by2 <= ay1 else ay2 <= by1).

Lemma band_order rx ry (xs : xspans) lo y1 y2 :
  sorted_from Px lo xs ->
  allpairs (rect_before rx ry)
           (map (fun '(x1, x2, _) => (x1, y1, x2, y2)) (if rx then rev xs else xs)).
Proof.
  intros W. destruct (sorted_allpairs Px lo xs W) as [O _].
  apply allpairs_map. destruct rx.
  - apply allpairs_rev. revert O. apply allpairs_impl.
    intros [[s1 e1] u1] [[s2 e2] u2] _ _ H. cbn. left. repeat split; lia.
  - revert O. apply allpairs_impl.
    intros [[s1 e1] u1] [[s2 e2] u2] _ _ H. cbn. left. repeat split; lia.
Qed.

Theorem iter_monotone rx ry r : WF r -> allpairs (rect_before rx ry) (rgn_iter rx ry r).
Proof.
  intros [lo W]. unfold rgn_iter.
  destruct (sorted_allpairs Py lo r W) as [O F].
  apply allpairs_flat_map.
  - intros [[s e] xs] Hin.
    assert (Hr : In (s, e, xs) r) by (destruct ry; [apply in_rev|]; assumption).
    rewrite Forall_forall in F. specialize (F _ Hr). cbn in F. destruct F as (_ & _ & [[lox Wx] _]).
    apply (band_order rx ry xs lox s e Wx).
  - assert (K : forall (a b : span xspans), (let '(s1, e1, _) := a in let '(s2, e2, _) := b in
                  if ry then e2 <= s1 else e1 <= s2) ->
              forall u v,
                In u (let '(y1, y2, xs) := a in map (fun '(x1, x2, _) => (x1, y1, x2, y2)) (if rx then rev xs else xs)) ->
                In v (let '(y1, y2, xs) := b in map (fun '(x1, x2, _) => (x1, y1, x2, y2)) (if rx then rev xs else xs)) ->
                rect_before rx ry u v).
    { intros [[s1 e1] xs1] [[s2 e2] xs2] H u v Hu Hv.
      apply in_map_iff in Hu. destruct Hu as ([[a1 a2] ua] & Eu & _).
      apply in_map_iff in Hv. destruct Hv as ([[b1 b2] ub] & Ev & _).
      subst u v. cbn. right. exact H. }
    destruct ry.
    + apply allpairs_rev. revert O. apply allpairs_impl.
      intros [[s1 e1] xs1] [[s2 e2] xs2] _ _ H. apply (K (s2, e2, xs2) (s1, e1, xs1)). exact H.
    + revert O. apply allpairs_impl.
      intros [[s1 e1] xs1] [[s2 e2] xs2] _ _ H. apply (K (s1, e1, xs1) (s2, e2, xs2)). exact H.
Qed.

(* sraRgnPopRect with flags = 0 (the only use in the library: first rectangle, top-left first):
   the region splits into the popped rectangle and the rest *)
Theorem pop_rect_sem r : WF r ->
  match rgn_pop_rect r false false with
  | None => r = []
  | Some (rc, r') =>
      WF r' /\
      (let '(x1, y1, x2, y2) := rc in x1 < x2 /\ y1 < y2) /\
      forall x y, rgn_mem r x y = rect_mem rc x y || rgn_mem r' x y
  end.
Proof.
  intros [lo W]. unfold rgn_pop_rect.
  destruct r as [|[[y1 y2] xs] rest]; [reflexivity|].
  cbn in W. destruct W as (H1 & H2 & [[lox Wx] Nx] & H4).
  destruct xs as [|[[x1 x2] u] xrest]; [congruence|].
  cbn in Wx. destruct Wx as (X1 & X2 & _ & X4).
  split; [|split; [split; assumption|]].
  - destruct xrest as [|sp xr].
    + exists y2. exact H4.
    + exists lo. cbn. repeat split; try lia; try assumption; try discriminate.
      exists x2. exact X4.
  - intros x y. unfold rgn_mem, rect_mem. cbn [lookup]. rewrite <- andb_assoc.
    destruct ((y1 <=? y) && (y <? y2)) eqn:Ey.
    + rewrite andb_true_r.
      assert (Hrest : lookup rest y = None) by (apply (lookup_below _ Py y2 rest y H4); lia).
      destruct xrest as [|sp xr].
      * rewrite Hrest. unfold x_mem. cbn [lookup]. destruct ((x1 <=? x) && (x <? x2)); reflexivity.
      * cbn [lookup]. rewrite Ey. unfold x_mem. cbn [lookup].
        destruct ((x1 <=? x) && (x <? x2)); reflexivity.
    + rewrite andb_false_r. cbn [orb].
      destruct xrest as [|sp xr]; [reflexivity|]. cbn [lookup]. rewrite Ey. reflexivity.
Qed.
