(* Easy facts about the region model: clipping (on the re-translated C functions),
   rectangle creation, offset, count = number of iterated rectangles. *)
From LV Require Import Region.RegionDefs Gen.Funs_C11.
From Coq Require Import ZifyBool.
Local Open Scope Z_scope.

Ltac split_ifs :=
  repeat match goal with
         | |- context [if ?c then _ else _] =>
           lazymatch c with
           | context [if _ then _ else _] => fail
           | _ => destruct c eqn:?
           end
         end.

(* sraClipRect computes the intersection of (x,y,w,h) with (cx,cy,cw,ch) *)
Lemma clip_rect_sem x y w h cx cy cw ch :
  let '(b, x', y', w', h') := sraClipRect x y w h cx cy cw ch in
  x' = Z.max x cx /\ y' = Z.max y cy /\
  x' + w' = Z.min (x + w) (cx + cw) /\ y' + h' = Z.min (y + h) (cy + ch) /\
  (b = true <-> (0 < w' /\ 0 < h')).
Proof.
  unfold sraClipRect.
  split_ifs; repeat split; lia.
Qed.

Lemma clip_rect_mem x y w h cx cy cw ch px py :
  let '(b, x', y', w', h') := sraClipRect x y w h cx cy cw ch in
  rect_mem (x', y', x' + w', y' + h') px py =
  rect_mem (x, y, x + w, y + h) px py && rect_mem (cx, cy, cx + cw, cy + ch) px py.
Proof.
  pose proof (clip_rect_sem x y w h cx cy cw ch) as H.
  destruct (sraClipRect x y w h cx cy cw ch) as [[[[b x'] y'] w'] h'].
  destruct H as (Hx & Hy & Hw & Hh & _). unfold rect_mem. lia.
Qed.

(* sraClipRect2, when it answers "true" on a non-empty clip box, returns the intersection
   whenever the intersection is non-empty; and always returns a rectangle inside the box. *)
Lemma clip_rect2_inside x y x2 y2 cx cy cx2 cy2 :
  cx < cx2 -> cy < cy2 ->
  let '(b, x', y', x2', y2') := sraClipRect2 x y x2 y2 cx cy cx2 cy2 in
  cx <= x' < cx2 /\ cy <= y' < cy2 /\ cx < x2' <= cx2 /\ cy < y2' <= cy2 /\
  (b = true <-> (x' < x2' /\ y' < y2')).
Proof.
  intros Hx Hy. unfold sraClipRect2.
  split_ifs; repeat split; lia.
Qed.

Lemma clip_rect2_sem x y x2 y2 cx cy cx2 cy2 :
  Z.max x cx < Z.min x2 cx2 -> Z.max y cy < Z.min y2 cy2 ->
  sraClipRect2 x y x2 y2 cx cy cx2 cy2 =
  (true, Z.max x cx, Z.max y cy, Z.min x2 cx2, Z.min y2 cy2).
Proof.
  intros Hx Hy. unfold sraClipRect2.
  split_ifs; repeat f_equal; lia.
Qed.

Lemma create_rect_mem x1 y1 x2 y2 x y :
  rgn_mem (rgn_create_rect x1 y1 x2 y2) x y = rect_mem (x1, y1, x2, y2) x y.
Proof.
  unfold rgn_mem, rgn_create_rect, rect_mem, x_mem, lookup.
  destruct ((y1 <=? y) && (y <? y2)) eqn:E1; destruct ((x1 <=? x) && (x <? x2)) eqn:E2; lia.
Qed.

Lemma x_offset_mem (xs : xspans) dx x :
  x_mem (map (fun '(xs0, xe0, u) => (xs0 + dx, xe0 + dx, u)) xs) x = x_mem xs (x - dx).
Proof.
  unfold x_mem. induction xs as [|[[s e] u] xs IH]; cbn [map lookup]; [reflexivity|].
  replace ((s + dx <=? x) && (x <? e + dx)) with ((s <=? x - dx) && (x - dx <? e)) by lia.
  destruct ((s <=? x - dx) && (x - dx <? e)); [reflexivity|apply IH].
Qed.

Lemma offset_mem r dx dy x y :
  rgn_mem (rgn_offset r dx dy) x y = rgn_mem r (x - dx) (y - dy).
Proof.
  unfold rgn_mem, rgn_offset.
  induction r as [|[[s e] xs] r IH]; cbn [map lookup]; [reflexivity|].
  replace ((s + dy <=? y) && (y <? e + dy)) with ((s <=? y - dy) && (y - dy <? e)) by lia.
  destruct ((s <=? y - dy) && (y - dy <? e)); [apply x_offset_mem|apply IH].
Qed.

Lemma fold_count_acc (r : region) acc :
  fold_left (fun acc '(_, _, xs) => acc + x_count xs) r acc =
  acc + fold_left (fun acc '(_, _, xs) => acc + x_count xs) r 0.
Proof.
  revert acc; induction r as [|[[s e] xs] r IH]; intros acc; cbn [fold_left]; [lia|].
  rewrite IH, (IH (0 + x_count xs)). lia.
Qed.

Lemma length_flat_map_rev {A B} (f : A -> list B) l :
  length (flat_map f (rev l)) = length (flat_map f l).
Proof.
  induction l as [|a l IH]; [reflexivity|].
  change (rev (a :: l)) with (rev l ++ [a]).
  rewrite flat_map_app, app_length, IH.
  change (a :: l) with ([a] ++ l). rewrite flat_map_app, app_length. lia.
Qed.

Lemma iter_length_rev revX (r : region) :
  length (rgn_iter revX true r) = length (rgn_iter revX false r).
Proof. unfold rgn_iter. apply length_flat_map_rev. Qed.

Lemma count_iter revX revY r :
  rgn_count r = Z.of_nat (length (rgn_iter revX revY r)).
Proof.
  assert (H : forall r, rgn_count r = Z.of_nat (length (rgn_iter revX false r))).
  { induction r0 as [|[[s e] xs] r0 IH]; [reflexivity|].
    unfold rgn_count in *. cbn [fold_left]. rewrite fold_count_acc, IH.
    unfold rgn_iter. cbn [flat_map]. rewrite app_length, map_length.
    unfold x_count. rewrite Nat2Z.inj_add. f_equal.
    destruct revX; cbv iota; rewrite ?rev_length; apply Z.add_0_l. }
  destruct revY; [|apply H].
  rewrite H, iter_length_rev. reflexivity.
Qed.
