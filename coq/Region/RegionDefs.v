(* Mirror model of src/libvncserver/rfbregion.c  (DESIGN.md section 5, C11).
   A span list is a list of (start, end, payload); a region is a span list in y whose
   payloads are span lists in x (payload unit).  The doubly linked list with a cursor
   d_curr is a zipper: [p] = spans before d_curr, nearest first; [d] = d_curr :: later
   spans ([] when d_curr is the back sentinel).  Only definitions here: the model must keep
   running when a proof breaks. *)
From Coq Require Export List ZArith Bool Lia.
Export ListNotations.
Local Open Scope Z_scope.

Definition span (A : Type) : Type := (Z * Z * A)%type.
Definition xspans : Type := list (span unit).
Definition region : Type := list (span xspans).
Definition rect : Type := (Z * Z * Z * Z)%type.   (* x1, y1, x2, y2 *)

(* what the fuelled loops return when the fuel runs out: one span [2^32, -2^32), which no C int
   can hold.  For well-formed operands this never happens (or/and/sub_loop_total); for any other
   input it makes the exhaustion visible in the extracted model instead of a normal-looking region. *)
Definition POISON_S : Z := 4294967296.
Definition POISON_E : Z := -4294967296.
Definition poison {A} (dest : list (span A)) : list (span A) :=
  match dest with
  | (_, _, da) :: _ => [(POISON_S, POISON_E, da)]
  | [] => []        (* with an empty destination every loop returns in its first step *)
  end.

Section Level.
  Variable A : Type.
  Variable a_eqb : A -> A -> bool.            (* sraSpanListEqual on the payloads *)
  Variable a_or  : A -> A -> A.               (* recursive sraSpanListOr on the payloads *)
  Variable a_and : A -> A -> A * bool.        (* recursive And: new payload, "non-empty" *)
  Variable a_sub : A -> A -> A * bool.        (* recursive Subtract (leaf: removed) *)

  (* sraSpanMergePrevious(dest): dest = (ds, _, da), p = the spans before it *)
  Fixpoint merge_prev (p : list (span A)) (ds : Z) (da : A) : list (span A) * Z :=
    match p with
    | (ps, pe, pa) :: p' =>
        if (pe =? ds) && a_eqb pa da then merge_prev p' ps da else (p, ds)
    | [] => (p, ds)
    end.

  (* sraSpanMergeNext(dest): dest = (_, de, da), n = the spans after it *)
  Fixpoint merge_next (n : list (span A)) (de : Z) (da : A) : list (span A) * Z :=
    match n with
    | (ns, ne, na) :: n' =>
        if (ns =? de) && a_eqb na da then merge_next n' ne da else (n, de)
    | [] => (n, de)
    end.

  (* sraSpanListOr: the while loop.  (ss,se,sa) = s_start, s_end, s_curr->subspan; sr = the
     source spans after s_curr. *)
  Fixpoint or_loop (fuel : nat) (p d : list (span A)) (ss se : Z) (sa : A)
           (sr : list (span A)) : option (list (span A)) :=
    match fuel with
    | O => None
    | S f =>
      let next_src p' d' :=
          match sr with
          | [] => Some (rev_append p' d')
          | (s2, e2, a2) :: sr' => or_loop f p' d' s2 e2 a2 sr'
          end in
      match d with
      | [] => next_src ((ss, se, sa) :: p) []
      | (ds, de, da) :: dn =>
        if ds >=? se then
          let '(p2, ds2) := merge_prev ((ss, se, sa) :: p) ds da in
          next_src p2 ((ds2, de, da) :: dn)
        else if (ss <? de) && (se >? ds) then
          let '(p1, ds1) := if ss <? ds then merge_prev ((ss, ds, sa) :: p) ds da else (p, ds) in
          let '(de1, dn1) := if se <? de then (se, (se, de, da) :: dn) else (de, dn) in
          let '(p2, ds2) := if ss >? ds1 then ((ds1, ss, da) :: p1, ss) else (p1, ds1) in
          let da' := a_or da sa in
          let '(p3, ds3) := merge_prev p2 ds2 da' in
          let '(dn2, de2) := merge_next dn1 de1 da' in
          if se >? de2 then or_loop f ((ds3, de2, da') :: p3) dn2 de2 se sa sr
          else next_src p3 ((ds3, de2, da') :: dn2)
        else or_loop f ((ds, de, da) :: p) dn ss se sa sr
      end
    end.

  Definition or_fuel (dest src : list (span A)) : nat := S (S (4 * length src + 2 * length dest)).

  Definition span_or (dest src : list (span A)) : list (span A) :=
    match src with
    | [] => dest
    | (ss, se, sa) :: sr =>
        match or_loop (or_fuel dest src) [] dest ss se sa sr with
        | Some r => r
        | None => [(POISON_S, POISON_E, sa)]     (* out of fuel: unreachable for well-formed operands
                                                    (or_loop_total); a span no C int can hold, so that
                                                    the correspondence check sees it on any other input *)
        end
    end.

  (* sraSpanListAnd *)
  Fixpoint and_loop (fuel : nat) (p d s : list (span A)) : option (list (span A)) :=
    match fuel with
    | O => None
    | S f =>
      match d, s with
      | [], _ => Some (rev_append p [])
      | _, [] => Some (rev_append p [])           (* trailing loop removes the rest of dest *)
      | (ds, de, da) :: dn, (ss, se, sa) :: sr =>
        if ds >=? se then and_loop f p d sr
        else if de <=? ss then and_loop f p dn s
        else
          let ds1 := if ss >? ds then ss else ds in
          let '(de1, dn1) := if se <? de then (se, (se, de, da) :: dn) else (de, dn) in
          let '(da', ne) := a_and da sa in
          if negb ne then and_loop f p dn1 s
          else
            let '(p1, ds2) := merge_prev p ds1 da' in
            let s' := if se <=? de1 then sr else s in
            if se >=? de1 then and_loop f ((ds2, de1, da') :: p1) dn1 s'
            else and_loop f p1 ((ds2, de1, da') :: dn1) s'
      end
    end.

  Definition and_fuel (dest src : list (span A)) : nat := S (S (4 * length src + 2 * length dest)).

  Definition span_and (dest src : list (span A)) : list (span A) * bool :=
    let r := match and_loop (and_fuel dest src) [] dest src with
             | Some r => r
             | None => poison dest   (* out of fuel: unreachable for well-formed operands (and_loop_total) *)
             end in
    (r, match r with [] => false | _ => true end).

  (* sraSpanListSubtract *)
  Fixpoint sub_loop (fuel : nat) (p d s : list (span A)) : option (list (span A)) :=
    match fuel with
    | O => None
    | S f =>
      match d, s with
      | [], _ => Some (rev_append p d)
      | _, [] => Some (rev_append p d)
      | (ds, de, da) :: dn, (ss, se, sa) :: sr =>
        if ds >=? se then sub_loop f p d sr
        else if de <=? ss then sub_loop f ((ds, de, da) :: p) dn s
        else
          let '(p1, ds1) := if ss >? ds then ((ds, ss, da) :: p, ss) else (p, ds) in
          let '(de1, dn1) := if se <? de then (se, (se, de, da) :: dn) else (de, dn) in
          let '(da', ne) := a_sub da sa in
          if negb ne then sub_loop f p1 dn1 s
          else
            let '(p2, ds2) := merge_prev p1 ds1 da' in
            let '(dn2, de2) := merge_next dn1 de1 da' in
            if se >? de2 then sub_loop f ((ds2, de2, da') :: p2) dn2 s
            else sub_loop f p2 ((ds2, de2, da') :: dn2) sr
      end
    end.

  Definition sub_fuel (dest src : list (span A)) : nat := S (S (4 * length src + 2 * length dest)).

  Definition span_sub (dest src : list (span A)) : list (span A) * bool :=
    let r := match sub_loop (sub_fuel dest src) [] dest src with
             | Some r => r
             | None => poison dest   (* out of fuel: unreachable for well-formed operands (sub_loop_total) *)
             end in
    (r, match r with [] => false | _ => true end).

  (* sraSpanListEqual *)
  Fixpoint spans_eqb (l1 l2 : list (span A)) : bool :=
    match l1, l2 with
    | [], [] => true
    | (s1, e1, a1) :: t1, (s2, e2, a2) :: t2 =>
        (s1 =? s2) && (e1 =? e2) && a_eqb a1 a2 && spans_eqb t1 t2
    | _, _ => false
    end.
End Level.

Arguments merge_prev {A}.
Arguments merge_next {A}.
Arguments or_loop {A}.
Arguments and_loop {A}.
Arguments sub_loop {A}.
Arguments span_or {A}.
Arguments span_and {A}.
Arguments span_sub {A}.
Arguments spans_eqb {A}.

(* ---- the two levels ---- *)
Definition u_eqb (_ _ : unit) : bool := true.          (* sraSpanListEqual(NULL,NULL) = 1 *)
Definition u_or (_ _ : unit) : unit := tt.             (* sraSpanListOr(NULL,NULL): nothing *)
Definition u_and (_ _ : unit) : unit * bool := (tt, true).   (* sraSpanListAnd(NULL,NULL) = 1 *)
Definition u_sub (_ _ : unit) : unit * bool := (tt, false).  (* !d_curr->subspan: removed *)

Definition x_eqb : xspans -> xspans -> bool := spans_eqb u_eqb.
Definition x_or : xspans -> xspans -> xspans := span_or u_eqb u_or.
Definition x_and : xspans -> xspans -> xspans * bool := span_and u_eqb u_and.
Definition x_sub : xspans -> xspans -> xspans * bool := span_sub u_eqb u_sub.

Definition rgn_or : region -> region -> region := span_or x_eqb x_or.
Definition rgn_and : region -> region -> region * bool := span_and x_eqb x_and.
Definition rgn_sub : region -> region -> region * bool := span_sub x_eqb x_sub.

Definition rgn_empty : region := [].
Definition rgn_create_rect (x1 y1 x2 y2 : Z) : region := [(y1, y2, [(x1, x2, tt)])].
Definition rgn_is_empty (r : region) : bool := match r with [] => true | _ => false end.

Definition rgn_offset (r : region) (dx dy : Z) : region :=
  map (fun '(s, e, xs) => (s + dy, e + dy, map (fun '(xs0, xe0, u) => (xs0 + dx, xe0 + dx, u)) xs)) r.

Definition x_count (xs : xspans) : Z := Z.of_nat (length xs).
Definition rgn_count (r : region) : Z :=
  fold_left (fun acc '(_, _, xs) => acc + x_count xs) r 0.

(* sraRgnBBox with its INT_MAX initial values *)
Definition INT_MAX : Z := 2147483647.
Definition rgn_bbox (r : region) : region :=
  let step '(xmin, ymin, xmax, ymax) '(s, e, xs) :=
      let ymin := if s <? ymin then s else ymin in
      let ymax := if e >? ymax then e else ymax in
      let '(xmin, xmax) :=
          fold_left (fun '(xmin, xmax) '(xs0, xe0, _) =>
                       (if xs0 <? xmin then xs0 else xmin, if xe0 >? xmax then xe0 else xmax))
                    xs (xmin, xmax) in
      (xmin, ymin, xmax, ymax) in
  let '(xmin, ymin, xmax, ymax) := fold_left step r (INT_MAX, INT_MAX, 1 - INT_MAX, 1 - INT_MAX) in
  if (xmax <? xmin) || (ymax <? ymin) then rgn_empty else rgn_create_rect xmin ymin xmax ymax.

(* sraRgnGetReverseIterator / sraRgnIteratorNext: the rectangles in the order produced *)
Definition rgn_iter (revX revY : bool) (r : region) : list rect :=
  flat_map (fun '(y1, y2, xs) =>
              map (fun '(x1, x2, _) => (x1, y1, x2, y2)) (if revX then rev xs else xs))
           (if revY then rev r else r).

(* The iterator as the two-level cursor machine it is in C (sraRgnGetReverseIterator /
   sraRgnIteratorNext): sPtrs[0] walks the bands in the y direction - [it_bands] are the bands
   still to come -, sPtrs[2] walks the spans of the current band in the x direction - [it_cur] is
   that band with the spans still to come.  One call of sraRgnIteratorNext = [iter_next]. *)
Record iter_state : Type := mk_iter { it_revx : bool; it_bands : region; it_cur : option (Z * Z * xspans) }.

Definition iter_init (revX revY : bool) (r : region) : iter_state :=
  mk_iter revX (if revY then rev r else r) None.

Inductive iter_result : Type :=
| IterEnd                                   (* returns 0 *)
| IterRect (rc : rect) (st : iter_state)    (* returns -1 with the rectangle filled in *)
| IterUndefined.                            (* a band without spans: the C code reads a sentinel's fields *)

(* "is the subspan finished?" popped to the y level, or the first call: go to the next band and
   enter its span list from the requested end *)
Definition iter_enter (revx : bool) (bands : region) : iter_result :=
  match bands with
  | [] => IterEnd
  | (y1, y2, xs) :: br =>
      match (if revx then rev xs else xs) with
      | (x1, x2, _) :: xr => IterRect (x1, y1, x2, y2) (mk_iter revx br (Some (y1, y2, xr)))
      | [] => IterUndefined
      end
  end.

Definition iter_next (st : iter_state) : iter_result :=
  match it_cur st with
  | Some (y1, y2, (x1, x2, _) :: xr) =>
      IterRect (x1, y1, x2, y2) (mk_iter (it_revx st) (it_bands st) (Some (y1, y2, xr)))
  | _ => iter_enter (it_revx st) (it_bands st)
  end.

Fixpoint iter_run (fuel : nat) (st : iter_state) : option (list rect) :=
  match fuel with
  | O => None
  | S f =>
      match iter_next st with
      | IterEnd => Some []
      | IterUndefined => None
      | IterRect rc st' => match iter_run f st' with Some l => Some (rc :: l) | None => None end
      end
  end.

Definition total_spans (r : region) : nat :=
  fold_right (fun (b : span xspans) n => (length (snd b) + n)%nat) O r.

(* all rectangles by repeated sraRgnIteratorNext; None = undefined behaviour met (or out of fuel) *)
Definition rgn_iter_machine (revX revY : bool) (r : region) : option (list rect) :=
  iter_run (S (total_spans r)) (iter_init revX revY r).

(* sraRgnPopRect: flags bit0 = bottom2top, bit1 = right2left *)
Definition rgn_pop_rect (r : region) (right2left bottom2top : bool) : option (rect * region) :=
  let r' := if bottom2top then rev r else r in
  match r' with
  | [] => None
  | (y1, y2, xs) :: rest =>
      let xs' := if right2left then rev xs else xs in
      match xs' with
      | [] => None
      | (x1, x2, _) :: xrest =>
          let xs2 := if right2left then rev xrest else xrest in
          let r2 := match xs2 with [] => rest | _ => (y1, y2, xs2) :: rest end in
          Some ((x1, y1, x2, y2), if bottom2top then rev r2 else r2)
      end
  end.

(* ---- pixel-set semantics ---- *)
Fixpoint lookup {A} (l : list (span A)) (v : Z) : option A :=
  match l with
  | [] => None
  | (s, e, a) :: t => if (s <=? v) && (v <? e) then Some a else lookup t v
  end.

Definition x_mem (xs : xspans) (x : Z) : bool :=
  match lookup xs x with Some _ => true | None => false end.

Definition rgn_mem (r : region) (x y : Z) : bool :=
  match lookup r y with Some xs => x_mem xs x | None => false end.

Definition rect_mem (rc : rect) (x y : Z) : bool :=
  let '(x1, y1, x2, y2) := rc in (x1 <=? x) && (x <? x2) && (y1 <=? y) && (y <? y2).
