(* C13 - proofs about Session/ThreadsModel.v.
   "For all schedules" statements over the finite protocol fragments are proved by computing, inside
   Coq, a set of states that contains the initial state and is closed under every thread's step
   (so every schedule of any length stays inside it) and evaluating the property on all of its
   members.  The lock-order theorem is a general argument over any number of threads and mutexes. *)
From Coq Require Import List Bool Arith PeanoNat Lia.
From LV Require Import Session.ThreadsModel.
Import ListNotations.

(* ------------------------------------------------------------------ closed sets of states *)
Section ClosedSets.
  Variable St : Type.
  Variable beq : St -> St -> bool.
  Hypothesis beq_eq : forall x y, beq x y = true -> x = y.
  Variable step : nat -> St -> option St.
  Variable nthreads : nat.
  Hypothesis step_bound : forall t s, nthreads <= t -> step t s = None.

  Lemma mem_in : forall x l, mem St beq x l = true -> In x l.
  Proof.
    intros x l H. unfold mem in H. apply existsb_exists in H. destruct H as [y [Hy E]].
    apply beq_eq in E. subst. exact Hy.
  Qed.

  Lemma closed_step : forall L, closed St beq step nthreads L = true ->
    forall s t, In s L -> In (sched_step St step s t) L.
  Proof.
    intros L HC s t Hs. unfold sched_step. destruct (step t s) as [s'|] eqn:E; auto.
    destruct (le_lt_dec nthreads t) as [Hge|Hlt].
    - rewrite step_bound in E by auto. discriminate.
    - unfold closed in HC. rewrite forallb_forall in HC. specialize (HC s Hs).
      rewrite forallb_forall in HC. apply mem_in. apply HC.
      unfold succs. apply in_flat_map. exists t. split.
      + apply in_seq. lia.
      + rewrite E. simpl. auto.
  Qed.

  Theorem run_stays : forall L, closed St beq step nthreads L = true ->
    forall sched s, In s L -> In (run St step sched s) L.
  Proof.
    intros L HC. induction sched as [|t r IH]; intros s Hs; simpl; auto.
    apply IH. apply closed_step; auto.
  Qed.

  Theorem all_schedules : forall L (P : St -> bool) s0,
    closed St beq step nthreads L = true -> In s0 L -> forallb P L = true ->
    forall sched, P (run St step sched s0) = true.
  Proof.
    intros L P s0 HC H0 HP sched. rewrite forallb_forall in HP. apply HP. apply run_stays; auto.
  Qed.
End ClosedSets.

(* ------------------------------------------------------------------ 1. cursor bracket *)
Lemma cur_bound : forall b t s, 2 <= t -> cur_step b t s = None.
Proof. intros b t s H. unfold cur_step. destruct (2 <=? t) eqn:E; auto. apply Nat.leb_gt in E. lia. Qed.

Definition cur_reach (serial : bool) : list cur_st :=
  explore cur_st cur_st_beq (cur_step serial) 2 5000 [cur_init] [].

Lemma cur_serial_closed : closed cur_st cur_st_beq (cur_step true) 2 (cur_reach true) = true.
Proof. vm_compute. reflexivity. Qed.
Lemma cur_serial_init : In cur_init (cur_reach true).
Proof. apply (mem_in _ _ internal_cur_st_dec_bl). vm_compute. reflexivity. Qed.
Lemma cur_serial_ok : forallb cur_ok (cur_reach true) = true.
Proof. vm_compute. reflexivity. Qed.

(* with the whole show/encode/hide bracket under one lock: for every schedule, once both threads
   are through, the framebuffer is what the application drew *)
Theorem cursor_bracket_serial : forall sched,
  let s := run cur_st (cur_step true) sched cur_init in
  cur_final s = true -> cu_fb s = false.
Proof.
  intros sched s Hf.
  assert (H := all_schedules cur_st cur_st_beq internal_cur_st_dec_bl (cur_step true) 2 (cur_bound true)
                 (cur_reach true) cur_ok cur_init cur_serial_closed cur_serial_init cur_serial_ok sched).
  fold s in H. unfold cur_ok in H. rewrite Hf in H. simpl in H. destruct (cu_fb s); auto; discriminate.
Qed.

(* faithful: per-screen save buffer, per-thread brackets *)
Definition cur_witness : list nat := [0;0;0;0;0; 1;1;1;1;1; 0;0;0;0;0; 1;1;1;1;1; 0;1].
Theorem cursor_bracket_burns_in :
  let s := run cur_st (cur_step false) cur_witness cur_init in
  cur_final s = true /\ cu_fb s = true.
Proof. vm_compute. split; reflexivity. Qed.

(* ------------------------------------------------------------------ 2. iterator reference counting *)
Lemma it_bound : forall b t s, 2 <= t -> it_step b t s = None.
Proof. intros b t s H. unfold it_step. destruct (2 <=? t) eqn:E; auto. apply Nat.leb_gt in E. lia. Qed.

Definition it_reach (repaired : bool) : list it_st :=
  explore it_st it_st_beq (it_step repaired) 2 5000 [it_init] [].

Lemma it_repaired_closed : closed it_st it_st_beq (it_step true) 2 (it_reach true) = true.
Proof. vm_compute. reflexivity. Qed.
Lemma it_repaired_init : In it_init (it_reach true).
Proof. apply (mem_in _ _ internal_it_st_dec_bl). vm_compute. reflexivity. Qed.
Lemma it_repaired_ok : forallb it_ok (it_reach true) = true.
Proof. vm_compute. reflexivity. Qed.

(* if the reference is taken while the list mutex is still held, no schedule touches freed memory *)
Theorem iterator_safe_when_ref_taken_under_list_mutex : forall sched,
  it_uaf (run it_st (it_step true) sched it_init) = false.
Proof.
  intros sched.
  assert (H := all_schedules it_st it_st_beq internal_it_st_dec_bl (it_step true) 2 (it_bound true)
                 (it_reach true) it_ok it_init it_repaired_closed it_repaired_init it_repaired_ok sched).
  unfold it_ok in H. destruct (it_uaf _); auto; discriminate.
Qed.

(* ... and the teardown still completes: from every reachable state a round-robin continuation ends with
   the record freed and both threads finished *)
Definition it_finishing : list nat := concat (repeat [0; 1] 20).
Lemma it_repaired_finishes :
  forallb (fun s => let z := run it_st (it_step true) it_finishing s in it_freed z && (it_pc0 z =? 6) && (it_pc1 z =? 6))
          (it_reach true) = true.
Proof. vm_compute. reflexivity. Qed.
Theorem iterator_repaired_teardown_completes : forall sched,
  let z := run it_st (it_step true) it_finishing (run it_st (it_step true) sched it_init) in
  it_freed z = true /\ it_uaf z = false.
Proof.
  intros sched z.
  assert (H := all_schedules it_st it_st_beq internal_it_st_dec_bl (it_step true) 2 (it_bound true)
                 (it_reach true) (fun s => let z := run it_st (it_step true) it_finishing s in it_freed z && (it_pc0 z =? 6) && (it_pc1 z =? 6))
                 it_init it_repaired_closed it_repaired_init it_repaired_finishes sched).
  cbv beta zeta in H. fold z in H. apply andb_true_iff in H. destruct H as [H _]. apply andb_true_iff in H. destruct H as [H _].
  split; auto.
  assert (E : z = run it_st (it_step true) (sched ++ it_finishing) it_init) by (unfold z, run; rewrite fold_left_app; reflexivity).
  rewrite E. apply iterator_safe_when_ref_taken_under_list_mutex.
Qed.

(* faithful: the iterator reads the pointer, the client thread unlinks, sees refCount == 0 and frees,
   the iterator then increments the reference count of the freed record *)
Definition it_witness : list nat := [0;0;0; 1;1;1;1;1; 0].
Theorem iterator_use_after_free : it_uaf (run it_st (it_step false) it_witness it_init) = true.
Proof. vm_compute. reflexivity. Qed.

(* ------------------------------------------------------------------ 3. shutdown *)
Lemma sh_bound : forall b t s, 4 <= t -> sh_step b t s = None.
Proof. intros b t s H. unfold sh_step. do 4 (destruct t as [|t]; [lia|]). reflexivity. Qed.

Definition sh_reach (repaired : bool) : list sh_st :=
  explore sh_st sh_st_beq (sh_step repaired) 4 200000 [sh_init] [].

Lemma sh_faithful_closed : closed sh_st sh_st_beq (sh_step false) 4 (sh_reach false) = true.
Proof. vm_compute. reflexivity. Qed.
Lemma sh_faithful_init : In sh_init (sh_reach false).
Proof. apply (mem_in _ _ internal_sh_st_dec_bl). vm_compute. reflexivity. Qed.
Lemma sh_faithful_gone : forallb sh_gone_ok (sh_reach false) = true.
Proof. vm_compute. reflexivity. Qed.

(* under every schedule of the four threads rfbClientConnectionGone runs at most once, and exactly
   once by the time the client's input thread has ended *)
Theorem gone_once_threaded : forall sched,
  let s := run sh_st (sh_step false) sched sh_init in
  sh_gone s <= 1 /\ (sh_pcI s = SH_IN_DONE -> sh_gone s = 1).
Proof.
  intros sched s.
  assert (H := all_schedules sh_st sh_st_beq internal_sh_st_dec_bl (sh_step false) 4 (sh_bound false)
                 (sh_reach false) sh_gone_ok sh_init sh_faithful_closed sh_faithful_init sh_faithful_gone sched).
  fold s in H. unfold sh_gone_ok in H. apply andb_true_iff in H. destruct H as [H1 H2].
  apply Nat.leb_le in H1. split; auto. intros E. rewrite E in H2. simpl in H2. apply Nat.eqb_eq in H2. exact H2.
Qed.

Lemma sh_repaired_closed : closed sh_st sh_st_beq (sh_step true) 4 (sh_reach true) = true.
Proof. vm_compute. reflexivity. Qed.
Lemma sh_repaired_init : In sh_init (sh_reach true).
Proof. apply (mem_in _ _ internal_sh_st_dec_bl). vm_compute. reflexivity. Qed.
Lemma sh_repaired_free : forallb (stuck_free sh_st (sh_step true) 4 sh_final) (sh_reach true) = true.
Proof. vm_compute. reflexivity. Qed.

(* repaired (clientOutput re-tests cl->state after taking updateMutex): whatever the schedule did so
   far, the system is finished or some thread can still move - no deadlock *)
Theorem shutdown_never_stuck_repaired : forall sched,
  let s := run sh_st (sh_step true) sched sh_init in
  sh_final s = true \/ exists t, t < 4 /\ enabled sh_st (sh_step true) t s = true.
Proof.
  intros sched s.
  assert (H := all_schedules sh_st sh_st_beq internal_sh_st_dec_bl (sh_step true) 4 (sh_bound true)
                 (sh_reach true) (stuck_free sh_st (sh_step true) 4 sh_final) sh_init
                 sh_repaired_closed sh_repaired_init sh_repaired_free sched).
  fold s in H. unfold stuck_free in H. apply orb_true_iff in H. destruct H as [H|H]; auto.
  right. apply existsb_exists in H. destruct H as [t [Ht E]]. exists t. split.
  - apply in_seq in Ht. lia.
  - unfold enabled. exact E.
Qed.

(* and from every reachable state of the repaired system a finite schedule finishes the shutdown *)
Definition sh_finishing : list nat := concat (repeat [0;1;2;3] 40).      (* round robin *)
Lemma sh_repaired_can_finish :
  forallb (fun s => sh_final (run sh_st (sh_step true) sh_finishing s)) (sh_reach true) = true.
Proof. vm_compute. reflexivity. Qed.

Theorem shutdown_can_always_finish_repaired : forall sched,
  sh_final (run sh_st (sh_step true) sh_finishing (run sh_st (sh_step true) sched sh_init)) = true.
Proof.
  intros sched.
  exact (all_schedules sh_st sh_st_beq internal_sh_st_dec_bl (sh_step true) 4 (sh_bound true)
           (sh_reach true) (fun s => sh_final (run sh_st (sh_step true) sh_finishing s)) sh_init
           sh_repaired_closed sh_repaired_init sh_repaired_can_finish sched).
Qed.

(* faithful: clientOutput tests cl->state, is preempted, the application closes the client, the input
   thread signals (nobody waits yet) and joins the output thread, which now goes to sleep for ever *)
Definition sh_witness : list nat := [2; 3;3;3;3; 0;0;0;0; 1;1;1;1; 2;2].
Theorem shutdown_lost_wakeup :
  let s := run sh_st (sh_step false) sh_witness sh_init in
  sh_final s = false /\ forall t, enabled sh_st (sh_step false) t s = false.
Proof.
  split; [vm_compute; reflexivity|].
  intros t. do 4 (destruct t as [|t]; [vm_compute; reflexivity|]). reflexivity.
Qed.

(* ------------------------------------------------------------------ 4. thread reclamation *)
Lemma th_cycles_run : forall n s, fold_left th_step (th_cycles n) s = mkTh (th_live s) (n + th_zombie s).
Proof.
  induction n as [|n IH]; intros [l z]; simpl; auto.
  rewrite IH. simpl. f_equal. lia.
Qed.

(* after n connect/disconnect cycles n ended threads have never been joined (for every n) *)
Theorem threads_never_joined : forall n, th_zombie (th_run (th_cycles n)) = n /\ th_live (th_run (th_cycles n)) = 0.
Proof. intros n. unfold th_run. rewrite th_cycles_run. simpl. split; lia. Qed.

Theorem shutdown_does_not_reclaim_them : forall n, th_zombie (th_run (th_cycles n ++ [ThShutdown])) = n.
Proof. intros n. unfold th_run. rewrite fold_left_app, th_cycles_run. simpl. lia. Qed.

(* ------------------------------------------------------------------ 4b. a request wakes the output thread *)
Lemma rq_bound : forall b kd t s, 3 <= t -> rq_step b kd t s = None.
Proof. intros b kd t s H. unfold rq_step. do 3 (destruct t as [|t]; [lia|]). reflexivity. Qed.

Definition rq_reach (b : bool) (kd : nat) : list rq_st :=
  explore rq_st rq_st_beq (rq_step b kd) 3 20000 [rq_init] [].
(* [rq_good b kd s]: from s, the round-robin continuation rq_rr ends with the update sent *)
Definition rq_good (b : bool) (kd : nat) (s : rq_st) : bool := rq_sent (run rq_st (rq_step b kd) rq_rr s).

Lemma rq_closed : forall kd, kd < 2 -> closed rq_st rq_st_beq (rq_step false kd) 3 (rq_reach false kd) = true.
Proof. intros kd H. do 2 (destruct kd as [|kd]; [vm_compute; reflexivity|]). exfalso; lia. Qed.
Lemma rq_init_in : forall kd, kd < 2 -> In rq_init (rq_reach false kd).
Proof. intros kd H. apply (mem_in _ _ internal_rq_st_dec_bl). do 2 (destruct kd as [|kd]; [vm_compute; reflexivity|]). exfalso; lia. Qed.
Lemma rq_all_good : forall kd, kd < 2 -> forallb (rq_good false kd) (rq_reach false kd) = true.
Proof. intros kd H. do 2 (destruct kd as [|kd]; [vm_compute; reflexivity|]). exfalso; lia. Qed.

(* the application's last operation was a mark (kind 0) or a copy (kind 1): however the three threads
   were scheduled so far, letting them run on (round robin) ends with the update sent *)
Theorem request_wakes_output : forall kd sched, kd < 2 ->
  rq_good false kd (run rq_st (rq_step false kd) sched rq_init) = true.
Proof.
  intros kd sched H.
  exact (all_schedules rq_st rq_st_beq internal_rq_st_dec_bl (rq_step false kd) 3 (rq_bound false kd)
           (rq_reach false kd) (rq_good false kd) rq_init (rq_closed kd H) (rq_init_in kd H) (rq_all_good kd H) sched).
Qed.

(* cursor moved / replaced (no signal of its own) BEFORE the request arrives: the request's signal
   gets the cursor update sent, under every schedule of input and output thread *)
Definition rq_cur_init : rq_st := mkRq false false false true 0 false false 1 0 0.
Definition rq_cur_reach : list rq_st := explore rq_st rq_st_beq (rq_step false 2) 3 20000 [rq_cur_init] [].
Lemma rq_cur_closed : closed rq_st rq_st_beq (rq_step false 2) 3 rq_cur_reach = true.
Proof. vm_compute. reflexivity. Qed.
Lemma rq_cur_init_in : In rq_cur_init rq_cur_reach.
Proof. apply (mem_in _ _ internal_rq_st_dec_bl). vm_compute. reflexivity. Qed.
Lemma rq_cur_good : forallb (rq_good false 2) rq_cur_reach = true.
Proof. vm_compute. reflexivity. Qed.
Theorem request_wakes_output_cursor : forall sched,
  rq_good false 2 (run rq_st (rq_step false 2) sched rq_cur_init) = true.
Proof.
  intros sched.
  exact (all_schedules rq_st rq_st_beq internal_rq_st_dec_bl (rq_step false 2) 3 (rq_bound false 2)
           rq_cur_reach (rq_good false 2) rq_cur_init rq_cur_closed rq_cur_init_in rq_cur_good sched).
Qed.

(* but a cursor change while a request is already outstanding wakes nobody (rfbDefaultPtrAddEvent and
   rfbSetCursor do not signal updateCond): the position/shape update waits for the next event *)
Definition rq_cur_witness : list nat := [1; 1; 1; 2; 2; 0].
Theorem cursor_change_does_not_wake :
  let s := run rq_st (rq_step false 2) rq_cur_witness rq_init in
  rq_req s = true /\ rq_cur s = true /\ rq_sent s = false /\ forall t, enabled rq_st (rq_step false 2) t s = false.
Proof.
  repeat split; try (vm_compute; reflexivity).
  intros t. do 3 (destruct t as [|t]; [vm_compute; reflexivity|]). reflexivity.
Qed.

(* the signal of the request handler must not depend on modifiedRegion: with "signal only if modified"
   a copy (or cursor change) followed by a request leaves the output thread asleep with work pending *)
Definition rq_witness : list nat := [2; 2; 0; 0; 0; 2; 2; 2; 1; 1; 1].
Theorem conditional_signal_loses_update :
  let s := run rq_st (rq_step true 1) rq_witness rq_init in
  rq_req s = true /\ rq_copy s = true /\ rq_sent s = false /\
  forall t, enabled rq_st (rq_step true 1) t s = false.
Proof.
  repeat split; try (vm_compute; reflexivity).
  intros t. do 3 (destruct t as [|t]; [vm_compute; reflexivity|]). reflexivity.
Qed.

(* ------------------------------------------------------------------ 4c. marks during a send *)
Lemma sk_bound : forall b t s, 2 <= t -> sk_step b t s = None.
Proof. intros b t s H. unfold sk_step. do 2 (destruct t as [|t]; [lia|]). reflexivity. Qed.
Definition sk_reach : list sk_st := explore sk_st sk_st_beq (sk_step false) 2 5000 [sk_init] [].
Lemma sk_closed : closed sk_st sk_st_beq (sk_step false) 2 sk_reach = true.
Proof. vm_compute. reflexivity. Qed.
Lemma sk_init_in : In sk_init sk_reach.
Proof. apply (mem_in _ _ internal_sk_st_dec_bl). vm_compute. reflexivity. Qed.
Lemma sk_all_ok : forallb sk_ok sk_reach = true.
Proof. vm_compute. reflexivity. Qed.

(* whenever the application's write and mark fall relative to the update in flight: once both are done and
   the client has asked again, the client shows the new pixel *)
Theorem send_keeps_concurrent_marks : forall sched,
  let s := run sk_st (sk_step false) sched sk_init in
  sk_pcA s = 2 -> sk_pcO s = 5 -> sk_client s = true.
Proof.
  intros sched s HA HO.
  assert (H := all_schedules sk_st sk_st_beq internal_sk_st_dec_bl (sk_step false) 2 (sk_bound false)
                 sk_reach sk_ok sk_init sk_closed sk_init_in sk_all_ok sched).
  fold s in H. unfold sk_ok in H. rewrite HA, HO in H. simpl in H. exact H.
Qed.

Lemma send_keeps_nonvacuous :
  let s := run sk_st (sk_step false) [1; 1; 0; 0; 1; 1; 1] sk_init in sk_pcA s = 2 /\ sk_pcO s = 5 /\ sk_client s = true.
Proof. vm_compute. repeat split. Qed.

(* subtracting the sent box from modifiedRegion again after the send loses a mark placed in between *)
Theorem subtract_after_send_loses_mark :
  let s := run sk_st (sk_step true) [1; 1; 0; 0; 1; 1; 1] sk_init in
  sk_pcA s = 2 /\ sk_pcO s = 5 /\ sk_client s = false.
Proof. vm_compute. repeat split. Qed.

(* ------------------------------------------------------------------ 4d. rfbShutdownServer's join *)
Lemma sj_bound : forall b t s, 2 <= t -> sj_step b t s = None.
Proof. intros b t s H. unfold sj_step. do 2 (destruct t as [|t]; [lia|]). reflexivity. Qed.
Definition sj_reach : list sj_st := explore sj_st sj_st_beq (sj_step true) 2 5000 [sj_init] [].
Lemma sj_closed_set : closed sj_st sj_st_beq (sj_step true) 2 sj_reach = true.
Proof. vm_compute. reflexivity. Qed.
Lemma sj_init_in : In sj_init sj_reach.
Proof. apply (mem_in _ _ internal_sj_st_dec_bl). vm_compute. reflexivity. Qed.
Lemma sj_all_ok : forallb sj_ok sj_reach = true.
Proof. vm_compute. reflexivity. Qed.
Lemma sj_all_free : forallb (stuck_free sj_st (sj_step true) 2 sj_final) sj_reach = true.
Proof. vm_compute. reflexivity. Qed.

(* repaired order: whenever the peer disconnects, the application never touches the freed record ... *)
Theorem shutdown_join_safe_repaired : forall sched,
  sj_uaf (run sj_st (sj_step true) sched sj_init) = false.
Proof.
  intros sched.
  assert (H := all_schedules sj_st sj_st_beq internal_sj_st_dec_bl (sj_step true) 2 (sj_bound true)
                 sj_reach sj_ok sj_init sj_closed_set sj_init_in sj_all_ok sched).
  unfold sj_ok in H. apply negb_true_iff in H. exact H.
Qed.

(* ... and is never stuck before both the join and the teardown are done *)
Theorem shutdown_join_never_stuck_repaired : forall sched,
  let s := run sj_st (sj_step true) sched sj_init in
  sj_final s = true \/ exists t, t < 2 /\ enabled sj_st (sj_step true) t s = true.
Proof.
  intros sched s.
  assert (H := all_schedules sj_st sj_st_beq internal_sj_st_dec_bl (sj_step true) 2 (sj_bound true)
                 sj_reach (stuck_free sj_st (sj_step true) 2 sj_final) sj_init sj_closed_set sj_init_in sj_all_free sched).
  fold s in H. unfold stuck_free in H. apply orb_true_iff in H. destruct H as [H|H]; [left; exact H|right].
  apply existsb_exists in H. destruct H as [t [Ht He]]. exists t. split.
  - apply in_seq in Ht. lia.
  - unfold enabled. exact He.
Qed.

Lemma shutdown_join_nonvacuous :
  let s := run sj_st (sj_step true) [0; 0; 0; 1; 1; 0] sj_init in sj_final s = true /\ sj_freed s = true /\ sj_uaf s = false.
Proof. vm_compute. repeat split. Qed.

(* faithful order (the code as read): the reference is dropped first; the notified client thread frees
   the record; the application then reads currentCl->screen / currentCl->client_thread *)
Definition sj_witness : list nat := [0; 0; 1; 1; 0].
Theorem shutdown_join_reads_freed_record :
  let s := run sj_st (sj_step false) sj_witness sj_init in sj_freed s = true /\ sj_uaf s = true.
Proof. vm_compute. split; reflexivity. Qed.

(* ------------------------------------------------------------------ 5. lock order *)
Section LockOrder.
  Variable rank : nat -> nat.

  Definition disciplined (t : thr) : Prop :=
    match want t with Some m => forall h, In h (held t) -> rank h < rank m | None => True end.
  (* t waits for a mutex that u holds *)
  Definition waits_for (t u : thr) : Prop := exists m, want t = Some m /\ In m (held u).
  Definition wrank (t : thr) : nat := match want t with Some m => rank m | None => 0 end.

  Fixpoint chain (l : list thr) : Prop :=
    match l with
    | a :: ((b :: _) as r) => waits_for a b /\ chain r
    | _ => True
    end.

  Lemma waits_rank : forall a b, waits_for a b -> disciplined b -> (exists m, want b = Some m) -> wrank a < wrank b.
  Proof.
    intros a b [m [Wa Hb]] D [m' Wb]. unfold wrank. rewrite Wa, Wb. unfold disciplined in D. rewrite Wb in D. auto.
  Qed.

  Lemma last_default : forall (l : list thr) b x y, last (b :: l) x = last (b :: l) y.
  Proof. induction l as [|c r IH]; intros b x y; [reflexivity|]. change (last (c :: r) x = last (c :: r) y). apply IH. Qed.

  Lemma chain_wants : forall l a, chain (a :: l) -> forall t, In t (a :: l) ->
    t = last (a :: l) a \/ exists m, want t = Some m.
  Proof.
    induction l as [|b r IH]; intros a C t Ht.
    - destruct Ht as [<-|[]]. left. reflexivity.
    - destruct C as [[m [Wa _]] Cr]. destruct Ht as [<-|Ht].
      + right. eauto.
      + destruct (IH b Cr t Ht) as [E|E]; auto. left.
        change (last (a :: b :: r) a) with (last (b :: r) a). rewrite (last_default r b a b). exact E.
  Qed.

  Lemma chain_mono : forall l a, chain (a :: l) -> (forall t, In t (a :: l) -> disciplined t) ->
    (forall t, In t (a :: l) -> exists m, want t = Some m) -> wrank a <= wrank (last (a :: l) a).
  Proof.
    induction l as [|b r IH]; intros a C D W.
    - simpl. auto.
    - destruct C as [Cab Cr].
      assert (Hlt : wrank a < wrank b) by (apply waits_rank; auto; [apply D | apply W]; simpl; auto).
      assert (Hle := IH b Cr (fun t H => D t (or_intror H)) (fun t H => W t (or_intror H))).
      change (last (a :: b :: r) a) with (last (b :: r) a). rewrite (last_default r b a b). lia.
  Qed.

  (* a deadlock among mutexes is a cycle t0 -> t1 -> ... -> tn -> t0 of threads each waiting for a mutex
     the next one holds.  If every thread only asks for a mutex ranked above all it holds, no such
     cycle exists, for any number of threads and mutexes. *)
  Theorem no_deadlock_cycle : forall a l,
    (forall t, In t (a :: l) -> disciplined t) ->
    chain (a :: l) -> waits_for (last (a :: l) a) a -> False.
  Proof.
    intros a l D C Back.
    assert (W : forall t, In t (a :: l) -> exists m, want t = Some m).
    { intros t Ht. destruct (chain_wants l a C t Ht) as [E|E]; auto.
      subst t. destruct Back as [m [Wm _]]. eauto. }
    assert (Hle := chain_mono l a C D W).
    assert (Hin : In (last (a :: l) a) (a :: l)).
    { clear. revert a. induction l as [|b r IH]; intros a; [simpl; auto|].
      change (last (a :: b :: r) a) with (last (b :: r) a). rewrite (last_default r b a b). right. apply IH. }
    assert (Hlt : wrank (last (a :: l) a) < wrank a).
    { apply waits_rank; auto. apply D. simpl; auto. apply W. simpl; auto. }
    lia.
  Qed.
End LockOrder.

(* the acquisition pairs of the true-colour code paths respect the rank (= the numbering of the
   mutex classes); the table with the colour-map path does not: updateMutex and sendMutex of the
   same client are taken in both orders (and updateMutex twice by the same thread) *)
Lemma table_respects_rank : respects_rank lock_table = true.
Proof. vm_compute. reflexivity. Qed.

Lemma palette_table_inversion :
  In (M_send 0, M_upd 0) lock_table_palette /\ In (M_upd 0, M_send 0) lock_table_palette /\
  In (M_upd 0, M_upd 0) lock_table_palette.
Proof. repeat split; simpl; tauto. Qed.

(* a thread that holds h and asks for m, for a pair (h, m) of a rank-respecting table, is disciplined *)
Lemma table_thread_disciplined : forall tbl t,
  respects_rank tbl = true ->
  (forall m, want t = Some m -> forall h, In h (held t) -> In (h, m) tbl) ->
  disciplined (fun x => x) t.
Proof.
  intros tbl t HR HT. unfold disciplined. destruct (want t) as [m|] eqn:E; auto.
  intros h Hh. unfold respects_rank in HR. rewrite forallb_forall in HR.
  specialize (HR (h, m) (HT m eq_refl h Hh)). simpl in HR. apply Nat.ltb_lt in HR. exact HR.
Qed.

Theorem lock_order_acyclic : forall a l,
  (forall t, In t (a :: l) -> forall m, want t = Some m -> forall h, In h (held t) -> In (h, m) lock_table) ->
  chain (a :: l) -> waits_for (last (a :: l) a) a -> False.
Proof.
  intros a l HT. apply (no_deadlock_cycle (fun x => x)).
  intros t Ht. apply (table_thread_disciplined lock_table t table_respects_rank). intros m E h Hh.
  apply (HT t Ht m E h Hh).
Qed.

Example lock_order_nonvacuous :
  let t1 := mkThr [M_send 0] (Some (M_upd 0)) in
  let t2 := mkThr [M_upd 0] None in
  (forall t, In t [t1; t2] -> forall m, want t = Some m -> forall h, In h (held t) -> In (h, m) lock_table) /\
  chain [t1; t2].
Proof.
  split.
  - intros t [<-|[<-|[]]] m E h Hh; simpl in *; try discriminate.
    inversion E; subst. destruct Hh as [<-|[]]. left. reflexivity.
  - simpl. split; auto. exists (M_upd 0). simpl. auto.
Qed.
