(* C13 - proofs about Session/ThreadsModel.v.
   "For all schedules" statements over the finite protocol fragments are proved by computing, inside
   Coq, a set of states that contains the initial state and is closed under every thread's step
   (so every schedule of any length stays inside it) and evaluating the property on all of its
   members.  The lock-order theorem is a general argument over any number of threads and mutexes. *)
From Coq Require Import List Bool Arith PeanoNat Lia.
From LV Require Import Session.ThreadsModel.
Import ListNotations.

(* ------------------------------------------------------------------ closed sets of states *)
Section ClosedSets.
  Variable St : Type.
  Variable beq : St -> St -> bool.
  Hypothesis beq_eq : forall x y, beq x y = true -> x = y.
  Variable step : nat -> St -> option St.
  Variable nthreads : nat.
  Hypothesis step_bound : forall t s, nthreads <= t -> step t s = None.

  Lemma mem_in : forall x l, mem St beq x l = true -> In x l.
  Proof.
    intros x l H. unfold mem in H. apply existsb_exists in H. destruct H as [y [Hy E]].
    apply beq_eq in E. subst. exact Hy.
  Qed.

  Lemma closed_step : forall L, closed St beq step nthreads L = true ->
    forall s t, In s L -> In (sched_step St step s t) L.
  Proof.
    intros L HC s t Hs. unfold sched_step. destruct (step t s) as [s'|] eqn:E; auto.
    destruct (le_lt_dec nthreads t) as [Hge|Hlt].
    - rewrite step_bound in E by auto. discriminate.
    - unfold closed in HC. rewrite forallb_forall in HC. specialize (HC s Hs).
      rewrite forallb_forall in HC. apply mem_in. apply HC.
      unfold succs. apply in_flat_map. exists t. split.
      + apply in_seq. lia.
      + rewrite E. simpl. auto.
  Qed.

  Theorem run_stays : forall L, closed St beq step nthreads L = true ->
    forall sched s, In s L -> In (run St step sched s) L.
  Proof.
    intros L HC. induction sched as [|t r IH]; intros s Hs; simpl; auto.
    apply IH. apply closed_step; auto.
  Qed.

  Theorem all_schedules : forall L (P : St -> bool) s0,
    closed St beq step nthreads L = true -> In s0 L -> forallb P L = true ->
    forall sched, P (run St step sched s0) = true.
  Proof.
    intros L P s0 HC H0 HP sched. rewrite forallb_forall in HP. apply HP. apply run_stays; auto.
  Qed.
End ClosedSets.

(* ------------------------------------------------------------------ 1. cursor bracket *)
Lemma cur_bound : forall b t s, 2 <= t -> cur_step b t s = None.
Proof. intros b t s H. unfold cur_step. destruct (2 <=? t) eqn:E; auto. apply Nat.leb_gt in E. lia. Qed.

Definition cur_reach (serial : bool) : list cur_st :=
  explore cur_st cur_st_beq (cur_step serial) 2 5000 [cur_init] [].

Lemma cur_serial_closed : closed cur_st cur_st_beq (cur_step true) 2 (cur_reach true) = true.
Proof. vm_compute. reflexivity. Qed.
Lemma cur_serial_init : In cur_init (cur_reach true).
Proof. apply (mem_in _ _ internal_cur_st_dec_bl). vm_compute. reflexivity. Qed.
Lemma cur_serial_ok : forallb cur_ok (cur_reach true) = true.
Proof. vm_compute. reflexivity. Qed.

(* with the whole show/encode/hide bracket under one lock: for every schedule, once both threads
   are through, the framebuffer is what the application drew *)
Theorem cursor_bracket_serial : forall sched,
  let s := run cur_st (cur_step true) sched cur_init in
  cur_final s = true -> cu_fb s = false.
Proof.
  intros sched s Hf.
  assert (H := all_schedules cur_st cur_st_beq internal_cur_st_dec_bl (cur_step true) 2 (cur_bound true)
                 (cur_reach true) cur_ok cur_init cur_serial_closed cur_serial_init cur_serial_ok sched).
  fold s in H. unfold cur_ok in H. rewrite Hf in H. simpl in H. destruct (cu_fb s); auto; discriminate.
Qed.

(* faithful: per-screen save buffer, per-thread brackets *)
Definition cur_witness : list nat := [0;0;0;0;0; 1;1;1;1;1; 0;0;0;0;0; 1;1;1;1;1; 0;1].
Theorem cursor_bracket_burns_in :
  let s := run cur_st (cur_step false) cur_witness cur_init in
  cur_final s = true /\ cu_fb s = true.
Proof. vm_compute. split; reflexivity. Qed.

(* ------------------------------------------------------------------ 2. iterator reference counting *)
Lemma it_bound : forall b t s, 2 <= t -> it_step b t s = None.
Proof. intros b t s H. unfold it_step. destruct (2 <=? t) eqn:E; auto. apply Nat.leb_gt in E. lia. Qed.

Definition it_reach (repaired : bool) : list it_st :=
  explore it_st it_st_beq (it_step repaired) 2 5000 [it_init] [].

Lemma it_repaired_closed : closed it_st it_st_beq (it_step true) 2 (it_reach true) = true.
Proof. vm_compute. reflexivity. Qed.
Lemma it_repaired_init : In it_init (it_reach true).
Proof. apply (mem_in _ _ internal_it_st_dec_bl). vm_compute. reflexivity. Qed.
Lemma it_repaired_ok : forallb it_ok (it_reach true) = true.
Proof. vm_compute. reflexivity. Qed.

(* if the reference is taken while the list mutex is still held, no schedule touches freed memory *)
Theorem iterator_safe_when_ref_taken_under_list_mutex : forall sched,
  it_uaf (run it_st (it_step true) sched it_init) = false.
Proof.
  intros sched.
  assert (H := all_schedules it_st it_st_beq internal_it_st_dec_bl (it_step true) 2 (it_bound true)
                 (it_reach true) it_ok it_init it_repaired_closed it_repaired_init it_repaired_ok sched).
  unfold it_ok in H. destruct (it_uaf _); auto; discriminate.
Qed.

(* ... and the teardown still completes: from every reachable state a round-robin continuation ends with
   the record freed and both threads finished *)
Definition it_finishing : list nat := concat (repeat [0; 1] 20).
Lemma it_repaired_finishes :
  forallb (fun s => let z := run it_st (it_step true) it_finishing s in it_freed z && (it_pc0 z =? 6) && (it_pc1 z =? 6))
          (it_reach true) = true.
Proof. vm_compute. reflexivity. Qed.
Theorem iterator_repaired_teardown_completes : forall sched,
  let z := run it_st (it_step true) it_finishing (run it_st (it_step true) sched it_init) in
  it_freed z = true /\ it_uaf z = false.
Proof.
  intros sched z.
  assert (H := all_schedules it_st it_st_beq internal_it_st_dec_bl (it_step true) 2 (it_bound true)
                 (it_reach true) (fun s => let z := run it_st (it_step true) it_finishing s in it_freed z && (it_pc0 z =? 6) && (it_pc1 z =? 6))
                 it_init it_repaired_closed it_repaired_init it_repaired_finishes sched).
  cbv beta zeta in H. fold z in H. apply andb_true_iff in H. destruct H as [H _]. apply andb_true_iff in H. destruct H as [H _].
  split; auto.
  assert (E : z = run it_st (it_step true) (sched ++ it_finishing) it_init) by (unfold z, run; rewrite fold_left_app; reflexivity).
  rewrite E. apply iterator_safe_when_ref_taken_under_list_mutex.
Qed.

(* faithful: the iterator reads the pointer, the client thread unlinks, sees refCount == 0 and frees,
   the iterator then increments the reference count of the freed record *)
Definition it_witness : list nat := [0;0;0; 1;1;1;1;1; 0].
Theorem iterator_use_after_free : it_uaf (run it_st (it_step false) it_witness it_init) = true.
Proof. vm_compute. reflexivity. Qed.

(* ------------------------------------------------------------------ 2b. full iterator walk over two records *)
Lemma iw_bound : forall w t s, 3 <= t -> iw_step w t s = None.
Proof. intros w t s H. unfold iw_step. do 3 (destruct t as [|t]; [lia|]). reflexivity. Qed.
Definition iw_reach : list iw_st := explore iw_st iw_st_beq (iw_step true) 3 200000 [iw_init] [].
Definition iw_finishing : list nat := concat (repeat [0; 1; 2] 16).
Lemma iw_closed : closed iw_st iw_st_beq (iw_step true) 3 iw_reach = true.
Proof. vm_compute. reflexivity. Qed.
Lemma iw_init_in : In iw_init iw_reach.
Proof. apply (mem_in _ _ internal_iw_st_dec_bl). vm_compute. reflexivity. Qed.
Lemma iw_all_good :
  forallb (fun s => iw_ok s && stuck_free iw_st (iw_step true) 3 iw_final s &&
                    (let z := run iw_st (iw_step true) iw_finishing s in
                     iw_final z && iw_fr0 z && iw_fr1 z && (iw_ref0 z =? 0) && (iw_ref1 z =? 0) && negb (iw_uaf z))) iw_reach = true.
Proof. vm_compute. reflexivity. Qed.
(* HEAD's iterator, a complete walk over two records while both connections end at arbitrary moments: freed memory is never
   touched (neither by the caller nor by the iterator's own advance / deferred release), nobody gets stuck, and the
   round-robin continuation ends with the walk finished, both records freed and no reference left *)
Theorem iterator_walk_two_records_safe : forall sched,
  let s := run iw_st (iw_step true) sched iw_init in
  iw_uaf s = false /\ (iw_final s = true \/ exists t, t < 3 /\ enabled iw_st (iw_step true) t s = true) /\
  (let z := run iw_st (iw_step true) iw_finishing s in iw_final z = true /\ iw_fr0 z = true /\ iw_fr1 z = true /\ iw_uaf z = false).
Proof.
  intros sched s.
  assert (H := all_schedules iw_st iw_st_beq internal_iw_st_dec_bl (iw_step true) 3 (iw_bound true) iw_reach _ iw_init iw_closed iw_init_in iw_all_good sched).
  cbv beta in H. fold s in H. apply andb_true_iff in H. destruct H as [H H3]. apply andb_true_iff in H. destruct H as [H1 H2].
  split; [unfold iw_ok in H1; apply negb_true_iff in H1; exact H1|]. split.
  - unfold stuck_free in H2. apply orb_true_iff in H2. destruct H2 as [H2|H2]; auto.
    right. apply existsb_exists in H2. destruct H2 as [t [Ht E]]. exists t. split.
    + apply in_seq in Ht. lia.
    + unfold enabled. exact E.
  - cbv zeta in H3.
    apply andb_true_iff in H3. destruct H3 as [H3 Hu]. apply andb_true_iff in H3. destruct H3 as [H3 _].
    apply andb_true_iff in H3. destruct H3 as [H3 _]. apply andb_true_iff in H3. destruct H3 as [H3 Hf1].
    apply andb_true_iff in H3. destruct H3 as [Hfin Hf0].
    repeat split; auto. apply negb_true_iff. exact Hu.
Qed.
Lemma iterator_walk_nonvacuous :
  let s := run iw_st (iw_step true) [0;0;0; 1;1; 0;0;0; 2;2; 0;0;0;0; 1;1;2;2] iw_init in iw_final s = true /\ iw_uaf s = false.
Proof. vm_compute. split; reflexivity. Qed.

(* the theorem is not a tautology: if the teardown did not wait for the references, the iterator's advance reads R0->next from
   the freed R0 *)
Theorem iterator_walk_needs_the_wait :
  iw_uaf (run iw_st (iw_step false) [0;0;0; 1;1;1; 0] iw_init) = true.
Proof. vm_compute. reflexivity. Qed.

(* ------------------------------------------------------------------ 3. shutdown *)
Lemma shc_bound : forall c t s, 4 <= t -> sh_step_cfg c t s = None.
Proof. intros c t s H. unfold sh_step_cfg. do 4 (destruct t as [|t]; [lia|]). reflexivity. Qed.
Lemma sh_bound : forall b t s, 4 <= t -> sh_step b t s = None.
Proof. intros b t s H. unfold sh_step. apply shc_bound. exact H. Qed.
Lemma sh3_bound : forall c t s, 3 <= t -> sh_step3 c t s = None.
Proof. intros c t s H. unfold sh_step3. destruct (t <? 3) eqn:E; auto. apply Nat.ltb_lt in E. lia. Qed.
Lemma sh12_bound : forall c t s, 3 <= t -> sh_step12 c t s = None.
Proof. intros c t s H. unfold sh_step12. do 3 (destruct t as [|t]; [lia|]). reflexivity. Qed.

(* the protocols: before 1b1aba3 / HEAD (1b1aba3 + 86ddb5d) / HEAD without the join / 1b1aba3 only (before 86ddb5d) *)
Definition cfg_old : sh_cfg := mkCfg false true false false.
Definition cfg_head : sh_cfg := mkCfg true true true true.
Definition cfg_nojoin : sh_cfg := mkCfg true false true true.
Definition cfg_before_86ddb5d : sh_cfg := mkCfg true true true false.
Lemma sh_step_is_head : sh_step true = sh_step_cfg cfg_head.
Proof. reflexivity. Qed.

(* membership of every initial situation (nothing pending / an update pending / client on hold) in an explored set *)
Lemma inits_in : forall L, forallb (fun x => mem sh_st sh_st_beq x L) sh_inits = true -> forall s0, In s0 sh_inits -> In s0 L.
Proof.
  intros L H s0 Hs. rewrite forallb_forall in H. apply (mem_in _ _ internal_sh_st_dec_bl). apply H. exact Hs.
Qed.

Definition sh_reach : list sh_st := explore sh_st sh_st_beq (sh_step true) 4 400000 sh_inits [].
Definition sh_finishing : list nat := concat (repeat [0;1;2;3] 40).      (* round robin *)
Lemma sh_closed : closed sh_st sh_st_beq (sh_step true) 4 sh_reach = true.
Proof. vm_compute. reflexivity. Qed.
Lemma sh_inits_in : forallb (fun x => mem sh_st sh_st_beq x sh_reach) sh_inits = true.
Proof. vm_compute. reflexivity. Qed.
Lemma sh_all_gone : forallb sh_gone_ok sh_reach = true.
Proof. vm_compute. reflexivity. Qed.
Lemma sh_all_free : forallb (stuck_free sh_st (sh_step true) 4 sh_final) sh_reach = true.
Proof. vm_compute. reflexivity. Qed.
Lemma sh_all_finish : forallb (fun s => sh_final (run sh_st (sh_step true) sh_finishing s)) sh_reach = true.
Proof. vm_compute. reflexivity. Qed.

(* HEAD's protocol, one client, whatever clientOutput is doing (waiting / sending an update / on hold), select() may fail:
   under every schedule of {application: rfbShutdownServer then rfbScreenCleanup, clientInput, clientOutput, a second
   rfbCloseClient caller} the teardown (rfbClientConnectionGone: unlink, hook, free) runs at most once; exactly once by the
   time the client's input thread has ended; and when the application's rfbScreenCleanup - the competing caller, which
   tears down every client it still finds listed - is through, it has run exactly once and the record is unlinked.
   (What keeps rfbScreenCleanup from a second teardown is the join.) *)
Theorem gone_once_threaded : forall s0 sched, In s0 sh_inits ->
  let s := run sh_st (sh_step true) sched s0 in
  sh_gone s <= 1 /\ (sh_pcI s = SH_IN_DONE -> sh_gone s = 1) /\
  (sh_pcA s = SH_APP_DONE -> sh_gone s = 1 /\ sh_inlist s = false).
Proof.
  intros s0 sched H0 s.
  assert (H := all_schedules sh_st sh_st_beq internal_sh_st_dec_bl (sh_step true) 4 (sh_bound true)
                 sh_reach sh_gone_ok s0 sh_closed (inits_in _ sh_inits_in s0 H0) sh_all_gone sched).
  fold s in H. unfold sh_gone_ok in H. apply andb_true_iff in H. destruct H as [H H3].
  apply andb_true_iff in H. destruct H as [H1 H2].
  apply Nat.leb_le in H1. split; [exact H1|]. split.
  - intros E. rewrite E in H2. simpl in H2. apply Nat.eqb_eq in H2. exact H2.
  - intros E. rewrite E in H3. simpl in H3. apply andb_true_iff in H3. destruct H3 as [H3 H4].
    apply Nat.eqb_eq in H3. apply negb_true_iff in H4. split; assumption.
Qed.

Lemma gone_once_nonvacuous :
  let s := run sh_st (sh_step true) ([2;2;2;2;2;2] ++ concat (repeat [0;1;2;3] 24)) sh_init_pending in
  sh_pcA s = SH_APP_DONE /\ sh_pcI s = SH_IN_DONE /\ sh_gone s = 1 /\ sh_pend s = false.
Proof. vm_compute. repeat split. Qed.

(* the join is what the previous theorem rests on: an application that goes on to rfbScreenCleanup WITHOUT having joined
   the client thread tears the client down a second time (not a finding: rfbShutdownServer(screen, TRUE) does join) *)
Definition sh_nojoin_witness : list nat := [0;0;0;0;0;0; 2; 1;1;1;1;1;1].
Theorem gone_twice_without_join :
  sh_gone (run sh_st (sh_step_cfg cfg_nojoin) sh_nojoin_witness sh_init) = 2.
Proof. vm_compute. reflexivity. Qed.

(* never stuck, always finishable *)
Theorem shutdown_never_stuck_repaired : forall s0 sched, In s0 sh_inits ->
  let s := run sh_st (sh_step true) sched s0 in
  sh_final s = true \/ exists t, t < 4 /\ enabled sh_st (sh_step true) t s = true.
Proof.
  intros s0 sched H0 s.
  assert (H := all_schedules sh_st sh_st_beq internal_sh_st_dec_bl (sh_step true) 4 (sh_bound true)
                 sh_reach (stuck_free sh_st (sh_step true) 4 sh_final) s0
                 sh_closed (inits_in _ sh_inits_in s0 H0) sh_all_free sched).
  fold s in H. unfold stuck_free in H. apply orb_true_iff in H. destruct H as [H|H]; auto.
  right. apply existsb_exists in H. destruct H as [t [Ht E]]. exists t. split.
  - apply in_seq in Ht. lia.
  - unfold enabled. exact E.
Qed.

Theorem shutdown_can_always_finish_repaired : forall s0 sched, In s0 sh_inits ->
  sh_final (run sh_st (sh_step true) sh_finishing (run sh_st (sh_step true) sched s0)) = true.
Proof.
  intros s0 sched H0.
  exact (all_schedules sh_st sh_st_beq internal_sh_st_dec_bl (sh_step true) 4 (sh_bound true)
           sh_reach (fun s => sh_final (run sh_st (sh_step true) sh_finishing s)) s0
           sh_closed (inits_in _ sh_inits_in s0 H0) sh_all_finish sched).
Qed.

(* the same WITHOUT the helping second closer: only rfbShutdownServer, clientInput and clientOutput run *)
Definition sh3_reach : list sh_st := explore sh_st sh_st_beq (sh_step3 cfg_head) 3 400000 sh_inits [].
Definition sh3_finishing : list nat := concat (repeat [0;1;2] 40).
Lemma sh3_closed : closed sh_st sh_st_beq (sh_step3 cfg_head) 3 sh3_reach = true.
Proof. vm_compute. reflexivity. Qed.
Lemma sh3_inits_in : forallb (fun x => mem sh_st sh_st_beq x sh3_reach) sh_inits = true.
Proof. vm_compute. reflexivity. Qed.
Lemma sh3_good :
  forallb (fun s => stuck_free sh_st (sh_step3 cfg_head) 3 sh_final3 s && sh_final3 (run sh_st (sh_step3 cfg_head) sh3_finishing s))
          sh3_reach = true.
Proof. vm_compute. reflexivity. Qed.
Theorem shutdown_terminates_three_threads : forall s0 sched, In s0 sh_inits ->
  let s := run sh_st (sh_step3 cfg_head) sched s0 in
  (sh_final3 s = true \/ exists t, t < 3 /\ enabled sh_st (sh_step3 cfg_head) t s = true) /\
  sh_final3 (run sh_st (sh_step3 cfg_head) sh3_finishing s) = true.
Proof.
  intros s0 sched H0 s.
  assert (H := all_schedules sh_st sh_st_beq internal_sh_st_dec_bl (sh_step3 cfg_head) 3 (sh3_bound cfg_head)
                 sh3_reach _ s0 sh3_closed (inits_in _ sh3_inits_in s0 H0) sh3_good sched).
  cbv beta in H. fold s in H. apply andb_true_iff in H. destruct H as [H1 H2]. split; [|exact H2].
  unfold stuck_free in H1. apply orb_true_iff in H1. destruct H1 as [H1|H1]; auto.
  right. apply existsb_exists in H1. destruct H1 as [t [Ht E]]. exists t. split.
  - apply in_seq in Ht. lia.
  - unfold enabled. exact E.
Qed.

(* and the client's two threads ALONE (nobody closes the client): when select() fails for good they finish by themselves,
   with exactly one teardown *)
Definition sh12_reach : list sh_st := explore sh_st sh_st_beq (sh_step12 cfg_head) 3 400000 sh_inits [].
Definition sh12_finishing : list nat := concat (repeat [1;2] 40).
Lemma sh12_closed : closed sh_st sh_st_beq (sh_step12 cfg_head) 3 sh12_reach = true.
Proof. vm_compute. reflexivity. Qed.
Lemma sh12_inits_in : forallb (fun x => mem sh_st sh_st_beq x sh12_reach) sh_inits = true.
Proof. vm_compute. reflexivity. Qed.
Lemma sh12_good :
  forallb (fun s => stuck_free sh_st (sh_step12 cfg_head) 3 sh_final12 s &&
                    sh_final12 (run sh_st (sh_step12 cfg_head) sh12_finishing s)) sh12_reach = true.
Proof. vm_compute. reflexivity. Qed.
Theorem select_failure_client_threads_finish : forall s0 sched, In s0 sh_inits ->
  let s := run sh_st (sh_step12 cfg_head) sched s0 in
  (sh_final12 s = true \/ exists t, t < 3 /\ enabled sh_st (sh_step12 cfg_head) t s = true) /\
  sh_final12 (run sh_st (sh_step12 cfg_head) sh12_finishing s) = true.
Proof.
  intros s0 sched H0 s.
  assert (H := all_schedules sh_st sh_st_beq internal_sh_st_dec_bl (sh_step12 cfg_head) 3 (sh12_bound cfg_head)
                 sh12_reach _ s0 sh12_closed (inits_in _ sh12_inits_in s0 H0) sh12_good sched).
  cbv beta in H. fold s in H. apply andb_true_iff in H. destruct H as [H1 H2]. split; [|exact H2].
  unfold stuck_free in H1. apply orb_true_iff in H1. destruct H1 as [H1|H1]; auto.
  right. apply existsb_exists in H1. destruct H1 as [t [Ht E]]. exists t. split.
  - apply in_seq in Ht. lia.
  - unfold enabled. exact E.
Qed.

(* before 1b1aba3: clientOutput tests cl->state, is preempted, the application closes the client, the input
   thread signals (nobody waits yet) and joins the output thread, which now goes to sleep for ever *)
Definition sh_witness : list nat := [2; 3;3;3;3; 0;0;0;0; 1;1;1;1; 2;2].
Theorem shutdown_lost_wakeup :
  let s := run sh_st (sh_step false) sh_witness sh_init in
  sh_final s = false /\ forall t, enabled sh_st (sh_step false) t s = false.
Proof.
  split; [vm_compute; reflexivity|].
  intros t. do 4 (destruct t as [|t]; [vm_compute; reflexivity|]). reflexivity.
Qed.

(* before 86ddb5d: select() fails in clientInput (EINTR was not retried).  The loop is left without state = RFB_SHUTDOWN; the
   final signal wakes an output thread that re-tests the state, finds nothing wrong and waits again; the input thread blocks in
   THREAD_JOIN.  Neither of the client's threads can move any more; only an rfbCloseClient by somebody else ends it. *)
Definition sh_selfail_witness : list nat := [2;2;2; 1;1;1;1; 2;2;2; 2;2;2].
Theorem input_leaves_loop_without_shutdown :
  let s := run sh_st (sh_step_cfg cfg_before_86ddb5d) sh_selfail_witness sh_init in
  sh_shut s = false /\ sh_gone s = 0 /\ sh_pcI s = 4 /\ sh_wait s = true /\
  enabled sh_st (sh_step_cfg cfg_before_86ddb5d) 1 s = false /\ enabled sh_st (sh_step_cfg cfg_before_86ddb5d) 2 s = false.
Proof. vm_compute. repeat split. Qed.

(* ------------------------------------------------------------------ 4. thread reclamation *)
Lemma th_cycles_run : forall f n s, fold_left (th_step f) (th_cycles n) s = mkTh (th_live s) ((if f then 0 else n) + th_zombie s).
Proof.
  intros f. induction n as [|n IH]; intros [l z]; simpl; [destruct f; reflexivity|].
  rewrite IH. simpl. destruct f; simpl; f_equal; lia.
Qed.

(* the counter (bookkeeping, true by construction): the protocol before 600ddcc leaves n ended threads after n connect/disconnect cycles and
   rfbShutdownServer does not reclaim them; HEAD (self-detach) leaves none *)
Theorem threads_never_joined : forall n, th_zombie (th_run false (th_cycles n)) = n /\ th_live (th_run false (th_cycles n)) = 0.
Proof. intros n. unfold th_run. rewrite th_cycles_run. simpl. split; lia. Qed.
Theorem shutdown_does_not_reclaim_them : forall n, th_zombie (th_run false (th_cycles n ++ [ThShutdown])) = n.
Proof. intros n. unfold th_run. rewrite fold_left_app, th_cycles_run. simpl. lia. Qed.
Theorem threads_reclaimed_when_detached : forall n, th_zombie (th_run true (th_cycles n ++ [ThShutdown])) = 0.
Proof. intros n. unfold th_run. rewrite fold_left_app, th_cycles_run. simpl. reflexivity. Qed.

(* ------------------------------------------------------------------ 4f. who reclaims a client thread *)
Lemma rc_bound : forall f e t s, 2 <= t -> rc_step f e t s = None.
Proof. intros f e t s H. unfold rc_step. do 2 (destruct t as [|t]; [lia|]). reflexivity. Qed.

(* before 600ddcc: the connection ends by itself before rfbShutdownServer looks: the thread has exited, nobody ever joins or detaches it *)
Definition rc_leak_witness : list nat := [1;1;1;1;1; 0].
Theorem client_thread_never_reclaimed :
  let s := run rc_st (rc_step false false) rc_leak_witness rc_init in
  rc_final s = true /\ rc_exited s = true /\ rc_reclaimed s = 0.
Proof. vm_compute. repeat split. Qed.

(* HEAD (600ddcc = notes/fix_C13_6.diff): for EVERY schedule (the connection ends at any moment relative to the shutdown) the thread is never
   joined after it detached itself, the application never touches the freed record, the thread is reclaimed at most once - and
   exactly once when both are through -, nobody gets stuck, and the round-robin continuation gets both through *)
Definition rc_reach : list rc_st := explore rc_st rc_st_beq (rc_step true false) 2 5000 [rc_init] [].
Definition rc_finishing : list nat := concat (repeat [0; 1] 10).
Lemma rc_closed : closed rc_st rc_st_beq (rc_step true false) 2 rc_reach = true.
Proof. vm_compute. reflexivity. Qed.
Lemma rc_init_in : In rc_init rc_reach.
Proof. apply (mem_in _ _ internal_rc_st_dec_bl). vm_compute. reflexivity. Qed.
Lemma rc_all_good :
  forallb (fun s => rc_ok s && stuck_free rc_st (rc_step true false) 2 rc_final s &&
                    (let z := run rc_st (rc_step true false) rc_finishing s in rc_final z && (rc_reclaimed z =? 1) && negb (rc_bad z))) rc_reach = true.
Proof. vm_compute. reflexivity. Qed.
Theorem client_thread_reclaimed_exactly_once : forall sched,
  let s := run rc_st (rc_step true false) sched rc_init in
  rc_bad s = false /\ rc_reclaimed s <= 1 /\ (rc_final s = true -> rc_reclaimed s = 1) /\
  (rc_final s = true \/ exists t, t < 2 /\ enabled rc_st (rc_step true false) t s = true) /\
  (let z := run rc_st (rc_step true false) rc_finishing s in rc_final z = true /\ rc_reclaimed z = 1 /\ rc_bad z = false).
Proof.
  intros sched s.
  assert (H := all_schedules rc_st rc_st_beq internal_rc_st_dec_bl (rc_step true false) 2 (rc_bound true false)
                 rc_reach _ rc_init rc_closed rc_init_in rc_all_good sched).
  cbv beta in H. fold s in H. apply andb_true_iff in H. destruct H as [H H3]. apply andb_true_iff in H. destruct H as [H1 H2].
  unfold rc_ok in H1. apply andb_true_iff in H1. destruct H1 as [H1 Hf]. apply andb_true_iff in H1. destruct H1 as [Hb Hle].
  split; [apply negb_true_iff; exact Hb|]. split; [apply Nat.leb_le; exact Hle|]. split.
  - intros E. rewrite E in Hf. simpl in Hf. apply Nat.eqb_eq. exact Hf.
  - split.
    + unfold stuck_free in H2. apply orb_true_iff in H2. destruct H2 as [H2|H2]; auto.
      right. apply existsb_exists in H2. destruct H2 as [t [Ht E]]. exists t. split.
      * apply in_seq in Ht. lia.
      * unfold enabled. exact E.
    + cbv zeta in H3. apply andb_true_iff in H3. destruct H3 as [H3 Hnb]. apply andb_true_iff in H3. destruct H3 as [Hfin Hr].
      split; [exact Hfin|]. split; [apply Nat.eqb_eq; exact Hr | apply negb_true_iff; exact Hnb].
Qed.
Lemma client_thread_reclaimed_nonvacuous :
  (let s := run rc_st (rc_step true false) [0;0;0;0; 1;1;1;1;1; 0] rc_init in rc_final s = true /\ rc_joined s = 1 /\ rc_detached s = false) /\
  (let s := run rc_st (rc_step true false) [1;1;1;1;1; 0] rc_init in rc_final s = true /\ rc_joined s = 0 /\ rc_detached s = true).
Proof. vm_compute. repeat split. Qed.

(* the theorem is not a tautology: a thread that looks at the claim flag BEFORE it has been unlinked can miss a claim made
   afterwards - it detaches itself and rfbShutdownServer joins it *)
Definition rc_early_witness : list nat := [1; 0;0;0;0; 1;1;1;1; 0].
Theorem claim_must_be_read_after_the_unlink :
  rc_bad (run rc_st (rc_step true true) rc_early_witness rc_init) = true.
Proof. vm_compute. reflexivity. Qed.

(* ------------------------------------------------------------------ 4g. rfbShutdownServer against the listener *)
Lemma ls_bound : forall f t s, 2 <= t -> ls_step f t s = None.
Proof. intros f t s H. unfold ls_step. do 2 (destruct t as [|t]; [lia|]). reflexivity. Qed.
(* before 633e5d0: the listener has linked a new client, rfbShutdownServer's loop joins its (not yet existing) thread, the listener then
   creates the thread after the loop is over *)
Definition ls_witness : list nat := [1; 0; 1].
Theorem shutdown_joins_unstarted_thread :
  let s := run ls_st (ls_step false) ls_witness ls_init in ls_badjoin s = true /\ ls_late s = true.
Proof. vm_compute. split; reflexivity. Qed.
(* HEAD (633e5d0 = notes/fix_C13_7.diff, listener stopped and joined first): for every schedule - the connection arrives at any moment - every
   client the loop finds has its thread, no client thread is created after the loop, nobody stuck, everybody finishes *)
Definition ls_reach : list ls_st := explore ls_st ls_st_beq (ls_step true) 2 5000 [ls_init] [].
Definition ls_finishing : list nat := concat (repeat [0; 1] 8).
Lemma ls_closed : closed ls_st ls_st_beq (ls_step true) 2 ls_reach = true.
Proof. vm_compute. reflexivity. Qed.
Lemma ls_init_in : In ls_init ls_reach.
Proof. apply (mem_in _ _ internal_ls_st_dec_bl). vm_compute. reflexivity. Qed.
Lemma ls_all_good :
  forallb (fun s => ls_ok s && stuck_free ls_st (ls_step true) 2 ls_final s &&
                    (let z := run ls_st (ls_step true) ls_finishing s in ls_final z && ls_ok z)) ls_reach = true.
Proof. vm_compute. reflexivity. Qed.
Theorem shutdown_joins_only_started_threads : forall sched,
  let s := run ls_st (ls_step true) sched ls_init in
  ls_badjoin s = false /\ ls_late s = false /\
  (ls_final s = true \/ exists t, t < 2 /\ enabled ls_st (ls_step true) t s = true) /\
  ls_final (run ls_st (ls_step true) ls_finishing s) = true.
Proof.
  intros sched s.
  assert (H := all_schedules ls_st ls_st_beq internal_ls_st_dec_bl (ls_step true) 2 (ls_bound true)
                 ls_reach _ ls_init ls_closed ls_init_in ls_all_good sched).
  cbv beta in H. fold s in H. apply andb_true_iff in H. destruct H as [H H3]. apply andb_true_iff in H. destruct H as [H1 H2].
  unfold ls_ok in H1. apply andb_true_iff in H1. destruct H1 as [Hb Hl].
  split; [apply negb_true_iff; exact Hb|]. split; [apply negb_true_iff; exact Hl|]. split.
  - unfold stuck_free in H2. apply orb_true_iff in H2. destruct H2 as [H2|H2]; auto.
    right. apply existsb_exists in H2. destruct H2 as [t [Ht E]]. exists t. split.
    + apply in_seq in Ht. lia.
    + unfold enabled. exact E.
  - cbv zeta in H3. apply andb_true_iff in H3. destruct H3 as [H3 _]. exact H3.
Qed.
Lemma shutdown_listener_nonvacuous :
  let s := run ls_st (ls_step true) [1; 0; 1; 1; 0; 0] ls_init in ls_final s = true /\ ls_listed s = true /\ ls_thread s = true /\ ls_ok s = true.
Proof. vm_compute. repeat split. Qed.

(* ------------------------------------------------------------------ 4h. rfbCloseClient against the handshake *)
Lemma hs_bound : forall f t s, 2 <= t -> hs_step f t s = None.
Proof. intros f t s H. unfold hs_step. do 2 (destruct t as [|t]; [lia|]). reflexivity. Qed.
(* before 4891477: the client's thread has read the ClientInit message, rfbCloseClient sets RFB_SHUTDOWN, the handshake stores RFB_NORMAL over
   it; the thread waits for the next message of an idle client, rfbShutdownServer waits in pthread_join: nobody can move *)
Definition hs_witness : list nat := [1;1; 1;1; 1; 0;0;0; 1].
Theorem close_during_handshake_lost :
  let s := run hs_st (hs_step false) hs_witness hs_init in
  hs_state s = 3 /\ hs_final s = false /\ forall t, enabled hs_st (hs_step false) t s = false.
Proof.
  repeat split; try (vm_compute; reflexivity).
  intros t. do 2 (destruct t as [|t]; [vm_compute; reflexivity|]). reflexivity.
Qed.
(* HEAD (4891477 = notes/fix_C13_8.diff): whenever the close falls relative to the handshake, nobody gets stuck and the shutdown completes *)
Definition hs_reach : list hs_st := explore hs_st hs_st_beq (hs_step true) 2 5000 [hs_init] [].
Definition hs_finishing : list nat := concat (repeat [0; 1] 24).
Lemma hs_closed : closed hs_st hs_st_beq (hs_step true) 2 hs_reach = true.
Proof. vm_compute. reflexivity. Qed.
Lemma hs_init_in : In hs_init hs_reach.
Proof. apply (mem_in _ _ internal_hs_st_dec_bl). vm_compute. reflexivity. Qed.
Lemma hs_all_good :
  forallb (fun s => stuck_free hs_st (hs_step true) 2 hs_final s && hs_final (run hs_st (hs_step true) hs_finishing s)) hs_reach = true.
Proof. vm_compute. reflexivity. Qed.
Theorem close_during_handshake_not_lost : forall sched,
  let s := run hs_st (hs_step true) sched hs_init in
  (hs_final s = true \/ exists t, t < 2 /\ enabled hs_st (hs_step true) t s = true) /\
  hs_final (run hs_st (hs_step true) hs_finishing s) = true.
Proof.
  intros sched s.
  assert (H := all_schedules hs_st hs_st_beq internal_hs_st_dec_bl (hs_step true) 2 (hs_bound true)
                 hs_reach _ hs_init hs_closed hs_init_in hs_all_good sched).
  cbv beta in H. fold s in H. apply andb_true_iff in H. destruct H as [H1 H2]. split; [|exact H2].
  unfold stuck_free in H1. apply orb_true_iff in H1. destruct H1 as [H1|H1]; auto.
  right. apply existsb_exists in H1. destruct H1 as [t [Ht E]]. exists t. split.
  - apply in_seq in Ht. lia.
  - unfold enabled. exact E.
Qed.

(* ------------------------------------------------------------------ 4b. a request wakes the output thread *)
Lemma rq_bound : forall b kd t s, 3 <= t -> rq_step b kd t s = None.
Proof. intros b kd t s H. unfold rq_step. do 3 (destruct t as [|t]; [lia|]). reflexivity. Qed.

Definition rq_reach (b : bool) (kd : nat) : list rq_st :=
  explore rq_st rq_st_beq (rq_step b kd) 3 20000 [rq_init] [].
(* [rq_good b kd s]: from s, the round-robin continuation rq_rr ends with the update sent *)
Definition rq_good (b : bool) (kd : nat) (s : rq_st) : bool := rq_sent (run rq_st (rq_step b kd) rq_rr s).

Lemma rq_closed : forall kd, kd < 2 -> closed rq_st rq_st_beq (rq_step false kd) 3 (rq_reach false kd) = true.
Proof. intros kd H. do 2 (destruct kd as [|kd]; [vm_compute; reflexivity|]). exfalso; lia. Qed.
Lemma rq_init_in : forall kd, kd < 2 -> In rq_init (rq_reach false kd).
Proof. intros kd H. apply (mem_in _ _ internal_rq_st_dec_bl). do 2 (destruct kd as [|kd]; [vm_compute; reflexivity|]). exfalso; lia. Qed.
Lemma rq_all_good : forall kd, kd < 2 -> forallb (rq_good false kd) (rq_reach false kd) = true.
Proof. intros kd H. do 2 (destruct kd as [|kd]; [vm_compute; reflexivity|]). exfalso; lia. Qed.

(* the application's last operation was a mark (kind 0) or a copy (kind 1): however the three threads
   were scheduled so far, letting them run on (round robin) ends with the update sent *)
Theorem request_wakes_output : forall kd sched, kd < 2 ->
  rq_good false kd (run rq_st (rq_step false kd) sched rq_init) = true.
Proof.
  intros kd sched H.
  exact (all_schedules rq_st rq_st_beq internal_rq_st_dec_bl (rq_step false kd) 3 (rq_bound false kd)
           (rq_reach false kd) (rq_good false kd) rq_init (rq_closed kd H) (rq_init_in kd H) (rq_all_good kd H) sched).
Qed.

(* cursor moved / replaced (no signal of its own) BEFORE the request arrives: the request's signal
   gets the cursor update sent, under every schedule of input and output thread *)
Definition rq_cur_init : rq_st := mkRq false false false true 0 false false 1 0 0.
Definition rq_cur_reach : list rq_st := explore rq_st rq_st_beq (rq_step false 2) 3 20000 [rq_cur_init] [].
Lemma rq_cur_closed : closed rq_st rq_st_beq (rq_step false 2) 3 rq_cur_reach = true.
Proof. vm_compute. reflexivity. Qed.
Lemma rq_cur_init_in : In rq_cur_init rq_cur_reach.
Proof. apply (mem_in _ _ internal_rq_st_dec_bl). vm_compute. reflexivity. Qed.
Lemma rq_cur_good : forallb (rq_good false 2) rq_cur_reach = true.
Proof. vm_compute. reflexivity. Qed.
Theorem request_wakes_output_cursor : forall sched,
  rq_good false 2 (run rq_st (rq_step false 2) sched rq_cur_init) = true.
Proof.
  intros sched.
  exact (all_schedules rq_st rq_st_beq internal_rq_st_dec_bl (rq_step false 2) 3 (rq_bound false 2)
           rq_cur_reach (rq_good false 2) rq_cur_init rq_cur_closed rq_cur_init_in rq_cur_good sched).
Qed.

(* but a cursor change while a request is already outstanding wakes nobody (rfbDefaultPtrAddEvent and
   rfbSetCursor do not signal updateCond): the position/shape update waits for the next event *)
Definition rq_cur_witness : list nat := [1; 1; 1; 2; 2; 0].
Theorem cursor_change_does_not_wake :
  let s := run rq_st (rq_step false 2) rq_cur_witness rq_init in
  rq_req s = true /\ rq_cur s = true /\ rq_sent s = false /\ forall t, enabled rq_st (rq_step false 2) t s = false.
Proof.
  repeat split; try (vm_compute; reflexivity).
  intros t. do 3 (destruct t as [|t]; [vm_compute; reflexivity|]). reflexivity.
Qed.

(* the signal of the request handler must not depend on modifiedRegion: with "signal only if modified"
   a copy (or cursor change) followed by a request leaves the output thread asleep with work pending *)
Definition rq_witness : list nat := [2; 2; 0; 0; 0; 2; 2; 2; 1; 1; 1].
Theorem conditional_signal_loses_update :
  let s := run rq_st (rq_step true 1) rq_witness rq_init in
  rq_req s = true /\ rq_copy s = true /\ rq_sent s = false /\
  forall t, enabled rq_st (rq_step true 1) t s = false.
Proof.
  repeat split; try (vm_compute; reflexivity).
  intros t. do 3 (destruct t as [|t]; [vm_compute; reflexivity|]). reflexivity.
Qed.

(* ------------------------------------------------------------------ 4c. marks during a send *)
Lemma sk_bound : forall b t s, 2 <= t -> sk_step b t s = None.
Proof. intros b t s H. unfold sk_step. do 2 (destruct t as [|t]; [lia|]). reflexivity. Qed.
Definition sk_reach : list sk_st := explore sk_st sk_st_beq (sk_step false) 2 5000 [sk_init] [].
Lemma sk_closed : closed sk_st sk_st_beq (sk_step false) 2 sk_reach = true.
Proof. vm_compute. reflexivity. Qed.
Lemma sk_init_in : In sk_init sk_reach.
Proof. apply (mem_in _ _ internal_sk_st_dec_bl). vm_compute. reflexivity. Qed.
Lemma sk_all_ok : forallb sk_ok sk_reach = true.
Proof. vm_compute. reflexivity. Qed.

(* whenever the application's write and mark fall relative to the update in flight: once both are done and
   the client has asked again, the client shows the new pixel *)
Theorem send_keeps_concurrent_marks : forall sched,
  let s := run sk_st (sk_step false) sched sk_init in
  sk_pcA s = 2 -> sk_pcO s = 5 -> sk_client s = true.
Proof.
  intros sched s HA HO.
  assert (H := all_schedules sk_st sk_st_beq internal_sk_st_dec_bl (sk_step false) 2 (sk_bound false)
                 sk_reach sk_ok sk_init sk_closed sk_init_in sk_all_ok sched).
  fold s in H. unfold sk_ok in H. rewrite HA, HO in H. simpl in H. exact H.
Qed.

Lemma send_keeps_nonvacuous :
  let s := run sk_st (sk_step false) [1; 1; 0; 0; 1; 1; 1] sk_init in sk_pcA s = 2 /\ sk_pcO s = 5 /\ sk_client s = true.
Proof. vm_compute. repeat split. Qed.

(* subtracting the sent box from modifiedRegion again after the send loses a mark placed in between *)
Theorem subtract_after_send_loses_mark :
  let s := run sk_st (sk_step true) [1; 1; 0; 0; 1; 1; 1] sk_init in
  sk_pcA s = 2 /\ sk_pcO s = 5 /\ sk_client s = false.
Proof. vm_compute. repeat split. Qed.

(* ------------------------------------------------------------------ 4d. rfbShutdownServer's join *)
Lemma sj_bound : forall b t s, 2 <= t -> sj_step b t s = None.
Proof. intros b t s H. unfold sj_step. do 2 (destruct t as [|t]; [lia|]). reflexivity. Qed.
Definition sj_reach : list sj_st := explore sj_st sj_st_beq (sj_step true) 2 5000 [sj_init] [].
Lemma sj_closed_set : closed sj_st sj_st_beq (sj_step true) 2 sj_reach = true.
Proof. vm_compute. reflexivity. Qed.
Lemma sj_init_in : In sj_init sj_reach.
Proof. apply (mem_in _ _ internal_sj_st_dec_bl). vm_compute. reflexivity. Qed.
Lemma sj_all_ok : forallb sj_ok sj_reach = true.
Proof. vm_compute. reflexivity. Qed.
Lemma sj_all_free : forallb (stuck_free sj_st (sj_step true) 2 sj_final) sj_reach = true.
Proof. vm_compute. reflexivity. Qed.

(* repaired order: whenever the peer disconnects, the application never touches the freed record ... *)
Theorem shutdown_join_safe_repaired : forall sched,
  sj_uaf (run sj_st (sj_step true) sched sj_init) = false.
Proof.
  intros sched.
  assert (H := all_schedules sj_st sj_st_beq internal_sj_st_dec_bl (sj_step true) 2 (sj_bound true)
                 sj_reach sj_ok sj_init sj_closed_set sj_init_in sj_all_ok sched).
  unfold sj_ok in H. apply negb_true_iff in H. exact H.
Qed.

(* ... and is never stuck before both the join and the teardown are done *)
Theorem shutdown_join_never_stuck_repaired : forall sched,
  let s := run sj_st (sj_step true) sched sj_init in
  sj_final s = true \/ exists t, t < 2 /\ enabled sj_st (sj_step true) t s = true.
Proof.
  intros sched s.
  assert (H := all_schedules sj_st sj_st_beq internal_sj_st_dec_bl (sj_step true) 2 (sj_bound true)
                 sj_reach (stuck_free sj_st (sj_step true) 2 sj_final) sj_init sj_closed_set sj_init_in sj_all_free sched).
  fold s in H. unfold stuck_free in H. apply orb_true_iff in H. destruct H as [H|H]; [left; exact H|right].
  apply existsb_exists in H. destruct H as [t [Ht He]]. exists t. split.
  - apply in_seq in Ht. lia.
  - unfold enabled. exact He.
Qed.

Lemma shutdown_join_nonvacuous :
  let s := run sj_st (sj_step true) [0; 0; 0; 1; 1; 0] sj_init in sj_final s = true /\ sj_freed s = true /\ sj_uaf s = false.
Proof. vm_compute. repeat split. Qed.

(* faithful order (the code as read): the reference is dropped first; the notified client thread frees
   the record; the application then reads currentCl->screen / currentCl->client_thread *)
Definition sj_witness : list nat := [0; 0; 1; 1; 0].
Theorem shutdown_join_reads_freed_record :
  let s := run sj_st (sj_step false) sj_witness sj_init in sj_freed s = true /\ sj_uaf s = true.
Proof. vm_compute. split; reflexivity. Qed.

(* ------------------------------------------------------------------ 4e. rfbNewFramebuffer vs. a client that goes / arrives *)
(* before 74169c1: the peer of an idle client disconnects between the pass that locks every sendMutex and the pass that unlocks them:
   the client is closed (skipped by the second iterator) and already unlinked; rfbNewFramebuffer returns still holding
   its sendMutex; the client's own thread blocks for ever in rfbClientConnectionGone (LOCK(cl->sendMutex), rfbserver.c:669) *)
Definition nf_gone_witness : list nat := [0;0;0; 1;1;1; 0;0;0; 1].
Theorem newfb_leaves_sendmutex_locked :
  let s := run nf_st (nf_step false 0) nf_gone_witness (nf_init 0) in
  nf_pcA s = NF_APP_DONE /\ nf_send s = 1 /\ nf_pcB s = 3 /\ nf_freed s = false /\ nf_ok s = false /\
  forall t, enabled nf_st (nf_step false 0) t s = false.
Proof.
  repeat split; try (vm_compute; reflexivity).
  intros t. do 2 (destruct t as [|t]; [vm_compute; reflexivity|]). reflexivity.
Qed.

(* before 74169c1: a connection accepted between the two passes gets an UNLOCK of a sendMutex nobody locked *)
Definition nf_new_witness : list nat := [0;0; 1; 0;0].
Theorem newfb_unlocks_unlocked_mutex :
  nf_badunlock (run nf_st (nf_step false 1) nf_new_witness (nf_init 1)) = true.
Proof. vm_compute. reflexivity. Qed.

Lemma nf_bound : forall f m t s, 2 <= t -> nf_step f m t s = None.
Proof. intros f m t s H. unfold nf_step. do 2 (destruct t as [|t]; [lia|]). reflexivity. Qed.

(* HEAD (74169c1 = notes/fix_C13_5.diff): EVERY schedule of both modes (the client goes / arrives at any moment) is balanced, nobody gets
   stuck, and the round-robin continuation ends with rfbNewFramebuffer returned, the mutex free and, in mode 0, the record freed *)
Definition nff_reach (m : nat) : list nf_st := explore nf_st nf_st_beq (nf_step true m) 2 5000 [nf_init m] [].
Definition nf_finishing : list nat := concat (repeat [0; 1] 12).
Definition nff_good (m : nat) (s : nf_st) : bool :=
  nf_ok s && stuck_free nf_st (nf_step true m) 2 nf_final s &&
  (let z := run nf_st (nf_step true m) nf_finishing s in
   nf_final z && (nf_send z =? 0) && negb (nf_badunlock z) && (nf_ref z =? 0) && ((m =? 1) || nf_freed z)).
Lemma nff_closed : forall m, m < 2 -> closed nf_st nf_st_beq (nf_step true m) 2 (nff_reach m) = true.
Proof. intros m H. do 2 (destruct m as [|m]; [vm_compute; reflexivity|]). exfalso; lia. Qed.
Lemma nff_init : forall m, m < 2 -> In (nf_init m) (nff_reach m).
Proof. intros m H. apply (mem_in _ _ internal_nf_st_dec_bl). do 2 (destruct m as [|m]; [vm_compute; reflexivity|]). exfalso; lia. Qed.
Lemma nff_all_good : forall m, m < 2 -> forallb (nff_good m) (nff_reach m) = true.
Proof. intros m H. do 2 (destruct m as [|m]; [vm_compute; reflexivity|]). exfalso; lia. Qed.
Theorem newfb_fixed_balanced : forall m sched, m < 2 ->
  let s := run nf_st (nf_step true m) sched (nf_init m) in
  nf_ok s = true /\ (nf_final s = true \/ exists t, t < 2 /\ enabled nf_st (nf_step true m) t s = true) /\
  (let z := run nf_st (nf_step true m) nf_finishing s in nf_final z = true /\ nf_send z = 0 /\ nf_badunlock z = false).
Proof.
  intros m sched Hm s.
  assert (H := all_schedules nf_st nf_st_beq internal_nf_st_dec_bl (nf_step true m) 2 (nf_bound true m)
                 (nff_reach m) (nff_good m) (nf_init m) (nff_closed m Hm) (nff_init m Hm) (nff_all_good m Hm) sched).
  fold s in H. unfold nff_good in H. apply andb_true_iff in H. destruct H as [H H3]. apply andb_true_iff in H. destruct H as [H1 H2].
  split; [exact H1|]. split.
  - unfold stuck_free in H2. apply orb_true_iff in H2. destruct H2 as [H2|H2]; auto.
    right. apply existsb_exists in H2. destruct H2 as [t [Ht E]]. exists t. split.
    + apply in_seq in Ht. lia.
    + unfold enabled. exact E.
  - cbv zeta in H3.
    apply andb_true_iff in H3. destruct H3 as [H3 _]. apply andb_true_iff in H3. destruct H3 as [H3 _].
    apply andb_true_iff in H3. destruct H3 as [H3 Hnb]. apply andb_true_iff in H3. destruct H3 as [Hfin Hs0].
    split; [exact Hfin|]. split; [apply Nat.eqb_eq; exact Hs0 | apply negb_true_iff; exact Hnb].
Qed.

(* ------------------------------------------------------------------ 5. lock order *)
Section LockOrder.
  Variable rank : nat -> nat.

  Definition disciplined (t : thr) : Prop :=
    match want t with Some m => forall h, In h (held t) -> rank h < rank m | None => True end.
  (* t waits for a mutex that u holds *)
  Definition waits_for (t u : thr) : Prop := exists m, want t = Some m /\ In m (held u).
  Definition wrank (t : thr) : nat := match want t with Some m => rank m | None => 0 end.

  Fixpoint chain (l : list thr) : Prop :=
    match l with
    | a :: ((b :: _) as r) => waits_for a b /\ chain r
    | _ => True
    end.

  Lemma waits_rank : forall a b, waits_for a b -> disciplined b -> (exists m, want b = Some m) -> wrank a < wrank b.
  Proof.
    intros a b [m [Wa Hb]] D [m' Wb]. unfold wrank. rewrite Wa, Wb. unfold disciplined in D. rewrite Wb in D. auto.
  Qed.

  Lemma last_default : forall (l : list thr) b x y, last (b :: l) x = last (b :: l) y.
  Proof. induction l as [|c r IH]; intros b x y; [reflexivity|]. change (last (c :: r) x = last (c :: r) y). apply IH. Qed.

  Lemma chain_wants : forall l a, chain (a :: l) -> forall t, In t (a :: l) ->
    t = last (a :: l) a \/ exists m, want t = Some m.
  Proof.
    induction l as [|b r IH]; intros a C t Ht.
    - destruct Ht as [<-|[]]. left. reflexivity.
    - destruct C as [[m [Wa _]] Cr]. destruct Ht as [<-|Ht].
      + right. eauto.
      + destruct (IH b Cr t Ht) as [E|E]; auto. left.
        change (last (a :: b :: r) a) with (last (b :: r) a). rewrite (last_default r b a b). exact E.
  Qed.

  Lemma chain_mono : forall l a, chain (a :: l) -> (forall t, In t (a :: l) -> disciplined t) ->
    (forall t, In t (a :: l) -> exists m, want t = Some m) -> wrank a <= wrank (last (a :: l) a).
  Proof.
    induction l as [|b r IH]; intros a C D W.
    - simpl. auto.
    - destruct C as [Cab Cr].
      assert (Hlt : wrank a < wrank b) by (apply waits_rank; auto; [apply D | apply W]; simpl; auto).
      assert (Hle := IH b Cr (fun t H => D t (or_intror H)) (fun t H => W t (or_intror H))).
      change (last (a :: b :: r) a) with (last (b :: r) a). rewrite (last_default r b a b). lia.
  Qed.

  (* a deadlock among mutexes is a cycle t0 -> t1 -> ... -> tn -> t0 of threads each waiting for a mutex
     the next one holds.  If every thread only asks for a mutex ranked above all it holds, no such
     cycle exists, for any number of threads and mutexes. *)
  Theorem no_deadlock_cycle : forall a l,
    (forall t, In t (a :: l) -> disciplined t) ->
    chain (a :: l) -> waits_for (last (a :: l) a) a -> False.
  Proof.
    intros a l D C Back.
    assert (W : forall t, In t (a :: l) -> exists m, want t = Some m).
    { intros t Ht. destruct (chain_wants l a C t Ht) as [E|E]; auto.
      subst t. destruct Back as [m [Wm _]]. eauto. }
    assert (Hle := chain_mono l a C D W).
    assert (Hin : In (last (a :: l) a) (a :: l)).
    { clear. revert a. induction l as [|b r IH]; intros a; [simpl; auto|].
      change (last (a :: b :: r) a) with (last (b :: r) a). rewrite (last_default r b a b). right. apply IH. }
    assert (Hlt : wrank (last (a :: l) a) < wrank a).
    { apply waits_rank; auto. apply D. simpl; auto. apply W. simpl; auto. }
    lia.
  Qed.
End LockOrder.

(* the acquisition pairs of the true-colour code paths respect the rank (= the numbering of the mutexes), for ANY
   number N of clients - a symbolic argument over the generated table, not an evaluation *)
Lemma lock_table_n_ranked : forall N p, In p (lock_table_n N) -> fst p < snd p.
Proof.
  intros N [h m] H. unfold lock_table_n in H. rewrite !in_app_iff in H. destruct H as [H|[H|H]].
  - apply in_flat_map in H. destruct H as [k [Hk H]]. apply in_seq in Hk.
    unfold pairs_client, P_send, P_cursor, P_upd, P_list, P_ref, P_out in H.
    repeat (destruct H as [H|H]; [inversion H; subst; cbn [fst snd]; lia|]). destruct H.
  - apply in_flat_map in H. destruct H as [j [Hj H]]. apply in_flat_map in H. destruct H as [k [Hk H]].
    apply in_seq in Hj. apply in_seq in Hk. unfold pairs_cross in H. apply in_app_iff in H. destruct H as [H|H].
    + destruct (j <? k) eqn:E; [|destruct H]. apply Nat.ltb_lt in E. destruct H as [H|[]].
      inversion H; subst. unfold P_send. cbn [fst snd]. lia.
    + destruct (j =? k) eqn:E; [destruct H|]. unfold P_send, P_ref, P_upd in H.
      destruct H as [H|[H|[]]]; inversion H; subst; cbn [fst snd]; lia.
  - destruct H as [H|[]]. inversion H; subst. unfold P_cursor, P_list. cbn [fst snd]. lia.
Qed.

Lemma table_respects_rank : respects_rank lock_table = true.
Proof. vm_compute. reflexivity. Qed.

(* the table with the colour-map paths does not: updateMutex and sendMutex of the same client are taken in both orders,
   updateMutex twice and sendMutex twice by the same thread *)
Lemma palette_table_inversion :
  In (P_send 3 0, P_upd 3 0) lock_table_palette /\ In (P_upd 3 0, P_send 3 0) lock_table_palette /\
  In (P_upd 3 0, P_upd 3 0) lock_table_palette /\ In (P_send 3 0, P_send 3 0) lock_table_palette.
Proof. vm_compute. tauto. Qed.

(* a thread that holds h and asks for m, for a pair (h, m) of a rank-respecting table, is disciplined *)
Lemma table_thread_disciplined : forall (tbl : list (nat * nat)) t,
  (forall p, In p tbl -> fst p < snd p) ->
  (forall m, want t = Some m -> forall h, In h (held t) -> In (h, m) tbl) ->
  disciplined (fun x => x) t.
Proof.
  intros tbl t HR HT. unfold disciplined. destruct (want t) as [m|] eqn:E; auto.
  intros h Hh. exact (HR (h, m) (HT m eq_refl h Hh)).
Qed.

(* N clients, any number of threads: *)
Theorem lock_order_acyclic : forall N a l,
  (forall t, In t (a :: l) -> forall m, want t = Some m -> forall h, In h (held t) -> In (h, m) (lock_table_n N)) ->
  chain (a :: l) -> waits_for (last (a :: l) a) a -> False.
Proof.
  intros N a l HT. apply (no_deadlock_cycle (fun x => x)).
  intros t Ht. apply (table_thread_disciplined (lock_table_n N) t (lock_table_n_ranked N)). intros m E h Hh.
  apply (HT t Ht m E h Hh).
Qed.

(* non-vacuity with a THIRD client's mutexes (N = 3, client 2) *)
Example lock_order_nonvacuous :
  let t1 := mkThr [P_send 3 2] (Some (P_upd 3 2)) in
  let t2 := mkThr [P_upd 3 2] None in
  (forall t, In t [t1; t2] -> forall m, want t = Some m -> forall h, In h (held t) -> In (h, m) (lock_table_n 3)) /\
  chain [t1; t2].
Proof.
  split.
  - intros t [<-|[<-|[]]] m E h Hh; simpl in *; try discriminate.
    inversion E; subst. destruct Hh as [<-|[]]. vm_compute. tauto.
  - simpl. split; auto. exists (P_upd 3 2). simpl. auto.
Qed.
