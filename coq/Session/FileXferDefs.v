(* C19 - executable mirror model of the UltraVNC file-transfer handling of
   src/libvncserver/rfbserver.c: FILEXFER_ALLOWED_OR_CLOSE_AND_RETURN, rfbSendFileTransferMessage,
   rfbFilenameTranslate2UNIX, rfbSendDirContent, rfbProcessFileTransferReadBuffer,
   rfbSendFileTransferChunk, rfbProcessFileTransfer, and the TightVNC extension's ConvertPath /
   message gate (tightvnc-filetransfer).  Definitions only.

   The code runs in a state monad over a [world]:
     - the permission callback is an arbitrary stateful oracle: a list of answers consumed one per
       invocation, then a constant answer;
     - the environment (file system, zlib, strftime) is an oracle as well: a list of answers consumed
       one per call (in the correspondence run these are the answers the real calls returned);
     - the client's unread bytes;
     - the trace of events (permission queries, file-system calls with their arguments, bytes
       written to the client, rfbCloseClient), in program order;
     - cl->fileTransfer.{fd,sending,receiving,compressionEnabled} and cl->sock.
   An environment answer of the wrong kind / a missing answer is the explicit event [ModelErr]. *)
From Coq Require Import ZArith List Bool Lia.
From LV Require Import Gen.Consts_C19.
Import ListNotations.
Local Open Scope Z_scope.

Definition str := list Z.

Record config := {
  permit : bool;            (* screen->permitFileTransfer *)
  has_cb : bool;            (* screen->getFileTransferPermission != NULL *)
  home : option str;        (* getenv("HOME") *)
  fix_f7 : bool;            (* true = the tree since fix commit 4d56b95 (descriptor closed before it is replaced
                               and at connection teardown); false = the flow before that commit *)
  fix_f14 : bool;           (* true = the tree since fix commit b4cfd8a (rfbWriteExact unlocks outputMutex on its
                               invalid-socket exit); false = the flow before *)
  fix_f7b : bool            (* true = the tree since fix commit 8230228 (rfbSendDirContent closes the directory
                               stream when its first reply cannot be sent); false = the flow before *)
}.

Inductive env_ans :=
| EOk | EFail                                   (* open / opendir / fstat-failed / read error / uncompress error *)
| ERc (rc : Z)                                  (* mkdir / rmdir / unlink / rename / write *)
| EStat (isdir : bool) (size ctime atime mtime : Z)
| EFstat (size : Z) (timespec : str)            (* fstat ok, strftime(gmtime(st_ctime)) *)
| EName (n : str) | EEnd                        (* readdir *)
| EBytes (b : str).                             (* read / compress / uncompress *)

Inductive fs_op :=
| FOpenR (p : str) | FOpenW (p : str) | FOpendir (p : str) | FStat (p : str)
| FMkdir (p : str) | FRmdir (p : str) | FUnlink (p : str) | FRename (a b : str)
| FFstat | FReaddir | FClosedir | FRead | FWrite (b : str) | FCloseFd | FCompress | FUncompress.

Inductive event :=
| Ask (answer : bool)
| Fs (op : fs_op)
| Tx (b : str)
| CloseClient
| ModelErr.

Record xstate := {
  fd_open : bool; sending : bool; receiving : bool; compression : bool;
  sock_open : bool;
  out_locked : bool;   (* ghost: rfbWriteExact returned with cl->outputMutex still held (sock == -1 path) *)
  lost_fds : Z;        (* ghost: descriptors overwritten in cl->fileTransfer.fd while still open *)
  dir_open : bool      (* ghost: a directory stream of rfbSendDirContent is open *)
}.

Record world := {
  w_perm : list bool; w_perm_dflt : bool;
  w_env : list env_ans;
  w_in : str;
  w_ev : list event;          (* most recent first *)
  w_st : xstate
}.

Definition M (A : Type) := world -> A * world.
Definition ret {A} (a : A) : M A := fun w => (a, w).
Definition bind {A B} (m : M A) (f : A -> M B) : M B := fun w => let (a, w') := m w in f a w'.
Notation "x <- m ;; f" := (bind m (fun x => f)) (at level 61, m at next level, right associativity).
Notation "m ;;; f" := (bind m (fun _ => f)) (at level 61, right associativity).

Definition emit (e : event) : M unit :=
  fun w => (tt, {| w_perm := w_perm w; w_perm_dflt := w_perm_dflt w; w_env := w_env w; w_in := w_in w;
                   w_ev := e :: w_ev w; w_st := w_st w |}).
Definition get_st : M xstate := fun w => (w_st w, w).
Definition set_st (s : xstate) : M unit :=
  fun w => (tt, {| w_perm := w_perm w; w_perm_dflt := w_perm_dflt w; w_env := w_env w; w_in := w_in w;
                   w_ev := w_ev w; w_st := s |}).

(* getFileTransferPermission(cl) *)
Definition ask_cb : M bool :=
  fun w => match w_perm w with
           | a :: rest => (a, {| w_perm := rest; w_perm_dflt := w_perm_dflt w; w_env := w_env w; w_in := w_in w;
                                 w_ev := Ask a :: w_ev w; w_st := w_st w |})
           | [] => (w_perm_dflt w, {| w_perm := []; w_perm_dflt := w_perm_dflt w; w_env := w_env w; w_in := w_in w;
                                      w_ev := Ask (w_perm_dflt w) :: w_ev w; w_st := w_st w |})
           end.

(* next environment answer *)
Definition next_env : M (option env_ans) :=
  fun w => match w_env w with
           | a :: rest => (Some a, {| w_perm := w_perm w; w_perm_dflt := w_perm_dflt w; w_env := rest; w_in := w_in w;
                                      w_ev := w_ev w; w_st := w_st w |})
           | [] => (None, w)
           end.

(* a file-system / library call: the event, then the environment's answer *)
Definition fs_call (op : fs_op) : M (option env_ans) := emit (Fs op) ;;; next_env.
(* close / closedir: nothing is learnt from the result *)
Definition fs_void (op : fs_op) : M unit := emit (Fs op).

Definition upd_sock (b : bool) (s : xstate) : xstate :=
  {| fd_open := fd_open s; sending := sending s; receiving := receiving s; compression := compression s; sock_open := b;
     out_locked := out_locked s; lost_fds := lost_fds s; dir_open := dir_open s |}.
Definition upd_fd (b : bool) (s : xstate) : xstate :=
  {| fd_open := b; sending := sending s; receiving := receiving s; compression := compression s; sock_open := sock_open s;
     out_locked := out_locked s; lost_fds := lost_fds s; dir_open := dir_open s |}.
Definition upd_flags (snd rcv : bool) (s : xstate) : xstate :=
  {| fd_open := fd_open s; sending := snd; receiving := rcv; compression := compression s; sock_open := sock_open s;
     out_locked := out_locked s; lost_fds := lost_fds s; dir_open := dir_open s |}.
Definition upd_comp (c : bool) (s : xstate) : xstate :=
  {| fd_open := fd_open s; sending := sending s; receiving := receiving s; compression := c; sock_open := sock_open s;
     out_locked := out_locked s; lost_fds := lost_fds s; dir_open := dir_open s |}.
Definition upd_locked (s : xstate) : xstate :=
  {| fd_open := fd_open s; sending := sending s; receiving := receiving s; compression := compression s; sock_open := sock_open s;
     out_locked := true; lost_fds := lost_fds s; dir_open := dir_open s |}.
Definition upd_dir (d : bool) (s : xstate) : xstate :=
  {| fd_open := fd_open s; sending := sending s; receiving := receiving s; compression := compression s; sock_open := sock_open s;
     out_locked := out_locked s; lost_fds := lost_fds s; dir_open := d |}.
Definition upd_lost (s : xstate) : xstate :=
  {| fd_open := fd_open s; sending := sending s; receiving := receiving s; compression := compression s; sock_open := sock_open s;
     out_locked := out_locked s; lost_fds := lost_fds s + 1; dir_open := dir_open s |}.

(* closedir(dirp) *)
Definition close_dir : M unit := fs_void FClosedir ;;; s <- get_st ;; set_st (upd_dir false s).
(* opendir succeeded *)
Definition mark_dir_open : M unit := s <- get_st ;; set_st (upd_dir true s).

(* before cl->fileTransfer.fd = open(...): a descriptor that is still open is closed (fix 4d56b95;
   the sending/receiving flags are left as they are) *)
Definition pre_open (cfg : config) : M unit :=
  s0 <- get_st ;;
  if fix_f7 cfg && fd_open s0 then (emit (Fs FCloseFd) ;;; set_st (upd_fd false s0)) else ret tt.
(* open succeeded: the previous descriptor, if still open, is overwritten and lost *)
Definition set_fd_opened : M unit :=
  s0 <- get_st ;;
  if fd_open s0 then set_st (upd_lost s0) else set_st (upd_fd true s0).
(* open failed: fd = -1; a previous descriptor is lost as well *)
Definition set_fd_failed : M unit :=
  s0 <- get_st ;;
  if fd_open s0 then set_st (upd_fd false (upd_lost s0)) else ret tt.

(* rfbCloseClient *)
Definition close_client : M unit :=
  emit CloseClient ;;; s <- get_st ;; set_st (upd_sock false s).

(* rfbWriteExact(cl, b): true = success.  On a closed socket nothing is written and it fails
   (in the unchanged tree with cl->outputMutex left locked). *)
Definition write_exact (cfg : config) (b : str) : M bool :=
  s <- get_st ;;
  if sock_open s then (match b with [] => ret tt | _ => emit (Tx b) end ;;; ret true)
  else (match b with [] => ret tt | _ => if fix_f14 cfg then ret tt else set_st (upd_locked s) end ;;; ret false).

(* rfbReadExact(cl, n): None = failure (peer closed / timeout) *)
Definition read_exact (n : Z) : M (option str) :=
  fun w =>
    if sock_open (w_st w) && (n <=? Zlength (w_in w)) then
      (Some (firstn (Z.to_nat n) (w_in w)),
       {| w_perm := w_perm w; w_perm_dflt := w_perm_dflt w; w_env := w_env w; w_in := skipn (Z.to_nat n) (w_in w);
          w_ev := w_ev w; w_st := w_st w |})
    else (None, w).

(* FILEXFER_ALLOWED_OR_CLOSE_AND_RETURN: true = allowed.  The callback is asked first, then the flag. *)
Definition guard (cfg : config) : M bool :=
  cb_ok <- (if has_cb cfg then ask_cb else ret true) ;;
  if cb_ok && permit cfg then ret true else (close_client ;;; ret false).

(* ------------------------------------------------------------------ byte helpers *)
Fixpoint cstr (l : str) : str :=
  match l with [] => [] | x :: t => if x =? 0 then [] else x :: cstr t end.

Definition le32 (v : Z) : str :=
  let m := v mod 4294967296 in [m mod 256; (m / 256) mod 256; (m / 65536) mod 256; (m / 16777216) mod 256].
Definition be32 (v : Z) : str :=
  let m := v mod 4294967296 in [(m / 16777216) mod 256; (m / 65536) mod 256; (m / 256) mod 256; m mod 256].

(* position of the last occurrence (strrchr) *)
Fixpoint last_index (c : Z) (s : str) (i : nat) (acc : option nat) : option nat :=
  match s with
  | [] => acc
  | x :: t => last_index c t (S i) (if x =? c then Some i else acc)
  end.

Fixpoint set_nth (n : nat) (v : Z) (l : str) : str :=
  match l, n with
  | [], _ => []
  | _ :: t, O => v :: t
  | x :: t, S k => x :: set_nth k v t
  end.

(* ------------------------------------------------------------------ rfbSendFileTransferMessage *)
(* [buffer] is the memory the C code passes; exactly [length] bytes of it are written (fewer only if
   the model's buffer is shorter, which the callers below never cause) *)
Definition ft_header (ctype cparam size length : Z) : str :=
  [C19_rfbFileTransfer; ctype; cparam; 0] ++ be32 size ++ be32 length.

Definition send_msg (cfg : config) (ctype cparam size length : Z) (buffer : str) : M bool :=
  ok <- guard cfg ;;
  if negb ok then ret false else
  r1 <- write_exact cfg (ft_header ctype cparam size length) ;;
  if negb r1 then (close_client ;;; ret false) else
  if length >? 0 then
    r2 <- write_exact cfg (firstn (Z.to_nat length) buffer) ;;
    if negb r2 then (close_client ;;; ret false) else ret true
  else ret true.

(* ------------------------------------------------------------------ rfbFilenameTranslate2UNIX *)
Inductive tres := TDenied | TTooLong | TOk (u : str).

Definition slashes (s : str) : str := map (fun c => if c =? 92 then 47 else c) s.

(* path[0]=='C' && path[1]==':' *)
Definition has_drive (path : str) : bool :=
  match path with
  | c0 :: c1 :: _ => (c0 =? 67) && (c1 =? 58)
  | _ => false
  end.

(* the pure part: None = rejected (too long), never truncated *)
Definition translate_pure (hm : option str) (path : str) (maxlen : Z) : option str :=
  if Zlength path >=? maxlen then None else
  if has_drive path then Some (slashes (skipn 2 path)) else
  match hm with
  | Some h => if Zlength path + Zlength h + 1 >=? maxlen then None
              else Some (slashes (h ++ [47] ++ path))
  | None => Some (slashes path)
  end.

Definition translate (cfg : config) (path : str) : M tres :=
  ok <- guard cfg ;;
  if negb ok then ret TDenied else
  match translate_pure (home cfg) path C19_MAX_PATH with
  | None => ret TTooLong
  | Some u => ret (TOk u)
  end.

(* ------------------------------------------------------------------ rfbProcessFileTransferReadBuffer *)
(* None = NULL (also for length 0, without closing) *)
Definition read_buffer (cfg : config) (length : Z) : M (option str) :=
  ok <- guard cfg ;;
  if negb ok then ret None else
  if length >? C19_INT_MAX then (close_client ;;; ret None) else
  if length >? 0 then
    r <- read_exact length ;;
    match r with
    | None => close_client ;;; ret None
    | Some b => ret (Some b)
    end
  else ret None.

(* ------------------------------------------------------------------ rfbSendDirContent *)
Definition find_data (isdir : bool) (size ctime atime mtime : Z) (name : str) : str :=
  le32 (if isdir then 16 else 128) ++ le32 ctime ++ le32 0 ++ le32 atime ++ le32 0 ++ le32 mtime ++ le32 0
  ++ le32 0 ++ le32 size ++ le32 0 ++ le32 0 ++ name ++ [0; 0].

Definition hidden (name : str) : bool :=
  match name with
  | [46; 46] => false
  | 46 :: _ => true
  | _ => false
  end.

(* a directory entry as the operating system returns it contains no '/'; an oracle answer that does is not a
   directory entry (treated like an answer of the wrong kind) *)
Definition has_slash (n : str) : bool := existsb (Z.eqb 47) n.

Fixpoint dir_loop (fuel : nat) (cfg : config) (path : str) : M bool :=
  match fuel with
  | O => emit ModelErr ;;; ret false
  | S k =>
      e <- fs_call FReaddir ;;
      match e with
      | Some EEnd => ret true
      | Some (EName n) =>
          if has_slash n then emit ModelErr ;;; ret false else
          st <- fs_call (FStat (path ++ [47] ++ n)) ;;
          match st with
          | Some (EStat isdir size ct at_ mt) =>
              if hidden n then dir_loop k cfg path else
              r <- send_msg cfg C19_DirPacket C19_ADirectory 0 (46 + Zlength n) (find_data isdir size ct at_ mt n) ;;
              if negb r then (close_dir ;;; ret false) else dir_loop k cfg path
          | Some EFail => dir_loop k cfg path
          | _ => emit ModelErr ;;; ret false
          end
      | _ => emit ModelErr ;;; ret false
      end
  end.

Definition send_dir_content (cfg : config) (length : Z) (buffer : str) : M bool :=
  ok <- guard cfg ;;
  if negb ok then ret false else
  t <- translate cfg (cstr buffer) ;;
  match t with
  | TOk path =>
      d <- fs_call (FOpendir path) ;;
      match d with
      | Some EFail => send_msg cfg C19_DirPacket C19_ADirectory 0 0 []
      | Some EOk =>
          mark_dir_open ;;;
          r <- send_msg cfg C19_DirPacket C19_ADirectory 0 length buffer ;;
          if negb r then
            (* before commit 8230228 the function returned without closedir(): the directory stream was lost *)
            ((if fix_f7b cfg then close_dir else (s <- get_st ;; set_st (upd_dir false (upd_lost s)))) ;;; ret false)
          else
          w <- (fun w => (List.length (w_env w), w)) ;;
          l <- dir_loop (S w) cfg path ;;
          if negb l then ret false else
          close_dir ;;;
          send_msg cfg C19_DirPacket 0 0 0 []
      | _ => emit ModelErr ;;; ret false
      end
  | _ => ret false
  end.

(* ------------------------------------------------------------------ rfbSendFileTransferChunk *)
Definition close_fd : M unit :=
  fs_void FCloseFd ;;; s <- get_st ;; set_st (upd_flags false false (upd_fd false s)).

Definition send_chunk (cfg : config) : M bool :=
  (* permitFileTransfer first, then the callback; silent *)
  allowed <- (if negb (permit cfg) then ret false else if has_cb cfg then ask_cb else ret true) ;;
  if negb allowed then ret true else
  s <- get_st ;;
  if fd_open s && sending s then
    if negb (sock_open s) then ret false else
    e <- fs_call FRead ;;
    match e with
    | Some (EBytes []) =>
        r <- send_msg cfg C19_EndOfFile 0 0 0 [] ;; close_fd ;;; ret r
    | Some EFail =>
        r <- send_msg cfg C19_AbortFileTransfer 0 0 0 [] ;; close_fd ;;; ret r
    | Some (EBytes b) =>
        if negb (compression s) then send_msg cfg C19_FilePacket 0 0 (Zlength b) b else
        c <- fs_call FCompress ;;
        match c with
        | Some (EBytes z) => if Zlength z <? Zlength b then send_msg cfg C19_FilePacket 0 1 (Zlength z) z
                             else send_msg cfg C19_FilePacket 0 0 (Zlength b) b
        | Some EFail => send_msg cfg C19_FilePacket 0 0 (Zlength b) b
        | _ => emit ModelErr ;;; ret false
        end
    | _ => emit ModelErr ;;; ret false
    end
  else ret true.

(* ------------------------------------------------------------------ rfbProcessFileTransfer *)
Definition U32_MINUS1 := 4294967295.

Definition split_last (c : Z) (buffer : str) : option (str * str * nat) :=
  match last_index c (cstr buffer) O None with
  | Some i => Some (firstn i (cstr buffer), skipn (S i) (cstr buffer), i)
  | None => None
  end.

(* the branches of the switch that work on a received buffer *)
Definition br_request (cfg : config) (size length : Z) (buffer : str) : M bool :=
  t <- translate cfg (cstr buffer) ;;
  match t with
  | TOk f1 =>
      pre_open cfg ;;;
      o <- fs_call (FOpenR f1) ;;
      match o with
      | Some EOk =>
          set_fd_opened ;;;
          fst_ <- fs_call FFstat ;;
          match fst_ with
          | Some EFail =>
              fs_void FCloseFd ;;; s1 <- get_st ;; set_st (upd_comp (size =? 1) (upd_fd false s1)) ;;;
              send_msg cfg C19_FileHeader 0 U32_MINUS1 length buffer
          | Some (EFstat fsize ts) =>
              let buffer' := cstr buffer ++ [44] ++ ts in
              s1 <- get_st ;; set_st (upd_comp (size =? 1) s1) ;;;
              send_msg cfg C19_FileHeader 0 fsize (Zlength buffer') buffer' ;;;
              s2 <- get_st ;; set_st (upd_flags false false s2) ;;;
              r <- write_exact cfg [0; 0; 0; 0] ;;
              if negb r then (close_client ;;; ret false) else ret true
          | _ => emit ModelErr ;;; ret false
          end
      | Some EFail =>
          set_fd_failed ;;;
          s0 <- get_st ;; set_st (upd_comp (size =? 1) s0) ;;;
          send_msg cfg C19_FileHeader 0 U32_MINUS1 length buffer
      | _ => emit ModelErr ;;; ret false
      end
  | _ => ret false
  end.

(* the offered name: the buffer with its last ',' (within the C string) replaced by NUL *)
Definition offer_buffer (buffer : str) : str :=
  match last_index 44 (cstr buffer) O None with
  | Some i => set_nth i 0 buffer
  | None => buffer
  end.

Definition br_offer (cfg : config) (length : Z) (buffer : str) : M bool :=
  let buffer' := offer_buffer buffer in
  h <- read_exact 4 ;;
  match h with
  | None => close_client ;;; ret false
  | Some _ =>
      t <- translate cfg (cstr buffer') ;;
      match t with
      | TOk f1 =>
          pre_open cfg ;;;
          o <- fs_call (FOpenW f1) ;;
          match o with
          | Some EOk =>
              set_fd_opened ;;;
              send_msg cfg C19_FileAcceptHeader 0 0 length buffer' ;;;
              s1 <- get_st ;; set_st (upd_flags false true s1) ;;; ret true
          | Some EFail =>
              set_fd_failed ;;;
              send_msg cfg C19_FileAcceptHeader 0 U32_MINUS1 length buffer'
          | _ => emit ModelErr ;;; ret false
          end
      | _ => ret false
      end
  end.

Definition br_packet (cfg : config) (size : Z) (buffer : str) : M bool :=
  s <- get_st ;;
  if fd_open s then
    rv <- (if size =? 0 then
             w <- fs_call (FWrite buffer) ;;
             match w with Some (ERc rc) => ret (Some rc) | _ => ret None end
           else
             u <- fs_call FUncompress ;;
             match u with
             | Some (EBytes raw) =>
                 w <- fs_call (FWrite raw) ;;
                 match w with Some (ERc rc) => ret (Some rc) | _ => ret None end
             | Some EFail => ret (Some (-1))
             | _ => ret None
             end) ;;
    match rv with
    | None => emit ModelErr ;;; ret false
    | Some rc => if rc =? -1 then (close_fd ;;; ret true) else ret true
    end
  else ret true.

Definition br_command (cfg : config) (cparam length : Z) (buffer : str) : M bool :=
  if cparam =? C19_CDirCreate then
    t <- translate cfg (cstr buffer) ;;
    match t with
    | TOk f1 =>
        r <- fs_call (FMkdir f1) ;;
        match r with
        | Some (ERc rc) => send_msg cfg C19_CommandReturn C19_ADirCreate rc length buffer
        | _ => emit ModelErr ;;; ret false
        end
    | _ => ret false
    end
  else if cparam =? C19_CFileDelete then
    t <- translate cfg (cstr buffer) ;;
    match t with
    | TOk f1 =>
        st <- fs_call (FStat f1) ;;
        match st with
        | Some (EStat isdir _ _ _ _) =>
            r <- fs_call (if isdir then FRmdir f1 else FUnlink f1) ;;
            match r with
            | Some (ERc rc) => send_msg cfg C19_CommandReturn C19_AFileDelete rc length buffer
            | _ => emit ModelErr ;;; ret false
            end
        | Some EFail => send_msg cfg C19_CommandReturn C19_AFileDelete (-1) length buffer
        | _ => emit ModelErr ;;; ret false
        end
    | _ => ret false
    end
  else if cparam =? C19_CFileRename then
    match split_last 42 buffer with
    | Some (a, b2, _) =>
        t1 <- translate cfg a ;;
        match t1 with
        | TOk f1 =>
            t2 <- translate cfg b2 ;;
            match t2 with
            | TOk f2 =>
                r <- fs_call (FRename f1 f2) ;;
                match r with
                | Some (ERc rc) => send_msg cfg C19_CommandReturn C19_AFileRename rc length buffer
                | _ => emit ModelErr ;;; ret false
                end
            | _ => ret false
            end
        | _ => ret false
        end
    | None => ret true
    end
  else ret true.

(* the branches without buffer *)
Definition br_header (cfg : config) (size : Z) : M bool :=
  if size =? U32_MINUS1 then
    s <- get_st ;;
    (if fd_open s then fs_void FCloseFd else ret tt) ;;;
    s' <- get_st ;; set_st (upd_fd false s') ;;; ret true
  else
    s <- get_st ;; set_st (upd_flags true (receiving s) s) ;;; send_chunk cfg.

Definition br_eof : M bool :=
  s <- get_st ;;
  (if fd_open s then fs_void FCloseFd else ret tt) ;;;
  s' <- get_st ;; set_st (upd_flags false false (upd_fd false s')) ;;; ret true.

Definition br_abort (cfg : config) (cparam : Z) : M bool :=
  s <- get_st ;;
  if fd_open s then close_fd ;;; ret true else
  if cparam =? 0 then send_msg cfg C19_AbortFileTransfer 0 U32_MINUS1 0 [] else
  if has_cb cfg then
    a <- ask_cb ;;
    send_msg cfg C19_FileTransferAccess 0 (if a then 1 else U32_MINUS1) 0 []
  else
    send_msg cfg C19_FileTransferAccess 0 (if permit cfg then 1 else U32_MINUS1) 0 [].

(* with a buffer: rfbProcessFileTransferReadBuffer first; NULL (refused, too long, read failure, or
   length 0) ends the handling *)
Definition with_buffer (cfg : config) (length : Z) (k : str -> M bool) : M bool :=
  b <- read_buffer cfg length ;;
  match b with
  | None => ret false
  | Some buffer => k buffer
  end.

Definition process (cfg : config) (ctype cparam size length : Z) : M bool :=
  ok <- guard cfg ;;
  if negb ok then ret false else
  if ctype =? C19_DirContentRequest then
    if cparam =? C19_RDrivesList then
      send_msg cfg C19_DirPacket C19_ADrivesList 0 5 [67; 58; 108; 0; 0]
    else if cparam =? C19_RDirContent then
      with_buffer cfg length (send_dir_content cfg length)
    else ret true
  else if ctype =? C19_FileTransferRequest then with_buffer cfg length (br_request cfg size length)
  else if ctype =? C19_FileHeader then br_header cfg size
  else if ctype =? C19_FileTransferOffer then with_buffer cfg length (br_offer cfg length)
  else if ctype =? C19_FilePacket then with_buffer cfg length (br_packet cfg size)
  else if ctype =? C19_EndOfFile then br_eof
  else if ctype =? C19_AbortFileTransfer then br_abort cfg cparam
  else if ctype =? C19_Command then with_buffer cfg length (br_command cfg cparam length)
  else ret true.

(* one rfbFileTransfer message: the 11 header bytes after the type byte, then the handler *)
Definition u32_of (b : str) : Z :=
  match b with
  | [a; b1; c; d] => ((a * 256 + b1) * 256 + c) * 256 + d
  | _ => 0
  end.

Definition handle_message (cfg : config) : M bool :=
  h <- read_exact (C19_sz_msg - 1) ;;
  match h with
  | Some [ctype; cparam; _; s0; s1; s2; s3; l0; l1; l2; l3] =>
      process cfg ctype cparam (u32_of [s0; s1; s2; s3]) (u32_of [l0; l1; l2; l3])
  | _ => close_client ;;; ret false
  end.

(* rfbClientConnectionGone.  Nothing in it touches cl->fileTransfer.fd ([closes_fd] = false is the
   unchanged tree; true = with the proposed fix).  It takes cl->outputMutex: result false = the
   thread blocks forever on the mutex a failed rfbWriteExact left locked. *)
Definition connection_gone (cfg : config) : M bool :=
  s <- get_st ;;
  (if fix_f7 cfg && fd_open s then fs_void FCloseFd ;;; s1 <- get_st ;; set_st (upd_fd false s1) else ret tt) ;;;
  s2 <- get_st ;; set_st (upd_sock false s2) ;;;
  ret (negb (out_locked s)).

(* ------------------------------------------------------------------ TightVNC extension *)
(* ConvertPath: None = NULL *)
Definition convert_path (ftproot path : str) : option str :=
  if (Zlength path =? 0) || (Zlength path + Zlength ftproot >? C19_PATH_MAX - 1) then None
  else Some (ftproot ++ path).

(* handleMessage: the handler runs only if transfer is enabled and the client is not view-only *)
Definition tight_gate (registered enabled view_only : bool) : bool :=
  registered && enabled && negb view_only.


(* walking a path component-wise from the root: depth, None when it leaves the root *)
Fixpoint split_slash (s : str) (cur : str) : list str :=
  match s with
  | [] => [rev cur]
  | x :: t => if x =? 47 then rev cur :: split_slash t [] else split_slash t (x :: cur)
  end.
Fixpoint walk (comps : list str) (depth : nat) : option nat :=
  match comps with
  | [] => Some depth
  | c :: rest =>
      match c with
      | [] => walk rest depth
      | [46] => walk rest depth
      | [46; 46] => match depth with O => None | S d => walk rest d end
      | _ => walk rest (S depth)
      end
  end.
Definition stays_below_root (rel : str) : bool :=
  match walk (split_slash rel []) O with Some _ => true | None => false end.

Fixpoint list_eqb (a b : str) : bool :=
  match a, b with
  | [], [] => true
  | x :: a', y :: b' => (x =? y) && list_eqb a' b'
  | _, _ => false
  end.
Definition has_dotdot_component (p : str) : bool := existsb (list_eqb [46; 46]) (split_slash p []).

Definition starts_with_slash (p : str) : bool := match p with c :: _ => c =? 47 | [] => false end.

(* the path a rfbFileListRequest / rfbFileCreateDirRequest operates on; None = nothing touched.
   [fix_f19] = true: the tree since fix commit 9f956a4 (ConvertPath refuses names with a ".." component
   and names that do not start with '/': root ++ "x" would be a sibling of the root); false: before *)
Definition tight_target (fix_f19 : bool) (registered enabled view_only : bool) (ftproot path : str) : option str :=
  if tight_gate registered enabled view_only then
    if (Zlength path =? 0) || (Zlength path >? C19_PATH_MAX - 1) then None
    else if fix_f19 && (has_dotdot_component (cstr path) || negb (starts_with_slash (cstr path))) then None
    else convert_path ftproot (cstr path)
  else None.

(* ------------------------------------------------------------------ running from a fresh world *)
Definition st0 : xstate :=
  {| fd_open := false; sending := false; receiving := false; compression := false; sock_open := true; out_locked := false;
     lost_fds := 0; dir_open := false |}.
Definition mk_world (perms : list bool) (dflt : bool) (envs : list env_ans) (input : str) (st : xstate) : world :=
  {| w_perm := perms; w_perm_dflt := dflt; w_env := envs; w_in := input; w_ev := []; w_st := st |}.

(* events in program order, result, final state, unread input, unused environment answers *)
Definition run_message (cfg : config) (perms : list bool) (dflt : bool) (envs : list env_ans) (input : str) (st : xstate)
  : bool * list event * xstate * str * list env_ans * list bool :=
  let '(r, w) := handle_message cfg (mk_world perms dflt envs input st) in
  (r, rev (w_ev w), w_st w, w_in w, w_env w, w_perm w).

Definition run_chunk (cfg : config) (perms : list bool) (dflt : bool) (envs : list env_ans) (st : xstate)
  : bool * list event * xstate * list env_ans * list bool :=
  let '(r, w) := send_chunk cfg (mk_world perms dflt envs [] st) in
  (r, rev (w_ev w), w_st w, w_env w, w_perm w).

Definition run_gone (cfg : config) (envs : list env_ans) (st : xstate) : bool * list event * xstate :=
  let '(r, w) := connection_gone cfg (mk_world [] true envs [] st) in
  (r, rev (w_ev w), w_st w).
