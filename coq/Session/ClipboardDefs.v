(* C18 - executable mirror model of the clipboard paths of libvncserver and LibVNCClient
   (definitions only; proofs in ClipboardProofs.v).

   Mirrored C code:
     rfbserver.c  ClientCutText handler, extended branch (2881-2935)      -> [ext_cut_real]
                  rfbProcessExtendedServerCutTextData (2137-2209)           -> [provide_loop]
                  rfbSendExtendedClipboardCapability/Notify/ServerCutTextData -> [outmsg], [enc_out]
                  rfbSendServerCutText / rfbSendServerCutTextUTF8 (4016-4106) -> [publish_classic], [publish_utf8]
     rfbclient.c  SendClientCutText, SendClientCutTextUTF8 (sendExtClientCutTextNotify/Provide)
                                                                              -> [lvc_send_cut], [lvc_send_utf8]
                  HandleRFBServerMessage case rfbServerCutText, rfbClientProcessExtServerCutText
                                                                              -> [lvc_recv]
   zlib is external: [zinflate] tells, for a compressed byte string, the bytes it inflates to and
   how the stream ends (finished / still open / corrupt); [zcompress] is compress() (a finished
   stream), [zsync] is deflate(Z_SYNC_FLUSH) as LibVNCClient uses it (an open stream).
   [ztake] derives what ONE inflate() call that asks for n bytes reports; the rules are the
   observed behaviour of zlib's decoder (it always decodes ahead until it needs output space or
   input): see the comments there.  The correspondence run exercises these rules with the real
   zlib on valid, truncated and corrupted streams. *)
From Coq Require Import ZArith List Bool Lia.
From LV Require Import Gen.Consts_C06 Gen.Consts_C18 Wire.C2SInput Session.InputDefs.
Import ListNotations.
Local Open Scope Z_scope.

Inductive zterm := ZEnd | ZMore | ZErr.
Inductive zstat := ZS_OK | ZS_END | ZS_BUF | ZS_DATA | ZS_UNKNOWN.

(* one inflate(Z_NO_FLUSH / Z_SYNC_FLUSH) call with avail_out = n on a stream whose complete
   input is present, [c] = everything it can produce, [t] = how it ends, [pos] = bytes
   already produced, [inlen] = length of the compressed input *)
Definition ztake (c : list Z) (t : zterm) (inlen : nat) (pos n : nat) : list Z * zstat :=
  let avail := (length c - pos)%nat in
  if (n <? avail)%nat then
    (* output space runs out first: Z_OK; with n = 0 the status depends on bit alignment *)
    (firstn n (skipn pos c), if (n =? 0)%nat then ZS_UNKNOWN else ZS_OK)
  else
    (* everything left is produced and the decoder runs on into the end of the stream *)
    (skipn pos c,
     match t with
     | ZEnd => ZS_END
     | ZErr => ZS_DATA
     | ZMore =>
         if (0 <? avail)%nat then ZS_OK                         (* output progress *)
         else if (pos =? 0)%nat then (if (0 <? inlen)%nat then ZS_OK else ZS_BUF)  (* header consumed / no input *)
         else ZS_BUF                                            (* no progress at all *)
     end).

Fixpoint bits_of (n : nat) (v : Z) : list bool :=
  match n with
  | O => []
  | S k => Z.odd v :: bits_of k (v / 2)
  end.

Definition popcount16 (v : Z) : Z :=
  fold_right (fun (b : bool) acc => if b then acc + 1 else acc) 0 (bits_of 16 v).

Definition has (flags bit : Z) : bool := negb (Z.land flags bit =? 0).

Definition set_caps (k : clipst) (cap : Z) : clipst :=
  mkClip (k_ext k) cap (k_maxunsol k) (k_data k) (k_out k) (k_locked k).
Definition set_maxunsol (k : clipst) (v : Z) : clipst :=
  mkClip (k_ext k) (k_usercap k) v (k_data k) (k_out k) (k_locked k).
Definition set_data (k : clipst) (v : option (list Z)) : clipst :=
  mkClip (k_ext k) (k_usercap k) (k_maxunsol k) v (k_out k) (k_locked k).
Definition set_locked (k : clipst) (v : bool) : clipst :=
  mkClip (k_ext k) (k_usercap k) (k_maxunsol k) (k_data k) (k_out k) v.

Section Clip.
Variable zinflate : list Z -> list Z * zterm.
Variable zcompress : list Z -> list Z.
Variable zsync : list Z -> list Z.

(* rfbProcessExtendedServerCutTextData: for every format bit 0..15 set in the flags, a 4-byte
   size and then that many bytes are taken from the stream; the text format (bit 0) goes to the
   application.  [idx]: current bit number; result: callbacks, close? *)
(* a call whose arguments cannot be predicted; a view-only connection gets no call anyway *)
Definition undef_cb (vo : bool) : list utf8cb := if vo then [] else [U8Undef].

Fixpoint provide_loop (fixshort vo : bool) (c : list Z) (t : zterm) (inlen : nat) (bits : list bool) (idx : nat) (pos : nat)
  : list utf8cb * bool :=
  match bits with
  | [] => ([], false)
  | false :: r => provide_loop fixshort vo c t inlen r (S idx) pos
  | true :: r =>
      let '(szb, st) := ztake c t inlen pos 4 in
      match st with
      | ZS_OK =>
          match be32_at szb 0 with
          | None => (undef_cb vo, false)             (* fewer than 4 bytes written into [size]: uninitialised *)
          | Some size =>
              if c18_ext_size_limit <? size then ([], true) else
              let '(data, st2) := ztake c t inlen (pos + 4) (Z.to_nat size) in
              match st2 with
              | ZS_OK | ZS_END =>
                  (* with the repair notes/fix_C18_2.diff: stream.avail_out != 0 is refused *)
                  if fixshort && (Z.of_nat (length data) <? size) then ([], true) else
                  let cb := if (idx =? 0)%nat && negb vo
                            then [U8 data (size - Z.of_nat (length data))] else [] in
                  let '(cbs, cl) := provide_loop fixshort vo c t inlen r (S idx) (pos + 4 + length data) in
                  (cb ++ cbs, cl)
              | ZS_UNKNOWN => (undef_cb vo, false)
              | _ => ([], true)
              end
          end
      | ZS_UNKNOWN => (undef_cb vo, false)
      | _ => ([], true)                            (* includes Z_STREAM_END: "err != Z_OK" *)
      end
  end.

(* the extended branch of the ClientCutText handler; [p] is the payload (after the sign-encoded
   length); the callback is made only when the application registered setXCutTextUTF8, which is
   also the condition for the extension to be enabled at all *)
Definition ext_cut_real (fixshort : bool) (vo : bool) (k : clipst) (p : list Z) : clipst * list utf8cb * bool :=
  match be32_at p 0 with
  | None => (k, [], true)                                           (* length < 4 *)
  | Some flags =>
      if has flags c18_Caps then
        let k1 := set_caps k flags in
        let nfmt := popcount16 flags in
        if nfmt =? 0 then
          (* no format: extension off; the Text test below then turns it off again *)
          (set_ext k1 false, [], false)
        else if negb (Z.of_nat (length p) =? 4 + nfmt * 4) then (k1, [], true)
        else if has flags c18_Text then
          match be32_at p 4 with
          | Some m => (set_maxunsol k1 m, [], false)
          | None => (k1, [], true)
          end
        else (set_ext k1 false, [], false)
      else if has flags c18_Request then
        match k_data k with
        | Some d => if has (k_usercap k) c18_Provide && (0 <? Z.of_nat (length d))
                    then (add_out k (OProvide (be32 (Z.of_nat (length d)) ++ d)), [], false)
                    else (k, [], false)
        | None => (k, [], false)
        end
      else if has flags c18_Peek then
        match k_data k with
        | Some d => if has (k_usercap k) c18_Notify && (0 <? Z.of_nat (length d))
                    then (add_out k ONotify, [], false)
                    else (k, [], false)
        | None => (k, [], false)
        end
      else if has flags c18_Provide then
        let z := skipn 4 p in
        let '(c, t) := zinflate z in
        let '(cbs, cl) := provide_loop fixshort vo c t (length z) (bits_of 16 flags) 0 0 in
        (k, cbs, cl)
      else (k, [], false)
  end.

(* ---- the server publishes ---- *)
Definition pub_classic_client (text : list Z) (c : client) : client :=
  if c_closed c then c else set_clip c (add_out (c_clip c) (OClassic text)).

(* rfbSendServerCutText: every open connection, whatever its state *)
Definition publish_classic (text : list Z) (s : server) : server :=
  mkSrv (s_cfg s) (map (pub_classic_client text) (s_clients s)) (s_owner s) (s_now s).

Definition pub_utf8_client (fixlock : bool) (text : list Z) (fallback : option (list Z)) (c : client) : client :=
  if c_closed c then c else
  let k := c_clip c in
  if k_ext k then
    let data := text ++ [0] in
    let k1 := set_data k (Some data) in
    if has (k_usercap k) c18_Provide && (Z.of_nat (length text) <=? k_maxunsol k)
    then set_clip c (add_out k1 (OProvide (be32 (Z.of_nat (length data)) ++ data)))
    else if has (k_usercap k) c18_Notify then set_clip c (add_out k1 ONotify)
    else set_clip c k1
  else match fallback with
       | Some f => set_clip c (add_out k (OClassic f))
       | None => if fixlock then c                    (* repair notes/fix_C18_1.diff *)
                 else set_clip c (set_locked k true)   (* LOCK(cl->sendMutex) without UNLOCK *)
       end.

Definition publish_utf8 (text : list Z) (fallback : option (list Z)) (s : server) : server :=
  mkSrv (s_cfg s) (map (pub_utf8_client (fix_lock (s_cfg s)) text fallback) (s_clients s)) (s_owner s) (s_now s).

(* how a decoded message is shown in the observation stream: kind (0 classic, 1 extended
   without data, 2 provide) and the bytes (text / payload / flags ++ uncompressed content) *)
Definition out_view (m : outmsg) : Z * list Z :=
  match m with
  | OClassic t => (0, t)
  | OCaps => (1, skipn 8 c18_caps_bytes)
  | ONotify => (1, skipn 8 c18_notify_bytes)
  | OProvide c => (2, be32 (c18_Provide + c18_Text) ++ c)
  end.

(* ---- wire form of what the server writes ---- *)
Definition neg32 (n : Z) : Z := (two32 - n) mod two32.

Definition enc_out (m : outmsg) : list Z :=
  match m with
  | OClassic t => [c18_rfbServerCutText; 0; 0; 0] ++ be32 (Z.of_nat (length t)) ++ t
  | OCaps => c18_caps_bytes
  | ONotify => c18_notify_bytes
  | OProvide content =>
      let z := zcompress content in
      [c18_rfbServerCutText; 0; 0; 0] ++ be32 (neg32 (4 + Z.of_nat (length z))) ++
      be32 (c18_Provide + c18_Text) ++ z
  end.

(* ---- LibVNCClient ---- *)
Record lvc := mkLvc {
  l_caps : Z;        (* client->extendedClipboardServerCapabilities *)
  l_utf8 : bool      (* client->GotXCutTextUTF8 != NULL *)
}.

Inductive lvc_event :=
| GotCut (text : list Z)                    (* GotXCutText(client, buffer, length) *)
| GotCutUTF8 (valid : list Z) (junk : Z)    (* GotXCutTextUTF8(client, buf, size) *)
| GotUndef.

(* SendClientCutText *)
Definition lvc_send_cut (text : list Z) : list Z := enc_cut text.

Definition cut_hdr (len32 : Z) : list Z := [c06_rfbClientCutText; 0; 0; 0] ++ be32 len32.

(* SendClientCutTextUTF8: Notify first, then Provide with the NUL-terminated text in an open
   (sync-flushed) zlib stream; nothing at all when the server never announced the extension *)
Definition lvc_send_utf8 (l : lvc) (text : list Z) : option (list Z) :=
  if l_caps l =? 0 then None else
  let content := be32 (Z.of_nat (length text) + 1) ++ text ++ [0] in
  let z := zsync content in
  Some (cut_hdr (neg32 4) ++ be32 (c18_Notify + c18_Text) ++
        cut_hdr (neg32 (4 + Z.of_nat (length z))) ++ be32 (c18_Provide + c18_Text) ++ z).

(* WriteToRFBServer (libvncclient/sockets.c): while (i < n) { j = write(sock, buf+i, n-i); ... i += j }.
   [sched] is what the kernel does on the successive write() calls: k > 0 = takes min(k, rest) bytes,
   0 = EAGAIN (the loop waits in select() until the socket is writable and continues with j = 0),
   k < 0 = any other error (FALSE).  An exhausted schedule = the kernel takes whatever is offered.
   Result: the bytes handed to the kernel in order, the unused schedule, success. *)
Fixpoint lvc_write (sched : list Z) (buf acc : list Z) : list Z * list Z * bool :=
  match buf with
  | [] => (acc, sched, true)
  | _ :: _ =>
    match sched with
    | [] => (acc ++ buf, [], true)
    | k :: r =>
        if k =? 0 then lvc_write r buf acc
        else if k <? 0 then (acc, r, false)
        else let n := Nat.min (Z.to_nat k) (length buf) in
             lvc_write r (skipn n buf) (acc ++ firstn n buf)
    end
  end.

(* WriteToRFBServer(a) && WriteToRFBServer(b) && ... *)
Fixpoint lvc_write_all (sched : list Z) (parts : list (list Z)) (acc : list Z) : list Z * list Z * bool :=
  match parts with
  | [] => (acc, sched, true)
  | b :: r =>
      let '(acc1, s1, ok) := lvc_write sched b acc in
      if ok then lvc_write_all s1 r acc1 else (acc1, s1, false)
  end.

(* the buffers SendClientCutText / SendClientCutTextUTF8 pass to WriteToRFBServer, one per call *)
Definition lvc_send_cut_parts (text : list Z) : list (list Z) :=
  [cut_hdr (Z.of_nat (length text)); text].

Definition lvc_send_utf8_parts (l : lvc) (text : list Z) : option (list (list Z)) :=
  if l_caps l =? 0 then None else
  let content := be32 (Z.of_nat (length text) + 1) ++ text ++ [0] in
  let z := zsync content in
  Some [cut_hdr (neg32 4); be32 (c18_Notify + c18_Text);
        cut_hdr (neg32 (4 + Z.of_nat (length z))); be32 (c18_Provide + c18_Text) ++ z].

(* rfbClientProcessExtServerCutText on the payload [p] *)
Definition lvc_ext (l : lvc) (p : list Z) : lvc * list lvc_event * bool :=
  match be32_at p 0 with
  | None => (l, [], false)
  | Some flags =>
      if negb (has flags c18_Text) then (l, [], true)
      else if negb (has flags c18_Provide) then (l, [], true)
      else if has flags c18_Caps then (mkLvc (Z.lor (l_caps l) c18_Text) (l_utf8 l), [], true)
      else
        let z := skipn 4 p in
        let '(c, t) := zinflate z in
        let '(szb, st) := ztake c t (length z) 0 4 in
        match st with
        | ZS_OK =>
            match be32_at szb 0 with
            | None => (l, [GotUndef], true)
            | Some size =>
                if c18_lvc_ext_size_limit <? size then (l, [], false) else
                let '(data, st2) := ztake c t (length z) 4 (Z.to_nat size) in
                match st2 with
                | ZS_OK | ZS_END =>
                    if negb (Z.of_nat (length data) =? size) then (l, [], false)   (* total_out check *)
                    else (l, [GotCutUTF8 data 0], true)
                | ZS_UNKNOWN => (l, [GotUndef], true)
                | _ => (l, [], false)
                end
            end
        | ZS_UNKNOWN => (l, [GotUndef], true)
        | _ => (l, [], false)
        end
  end.

(* HandleRFBServerMessage, case rfbServerCutText, on one complete message [m] (type byte
   included); false = the client gives up the connection *)
Definition lvc_recv (xl : bool) (l : lvc) (m : list Z) : lvc * list lvc_event * bool :=
  match be32_at m 4 with
  | None => (l, [], false)
  | Some len0 =>
      let neg := two31 <=? len0 in                        (* int32_t ilen < 0 *)
      let len := if neg then neg32 len0 else len0 in
      (* [xl]: with the proposed repair notes/fix_C18_3.diff an extended message may exceed the limit by the slack *)
      let lim := if neg && xl then c18_lvc_cut_limit + c06_ext_slack else c18_lvc_cut_limit in
      if lim <? len then (l, [], false) else
      let body := skipn 8 m in
      if negb (Z.of_nat (length body) =? len) then (l, [], false) else     (* not one whole message *)
      if neg && l_utf8 l then lvc_ext l body
      else (l, [GotCut body], true)
  end.

Fixpoint lvc_recv_all (xl : bool) (l : lvc) (ms : list (list Z)) : lvc * list lvc_event * bool :=
  match ms with
  | [] => (l, [], true)
  | m :: r =>
      let '(l1, e1, ok) := lvc_recv xl l m in
      if ok then let '(l2, e2, ok2) := lvc_recv_all xl l1 r in (l2, e1 ++ e2, ok2)
      else (l1, e1, false)
  end.

(* ---- script operations of the C18 runs ---- *)
Inductive cop :=
| CIn (o : op)                                        (* a C06 operation *)
| CPub (text : list Z)                                (* rfbSendServerCutText *)
| CPubUTF8 (text : list Z) (fallback : option (list Z)).  (* rfbSendServerCutTextUTF8 *)

Definition cstep (s : server) (o : cop) : server * list event :=
  match o with
  | CIn o' => step (ext_cut_real (fix_short (s_cfg s))) s o'
  | CPub t => (publish_classic t s, [])
  | CPubUTF8 t f => (publish_utf8 t f s, [])
  end.

(* ---- a world with real LibVNCClient peers on some connections ---- *)
Record world := mkWorld {
  w_srv : server;
  w_lvcs : list (Z * lvc * nat);     (* connection id, client state, server messages already read *)
  w_sched : list (Z * list Z)        (* connection id, what the kernel will do on that client's next write() calls *)
}.

Fixpoint find_sched (ss : list (Z * list Z)) (id : Z) : list Z :=
  match ss with
  | [] => []
  | (i, s) :: r => if i =? id then s else find_sched r id
  end.

Definition put_sched (ss : list (Z * list Z)) (id : Z) (s : list Z) : list (Z * list Z) :=
  (id, s) :: filter (fun e => negb (fst e =? id)) ss.

Inductive wop :=
| WOp (o : cop)
| WLvcNew (id : Z) (utf8 : bool)         (* a LibVNCClient is the peer of connection id *)
| WLvcCut (id : Z) (text : list Z)       (* SendClientCutText *)
| WLvcUTF8 (id : Z) (text : list Z)      (* SendClientCutTextUTF8 *)
| WLvcPump (id : Z) (nupd : nat)         (* HandleRFBServerMessage while data is available; [nupd] = number of
                                            FramebufferUpdate messages among them (the server's update traffic is
                                            not part of this model: the number is an input, like a zlib answer) *)
| WLvcSched (id : Z) (sched : list Z)    (* what the kernel does on this client's next write() calls *)
| WLvcFur (id : Z) (incr x y w h : Z).   (* SendFramebufferUpdateRequest: one 10-byte WriteToRFBServer *)

Inductive wevent :=
| WSrv (e : event)
| WLvc (id : Z) (e : lvc_event)
| WLvcSendFail (id : Z)                  (* SendClientCutTextUTF8 returned FALSE *)
| WLvcGaveUp (id : Z).                   (* HandleRFBServerMessage returned FALSE *)

Fixpoint find_lvc (ls : list (Z * lvc * nat)) (id : Z) : option (lvc * nat) :=
  match ls with
  | [] => None
  | (i, l, n) :: r => if i =? id then Some (l, n) else find_lvc r id
  end.

Fixpoint put_lvc (ls : list (Z * lvc * nat)) (id : Z) (l : lvc) (n : nat) : list (Z * lvc * nat) :=
  match ls with
  | [] => []
  | (i, l0, n0) :: r => if i =? id then (i, l, n) :: r else (i, l0, n0) :: put_lvc r id l n
  end.

(* a Send* call of a LibVNCClient: its buffers go through WriteToRFBServer under the pending
   schedule; whatever reached the kernel is on the wire, even when the call fails half-way *)
Definition lvc_emit (w : world) (id : Z) (parts : list (list Z)) : world * list wevent :=
  let '(bytes, rest, ok) := lvc_write_all (find_sched (w_sched w) id) parts [] in
  let '(s', ev) := match bytes with
                   | [] => (w_srv w, [])
                   | _ :: _ => cstep (w_srv w) (CIn (OSend id [bytes]))
                   end in
  (mkWorld s' (w_lvcs w) (put_sched (w_sched w) id rest),
   map WSrv ev ++ (if ok then [] else [WLvcSendFail id])).

Definition fur_msg (cfg : config) (incr : Z) : list Z :=
  [c06_rfbFramebufferUpdateRequest; incr] ++ be16 0 ++ be16 0 ++ be16 (g_w cfg) ++ be16 (g_h cfg).

Fixpoint fur_n (w : world) (id : Z) (n : nat) : world :=
  match n with
  | O => w
  | S k => fur_n (fst (lvc_emit w id [fur_msg (s_cfg (w_srv w)) 1])) id k
  end.

Definition wstep (w : world) (o : wop) : world * list wevent :=
  match o with
  | WOp o' =>
      let '(s', ev) := cstep (w_srv w) o' in (mkWorld s' (w_lvcs w) (w_sched w), map WSrv ev)
  | WLvcNew id utf8 => (mkWorld (w_srv w) ((id, mkLvc 0 utf8, 0%nat) :: w_lvcs w) (w_sched w), [])
  | WLvcSched id sched => (mkWorld (w_srv w) (w_lvcs w) (put_sched (w_sched w) id sched), [])
  | WLvcCut id text => lvc_emit w id (lvc_send_cut_parts text)
  | WLvcFur id incr x y wd ht =>
      lvc_emit w id [[c06_rfbFramebufferUpdateRequest; incr] ++ be16 x ++ be16 y ++ be16 wd ++ be16 ht]
  | WLvcUTF8 id text =>
      match find_lvc (w_lvcs w) id with
      | None => (w, [])
      | Some (l, _) =>
          match lvc_send_utf8_parts l text with
          | None => (w, [WLvcSendFail id])
          | Some parts => lvc_emit w id parts
          end
      end
  | WLvcPump id nupd =>
      match find_lvc (w_lvcs w) id, find_client (s_clients (w_srv w)) id with
      | Some (l, n), Some c =>
          let outs := k_out (c_clip c) in
          let '(l', evs, ok) := lvc_recv_all (fix_extlimit (s_cfg (w_srv w))) l (map enc_out (skipn n outs)) in
          (* a client that gives up closes its socket: the server will see end-of-file *)
          let s' := if ok then w_srv w
                    else fst (step (ext_cut_real (fix_short (s_cfg (w_srv w)))) (w_srv w) (OEof id)) in
          let w1 := mkWorld s' (put_lvc (w_lvcs w) id l' (length outs)) (w_sched w) in
          (* HandleRFBServerMessage answers every update it digested with SendIncrementalFramebufferUpdateRequest *)
          let w2 := if ok then fur_n w1 id nupd else w1 in
          (w2, map (WLvc id) evs ++ (if ok then [] else [WLvcGaveUp id]))
      | _, _ => (w, [])
      end
  end.

(* the harness reports a send mutex that was left locked and releases it to go on *)
Definition unlock_all (w : world) : world :=
  mkWorld (mkSrv (s_cfg (w_srv w))
                 (map (fun c => set_clip c (set_locked (c_clip c) false)) (s_clients (w_srv w)))
                 (s_owner (w_srv w)) (s_now (w_srv w)))
          (w_lvcs w) (w_sched w).

End Clip.
