(* C19 - for the repaired control flow (fix commits 4d56b95, b4cfd8a, 8230228): no descriptor is ever
   lost, no directory stream stays open, cl->outputMutex is never left locked - for every sequence of
   messages / chunk calls and every oracle answer; hence teardown never blocks and leaves nothing open *)
From Coq Require Import ZArith List Bool Lia.
From LV Require Import Gen.Consts_C19 Session.FileXferDefs Session.FileXferProofs Session.FileXferHoare.
Import ListNotations.
Local Open Scope Z_scope.

(* [keeps w w']: the three ghosts are unchanged and the trace has only grown *)
Definition keeps (w w' : world) : Prop :=
  lost_fds (w_st w') = lost_fds (w_st w) /\ out_locked (w_st w') = out_locked (w_st w) /\
  dir_open (w_st w') = dir_open (w_st w) /\ exists new, w_ev w' = new ++ w_ev w.

Definition frame {A} (m : M A) : Prop := forall w, keeps w (snd (m w)).

Lemma keeps_refl : forall w, keeps w w.
Proof. intros w. repeat split; auto. exists []. reflexivity. Qed.

Lemma keeps_trans : forall a b c, keeps a b -> keeps b c -> keeps a c.
Proof.
  intros a b c [A1 [A2 [A3 [n1 A4]]]] [B1 [B2 [B3 [n2 B4]]]]. repeat split; try congruence.
  exists (n2 ++ n1). rewrite B4, A4, app_assoc. reflexivity.
Qed.

Lemma frame_ret : forall A (a : A), frame (ret a).
Proof. intros A a w. apply keeps_refl. Qed.

Lemma frame_bind : forall A B (m : M A) (f : A -> M B), frame m -> (forall a, frame (f a)) -> frame (bind m f).
Proof.
  intros A B m f Hm Hf w. unfold bind. specialize (Hm w). destruct (m w) as [a w1]. simpl in Hm.
  eapply keeps_trans; [exact Hm|apply Hf].
Qed.

Lemma frame_get : forall A (k : xstate -> M A), (forall s, frame (k s)) -> frame (bind get_st k).
Proof. intros A k H w. unfold bind, get_st. apply H. Qed.

Definition pres (f : xstate -> xstate) : Prop :=
  forall s, lost_fds (f s) = lost_fds s /\ out_locked (f s) = out_locked s /\ dir_open (f s) = dir_open s.

Lemma frame_mod : forall A (f : xstate -> xstate) (rest : xstate -> M A),
  pres f -> (forall s, frame (rest s)) ->
  frame (bind get_st (fun s => bind (set_st (f s)) (fun _ => rest s))).
Proof.
  intros A f rest Hf Hr w. unfold bind, get_st. simpl.
  eapply keeps_trans; [|apply Hr]. destruct (Hf (w_st w)) as [P1 [P2 P3]].
  repeat split; simpl; auto. exists []. reflexivity.
Qed.

Lemma frame_modify : forall (f : xstate -> xstate), pres f -> frame (bind get_st (fun s => set_st (f s))).
Proof.
  intros f Hf w. unfold bind, get_st. simpl. destruct (Hf (w_st w)) as [P1 [P2 P3]].
  repeat split; simpl; auto. exists []. reflexivity.
Qed.

Lemma frame_emit : forall e, frame (emit e).
Proof. intros e w. simpl. repeat split; auto. exists [e]. reflexivity. Qed.

Lemma frame_next_env : frame next_env.
Proof. intros w. unfold next_env. destruct (w_env w); simpl; apply keeps_refl || (repeat split; auto; exists []; reflexivity). Qed.

Lemma frame_read_exact : forall n, frame (read_exact n).
Proof.
  intros n w. unfold read_exact. destruct (sock_open (w_st w) && (n <=? Zlength (w_in w))); simpl;
    repeat split; auto; exists []; reflexivity.
Qed.

Lemma frame_ask_cb : frame ask_cb.
Proof.
  intros w. unfold ask_cb. destruct (w_perm w); simpl; repeat split; auto; eexists [_]; reflexivity.
Qed.

Lemma frame_len : frame (fun w : world => (length (w_env w), w)).
Proof. intros w. simpl. apply keeps_refl. Qed.

Ltac prs := intros ?; repeat split; reflexivity.

Ltac fr :=
  lazymatch goal with
  | |- frame (bind get_st (fun s => bind (set_st _) (fun _ => _))) => apply frame_mod; [prs | intros ?; fr]
  | |- frame (bind get_st (fun s => set_st _)) => apply frame_modify; prs
  | |- frame (bind get_st _) => apply frame_get; intros ?; fr
  | |- frame (bind _ _) => apply frame_bind; [fr | intros ?; fr]
  | |- frame (ret _) => apply frame_ret
  | |- frame (if ?c then _ else _) => destruct c; fr
  | |- frame (match ?x with _ => _ end) => destruct x; fr
  | |- frame (let _ := _ in _) => cbv zeta; fr
  | _ => solve [auto with frame]
  end.

Global Hint Resolve frame_emit frame_next_env frame_read_exact frame_ask_cb frame_len frame_ret : frame.

Lemma frame_fs_call : forall op, frame (fs_call op).
Proof. intros op. unfold fs_call. fr. Qed.
Lemma frame_fs_void : forall op, frame (fs_void op).
Proof. intros op. unfold fs_void. fr. Qed.
Lemma frame_close_client : frame close_client.
Proof. unfold close_client. fr. Qed.
Global Hint Resolve frame_fs_call frame_fs_void frame_close_client : frame.

Lemma frame_guard : forall cfg, frame (guard cfg).
Proof. intros cfg. unfold guard. fr. Qed.
Global Hint Resolve frame_guard : frame.

Lemma frame_close_fd : frame close_fd.
Proof. unfold close_fd. fr. Qed.
Global Hint Resolve frame_close_fd : frame.

Section Fixed.
Variable cfg : config.
Hypothesis F7 : fix_f7 cfg = true.
Hypothesis F14 : fix_f14 cfg = true.
Hypothesis F7b : fix_f7b cfg = true.

Lemma frame_write_exact : forall b, frame (write_exact cfg b).
Proof. intros b. unfold write_exact. rewrite F14. fr. Qed.
Hint Resolve frame_write_exact : frame.

Lemma frame_send_msg : forall ct cp sz len buf, frame (send_msg cfg ct cp sz len buf).
Proof. intros. unfold send_msg. fr. Qed.
Hint Resolve frame_send_msg : frame.

Lemma frame_translate : forall p, frame (translate cfg p).
Proof. intros. unfold translate. fr. Qed.
Lemma frame_read_buffer : forall len, frame (read_buffer cfg len).
Proof. intros. unfold read_buffer. fr. Qed.
Hint Resolve frame_translate frame_read_buffer : frame.

Lemma frame_send_chunk : frame (send_chunk cfg).
Proof. unfold send_chunk. fr. Qed.
Hint Resolve frame_send_chunk : frame.

Lemma frame_pre_open : frame (pre_open cfg).
Proof.
  intros w. unfold pre_open, bind, get_st, emit, set_st, ret. destruct (fix_f7 cfg && fd_open (w_st w)); simpl.
  - repeat split; auto. eexists [_]. reflexivity.
  - apply keeps_refl.
Qed.

Lemma frame_br_packet : forall size buffer, frame (br_packet cfg size buffer).
Proof. intros. unfold br_packet. fr. Qed.
Lemma frame_br_command : forall cp len buffer, frame (br_command cfg cp len buffer).
Proof. intros. unfold br_command. fr. Qed.
Lemma frame_br_header : forall size, frame (br_header cfg size).
Proof. intros. unfold br_header. fr. Qed.
Lemma frame_br_eof : frame br_eof.
Proof. unfold br_eof. fr. Qed.
Lemma frame_br_abort : forall cp, frame (br_abort cfg cp).
Proof. intros. unfold br_abort. fr. Qed.

(* ------------------------------------------------------------------ the invariant *)
Variable n0 : Z.

Definition JD (d : bool) (w : world) : Prop :=
  lost_fds (w_st w) = n0 /\ out_locked (w_st w) = false /\ (dir_open (w_st w) = d \/ In ModelErr (w_ev w)).

Lemma frame_JD : forall A (m : M A) d, frame m -> hoare (JD d) m (fun _ => JD d).
Proof.
  intros A m d Hm w [J1 [J2 J3]]. destruct (Hm w) as [K1 [K2 [K3 [new K4]]]]. repeat split; try congruence.
  destruct J3 as [J3|J3]; [left; congruence|right]. rewrite K4. apply in_or_app. right. exact J3.
Qed.

Lemma JD_err : forall d d', hoare (JD d) (emit ModelErr) (fun _ => JD d').
Proof. intros d d' w [J1 [J2 J3]]. simpl. repeat split; auto. right. left. reflexivity. Qed.

Lemma JD_mark : forall d, hoare (JD d) mark_dir_open (fun _ => JD true).
Proof. intros d w [J1 [J2 J3]]. unfold mark_dir_open, bind, get_st, set_st. simpl. repeat split; auto. Qed.

Lemma JD_close_dir : forall d, hoare (JD d) close_dir (fun _ => JD false).
Proof. intros d w [J1 [J2 J3]]. unfold close_dir, fs_void, bind, emit, get_st, set_st. simpl. repeat split; auto. Qed.

Ltac hf := apply frame_JD; auto with frame.

Lemma JD_err_ret : forall d d' (b : bool), hoare (JD d) (emit ModelErr;;; ret b) (fun _ => JD d').
Proof. intros d d' b. eapply hoare_bind; [apply (JD_err d d')|]. intros ?. apply hoare_ret. auto. Qed.

Lemma JD_err_all : forall d (b : bool), hoare (JD d) (emit ModelErr;;; ret b) (fun _ w => forall d', JD d' w).
Proof. intros d b w [J1 [J2 J3]]. simpl. intros d'. repeat split; auto. right. left. reflexivity. Qed.

Lemma JD_err_r : forall d (b : bool), hoare (JD d) (emit ModelErr;;; ret b) (fun r => JD r).
Proof. intros. eapply hoare_post; [apply JD_err_all|]. intros r w H. apply H. Qed.

Lemma JD_dir_loop : forall fuel path, hoare (JD true) (dir_loop fuel cfg path) (fun r => JD r).
Proof.
  induction fuel as [|k IH]; intros path; cbn [dir_loop].
  - apply JD_err_r.
  - eapply hoare_bind; [hf|]. intros e.
    destruct e as [[| | | | |n| |]|]; try apply JD_err_r.
    + destruct (has_slash n); [apply JD_err_r|].
      eapply hoare_bind; [hf|]. intros st.
      destruct st as [[| | |isdir size ct at_ mt| | | |]|]; try apply JD_err_r.
      * apply IH.
      * destruct (hidden n); [apply IH|].
        eapply hoare_bind; [hf|]. intros r. destruct r; cbn [negb]; [apply IH|].
        eapply hoare_bind; [apply JD_close_dir|]. intros ?. apply hoare_ret. auto.
    + apply hoare_ret. auto.
Qed.

Lemma JD_send_dir_content : forall len buffer,
  hoare (JD false) (send_dir_content cfg len buffer) (fun _ => JD false).
Proof.
  intros len buffer. unfold send_dir_content.
  eapply hoare_bind; [hf|]. intros ok. destruct ok; cbn [negb]; [|apply hoare_ret; auto].
  eapply hoare_bind; [hf|]. intros t. destruct t as [| |path]; try (apply hoare_ret; auto).
  eapply hoare_bind; [hf|]. intros d.
  destruct d as [[| | | | | | |]|]; try apply JD_err_ret.
  - eapply hoare_bind; [apply JD_mark|]. intros ?.
    eapply hoare_bind; [hf|]. intros r. destruct r; cbn [negb].
    + eapply hoare_bind; [hf|]. intros fuel.
      eapply hoare_bind; [apply JD_dir_loop|]. intros l. destruct l; cbn [negb].
      * eapply hoare_bind; [apply JD_close_dir|]. intros ?. hf.
      * apply hoare_ret. auto.
    + rewrite F7b. eapply hoare_bind; [apply JD_close_dir|]. intros ?. apply hoare_ret. auto.
  - hf.
Qed.

(* request / offer: the previous descriptor is closed before the new open *)
Definition Jf (d : bool) (w : world) : Prop := JD d w /\ fd_open (w_st w) = false.

Lemma Jf_pre_open : forall d, hoare (JD d) (pre_open cfg) (fun _ => Jf d).
Proof.
  intros d w [J1 [J2 J3]]. unfold pre_open, bind, get_st, emit, set_st, ret. rewrite F7.
  destruct (fd_open (w_st w)) eqn:E; simpl; repeat split; auto.
  destruct J3 as [J3|J3]; [left; exact J3|right; right; exact J3].
Qed.

Lemma Jf_fs_call : forall d op, hoare (Jf d) (fs_call op) (fun _ => Jf d).
Proof.
  intros d op w [[J1 [J2 J3]] J4]. unfold fs_call, bind, emit, next_env. simpl.
  destruct (w_env w); simpl; repeat split; auto; (destruct J3 as [J3|J3]; [left; exact J3|right; right; exact J3]).
Qed.

Lemma Jf_opened : forall d, hoare (Jf d) set_fd_opened (fun _ => JD d).
Proof.
  intros d w [[J1 [J2 J3]] J4]. unfold set_fd_opened, bind, get_st, set_st. rewrite J4. simpl. repeat split; auto.
Qed.

Lemma Jf_failed : forall d, hoare (Jf d) set_fd_failed (fun _ => JD d).
Proof.
  intros d w [[J1 [J2 J3]] J4]. unfold set_fd_failed, bind, get_st, set_st, ret. rewrite J4. simpl. repeat split; auto.
Qed.

Lemma JD_br_request : forall size len buffer, hoare (JD false) (br_request cfg size len buffer) (fun _ => JD false).
Proof.
  intros. unfold br_request.
  eapply hoare_bind; [hf|]. intros t. destruct t as [| |f1]; try (apply hoare_ret; auto).
  eapply hoare_bind; [apply Jf_pre_open|]. intros ?.
  eapply hoare_bind; [apply Jf_fs_call|]. intros o.
  assert (E : forall b : bool, hoare (Jf false) (emit ModelErr;;; ret b) (fun _ => JD false)).
  { intros b. eapply hoare_pre; [apply JD_err_ret|]. intros w [H _]; exact H. }
  destruct o as [[| | | | | | |]|]; try apply E.
  - eapply hoare_bind; [apply Jf_opened|]. intros ?.
    eapply hoare_bind; [hf|]. intros fs. destruct fs as [[| | | |fsize ts| | |]|]; try apply JD_err_ret.
    + apply frame_JD. fr.
    + apply frame_JD. fr.
  - eapply hoare_bind; [apply Jf_failed|]. intros ?. apply frame_JD. fr.
Qed.

Lemma JD_br_offer : forall len buffer, hoare (JD false) (br_offer cfg len buffer) (fun _ => JD false).
Proof.
  intros. unfold br_offer. cbv zeta.
  eapply hoare_bind; [hf|]. intros h. destruct h as [h4|].
  2:{ apply frame_JD. fr. }
  eapply hoare_bind; [hf|]. intros t. destruct t as [| |f1]; try (apply hoare_ret; auto).
  eapply hoare_bind; [apply Jf_pre_open|]. intros ?.
  eapply hoare_bind; [apply Jf_fs_call|]. intros o.
  assert (E : forall b : bool, hoare (Jf false) (emit ModelErr;;; ret b) (fun _ => JD false)).
  { intros b. eapply hoare_pre; [apply JD_err_ret|]. intros w [H _]; exact H. }
  destruct o as [[| | | | | | |]|]; try apply E.
  - eapply hoare_bind; [apply Jf_opened|]. intros ?. apply frame_JD. fr.
  - eapply hoare_bind; [apply Jf_failed|]. intros ?. apply frame_JD. fr.
Qed.

Lemma JD_with_buffer : forall len k,
  (forall buffer, hoare (JD false) (k buffer) (fun _ => JD false)) ->
  hoare (JD false) (with_buffer cfg len k) (fun _ : bool => JD false).
Proof.
  intros len k Hk. unfold with_buffer. eapply hoare_bind; [hf|]. intros b.
  destruct b; [apply Hk|apply hoare_ret; auto].
Qed.

Theorem JD_process : forall ct cp sz len, hoare (JD false) (process cfg ct cp sz len) (fun _ => JD false).
Proof.
  intros. unfold process. eapply hoare_bind; [hf|]. intros ok. destruct ok; cbn [negb]; [|apply hoare_ret; auto].
  destruct (ct =? C19_DirContentRequest).
  { destruct (cp =? C19_RDrivesList); [hf|]. destruct (cp =? C19_RDirContent); [|apply hoare_ret; auto].
    apply JD_with_buffer. intros. apply JD_send_dir_content. }
  destruct (ct =? C19_FileTransferRequest). { apply JD_with_buffer. intros. apply JD_br_request. }
  destruct (ct =? C19_FileHeader). { apply frame_JD. apply frame_br_header. }
  destruct (ct =? C19_FileTransferOffer). { apply JD_with_buffer. intros. apply JD_br_offer. }
  destruct (ct =? C19_FilePacket). { apply JD_with_buffer. intros. apply frame_JD. apply frame_br_packet. }
  destruct (ct =? C19_EndOfFile). { apply frame_JD. apply frame_br_eof. }
  destruct (ct =? C19_AbortFileTransfer). { apply frame_JD. apply frame_br_abort. }
  destruct (ct =? C19_Command). { apply JD_with_buffer. intros. apply frame_JD. apply frame_br_command. }
  apply hoare_ret. auto.
Qed.

Theorem JD_handle_message : hoare (JD false) (handle_message cfg) (fun _ => JD false).
Proof.
  unfold handle_message. eapply hoare_bind; [hf|]. intros h.
  assert (D : hoare (JD false) (close_client;;; ret false) (fun _ : bool => JD false)). { apply frame_JD. fr. }
  destruct h as [l|]; [|exact D].
  do 11 (destruct l as [|? l]; [exact D|]). destruct l; [|exact D].
  apply JD_process.
Qed.

Theorem JD_send_chunk : hoare (JD false) (send_chunk cfg) (fun _ => JD false).
Proof. hf. Qed.

End Fixed.

(* ------------------------------------------------------------------ every history of a connection *)
(* one step of a connection's life: a message is handled, the event loop calls the chunk sender,
   or the outside world moves (the client sends more bytes, the oracles get new answers) *)
Inductive step (cfg : config) : world -> world -> Prop :=
| step_msg : forall w, step cfg w (snd (handle_message cfg w))
| step_chunk : forall w, step cfg w (snd (send_chunk cfg w))
| step_world : forall w perms dflt envs input,
    step cfg w {| w_perm := perms; w_perm_dflt := dflt; w_env := envs; w_in := input; w_ev := w_ev w; w_st := w_st w |}.

Inductive reachable (cfg : config) : world -> Prop :=
| reach_init : forall perms dflt envs input, reachable cfg (mk_world perms dflt envs input st0)
| reach_step : forall w w', reachable cfg w -> step cfg w w' -> reachable cfg w'.

Definition repaired (cfg : config) : Prop := fix_f7 cfg = true /\ fix_f14 cfg = true /\ fix_f7b cfg = true.

(* at every point of every history: no descriptor has been lost (the only one that may be open is the
   one recorded in cl->fileTransfer.fd), no directory stream is open (unless the environment oracle
   gave an answer of the wrong kind: ModelErr), outputMutex is not held *)
Theorem no_descriptor_leak : forall cfg w,
  repaired cfg -> reachable cfg w ->
  lost_fds (w_st w) = 0 /\ out_locked (w_st w) = false /\ (dir_open (w_st w) = false \/ In ModelErr (w_ev w)).
Proof.
  intros cfg w [F7 [F14 F7b]] R. induction R as [perms dflt envs input | w w' R IH S].
  - simpl. auto.
  - destruct S.
    + eapply JD_handle_message; eauto.
    + eapply JD_send_chunk; eauto.
    + exact IH.
Qed.

(* hence teardown never blocks and leaves no descriptor behind *)
Theorem teardown_never_blocks : forall cfg w,
  repaired cfg -> reachable cfg w ->
  fst (connection_gone cfg w) = true /\
  fd_open (w_st (snd (connection_gone cfg w))) = false /\ lost_fds (w_st (snd (connection_gone cfg w))) = 0.
Proof.
  intros cfg w Hr R. destruct (no_descriptor_leak cfg w Hr R) as [L [O _]]. destruct Hr as [F7 _].
  unfold connection_gone, bind, get_st, set_st, fs_void, emit, ret. rewrite F7, O.
  destruct (fd_open (w_st w)) eqn:E; simpl; auto.
Qed.

(* non-vacuity: a reachable world in which a descriptor is open (request granted), and the flags of HEAD *)
Definition cfg_head : config :=
  {| permit := true; has_cb := false; home := None; fix_f7 := true; fix_f14 := true; fix_f7b := true |}.
Example no_leak_nonvacuous :
  repaired cfg_head /\
  fd_open (w_st (snd (handle_message cfg_head (mk_world [] true [EOk; EFstat 5 [49]] [3; 0; 0; 0; 0; 0; 0; 0; 0; 0; 1; 102] st0)))) = true.
Proof. split; [repeat split|]. vm_compute. reflexivity. Qed.
