(* C06 - proofs, part 5: gating over one whole rfbProcessEvents pass (several connections,
   each served at most once, in list order, with closing/sharing side effects in between). *)
From Coq Require Import ZArith List Bool Lia.
From LV Require Import Gen.Consts_C06 Wire.C2SInput Session.InputDefs Session.InputProofs
  Session.InputProofs2 Session.InputProofs3.
Import ListNotations.
Local Open Scope Z_scope.

(* what gating looks at *)
Definition gview (c : client) : Z * cstate * bool := (c_id c, c_state c, c_viewonly c).

Section Pass.
Variable ext_cut : bool -> clipst -> list Z -> clipst * list utf8cb * bool.
Hypothesis ext_gated : forall k p, snd (fst (ext_cut true k p)) = [].

Lemma apply_init_id : forall cfg o c sh b, c_id (a_client (apply_init cfg o c sh b)) = c_id c.
Proof.
  intros cfg o [] sh b. unfold apply_init, applied_close, applied_same. cbn.
  repeat match goal with |- context [if ?x then _ else _] => destruct x end; reflexivity.
Qed.

Lemma apply_msg_id : forall cfg o c m b, c_id (a_client (apply_msg ext_cut cfg o c m b)) = c_id c.
Proof.
  intros cfg o c m b. unfold apply_msg. destruct (c_state c).
  1-4: destruct m; cbn [apply_handshake]; unfold applied_close, applied_same; cbn [a_client];
       try (destruct c; reflexivity); try apply apply_init_id.
  1-12: try (destruct (parse_version b0) as [[mj mn]|]; [|destruct c; reflexivity];
             repeat match goal with |- context [if ?x then _ else _] => destruct x end; destruct c; reflexivity).
  1-8: try (repeat match goal with |- context [if ?x then _ else _] => destruct x end;
            try apply apply_init_id; destruct c; reflexivity).
  1-4: try (destruct (c_authres c); [|destruct c; reflexivity];
            match goal with |- context [if ?x then _ else _] => destruct x end; destruct c; reflexivity).
  destruct m; cbn [apply_normal]; unfold applied_close, applied_same; cbn [a_client];
    try (destruct c; reflexivity).
  - destruct (byte_at b0 c06_off_spf_bpp); [|destruct c; reflexivity].
    destruct (byte_at b0 c06_off_spf_truecolour); [|destruct c; reflexivity].
    match goal with |- context [if ?x then _ else _] => destruct x end; destruct c; reflexivity.
  - destruct (c_viewonly c); destruct c; reflexivity.
  - repeat match goal with
           | |- context [if ?x then _ else _] => destruct x
           | |- context [match map_pos ?a ?b ?c ?d with _ => _ end] => destruct (map_pos a b c d) as [[? ?]|]
           end; destruct c; reflexivity.
  - destruct (c_viewonly c); destruct c; reflexivity.
  - destruct (ext_cut (c_viewonly c) (c_clip c) payload) as [[k' texts] close]. destruct close; destruct c; reflexivity.
  - repeat match goal with |- context [if ?x then _ else _] => destruct x end; destruct c; reflexivity.
Qed.

Lemma handle_client_id : forall cfg o c b, c_id (a_client (handle_client ext_cut cfg o c b)) = c_id c.
Proof.
  intros cfg o c b. unfold handle_client.
  destruct (parse_for (c_state c) (k_ext (c_clip c)) (fix_extlimit cfg) (c_in c)) as [m i|e].
  - rewrite apply_msg_id. destruct c; reflexivity.
  - destruct c; reflexivity.
Qed.

(* serving connection [id] leaves state and view-only flag of every OTHER connection alone *)
Lemma find_put_other : forall cs c' id', c_id c' <> id' -> find_client (put_client cs c') id' = find_client cs id'.
Proof.
  induction cs as [|x r IH]; intros c' id' H; cbn; [reflexivity|].
  destruct (c_id x =? c_id c') eqn:E.
  - cbn. apply Z.eqb_eq in E. rewrite <- E in H.
    replace (c_id c' =? id') with false by (symmetry; apply Z.eqb_neq; congruence).
    replace (c_id x =? id') with false by (symmetry; apply Z.eqb_neq; exact H). reflexivity.
  - cbn. destruct (c_id x =? id'); [reflexivity|apply IH; exact H].
Qed.

Lemma find_close_others : forall cs id id',
  option_map gview (find_client (close_others cs id) id') = option_map gview (find_client cs id').
Proof.
  induction cs as [|x r IH]; intros id id'; cbn; [reflexivity|].
  destruct (negb (c_id x =? id) && is_live_normal x).
  - replace (c_id (set_closed x true)) with (c_id x) by (destruct x; reflexivity).
    destruct (c_id x =? id'); [destruct x; reflexivity|apply IH].
  - destruct (c_id x =? id'); [reflexivity|apply IH].
Qed.

Lemma handle_other : forall s id id', id <> id' ->
  option_map gview (find_client (s_clients (fst (handle ext_cut s id))) id') =
  option_map gview (find_client (s_clients s) id').
Proof.
  intros s id id' H. unfold handle.
  destruct (find_client (s_clients s) id) as [c|] eqn:F; [|reflexivity].
  destruct (c_closed c); [reflexivity|]. cbn [fst s_clients].
  destruct (find_client_id _ _ _ F) as [Hid _].
  set (a := handle_client ext_cut (s_cfg s) (s_owner s) c (others_normal_of (s_clients s) id)).
  assert (Ha : c_id (a_client a) <> id') by (unfold a; rewrite handle_client_id; congruence).
  destruct (a_close_others a).
  - rewrite find_close_others, find_put_other by exact Ha. reflexivity.
  - rewrite find_put_other by exact Ha. reflexivity.
Qed.

(* the handling part of one pass: every callback comes from a connection that was in
   RFB_NORMAL and not view-only when the pass started *)
Lemma handle_all_gate : forall ids s e, NoDup ids ->
  In e (snd (handle_all ext_cut s ids)) ->
  exists c, find_client (s_clients s) (ev_client e) = Some c /\ c_closed c = false /\
            c_state c = SNormal /\ c_viewonly c = false /\ In (ev_client e) ids.
Proof.
  induction ids as [|id r IH]; intros s e Hnd Hin; cbn [handle_all] in Hin; [destruct Hin|].
  destruct (handle ext_cut s id) as [s1 e1] eqn:H1.
  destruct (handle_all ext_cut s1 r) as [s2 e2] eqn:H2. cbn [snd] in Hin.
  inversion Hnd as [|? ? Hni Hnd']; subst.
  apply in_app_or in Hin. destruct Hin as [Hin|Hin].
  - pose proof (handle_gate ext_cut ext_gated s id e) as G. rewrite H1 in G. cbn [snd] in G.
    destruct (G Hin) as (c & F & Hc & Hs & Hv & He & _).
    exists c. rewrite He. repeat split; auto. left. reflexivity.
  - assert (Hin2 : In e (snd (handle_all ext_cut s1 r))) by (rewrite H2; exact Hin).
    destruct (IH s1 e Hnd' Hin2) as (c1 & F1 & Hc1 & Hs1 & Hv1 & Hr).
    assert (Hne : id <> ev_client e) by (intro; subst; contradiction).
    pose proof (handle_other s id (ev_client e) Hne) as Ho. rewrite H1 in Ho. cbn [fst] in Ho.
    rewrite F1 in Ho. cbn [option_map] in Ho.
    destruct (find_client (s_clients s) (ev_client e)) as [c|] eqn:F; [|discriminate].
    cbn [option_map] in Ho. unfold gview in Ho. inversion Ho as [[Hi Hst Hvo]].
    exists c. repeat split; auto; try congruence.
    + (* not closed at the start: it is served later in this pass, and nothing re-opens a connection *)
      destruct (c_closed c) eqn:Cc; [|reflexivity].
      exfalso. clear IH Hr Hin2 Hin H2.
      (* c closed in s => still closed in s1 (handle never clears the flag of another connection) *)
      unfold handle in H1.
      destruct (find_client (s_clients s) id) as [ci|] eqn:Fi.
      * destruct (c_closed ci) eqn:Cci.
        -- inversion H1; subst. rewrite F in F1. inversion F1; subst. congruence.
        -- inversion H1; subst. cbn [s_clients] in F1.
           destruct (find_client_id _ _ _ Fi) as [Hidi _].
           set (a := handle_client ext_cut (s_cfg s) (s_owner s) ci (others_normal_of (s_clients s) id)) in *.
           assert (Ha : c_id (a_client a) <> ev_client e) by (unfold a; rewrite handle_client_id; congruence).
           assert (Fc : forall cs, find_client cs (ev_client e) = Some c ->
                        exists c', find_client (close_others cs id) (ev_client e) = Some c' /\ c_closed c' = true).
           { clear -Cc. induction cs as [|x q IHq]; cbn; [discriminate|]. intros Hf.
             destruct (c_id x =? ev_client e) eqn:Ex.
             - inversion Hf; subst x.
               destruct (negb (c_id c =? id) && is_live_normal c).
               + replace (c_id (set_closed c true)) with (c_id c) by (destruct c; reflexivity).
                 rewrite Ex. eexists; split; [reflexivity|]. destruct c; reflexivity.
               + rewrite Ex. eexists; split; [reflexivity|exact Cc].
             - destruct (negb (c_id x =? id) && is_live_normal x).
               + replace (c_id (set_closed x true)) with (c_id x) by (destruct x; reflexivity).
                 rewrite Ex. apply IHq; exact Hf.
               + rewrite Ex. apply IHq; exact Hf. }
           destruct (a_close_others a).
           ++ rewrite <- (find_put_other (s_clients s) (a_client a) (ev_client e) Ha) in F.
              destruct (Fc _ F) as (c' & F' & C'). rewrite F' in F1. inversion F1; subst. congruence.
           ++ rewrite find_put_other in F1 by exact Ha. rewrite F in F1. inversion F1; subst. congruence.
      * inversion H1; subst. rewrite F in F1. inversion F1; subst. congruence.
    + right. exact Hr.
Qed.


(* the select() phase changes nothing gating looks at, and lists every connection at most once *)
Lemma wake_all_view : forall cs id,
  option_map (fun c => (gview c, c_closed c)) (find_client (fst (wake_all cs)) id) =
  option_map (fun c => (gview c, c_closed c)) (find_client cs id).
Proof.
  induction cs as [|x r IH]; intros id; cbn [wake_all]; [reflexivity|].
  specialize (IH id). destruct (wake_all r) as [r' ids]. cbn [fst] in *.
  destruct (c_closed x) eqn:Cx; cbn [fst find_client].
  - destruct (c_id x =? id); [reflexivity|exact IH].
  - destruct (wake (c_in x)) as [i' rdy]. cbn [fst find_client].
    replace (c_id (set_in x i')) with (c_id x) by (destruct x; reflexivity).
    destruct (c_id x =? id); [destruct x; reflexivity|exact IH].
Qed.

Lemma wake_all_ids : forall cs id, In id (snd (wake_all cs)) -> In id (map c_id cs).
Proof.
  induction cs as [|x r IH]; intros id; cbn [wake_all]; [intros []|].
  destruct (wake_all r) as [r' ids]. cbn [snd] in *.
  destruct (c_closed x); cbn [snd map]; [intros H; right; apply IH; exact H|].
  destruct (wake (c_in x)) as [i' rdy]. cbn [snd]. destruct rdy; cbn.
  - intros [H|H]; [left; exact H|right; apply IH; exact H].
  - intros H; right; apply IH; exact H.
Qed.

Lemma wake_all_nodup : forall cs, NoDup (map c_id cs) -> NoDup (snd (wake_all cs)).
Proof.
  induction cs as [|x r IH]; intros H; cbn [wake_all]; [constructor|].
  cbn [map] in H. inversion H as [|? ? Hni Hnd]; subst. specialize (IH Hnd).
  pose proof (wake_all_ids r) as Hids.
  destruct (wake_all r) as [r' ids]. cbn [snd] in *.
  destruct (c_closed x); cbn [snd]; [exact IH|].
  destruct (wake (c_in x)) as [i' rdy]. cbn [snd]. destruct rdy; [|exact IH].
  constructor; [|exact IH]. intro Hin. apply Hni. apply Hids. exact Hin.
Qed.

Lemma flush_all_gate : forall cfg now cs e, In e (snd (flush_all cfg now cs)) ->
  exists c, In c cs /\ c_viewonly c = false /\ 0 <= p_lastx (c_ptr c) /\
            e = EvPtr (c_id c) (p_lastbtn (c_ptr c)) (p_lastx (c_ptr c)) (p_lasty (c_ptr c)).
Proof.
  induction cs as [|x r IH]; intros e; cbn [flush_all]; [intros []|].
  destruct (flush_ptr cfg now x) as [x' e1] eqn:Fx.
  destruct (flush_all cfg now r) as [r' e2]. cbn [snd] in *.
  intros H. apply in_app_or in H. destruct H as [H|H].
  - pose proof (flush_gate cfg now x e) as G. rewrite Fx in G. cbn [snd] in G.
    destruct (G H) as (Hv & Hl & He). exists x. repeat split; auto. left; reflexivity.
  - destruct (IH e H) as (c & Hc & Hrest). exists c. split; [right; exact Hc|exact Hrest].
Qed.

(* C06_gating over one rfbProcessEvents pass and any number of connections: a callback is
   either caused by a message of a connection that was open, in RFB_NORMAL and not view-only
   when the pass started, or it is the flush of a remembered pointer position (coalescing on)
   of a connection that is not view-only at that moment *)
Lemma process_gate : forall s e, NoDup (map c_id (s_clients s)) ->
  In e (snd (process ext_cut s)) ->
  (exists c, find_client (s_clients s) (ev_client e) = Some c /\ c_closed c = false /\
             c_state c = SNormal /\ c_viewonly c = false) \/
  (exists c, c_viewonly c = false /\ 0 <= p_lastx (c_ptr c) /\
             e = EvPtr (c_id c) (p_lastbtn (c_ptr c)) (p_lastx (c_ptr c)) (p_lasty (c_ptr c))).
Proof.
  intros s e Hnd. unfold process.
  pose proof (wake_all_view (s_clients s)) as Wv. pose proof (wake_all_nodup (s_clients s) Hnd) as Wn.
  destruct (wake_all (s_clients s)) as [cs1 ready]. cbn [fst snd] in *.
  destruct (handle_all ext_cut (mkSrv (s_cfg s) cs1 (s_owner s) (s_now s)) ready) as [s2 ev1] eqn:H.
  destruct (flush_all (s_cfg s2) (s_now s2) (s_clients s2)) as [cs3 ev2] eqn:F.
  destruct (reap cs3 (s_owner s2)) as [cs4 o4]. cbn [snd].
  intros Hin. apply in_app_or in Hin. destruct Hin as [Hin|Hin].
  - left.
    assert (Hin' : In e (snd (handle_all ext_cut (mkSrv (s_cfg s) cs1 (s_owner s) (s_now s)) ready)))
      by (rewrite H; exact Hin).
    destruct (handle_all_gate ready _ e Wn Hin') as (c1 & F1 & Hc1 & Hs1 & Hv1 & _).
    cbn [s_clients] in F1. specialize (Wv (ev_client e)). rewrite F1 in Wv. cbn [option_map] in Wv.
    destruct (find_client (s_clients s) (ev_client e)) as [c|]; [|discriminate].
    cbn [option_map] in Wv. unfold gview in Wv. inversion Wv. exists c. repeat split; congruence.
  - right.
    assert (Hin' : In e (snd (flush_all (s_cfg s2) (s_now s2) (s_clients s2)))) by (rewrite F; exact Hin).
    destruct (flush_all_gate _ _ _ e Hin') as (c & _ & Hrest). exists c. exact Hrest.
Qed.

End Pass.
