(* C18 - proofs about the clipboard model (Session/ClipboardDefs.v). *)
From Coq Require Import ZArith List Bool Lia.
From LV Require Import Gen.Consts_C06 Gen.Consts_C18 Wire.C2SInput Session.InputDefs
  Session.InputProofs Session.InputProofs2 Session.InputProofs3 Session.InputProofs4
  Session.ClipboardDefs.
Import ListNotations.
Local Open Scope Z_scope.

Ltac Zify.zify_post_hook ::= Z.to_euclidean_division_equations.

Ltac natify := repeat match goal with |- context [Pos.to_nat ?p] =>
  let n := eval vm_compute in (Pos.to_nat p) in change (Pos.to_nat p) with n end; cbn [nth_error].

(* the initial clipboard state of a connection is the one rfbNewClient sets up *)
Lemma clip0_defaults :
  clip0 = mkClip false c18_default_usercap c18_default_maxunsol None [] false.
Proof. reflexivity. Qed.

Section ClipProofs.
Variable zinflate : list Z -> list Z * zterm.
Variable zcompress : list Z -> list Z.
Variable zsync : list Z -> list Z.
Variable fs : bool.     (* does the library contain the repair notes/fix_C18_2.diff? *)
Variable fl : bool.     (* ... notes/fix_C18_1.diff? *)

Notation ext := (ext_cut_real zinflate fs).

(* ---- view-only connections never reach setXCutTextUTF8 ---- *)
Lemma provide_loop_vo : forall bits c t inlen idx pos,
  fst (provide_loop fs true c t inlen bits idx pos) = [].
Proof.
  clear zinflate zcompress zsync.
  induction bits as [|b r IH]; intros c t inlen idx pos; cbn [provide_loop]; [reflexivity|].
  destruct b; [|apply IH].
  destruct (ztake c t inlen pos 4) as [szb st].
  destruct st; try reflexivity.
  destruct (be32_at szb 0) as [size|]; [|reflexivity].
  destruct (c18_ext_size_limit <? size); [reflexivity|].
  destruct (ztake c t inlen (pos + 4) (Z.to_nat size)) as [data st2].
  destruct st2; try reflexivity.
  - destruct (fs && (Z.of_nat (length data) <? size)); [reflexivity|].
    rewrite andb_false_r. specialize (IH c t inlen (S idx) (pos + 4 + length data)%nat).
    destruct (provide_loop fs true c t inlen r (S idx) (pos + 4 + length data)) as [cbs cl]. cbn in *. exact IH.
  - destruct (fs && (Z.of_nat (length data) <? size)); [reflexivity|].
    rewrite andb_false_r. specialize (IH c t inlen (S idx) (pos + 4 + length data)%nat).
    destruct (provide_loop fs true c t inlen r (S idx) (pos + 4 + length data)) as [cbs cl]. cbn in *. exact IH.
Qed.

Lemma ext_gated_real : forall k p, snd (fst (ext true k p)) = [].
Proof.
  clear zcompress zsync.
  intros k p. unfold ext_cut_real.
  destruct (be32_at p 0) as [flags|]; [|reflexivity].
  repeat match goal with
         | |- context [if ?x then _ else _] => destruct x
         | |- context [match be32_at ?a ?b with _ => _ end] => destruct (be32_at a b)
         | |- context [match k_data ?a with _ => _ end] => destruct (k_data a)
         end; try reflexivity.
  destruct (zinflate (skipn 4 p)) as [c t].
  pose proof (provide_loop_vo (bits_of 16 flags) c t (length (skipn 4 p)) 0 0) as H.
  destruct (provide_loop fs true c t (length (skipn 4 p)) (bits_of 16 flags) 0 0) as [cbs cl]. exact H.
Qed.

(* ---- classic text, server to client ---- *)
Lemma enc_out_classic_shape : forall t,
  enc_out zcompress (OClassic t) = c18_rfbServerCutText :: 0 :: 0 :: 0 :: be32 (Z.of_nat (length t)) ++ t.
Proof.
  clear zinflate zsync. reflexivity. Qed.

Lemma skipn_8_hdr : forall a b c d v (l : list Z), skipn 8 (a :: b :: c :: d :: be32 v ++ l) = l.
Proof.
  clear zinflate zcompress zsync. reflexivity. Qed.

Lemma lvc_recv_classic : forall xl l t,
  Z.of_nat (length t) <= c18_lvc_cut_limit ->
  lvc_recv zinflate xl l (enc_out zcompress (OClassic t)) = (l, [GotCut t], true).
Proof.
  clear zsync.
  intros xl l t H. rewrite enc_out_classic_shape. unfold lvc_recv.
  assert (Hn : 0 <= Z.of_nat (length t) < two32) by (unfold two32, c18_lvc_cut_limit in *; lia).
  rewrite (be32_at_4 _ _ _ _ _ t Hn).
  replace (two31 <=? Z.of_nat (length t)) with false
    by (symmetry; apply Z.leb_gt; unfold two31, c18_lvc_cut_limit in *; lia).
  cbn [andb].
  replace (c18_lvc_cut_limit <? Z.of_nat (length t)) with false by (symmetry; apply Z.ltb_ge; lia).
  rewrite skipn_8_hdr, Z.eqb_refl. reflexivity.
Qed.

(* rfbSendServerCutText reaches every open connection with exactly the text *)
Lemma publish_classic_out : forall text s c,
  In c (s_clients s) -> c_closed c = false ->
  In (set_clip c (add_out (c_clip c) (OClassic text))) (s_clients (publish_classic text s)).
Proof.
  clear zinflate zcompress zsync.
  intros text s c Hin Hc. unfold publish_classic. cbn [s_clients].
  apply in_map_iff. exists c. split; [|exact Hin]. unfold pub_classic_client. rewrite Hc. reflexivity.
Qed.

(* ---- UTF-8 publishing ---- *)
Lemma pub_utf8_ext : forall text fb c,
  c_closed c = false -> k_ext (c_clip c) = true ->
  has (k_usercap (c_clip c)) c18_Provide = true -> Z.of_nat (length text) <= k_maxunsol (c_clip c) ->
  let c' := pub_utf8_client fl text fb c in
  k_out (c_clip c') = k_out (c_clip c) ++ [OProvide (be32 (Z.of_nat (length text) + 1) ++ text ++ [0])] /\
  k_data (c_clip c') = Some (text ++ [0]) /\ k_locked (c_clip c') = k_locked (c_clip c).
Proof.
  clear zinflate zcompress zsync.
  intros text fb c Hc He Hp Hm. unfold pub_utf8_client. rewrite Hc, He, Hp. cbn [andb].
  replace (Z.of_nat (length text) <=? k_maxunsol (c_clip c)) with true by (symmetry; apply Z.leb_le; exact Hm).
  rewrite app_length. cbn [length]. rewrite Nat2Z.inj_add. cbn. destruct c as [? ? ? ? ? ? ? ? ? ? []]; cbn. auto.
Qed.

Lemma pub_utf8_fallback : forall text f c,
  c_closed c = false -> k_ext (c_clip c) = false ->
  let c' := pub_utf8_client fl text (Some f) c in
  k_out (c_clip c') = k_out (c_clip c) ++ [OClassic f] /\ k_locked (c_clip c') = k_locked (c_clip c).
Proof.
  clear zinflate zcompress zsync.
  intros text f c Hc He. unfold pub_utf8_client. rewrite Hc, He. destruct c as [? ? ? ? ? ? ? ? ? ? []]; cbn. auto.
Qed.

(* defect: no fallback and a classic client: the send mutex stays locked, nothing is sent *)
Lemma pub_utf8_null_fallback_locks : forall text c,
  c_closed c = false -> k_ext (c_clip c) = false ->
  let c' := pub_utf8_client false text None c in
  k_locked (c_clip c') = true /\ k_out (c_clip c') = k_out (c_clip c).
Proof.
  clear zinflate zcompress zsync.
  intros text c Hc He. unfold pub_utf8_client. rewrite Hc, He. destruct c as [? ? ? ? ? ? ? ? ? ? []]; cbn. auto.
Qed.


(* with the repair notes/fix_C18_1.diff nothing at all happens to such a client *)
Lemma pub_utf8_null_fallback_fixed : forall text c,
  k_ext (c_clip c) = false -> pub_utf8_client true text None c = c.
Proof.
  clear zinflate zcompress zsync.
  intros text c He. unfold pub_utf8_client. rewrite He. destruct (c_closed c); reflexivity.
Qed.

(* ---- the extended messages ---- *)
Lemma be32_at_0 : forall v l, 0 <= v < two32 -> be32_at (be32 v ++ l) 0 = Some v.
Proof.
  clear zinflate zcompress zsync. intros. unfold be32_at, byte_at, be32. cbn. natify. rewrite be32_sum by assumption. reflexivity. Qed.

Lemma neg32_small : forall n, 0 < n <= c06_cut_text_limit -> two31 <= neg32 n < two32 /\ neg32 (neg32 n) = n.
Proof.
  clear zinflate zcompress zsync.
  intros n H. unfold neg32. unfold c06_cut_text_limit in H.
  assert (E1 : (two32 - n) mod two32 = two32 - n) by (apply Z.mod_small; unfold two32; lia).
  rewrite E1. replace (two32 - (two32 - n)) with n by ring.
  rewrite Z.mod_small by (unfold two32; lia). unfold two31, two32. lia.
Qed.

Lemma parse_cut_ext : forall xl i payload r,
  0 < Z.of_nat (length payload) <= c06_cut_text_limit ->
  st_bytes i = cut_hdr (neg32 (Z.of_nat (length payload))) ++ payload ++ r ->
  exists j, parse_normal true xl i = ROk (MCutExt payload) j /\ st_bytes j = r /\ st_eof j = st_eof i.
Proof.
  clear zinflate zcompress zsync.
  intros xl i payload r Hl H. unfold cut_hdr in H. cbn [app] in H.
  destruct (parse_normal_type true xl i _ _ H) as (j & P & B & E). rewrite P.
  change (parse_body true xl c06_rfbClientCutText) with (parse_cut true xl c06_rfbClientCutText).
  unfold parse_cut.
  set (len := Z.of_nat (length payload)) in *.
  destruct (neg32_small len Hl) as [Hn Hnn].
  change (0 :: 0 :: 0 :: be32 (neg32 len) ++ payload ++ r) with (([0; 0; 0] ++ be32 (neg32 len)) ++ (payload ++ r)) in B.
  destruct (read_rest_app c06_rfbClientCutText c06_sz_ClientCutText j _ _ B eq_refl) as (j' & R & B' & E').
  rewrite (bind_ok _ _ _ _ _ _ _ R).
  replace (be32_at (c06_rfbClientCutText :: [0; 0; 0] ++ be32 (neg32 len)) c06_off_cut_length) with (Some (neg32 len)).
  2:{ change c06_off_cut_length with 4. cbn [app]. rewrite <- (app_nil_r (be32 (neg32 len))).
      symmetry. apply be32_at_4. unfold two31, two32 in *. lia. }
  cbn [need andb].
  replace (two31 <=? neg32 len) with true by (symmetry; apply Z.leb_le; lia).
  fold (neg32 (neg32 len)). rewrite Hnn. cbn [andb].
  replace ((if xl then c06_cut_text_limit + c06_ext_slack else c06_cut_text_limit) <? len) with false
    by (symmetry; apply Z.ltb_ge; destruct xl; unfold c06_ext_slack; lia).
  assert (Hnat : nat_of len = length payload) by (unfold nat_of, len; apply Nat2Z.id).
  destruct (read_exact_app (nat_of len) j' payload r B' (eq_sym Hnat)) as (j'' & R2 & B2 & E2).
  exists j''. rewrite (bind_ok _ _ _ _ _ _ _ R2). unfold ret. split; [reflexivity|]. split; congruence.
Qed.

Lemma ztake_lt : forall c t inlen pos n, (0 < n)%nat -> (n < length c - pos)%nat ->
  ztake c t inlen pos n = (firstn n (skipn pos c), ZS_OK).
Proof.
  clear zinflate zcompress zsync.
  intros. unfold ztake. replace (n <? length c - pos)%nat with true by (symmetry; apply Nat.ltb_lt; lia).
  replace (n =? 0)%nat with false by (symmetry; apply Nat.eqb_neq; lia). reflexivity.
Qed.

Lemma ztake_all_more : forall c inlen pos n, (0 < n)%nat -> n = (length c - pos)%nat ->
  ztake c ZMore inlen pos n = (skipn pos c, ZS_OK).
Proof.
  clear zinflate zcompress zsync.
  intros. unfold ztake. replace (n <? length c - pos)%nat with false by (symmetry; apply Nat.ltb_ge; lia).
  replace (0 <? length c - pos)%nat with true by (symmetry; apply Nat.ltb_lt; lia). reflexivity.
Qed.

Lemma ztake_all_end : forall c inlen pos n, n = (length c - pos)%nat ->
  ztake c ZEnd inlen pos n = (skipn pos c, ZS_END).
Proof.
  clear zinflate zcompress zsync.
  intros. unfold ztake. replace (n <? length c - pos)%nat with false by (symmetry; apply Nat.ltb_ge; lia). reflexivity.
Qed.

Lemma provide_loop_false : forall k f vo c t inlen idx pos,
  provide_loop f vo c t inlen (repeat false k) idx pos = ([], false).
Proof.
  clear zinflate zcompress zsync. induction k as [|k IH]; intros; cbn [repeat provide_loop]; [reflexivity|apply IH]. Qed.

(* one text format, size field = number of bytes that follow, stream open (sync flush) or
   finished (compress): the application gets exactly those bytes, nothing is closed *)
Lemma provide_loop_text : forall t data inlen,
  t = ZMore \/ t = ZEnd ->
  0 < Z.of_nat (length data) <= c18_ext_size_limit ->
  provide_loop fs false (be32 (Z.of_nat (length data)) ++ data) t inlen (true :: repeat false 15) 0 0
  = ([U8 data 0], false).
Proof.
  clear zinflate zcompress zsync.
  intros t data inlen Ht Hl. set (size := Z.of_nat (length data)) in *.
  assert (Hs : 0 <= size < two32) by (unfold two32, c18_ext_size_limit in *; lia).
  cbn [provide_loop].
  rewrite ztake_lt; [|lia|rewrite app_length; cbn; lia].
  cbn [skipn]. replace (firstn 4 (be32 size ++ data)) with (be32 size ++ []) by (rewrite app_nil_r; reflexivity).
  rewrite (be32_at_0 size [] Hs).
  replace (c18_ext_size_limit <? size) with false by (symmetry; apply Z.ltb_ge; lia).
  assert (Hn : Z.to_nat size = length data) by (unfold size; apply Nat2Z.id).
  assert (Hsk : skipn (0 + 4) (be32 size ++ data) = data) by reflexivity.
  destruct Ht as [-> | ->].
  - rewrite ztake_all_more; [|lia|rewrite app_length; cbn; lia].
    rewrite Hsk. replace (Z.of_nat (length data) <? size) with false by (symmetry; apply Z.ltb_ge; unfold size; lia).
    rewrite andb_false_r. cbn [Nat.eqb andb negb]. rewrite provide_loop_false. cbn [app].
    replace (size - Z.of_nat (length data)) with 0 by (unfold size; lia). reflexivity.
  - rewrite ztake_all_end; [|rewrite app_length; cbn; lia].
    rewrite Hsk. replace (Z.of_nat (length data) <? size) with false by (symmetry; apply Z.ltb_ge; unfold size; lia).
    rewrite andb_false_r. cbn [Nat.eqb andb negb]. rewrite provide_loop_false. cbn [app].
    replace (size - Z.of_nat (length data)) with 0 by (unfold size; lia). reflexivity.
Qed.

Lemma bits_provide_text : bits_of 16 (c18_Provide + c18_Text) = true :: repeat false 15.
Proof.
  clear zinflate zcompress zsync. vm_compute. reflexivity. Qed.

(* a Provide|Text message whose stream inflates to size ++ data *)
Lemma ext_provide_text : forall k z data t,
  zinflate z = (be32 (Z.of_nat (length data)) ++ data, t) -> t = ZMore \/ t = ZEnd ->
  0 < Z.of_nat (length data) <= c18_ext_size_limit ->
  ext false k (be32 (c18_Provide + c18_Text) ++ z) = (k, [U8 data 0], false).
Proof.
  clear zcompress zsync.
  intros k z data t Hz Ht Hl. unfold ext_cut_real.
  rewrite be32_at_0 by (vm_compute; split; [discriminate|reflexivity]).
  change (has (c18_Provide + c18_Text) c18_Caps) with false.
  change (has (c18_Provide + c18_Text) c18_Request) with false.
  change (has (c18_Provide + c18_Text) c18_Peek) with false.
  change (has (c18_Provide + c18_Text) c18_Provide) with true.
  cbv iota. change (skipn 4 (be32 (c18_Provide + c18_Text) ++ z)) with z.
  rewrite Hz, bits_provide_text, (provide_loop_text t data (length z) Ht Hl). reflexivity.
Qed.

(* a Notify|Text message (LibVNCClient sends one before every Provide) changes nothing *)
Lemma ext_notify_ignored : forall vo k, ext vo k (be32 (c18_Notify + c18_Text)) = (k, [], false).
Proof.
  clear zcompress zsync.
  intros vo k. unfold ext_cut_real.
  rewrite <- (app_nil_r (be32 (c18_Notify + c18_Text))).
  rewrite be32_at_0 by (vm_compute; split; [discriminate|reflexivity]). reflexivity.
Qed.

(* ---- LibVNCClient receives what the server provides ---- *)
Lemma lvc_recv_provide : forall xl l data,
  l_utf8 l = true ->
  zinflate (zcompress (be32 (Z.of_nat (length data)) ++ data)) = (be32 (Z.of_nat (length data)) ++ data, ZEnd) ->
  0 < Z.of_nat (length data) <= c18_lvc_ext_size_limit ->
  4 + Z.of_nat (length (zcompress (be32 (Z.of_nat (length data)) ++ data))) <= c18_lvc_cut_limit ->
  lvc_recv zinflate xl l (enc_out zcompress (OProvide (be32 (Z.of_nat (length data)) ++ data)))
  = (l, [GotCutUTF8 data 0], true).
Proof.
  clear zsync.
  intros xl l data Hu Hz Hl Hc. set (size := Z.of_nat (length data)) in *.
  set (content := be32 size ++ data) in *. set (z := zcompress content) in *.
  assert (Hs : 0 <= size < two32) by (unfold two32, c18_lvc_ext_size_limit in *; lia).
  unfold enc_out. fold content. fold z. unfold lvc_recv.
  set (L := 4 + Z.of_nat (length z)) in *.
  assert (HL : 0 < L <= c06_cut_text_limit) by (unfold L, c18_lvc_cut_limit, c06_cut_text_limit in *; lia).
  destruct (neg32_small L HL) as [Hn Hnn].
  change ([c18_rfbServerCutText; 0; 0; 0] ++ be32 (neg32 L) ++ be32 (c18_Provide + c18_Text) ++ z)
    with (c18_rfbServerCutText :: 0 :: 0 :: 0 :: be32 (neg32 L) ++ (be32 (c18_Provide + c18_Text) ++ z)).
  rewrite be32_at_4 by (unfold two31, two32 in *; lia).
  replace (two31 <=? neg32 L) with true by (symmetry; apply Z.leb_le; lia).
  rewrite Hnn. cbn [andb].
  replace ((if xl then c18_lvc_cut_limit + c06_ext_slack else c18_lvc_cut_limit) <? L) with false
    by (symmetry; apply Z.ltb_ge; destruct xl; unfold c06_ext_slack; lia).
  rewrite skipn_8_hdr.
  replace (Z.of_nat (length (be32 (c18_Provide + c18_Text) ++ z)) =? L) with true
    by (symmetry; apply Z.eqb_eq; rewrite app_length; unfold L; cbn [length be32]; lia).
  cbn [negb andb]. rewrite Hu. unfold lvc_ext.
  rewrite be32_at_0 by (vm_compute; split; [discriminate|reflexivity]).
  change (has (c18_Provide + c18_Text) c18_Text) with true.
  change (has (c18_Provide + c18_Text) c18_Provide) with true.
  change (has (c18_Provide + c18_Text) c18_Caps) with false.
  cbn [negb]. change (skipn 4 (be32 (c18_Provide + c18_Text) ++ z)) with z.
  rewrite Hz.
  unfold content. rewrite ztake_lt; [|lia|rewrite app_length; cbn; lia].
  cbn [skipn]. replace (firstn 4 (be32 size ++ data)) with (be32 size ++ []) by (rewrite app_nil_r; reflexivity).
  rewrite (be32_at_0 size [] Hs).
  replace (c18_lvc_ext_size_limit <? size) with false by (symmetry; apply Z.ltb_ge; lia).
  assert (Hnat : Z.to_nat size = length data) by (unfold size; apply Nat2Z.id).
  rewrite ztake_all_end; [|rewrite app_length; cbn; lia].
  change (skipn 4 (be32 size ++ data)) with data.
  replace (Z.of_nat (length data) =? size) with true by (symmetry; apply Z.eqb_eq; reflexivity).
  reflexivity.
Qed.

(* the capability message makes LibVNCClient willing to send UTF-8 text *)
Lemma lvc_recv_caps : forall xl l, l_utf8 l = true ->
  exists l', lvc_recv zinflate xl l (enc_out zcompress OCaps) = (l', [], true) /\ l_caps l' <> 0 /\ l_utf8 l' = true.
Proof.
  clear zsync.
  intros xl l Hu. destruct l as [caps u]. cbn [l_utf8] in Hu. subst u.
  exists (mkLvc (Z.lor caps c18_Text) true).
  split; [destruct xl; reflexivity|]. cbn [l_caps l_utf8]. split; [|reflexivity].
  change (l_caps {| l_caps := caps; l_utf8 := true |}) with caps.
  intro H. assert (Hb : Z.testbit (Z.lor caps c18_Text) 0 = true).
  { rewrite Z.lor_spec. change (Z.testbit c18_Text 0) with true. apply orb_true_r. }
  rewrite H in Hb. discriminate.
Qed.


(* ---- one rfbProcessClientMessage carrying an extended ClientCutText ---- *)
Lemma handle_ext : forall cfg o c b p r,
  c_state c = SNormal -> k_ext (c_clip c) = true ->
  0 < Z.of_nat (length p) <= c06_cut_text_limit ->
  st_bytes (c_in c) = cut_hdr (neg32 (Z.of_nat (length p))) ++ p ++ r ->
  exists j, st_bytes j = r /\ st_eof j = st_eof (c_in c) /\
    handle_client ext cfg o c b =
      (let '(k', texts, close) := ext (c_viewonly c) (c_clip c) p in
       mkApplied (if close then set_closed (set_clip (set_in c j) k') true else set_clip (set_in c j) k') o
                 (map (ev_of_utf8 (c_id c)) texts) false).
Proof.
  clear zcompress zsync.
  intros cfg o c b p r Hst He Hl H. unfold handle_client. rewrite Hst, He. cbn [parse_for].
  destruct (parse_cut_ext (fix_extlimit cfg) (c_in c) p r Hl H) as (j & P & B & E). rewrite P.
  exists j. split; [exact B|]. split; [exact E|].
  unfold apply_msg. replace (c_state (set_in c j)) with SNormal by (destruct c; cbn in *; congruence).
  cbn [apply_normal].
  replace (c_viewonly (set_in c j)) with (c_viewonly c) by (destruct c; reflexivity).
  replace (c_clip (set_in c j)) with (c_clip c) by (destruct c; reflexivity).
  replace (c_id (set_in c j)) with (c_id c) by (destruct c; reflexivity).
  destruct (ext (c_viewonly c) (c_clip c) p) as [[k' texts] close]. reflexivity.
Qed.

(* C18_ext_c2s: what SendClientCutTextUTF8 writes (a Notify, then a Provide with the
   NUL-terminated text in a sync-flushed stream) makes the server call setXCutTextUTF8 exactly
   once with text ++ [0] - provided the COMPRESSED message fits the 1 MiB cut-text limit *)
Lemma ext_c2s : forall cfg o c b1 b2 l text bytes r,
  c_state c = SNormal -> c_closed c = false -> c_viewonly c = false -> k_ext (c_clip c) = true ->
  let content := be32 (Z.of_nat (length text) + 1) ++ text ++ [0] in
  zinflate (zsync content) = (content, ZMore) ->
  Z.of_nat (length text) + 1 <= c18_ext_size_limit ->
  4 + Z.of_nat (length (zsync content)) <= c06_cut_text_limit ->
  lvc_send_utf8 zsync l text = Some bytes ->
  st_bytes (c_in c) = bytes ++ r ->
  let a1 := handle_client ext cfg o c b1 in
  let a2 := handle_client ext cfg (a_owner a1) (a_client a1) b2 in
  a_events a1 = [] /\ a_events a2 = [EvCutUTF8 (c_id c) (text ++ [0]) 0] /\
  c_closed (a_client a2) = false /\ st_bytes (c_in (a_client a2)) = r /\ c_clip (a_client a2) = c_clip c.
Proof.
  clear zcompress.
  intros cfg o c b1 b2 l text bytes r Hst Hcl Hvo He content Hz Hs Hc Hsend Hb.
  unfold lvc_send_utf8 in Hsend. destruct (l_caps l =? 0); [discriminate|].
  fold content in Hsend. inversion Hsend as [Hbytes]. clear Hsend.
  set (z := zsync content) in *.
  set (p2 := be32 (c18_Provide + c18_Text) ++ z) in *.
  assert (Hlen1 : Z.of_nat (length (be32 (c18_Notify + c18_Text))) = 4) by reflexivity.
  assert (Hlen2 : Z.of_nat (length p2) = 4 + Z.of_nat (length z))
    by (unfold p2; rewrite app_length; cbn [length be32]; lia).
  (* first message: Notify *)
  assert (H1 : st_bytes (c_in c) = cut_hdr (neg32 (Z.of_nat (length (be32 (c18_Notify + c18_Text))))) ++
                 be32 (c18_Notify + c18_Text) ++ (cut_hdr (neg32 (Z.of_nat (length p2))) ++ p2 ++ r)).
  { rewrite Hb, <- Hbytes, Hlen1, Hlen2. unfold p2. rewrite <- !app_assoc. reflexivity. }
  destruct (handle_ext cfg o c b1 _ _ Hst He ltac:(rewrite Hlen1; unfold c06_cut_text_limit; lia) H1)
    as (j1 & B1 & E1 & A1).
  cbv zeta. rewrite A1. rewrite ext_notify_ignored. cbn [a_events a_owner a_client map].
  set (c1 := set_clip (set_in c j1) (c_clip c)).
  assert (Hst1 : c_state c1 = SNormal) by (destruct c; cbn in *; congruence).
  assert (He1 : k_ext (c_clip c1) = true) by (destruct c; cbn in *; congruence).
  assert (H2 : st_bytes (c_in c1) = cut_hdr (neg32 (Z.of_nat (length p2))) ++ p2 ++ r)
    by (destruct c; cbn in *; congruence).
  destruct (handle_ext cfg o c1 b2 _ _ Hst1 He1 ltac:(rewrite Hlen2; unfold c06_cut_text_limit in *; lia) H2)
    as (j2 & B2 & E2 & A2).
  rewrite A2.
  replace (c_viewonly c1) with false by (destruct c; cbn in *; congruence).
  assert (Hd : Z.of_nat (length (text ++ [0])) = Z.of_nat (length text) + 1)
    by (rewrite app_length; cbn [length]; lia).
  assert (Hz' : zinflate z = (be32 (Z.of_nat (length (text ++ [0]))) ++ (text ++ [0]), ZMore))
    by (rewrite Hd; exact Hz).
  unfold p2. rewrite (ext_provide_text (c_clip c1) z (text ++ [0]) ZMore Hz' (or_introl eq_refl))
    by (rewrite Hd; lia).
  cbn [a_events a_client map ev_of_utf8].
  replace (c_id c1) with (c_id c) by (destruct c; reflexivity).
  split; [reflexivity|]. split; [reflexivity|].
  destruct c; cbn in *. repeat split; auto.
Qed.

(* ---- requests ---- *)
Lemma ext_request : forall vo k d,
  k_data k = Some d -> d <> [] -> has (k_usercap k) c18_Provide = true ->
  ext vo k (be32 (c18_Request + c18_Text)) =
  (add_out k (OProvide (be32 (Z.of_nat (length d)) ++ d)), [], false).
Proof.
  clear zcompress zsync.
  intros vo k d Hd Hne Hp. unfold ext_cut_real.
  rewrite <- (app_nil_r (be32 (c18_Request + c18_Text))).
  rewrite be32_at_0 by (vm_compute; split; [discriminate|reflexivity]).
  change (has (c18_Request + c18_Text) c18_Caps) with false.
  change (has (c18_Request + c18_Text) c18_Request) with true. cbv iota.
  rewrite Hd, Hp. destruct d; [congruence|]. reflexivity.
Qed.

Lemma ext_peek : forall vo k d,
  k_data k = Some d -> d <> [] -> has (k_usercap k) c18_Notify = true ->
  ext vo k (be32 (c18_Peek + c18_Text)) = (add_out k ONotify, [], false).
Proof.
  clear zcompress zsync.
  intros vo k d Hd Hne Hp. unfold ext_cut_real.
  rewrite <- (app_nil_r (be32 (c18_Peek + c18_Text))).
  rewrite be32_at_0 by (vm_compute; split; [discriminate|reflexivity]).
  change (has (c18_Peek + c18_Text) c18_Caps) with false.
  change (has (c18_Peek + c18_Text) c18_Request) with false.
  change (has (c18_Peek + c18_Text) c18_Peek) with true. cbv iota.
  rewrite Hd, Hp. destruct d; [congruence|]. reflexivity.
Qed.

(* nothing published yet: requests are answered with silence *)
Lemma ext_request_nothing : forall vo k, k_data k = None ->
  ext vo k (be32 (c18_Request + c18_Text)) = (k, [], false) /\
  ext vo k (be32 (c18_Peek + c18_Text)) = (k, [], false).
Proof.
  clear zcompress zsync.
  intros vo k Hd. unfold ext_cut_real. split.
  - rewrite <- (app_nil_r (be32 (c18_Request + c18_Text))).
    rewrite be32_at_0 by (vm_compute; split; [discriminate|reflexivity]).
    change (has (c18_Request + c18_Text) c18_Caps) with false.
    change (has (c18_Request + c18_Text) c18_Request) with true. cbv iota. rewrite Hd. reflexivity.
  - rewrite <- (app_nil_r (be32 (c18_Peek + c18_Text))).
    rewrite be32_at_0 by (vm_compute; split; [discriminate|reflexivity]).
    change (has (c18_Peek + c18_Text) c18_Caps) with false.
    change (has (c18_Peek + c18_Text) c18_Request) with false.
    change (has (c18_Peek + c18_Text) c18_Peek) with true. cbv iota. rewrite Hd. reflexivity.
Qed.

(* ---- capabilities ---- *)
Lemma apply_encodings_ext : forall cfg encs k,
  g_utf8cb cfg = true -> In c06_rfbEncodingExtendedClipboard encs ->
  k_ext (apply_encodings cfg k encs) = true /\
  In OCaps (k_out (apply_encodings cfg k encs)).
Proof.
  clear zinflate zcompress zsync.
  intros cfg encs. induction encs as [|e r IH]; intros k Hu Hin; [destruct Hin|].
  cbn [apply_encodings]. rewrite Hu, andb_true_r.
  assert (Hmono : forall encs k, (k_ext k = true -> k_ext (apply_encodings cfg k encs) = true) /\
                                 (forall m, In m (k_out k) -> In m (k_out (apply_encodings cfg k encs)))).
  { clear. induction encs as [|e r IH]; intros k; cbn [apply_encodings]; [auto|].
    destruct ((e =? c06_rfbEncodingExtendedClipboard) && g_utf8cb cfg).
    - destruct (IH (add_out (set_ext k true) OCaps)) as [I1 I2]. split.
      + intros _. apply I1. reflexivity.
      + intros m Hm. apply I2. cbn. apply in_or_app. left. exact Hm.
    - apply IH. }
  destruct (e =? c06_rfbEncodingExtendedClipboard) eqn:E.
  - destruct (Hmono r (add_out (set_ext k true) OCaps)) as [I1 I2]. split.
    + apply I1. reflexivity.
    + apply I2. cbn. apply in_or_app. right. left. reflexivity.
  - destruct Hin as [Hin|Hin]; [apply Z.eqb_neq in E; congruence|]. apply IH; assumption.
Qed.

Lemma apply_encodings_off : forall cfg encs k, g_utf8cb cfg = false -> apply_encodings cfg k encs = k.
Proof.
  clear zinflate zcompress zsync.
  intros cfg encs. induction encs as [|e r IH]; intros k Hu; cbn [apply_encodings]; [reflexivity|].
  rewrite Hu, andb_false_r. apply IH; exact Hu.
Qed.

(* the client's Caps message: capabilities and the unsolicited-size limit are taken over *)
Lemma ext_caps_text : forall vo k flags p m,
  be32_at p 0 = Some flags -> has flags c18_Caps = true -> has flags c18_Text = true ->
  popcount16 flags <> 0 -> Z.of_nat (length p) = 4 + popcount16 flags * 4 -> be32_at p 4 = Some m ->
  ext vo k p = (set_maxunsol (set_caps k flags) m, [], false).
Proof.
  clear zcompress zsync.
  intros vo k flags p m H0 Hc Ht Hp Hl H4. unfold ext_cut_real. rewrite H0, Hc.
  replace (popcount16 flags =? 0) with false by (symmetry; apply Z.eqb_neq; exact Hp).
  rewrite Hl, Z.eqb_refl, Ht, H4. reflexivity.
Qed.

(* a Caps message without the text format (or with no format at all) switches the extension off *)
Lemma ext_caps_no_text : forall vo k flags p,
  be32_at p 0 = Some flags -> has flags c18_Caps = true -> has flags c18_Text = false ->
  Z.of_nat (length p) = 4 + popcount16 flags * 4 ->
  k_ext (fst (fst (ext vo k p))) = false /\ snd (ext vo k p) = false.
Proof.
  clear zcompress zsync.
  intros vo k flags p H0 Hc Ht Hl. unfold ext_cut_real. rewrite H0, Hc.
  destruct (popcount16 flags =? 0); [split; reflexivity|].
  rewrite Hl, Z.eqb_refl, Ht. split; reflexivity.
Qed.

(* ---- limits and malformed messages: only the sender is closed, nothing is delivered ---- *)
Lemma ext_short_payload : forall vo k p, (length p < 4)%nat -> ext vo k p = (k, [], true).
Proof.
  clear zcompress zsync.
  intros vo k p H. unfold ext_cut_real.
  destruct p as [|a [|b [|c [|d q]]]]; try reflexivity. cbn in H. lia.
Qed.

Lemma ext_provide_too_big : forall k z size rest t,
  zinflate z = (be32 size ++ rest, t) -> rest <> [] ->
  c18_ext_size_limit < size < two32 ->
  ext false k (be32 (c18_Provide + c18_Text) ++ z) = (k, [], true).
Proof.
  clear zcompress zsync.
  intros k z size rest t Hz Hr Hs. unfold ext_cut_real.
  rewrite be32_at_0 by (vm_compute; split; [discriminate|reflexivity]).
  change (has (c18_Provide + c18_Text) c18_Caps) with false.
  change (has (c18_Provide + c18_Text) c18_Request) with false.
  change (has (c18_Provide + c18_Text) c18_Peek) with false.
  change (has (c18_Provide + c18_Text) c18_Provide) with true.
  cbv iota. change (skipn 4 (be32 (c18_Provide + c18_Text) ++ z)) with z.
  rewrite Hz, bits_provide_text. cbn [provide_loop].
  rewrite ztake_lt; [|lia|rewrite app_length; cbn [length be32]; destruct rest; [congruence|cbn; lia]].
  cbn [skipn]. replace (firstn 4 (be32 size ++ rest)) with (be32 size ++ []) by (rewrite app_nil_r; reflexivity).
  rewrite be32_at_0 by (unfold c18_ext_size_limit in *; lia).
  replace (c18_ext_size_limit <? size) with true by (symmetry; apply Z.ltb_lt; lia). reflexivity.
Qed.

Lemma ext_provide_corrupt : forall k z,
  zinflate z = ([], ZErr) ->
  ext false k (be32 (c18_Provide + c18_Text) ++ z) = (k, [], true).
Proof.
  clear zcompress zsync.
  intros k z Hz. unfold ext_cut_real.
  rewrite be32_at_0 by (vm_compute; split; [discriminate|reflexivity]).
  change (has (c18_Provide + c18_Text) c18_Caps) with false.
  change (has (c18_Provide + c18_Text) c18_Request) with false.
  change (has (c18_Provide + c18_Text) c18_Peek) with false.
  change (has (c18_Provide + c18_Text) c18_Provide) with true.
  cbv iota. change (skipn 4 (be32 (c18_Provide + c18_Text) ++ z)) with z.
  rewrite Hz, bits_provide_text. reflexivity.
Qed.

(* the sign-encoded length 0x80000000 (and every other "negative" length whose magnitude
   exceeds 1 MiB) closes the connection before anything is read *)
Lemma parse_cut_ext_too_big : forall (xl : bool) i len0 r,
  two31 <= len0 < two32 -> c06_cut_text_limit + (if xl then c06_ext_slack else 0) < neg32 len0 ->
  st_bytes i = cut_hdr len0 ++ r ->
  parse_normal true xl i = RFail PTooBig.
Proof.
  clear zinflate zcompress zsync.
  intros xl i len0 r Hl Hb H. unfold cut_hdr in H. cbn [app] in H.
  destruct (parse_normal_type true xl i _ _ H) as (j & P & B & E). rewrite P.
  change (parse_body true xl c06_rfbClientCutText) with (parse_cut true xl c06_rfbClientCutText).
  unfold parse_cut.
  change (0 :: 0 :: 0 :: be32 len0 ++ r) with (([0; 0; 0] ++ be32 len0) ++ r) in B.
  destruct (read_rest_app c06_rfbClientCutText c06_sz_ClientCutText j _ _ B eq_refl) as (j' & R & B' & E').
  rewrite (bind_ok _ _ _ _ _ _ _ R).
  replace (be32_at (c06_rfbClientCutText :: [0; 0; 0] ++ be32 len0) c06_off_cut_length) with (Some len0).
  2:{ change c06_off_cut_length with 4. cbn [app]. rewrite <- (app_nil_r (be32 len0)).
      symmetry. apply be32_at_4. unfold two31, two32 in *. lia. }
  cbn [need andb].
  replace (two31 <=? len0) with true by (symmetry; apply Z.leb_le; lia).
  fold (neg32 len0). cbn [andb].
  replace ((if xl then c06_cut_text_limit + c06_ext_slack else c06_cut_text_limit) <? neg32 len0) with true
    by (symmetry; apply Z.ltb_lt; destruct xl; lia).
  reflexivity.
Qed.

(* defect: a Provide whose size field promises more than the stream holds is NOT rejected: the
   callback gets the bytes that exist followed by never-written heap memory *)
Lemma ext_provide_short_stream : forall k z size data t, fs = false ->
  zinflate z = (be32 size ++ data, t) -> t = ZEnd \/ t = ZMore -> data <> [] ->
  Z.of_nat (length data) < size <= c18_ext_size_limit ->
  ext false k (be32 (c18_Provide + c18_Text) ++ z) = (k, [U8 data (size - Z.of_nat (length data))], false).
Proof.
  clear zcompress zsync.
  intros k z size data t Hfs Hz Ht Hd Hs. unfold ext_cut_real. rewrite Hfs.
  rewrite be32_at_0 by (vm_compute; split; [discriminate|reflexivity]).
  change (has (c18_Provide + c18_Text) c18_Caps) with false.
  change (has (c18_Provide + c18_Text) c18_Request) with false.
  change (has (c18_Provide + c18_Text) c18_Peek) with false.
  change (has (c18_Provide + c18_Text) c18_Provide) with true.
  cbv iota. change (skipn 4 (be32 (c18_Provide + c18_Text) ++ z)) with z.
  rewrite Hz, bits_provide_text. cbn [provide_loop].
  assert (Hdl : (0 < length data)%nat) by (destruct data; [congruence|cbn; lia]).
  rewrite ztake_lt; [|lia|rewrite app_length; cbn [length be32]; lia].
  cbn [skipn]. replace (firstn 4 (be32 size ++ data)) with (be32 size ++ []) by (rewrite app_nil_r; reflexivity).
  rewrite be32_at_0 by (unfold two32, c18_ext_size_limit in *; lia).
  replace (c18_ext_size_limit <? size) with false by (symmetry; apply Z.ltb_ge; lia).
  assert (Hsk : skipn (0 + 4) (be32 size ++ data) = data) by reflexivity.
  unfold ztake. rewrite app_length. cbn [length be32].
  replace (Z.to_nat size <? 4 + length data - (0 + 4))%nat with false by (symmetry; apply Nat.ltb_ge; lia).
  rewrite Hsk.
  destruct Ht as [-> | ->].
  - cbn [Nat.eqb andb negb]. rewrite provide_loop_false. reflexivity.
  - replace (0 <? 4 + length data - (0 + 4))%nat with true by (symmetry; apply Nat.ltb_lt; lia).
    cbn [Nat.eqb andb negb]. rewrite provide_loop_false. reflexivity.
Qed.


(* ... with the repair notes/fix_C18_2.diff it is refused like every other malformed stream *)
Lemma ext_provide_short_stream_fixed : forall k z size data t, fs = true ->
  zinflate z = (be32 size ++ data, t) -> t = ZEnd \/ t = ZMore -> data <> [] ->
  Z.of_nat (length data) < size <= c18_ext_size_limit ->
  ext false k (be32 (c18_Provide + c18_Text) ++ z) = (k, [], true).
Proof.
  clear zcompress zsync.
  intros k z size data t Hfs Hz Ht Hd Hs. unfold ext_cut_real.
  rewrite be32_at_0 by (vm_compute; split; [discriminate|reflexivity]).
  change (has (c18_Provide + c18_Text) c18_Caps) with false.
  change (has (c18_Provide + c18_Text) c18_Request) with false.
  change (has (c18_Provide + c18_Text) c18_Peek) with false.
  change (has (c18_Provide + c18_Text) c18_Provide) with true.
  cbv iota. change (skipn 4 (be32 (c18_Provide + c18_Text) ++ z)) with z.
  rewrite Hz, bits_provide_text. cbn [provide_loop].
  assert (Hdl : (0 < length data)%nat) by (destruct data; [congruence|cbn; lia]).
  rewrite ztake_lt; [|lia|rewrite app_length; cbn [length be32]; lia].
  cbn [skipn]. replace (firstn 4 (be32 size ++ data)) with (be32 size ++ []) by (rewrite app_nil_r; reflexivity).
  rewrite be32_at_0 by (unfold two32, c18_ext_size_limit in *; lia).
  replace (c18_ext_size_limit <? size) with false by (symmetry; apply Z.ltb_ge; lia).
  assert (Hsk : skipn (0 + 4) (be32 size ++ data) = data) by reflexivity.
  unfold ztake. rewrite app_length. cbn [length be32].
  replace (Z.to_nat size <? 4 + length data - (0 + 4))%nat with false by (symmetry; apply Nat.ltb_ge; lia).
  rewrite Hsk, Hfs.
  replace (Z.of_nat (length data) <? size) with true by (symmetry; apply Z.ltb_lt; lia).
  destruct Ht as [-> | ->].
  - reflexivity.
  - replace (0 <? 4 + length data - (0 + 4))%nat with true by (symmetry; apply Nat.ltb_lt; lia). reflexivity.
Qed.

End ClipProofs.

(* ---- SetEncodings resets the capability (2d15d75) ---- *)
Lemma apply_encodings_noext : forall cfg encs k,
  ~ In c06_rfbEncodingExtendedClipboard encs ->
  k_ext (apply_encodings cfg k encs) = k_ext k /\ k_out (apply_encodings cfg k encs) = k_out k.
Proof.
  intros cfg encs. induction encs as [|e r IH]; intros k Hn; cbn [apply_encodings]; [auto|].
  destruct (e =? c06_rfbEncodingExtendedClipboard) eqn:E.
  - apply Z.eqb_eq in E. exfalso. apply Hn. left. exact E.
  - cbn [andb]. apply IH. intro H. apply Hn. right. exact H.
Qed.

(* a later SetEncodings without the pseudo-encoding switches the extension off again;
   nothing is written to the client *)
Lemma setenc_resets : forall ext_cut cfg o c encs,
  fix_extreset cfg = true -> ~ In c06_rfbEncodingExtendedClipboard encs ->
  let a := apply_normal ext_cut cfg o c (MSetEncodings encs) in
  k_ext (c_clip (a_client a)) = false /\ k_out (c_clip (a_client a)) = k_out (c_clip c) /\
  a_events a = [] /\ c_closed (a_client a) = c_closed c.
Proof.
  intros ext_cut cfg o c encs F Hn. cbn [apply_normal]. rewrite F.
  destruct (apply_encodings_noext cfg encs (set_ext (c_clip c) false) Hn) as [H1 H2].
  destruct c; cbn in *. rewrite H1, H2. destruct c_clip; cbn. auto.
Qed.

(* ... with the pseudo-encoding it is (re-)enabled and the capabilities are sent again *)
Lemma setenc_enables : forall ext_cut cfg o c encs,
  g_utf8cb cfg = true -> In c06_rfbEncodingExtendedClipboard encs ->
  let a := apply_normal ext_cut cfg o c (MSetEncodings encs) in
  k_ext (c_clip (a_client a)) = true /\ In OCaps (k_out (c_clip (a_client a))).
Proof.
  intros ext_cut cfg o c encs U Hin. cbn [apply_normal].
  destruct (apply_encodings_ext cfg encs (if fix_extreset cfg then set_ext (c_clip c) false else c_clip c) U Hin) as [H1 H2].
  destruct c; cbn in *. auto.
Qed.

(* the legacy behaviour (variant bit 4): the capability survives *)
Lemma setenc_legacy_keeps : forall ext_cut cfg o c encs,
  fix_extreset cfg = false -> ~ In c06_rfbEncodingExtendedClipboard encs ->
  let a := apply_normal ext_cut cfg o c (MSetEncodings encs) in
  k_ext (c_clip (a_client a)) = k_ext (c_clip c).
Proof.
  intros ext_cut cfg o c encs F Hn. cbn [apply_normal]. rewrite F.
  destruct (apply_encodings_noext cfg encs (c_clip c) Hn) as [H1 H2].
  destruct c; cbn in *. exact H1.
Qed.

(* ---- the proposed repair notes/fix_C18_3.diff (variant bit 5): 1 KiB of slack for the
   compressed form of an extended message ---- *)
Lemma neg32_upto : forall n, 0 < n < two31 -> two31 < neg32 n < two32 /\ neg32 (neg32 n) = n.
Proof.
  intros n H. unfold neg32. unfold two31 in H.
  assert (E1 : (two32 - n) mod two32 = two32 - n) by (apply Z.mod_small; unfold two32; lia).
  rewrite E1. replace (two32 - (two32 - n)) with n by ring.
  rewrite Z.mod_small by (unfold two32; lia). unfold two31, two32. lia.
Qed.

Lemma parse_cut_ext_slack : forall i payload r,
  0 < Z.of_nat (length payload) <= c06_cut_text_limit + c06_ext_slack ->
  st_bytes i = cut_hdr (neg32 (Z.of_nat (length payload))) ++ payload ++ r ->
  exists j, parse_normal true true i = ROk (MCutExt payload) j /\ st_bytes j = r /\ st_eof j = st_eof i.
Proof.
  intros i payload r Hl H. unfold cut_hdr in H. cbn [app] in H.
  destruct (parse_normal_type true true i _ _ H) as (j & P & B & E). rewrite P.
  change (parse_body true true c06_rfbClientCutText) with (parse_cut true true c06_rfbClientCutText).
  unfold parse_cut.
  set (len := Z.of_nat (length payload)) in *.
  assert (Hlt : 0 < len < two31) by (unfold two31, c06_cut_text_limit, c06_ext_slack in *; lia).
  destruct (neg32_upto len Hlt) as [Hn Hnn].
  change (0 :: 0 :: 0 :: be32 (neg32 len) ++ payload ++ r) with (([0; 0; 0] ++ be32 (neg32 len)) ++ (payload ++ r)) in B.
  destruct (read_rest_app c06_rfbClientCutText c06_sz_ClientCutText j _ _ B eq_refl) as (j' & R & B' & E').
  rewrite (bind_ok _ _ _ _ _ _ _ R).
  replace (be32_at (c06_rfbClientCutText :: [0; 0; 0] ++ be32 (neg32 len)) c06_off_cut_length) with (Some (neg32 len)).
  2:{ change c06_off_cut_length with 4. cbn [app]. rewrite <- (app_nil_r (be32 (neg32 len))).
      symmetry. apply be32_at_4. unfold two31, two32 in *. lia. }
  cbn [need andb].
  replace (two31 <=? neg32 len) with true by (symmetry; apply Z.leb_le; lia).
  fold (neg32 (neg32 len)). rewrite Hnn. cbn [andb].
  replace (c06_cut_text_limit + c06_ext_slack <? len) with false by (symmetry; apply Z.ltb_ge; lia).
  assert (Hnat : nat_of len = length payload) by (unfold nat_of, len; apply Nat2Z.id).
  destruct (read_exact_app (nat_of len) j' payload r B' (eq_sym Hnat)) as (j'' & R2 & B2 & E2).
  exists j''. rewrite (bind_ok _ _ _ _ _ _ _ R2). unfold ret. split; [reflexivity|]. split; congruence.
Qed.

(* ---- WriteToRFBServer: whatever the kernel does (short writes, EAGAIN any number of times), the
   bytes it is handed are exactly the buffer, in order ---- *)
Lemma lvc_write_complete : forall sched buf acc,
  Forall (fun k => 0 <= k) sched ->
  exists rest, lvc_write sched buf acc = (acc ++ buf, rest, true) /\ Forall (fun k => 0 <= k) rest.
Proof.
  induction sched as [|k r IH]; intros buf acc H.
  - destruct buf as [|b q]; cbn [lvc_write].
    + exists []. rewrite app_nil_r. split; [reflexivity|constructor].
    + exists []. split; [reflexivity|constructor].
  - inversion H as [|? ? Hk Hr]; subst.
    destruct buf as [|b q].
    + cbn [lvc_write]. exists (k :: r). rewrite app_nil_r. split; [reflexivity|exact H].
    + cbn [lvc_write]. destruct (k =? 0) eqn:E0; [apply IH; exact Hr|].
      replace (k <? 0) with false by (symmetry; apply Z.ltb_ge; exact Hk).
      set (n := Nat.min (Z.to_nat k) (length (b :: q))).
      destruct (IH (skipn n (b :: q)) (acc ++ firstn n (b :: q)) Hr) as (rest & E & F).
      exists rest. rewrite E. rewrite <- app_assoc, firstn_skipn. split; [reflexivity|exact F].
Qed.

Lemma lvc_write_all_complete : forall parts sched acc,
  Forall (fun k => 0 <= k) sched ->
  exists rest, lvc_write_all sched parts acc = (acc ++ concat parts, rest, true).
Proof.
  induction parts as [|b r IH]; intros sched acc H; cbn [lvc_write_all concat].
  - exists sched. rewrite app_nil_r. reflexivity.
  - destruct (lvc_write_complete sched b acc H) as (rest & E & F). rewrite E.
    destruct (IH rest (acc ++ b) F) as (rest' & E'). exists rest'. rewrite E', app_assoc. reflexivity.
Qed.

(* an error other than EAGAIN: FALSE, and what was written before is a prefix of the buffer *)
Lemma lvc_write_prefix : forall sched buf acc,
  exists pre suf, fst (fst (lvc_write sched buf acc)) = acc ++ pre /\ buf = pre ++ suf.
Proof.
  induction sched as [|k r IH]; intros buf acc.
  - destruct buf as [|b q]; cbn [lvc_write fst]; [exists [], []|exists (b :: q), []]; rewrite ?app_nil_r; auto.
  - destruct buf as [|b q]; cbn [lvc_write]; [exists [], []; cbn; rewrite app_nil_r; auto|].
    destruct (k =? 0); [apply IH|]. destruct (k <? 0); [exists [], (b :: q); cbn; rewrite app_nil_r; auto|].
    set (n := Nat.min (Z.to_nat k) (length (b :: q))).
    destruct (IH (skipn n (b :: q)) (acc ++ firstn n (b :: q))) as (pre & suf & E1 & E2).
    exists (firstn n (b :: q) ++ pre), suf. rewrite E1, <- !app_assoc. split; [reflexivity|].
    rewrite <- E2. symmetry. apply firstn_skipn.
Qed.

Lemma send_cut_parts_concat : forall text, concat (lvc_send_cut_parts text) = lvc_send_cut text.
Proof. intros. unfold lvc_send_cut_parts, lvc_send_cut. cbn [concat]. rewrite app_nil_r. reflexivity. Qed.

Lemma send_utf8_parts_concat : forall zsync l text,
  option_map (@concat Z) (lvc_send_utf8_parts zsync l text) = lvc_send_utf8 zsync l text.
Proof.
  intros. unfold lvc_send_utf8_parts, lvc_send_utf8. destruct (l_caps l =? 0); [reflexivity|].
  cbn [option_map concat]. rewrite app_nil_r. unfold cut_hdr. rewrite <- !app_assoc. reflexivity.
Qed.
