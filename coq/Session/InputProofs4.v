(* C06 - proofs, part 4: what the parser makes of well-formed input messages, the cut-text
   limit, and exactly-once in-order delivery for a permitted client. *)
From Coq Require Import ZArith List Bool Lia.
From LV Require Import Gen.Consts_C06 Wire.C2SInput Session.InputDefs Session.InputProofs
  Session.InputProofs2 Session.InputProofs3.
Import ListNotations.
Local Open Scope Z_scope.

Ltac Zify.zify_post_hook ::= Z.to_euclidean_division_equations.

Lemma read_exact_app : forall n i a r,
  st_bytes i = a ++ r -> length a = n ->
  exists j, read_exact n i = ROk a j /\ st_bytes j = r /\ st_eof j = st_eof i.
Proof.
  intros n i a r Hb Hl. pose proof (read_exact_spec n i) as H.
  destruct (read_exact n i) as [a0 j|e].
  - destruct H as (_ & Ha & Hs & He). exists j. rewrite Hb in Ha, Hs. subst n.
    rewrite firstn_app, Nat.sub_diag, firstn_all in Ha. cbn in Ha. rewrite app_nil_r in Ha.
    rewrite skipn_app, Nat.sub_diag, skipn_all in Hs. cbn in Hs. subst. auto.
  - destruct H as (H & _). rewrite Hb, app_length in H. lia.
Qed.

Lemma read_exact_short : forall n i, (length (st_bytes i) < n)%nat ->
  read_exact n i = RFail (if st_eof i then PEof else PTimeout).
Proof.
  intros n i Hl. pose proof (read_exact_spec n i) as H.
  destruct (read_exact n i) as [a0 j|e]; [destruct H; lia|]. destruct H as (_ & ->). reflexivity.
Qed.

Lemma bind_ok : forall A B (m : rd A) (k : A -> rd B) i a j, m i = ROk a j -> bind m k i = k a j.
Proof. intros. unfold bind. rewrite H. reflexivity. Qed.

Lemma be32_sum : forall v, 0 <= v < two32 ->
  (v / 16777216) mod 256 * 16777216 + (v / 65536) mod 256 * 65536 + (v / 256) mod 256 * 256 + v mod 256 = v.
Proof. intros v H. unfold two32 in H. lia. Qed.

Lemma be16_sum : forall v, 0 <= v < 65536 -> (v / 256) mod 256 * 256 + v mod 256 = v.
Proof. intros v H. lia. Qed.

Ltac natify := repeat match goal with |- context [Pos.to_nat ?p] =>
  let n := eval vm_compute in (Pos.to_nat p) in change (Pos.to_nat p) with n end; cbn [nth_error].

Lemma byte_at_1 : forall a b l, byte_at (a :: b :: l) 1 = Some b.
Proof. reflexivity. Qed.
Lemma be32_at_4 : forall a b c d v l, 0 <= v < two32 -> be32_at (a :: b :: c :: d :: be32 v ++ l) 4 = Some v.
Proof. intros. unfold be32_at, byte_at, be32. cbn. natify. rewrite be32_sum by assumption. reflexivity. Qed.
Lemma be32_at_0' : forall v l, 0 <= v < two32 -> be32_at (be32 v ++ l) 0 = Some v.
Proof. intros. unfold be32_at, byte_at, be32. cbn. natify. rewrite be32_sum by assumption. reflexivity. Qed.
Lemma be16_at_2 : forall a b v l, 0 <= v < 65536 -> be16_at (a :: b :: be16 v ++ l) 2 = Some v.
Proof. intros. unfold be16_at, byte_at, be16. cbn. natify. rewrite be16_sum by assumption. reflexivity. Qed.
Lemma be16_at_4 : forall a b c d v l, 0 <= v < 65536 -> be16_at (a :: b :: c :: d :: be16 v ++ l) 4 = Some v.
Proof. intros. unfold be16_at, byte_at, be16. cbn. natify. rewrite be16_sum by assumption. reflexivity. Qed.

(* the first byte of a normal message selects the handler *)
Lemma parse_normal_type : forall e xl i t r,
  st_bytes i = t :: r ->
  exists j, parse_normal e xl i = parse_body e xl t j /\ st_bytes j = r /\ st_eof j = st_eof i.
Proof.
  intros e xl i t r H. destruct (read_exact_app 1 i [t] r H eq_refl) as (j & R & B & E).
  exists j. unfold parse_normal. rewrite (bind_ok _ _ _ _ _ _ _ R). cbn. auto.
Qed.

Lemma read_rest_app : forall t sz j body r,
  st_bytes j = body ++ r -> length body = (nat_of sz - 1)%nat ->
  exists j', read_rest t sz j = ROk (t :: body) j' /\ st_bytes j' = r /\ st_eof j' = st_eof j.
Proof.
  intros t sz j body r H L. destruct (read_exact_app _ j body r H L) as (j' & R & B & E).
  exists j'. unfold read_rest. rewrite (bind_ok _ _ _ _ _ _ _ R). cbn. auto.
Qed.

Lemma enc_key_shape : forall d k, enc_key d k = c06_rfbKeyEvent :: ([d; 0; 0] ++ be32 k).
Proof. reflexivity. Qed.
Lemma enc_ptr_shape : forall b x y, enc_ptr b x y = c06_rfbPointerEvent :: ([b] ++ be16 x ++ be16 y).
Proof. reflexivity. Qed.
Lemma enc_cut_shape : forall t,
  enc_cut t = c06_rfbClientCutText :: ([0; 0; 0] ++ be32 (Z.of_nat (length t))) ++ t.
Proof. reflexivity. Qed.

Lemma parse_key : forall e xl i d k r,
  byte_ok d -> 0 <= k < two32 -> st_bytes i = enc_key d k ++ r ->
  exists j, parse_normal e xl i = ROk (MKey d k) j /\ st_bytes j = r /\ st_eof j = st_eof i.
Proof.
  intros e xl i d k r Hd Hk H. rewrite enc_key_shape in H. cbn [app] in H.
  destruct (parse_normal_type e xl i _ _ H) as (j & P & B & E). rewrite P.
  change (parse_body e xl c06_rfbKeyEvent) with
    (bind (read_rest c06_rfbKeyEvent c06_sz_KeyEvent) (fun m =>
      need (byte_at m c06_off_key_down) (fun d =>
      need (be32_at m c06_off_key_key) (fun k => ret (MKey d k))))).
  change (d :: 0 :: 0 :: be32 k ++ r) with (([d; 0; 0] ++ be32 k) ++ r) in B.
  destruct (read_rest_app c06_rfbKeyEvent c06_sz_KeyEvent j ([d; 0; 0] ++ be32 k) r B eq_refl) as (j' & R & B' & E').
  exists j'. rewrite (bind_ok _ _ _ _ _ _ _ R).
  change c06_off_key_down with 1. change c06_off_key_key with 4. cbn [app].
  rewrite byte_at_1. cbn [need].
  rewrite <- (app_nil_r (be32 k)). rewrite (be32_at_4 _ _ _ _ k [] Hk). cbn [need].
  unfold ret. split; [reflexivity|]. split; congruence.
Qed.

Lemma parse_ptr : forall e xl i b x y r,
  byte_ok b -> 0 <= x < 65536 -> 0 <= y < 65536 -> st_bytes i = enc_ptr b x y ++ r ->
  exists j, parse_normal e xl i = ROk (MPtr b x y) j /\ st_bytes j = r /\ st_eof j = st_eof i.
Proof.
  intros e xl i b x y r Hb Hx Hy H. rewrite enc_ptr_shape in H. cbn [app] in H.
  destruct (parse_normal_type e xl i _ _ H) as (j & P & B & E). rewrite P.
  change (parse_body e xl c06_rfbPointerEvent) with
    (bind (read_rest c06_rfbPointerEvent c06_sz_PointerEvent) (fun m =>
      need (byte_at m c06_off_ptr_mask) (fun b =>
      need (be16_at m c06_off_ptr_x) (fun x =>
      need (be16_at m c06_off_ptr_y) (fun y => ret (MPtr b x y)))))).
  change (b :: be16 x ++ be16 y ++ r) with (([b] ++ be16 x ++ be16 y) ++ r) in B.
  destruct (read_rest_app c06_rfbPointerEvent c06_sz_PointerEvent j ([b] ++ be16 x ++ be16 y) r B eq_refl) as (j' & R & B' & E').
  exists j'. rewrite (bind_ok _ _ _ _ _ _ _ R).
  change c06_off_ptr_mask with 1. change c06_off_ptr_x with 2. change c06_off_ptr_y with 4. cbn [app].
  rewrite byte_at_1. cbn [need].
  rewrite (be16_at_2 _ _ x _ Hx). cbn [need].
  assert (Hy' : be16_at (c06_rfbPointerEvent :: b :: be16 x ++ be16 y) 4 = Some y).
  { unfold be16 at 1. cbn [app]. rewrite <- (app_nil_r (be16 y)). apply be16_at_4; assumption. }
  rewrite Hy'. cbn [need].
  unfold ret. split; [reflexivity|]. split; congruence.
Qed.

(* the classic ClientCutText with an acceptable length: every byte, any content *)
Lemma parse_cut_ok : forall e xl i text r,
  Z.of_nat (length text) <= c06_cut_text_limit -> st_bytes i = enc_cut text ++ r ->
  exists j, parse_normal e xl i = ROk (MCutText text) j /\ st_bytes j = r /\ st_eof j = st_eof i.
Proof.
  intros e xl i text r Hl H. rewrite enc_cut_shape in H. cbn [app] in H.
  destruct (parse_normal_type e xl i _ _ H) as (j & P & B & E). rewrite P.
  change (parse_body e xl c06_rfbClientCutText) with (parse_cut e xl c06_rfbClientCutText).
  unfold parse_cut.
  set (len := Z.of_nat (length text)) in *.
  change (0 :: 0 :: 0 :: (be32 len ++ text) ++ r) with (([0; 0; 0] ++ be32 len) ++ (text ++ r)) in B.
  rewrite <- app_assoc in B. cbn [app] in B.
  change (0 :: 0 :: 0 :: be32 len ++ text ++ r) with (([0; 0; 0] ++ be32 len) ++ (text ++ r)) in B.
  destruct (read_rest_app c06_rfbClientCutText c06_sz_ClientCutText j _ _ B eq_refl) as (j' & R & B' & E').
  rewrite (bind_ok _ _ _ _ _ _ _ R).
  assert (Hlen : 0 <= len < two32) by (unfold len, two32, c06_cut_text_limit in *; lia).
  replace (be32_at (c06_rfbClientCutText :: [0; 0; 0] ++ be32 len) c06_off_cut_length) with (Some len).
  2:{ change c06_off_cut_length with 4. cbn [app]. rewrite <- (app_nil_r (be32 len)).
      symmetry. apply be32_at_4. exact Hlen. }
  cbn [need].
  assert (Hext : (e && (two31 <=? len)) = false).
  { destruct e; cbn; auto. apply Z.leb_gt. unfold two31, c06_cut_text_limit in *. lia. }
  rewrite Hext. cbn [andb].
  assert (Hbig : (c06_cut_text_limit <? len) = false) by (apply Z.ltb_ge; lia).
  rewrite Hbig.
  assert (Hn : nat_of len = length text) by (unfold nat_of, len; apply Nat2Z.id).
  destruct (read_exact_app (nat_of len) j' text r B' (eq_sym Hn)) as (j'' & R2 & B2 & E2).
  exists j''. rewrite (bind_ok _ _ _ _ _ _ _ R2). unfold ret. split; [reflexivity|]. split; congruence.
Qed.

(* ... and with a length beyond the limit: refused before a single text byte is read *)
Lemma parse_cut_too_big : forall xl i len r,
  c06_cut_text_limit < len < two32 ->
  st_bytes i = c06_rfbClientCutText :: ([0; 0; 0] ++ be32 len) ++ r ->
  parse_normal false xl i = RFail PTooBig.
Proof.
  intros xl i len r Hl H. cbn [app] in H.
  destruct (parse_normal_type false xl i _ _ H) as (j & P & B & E). rewrite P.
  change (parse_body false xl c06_rfbClientCutText) with (parse_cut false xl c06_rfbClientCutText).
  unfold parse_cut.
  change (0 :: 0 :: 0 :: be32 len ++ r) with (([0; 0; 0] ++ be32 len) ++ r) in B.
  destruct (read_rest_app c06_rfbClientCutText c06_sz_ClientCutText j _ _ B eq_refl) as (j' & R & B' & E').
  rewrite (bind_ok _ _ _ _ _ _ _ R).
  replace (be32_at (c06_rfbClientCutText :: [0; 0; 0] ++ be32 len) c06_off_cut_length) with (Some len).
  2:{ change c06_off_cut_length with 4. cbn [app]. rewrite <- (app_nil_r (be32 len)).
      symmetry. apply be32_at_4. unfold c06_cut_text_limit in *; lia. }
  cbn [need andb].
  assert (Hbig : (c06_cut_text_limit <? len) = true) by (apply Z.ltb_lt; lia).
  rewrite Hbig. reflexivity.
Qed.

(* ------------------------------------------------------------------------------------ *)
(* exactly once, in order *)

(* what a client sends: input messages mixed with fixed-size messages that concern other
   parts of the server (FramebufferUpdateRequest, SetSW, SetServerInput, xvp) *)
Inductive wmsg :=
| WIn (m : input_msg)
| WFixed (t : Z) (body : list Z)
| WSetEnc (encs : list Z)              (* SetEncodings with these encodings *)
| WPixFmt (body : list Z).             (* SetPixelFormat with an acceptable format *)

Definition fixed_kind (t : Z) (n : nat) : Prop :=
  (t = c06_rfbFramebufferUpdateRequest /\ n = (nat_of c06_sz_FramebufferUpdateRequest - 1)%nat) \/
  (t = c06_rfbSetSW /\ n = (nat_of c06_sz_SetSW - 1)%nat) \/
  (t = c06_rfbSetServerInput /\ n = (nat_of c06_sz_SetServerInput - 1)%nat) \/
  (t = c06_rfbXvp /\ n = (nat_of c06_sz_Xvp - 1)%nat).

(* messages that concern other parts of the server and never cause an input callback: the four
   fixed-size ones, TextChat (open / close / finished, or a text of 1..4095 bytes) and
   SetDesktopSize (header + 16 bytes per screen) *)
Definition silent_kind (t : Z) (b : list Z) : Prop :=
  fixed_kind t (length b) \/
  (t = c06_rfbTextChat /\ exists pad len text,
     b = pad ++ be32 len ++ text /\ length pad = 3%nat /\
     ((text = [] /\ (len = c06_rfbTextChatOpen \/ len = c06_rfbTextChatClose \/ len = c06_rfbTextChatFinished)) \/
      (0 < len < c06_rfbTextMaxSize /\ Z.of_nat (length text) = len))) \/
  (t = c06_rfbSetDesktopSize /\ exists hdr screens n,
     b = hdr ++ screens /\ length hdr = 7%nat /\ nth_error hdr 5 = Some n /\ 0 <= n /\
     Z.of_nat (length screens) = n * c06_sz_ExtDesktopScreen).

Definition enc_setenc (encs : list Z) : list Z :=
  [c06_rfbSetEncodings; 0] ++ be16 (Z.of_nat (length encs)) ++ concat (map be32 encs).

Definition wmsg_ok (w : wmsg) : Prop :=
  match w with
  | WIn m => input_ok m
  | WFixed t b => silent_kind t b
  | WSetEnc encs => Z.of_nat (length encs) < 65536 /\ Forall (fun e => 0 <= e < two32) encs
  | WPixFmt b => length b = (nat_of c06_sz_SetPixelFormat - 1)%nat /\
                 exists bpp tc, byte_at (c06_rfbSetPixelFormat :: b) c06_off_spf_bpp = Some bpp /\
                                byte_at (c06_rfbSetPixelFormat :: b) c06_off_spf_truecolour = Some tc /\
                                pixfmt_ok bpp tc = true
  end.

Definition enc_w (w : wmsg) : list Z :=
  match w with
  | WIn m => enc_input m
  | WFixed t b => t :: b
  | WSetEnc encs => enc_setenc encs
  | WPixFmt b => c06_rfbSetPixelFormat :: b
  end.

(* the callbacks the property demands for it, for a client whose scaled view is that of [c] *)
Definition expected (cfg : config) (c : client) (w : wmsg) : list event :=
  match w with
  | WIn (IKey d k) => [EvKey (c_id c) d k]
  | WIn (IPtr b x y) => [ptr_event cfg c b x y]
  | WIn (ICut t) => [EvCut (c_id c) t]
  | WFixed _ _ | WSetEnc _ | WPixFmt _ => []
  end.

Definition cinv (c0 c : client) : Prop :=
  c_id c = c_id c0 /\ c_state c = SNormal /\ c_closed c = false /\ c_viewonly c = false /\
  c_sw c = c_sw c0 /\ c_sh c = c_sh c0 /\ p_lastx (c_ptr c) < 0.

Lemma cinv_set_in : forall c0 c i, cinv c0 c -> cinv c0 (set_in c i).
Proof. intros c0 [] i H. exact H. Qed.

Lemma cinv_set_clip : forall c0 c k, cinv c0 c -> cinv c0 (set_clip c k).
Proof. intros c0 [] k H. exact H. Qed.

Lemma ptr_event_inv : forall cfg c0 c b x y, cinv c0 c -> ptr_event cfg c b x y = ptr_event cfg c0 b x y.
Proof.
  intros cfg c0 c b x y (Hid & _ & _ & _ & Hw & Hh & _). unfold ptr_event, map_pos. rewrite Hid, Hw, Hh. reflexivity.
Qed.

Section Once.
Variable ext_cut : bool -> clipst -> list Z -> clipst * list utf8cb * bool.

Lemma parse_fixed : forall e xl i t b r, fixed_kind t (length b) -> st_bytes i = (t :: b) ++ r ->
  exists m j, parse_normal e xl i = ROk m j /\ st_bytes j = r /\ st_eof j = st_eof i /\
              forall cfg o c, exists k, apply_normal ext_cut cfg o c m = applied_same (set_clip c k) o.
Proof.
  intros e xl i t b r K H. cbn [app] in H.
  destruct (parse_normal_type e xl i _ _ H) as (j & P & B & E). rewrite P.
  destruct K as [[-> L]|[[-> L]|[[-> L]|[-> L]]]].
  - change (parse_body e xl c06_rfbFramebufferUpdateRequest) with
      (bind (read_rest c06_rfbFramebufferUpdateRequest c06_sz_FramebufferUpdateRequest) (fun m => ret (MFUR m))).
    destruct (read_rest_app c06_rfbFramebufferUpdateRequest c06_sz_FramebufferUpdateRequest j b r B L) as (j' & R & B' & E').
    rewrite (bind_ok _ _ _ _ _ _ _ R). eexists _, j'. unfold ret.
    split; [reflexivity|]. split; [exact B'|]. split; [congruence|].
    intros cfg o c. exists (c_clip c). destruct c; reflexivity.
  - change (parse_body e xl c06_rfbSetSW) with
      (bind (read_rest c06_rfbSetSW c06_sz_SetSW) (fun m => ret (MSetSW m))).
    destruct (read_rest_app c06_rfbSetSW c06_sz_SetSW j b r B L) as (j' & R & B' & E').
    rewrite (bind_ok _ _ _ _ _ _ _ R). eexists _, j'. unfold ret.
    split; [reflexivity|]. split; [exact B'|]. split; [congruence|].
    intros cfg o c. exists (c_clip c). destruct c; reflexivity.
  - change (parse_body e xl c06_rfbSetServerInput) with
      (bind (read_rest c06_rfbSetServerInput c06_sz_SetServerInput) (fun m => ret (MSetServerInput m))).
    destruct (read_rest_app c06_rfbSetServerInput c06_sz_SetServerInput j b r B L) as (j' & R & B' & E').
    rewrite (bind_ok _ _ _ _ _ _ _ R). eexists _, j'. unfold ret.
    split; [reflexivity|]. split; [exact B'|]. split; [congruence|].
    intros cfg o c. exists (c_clip c). destruct c; reflexivity.
  - change (parse_body e xl c06_rfbXvp) with
      (bind (read_rest c06_rfbXvp c06_sz_Xvp) (fun m => ret (MXvp m))).
    destruct (read_rest_app c06_rfbXvp c06_sz_Xvp j b r B L) as (j' & R & B' & E').
    rewrite (bind_ok _ _ _ _ _ _ _ R). eexists _, j'. unfold ret.
    split; [reflexivity|]. split; [exact B'|]. split; [congruence|].
    intros cfg o c. exists (c_clip c). destruct c; reflexivity.
Qed.

Lemma parse_silent : forall e xl i t b r, silent_kind t b -> st_bytes i = (t :: b) ++ r ->
  exists m j, parse_normal e xl i = ROk m j /\ st_bytes j = r /\ st_eof j = st_eof i /\
              forall cfg o c, exists k, apply_normal ext_cut cfg o c m = applied_same (set_clip c k) o.
Proof.
  intros e xl i t b r [K|[K|K]] H; [exact (parse_fixed e xl i t b r K H)| |].
  - destruct K as (Ht & pad & len & text & Hbb & Lp & Kt). subst t b.
    destruct pad as [|p1 [|p2 [|p3 [|]]]]; try discriminate. cbn [app] in H.
    destruct (parse_normal_type e xl i _ _ H) as (j & P & B & E). rewrite P.
    change (parse_body e xl c06_rfbTextChat) with (parse_textchat c06_rfbTextChat). unfold parse_textchat.
    assert (B0 : st_bytes j = ([p1; p2; p3] ++ be32 len) ++ (text ++ r))
      by (rewrite B; cbn [app]; rewrite <- app_assoc; reflexivity).
    destruct (read_rest_app c06_rfbTextChat c06_sz_TextChat j _ _ B0 eq_refl) as (j' & R & B' & E').
    rewrite (bind_ok _ _ _ _ _ _ _ R).
    assert (Hlen : 0 <= len < two32).
    { unfold two32. destruct Kt as [(_ & Kl)|(Hr & _)].
      - unfold c06_rfbTextChatOpen, c06_rfbTextChatClose, c06_rfbTextChatFinished in Kl. lia.
      - unfold c06_rfbTextMaxSize in Hr. lia. }
    change c06_off_tc_length with 4. cbn [app].
    rewrite <- (app_nil_r (be32 len)). rewrite (be32_at_4 _ _ _ _ len [] Hlen). cbn [need].
    destruct Kt as [(Htx & Kl)|(Hr & Hl)]; [subst text|].
    + replace ((len =? c06_rfbTextChatOpen) || (len =? c06_rfbTextChatClose) || (len =? c06_rfbTextChatFinished)) with true
        by (destruct Kl as [ -> | [ -> | -> ] ]; reflexivity).
      eexists _, j'. unfold ret. split; [reflexivity|]. split; [exact B'|]. split; [congruence|].
      intros cfg o c. exists (c_clip c). destruct c; reflexivity.
    + replace ((len =? c06_rfbTextChatOpen) || (len =? c06_rfbTextChatClose) || (len =? c06_rfbTextChatFinished)) with false.
      2:{ symmetry. unfold c06_rfbTextMaxSize, c06_rfbTextChatOpen, c06_rfbTextChatClose, c06_rfbTextChatFinished in *.
          repeat (apply orb_false_iff; split); apply Z.eqb_neq; lia. }
      replace ((0 <? len) && (len <? c06_rfbTextMaxSize)) with true
        by (symmetry; apply andb_true_iff; split; apply Z.ltb_lt; lia).
      assert (Hnat : nat_of len = length text) by (unfold nat_of; rewrite <- Hl; apply Nat2Z.id).
      destruct (read_exact_app (nat_of len) j' text r B' (eq_sym Hnat)) as (j'' & R2 & B2 & E2).
      rewrite (bind_ok _ _ _ _ _ _ _ R2). eexists _, j''. unfold ret.
      split; [reflexivity|]. split; [exact B2|]. split; [congruence|].
      intros cfg o c. exists (c_clip c). destruct c; reflexivity.
  - destruct K as (Ht & hdr & screens & n & Hbb & Lh & Hn & Hn0 & Hl). subst t b.
    destruct hdr as [|h1 [|h2 [|h3 [|h4 [|h5 [|h6 [|h7 [|]]]]]]]]; try discriminate.
    cbn [nth_error] in Hn. inversion Hn; subst h6. cbn [app] in H.
    destruct (parse_normal_type e xl i _ _ H) as (j & P & B & E). rewrite P.
    change (parse_body e xl c06_rfbSetDesktopSize) with
      (bind (read_rest c06_rfbSetDesktopSize c06_sz_SetDesktopSize) (fun m =>
       need (byte_at m c06_off_sdm_nscreens) (fun n =>
         if n =? 0 then ret (MSetDesktopSize m [])
         else bind (read_exact (nat_of (n * c06_sz_ExtDesktopScreen))) (fun s => ret (MSetDesktopSize m s))))).
    assert (B0 : st_bytes j = [h1; h2; h3; h4; h5; n; h7] ++ (screens ++ r)) by (rewrite B; reflexivity).
    destruct (read_rest_app c06_rfbSetDesktopSize c06_sz_SetDesktopSize j _ _ B0 eq_refl) as (j' & R & B' & E').
    rewrite (bind_ok _ _ _ _ _ _ _ R).
    change (byte_at (c06_rfbSetDesktopSize :: [h1; h2; h3; h4; h5; n; h7]) c06_off_sdm_nscreens) with (Some n).
    cbn [need].
    destruct (n =? 0) eqn:E0.
    + apply Z.eqb_eq in E0. subst n. destruct screens; [|cbn in Hl; lia]. cbn [app] in B'.
      eexists _, j'. unfold ret. split; [reflexivity|]. split; [exact B'|]. split; [congruence|].
      intros cfg o c. exists (c_clip c). destruct c; reflexivity.
    + assert (Hnat : nat_of (n * c06_sz_ExtDesktopScreen) = length screens)
        by (unfold nat_of; rewrite <- Hl; apply Nat2Z.id).
      destruct (read_exact_app _ j' screens r B' (eq_sym Hnat)) as (j'' & R2 & B2 & E2).
      rewrite (bind_ok _ _ _ _ _ _ _ R2). eexists _, j''. unfold ret.
      split; [reflexivity|]. split; [exact B2|]. split; [congruence|].
      intros cfg o c. exists (c_clip c). destruct c; reflexivity.
Qed.

Lemma read_words_spec : forall encs acc i r,
  Forall (fun e => 0 <= e < two32) encs ->
  st_bytes i = concat (map be32 encs) ++ r ->
  exists j, read_words (length encs) acc i = ROk (rev acc ++ encs) j /\ st_bytes j = r /\ st_eof j = st_eof i.
Proof.
  induction encs as [|e q IH]; intros acc i r Hf H; cbn [length read_words map concat] in *.
  - exists i. unfold ret. rewrite app_nil_r. auto.
  - inversion Hf as [|? ? He Hq]; subst. rewrite <- app_assoc in H.
    destruct (read_exact_app 4 i (be32 e) _ H eq_refl) as (j & R & B & E).
    rewrite (bind_ok _ _ _ _ _ _ _ R).
    rewrite <- (app_nil_r (be32 e)). rewrite (be32_at_0' e [] He). cbn [need].
    destruct (IH (e :: acc) j r Hq B) as (j' & R' & B' & E').
    exists j'. rewrite R'. cbn [rev]. rewrite <- app_assoc. cbn [app]. split; [reflexivity|]. split; congruence.
Qed.

Lemma parse_setenc : forall e xl i encs r,
  Z.of_nat (length encs) < 65536 -> Forall (fun x => 0 <= x < two32) encs ->
  st_bytes i = enc_setenc encs ++ r ->
  exists j, parse_normal e xl i = ROk (MSetEncodings encs) j /\ st_bytes j = r /\ st_eof j = st_eof i.
Proof.
  intros e xl i encs r Hn Hf H. unfold enc_setenc in H. cbn [app] in H.
  destruct (parse_normal_type e xl i _ _ H) as (j & P & B & E). rewrite P.
  change (parse_body e xl c06_rfbSetEncodings) with
    (bind (read_rest c06_rfbSetEncodings c06_sz_SetEncodings) (fun m =>
      need (be16_at m c06_off_se_n) (fun n =>
      bind (read_words (nat_of n) []) (fun encs => ret (MSetEncodings encs))))).
  set (n := Z.of_nat (length encs)) in *.
  assert (B0 : st_bytes j = ([0] ++ be16 n) ++ (concat (map be32 encs) ++ r))
    by (rewrite B; cbn [app]; rewrite <- app_assoc; reflexivity).
  destruct (read_rest_app c06_rfbSetEncodings c06_sz_SetEncodings j ([0] ++ be16 n) _ B0 eq_refl) as (j' & R & B' & E').
  rewrite (bind_ok _ _ _ _ _ _ _ R).
  change c06_off_se_n with 2. cbn [app].
  rewrite <- (app_nil_r (be16 n)). rewrite (be16_at_2 _ _ n [] ltac:(unfold n; lia)). cbn [need].
  replace (nat_of n) with (length encs) by (unfold nat_of, n; symmetry; apply Nat2Z.id).
  destruct (read_words_spec encs [] j' r Hf B') as (j'' & R2 & B2 & E2).
  exists j''. rewrite (bind_ok _ _ _ _ _ _ _ R2). unfold ret. cbn [rev app].
  split; [reflexivity|]. split; congruence.
Qed.

Lemma parse_pixfmt : forall e xl i b r,
  length b = (nat_of c06_sz_SetPixelFormat - 1)%nat ->
  st_bytes i = (c06_rfbSetPixelFormat :: b) ++ r ->
  exists j, parse_normal e xl i = ROk (MSetPixFmt (c06_rfbSetPixelFormat :: b)) j /\ st_bytes j = r /\ st_eof j = st_eof i.
Proof.
  intros e xl i b r L H. cbn [app] in H.
  destruct (parse_normal_type e xl i _ _ H) as (j & P & B & E). rewrite P.
  change (parse_body e xl c06_rfbSetPixelFormat) with
    (bind (read_rest c06_rfbSetPixelFormat c06_sz_SetPixelFormat) (fun m => ret (MSetPixFmt m))).
  destruct (read_rest_app c06_rfbSetPixelFormat c06_sz_SetPixelFormat j b r B L) as (j' & R & B' & E').
  rewrite (bind_ok _ _ _ _ _ _ _ R). exists j'. unfold ret. split; [reflexivity|]. split; congruence.
Qed.

(* one rfbProcessClientMessage of a permitted client whose stream starts with [w] *)
Lemma handle_client_w : forall cfg o c0 c b w r,
  cinv c0 c -> ptr_allowed o (c_id c0) = true -> g_deferptr cfg = 0 -> wmsg_ok w ->
  st_bytes (c_in c) = enc_w w ++ r ->
  let a := handle_client ext_cut cfg o c b in
  cinv c0 (a_client a) /\ st_bytes (c_in (a_client a)) = r /\ st_eof (c_in (a_client a)) = st_eof (c_in c) /\
  a_events a = expected cfg c0 w /\ a_close_others a = false /\ ptr_allowed (a_owner a) (c_id c0) = true.
Proof.
  intros cfg o c0 c b w r I A D K H. pose proof I as (Hid & Hst & Hcl & Hvo & Hw & Hh & Hlx).
  unfold handle_client. rewrite Hst. cbn [parse_for].
  destruct w as [[d k|bm x y|t]|t body|encs|pb]; cbn [enc_w enc_input wmsg_ok input_ok expected] in *.
  - destruct K as [Kd Kk].
    destruct (parse_key (k_ext (c_clip c)) (fix_extlimit cfg) (c_in c) d k r Kd Kk H) as (j & P & B & E). rewrite P.
    unfold apply_msg. replace (c_state (set_in c j)) with SNormal by (destruct c; cbn in *; congruence).
    cbn [apply_normal]. replace (c_viewonly (set_in c j)) with false by (destruct c; cbn in *; congruence).
    cbn [a_client a_events a_close_others a_owner]. rewrite c_in_set_in.
    replace (c_id (set_in c j)) with (c_id c0) by (destruct c; cbn in *; congruence).
    split; [apply cinv_set_in; exact I|repeat split; auto].
  - destruct K as (Kb & Kx & Ky).
    destruct (parse_ptr (k_ext (c_clip c)) (fix_extlimit cfg) (c_in c) bm x y r Kb Kx Ky H) as (j & P & B & E). rewrite P.
    unfold apply_msg. replace (c_state (set_in c j)) with SNormal by (destruct c; cbn in *; congruence).
    cbn [apply_normal].
    replace (c_id (set_in c j)) with (c_id c0) by (destruct c; cbn in *; congruence).
    rewrite A. cbn [negb].
    replace (c_viewonly (set_in c j)) with false by (destruct c; cbn in *; congruence).
    rewrite D. cbn [Z.eqb]. rewrite orb_true_r.
    cbn [a_client a_events a_close_others a_owner].
    rewrite (ptr_event_inv cfg c0 (set_in c j) bm x y (cinv_set_in _ _ _ I)).
    repeat split; auto.
    all: try (destruct c; cbn in *; first [lia | congruence]).
    all: try (destruct (bm =? 0); cbn; auto; apply Z.eqb_refl).
    destruct (fix_defer cfg); destruct c; cbn in *; lia.
  - destruct K as [Kt Kl].
    destruct (parse_cut_ok (k_ext (c_clip c)) (fix_extlimit cfg) (c_in c) t r Kl H) as (j & P & B & E). rewrite P.
    unfold apply_msg. replace (c_state (set_in c j)) with SNormal by (destruct c; cbn in *; congruence).
    cbn [apply_normal]. replace (c_viewonly (set_in c j)) with false by (destruct c; cbn in *; congruence).
    cbn [a_client a_events a_close_others a_owner]. rewrite c_in_set_in.
    replace (c_id (set_in c j)) with (c_id c0) by (destruct c; cbn in *; congruence).
    split; [apply cinv_set_in; exact I|repeat split; auto].
  - destruct (parse_silent (k_ext (c_clip c)) (fix_extlimit cfg) (c_in c) t body r K H) as (m & j & P & B & E & Ap). rewrite P.
    unfold apply_msg. replace (c_state (set_in c j)) with SNormal by (destruct c; cbn in *; congruence).
    destruct (Ap cfg o (set_in c j)) as (k & Ak). rewrite Ak.
    cbn [applied_same a_client a_events a_close_others a_owner].
    replace (c_in (set_clip (set_in c j) k)) with j by (destruct c; reflexivity).
    split; [apply cinv_set_clip; apply cinv_set_in; exact I|repeat split; auto].
  - destruct K as [Kn Kf].
    destruct (parse_setenc (k_ext (c_clip c)) (fix_extlimit cfg) (c_in c) encs r Kn Kf H) as (j & P & B & E). rewrite P.
    unfold apply_msg. replace (c_state (set_in c j)) with SNormal by (destruct c; cbn in *; congruence).
    cbn [apply_normal applied_same a_client a_events a_close_others a_owner].
    split; [apply cinv_set_clip; apply cinv_set_in; exact I|].
    replace (c_in (set_clip (set_in c j) (apply_encodings cfg (c_clip (set_in c j)) encs))) with j by (destruct c; reflexivity).
    repeat split; auto.
  - destruct K as (Kl & bpp & tc & Kb & Kt & Kok).
    destruct (parse_pixfmt (k_ext (c_clip c)) (fix_extlimit cfg) (c_in c) pb r Kl H) as (j & P & B & E). rewrite P.
    unfold apply_msg. replace (c_state (set_in c j)) with SNormal by (destruct c; cbn in *; congruence).
    cbn [apply_normal]. rewrite Kb, Kt, Kok.
    cbn [applied_same a_client a_events a_close_others a_owner]. rewrite c_in_set_in.
    split; [apply cinv_set_in; exact I|repeat split; auto].
Qed.

Lemma enc_w_cons : forall w, exists t r, enc_w w = t :: r.
Proof.
  intros [[d k|b x y|t]|t b|encs|b]; cbn [enc_w enc_input].
  - rewrite enc_key_shape. eauto.
  - rewrite enc_ptr_shape. eauto.
  - rewrite enc_cut_shape. eauto.
  - eauto.
  - unfold enc_setenc. cbn [app]. eauto.
  - eauto.
Qed.

(* a server whose only connection is [c] *)
Lemma process_single_msg : forall s c0 c w r,
  s_clients s = [c] -> cinv c0 c -> ptr_allowed (s_owner s) (c_id c0) = true ->
  g_deferptr (s_cfg s) = 0 -> wmsg_ok w ->
  st_bytes (c_in c) = enc_w w ++ r -> st_eof (c_in c) = false ->
  exists c' o',
    process ext_cut s = (mkSrv (s_cfg s) [c'] o' (s_now s), expected (s_cfg s) c0 w) /\
    cinv c0 c' /\ st_bytes (c_in c') = r /\ st_eof (c_in c') = false /\
    ptr_allowed o' (c_id c0) = true.
Proof.
  intros s c0 c w r Hs I A D K H Ef. pose proof I as (Hid & Hst & Hcl & Hvo & Hw & Hh & Hlx).
  unfold process. rewrite Hs. cbn [wake_all]. rewrite Hcl.
  destruct (wake_spec (c_in c)) as [[Wb We] Wr].
  destruct (wake (c_in c)) as [i' rdy]. cbn [fst snd] in *.
  assert (Hrdy : rdy = true).
  { rewrite Wr. unfold readable. rewrite H. destruct (enc_w_cons w) as (t & q & ->). reflexivity. }
  rewrite Hrdy. clear Wr Hrdy.
  set (c1 := set_in c i').
  assert (I1 : cinv c0 c1) by (apply cinv_set_in; exact I).
  cbn [handle_all]. unfold handle. cbn [s_clients s_cfg s_owner s_now find_client].
  replace (c_id c1) with (c_id c) by (destruct c; reflexivity).
  rewrite Z.eqb_refl.
  replace (c_closed c1) with false by (destruct c; cbn in *; congruence).
  assert (H1 : st_bytes (c_in c1) = enc_w w ++ r) by (unfold c1; rewrite c_in_set_in; congruence).
  pose proof (handle_client_w (s_cfg s) (s_owner s) c0 c1
               (others_normal_of [c1] (c_id c)) w r I1 A D K H1) as (J & Jb & Je & Jev & Jco & Jo).
  set (a := handle_client ext_cut (s_cfg s) (s_owner s) c1 (others_normal_of [c1] (c_id c))) in *.
  rewrite Jco. cbn [put_client].
  replace (c_id c1) with (c_id c) by (destruct c; reflexivity).
  destruct J as (Jid & Jst & Jcl & Jvo & Jw & Jh & Jlx).
  replace (c_id c =? c_id (a_client a)) with true by (symmetry; apply Z.eqb_eq; congruence).
  cbn [flush_all s_clients s_cfg s_now s_owner flush_ptr].
  unfold flush_ptr. rewrite Jvo. cbn [negb andb].
  replace (0 <=? p_lastx (c_ptr (a_client a))) with false by (symmetry; apply Z.leb_gt; lia).
  cbn [reap filter]. unfold reap. cbn [filter existsb]. rewrite Jcl. cbn [negb andb orb].
  exists (a_client a), (a_owner a). rewrite Jev, !app_nil_r.
  split.
  - f_equal. f_equal. destruct (a_owner a) as [h|]; [|reflexivity]. rewrite andb_false_r. reflexivity.
  - repeat split; auto. rewrite Je. unfold c1. rewrite c_in_set_in. congruence.
Qed.

Lemma process_single_idle : forall s c0 c,
  s_clients s = [c] -> cinv c0 c -> st_bytes (c_in c) = [] -> st_eof (c_in c) = false ->
  exists c', process ext_cut s = (mkSrv (s_cfg s) [c'] (s_owner s) (s_now s), []) /\
             cinv c0 c' /\ st_bytes (c_in c') = [] /\ st_eof (c_in c') = false.
Proof.
  intros s c0 c Hs I Hb Ef. pose proof I as (Hid & Hst & Hcl & Hvo & Hw & Hh & Hlx).
  unfold process. rewrite Hs. cbn [wake_all]. rewrite Hcl.
  destruct (wake_spec (c_in c)) as [[Wb We] Wr].
  destruct (wake (c_in c)) as [i' rdy]. cbn [fst snd] in *.
  assert (Hrdy : rdy = false) by (rewrite Wr; unfold readable; rewrite Hb; exact Ef).
  rewrite Hrdy. clear Wr Hrdy. cbn [handle_all flush_all s_clients s_cfg s_now s_owner].
  set (c1 := set_in c i').
  assert (I1 : cinv c0 c1) by (apply cinv_set_in; exact I).
  destruct I1 as (Jid & Jst & Jcl & Jvo & Jw & Jh & Jlx).
  unfold flush_ptr. rewrite Jvo. cbn [negb andb].
  replace (0 <=? p_lastx (c_ptr c1)) with false by (symmetry; apply Z.leb_gt; lia).
  unfold reap. cbn [filter existsb]. rewrite Jcl. cbn [negb andb orb app].
  exists c1. split.
  - f_equal. f_equal. destruct (s_owner s) as [h|]; [|reflexivity]. rewrite andb_false_r. reflexivity.
  - split; [repeat split; auto|]. unfold c1. rewrite c_in_set_in. split; congruence.
Qed.

Fixpoint processes (n : nat) : list op := match n with O => [] | S k => OProcess :: processes k end.

Lemma once_in_order_single : forall msgs n s c0 c,
  s_clients s = [c] -> cinv c0 c -> ptr_allowed (s_owner s) (c_id c0) = true ->
  g_deferptr (s_cfg s) = 0 -> Forall wmsg_ok msgs ->
  st_bytes (c_in c) = concat (map enc_w msgs) -> st_eof (c_in c) = false ->
  (length msgs <= n)%nat ->
  snd (run ext_cut s (processes n)) = concat (map (expected (s_cfg s) c0) msgs).
Proof.
  induction msgs as [|w msgs IH]; intros n s c0 c Hs I A D K Hb Ef Hn.
  - (* nothing pending: every further pass is idle *)
    cbn [map concat] in *. clear Hn D K. revert s c Hs I A Hb Ef.
    induction n as [|n IHn]; intros s c Hs I A Hb Ef; cbn [processes run]; [reflexivity|].
    cbn [step]. destruct (process_single_idle s c0 c Hs I Hb Ef) as (c' & P & I' & B' & E').
    rewrite P.
    specialize (IHn (mkSrv (s_cfg s) [c'] (s_owner s) (s_now s)) c' eq_refl I' A B' E').
    destruct (run ext_cut (mkSrv (s_cfg s) [c'] (s_owner s) (s_now s)) (processes n)) as [s2 e2].
    cbn [snd] in *. exact IHn.
  - destruct n as [|n]; [cbn in Hn; lia|]. cbn [processes run step].
    inversion K as [|? ? Kw Kr]; subst. cbn [map concat] in Hb.
    destruct (process_single_msg s c0 c w _ Hs I A D Kw Hb Ef) as (c' & o' & P & I' & B' & E' & A').
    rewrite P.
    specialize (IH n (mkSrv (s_cfg s) [c'] o' (s_now s)) c0 c' eq_refl I' A' D Kr B' E').
    cbn [s_cfg] in IH.
    destruct (run ext_cut (mkSrv (s_cfg s) [c'] o' (s_now s)) (processes n)) as [s2 e2].
    cbn [snd] in *. cbn [map concat]. rewrite IH; [reflexivity|cbn in Hn; lia].
Qed.

End Once.

(* ------------------------------------------------------------------------------------ *)
(* the cut-text limit at the level of one rfbProcessClientMessage *)
Section Limit.
Variable ext_cut : bool -> clipst -> list Z -> clipst * list utf8cb * bool.

Lemma parse_cut_too_big_e : forall e xl i len r,
  c06_cut_text_limit < len < two32 -> (e = false \/ len < two31) ->
  st_bytes i = c06_rfbClientCutText :: ([0; 0; 0] ++ be32 len) ++ r ->
  parse_normal e xl i = RFail PTooBig.
Proof.
  intros e xl i len r Hl He H. cbn [app] in H.
  destruct (parse_normal_type e xl i _ _ H) as (j & P & B & E). rewrite P.
  change (parse_body e xl c06_rfbClientCutText) with (parse_cut e xl c06_rfbClientCutText).
  unfold parse_cut.
  change (0 :: 0 :: 0 :: be32 len ++ r) with (([0; 0; 0] ++ be32 len) ++ r) in B.
  destruct (read_rest_app c06_rfbClientCutText c06_sz_ClientCutText j _ _ B eq_refl) as (j' & R & B' & E').
  rewrite (bind_ok _ _ _ _ _ _ _ R).
  replace (be32_at (c06_rfbClientCutText :: [0; 0; 0] ++ be32 len) c06_off_cut_length) with (Some len).
  2:{ change c06_off_cut_length with 4. cbn [app]. rewrite <- (app_nil_r (be32 len)).
      symmetry. apply be32_at_4. unfold c06_cut_text_limit in *; lia. }
  cbn [need].
  assert (Hext : (e && (two31 <=? len)) = false).
  { destruct He as [->|He]; [reflexivity|]. destruct e; cbn; auto. apply Z.leb_gt. exact He. }
  rewrite Hext. cbn [andb].
  assert (Hbig : (c06_cut_text_limit <? len) = true) by (apply Z.ltb_lt; lia).
  rewrite Hbig. reflexivity.
Qed.

(* a text of exactly the limit (or shorter) is delivered whole; nothing else happens *)
Lemma cut_limit_accept : forall cfg o c b text r,
  c_state c = SNormal -> c_viewonly c = false ->
  Z.of_nat (length text) <= c06_cut_text_limit ->
  st_bytes (c_in c) = enc_cut text ++ r ->
  let a := handle_client ext_cut cfg o c b in
  a_events a = [EvCut (c_id c) text] /\ c_closed (a_client a) = c_closed c /\
  st_bytes (c_in (a_client a)) = r /\ a_owner a = o.
Proof.
  intros cfg o c b text r Hst Hvo Hl H. unfold handle_client. rewrite Hst. cbn [parse_for].
  destruct (parse_cut_ok (k_ext (c_clip c)) (fix_extlimit cfg) (c_in c) text r Hl H) as (j & P & B & E). rewrite P.
  unfold apply_msg. replace (c_state (set_in c j)) with SNormal by (destruct c; cbn in *; congruence).
  cbn [apply_normal]. replace (c_viewonly (set_in c j)) with false by (destruct c; cbn in *; congruence).
  cbn [a_client a_events a_owner]. rewrite c_in_set_in. destruct c; cbn in *. auto.
Qed.

(* one byte more: the connection is closed, no callback, whatever follows in the stream *)
Lemma cut_limit_reject : forall cfg o c b len r,
  c_state c = SNormal ->
  c06_cut_text_limit < len < two32 -> (k_ext (c_clip c) = false \/ len < two31) ->
  st_bytes (c_in c) = c06_rfbClientCutText :: ([0; 0; 0] ++ be32 len) ++ r ->
  let a := handle_client ext_cut cfg o c b in
  a_events a = [] /\ c_closed (a_client a) = true /\ a_owner a = o /\ a_close_others a = false.
Proof.
  intros cfg o c b len r Hst Hl He H. unfold handle_client. rewrite Hst. cbn [parse_for].
  rewrite (parse_cut_too_big_e _ _ _ len r Hl He H). unfold applied_close. cbn. destruct c; auto.
Qed.

End Limit.

(* ------------------------------------------------------------------------------------ *)
(* pointer positions: unscaled clients get their coordinates unchanged; scaled clients get
   the binary64 result, which is the exact quotient or one less (swept for the stated range) *)

Lemma map_pos_unscaled : forall cfg c x y,
  c_sw c = g_w cfg -> c_sh c = g_h cfg -> map_pos cfg c x y = Some (x, y).
Proof. intros cfg c x y Hw Hh. unfold map_pos. rewrite Hw, Hh, !Z.eqb_refl. reflexivity. Qed.

Definition scale_close (fw n x : Z) : bool :=
  match scale_d x fw (fw * n) with
  | Some v => let q := (x * (fw * n)) / fw in (v =? q) || (v =? q - 1)
  | None => false
  end.

Definition zrange (lo hi : Z) : list Z := map (fun k => lo + Z.of_nat k) (List.seq 0 (Z.to_nat (hi - lo))).

Lemma zrange_in : forall lo hi z, lo <= z < hi -> In z (zrange lo hi).
Proof.
  intros lo hi z H. unfold zrange. apply in_map_iff. exists (Z.to_nat (z - lo)). split; [lia|].
  apply in_seq. lia.
Qed.

Definition scale_sweep (maxfw maxn : Z) : bool :=
  forallb (fun fw => forallb (fun n => forallb (fun x => scale_close fw n x) (zrange 0 fw)) (zrange 1 (maxn + 1)))
          (zrange 1 (maxfw + 1)).

Lemma scale_sweep_sound : forall maxfw maxn, scale_sweep maxfw maxn = true ->
  forall fw n x, 1 <= fw <= maxfw -> 1 <= n <= maxn -> 0 <= x < fw -> scale_close fw n x = true.
Proof.
  intros maxfw maxn S fw n x Hf Hn Hx. unfold scale_sweep in S.
  rewrite forallb_forall in S.
  assert (I1 : In fw (zrange 1 (maxfw + 1))) by (apply zrange_in; lia).
  specialize (S fw I1). rewrite forallb_forall in S.
  assert (I2 : In n (zrange 1 (maxn + 1))) by (apply zrange_in; lia).
  specialize (S n I2). rewrite forallb_forall in S.
  apply S. apply zrange_in; lia.
Qed.

Lemma scale_close_sound : forall fw n x, 1 <= fw -> scale_close fw n x = true ->
  exists v, scale_d x fw (fw * n) = Some v /\ (v = x * n \/ v = x * n - 1).
Proof.
  intros fw n x Hf S. unfold scale_close in S. destruct (scale_d x fw (fw * n)) as [v|]; [|discriminate].
  exists v. split; [reflexivity|].
  assert (Q : x * (fw * n) / fw = x * n).
  { replace (x * (fw * n)) with ((x * n) * fw) by ring. apply Z.div_mul. lia. }
  cbv zeta in S. rewrite Q in S. apply orb_true_iff in S. destruct S as [S|S]; apply Z.eqb_eq in S; auto.
Qed.

Lemma scale_sweep_ok : scale_sweep 128 8 = true.
Proof. vm_compute. reflexivity. Qed.

Lemma scale_within_one : forall fw n x, 1 <= fw <= 128 -> 1 <= n <= 8 -> 0 <= x < fw ->
  exists v, scale_d x fw (fw * n) = Some v /\ (v = x * n \/ v = x * n - 1).
Proof.
  intros fw n x Hf Hn Hx. apply scale_close_sound; [lia|].
  exact (scale_sweep_sound 128 8 scale_sweep_ok fw n x Hf Hn Hx).
Qed.

Lemma scale_not_exact : scale_d 29 100 200 = Some 57 /\ 29 * 200 / 100 = 58.
Proof. split; vm_compute; reflexivity. Qed.

(* ------------------------------------------------------------------------------------ *)
(* pointer coalescing (deferPtrUpdateTime > 0) *)
Section Defer.
Variable ext_cut : bool -> clipst -> list Z -> clipst * list utf8cb * bool.

(* a PointerEvent whose button mask equals the last one is not delivered but remembered;
   the remembered position is the one of THIS message (it overwrites any earlier one) *)
Lemma defer_store : forall cfg o c mask x y x' y',
  ptr_allowed o (c_id c) = true -> c_viewonly c = false -> g_deferptr cfg <> 0 ->
  mask = p_lastbtn (c_ptr c) -> map_pos cfg c x y = Some (x', y') ->
  let a := apply_normal ext_cut cfg o c (MPtr mask x y) in
  a_events a = [] /\ p_lastx (c_ptr (a_client a)) = x' /\ p_lasty (c_ptr (a_client a)) = y' /\
  p_lastbtn (c_ptr (a_client a)) = mask.
Proof.
  intros cfg o c mask x y x' y' A V D M P. cbn [apply_normal]. rewrite A, V. cbn [negb].
  rewrite <- M, Z.eqb_refl. cbn [negb orb].
  replace (g_deferptr cfg =? 0) with false by (symmetry; apply Z.eqb_neq; exact D).
  rewrite P. cbn. destruct c; cbn. auto.
Qed.

(* when the interval has expired the remembered position is delivered exactly once *)
Lemma defer_flush : forall cfg now c,
  c_viewonly c = false -> 0 <= p_lastx (c_ptr c) -> p_defusec (c_ptr c) <> 0 ->
  g_deferptr cfg < (now / 1000 - p_defsec (c_ptr c)) * 1000 + Z.quot ((now mod 1000) * 1000 - p_defusec (c_ptr c)) 1000 ->
  snd (flush_ptr cfg now c) = [EvPtr (c_id c) (p_lastbtn (c_ptr c)) (p_lastx (c_ptr c)) (p_lasty (c_ptr c))] /\
  p_lastx (c_ptr (fst (flush_ptr cfg now c))) = -1.
Proof.
  intros cfg now c V L U T. unfold flush_ptr. rewrite V. cbn [negb andb].
  replace (0 <=? p_lastx (c_ptr c)) with true by (symmetry; apply Z.leb_le; exact L).
  replace (p_defusec (c_ptr c) =? 0) with false by (symmetry; apply Z.eqb_neq; exact U).
  replace (g_deferptr cfg <? (now / 1000 - p_defsec (c_ptr c)) * 1000 + Z.quot ((now mod 1000) * 1000 - p_defusec (c_ptr c)) 1000)
    with true by (symmetry; apply Z.ltb_lt; exact T).
  rewrite orb_true_r. destruct c; cbn. auto.
Qed.

(* Every PointerEvent of a permitted client is either delivered at once - and then NOTHING stays
   remembered (repair 4105625) - or it becomes THE remembered position, replacing any older one.
   Together with [defer_flush] (the remembered position is delivered exactly once and cleared):
   whatever is delivered last carries the mask and position of the last message handled. *)
Lemma defer_step : forall cfg o c mask x y x' y',
  fix_defer cfg = true ->
  ptr_allowed o (c_id c) = true -> c_viewonly c = false -> map_pos cfg c x y = Some (x', y') ->
  let a := apply_normal ext_cut cfg o c (MPtr mask x y) in
  (a_events a = [EvPtr (c_id c) mask x' y'] /\ p_lastx (c_ptr (a_client a)) = -1 /\
   p_lastbtn (c_ptr (a_client a)) = mask) \/
  (a_events a = [] /\ p_lastbtn (c_ptr (a_client a)) = mask /\
   p_lastx (c_ptr (a_client a)) = x' /\ p_lasty (c_ptr (a_client a)) = y').
Proof.
  intros cfg o c mask x y x' y' F A V P. cbn [apply_normal]. rewrite A, V. cbn [negb].
  destruct (negb (mask =? p_lastbtn (c_ptr c)) || (g_deferptr cfg =? 0)).
  - left. rewrite F. unfold ptr_event. rewrite P. destruct c; cbn. auto.
  - right. rewrite P. destruct c; cbn. auto.
Qed.

(* ---- whole sequences of pointer messages ---- *)
Fixpoint feed_ptr (cfg : config) (o : option Z) (c : client) (ms : list (Z * Z * Z))
  : client * option Z * list event :=
  match ms with
  | [] => (c, o, [])
  | (mask, x, y) :: r =>
      let a := apply_normal ext_cut cfg o c (MPtr mask x y) in
      let '(c2, o2, e2) := feed_ptr cfg (a_owner a) (a_client a) r in
      (c2, o2, a_events a ++ e2)
  end.

Lemma ptr_pres : forall cfg o c mask x y,
  ptr_allowed o (c_id c) = true ->
  let a := apply_normal ext_cut cfg o c (MPtr mask x y) in
  c_id (a_client a) = c_id c /\ c_viewonly (a_client a) = c_viewonly c /\
  c_sw (a_client a) = c_sw c /\ c_sh (a_client a) = c_sh c /\
  ptr_allowed (a_owner a) (c_id c) = true.
Proof.
  intros cfg o c mask x y A. cbn [apply_normal]. rewrite A. cbn [negb].
  assert (Ho : ptr_allowed (if mask =? 0 then None else Some (c_id c)) (c_id c) = true)
    by (destruct (mask =? 0); cbn; auto; apply Z.eqb_refl).
  destruct (c_viewonly c) eqn:V; cbn [applied_same a_client a_owner]; [repeat split; auto|].
  repeat match goal with
         | |- context [if ?b then _ else _] => destruct b
         | |- context [match map_pos ?a ?b ?c ?d with _ => _ end] => destruct (map_pos a b c d) as [[? ?]|]
         end; cbn [a_client a_owner]; destruct c; cbn in *; repeat split; auto.
Qed.

Lemma map_pos_pres : forall cfg c c' x y, c_sw c' = c_sw c -> c_sh c' = c_sh c -> map_pos cfg c' x y = map_pos cfg c x y.
Proof. intros cfg c c' x y Hw Hh. unfold map_pos. rewrite Hw, Hh. reflexivity. Qed.

(* after ANY sequence of pointer messages of a permitted client, the last message is either the
   last callback made (nothing remembered) or it is what is remembered for the next flush *)
Lemma defer_last : forall cfg ms o c mask x y x' y',
  fix_defer cfg = true ->
  ptr_allowed o (c_id c) = true -> c_viewonly c = false -> map_pos cfg c x y = Some (x', y') ->
  let '(c2, o2, evs) := feed_ptr cfg o c (ms ++ [(mask, x, y)]) in
  (p_lastx (c_ptr c2) = -1 /\ exists pre, evs = pre ++ [EvPtr (c_id c) mask x' y']) \/
  (p_lastbtn (c_ptr c2) = mask /\ p_lastx (c_ptr c2) = x' /\ p_lasty (c_ptr c2) = y').
Proof.
  intros cfg ms. induction ms as [|[[m0 x0] y0] r IH]; intros o c mask x y x' y' F A V P.
  - cbn [app feed_ptr]. pose proof (defer_step cfg o c mask x y x' y' F A V P) as D. cbv zeta in D.
    destruct D as [(E & L & _)|(E & B & L & L2)].
    + left. split; [exact L|]. exists []. rewrite app_nil_r. exact E.
    + right. auto.
  - cbn [app feed_ptr].
    destruct (ptr_pres cfg o c m0 x0 y0 A) as (Hi & Hv & Hw & Hh & Ha).
    set (a := apply_normal ext_cut cfg o c (MPtr m0 x0 y0)) in *.
    rewrite <- Hi in Ha. rewrite <- Hv in V. rewrite <- (map_pos_pres cfg c (a_client a) x y Hw Hh) in P.
    specialize (IH (a_owner a) (a_client a) mask x y x' y' F Ha V P).
    destruct (feed_ptr cfg (a_owner a) (a_client a) (r ++ [(mask, x, y)])) as [[c2 o2] e2].
    rewrite Hi in IH. destruct IH as [(L & pre & E)|R].
    + left. split; [exact L|]. exists (a_events a ++ pre). rewrite E, app_assoc. reflexivity.
    + right. exact R.
Qed.

End Defer.

(* ... but a message with a CHANGED button mask is delivered at once and leaves the older
   remembered position in place: it is flushed afterwards, with the new mask, so the
   application ends up at a stale position (witness; replayed on the library) *)
Definition defer_witness_ops : list op :=
  [OConnect 0 false; OSend 0 [[82; 70; 66; 32; 48; 48; 51; 46; 48; 48; 51; 10]]; OProcess;
   OSend 0 [[1]]; OProcess;
   OSend 0 [enc_ptr 1 84 77]; OProcess;          (* press: delivered *)
   OSend 0 [enc_ptr 1 72 74]; OProcess;          (* drag, same mask: remembered *)
   OSend 0 [enc_ptr 0 31 3]; OProcess;           (* release elsewhere: delivered at once *)
   OTick 5000; OProcess; OTick 5000; OProcess].  (* the remembered drag position comes last *)

Lemma defer_stale_witness :
  snd (c06_run (init_server (mkCfg 100 80 false 0 false false false 999 false 1)) defer_witness_ops)
  = [EvPtr 0 1 84 77; EvPtr 0 0 31 3; EvPtr 0 0 72 74].
Proof. vm_compute. reflexivity. Qed.

(* the code as it is (repair 4105625): the stale position is dropped *)
Lemma defer_fixed_witness :
  snd (c06_run (init_server (mkCfg 100 80 false 0 false false false 999 false 0)) defer_witness_ops)
  = [EvPtr 0 1 84 77; EvPtr 0 0 31 3].
Proof. vm_compute. reflexivity. Qed.

(* the code as it is (repair c7c2b1b): a scaled position is the exact quotient *)
Lemma scale_v_fixed : forall cfg x fw tw, fix_scale cfg = true -> 0 < fw ->
  scale_v cfg x fw tw = Some (x * tw / fw).
Proof.
  intros cfg x fw tw F H. unfold scale_v. rewrite F.
  replace (fw <=? 0) with false by (symmetry; apply Z.leb_gt; lia). reflexivity.
Qed.

Lemma scale_v_asis : forall cfg x fw tw, fix_scale cfg = false -> scale_v cfg x fw tw = scale_d x fw tw.
Proof. intros cfg x fw tw F. unfold scale_v. rewrite F. reflexivity. Qed.
