(* C19 - the path discipline over whole connection histories (audit item 5, second half).
   Every path-taking file-system call anywhere in the history of a connection - any sequence of messages, chunk-sender
   calls and moves of the outside world - is on the translation of a name the client sent in the message that made the
   call (stat: or on  d ++ "/" ++ n  for such a d and a directory entry n without '/').  The calls that take a
   descriptor instead of a path (read, write, fstat, close, readdir, closedir) act on cl->fileTransfer.fd resp. the
   directory stream of the current listing; the model has exactly these two descriptor variables and they are assigned
   only from the open/opendir calls of the history - which this theorem bounds.  The chunk sender itself makes no
   path-taking call at all. *)
From Coq Require Import ZArith List Bool Lia.
From LV Require Import Gen.Consts_C19 Session.FileXferDefs Session.FileXferProofs Session.FileXferHoare
  Session.FileXferTrace Session.FileXferLeak.
Import ListNotations.
Local Open Scope Z_scope.

Definition path_ok (cfg : config) (e : event) : Prop :=
  forall op, e = Fs op -> exists names, allowed_op cfg names op.

Lemma okr_forall : forall S new, okr S new -> Forall (fun e => forall op, e = Fs op -> S op) new.
Proof.
  induction new as [|e older IH]; intro H; [constructor|].
  cbn [okr] in H. destruct H as [H1 [_ H3]]. constructor; auto.
Qed.

Lemma inv_paths : forall cfg names w0 w',
  Inv (allowed_op cfg names) (w_ev w0) w' -> Forall (path_ok cfg) (w_ev w0) -> Forall (path_ok cfg) (w_ev w').
Proof.
  intros cfg names w0 w' [new [E [O _]]] H. rewrite E. apply Forall_app. split; [|exact H].
  eapply Forall_impl; [|apply okr_forall; exact O]. intros e He op Eo. exists names. apply He. exact Eo.
Qed.

Lemma path_ok_nofs : forall cfg e, (forall op, e <> Fs op) -> path_ok cfg e.
Proof. intros cfg e H op E. exfalso. eapply H; eauto. Qed.

(* a message arriving on a closed connection: only the (repeated) refusal *)
Lemma handle_message_closed : forall cfg w,
  sock_open (w_st w) = false -> w_ev (snd (handle_message cfg w)) = CloseClient :: w_ev w.
Proof.
  intros cfg w H. unfold handle_message, bind, read_exact. rewrite H. cbn [andb].
  unfold close_client, bind, emit, get_st, set_st, ret. reflexivity.
Qed.

(* the chunk sender on a closed connection: at most the callback is asked *)
Lemma send_chunk_closed : forall cfg w,
  sock_open (w_st w) = false ->
  w_ev (snd (send_chunk cfg w)) = w_ev w \/ exists a, w_ev (snd (send_chunk cfg w)) = Ask a :: w_ev w.
Proof.
  intros cfg w H. unfold send_chunk, bind.
  destruct (permit cfg); cbn [negb]; [|left; reflexivity].
  destruct (has_cb cfg).
  - unfold ask_cb. destruct (w_perm w) as [|a rest].
    + destruct (w_perm_dflt w); cbn [negb fst snd].
      * unfold get_st, ret. cbn [w_st]. rewrite H. destruct (fd_open (w_st w) && sending (w_st w)); cbn; right; eexists; reflexivity.
      * right; eexists; reflexivity.
    + destruct a; cbn [negb fst snd].
      * unfold get_st, ret. cbn [w_st]. rewrite H. destruct (fd_open (w_st w) && sending (w_st w)); cbn; right; eexists; reflexivity.
      * right; eexists; reflexivity.
  - unfold ret at 1. cbn [negb]. unfold get_st, ret. rewrite H. destruct (fd_open (w_st w) && sending (w_st w)); cbn; left; reflexivity.
Qed.

Theorem history_paths_translated : forall cfg w,
  reachable cfg w -> Forall (path_ok cfg) (w_ev w).
Proof.
  intros cfg w R. induction R as [perms dflt envs input | w w' R IH S].
  - constructor.
  - destruct S.
    + destruct (sock_open (w_st w)) eqn:Ho.
      * eapply inv_paths; [apply message_trace_ok_names; exact Ho|exact IH].
      * rewrite (handle_message_closed cfg w Ho). constructor; [apply path_ok_nofs; intros op X; discriminate X|exact IH].
    + destruct (sock_open (w_st w)) eqn:Ho.
      * assert (H0 : St (allowed_op cfg []) (w_ev w) true w).
        { split; auto. exists []. simpl. auto. }
        pose proof (h_send_chunk cfg [] (w_ev w) w H0) as [Hi _].
        eapply inv_paths; [exact Hi|exact IH].
      * destruct (send_chunk_closed cfg w Ho) as [E|[a E]]; rewrite E; [exact IH|].
        constructor; [apply path_ok_nofs; intros op X; discriminate X|exact IH].
    + exact IH.
Qed.

(* in particular every open / opendir of the whole history - the only calls that produce the descriptors the
   descriptor-taking calls act on - is on a translated client name *)
Corollary history_opens_translated : forall cfg w p,
  reachable cfg w -> (In (Fs (FOpenR p)) (w_ev w) \/ In (Fs (FOpenW p)) (w_ev w) \/ In (Fs (FOpendir p)) (w_ev w)) ->
  exists nm, translate_pure (home cfg) nm C19_MAX_PATH = Some p.
Proof.
  intros cfg w p R H. pose proof (history_paths_translated cfg w R) as F. rewrite Forall_forall in F.
  destruct H as [H|[H|H]]; destruct (F _ H _ eq_refl) as [names A]; cbn in A; destruct A as [nm [_ T]]; exists nm; exact T.
Qed.

(* the chunk sender makes no path-taking call: its new events satisfy allowed_op for the EMPTY set of names *)
Theorem chunk_sender_no_path_call : forall cfg w,
  sock_open (w_st w) = true -> Inv (allowed_op cfg []) (w_ev w) (snd (send_chunk cfg w)).
Proof.
  intros cfg w Ho. assert (H0 : St (allowed_op cfg []) (w_ev w) true w). { split; auto. exists []. simpl. auto. }
  exact (proj1 (h_send_chunk cfg [] (w_ev w) w H0)).
Qed.
