(* C13 - background (threaded) event loop: small-step interleaving models of the locking protocol of
   libvncserver (main.c clientInput/clientOutput/rfbShutdownServer/rfbStartOnHoldClient, rfbserver.c
   client iterator and rfbClientConnectionGone, sockets.c rfbCloseClient, cursor.c rfbShowCursor /
   rfbHideCursor).  Definitions only.

   A system is a function [step : thread id -> state -> option state] (None = the thread is blocked
   or finished); a schedule is an explicit list of thread ids; [run] executes it, skipping picks of
   threads that cannot move.  Every fragment has a FAITHFUL variant (the control flow of the code as
   read) and, where the faithful one violates the property, a REPAIRED variant that differs in one
   stated point. *)
From Coq Require Import List Bool Arith PeanoNat Lia.
Import ListNotations.

Section Interleaving.
  Variable St : Type.
  Variable step : nat -> St -> option St.
  Definition sched_step (s : St) (t : nat) : St := match step t s with Some s' => s' | None => s end.
  Definition run (sched : list nat) (s : St) : St := fold_left sched_step sched s.
  Definition enabled (t : nat) (s : St) : bool := match step t s with Some _ => true | None => false end.
End Interleaving.

(* exhaustive exploration of a finite system (used inside Coq, by vm_compute) *)
Section Explore.
  Variable St : Type.
  Variable beq : St -> St -> bool.
  Variable step : nat -> St -> option St.
  Variable nthreads : nat.
  Definition mem (x : St) (l : list St) : bool := existsb (beq x) l.
  Definition succs (s : St) : list St :=
    flat_map (fun t => match step t s with Some s' => [s'] | None => [] end) (seq 0 nthreads).
  Fixpoint explore (fuel : nat) (frontier visited : list St) : list St :=
    match fuel with
    | O => visited
    | S f => match frontier with
             | [] => visited
             | x :: rest => if mem x visited then explore f rest visited
                            else explore f (succs x ++ rest) (x :: visited)
             end
    end.
  Definition closed (L : list St) : bool := forallb (fun s => forallb (fun s' => mem s' L) (succs s)) L.
  Definition stuck_free (final : St -> bool) (s : St) : bool :=
    final s || existsb (fun t => match step t s with Some _ => true | None => false end) (seq 0 nthreads).
End Explore.

(* ================================================================== 1. cursor bracket (cursor.c)
   Two clientOutput threads of clients without cursor-shape updates.  rfbSendFramebufferUpdate:
   rfbShowCursor (LOCK cursorMutex; save the pixels under the cursor into the PER-SCREEN
   underCursorBuffer; paint; UNLOCK) ... encode ... rfbHideCursor (LOCK; restore from the buffer;
   UNLOCK).  fb = "the application's framebuffer shows the cursor at that place". *)
Record cur_st := mkCur {
  cu_fb : bool; cu_buf : bool;
  cu_mx : nat;          (* cursorMutex: 0 free, t+1 owned by t *)
  cu_big : nat;         (* repaired variant: one lock around the whole bracket *)
  cu_pc0 : nat; cu_pc1 : nat
}.
Scheme Equality for cur_st.

Definition cu_pc (t : nat) (s : cur_st) : nat := if t =? 0 then cu_pc0 s else cu_pc1 s.
Definition cu_setpc (t : nat) (v : nat) (s : cur_st) : cur_st :=
  if t =? 0 then mkCur (cu_fb s) (cu_buf s) (cu_mx s) (cu_big s) v (cu_pc1 s)
  else mkCur (cu_fb s) (cu_buf s) (cu_mx s) (cu_big s) (cu_pc0 s) v.
Definition cu_set (fb buf : bool) (mx big : nat) (s : cur_st) : cur_st :=
  mkCur fb buf mx big (cu_pc0 s) (cu_pc1 s).

Definition cur_step (serial : bool) (t : nat) (s : cur_st) : option cur_st :=
  if 2 <=? t then None else
  let next := cu_setpc t (S (cu_pc t s)) in
  match cu_pc t s with
  | 0 => if serial then (if cu_big s =? 0 then Some (next (cu_set (cu_fb s) (cu_buf s) (cu_mx s) (S t) s)) else None)
         else Some (next s)
  | 1 => if cu_mx s =? 0 then Some (next (cu_set (cu_fb s) (cu_buf s) (S t) (cu_big s) s)) else None   (* LOCK(cursorMutex) *)
  | 2 => Some (next (cu_set (cu_fb s) (cu_fb s) (cu_mx s) (cu_big s) s))                                (* save under cursor *)
  | 3 => Some (next (cu_set true (cu_buf s) (cu_mx s) (cu_big s) s))                                    (* paint *)
  | 4 => Some (next (cu_set (cu_fb s) (cu_buf s) 0 (cu_big s) s))                                       (* UNLOCK *)
  | 5 => Some (next s)                                                                                 (* encode rectangles *)
  | 6 => if cu_mx s =? 0 then Some (next (cu_set (cu_fb s) (cu_buf s) (S t) (cu_big s) s)) else None   (* rfbHideCursor: LOCK *)
  | 7 => Some (next (cu_set (cu_buf s) (cu_buf s) (cu_mx s) (cu_big s) s))                              (* restore *)
  | 8 => Some (next (cu_set (cu_fb s) (cu_buf s) 0 (cu_big s) s))                                       (* UNLOCK *)
  | 9 => Some (next (cu_set (cu_fb s) (cu_buf s) (cu_mx s) (if serial then 0 else cu_big s) s))
  | _ => None
  end.
Definition cur_init : cur_st := mkCur false false 0 0 0 0.
Definition cur_final (s : cur_st) : bool := (cu_pc0 s =? 10) && (cu_pc1 s =? 10).
(* property: when both brackets are over the framebuffer is what the application drew *)
Definition cur_ok (s : cur_st) : bool := negb (cur_final s) || negb (cu_fb s).

(* ================================================================== 2. client iterator vs rfbClientConnectionGone (rfbserver.c)
   thread 0 = an iterating thread (application: rfbMarkRectAsModified, rfbSendBell, ...),
   thread 1 = the client's own thread in rfbClientConnectionGone.
   Faithful: rfbClientIteratorNext reads the next pointer (under rfbClientListMutex for the head, with
   no lock when advancing), RELEASES the list mutex, and only then rfbIncrClientRef(next).
   ConnectionGone unlinks under the list mutex, waits for refCount == 0, frees. *)
Record it_st := mkIt {
  it_inlist : bool; it_ref : nat; it_freed : bool;
  it_next : bool;        (* the iterator holds a pointer to the record *)
  it_uaf : bool;         (* freed memory has been touched *)
  it_lm : nat;           (* rfbClientListMutex: 0 free, t+1 owner *)
  it_pc0 : nat; it_pc1 : nat
}.
Scheme Equality for it_st.

Definition it_pc (t : nat) (s : it_st) : nat := if t =? 0 then it_pc0 s else it_pc1 s.
Definition it_setpc (t v : nat) (s : it_st) : it_st :=
  if t =? 0 then mkIt (it_inlist s) (it_ref s) (it_freed s) (it_next s) (it_uaf s) (it_lm s) v (it_pc1 s)
  else mkIt (it_inlist s) (it_ref s) (it_freed s) (it_next s) (it_uaf s) (it_lm s) (it_pc0 s) v.
Definition it_set (inl : bool) (ref : nat) (fr nx uaf : bool) (lm : nat) (s : it_st) : it_st :=
  mkIt inl ref fr nx uaf lm (it_pc0 s) (it_pc1 s).

Definition it_step (repaired : bool) (t : nat) (s : it_st) : option it_st :=
  if 2 <=? t then None else
  let next := it_setpc t (S (it_pc t s)) in
  let keep := it_set (it_inlist s) (it_ref s) (it_freed s) (it_next s) (it_uaf s) in
  if t =? 0 then
    match it_pc0 s with
    | 0 => if it_lm s =? 0 then Some (next (keep 1 s)) else None                                         (* LOCK(list) *)
    | 1 => let nx := it_inlist s in                                                                     (* i->next = head *)
           Some (next (it_set (it_inlist s) (if repaired && nx then S (it_ref s) else it_ref s) (it_freed s) nx (it_uaf s) (it_lm s) s))
    | 2 => Some (next (keep 0 s))                                                                        (* UNLOCK(list) *)
    | 3 => if repaired then Some (next s)
           else if it_next s                                                                            (* rfbIncrClientRef(next) *)
                then Some (next (it_set (it_inlist s) (S (it_ref s)) (it_freed s) true (it_uaf s || it_freed s) (it_lm s) s))
                else Some (next s)
    | 4 => Some (next (it_set (it_inlist s) (it_ref s) (it_freed s) (it_next s)                          (* caller uses cl *)
                              (it_uaf s || (it_next s && it_freed s)) (it_lm s) s))
    | 5 => if it_next s                                                                                 (* rfbDecrClientRef *)
           then Some (next (it_set (it_inlist s) (pred (it_ref s)) (it_freed s) false (it_uaf s || it_freed s) (it_lm s) s))
           else Some (next s)
    | _ => None
    end
  else if repaired then
    (* notes/fix_C13_2.diff: wait for refCount == 0 and unlink, both decided under the list mutex *)
    match it_pc1 s with
    | 0 => if it_lm s =? 0 then Some (next (keep 2 s)) else None                                         (* LOCK(list) *)
    | 1 => if it_ref s =? 0
           then Some (next (it_set false (it_ref s) (it_freed s) (it_next s) (it_uaf s) (it_lm s) s))   (* unlink *)
           else Some (it_setpc 1 5 (keep 0 s))                                                           (* UNLOCK(list); WAIT(deleteCond) *)
    | 2 => Some (next (keep 0 s))                                                                        (* UNLOCK *)
    | 3 => Some (it_setpc 1 4 s)
    | 4 => Some (it_setpc 1 6 (it_set (it_inlist s) (it_ref s) true (it_next s) (it_uaf s) (it_lm s) s)) (* free(cl) *)
    | 5 => if it_ref s =? 0 then Some (it_setpc 1 0 s) else None                                         (* woken by rfbDecrClientRef *)
    | _ => None
    end
  else
    match it_pc1 s with
    | 0 => if it_lm s =? 0 then Some (next (keep 2 s)) else None                                         (* LOCK(list) *)
    | 1 => Some (next (it_set false (it_ref s) (it_freed s) (it_next s) (it_uaf s) (it_lm s) s))         (* unlink *)
    | 2 => Some (next (keep 0 s))                                                                        (* UNLOCK *)
    | 3 => if it_ref s =? 0 then Some (next s) else None                                                 (* wait for refCount == 0 *)
    | 4 => Some (next (it_set (it_inlist s) (it_ref s) true (it_next s) (it_uaf s) (it_lm s) s))         (* free(cl) *)
    | _ => None
    end.
Definition it_init : it_st := mkIt true 0 false false false 0 0 0.
Definition it_ok (s : it_st) : bool := negb (it_uaf s).

(* ================================================================== 2b. a FULL iterator walk over TWO client records (rfbserver.c:207-246, HEAD)
   list = [R0; R1].  thread 0 = an iterating thread: it = rfbGetClientIterator; Next (-> R0); use; Next (advance: prev = R0,
   next = R0->next, skip closed, IncrClientRef(next) - all under rfbClientListMutex; then the DEFERRED rfbDecrClientRef(prev)
   outside the mutex); use; Next (-> NULL, DecrClientRef(prev)); rfbReleaseClientIterator.
   thread 1 / thread 2 = R0's / R1's own thread in rfbClientConnectionGone at any moment: [LOCK(list); refCount == 0 ? unlink :
   (UNLOCK; WAIT(deleteCond))]; UNLOCK; free.  "closed" (sock < 0) is set by the client thread before it enters the teardown.
   One step = one critical section of rfbClientListMutex (the mutex itself is what fragment 2 models). *)
Record iw_st := mkIw {
  iw_in0 : bool; iw_in1 : bool;          (* record linked *)
  iw_cl0 : bool; iw_cl1 : bool;          (* record closed (sock < 0) *)
  iw_ref0 : nat; iw_ref1 : nat;
  iw_fr0 : bool; iw_fr1 : bool;          (* record freed *)
  iw_cur : nat;                          (* i->next: 0 = NULL, 1 = R0, 2 = R1 *)
  iw_prev : nat;                         (* reference still to drop: 0 none, 1 = R0, 2 = R1 *)
  iw_uaf : bool;
  iw_pc0 : nat; iw_pc1 : nat; iw_pc2 : nat
}.
Scheme Equality for iw_st.
Definition iw_freed (r : nat) (s : iw_st) : bool := match r with 1 => iw_fr0 s | 2 => iw_fr1 s | _ => false end.
(* first open (or, for closedToo, any) listed record at or after position r (1 = R0, 2 = R1, 3 = end) *)
Definition iw_first_open (r : nat) (s : iw_st) : nat :=
  match r with
  | 1 => if iw_in0 s && negb (iw_cl0 s) then 1 else if iw_in1 s && negb (iw_cl1 s) then 2 else 0
  | 2 => if iw_in1 s && negb (iw_cl1 s) then 2 else 0
  | _ => 0
  end.
Definition iw_incr (r : nat) (s : iw_st) : iw_st :=
  match r with
  | 1 => mkIw (iw_in0 s) (iw_in1 s) (iw_cl0 s) (iw_cl1 s) (S (iw_ref0 s)) (iw_ref1 s) (iw_fr0 s) (iw_fr1 s) (iw_cur s) (iw_prev s) (iw_uaf s || iw_fr0 s) (iw_pc0 s) (iw_pc1 s) (iw_pc2 s)
  | 2 => mkIw (iw_in0 s) (iw_in1 s) (iw_cl0 s) (iw_cl1 s) (iw_ref0 s) (S (iw_ref1 s)) (iw_fr0 s) (iw_fr1 s) (iw_cur s) (iw_prev s) (iw_uaf s || iw_fr1 s) (iw_pc0 s) (iw_pc1 s) (iw_pc2 s)
  | _ => s
  end.
Definition iw_decr (r : nat) (s : iw_st) : iw_st :=
  match r with
  | 1 => mkIw (iw_in0 s) (iw_in1 s) (iw_cl0 s) (iw_cl1 s) (pred (iw_ref0 s)) (iw_ref1 s) (iw_fr0 s) (iw_fr1 s) (iw_cur s) (iw_prev s) (iw_uaf s || iw_fr0 s) (iw_pc0 s) (iw_pc1 s) (iw_pc2 s)
  | 2 => mkIw (iw_in0 s) (iw_in1 s) (iw_cl0 s) (iw_cl1 s) (iw_ref0 s) (pred (iw_ref1 s)) (iw_fr0 s) (iw_fr1 s) (iw_cur s) (iw_prev s) (iw_uaf s || iw_fr1 s) (iw_pc0 s) (iw_pc1 s) (iw_pc2 s)
  | _ => s
  end.
Definition iw_set0 (cur prev : nat) (uaf : bool) (pc : nat) (s : iw_st) : iw_st :=
  mkIw (iw_in0 s) (iw_in1 s) (iw_cl0 s) (iw_cl1 s) (iw_ref0 s) (iw_ref1 s) (iw_fr0 s) (iw_fr1 s) cur prev uaf pc (iw_pc1 s) (iw_pc2 s).
(* rfbClientIteratorNext, the part under the list mutex: where does i->next go, reference taken; prev remembered.
   Reading i->next->next touches the record i->next (use-after-free if it was freed). *)
Definition iw_next_locked (s : iw_st) : iw_st :=
  let prev := iw_cur s in
  let start := match prev with 0 => 1 | 1 => 2 | _ => 3 end in
  let nxt := iw_first_open start s in
  iw_incr nxt (iw_set0 nxt prev (iw_uaf s || iw_freed prev s) (S (iw_pc0 s)) s).
Definition iw_teardown_step (waits : bool) (r : nat) (pc : nat) (s : iw_st) : option iw_st :=
  let setpc v (x : iw_st) := match r with
     | 1 => mkIw (iw_in0 x) (iw_in1 x) (iw_cl0 x) (iw_cl1 x) (iw_ref0 x) (iw_ref1 x) (iw_fr0 x) (iw_fr1 x) (iw_cur x) (iw_prev x) (iw_uaf x) (iw_pc0 x) v (iw_pc2 x)
     | _ => mkIw (iw_in0 x) (iw_in1 x) (iw_cl0 x) (iw_cl1 x) (iw_ref0 x) (iw_ref1 x) (iw_fr0 x) (iw_fr1 x) (iw_cur x) (iw_prev x) (iw_uaf x) (iw_pc0 x) (iw_pc1 x) v end in
  match pc with
  | 0 => Some (setpc 1 (match r with                                                    (* the connection ends: sock = -1 *)
          | 1 => mkIw (iw_in0 s) (iw_in1 s) true (iw_cl1 s) (iw_ref0 s) (iw_ref1 s) (iw_fr0 s) (iw_fr1 s) (iw_cur s) (iw_prev s) (iw_uaf s) (iw_pc0 s) (iw_pc1 s) (iw_pc2 s)
          | _ => mkIw (iw_in0 s) (iw_in1 s) (iw_cl0 s) true (iw_ref0 s) (iw_ref1 s) (iw_fr0 s) (iw_fr1 s) (iw_cur s) (iw_prev s) (iw_uaf s) (iw_pc0 s) (iw_pc1 s) (iw_pc2 s) end))
  | 1 => if negb waits || ((match r with 1 => iw_ref0 s | _ => iw_ref1 s end) =? 0)    (* under the list mutex: refCount == 0 -> unlink *)
         then Some (setpc 2 (match r with
          | 1 => mkIw false (iw_in1 s) (iw_cl0 s) (iw_cl1 s) (iw_ref0 s) (iw_ref1 s) (iw_fr0 s) (iw_fr1 s) (iw_cur s) (iw_prev s) (iw_uaf s) (iw_pc0 s) (iw_pc1 s) (iw_pc2 s)
          | _ => mkIw (iw_in0 s) false (iw_cl0 s) (iw_cl1 s) (iw_ref0 s) (iw_ref1 s) (iw_fr0 s) (iw_fr1 s) (iw_cur s) (iw_prev s) (iw_uaf s) (iw_pc0 s) (iw_pc1 s) (iw_pc2 s) end))
         else None                                                                       (* WAIT(deleteCond) *)
  | 2 => Some (setpc 3 (match r with                                                    (* ... free(cl) *)
          | 1 => mkIw (iw_in0 s) (iw_in1 s) (iw_cl0 s) (iw_cl1 s) (iw_ref0 s) (iw_ref1 s) true (iw_fr1 s) (iw_cur s) (iw_prev s) (iw_uaf s) (iw_pc0 s) (iw_pc1 s) (iw_pc2 s)
          | _ => mkIw (iw_in0 s) (iw_in1 s) (iw_cl0 s) (iw_cl1 s) (iw_ref0 s) (iw_ref1 s) (iw_fr0 s) true (iw_cur s) (iw_prev s) (iw_uaf s) (iw_pc0 s) (iw_pc1 s) (iw_pc2 s) end))
  | _ => None
  end.
(* waits = false: a teardown that does not wait for the references (only to show that the safety theorem can fail) *)
Definition iw_step (waits : bool) (t : nat) (s : iw_st) : option iw_st :=
  match t with
  | 0 => match iw_pc0 s with
         | 0 | 3 | 6 => Some (iw_next_locked s)                                          (* Next: critical section *)
         | 1 | 4 | 7 => Some (iw_set0 (iw_cur s) 0 (iw_uaf s) (S (iw_pc0 s)) (iw_decr (iw_prev s) s))   (* deferred DecrClientRef(prev) *)
         | 2 | 5 | 8 => if iw_cur s =? 0
                        then Some (iw_set0 0 0 (iw_uaf s) 9 s)                           (* Next returned NULL: the caller's loop ends *)
                        else Some (iw_set0 (iw_cur s) (iw_prev s) (iw_uaf s || iw_freed (iw_cur s) s) (S (iw_pc0 s)) s)   (* the caller uses cl *)
         | 9 => Some (iw_set0 0 0 (iw_uaf s) 10 (iw_decr (iw_cur s) s))                  (* rfbReleaseClientIterator *)
         | _ => None
         end
  | 1 => iw_teardown_step waits 1 (iw_pc1 s) s
  | 2 => iw_teardown_step waits 2 (iw_pc2 s) s
  | _ => None
  end.
Definition iw_init : iw_st := mkIw true true false false 0 0 false false 0 0 false 0 0 0.
Definition iw_final (s : iw_st) : bool := (iw_pc0 s =? 10) && (iw_pc1 s =? 3) && (iw_pc2 s =? 3).
Definition iw_ok (s : iw_st) : bool := negb (iw_uaf s).

(* ================================================================== 3. shutdown (main.c, sockets.c)
   ONE client record.
   thread 0 = application: rfbShutdownServer (rfbCloseClient(cl); pthread_join(client_thread)) and then
              rfbScreenCleanup, which calls rfbClientConnectionGone for every client STILL LISTED (main.c:1242-1248) -
              the competing caller of the teardown
   thread 1 = clientInput of the client
   thread 2 = clientOutput of the client, in one of three situations fixed by the initial state: no update pending (it WAITs),
              one update requested and pending (it sends once: the send itself is one step, a send error = thread 3), or the
              client on hold (it only sleeps and looks again)
   thread 3 = any other caller of rfbCloseClient (the client's own input thread on a read error,
              another client's non-shared ClientInit, the application)
   rfbCloseClient: LOCK(updateMutex); TSIGNAL(updateCond); UNLOCK; state = RFB_SHUTDOWN; write(pipe).
   clientOutput (before 1b1aba3): tests cl->state WITHOUT the mutex, then LOCK(updateMutex); WAIT. *)
Record sh_st := mkSh {
  sh_shut : bool;        (* cl->state == RFB_SHUTDOWN *)
  sh_um : nat;           (* updateMutex: 0 free, t+1 owner *)
  sh_wait : bool;        (* clientOutput sleeps in WAIT(updateCond) *)
  sh_gone : nat;         (* rfbClientConnectionGone calls *)
  sh_inlist : bool;      (* the record is linked in screen->clientHead *)
  sh_pend : bool;        (* an update is requested and pending: clientOutput will send instead of waiting *)
  sh_hold : bool;        (* cl->onHold / state != RFB_NORMAL: clientOutput only sleeps and looks again *)
  sh_pcA : nat; sh_pcI : nat; sh_pcO : nat; sh_pcC : nat
}.
Scheme Equality for sh_st.

(* which protocol: *)
Record sh_cfg := mkCfg {
  cf_fix1 : bool;        (* 1b1aba3 = notes/fix_C13_1.diff: state set under updateMutex before the signal, clientOutput re-tests after LOCK *)
  cf_join : bool;        (* the application joins the client thread (rfbShutdownServer) before it goes on to rfbScreenCleanup *)
  cf_selfail : bool;     (* select() in clientInput may fail (EINTR: a signal handler ran on this thread): main.c:590-593 leaves
                            the loop WITHOUT state = RFB_SHUTDOWN *)
  cf_fix4 : bool         (* notes/fix_C13_4.diff: clientInput calls rfbCloseClient(cl) itself when it leaves the loop with
                            state != RFB_SHUTDOWN *)
}.

Definition sh_upd (shut : bool) (um : nat) (w : bool) (g : nat) (s : sh_st) : sh_st :=
  mkSh shut um w g (sh_inlist s) (sh_pend s) (sh_hold s) (sh_pcA s) (sh_pcI s) (sh_pcO s) (sh_pcC s).
(* rfbClientConnectionGone: unlink, clientGoneHook, free *)
Definition sh_teardown (s : sh_st) : sh_st :=
  mkSh (sh_shut s) (sh_um s) (sh_wait s) (S (sh_gone s)) false (sh_pend s) (sh_hold s) (sh_pcA s) (sh_pcI s) (sh_pcO s) (sh_pcC s).
Definition sh_take_update (s : sh_st) : sh_st :=
  mkSh (sh_shut s) 0 (sh_wait s) (sh_gone s) (sh_inlist s) false (sh_hold s) (sh_pcA s) (sh_pcI s) (sh_pcO s) (sh_pcC s).
Definition sh_pc (t : nat) (s : sh_st) : nat :=
  match t with 0 => sh_pcA s | 1 => sh_pcI s | 2 => sh_pcO s | _ => sh_pcC s end.
Definition sh_setpc (t v : nat) (s : sh_st) : sh_st :=
  match t with
  | 0 => mkSh (sh_shut s) (sh_um s) (sh_wait s) (sh_gone s) (sh_inlist s) (sh_pend s) (sh_hold s) v (sh_pcI s) (sh_pcO s) (sh_pcC s)
  | 1 => mkSh (sh_shut s) (sh_um s) (sh_wait s) (sh_gone s) (sh_inlist s) (sh_pend s) (sh_hold s) (sh_pcA s) v (sh_pcO s) (sh_pcC s)
  | 2 => mkSh (sh_shut s) (sh_um s) (sh_wait s) (sh_gone s) (sh_inlist s) (sh_pend s) (sh_hold s) (sh_pcA s) (sh_pcI s) v (sh_pcC s)
  | _ => mkSh (sh_shut s) (sh_um s) (sh_wait s) (sh_gone s) (sh_inlist s) (sh_pend s) (sh_hold s) (sh_pcA s) (sh_pcI s) (sh_pcO s) v
  end.
Definition SH_OUT_DONE : nat := 7.
Definition SH_IN_DONE : nat := 6.
Definition SH_APP_DONE : nat := 6.

(* the four steps of rfbCloseClient, shared by threads 0 and 3.  Before 1b1aba3: LOCK; TSIGNAL; UNLOCK; state = SHUTDOWN.
   Since 1b1aba3 (notes/fix_C13_1.diff): LOCK; state = SHUTDOWN; TSIGNAL; UNLOCK. *)
Definition sh_close_step (repaired : bool) (t : nat) (s : sh_st) : option sh_st :=
  let next := sh_setpc t (S (sh_pc t s)) in
  match sh_pc t s with
  | 0 => if sh_um s =? 0 then Some (next (sh_upd (sh_shut s) (S t) (sh_wait s) (sh_gone s) s)) else None
  | 1 => Some (next (sh_upd (if repaired then true else sh_shut s) (sh_um s) false (sh_gone s) s))   (* TSIGNAL *)
  | 2 => Some (next (sh_upd (sh_shut s) 0 (sh_wait s) (sh_gone s) s))
  | 3 => Some (next (sh_upd true (sh_um s) (sh_wait s) (sh_gone s) s))                  (* state = RFB_SHUTDOWN (old order) *)
  | _ => None
  end.

Definition sh_step_cfg (c : sh_cfg) (t : nat) (s : sh_st) : option sh_st :=
  let repaired := cf_fix1 c in
  let next := sh_setpc t (S (sh_pc t s)) in
  match t with
  | 0 => match sh_pcA s with
         | 4 => if cf_join c
                then (if sh_pcI s =? SH_IN_DONE then Some (next s) else None)           (* pthread_join(client_thread) *)
                else Some (next s)
         | 5 => if sh_inlist s then Some (next (sh_teardown s)) else Some (next s)      (* rfbScreenCleanup: Gone for every client still listed *)
         | 6 => None
         | _ => sh_close_step repaired 0 s
         end
  | 1 => match sh_pcI s with
         | 0 => if sh_shut s then Some (next s)                                         (* while (state != RFB_SHUTDOWN) select... *)
                else if cf_selfail c
                     then Some (sh_setpc 1 (if cf_fix4 c then 7 else 1) s)              (* select() < 0: break *)
                     else None
         | 1 => if sh_um s =? 0 then Some (next (sh_upd (sh_shut s) 2 (sh_wait s) (sh_gone s) s)) else None
         | 2 => Some (next (sh_upd (sh_shut s) (sh_um s) false (sh_gone s) s))          (* TSIGNAL(updateCond) *)
         | 3 => Some (next (sh_upd (sh_shut s) 0 (sh_wait s) (sh_gone s) s))
         | 4 => if sh_pcO s =? SH_OUT_DONE then Some (next s) else None                 (* THREAD_JOIN(output_thread) *)
         | 5 => Some (next (sh_teardown s))                                             (* rfbClientConnectionGone *)
         | 7 => if sh_um s =? 0 then Some (next (sh_upd (sh_shut s) 2 (sh_wait s) (sh_gone s) s)) else None   (* fix 4: rfbCloseClient(cl) *)
         | 8 => Some (next (sh_upd true (sh_um s) false (sh_gone s) s))                 (*        state = RFB_SHUTDOWN; TSIGNAL *)
         | 9 => Some (sh_setpc 1 1 (sh_upd (sh_shut s) 0 (sh_wait s) (sh_gone s) s))    (*        UNLOCK *)
         | _ => None
         end
  | 2 => match sh_pcO s with
         | 0 => if sh_shut s then Some (sh_setpc 2 SH_OUT_DONE s)                       (* unlocked test of cl->state *)
                else if sh_hold s then Some s                                            (* onHold: THREAD_SLEEP_MS; continue *)
                else Some (next s)
         | 1 => if sh_um s =? 0 then Some (next (sh_upd (sh_shut s) 3 (sh_wait s) (sh_gone s) s)) else None
         | 2 => if repaired && sh_shut s
                then Some (sh_setpc 2 SH_OUT_DONE (sh_upd (sh_shut s) 0 (sh_wait s) (sh_gone s) s))   (* re-test under the mutex *)
                else if sh_pend s
                     then Some (sh_setpc 2 8 (sh_take_update s))                        (* haveUpdate: UNLOCK, leave the wait loop *)
                     else Some (next (sh_upd (sh_shut s) 0 true (sh_gone s) s))          (* WAIT: release, sleep *)
         | 8 => if sh_um s =? 0 then Some (next (sh_upd (sh_shut s) 3 (sh_wait s) (sh_gone s) s)) else None   (* deferUpdateTime; LOCK: copy modifiedRegion *)
         | 9 => Some (next (sh_upd (sh_shut s) 0 (sh_wait s) (sh_gone s) s))             (* UNLOCK *)
         | 10 => Some (sh_setpc 2 0 s)                                                   (* IncrClientRef; LOCK(sendMutex); send; UNLOCK; DecrClientRef; loop *)
         | 3 => if sh_wait s then None else Some (next s)                               (* woken *)
         | 4 => if sh_um s =? 0 then Some (next (sh_upd (sh_shut s) 3 (sh_wait s) (sh_gone s) s)) else None
         | 5 => Some (sh_setpc 2 0 (sh_upd (sh_shut s) 0 (sh_wait s) (sh_gone s) s))     (* UNLOCK; loop *)
         | _ => None
         end
  | 3 => sh_close_step repaired 3 s
  | _ => None
  end.
(* sh_step true = the protocol of /repo HEAD (1b1aba3 + 86ddb5d: EINTR is retried, so the select() failure that remains is a real
   error, and clientInput then closes the client itself); sh_step false = the protocol before 1b1aba3 *)
Definition sh_step (repaired : bool) : nat -> sh_st -> option sh_st := sh_step_cfg (mkCfg repaired true repaired repaired).
(* threads 0..2 only: rfbShutdownServer, clientInput, clientOutput - no helping second closer *)
Definition sh_step3 (c : sh_cfg) (t : nat) (s : sh_st) : option sh_st := if t <? 3 then sh_step_cfg c t s else None.
(* threads 1 and 2 only: the client's own two threads, nobody closes the client *)
Definition sh_step12 (c : sh_cfg) (t : nat) (s : sh_st) : option sh_st :=
  match t with 1 => sh_step_cfg c 1 s | 2 => sh_step_cfg c 2 s | _ => None end.
Definition sh_init : sh_st := mkSh false 0 false 0 true false false 0 0 0 0.
Definition sh_init_pending : sh_st := mkSh false 0 false 0 true true false 0 0 0 0.
Definition sh_init_onhold : sh_st := mkSh false 0 false 0 true false true 0 0 0 0.
Definition sh_inits : list sh_st := [sh_init; sh_init_pending; sh_init_onhold].
Definition sh_final (s : sh_st) : bool :=
  (sh_pcA s =? SH_APP_DONE) && (sh_pcI s =? SH_IN_DONE) && (sh_pcO s =? SH_OUT_DONE) && (sh_pcC s =? 4).
Definition sh_final3 (s : sh_st) : bool :=
  (sh_pcA s =? SH_APP_DONE) && (sh_pcI s =? SH_IN_DONE) && (sh_pcO s =? SH_OUT_DONE).
Definition sh_final12 (s : sh_st) : bool :=
  (sh_pcI s =? SH_IN_DONE) && (sh_pcO s =? SH_OUT_DONE) && (sh_gone s =? 1).
Definition sh_gone_ok (s : sh_st) : bool :=
  (sh_gone s <=? 1) && (negb (sh_pcI s =? SH_IN_DONE) || (sh_gone s =? 1)) &&
  (negb (sh_pcA s =? SH_APP_DONE) || ((sh_gone s =? 1) && negb (sh_inlist s))).

(* ================================================================== 4. thread reclamation (main.c rfbStartOnHoldClient)
   every accepted client gets a JOINABLE thread; it ends by itself when the client disconnects;
   pthread_join is only called by rfbShutdownServer for clients still in the list *)
Record th_st := mkTh { th_live : nat; th_zombie : nat (* ended, never joined nor detached: stack and descriptor kept *) }.
Inductive th_op := ThConnect | ThDisconnect | ThShutdown.
(* a COUNTER, true by construction; what justifies its two ThDisconnect rules is fragment 4f below.
   fixed = true: HEAD (600ddcc = notes/fix_C13_6.diff): a thread that ends by itself detaches itself; false: before it *)
Definition th_step (fixed : bool) (s : th_st) (o : th_op) : th_st :=
  match o with
  | ThConnect => mkTh (S (th_live s)) (th_zombie s)
  | ThDisconnect => match th_live s with S n => mkTh n (if fixed then th_zombie s else S (th_zombie s)) | O => s end
  | ThShutdown => mkTh 0 (th_zombie s)           (* joins exactly the live ones *)
  end.
Definition th_run (fixed : bool) (ops : list th_op) : th_st := fold_left (th_step fixed) ops (mkTh 0 0).
Fixpoint th_cycles (n : nat) : list th_op :=
  match n with O => [] | S m => ThConnect :: ThDisconnect :: th_cycles m end.

(* ================================================================== 4f. who reclaims a client thread (main.c rfbShutdownServer / clientInput, rfbserver.c)
   ONE client.  thread 0 = application in rfbShutdownServer: Next(iter) [reference]; clientThread = cl->client_thread
   [fixed: cl->clientThreadJoinedByShutdown = TRUE]; rfbCloseClient; Next(iter) [reference dropped]; pthread_join(clientThread).
   thread 1 = the client's thread: ends at ANY moment (peer disconnects) or when notified; rfbClientConnectionGone = wait for
   refCount == 0 and unlink [one critical section; fixed: the claim flag is read HERE, after the unlink]; free(cl);
   [fixed: not claimed -> pthread_detach(pthread_self())]; thread exits.
   fixed = true: HEAD (600ddcc = notes/fix_C13_6.diff); fixed = false (before it): no flag, no detach.  early = true (only to show the theorem can fail): the flag is read BEFORE the wait. *)
Record rc_st := mkRc {
  rc_listed : bool; rc_ref : nat;
  rc_claim : bool;       (* cl->clientThreadJoinedByShutdown *)
  rc_freed : bool;
  rc_seen : bool;        (* the client thread's copy of the claim flag *)
  rc_detached : bool; rc_exited : bool;
  rc_joined : nat;       (* successful joins of this thread *)
  rc_bad : bool;         (* pthread_join of a detached thread, or the application touched the freed record *)
  rc_pcA : nat; rc_pcT : nat
}.
Scheme Equality for rc_st.
Definition RC_DONE : nat := 5.
Definition rc_step (fixed early : bool) (t : nat) (s : rc_st) : option rc_st :=
  match t with
  | 0 => match rc_pcA s with
         | 0 => if rc_listed s
                then Some (mkRc true (S (rc_ref s)) (rc_claim s) (rc_freed s) (rc_seen s) (rc_detached s) (rc_exited s) (rc_joined s) (rc_bad s) 1 (rc_pcT s))
                else Some (mkRc false (rc_ref s) (rc_claim s) (rc_freed s) (rc_seen s) (rc_detached s) (rc_exited s) (rc_joined s) (rc_bad s) RC_DONE (rc_pcT s))
         | 1 => Some (mkRc (rc_listed s) (rc_ref s) (fixed || rc_claim s) (rc_freed s) (rc_seen s) (rc_detached s) (rc_exited s) (rc_joined s)
                           (rc_bad s || rc_freed s) 2 (rc_pcT s))                                   (* read client_thread [; claim] *)
         | 2 => Some (mkRc (rc_listed s) (rc_ref s) (rc_claim s) (rc_freed s) (rc_seen s) (rc_detached s) (rc_exited s) (rc_joined s)
                           (rc_bad s || rc_freed s) 3 (rc_pcT s))                                   (* rfbCloseClient *)
         | 3 => Some (mkRc (rc_listed s) (pred (rc_ref s)) (rc_claim s) (rc_freed s) (rc_seen s) (rc_detached s) (rc_exited s) (rc_joined s) (rc_bad s) 4 (rc_pcT s))
         | 4 => if rc_exited s                                                                     (* pthread_join returns when the thread has exited *)
                then Some (mkRc (rc_listed s) (rc_ref s) (rc_claim s) (rc_freed s) (rc_seen s) (rc_detached s) (rc_exited s)
                                (if rc_detached s then rc_joined s else S (rc_joined s)) (rc_bad s || rc_detached s) RC_DONE (rc_pcT s))
                else None
         | _ => None
         end
  | 1 => match rc_pcT s with
         | 0 => Some (mkRc (rc_listed s) (rc_ref s) (rc_claim s) (rc_freed s) (if early then rc_claim s else rc_seen s) (rc_detached s) (rc_exited s) (rc_joined s) (rc_bad s) (rc_pcA s) 1)
         | 1 => if rc_ref s =? 0
                then Some (mkRc false (rc_ref s) (rc_claim s) (rc_freed s) (if early then rc_seen s else rc_claim s) (rc_detached s) (rc_exited s) (rc_joined s) (rc_bad s) (rc_pcA s) 2)
                else None
         | 2 => Some (mkRc (rc_listed s) (rc_ref s) (rc_claim s) true (rc_seen s) (rc_detached s) (rc_exited s) (rc_joined s) (rc_bad s) (rc_pcA s) 3)
         | 3 => Some (mkRc (rc_listed s) (rc_ref s) (rc_claim s) (rc_freed s) (rc_seen s) (fixed && negb (rc_seen s)) (rc_exited s) (rc_joined s) (rc_bad s) (rc_pcA s) 4)
         | 4 => Some (mkRc (rc_listed s) (rc_ref s) (rc_claim s) (rc_freed s) (rc_seen s) (rc_detached s) true (rc_joined s) (rc_bad s) (rc_pcA s) RC_DONE)
         | _ => None
         end
  | _ => None
  end.
Definition rc_init : rc_st := mkRc true 0 false false false false false 0 false 0 0.
Definition rc_final (s : rc_st) : bool := (rc_pcA s =? RC_DONE) && (rc_pcT s =? RC_DONE).
Definition rc_reclaimed (s : rc_st) : nat := rc_joined s + (if rc_detached s then 1 else 0).
(* never joined after detach, never a freed record touched, reclaimed at most once, and exactly once when everybody is through *)
Definition rc_ok (s : rc_st) : bool :=
  negb (rc_bad s) && (rc_reclaimed s <=? 1) && (negb (rc_final s) || (rc_reclaimed s =? 1)).

(* ================================================================== 4g. rfbShutdownServer against the listener thread (main.c listenerRun, rfbShutdownServer)
   ONE incoming connection.  thread 1 = listener: [accept; rfbNewClient LINKS the client] [rfbStartOnHoldClient CREATES its
   thread] then idles in select() until told to stop.  thread 0 = application in rfbShutdownServer, three actions:
   LOOP (for every listed client: rfbCloseClient; pthread_join(cl->client_thread)), STOP (rfbShutdownSockets: socketState =
   SHUTDOWN, notify pipe), JOINL (pthread_join(listener_thread)).  before 633e5d0: LOOP; STOP; JOINL.  fixed = HEAD (633e5d0 = notes/fix_C13_7.diff): STOP; JOINL; LOOP. *)
Record ls_st := mkLs {
  ls_listed : bool; ls_thread : bool; ls_stop : bool;
  ls_badjoin : bool;     (* pthread_join of a client thread that does not exist (yet) *)
  ls_passed : bool;      (* the client loop of rfbShutdownServer is over *)
  ls_late : bool;        (* a client thread was created after that: it outlives rfbShutdownServer *)
  ls_pcA : nat; ls_pcL : nat
}.
Scheme Equality for ls_st.
Definition ls_step (fixed : bool) (t : nat) (s : ls_st) : option ls_st :=
  let loop := mkLs (ls_listed s) (ls_thread s) (ls_stop s) (ls_badjoin s || (ls_listed s && negb (ls_thread s))) true (ls_late s) (S (ls_pcA s)) (ls_pcL s) in
  let stop := mkLs (ls_listed s) (ls_thread s) true (ls_badjoin s) (ls_passed s) (ls_late s) (S (ls_pcA s)) (ls_pcL s) in
  let joinl := if ls_pcL s =? 3 then Some (mkLs (ls_listed s) (ls_thread s) (ls_stop s) (ls_badjoin s) (ls_passed s) (ls_late s) (S (ls_pcA s)) (ls_pcL s)) else None in
  match t with
  | 0 => match ls_pcA s with
         | 0 => if fixed then Some stop else Some loop
         | 1 => if fixed then joinl else Some stop
         | 2 => if fixed then Some loop else joinl
         | _ => None
         end
  | 1 => match ls_pcL s with
         | 0 => if ls_stop s then Some (mkLs (ls_listed s) (ls_thread s) (ls_stop s) (ls_badjoin s) (ls_passed s) (ls_late s) (ls_pcA s) 3)
                else Some (mkLs true (ls_thread s) (ls_stop s) (ls_badjoin s) (ls_passed s) (ls_late s) (ls_pcA s) 1)         (* accept; rfbNewClient links *)
         | 1 => Some (mkLs (ls_listed s) true (ls_stop s) (ls_badjoin s) (ls_passed s) (ls_late s || ls_passed s) (ls_pcA s) 2)    (* rfbStartOnHoldClient *)
         | 2 => if ls_stop s then Some (mkLs (ls_listed s) (ls_thread s) (ls_stop s) (ls_badjoin s) (ls_passed s) (ls_late s) (ls_pcA s) 3) else None
         | _ => None
         end
  | _ => None
  end.
Definition ls_init : ls_st := mkLs false false false false false false 0 0.
Definition ls_final (s : ls_st) : bool := (ls_pcA s =? 3) && (ls_pcL s =? 3).
Definition ls_ok (s : ls_st) : bool := negb (ls_badjoin s) && negb (ls_late s).

(* ================================================================== 4h. rfbCloseClient against the handshake (auth.c, rfbserver.c rfbProcessClientInitMessage)
   ONE client still in its handshake (states 0, 1, 2 = protocol version / security type / initialisation; 3 = RFB_NORMAL; 9 = RFB_SHUTDOWN).
   thread 0 = rfbShutdownServer: rfbCloseClient (LOCK(updateMutex); state = RFB_SHUTDOWN; UNLOCK; notify) then pthread_join.
   thread 1 = clientInput: while (state != RFB_SHUTDOWN) { select; read one handshake message; process it; STORE the next state }.
   before 4891477: the store is a plain assignment.  fixed = HEAD (4891477 = notes/fix_C13_8.diff): LOCK(updateMutex); if (state != RFB_SHUTDOWN) state = next; UNLOCK.
   Once in RFB_NORMAL the (idle) client sends nothing more: select() only returns for the notification, which is consumed once. *)
Record hs_st := mkHs { hs_state : nat; hs_next : nat (* the state the message being processed leads to *); hs_um : nat; hs_exited : bool; hs_pcA : nat; hs_pcI : nat }.
Scheme Equality for hs_st.
Definition hs_step (fixed : bool) (t : nat) (s : hs_st) : option hs_st :=
  match t with
  | 0 => match hs_pcA s with
         | 0 => if hs_um s =? 0 then Some (mkHs (hs_state s) (hs_next s) 1 (hs_exited s) 1 (hs_pcI s)) else None
         | 1 => Some (mkHs 9 (hs_next s) (hs_um s) (hs_exited s) 2 (hs_pcI s))
         | 2 => Some (mkHs (hs_state s) (hs_next s) 0 (hs_exited s) 3 (hs_pcI s))
         | 3 => if hs_exited s then Some (mkHs (hs_state s) (hs_next s) (hs_um s) true 4 (hs_pcI s)) else None     (* pthread_join *)
         | _ => None
         end
  | 1 => match hs_pcI s with
         | 0 => if hs_state s =? 9 then Some (mkHs 9 (hs_next s) (hs_um s) true (hs_pcA s) 9)                     (* loop ends: teardown, thread exits *)
                else if hs_state s <? 3 then Some (mkHs (hs_state s) (S (hs_state s)) (hs_um s) false (hs_pcA s) 1)   (* the next handshake message is read and dispatched *)
                else None                                                                                        (* RFB_NORMAL, idle: select() blocks *)
         | 1 => if fixed
                then (if hs_um s =? 0 then Some (mkHs (hs_state s) (hs_next s) 2 false (hs_pcA s) 2) else None)
                else Some (mkHs (hs_next s) (hs_next s) (hs_um s) false (hs_pcA s) 0)                             (* cl->state = next, unconditionally *)
         | 2 => Some (mkHs (if hs_state s =? 9 then 9 else hs_next s) (hs_next s) (hs_um s) false (hs_pcA s) 3)
         | 3 => Some (mkHs (hs_state s) (hs_next s) 0 false (hs_pcA s) 0)
         | _ => None
         end
  | _ => None
  end.
Definition hs_init : hs_st := mkHs 0 0 0 false 0 0.
Definition hs_final (s : hs_st) : bool := (hs_pcA s =? 4) && (hs_pcI s =? 9).

(* ================================================================== 4b. a request wakes the output thread (rfbserver.c, main.c)
   thread 0 = application: ONE framebuffer operation (kind 0: rfbMarkRectAsModified -> modifiedRegion, TSIGNAL;
              kind 1: rfbDoCopyRect -> copyRegion, TSIGNAL; kind 2: cursor moved/replaced -> cursor flag, no signal)
   thread 1 = clientInput handling one FramebufferUpdateRequest: LOCK(updateMutex); requestedRegion |= r;
              TSIGNAL(updateCond); UNLOCK  (faithful: the signal is unconditional;
              variant "only_if_modified": signal only when modifiedRegion is non-empty)
   thread 2 = clientOutput: LOCK; if requested and FB_UPDATE_PENDING (modified, copy or cursor) then send
              else WAIT(updateCond) *)
Record rq_st := mkRq {
  rq_req : bool; rq_mod : bool; rq_copy : bool; rq_cur : bool;
  rq_um : nat; rq_wait : bool; rq_sent : bool;
  rq_pcA : nat; rq_pcI : nat; rq_pcO : nat
}.
Scheme Equality for rq_st.

Definition rq_upd (req md cp cu : bool) (um : nat) (w sent : bool) (s : rq_st) : rq_st :=
  mkRq req md cp cu um w sent (rq_pcA s) (rq_pcI s) (rq_pcO s).
Definition rq_pc (t : nat) (s : rq_st) : nat := match t with 0 => rq_pcA s | 1 => rq_pcI s | _ => rq_pcO s end.
Definition rq_setpc (t v : nat) (s : rq_st) : rq_st :=
  match t with
  | 0 => mkRq (rq_req s) (rq_mod s) (rq_copy s) (rq_cur s) (rq_um s) (rq_wait s) (rq_sent s) v (rq_pcI s) (rq_pcO s)
  | 1 => mkRq (rq_req s) (rq_mod s) (rq_copy s) (rq_cur s) (rq_um s) (rq_wait s) (rq_sent s) (rq_pcA s) v (rq_pcO s)
  | _ => mkRq (rq_req s) (rq_mod s) (rq_copy s) (rq_cur s) (rq_um s) (rq_wait s) (rq_sent s) (rq_pcA s) (rq_pcI s) v
  end.
Definition rq_pending (s : rq_st) : bool := rq_mod s || rq_copy s || rq_cur s.

Definition rq_step (only_if_modified : bool) (kind : nat) (t : nat) (s : rq_st) : option rq_st :=
  let next := rq_setpc t (S (rq_pc t s)) in
  match t with
  | 0 =>
    match kind with
    | 2 => match rq_pcA s with
           | 0 => Some (next (rq_upd (rq_req s) (rq_mod s) (rq_copy s) true (rq_um s) (rq_wait s) (rq_sent s) s))
           | _ => None
           end
    | _ => match rq_pcA s with
           | 0 => if rq_um s =? 0 then Some (next (rq_upd (rq_req s) (rq_mod s) (rq_copy s) (rq_cur s) 1 (rq_wait s) (rq_sent s) s)) else None
           | 1 => Some (next (rq_upd (rq_req s) (if kind =? 0 then true else rq_mod s) (if kind =? 0 then rq_copy s else true)
                                     (rq_cur s) (rq_um s) false (rq_sent s) s))          (* region update + TSIGNAL *)
           | 2 => Some (next (rq_upd (rq_req s) (rq_mod s) (rq_copy s) (rq_cur s) 0 (rq_wait s) (rq_sent s) s))
           | _ => None
           end
    end
  | 1 =>
    match rq_pcI s with
    | 0 => if rq_um s =? 0 then Some (next (rq_upd (rq_req s) (rq_mod s) (rq_copy s) (rq_cur s) 2 (rq_wait s) (rq_sent s) s)) else None
    | 1 => Some (next (rq_upd true (rq_mod s) (rq_copy s) (rq_cur s) (rq_um s)
                              (if only_if_modified && negb (rq_mod s) then rq_wait s else false) (rq_sent s) s))
    | 2 => Some (next (rq_upd (rq_req s) (rq_mod s) (rq_copy s) (rq_cur s) 0 (rq_wait s) (rq_sent s) s))
    | _ => None
    end
  | 2 =>
    match rq_pcO s with
    | 0 => if rq_um s =? 0 then Some (next (rq_upd (rq_req s) (rq_mod s) (rq_copy s) (rq_cur s) 3 (rq_wait s) (rq_sent s) s)) else None
    | 1 => if rq_req s && rq_pending s
           then Some (rq_setpc 2 3 (rq_upd false false false false 0 (rq_wait s) true s))            (* UNLOCK; send the update *)
           else Some (next (rq_upd (rq_req s) (rq_mod s) (rq_copy s) (rq_cur s) 0 true (rq_sent s) s))  (* WAIT *)
    | 2 => if rq_wait s then None else Some (rq_setpc 2 0 s)                                           (* woken: loop *)
    | 3 => Some (rq_setpc 2 0 s)
    | _ => None
    end
  | _ => None
  end.
Definition rq_init : rq_st := mkRq false false false false 0 false false 0 0 0.
Definition rq_rr : list nat := concat (repeat [0; 1; 2] 16).

(* ================================================================== 4c. marks that arrive while an update is being sent (rfbserver.c)
   rfbSendFramebufferUpdate takes the region to send out of cl->modifiedRegion BEFORE sending
   ("That way, if anything that overlaps the region we're sending is updated, we'll be sure to do
   another update later").  One pixel q inside the rectangle being sent:
   thread 0 = application: writes q, then rfbMarkRectAsModified(q);
   thread 1 = clientOutput: [compute update region, subtract it from modifiedRegion] [read q's row]
              [deliver] [variant "subtract_again": subtract the sent box from modifiedRegion once more]
              then, after the client's next incremental request, a second update if q is still marked. *)
Record sk_st := mkSk {
  sk_modq : bool;        (* q in cl->modifiedRegion *)
  sk_written : bool;     (* the application has written the new value of q *)
  sk_inflight : bool;    (* the row read for the update in flight has the new value *)
  sk_client : bool;      (* the client shows the new value *)
  sk_pcA : nat; sk_pcO : nat
}.
Scheme Equality for sk_st.
Definition sk_step (subtract_again : bool) (t : nat) (s : sk_st) : option sk_st :=
  match t with
  | 0 => match sk_pcA s with
         | 0 => Some (mkSk (sk_modq s) true (sk_inflight s) (sk_client s) 1 (sk_pcO s))
         | 1 => Some (mkSk true (sk_written s) (sk_inflight s) (sk_client s) 2 (sk_pcO s))
         | _ => None
         end
  | 1 => match sk_pcO s with
         | 0 => Some (mkSk false (sk_written s) (sk_inflight s) (sk_client s) (sk_pcA s) 1)
         | 1 => Some (mkSk (sk_modq s) (sk_written s) (sk_written s) (sk_client s) (sk_pcA s) 2)
         | 2 => Some (mkSk (sk_modq s) (sk_written s) (sk_inflight s) (sk_client s || sk_inflight s) (sk_pcA s) 3)
         | 3 => Some (mkSk (if subtract_again then false else sk_modq s) (sk_written s) (sk_inflight s) (sk_client s) (sk_pcA s) 4)
         | 4 => if sk_pcA s =? 2
                then Some (mkSk false (sk_written s) (sk_inflight s) (sk_client s || sk_modq s) (sk_pcA s) 5)
                else None
         | _ => None
         end
  | _ => None
  end.
Definition sk_init : sk_st := mkSk false false false false 0 0.
Definition sk_ok (s : sk_st) : bool := negb ((sk_pcA s =? 2) && (sk_pcO s =? 5)) || sk_client s.

(* ================================================================== 4d. rfbShutdownServer's join (main.c)
   One connected client.  thread 0 = application inside rfbShutdownServer's loop; its iterator holds
   the reference on currentCl that rfbClientIteratorNext took.  thread 1 = the client's clientInput
   thread: it ends when rfbCloseClient notifies it OR when the peer disconnects by itself (any time),
   then runs rfbClientConnectionGone, which waits for refCount = 0 and frees the record.
   FAITHFUL order (code as read): nextCl = rfbClientIteratorNext(iter) [drops the reference on
   currentCl]; read currentCl->sock, rfbCloseClient(currentCl); read currentCl->screen->backgroundLoop
   and currentCl->client_thread; pthread_join.
   REPAIRED order: read currentCl->client_thread and call rfbCloseClient(currentCl) while the iterator's
   reference is held; only then advance the iterator; join the saved thread id. *)
Record sj_st := mkSj {
  sj_ref : nat;          (* iterator references on the record *)
  sj_closed : bool;      (* rfbCloseClient has notified the client thread *)
  sj_freed : bool;       (* rfbClientConnectionGone has freed the record *)
  sj_uaf : bool;         (* the application touched the record after it was freed *)
  sj_pcA : nat; sj_pcC : nat
}.
Scheme Equality for sj_st.
Definition sj_touch (s : sj_st) : bool := sj_uaf s || sj_freed s.
Definition sj_step (repaired : bool) (t : nat) (s : sj_st) : option sj_st :=
  match t with
  | 0 => match sj_pcA s with
         | 0 => if repaired
                then Some (mkSj (sj_ref s) (sj_closed s) (sj_freed s) (sj_touch s) 1 (sj_pcC s))     (* th = currentCl->client_thread *)
                else Some (mkSj 0 (sj_closed s) (sj_freed s) (sj_uaf s) 1 (sj_pcC s))                (* nextCl = Next(iter) *)
         | 1 => Some (mkSj (sj_ref s) true (sj_freed s) (sj_touch s) 2 (sj_pcC s))                   (* currentCl->sock, rfbCloseClient *)
         | 2 => if repaired
                then Some (mkSj 0 (sj_closed s) (sj_freed s) (sj_uaf s) 3 (sj_pcC s))                (* nextCl = Next(iter) *)
                else Some (mkSj (sj_ref s) (sj_closed s) (sj_freed s) (sj_touch s) 3 (sj_pcC s))     (* currentCl->screen, ->client_thread *)
         | 3 => if sj_pcC s =? 2 then Some (mkSj (sj_ref s) (sj_closed s) (sj_freed s) (sj_uaf s) 4 (sj_pcC s)) else None   (* pthread_join *)
         | _ => None
         end
  | 1 => match sj_pcC s with
         | 0 => Some (mkSj (sj_ref s) (sj_closed s) (sj_freed s) (sj_uaf s) (sj_pcA s) 1)            (* notified, or the peer went away *)
         | 1 => if sj_ref s =? 0 then Some (mkSj 0 (sj_closed s) true (sj_uaf s) (sj_pcA s) 2) else None   (* wait refCount = 0; free *)
         | _ => None
         end
  | _ => None
  end.
Definition sj_init : sj_st := mkSj 1 false false false 0 0.
Definition sj_ok (s : sj_st) : bool := negb (sj_uaf s).
Definition sj_final (s : sj_st) : bool := (sj_pcA s =? 4) && (sj_pcC s =? 2).

(* ================================================================== 4e. rfbNewFramebuffer against a client that goes away / arrives (main.c:1126-1229)
   ONE client record X.  thread 0 = application in rfbNewFramebuffer:
     pass 1: an iterator over the OPEN clients (sock >= 0): LOCK(cl->sendMutex);
     middle: LOCK(cursorMutex), new geometry / format / framebuffer pointer, scaled screens;
     pass 3: a NEW iterator over the open clients: per-client update, UNLOCK(cl->sendMutex).
   mode 0: X is an established idle client whose peer has just disconnected; thread 1 = its clientInput thread after
           the loop (output thread joined): rfbCloseSocket, cl->sock = -1, rfbClientConnectionGone = wait for
           refCount = 0 and unlink [one step: both are decided under rfbClientListMutex since 97f9e93, fragment 2],
           clientGoneHook, ..., LOCK(sendMutex); UNLOCK; TINI_MUTEX; free(cl)   (rfbserver.c:669-683).
   mode 1: X is a connection being accepted; thread 1 = the listener thread in rfbNewClient: links X (sock valid,
           sendMutex initialised and free) into the list.
   Each rfbClientIteratorNext is one step (it runs under rfbClientListMutex since 97f9e93). *)
Record nf_st := mkNf {
  nf_sock : bool; nf_inlist : bool; nf_ref : nat;
  nf_send : nat;         (* X's sendMutex: 0 free, 1 held by the application, 2 held by X's own thread *)
  nf_badunlock : bool;   (* UNLOCK of a mutex the caller does not hold *)
  nf_freed : bool;
  nf_locked : bool;      (* notes/fix_C13_5.diff: X is in the array of clients that pass 1 locked (and referenced) *)
  nf_pcA : nat; nf_pcB : nat
}.
Scheme Equality for nf_st.
Definition NF_APP_DONE : nat := 8.
Definition NF_B_DONE : nat := 5.
Definition nf_setA (ref send : nat) (bad locked : bool) (pc : nat) (s : nf_st) : nf_st :=
  mkNf (nf_sock s) (nf_inlist s) ref send bad (nf_freed s) locked pc (nf_pcB s).
Definition nf_setB (sock inl : bool) (send : nat) (freed : bool) (pc : nat) (s : nf_st) : nf_st :=
  mkNf sock inl (nf_ref s) send (nf_badunlock s) freed (nf_locked s) (nf_pcA s) pc.
(* fixed = true: HEAD (74169c1 = notes/fix_C13_5.diff): pass 1 also takes a reference on every client it locks and remembers it;
   the mutexes are released (and the references dropped) for exactly the remembered clients after pass 3 *)
Definition nf_step (fixed : bool) (mode : nat) (t : nat) (s : nf_st) : option nf_st :=
  let seen := nf_inlist s && nf_sock s in
  let keepA := nf_setA (nf_ref s) (nf_send s) (nf_badunlock s) (nf_locked s) in
  match t with
  | 0 => match nf_pcA s with
         | 0 => if seen then Some (nf_setA (S (nf_ref s)) (nf_send s) (nf_badunlock s) (nf_locked s) 1 s)
                else Some (keepA 3 s)                                                                        (* pass 1: Next *)
         | 1 => if nf_send s =? 0
                then Some (nf_setA (if fixed then S (nf_ref s) else nf_ref s) 1 (nf_badunlock s) fixed 2 s)   (* LOCK(sendMutex) [; IncrClientRef; remember] *)
                else None
         | 2 => Some (nf_setA (pred (nf_ref s)) (nf_send s) (nf_badunlock s) (nf_locked s) 3 s)              (* Next = NULL: the iterator's reference is dropped *)
         | 3 => Some (keepA 4 s)                                                                             (* cursorMutex, swap *)
         | 4 => if seen then Some (nf_setA (S (nf_ref s)) (nf_send s) (nf_badunlock s) (nf_locked s) 5 s)
                else Some (keepA 7 s)                                                                        (* pass 3: Next *)
         | 5 => if fixed then Some (keepA 6 s)                                                               (* per-client update *)
                else if nf_send s =? 1
                     then Some (nf_setA (nf_ref s) 0 (nf_badunlock s) (nf_locked s) 6 s)                     (* ... UNLOCK(sendMutex) *)
                     else Some (nf_setA (nf_ref s) (nf_send s) true (nf_locked s) 6 s)                       (* ... of a mutex never locked *)
         | 6 => Some (nf_setA (pred (nf_ref s)) (nf_send s) (nf_badunlock s) (nf_locked s) 7 s)              (* Next = NULL *)
         | 7 => if fixed && nf_locked s
                then Some (nf_setA (pred (nf_ref s)) 0 (nf_badunlock s || negb (nf_send s =? 1)) false NF_APP_DONE s)   (* UNLOCK; DecrClientRef for the remembered client *)
                else Some (keepA NF_APP_DONE s)
         | _ => None
         end
  | 1 => match mode with
         | 0 => match nf_pcB s with
                | 0 => Some (nf_setB false (nf_inlist s) (nf_send s) (nf_freed s) 1 s)                        (* close socket; cl->sock = -1 *)
                | 1 => if nf_ref s =? 0
                       then Some (nf_setB (nf_sock s) false (nf_send s) (nf_freed s) 2 s)                     (* refCount = 0: unlink *)
                       else None                                                                             (* WAIT(deleteCond) *)
                | 2 => Some (nf_setB (nf_sock s) (nf_inlist s) (nf_send s) (nf_freed s) 3 s)                  (* clientGoneHook *)
                | 3 => if nf_send s =? 0 then Some (nf_setB (nf_sock s) (nf_inlist s) 2 (nf_freed s) 4 s) else None   (* LOCK(cl->sendMutex) *)
                | 4 => Some (nf_setB (nf_sock s) (nf_inlist s) 0 true NF_B_DONE s)                            (* UNLOCK; TINI; free(cl) *)
                | _ => None
                end
         | _ => match nf_pcB s with
                | 0 => Some (nf_setB true true (nf_send s) (nf_freed s) NF_B_DONE s)                          (* rfbNewClient links X *)
                | _ => None
                end
         end
  | _ => None
  end.
Definition nf_init (mode : nat) : nf_st :=
  match mode with 0 => mkNf true true 0 0 false false false 0 0 | _ => mkNf false false 0 0 false false false 0 0 end.
Definition nf_final (s : nf_st) : bool := (nf_pcA s =? NF_APP_DONE) && (nf_pcB s =? NF_B_DONE).
(* what must hold once rfbNewFramebuffer has returned: no mutex misuse, X's sendMutex is not left with the application *)
Definition nf_ok (s : nf_st) : bool := negb (nf_badunlock s) && (negb (nf_pcA s =? NF_APP_DONE) || negb (nf_send s =? 1)).

(* ================================================================== 5. lock order
   Mutexes of a server with N clients, numbered by their rank; k = position of the client in the client list
   (rfbNewClient links at the head: position order = reverse accept order):
   sendMutex k < screen->cursorMutex < updateMutex k < rfbClientListMutex < refCountMutex k < outputMutex k *)
Definition P_send (N k : nat) : nat := k.
Definition P_cursor (N : nat) : nat := N.
Definition P_upd (N k : nat) : nat := N + 1 + k.
Definition P_list (N : nat) : nat := 2 * N + 1.
Definition P_ref (N k : nat) : nat := 2 * N + 2 + k.
Definition P_out (N k : nat) : nat := 3 * N + 2 + k.

(* (held, acquired) pairs of the code paths on a true-colour screen, as read from the source (hand-written, not derived) *)
Definition pairs_client (N k : nat) : list (nat * nat) :=
  [ (P_send N k, P_upd N k); (P_send N k, P_cursor N); (P_send N k, P_out N k);   (* clientOutput -> rfbSendFramebufferUpdate *)
    (P_send N k, P_list N); (P_send N k, P_ref N k);                                (* rfbNewFramebuffer: iterator while holding sendMutex *)
    (P_cursor N, P_upd N k); (P_cursor N, P_ref N k);                               (* rfbSetCursor / rfbNewFramebuffer *)
    (P_list N, P_ref N k) ].                                                        (* 97f9e93: reference taken / tested under the list mutex *)
(* pairs that involve two different clients j, k: rfbNewFramebuffer holds every sendMutex, taken in list order *)
Definition pairs_cross (N j k : nat) : list (nat * nat) :=
  (if j <? k then [ (P_send N j, P_send N k) ] else []) ++
  (if j =? k then [] else [ (P_send N j, P_ref N k); (P_send N j, P_upd N k) ]).
Definition lock_table_n (N : nat) : list (nat * nat) :=
  flat_map (pairs_client N) (seq 0 N) ++
  flat_map (fun j => flat_map (pairs_cross N j) (seq 0 N)) (seq 0 N) ++
  [ (P_cursor N, P_list N) ].
(* colour-mapped screen: rfbProcessClientNormalMessage(FramebufferUpdateRequest) holds updateMutex and
   calls rfbSetClientColourMap -> rfbSendSetColourMapEntries -> LOCK(sendMutex), rfbWriteExact,
   and on a write error rfbCloseClient -> LOCK(updateMutex) again; rfbNewFramebuffer with a changed format holds
   sendMutex and calls setTranslateFunction -> rfbSendSetColourMapEntries -> LOCK(sendMutex) again (main.c:1208) *)
Definition lock_table_palette_n (N : nat) : list (nat * nat) :=
  lock_table_n N ++ [ (P_upd N 0, P_send N 0); (P_upd N 0, P_out N 0); (P_upd N 0, P_upd N 0); (P_send N 0, P_send N 0) ].
(* the instance the correspondence run prints (three clients: every kind of pair occurs) *)
Definition lock_table : list (nat * nat) := lock_table_n 3.
Definition lock_table_palette : list (nat * nat) := lock_table_palette_n 3.

Definition respects_rank (tbl : list (nat * nat)) : bool := forallb (fun p => fst p <? snd p) tbl.

Record thr := mkThr { held : list nat; want : option nat }.
