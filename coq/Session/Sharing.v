(* Session/Sharing.v - mirror of the shared / non-shared decision at the end of
   rfbProcessClientInitMessage (src/libvncserver/rfbserver.c), over the client list of ONE screen.

     cl->state = RFB_NORMAL;
     if (!cl->reverseConnection &&
         (cl->screen->neverShared || (!cl->screen->alwaysShared && !ci.shared))) {
         if (cl->screen->dontDisconnect) {
             for every otherCl of the iterator (open clients only):
                 if (otherCl != cl && otherCl->state == RFB_NORMAL) { rfbCloseClient(cl); return; }
         } else {
             for every otherCl of the iterator:
                 if (otherCl != cl && otherCl->state == RFB_NORMAL) rfbCloseClient(otherCl);
         }
     }

   Clients are identified by their index in the list (arrival order); a closed client stays in the
   list with k_open = false (in C it is reaped by the next rfbProcessEvents round; the client
   iterator already skips it).  Definitions only; proofs in Session/SharingProofs.v. *)
From Coq Require Import List Bool Arith ZArith.
From LV Require Import Gen.Consts_C14.
Import ListNotations.

Record flags := mkFlags { f_always : bool; f_never : bool; f_dontdisc : bool }.

(* handshake phases a client can be parked in, as far as the harness distinguishes them *)
Inductive phase := PHold | PSec | PInit | PNormal.   (* PHold: newClientHook said RFB_CLIENT_ON_HOLD *)

Record client := mkClient { k_rev : bool; k_phase : phase; k_open : bool;
                            k_gone : bool  (* the peer has gone away while the client was on hold: not noticed yet *) }.

Definition is_normal (c : client) : bool := match k_phase c with PNormal => true | _ => false end.
Definition live_normal (c : client) : bool := k_open c && is_normal c.

Definition close (c : client) : client := mkClient (k_rev c) (k_phase c) false (k_gone c).
Definition set_phase (c : client) (p : phase) : client := mkClient (k_rev c) p (k_open c) (k_gone c).

(* the condition of the outer if *)
Definition exclusive (fl : flags) (rev shared : bool) : bool :=
  negb rev && (f_never fl || (negb (f_always fl) && negb shared)).

Fixpoint update {A} (l : list A) (i : nat) (f : A -> A) : list A :=
  match l, i with
  | [], _ => []
  | x :: t, O => f x :: t
  | x :: t, S j => x :: update t j f
  end.

(* is there an open RFB_NORMAL client other than i ? (indices start at [from]) *)
Fixpoint other_normal (from i : nat) (l : list client) : bool :=
  match l with
  | [] => false
  | c :: t => (negb (Nat.eqb from i) && live_normal c) || other_normal (S from) i t
  end.

(* rfbCloseClient on every open RFB_NORMAL client other than i *)
Fixpoint close_other_normal (from i : nat) (l : list client) : list client :=
  match l with
  | [] => []
  | c :: t =>
      (if negb (Nat.eqb from i) && live_normal c then close c else c) :: close_other_normal (S from) i t
  end.

(* ClientInit of client i (which must be open and in RFB_INITIALISATION) with the given shared flag *)
Definition client_init (fl : flags) (l : list client) (i : nat) (shared : bool) : list client :=
  match nth_error l i with
  | None => l
  | Some c =>
      if k_open c && match k_phase c with PInit => true | _ => false end then
        let l1 := update l i (fun c => set_phase c PNormal) in
        if exclusive fl (k_rev c) shared then
          if f_dontdisc fl then
            (if other_normal 0 i l1 then update l1 i close else l1)
          else close_other_normal 0 i l1
        else l1
      else l
  end.

Inductive op :=
  | OConn (rev : bool)          (* new connection, version exchanged: parked in RFB_SECURITY_TYPE *)
  | OConnHold (rev : bool)      (* newClientHook returns RFB_CLIENT_ON_HOLD: stays in RFB_PROTOCOL_VERSION, not served *)
  | OConnRefuse (rev : bool)    (* newClientHook returns RFB_CLIENT_REFUSE: closed at once *)
  | ORelease (i : nat)          (* rfbStartOnHoldClient: the pending version line is processed *)
  | OAdv (i : nat)              (* security type None chosen: RFB_INITIALISATION *)
  | OInit (i : nat) (shared : bool)
  | ODrop (i : nat).            (* the peer goes away *)

Definition step (fl : flags) (l : list client) (o : op) : list client :=
  match o with
  | OConn rev => l ++ [mkClient rev PSec true false]
  | OConnHold rev => l ++ [mkClient rev PHold true false]
  | OConnRefuse rev => l ++ [mkClient rev PHold false false]
  | ORelease i =>
      update l i (fun c => if k_open c && match k_phase c with PHold => true | _ => false end
                           then (if k_gone c then close c else set_phase c PSec) else c)
  | OAdv i =>
      update l i (fun c => if k_open c && match k_phase c with PSec => true | _ => false end
                           then set_phase c PInit else c)
  | OInit i shared => client_init fl l i shared
  | ODrop i =>
      (* a client on hold is not read from: the server only notices once it is released *)
      update l i (fun c => if k_open c && match k_phase c with PHold => true | _ => false end
                           then mkClient (k_rev c) (k_phase c) true true else close c)
  end.

Definition run (fl : flags) (l : list client) (ops : list op) : list client := fold_left (step fl) ops l.

(* observation printed by the drivers: -1 closed, else the RFB state number *)
Definition obs_code (c : client) : Z :=
  if k_open c then
    match k_phase c with
    | PHold => c14_RFB_PROTOCOL_VERSION
    | PSec => c14_RFB_SECURITY_TYPE
    | PInit => c14_RFB_INITIALISATION
    | PNormal => c14_RFB_NORMAL
    end
  else (-1)%Z.

(* number of open, inbound, fully connected clients *)
Definition inbound_normal (c : client) : bool := live_normal c && negb (k_rev c).
Definition count_inbound_normal (l : list client) : nat := length (filter inbound_normal l).
