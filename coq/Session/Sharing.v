(* Session/Sharing.v - mirror of the shared / non-shared decision at the end of
   rfbProcessClientInitMessage (src/libvncserver/rfbserver.c), over the client list of ONE screen.

     cl->state = RFB_NORMAL;
     if (!cl->reverseConnection &&
         (cl->screen->neverShared || (!cl->screen->alwaysShared && !ci.shared))) {
         if (cl->screen->dontDisconnect) {
             for every otherCl of the iterator (open clients only):
                 if (otherCl != cl && otherCl->state == RFB_NORMAL) { rfbCloseClient(cl); return; }
         } else {
             for every otherCl of the iterator:
                 if (otherCl != cl && otherCl->state == RFB_NORMAL) rfbCloseClient(otherCl);
         }
     }

   Clients are identified by their index in the list (arrival order); a closed client stays in the
   list with k_open = false (in C it is reaped by the next rfbProcessEvents round; the client
   iterator already skips it).  Definitions only; proofs in Session/SharingProofs.v. *)
From Coq Require Import List Bool Arith ZArith.
From LV Require Import Gen.Consts_C14.
Import ListNotations.

Record flags := mkFlags { f_always : bool; f_never : bool; f_dontdisc : bool }.

(* handshake phases a client can be parked in, as far as the harness distinguishes them *)
Inductive phase := PHold | PSec | PInit | PNormal.   (* PHold: newClientHook said RFB_CLIENT_ON_HOLD *)

(* a message the client has written that the server has not processed yet *)
Inductive pmsg := MAdv | MInit (shared : bool).

Record client := mkClient {
  k_rev : bool; k_phase : phase; k_open : bool;
  k_gone : bool;          (* the peer has hung up; the server has not noticed yet *)
  k_minor : Z;            (* protocol minor version announced by the client *)
  k_pmsg : option pmsg    (* pending message (security type None / ClientInit) *)
}.

Definition is_normal (c : client) : bool := match k_phase c with PNormal => true | _ => false end.
Definition live_normal (c : client) : bool := k_open c && is_normal c.

Definition close (c : client) : client := mkClient (k_rev c) (k_phase c) false (k_gone c) (k_minor c) (k_pmsg c).
Definition set_phase (c : client) (p : phase) : client := mkClient (k_rev c) p (k_open c) (k_gone c) (k_minor c) (k_pmsg c).
Definition set_gone (c : client) : client := mkClient (k_rev c) (k_phase c) (k_open c) true (k_minor c) (k_pmsg c).
Definition set_pmsg (c : client) (m : option pmsg) : client := mkClient (k_rev c) (k_phase c) (k_open c) (k_gone c) (k_minor c) m.

(* the condition of the outer if *)
Definition exclusive (fl : flags) (rev shared : bool) : bool :=
  negb rev && (f_never fl || (negb (f_always fl) && negb shared)).

Fixpoint update {A} (l : list A) (i : nat) (f : A -> A) : list A :=
  match l, i with
  | [], _ => []
  | x :: t, O => f x :: t
  | x :: t, S j => x :: update t j f
  end.

(* is there an open RFB_NORMAL client other than i ? (indices start at [from]) *)
Fixpoint other_normal (from i : nat) (l : list client) : bool :=
  match l with
  | [] => false
  | c :: t => (negb (Nat.eqb from i) && live_normal c) || other_normal (S from) i t
  end.

(* rfbCloseClient on every open RFB_NORMAL client other than i *)
Fixpoint close_other_normal (from i : nat) (l : list client) : list client :=
  match l with
  | [] => []
  | c :: t =>
      (if negb (Nat.eqb from i) && live_normal c then close c else c) :: close_other_normal (S from) i t
  end.

(* ClientInit of client i (which must be open and in RFB_INITIALISATION) with the given shared flag *)
Definition client_init (fl : flags) (l : list client) (i : nat) (shared : bool) : list client :=
  match nth_error l i with
  | None => l
  | Some c =>
      if k_open c && match k_phase c with PInit => true | _ => false end then
        let l1 := update l i (fun c => set_phase c PNormal) in
        if exclusive fl (k_rev c) shared then
          if f_dontdisc fl then
            (if other_normal 0 i l1 then update l1 i close else l1)
          else close_other_normal 0 i l1
        else l1
      else l
  end.

(* ---------------------------------------------------------------- builds without thread support
   Without LIBVNCSERVER_HAVE_LIBPTHREAD the client iterator does NOT skip a client that has been
   closed (sock = -1) but not yet reaped by rfbProcessEvents: if its state is still RFB_NORMAL the
   dontDisconnect loop counts it.  [stale j] = client j is such a closed, unreaped client.  (Closing it
   once more in the other branch changes nothing.)  This variant is not executed by the correspondence
   run (the library is built with threads); it is here to state what still holds. *)
Fixpoint other_normal_nt (stale : nat -> bool) (from i : nat) (l : list client) : bool :=
  match l with
  | [] => false
  | c :: t => (negb (Nat.eqb from i) && (k_open c || stale from) && is_normal c) || other_normal_nt stale (S from) i t
  end.

Definition client_init_nt (stale : nat -> bool) (fl : flags) (l : list client) (i : nat) (shared : bool) : list client :=
  match nth_error l i with
  | None => l
  | Some c =>
      if k_open c && match k_phase c with PInit => true | _ => false end then
        let l1 := update l i (fun c => set_phase c PNormal) in
        if exclusive fl (k_rev c) shared then
          if f_dontdisc fl then
            (if other_normal_nt stale 0 i l1 then update l1 i close else l1)
          else close_other_normal 0 i l1
        else l1
      else l
  end.

(* ---------------------------------------------------------------- the event loop
   Events (a security-type byte, a ClientInit byte, a hang-up) may be pending on several clients
   when rfbProcessEvents runs.  One pass (rfbCheckFds) walks the client list from its head, i.e.
   from the NEWEST client to the oldest, and handles one pending event of every client that is
   open and not on hold: a pending message first, the hang-up (read() = 0 -> rfbCloseClient) only
   when no message is pending.  (If the peer has already hung up when its message is handled, the
   server's answer cannot be written and the client is closed at that point.)  A client closed earlier in the same pass is still in the list (it
   is reaped at the end of rfbProcessEvents) but is skipped by the client iterator. *)
Definition is_hold (c : client) : bool := match k_phase c with PHold => true | _ => false end.
Definition active (c : client) : bool := k_open c && negb (is_hold c).

(* rfbVncAuthNone for a client that chose type None: RFB_INITIALISATION, except for the 3.889
   client, which is initialised at once with an implicit shared ClientInit *)
Definition handle_adv (fl : flags) (l : list client) (i : nat) (c : client) : list client :=
  match k_phase c with
  | PSec =>
      if k_gone c && Z.ltb 7 (k_minor c) then update l i close    (* SecurityResult / ServerInit cannot be written *)
      else
      let l1 := update l i (fun c => set_phase c PInit) in
      if Z.eqb (k_minor c) 889 then client_init fl l1 i true else l1
  | _ => l
  end.

Definition handle_one (fl : flags) (l : list client) (i : nat) : list client :=
  match nth_error l i with
  | None => l
  | Some c =>
      if active c then
        match k_pmsg c with
        | Some m =>
            let l0 := update l i (fun c => set_pmsg c None) in
            match m with
            | MAdv => handle_adv fl l0 i (set_pmsg c None)
            | MInit sh =>
                (* a peer that has already hung up: writing ServerInit fails (EPIPE on the socketpair),
                   rfbCloseClient before the sharing decision is reached *)
                if k_gone c then update l0 i close else client_init fl l0 i sh
            end
        | None => if k_gone c then update l i close else l
        end
      else l
  end.

(* indices n-1, ..., 0 : the list head is the newest client *)
Fixpoint pass_from (fl : flags) (n : nat) (l : list client) : list client :=
  match n with
  | O => l
  | S m => pass_from fl m (handle_one fl l m)
  end.
Definition pass (fl : flags) (l : list client) : list client := pass_from fl (length l) l.

(* rfbProcessEvents until nothing happens: a client has at most one message and one hang-up pending *)
Definition pump (fl : flags) (l : list client) : list client := pass fl (pass fl l).

Inductive op :=
  | OConn (rev : bool) (minor : Z)      (* new connection, version line processed *)
  | OConnHold (rev : bool) (minor : Z)  (* newClientHook returns RFB_CLIENT_ON_HOLD: stays in RFB_PROTOCOL_VERSION, not served *)
  | OConnRefuse (rev : bool)            (* newClientHook returns RFB_CLIENT_REFUSE: closed at once *)
  | ORelease (i : nat)                  (* rfbStartOnHoldClient: the pending version line is processed *)
  | OAdv (i : nat) (quiet : bool)       (* the client writes security type None (if it is in RFB_SECURITY_TYPE) *)
  | OInit (i : nat) (shared : bool) (quiet : bool)   (* ... ClientInit (if it is in RFB_INITIALISATION) *)
  | ODrop (i : nat) (quiet : bool).     (* the peer hangs up *)
(* quiet = true: the event loop does not run after the op, the event stays pending *)

(* state after the version line of a password-less screen: protocol < 3.7 has no type choice *)
Definition phase_after_version (minor : Z) : phase := if Z.ltb minor 7 then PInit else PSec.

Definition enqueue (l : list client) (i : nat) (need : phase -> bool) (m : pmsg) : list client :=
  update l i (fun c => if k_open c && need (k_phase c) && match k_pmsg c with None => true | _ => false end
                              && negb (k_gone c)
                       then set_pmsg c (Some m) else c).

Definition step (fl : flags) (l : list client) (o : op) : list client :=
  match o with
  | OConn rev minor => pump fl (l ++ [mkClient rev (phase_after_version minor) true false minor None])
  | OConnHold rev minor => pump fl (l ++ [mkClient rev PHold true false minor None])
  | OConnRefuse rev => pump fl (l ++ [mkClient rev PHold false false 8%Z None])
  | ORelease i =>
      pump fl (update l i (fun c => if k_open c && is_hold c then set_phase c (phase_after_version (k_minor c)) else c))
  | OAdv i quiet =>
      let l1 := enqueue l i (fun p => match p with PSec => true | _ => false end) MAdv in
      if quiet then l1 else pump fl l1
  | OInit i shared quiet =>
      let l1 := enqueue l i (fun p => match p with PInit => true | _ => false end) (MInit shared) in
      if quiet then l1 else pump fl l1
  | ODrop i quiet =>
      let l1 := update l i (fun c => if k_open c then set_gone c else c) in
      if quiet then l1 else pump fl l1
  end.

Definition run (fl : flags) (l : list client) (ops : list op) : list client := fold_left (step fl) ops l.

(* observation printed by the drivers: -1 closed, else the RFB state number *)
Definition obs_code (c : client) : Z :=
  if k_open c then
    match k_phase c with
    | PHold => c14_RFB_PROTOCOL_VERSION
    | PSec => c14_RFB_SECURITY_TYPE
    | PInit => c14_RFB_INITIALISATION
    | PNormal => c14_RFB_NORMAL
    end
  else (-1)%Z.

(* number of open, inbound, fully connected clients *)
Definition inbound_normal (c : client) : bool := live_normal c && negb (k_rev c).
Definition count_inbound_normal (l : list client) : nat := length (filter inbound_normal l).
