(* C06 - proofs, part 6: exactly-once in-order delivery with any number of OTHER connections
   present, as long as they stay quiet (nothing to read, nothing to flush) during the passes. *)
From Coq Require Import ZArith List Bool Lia.
From LV Require Import Gen.Consts_C06 Wire.C2SInput Session.InputDefs Session.InputProofs
  Session.InputProofs2 Session.InputProofs3 Session.InputProofs4.
Import ListNotations.
Local Open Scope Z_scope.

(* a connection other than [id] that is open, has no byte pending and no remembered pointer
   position to flush; it may be in any protocol state, view-only or not, hold the pointer or not *)
Definition quiet (id : Z) (q : client) : Prop :=
  c_id q <> id /\ c_closed q = false /\ readable (c_in q) = false /\
  (c_viewonly q = true \/ p_lastx (c_ptr q) < 0).

Lemma wake_all_app : forall a b,
  wake_all (a ++ b) = (fst (wake_all a) ++ fst (wake_all b), snd (wake_all a) ++ snd (wake_all b)).
Proof.
  induction a as [|x r IH]; intros b; cbn [app wake_all].
  - destruct (wake_all b); reflexivity.
  - rewrite IH. destruct (wake_all r) as [r' ir], (wake_all b) as [b' ib]. cbn [fst snd].
    destruct (c_closed x); [reflexivity|]. destruct (wake (c_in x)) as [i' rdy]. destruct rdy; reflexivity.
Qed.

Lemma wake_all_quiet : forall id l, Forall (quiet id) l ->
  snd (wake_all l) = [] /\ Forall (quiet id) (fst (wake_all l)).
Proof.
  intros id l H. induction H as [|q r Hq Hr IH]; cbn [wake_all]; [split; [reflexivity|constructor]|].
  destruct IH as [I1 I2]. destruct (wake_all r) as [r' ir]. cbn [fst snd] in *. subst ir.
  destruct Hq as (Hid & Hcl & Hrd & Hfl). rewrite Hcl.
  destruct (wake_spec (c_in q)) as [Ws Wr]. destruct (wake (c_in q)) as [i' rdy]. cbn [fst snd] in *.
  rewrite Wr, Hrd. split; [reflexivity|]. constructor; [|exact I2].
  unfold quiet. replace (c_id (set_in q i')) with (c_id q) by (destruct q; reflexivity).
  replace (c_closed (set_in q i')) with (c_closed q) by (destruct q; reflexivity).
  replace (c_viewonly (set_in q i')) with (c_viewonly q) by (destruct q; reflexivity).
  replace (c_ptr (set_in q i')) with (c_ptr q) by (destruct q; reflexivity).
  rewrite c_in_set_in. repeat split; auto. rewrite (readable_seq _ _ Ws). exact Hrd.
Qed.

Lemma find_client_mid : forall l1 c l2, Forall (quiet (c_id c)) l1 ->
  find_client (l1 ++ c :: l2) (c_id c) = Some c.
Proof.
  induction l1 as [|q r IH]; intros c l2 H; cbn [app find_client].
  - rewrite Z.eqb_refl. reflexivity.
  - inversion H as [|? ? Hq Hr]; subst. destruct Hq as (Hid & _).
    replace (c_id q =? c_id c) with false by (symmetry; apply Z.eqb_neq; exact Hid). apply IH; exact Hr.
Qed.

Lemma put_client_mid : forall l1 c l2 c', Forall (quiet (c_id c)) l1 -> c_id c' = c_id c ->
  put_client (l1 ++ c :: l2) c' = l1 ++ c' :: l2.
Proof.
  induction l1 as [|q r IH]; intros c l2 c' H He; cbn [app put_client].
  - rewrite He, Z.eqb_refl. reflexivity.
  - inversion H as [|? ? Hq Hr]; subst. destruct Hq as (Hid & _).
    rewrite He. replace (c_id q =? c_id c) with false by (symmetry; apply Z.eqb_neq; exact Hid).
    f_equal. apply IH; [exact Hr|exact He].
Qed.

Lemma flush_all_quiet : forall cfg now id l, Forall (quiet id) l -> flush_all cfg now l = (l, []).
Proof.
  intros cfg now id l H. induction H as [|q r Hq Hr IH]; cbn [flush_all]; [reflexivity|].
  rewrite IH. destruct Hq as (_ & _ & _ & Hfl). unfold flush_ptr.
  destruct Hfl as [Hv|Hp].
  - rewrite Hv. reflexivity.
  - replace (0 <=? p_lastx (c_ptr q)) with false by (symmetry; apply Z.leb_gt; exact Hp).
    rewrite andb_false_r. reflexivity.
Qed.

Lemma flush_all_app : forall cfg now a b,
  flush_all cfg now (a ++ b) = (fst (flush_all cfg now a) ++ fst (flush_all cfg now b),
                                snd (flush_all cfg now a) ++ snd (flush_all cfg now b)).
Proof.
  induction a as [|x r IH]; intros b; cbn [app flush_all].
  - destruct (flush_all cfg now b); reflexivity.
  - rewrite IH. destruct (flush_ptr cfg now x) as [x' e1].
    destruct (flush_all cfg now r) as [r' e2], (flush_all cfg now b) as [b' e3]. cbn [fst snd].
    rewrite app_assoc. reflexivity.
Qed.

Lemma reap_open : forall l o, Forall (fun c => c_closed c = false) l -> reap l o = (l, o).
Proof.
  intros l o H. unfold reap. f_equal.
  - induction H as [|x r Hx Hr IH]; cbn; [reflexivity|]. rewrite Hx. cbn. f_equal. exact IH.
  - destruct o as [h|]; [|reflexivity].
    replace (existsb (fun c => (c_id c =? h) && c_closed c) l) with false; [reflexivity|].
    symmetry. induction H as [|x r Hx Hr IH]; cbn; [reflexivity|]. rewrite Hx, andb_false_r. exact IH.
Qed.

Lemma quiet_open : forall id l, Forall (quiet id) l -> Forall (fun c => c_closed c = false) l.
Proof. intros id l H. induction H as [|q r Hq Hr IH]; constructor; [destruct Hq as (_ & H & _); exact H|exact IH]. Qed.

Section OnceMulti.
Variable ext_cut : bool -> clipst -> list Z -> clipst * list utf8cb * bool.

Lemma process_multi_msg : forall s c0 l1 c l2 w r,
  s_clients s = l1 ++ c :: l2 -> Forall (quiet (c_id c0)) l1 -> Forall (quiet (c_id c0)) l2 ->
  cinv c0 c -> ptr_allowed (s_owner s) (c_id c0) = true ->
  g_deferptr (s_cfg s) = 0 -> wmsg_ok w ->
  st_bytes (c_in c) = enc_w w ++ r -> st_eof (c_in c) = false ->
  exists l1' c' l2' o',
    process ext_cut s = (mkSrv (s_cfg s) (l1' ++ c' :: l2') o' (s_now s), expected (s_cfg s) c0 w) /\
    Forall (quiet (c_id c0)) l1' /\ Forall (quiet (c_id c0)) l2' /\
    cinv c0 c' /\ st_bytes (c_in c') = r /\ st_eof (c_in c') = false /\
    ptr_allowed o' (c_id c0) = true.
Proof.
  intros s c0 l1 c l2 w r Hs Q1 Q2 I A D K H Ef. pose proof I as (Hid & Hst & Hcl & Hvo & Hw & Hh & Hlx).
  unfold process. rewrite Hs, wake_all_app.
  destruct (wake_all_quiet _ _ Q1) as [R1 Q1']. destruct (wake_all_quiet _ _ Q2) as [R2 Q2'].
  set (l1' := fst (wake_all l1)) in *. rewrite R1.
  cbn [wake_all]. rewrite Hcl.
  destruct (wake_spec (c_in c)) as [[Wb We] Wr].
  destruct (wake (c_in c)) as [i' rdy]. cbn [fst snd] in *.
  assert (Hrdy : rdy = true).
  { rewrite Wr. unfold readable. rewrite H. destruct (enc_w_cons w) as (t & q & ->). reflexivity. }
  rewrite Hrdy. clear Wr Hrdy.
  rewrite (surjective_pairing (wake_all l2)), R2. set (l2' := fst (wake_all l2)) in *.
  set (c1 := set_in c i').
  assert (I1 : cinv c0 c1) by (apply cinv_set_in; exact I).
  assert (Hid1 : c_id c1 = c_id c0) by (destruct I1 as (X & _); exact X).
  cbn [fst snd]. cbn [app handle_all]. unfold handle. cbn [s_clients s_cfg s_owner s_now].
  rewrite <- Hid in Q1', Q2'. replace (c_id c) with (c_id c1) in Q1', Q2' by (destruct c; reflexivity).
  replace (c_id c) with (c_id c1) by (destruct c; reflexivity).
  rewrite (find_client_mid l1' c1 l2' Q1').
  replace (c_closed c1) with false by (destruct c; cbn in *; congruence).
  assert (H1 : st_bytes (c_in c1) = enc_w w ++ r) by (unfold c1; rewrite c_in_set_in; congruence).
  pose proof (handle_client_w ext_cut (s_cfg s) (s_owner s) c0 c1
               (others_normal_of (l1' ++ c1 :: l2') (c_id c1)) w r I1 A D K H1) as (J & Jb & Je & Jev & Jco & Jo).
  set (a := handle_client ext_cut (s_cfg s) (s_owner s) c1 (others_normal_of (l1' ++ c1 :: l2') (c_id c1))) in *.
  rewrite Jco.
  assert (Jid : c_id (a_client a) = c_id c1) by (destruct J as (X & _); congruence).
  rewrite (put_client_mid l1' c1 l2' (a_client a) Q1' Jid).
  cbn [s_clients s_cfg s_now s_owner].
  rewrite Hid1 in Q1', Q2'.
  rewrite flush_all_app, (flush_all_quiet _ _ _ _ Q1'). cbn [fst snd flush_all].
  destruct J as (Jid0 & Jst & Jcl & Jvo & Jw & Jh & Jlx).
  assert (Fa : flush_ptr (s_cfg s) (s_now s) (a_client a) = (a_client a, [])).
  { unfold flush_ptr. rewrite Jvo. cbn [negb andb].
    replace (0 <=? p_lastx (c_ptr (a_client a))) with false by (symmetry; apply Z.leb_gt; lia). reflexivity. }
  rewrite Fa, (flush_all_quiet _ _ _ _ Q2'). cbn [fst snd app].
  rewrite reap_open.
  2:{ apply Forall_app. split; [eapply quiet_open; exact Q1'|].
      constructor; [exact Jcl|eapply quiet_open; exact Q2']. }
  exists l1', (a_client a), l2', (a_owner a). rewrite Jev, !app_nil_r.
  split; [reflexivity|]. repeat split; auto.
  rewrite Je. unfold c1. rewrite c_in_set_in. congruence.
Qed.

Lemma process_multi_idle : forall s c0 l1 c l2,
  s_clients s = l1 ++ c :: l2 -> Forall (quiet (c_id c0)) l1 -> Forall (quiet (c_id c0)) l2 ->
  cinv c0 c -> st_bytes (c_in c) = [] -> st_eof (c_in c) = false ->
  exists l1' c' l2',
    process ext_cut s = (mkSrv (s_cfg s) (l1' ++ c' :: l2') (s_owner s) (s_now s), []) /\
    Forall (quiet (c_id c0)) l1' /\ Forall (quiet (c_id c0)) l2' /\
    cinv c0 c' /\ st_bytes (c_in c') = [] /\ st_eof (c_in c') = false.
Proof.
  intros s c0 l1 c l2 Hs Q1 Q2 I Hb Ef. pose proof I as (Hid & Hst & Hcl & Hvo & Hw & Hh & Hlx).
  unfold process. rewrite Hs, wake_all_app.
  destruct (wake_all_quiet _ _ Q1) as [R1 Q1']. destruct (wake_all_quiet _ _ Q2) as [R2 Q2'].
  set (l1' := fst (wake_all l1)) in *. rewrite R1.
  cbn [wake_all]. rewrite Hcl.
  destruct (wake_spec (c_in c)) as [[Wb We] Wr].
  destruct (wake (c_in c)) as [i' rdy]. cbn [fst snd] in *.
  assert (Hrdy : rdy = false) by (rewrite Wr; unfold readable; rewrite Hb; exact Ef).
  rewrite Hrdy. clear Wr Hrdy.
  rewrite (surjective_pairing (wake_all l2)), R2. set (l2' := fst (wake_all l2)) in *.
  set (c1 := set_in c i').
  assert (I1 : cinv c0 c1) by (apply cinv_set_in; exact I).
  destruct I1 as (Jid & Jst & Jcl & Jvo & Jw & Jh & Jlx).
  cbn [fst snd]. cbn [app handle_all s_clients s_cfg s_now s_owner].
  rewrite flush_all_app, (flush_all_quiet _ _ _ _ Q1'). cbn [fst snd flush_all].
  assert (Fa : flush_ptr (s_cfg s) (s_now s) c1 = (c1, [])).
  { unfold flush_ptr. rewrite Jvo. cbn [negb andb].
    replace (0 <=? p_lastx (c_ptr c1)) with false by (symmetry; apply Z.leb_gt; lia). reflexivity. }
  rewrite Fa, (flush_all_quiet _ _ _ _ Q2'). cbn [fst snd app].
  rewrite reap_open.
  2:{ apply Forall_app. split; [eapply quiet_open; exact Q1'|].
      constructor; [exact Jcl|eapply quiet_open; exact Q2']. }
  exists l1', c1, l2'. split; [reflexivity|]. split; [exact Q1'|]. split; [exact Q2'|].
  split; [repeat split; auto|]. unfold c1. rewrite c_in_set_in. split; congruence.
Qed.

(* the sender among any number of quiet connections *)
Lemma once_in_order_multi : forall msgs n s c0 l1 c l2,
  s_clients s = l1 ++ c :: l2 -> Forall (quiet (c_id c0)) l1 -> Forall (quiet (c_id c0)) l2 ->
  cinv c0 c -> ptr_allowed (s_owner s) (c_id c0) = true ->
  g_deferptr (s_cfg s) = 0 -> Forall wmsg_ok msgs ->
  st_bytes (c_in c) = concat (map enc_w msgs) -> st_eof (c_in c) = false ->
  (length msgs <= n)%nat ->
  snd (run ext_cut s (processes n)) = concat (map (expected (s_cfg s) c0) msgs).
Proof.
  induction msgs as [|w msgs IH]; intros n s c0 l1 c l2 Hs Q1 Q2 I A D K Hb Ef Hn.
  - cbn [map concat] in *. clear Hn D K. revert s l1 c l2 Hs Q1 Q2 I A Hb Ef.
    induction n as [|n IHn]; intros s l1 c l2 Hs Q1 Q2 I A Hb Ef; cbn [processes run]; [reflexivity|].
    cbn [step]. destruct (process_multi_idle s c0 l1 c l2 Hs Q1 Q2 I Hb Ef) as (l1' & c' & l2' & P & Q1' & Q2' & I' & B' & E').
    rewrite P.
    specialize (IHn (mkSrv (s_cfg s) (l1' ++ c' :: l2') (s_owner s) (s_now s)) l1' c' l2' eq_refl Q1' Q2' I' A B' E').
    destruct (run ext_cut (mkSrv (s_cfg s) (l1' ++ c' :: l2') (s_owner s) (s_now s)) (processes n)) as [s2 e2].
    cbn [snd] in *. exact IHn.
  - destruct n as [|n]; [cbn in Hn; lia|]. cbn [processes run step].
    inversion K as [|? ? Kw Kr]; subst. cbn [map concat] in Hb.
    destruct (process_multi_msg s c0 l1 c l2 w _ Hs Q1 Q2 I A D Kw Hb Ef)
      as (l1' & c' & l2' & o' & P & Q1' & Q2' & I' & B' & E' & A').
    rewrite P.
    specialize (IH n (mkSrv (s_cfg s) (l1' ++ c' :: l2') o' (s_now s)) c0 l1' c' l2' eq_refl Q1' Q2' I' A' D Kr B' E').
    cbn [s_cfg] in IH.
    destruct (run ext_cut (mkSrv (s_cfg s) (l1' ++ c' :: l2') o' (s_now s)) (processes n)) as [s2 e2].
    cbn [snd] in *. cbn [map concat]. rewrite IH; [reflexivity|cbn in Hn; lia].
Qed.

End OnceMulti.
