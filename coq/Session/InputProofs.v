(* C06 - proofs, part 1: the reader.  The result of every read sequence depends only on the
   byte stream (bytes still to come + whether the peer closes afterwards), never on how the
   stream is cut into fragments or on what the kernel already holds. *)
From Coq Require Import ZArith List Bool Lia.
From LV Require Import Gen.Consts_C06 Wire.C2SInput Session.InputDefs.
Import ListNotations.
Local Open Scope Z_scope.

(* ---- the stream a connection will deliver ---- *)
Fixpoint fl_bytes (fl : list fitem) : list Z :=
  match fl with
  | [] => []
  | Frag b :: r => b ++ fl_bytes r
  | Fin :: _ => []
  end.

Fixpoint fl_fin (fl : list fitem) : bool :=
  match fl with
  | [] => false
  | Frag _ :: r => fl_fin r
  | Fin :: _ => true
  end.

Definition st_bytes (i : inp) : list Z := kbuf i ++ (if keof i then [] else fl_bytes (flight i)).
Definition st_eof (i : inp) : bool := keof i || fl_fin (flight i).

(* same stream, possibly cut differently *)
Definition seq (i1 i2 : inp) : Prop := st_bytes i1 = st_bytes i2 /\ st_eof i1 = st_eof i2.

Lemma seq_refl : forall i, seq i i.
Proof. intros; split; reflexivity. Qed.
Lemma seq_sym : forall a b, seq a b -> seq b a.
Proof. intros a b [H1 H2]; split; congruence. Qed.
Lemma seq_trans : forall a b c, seq a b -> seq b c -> seq a c.
Proof. intros a b c [H1 H2] [H3 H4]; split; congruence. Qed.

Lemma firstn_app_le : forall (A : Type) (n : nat) (l1 l2 : list A),
  (n <= length l1)%nat -> firstn n (l1 ++ l2) = firstn n l1.
Proof.
  intros A n l1 l2 H. rewrite firstn_app.
  replace (n - length l1)%nat with 0%nat by lia. cbn. apply app_nil_r.
Qed.

Lemma skipn_app_le : forall (A : Type) (n : nat) (l1 l2 : list A),
  (n <= length l1)%nat -> skipn n (l1 ++ l2) = skipn n l1 ++ l2.
Proof.
  intros A n l1 l2 H. rewrite skipn_app.
  replace (n - length l1)%nat with 0%nat by lia. reflexivity.
Qed.

(* rfbReadExact: specification in terms of the stream only *)
Lemma read_fl_spec : forall (fl : list fitem) (len : nat) (acc kb : list Z) (eof : bool),
  let B := kb ++ (if eof then [] else fl_bytes fl) in
  let E := eof || fl_fin fl in
  match read_fl len acc kb eof fl with
  | ROk a i => (len <= length B)%nat /\ a = acc ++ firstn len B /\
               st_bytes i = skipn len B /\ st_eof i = E
  | RFail e => (length B < len)%nat /\ e = (if E then PEof else PTimeout)
  end.
Proof.
  induction fl as [|it fl IH]; intros len acc kb eof B E.
  - (* nothing in flight *)
    cbn [read_fl]. destruct (len - Nat.min len (length kb))%nat eqn:Hd.
    + assert (Hle : (len <= length kb)%nat) by lia.
      rewrite Nat.min_l by lia.
      unfold st_bytes, st_eof, B, E; cbn [kbuf keof flight fl_bytes fl_fin].
      destruct eof; cbn; rewrite ?app_nil_r; repeat split; try lia; try reflexivity;
        rewrite ?app_nil_r; auto.
      all: rewrite ?orb_false_r; auto.
    + assert (Hlt : (length kb < len)%nat) by lia.
      unfold B, E. destruct eof; cbn [fl_bytes fl_fin]; rewrite ?app_nil_r, ?orb_false_r; cbn; split; auto; lia.
  - cbn [read_fl]. destruct (len - Nat.min len (length kb))%nat eqn:Hd.
    + assert (Hle : (len <= length kb)%nat) by lia.
      rewrite Nat.min_l by lia.
      unfold st_bytes, st_eof, B, E; cbn [kbuf keof flight].
      rewrite app_length.
      repeat split; try lia.
      * rewrite firstn_app_le by lia. reflexivity.
      * rewrite skipn_app_le by lia. reflexivity.
    + assert (Hlt : (length kb < len)%nat) by lia.
      rewrite Nat.min_r in * by lia.
      rewrite firstn_all.
      destruct eof.
      * unfold B, E; cbn. rewrite app_nil_r. split; auto.
      * destruct it as [b|].
        -- specialize (IH (S n) (acc ++ kb) b false).
           cbn zeta in IH. destruct (read_fl (S n) (acc ++ kb) b false fl) as [a i|e].
           ++ destruct IH as (H1 & H2 & H3 & H4).
              unfold B, E; cbn [fl_bytes fl_fin orb]. cbn [orb] in H4.
              rewrite !app_length in *.
              split; [lia|]. split; [|split].
              ** rewrite H2. rewrite <- app_assoc. f_equal.
                 replace len with (length kb + S n)%nat by lia.
                 rewrite firstn_app_2. reflexivity.
              ** rewrite H3. replace len with (length kb + S n)%nat by lia.
                 rewrite (skipn_app (length kb + S n) kb). rewrite (skipn_all2 kb) by lia.
                 replace (length kb + S n - length kb)%nat with (S n) by lia. reflexivity.
              ** exact H4.
           ++ destruct IH as (H1 & H2).
              unfold B, E; cbn [fl_bytes fl_fin orb]. cbn [orb] in H2.
              rewrite !app_length in *. split; [lia|exact H2].
        -- specialize (IH (S n) (acc ++ kb) [] true).
           cbn zeta in IH. destruct (read_fl (S n) (acc ++ kb) [] true fl) as [a i|e].
           ++ destruct IH as (H1 & _). cbn in H1. lia.
           ++ destruct IH as (_ & H2). cbn [orb] in H2.
              unfold B, E; cbn [fl_bytes fl_fin orb]. rewrite app_nil_r.
              split; [lia|]. exact H2.
Qed.

Lemma read_exact_spec : forall len i,
  match read_exact len i with
  | ROk a j => (len <= length (st_bytes i))%nat /\ a = firstn len (st_bytes i) /\
               st_bytes j = skipn len (st_bytes i) /\ st_eof j = st_eof i
  | RFail e => (length (st_bytes i) < len)%nat /\ e = (if st_eof i then PEof else PTimeout)
  end.
Proof.
  intros len i. unfold read_exact.
  pose proof (read_fl_spec (flight i) len [] (kbuf i) (keof i)) as H. cbn zeta in H.
  destruct (read_fl len [] (kbuf i) (keof i) (flight i)); exact H.
Qed.

(* ---- readers that respect the stream ---- *)
Definition rres_rel {A} (r1 r2 : rres A) : Prop :=
  match r1, r2 with
  | ROk a1 j1, ROk a2 j2 => a1 = a2 /\ seq j1 j2
  | RFail e1, RFail e2 => e1 = e2
  | _, _ => False
  end.

Definition rd_resp {A} (p : rd A) : Prop := forall i1 i2, seq i1 i2 -> rres_rel (p i1) (p i2).

Lemma resp_read_exact : forall n, rd_resp (read_exact n).
Proof.
  intros n i1 i2 [Hb He].
  pose proof (read_exact_spec n i1) as H1. pose proof (read_exact_spec n i2) as H2.
  unfold rres_rel. rewrite <- Hb, <- He in H2.
  destruct (read_exact n i1) as [a1 j1|e1], (read_exact n i2) as [a2 j2|e2].
  - destruct H1 as (_ & Ha1 & Hs1 & Hf1), H2 as (_ & Ha2 & Hs2 & Hf2).
    split; [congruence|]. split; congruence.
  - destruct H1 as (H1 & _), H2 as (H2 & _). lia.
  - destruct H1 as (H1 & _), H2 as (H2 & _). lia.
  - destruct H1 as (_ & H1), H2 as (_ & H2). congruence.
Qed.

Lemma resp_ret : forall A (a : A), rd_resp (ret a).
Proof. intros A a i1 i2 H. cbn. auto. Qed.

Lemma resp_fail : forall A e, rd_resp (@fail A e).
Proof. intros A e i1 i2 H. cbn. auto. Qed.

Lemma resp_bind : forall A B (m : rd A) (k : A -> rd B),
  rd_resp m -> (forall a, rd_resp (k a)) -> rd_resp (bind m k).
Proof.
  intros A B m k Hm Hk i1 i2 H. unfold bind. specialize (Hm i1 i2 H). unfold rres_rel in Hm.
  destruct (m i1) as [a1 j1|e1], (m i2) as [a2 j2|e2]; try contradiction.
  - destruct Hm as [-> Hj]. apply Hk. exact Hj.
  - subst. cbn. reflexivity.
Qed.

Lemma resp_need : forall A B (o : option A) (k : A -> rd B),
  (forall a, rd_resp (k a)) -> rd_resp (need o k).
Proof. intros A B [a|] k Hk; cbn; [apply Hk | apply resp_fail]. Qed.

Lemma resp_if : forall A (b : bool) (p q : rd A), rd_resp p -> rd_resp q -> rd_resp (if b then p else q).
Proof. intros A [] p q Hp Hq; assumption. Qed.

Lemma resp_read_words : forall n acc, rd_resp (read_words n acc).
Proof.
  induction n as [|n IH]; intros acc; cbn [read_words].
  - apply resp_ret.
  - apply resp_bind; [apply resp_read_exact|]. intros w. apply resp_need. intros v. apply IH.
Qed.

Lemma resp_read_rest : forall t sz, rd_resp (read_rest t sz).
Proof. intros. unfold read_rest. apply resp_bind; [apply resp_read_exact|]. intros; apply resp_ret. Qed.

Ltac resp :=
  repeat first
    [ apply resp_ret | apply resp_fail | apply resp_read_exact | apply resp_read_rest
    | apply resp_read_words
    | apply resp_bind; [|intro] | apply resp_need; intro | apply resp_if ].

Lemma resp_parse_cut : forall e xl t, rd_resp (parse_cut e xl t).
Proof. intros. unfold parse_cut. resp. Qed.

Lemma resp_parse_textchat : forall t, rd_resp (parse_textchat t).
Proof. intros. unfold parse_textchat. resp. Qed.

Lemma resp_parse_body : forall e xl t, rd_resp (parse_body e xl t).
Proof.
  intros. unfold parse_body.
  repeat (apply resp_if; [resp; try apply resp_parse_cut; try apply resp_parse_textchat|]).
  apply resp_fail.
Qed.

Lemma resp_parse_normal : forall e xl, rd_resp (parse_normal e xl).
Proof.
  intros. unfold parse_normal.
  apply resp_bind; [apply resp_read_exact|]. intro t1. apply resp_need. intro t.
  apply resp_parse_body.
Qed.

Lemma resp_parse_for : forall st e xl, rd_resp (parse_for st e xl).
Proof. intros [] e xl; cbn [parse_for]; try apply resp_parse_normal; resp. Qed.

(* the main select(): readability is a property of the stream, and waiting changes nothing *)
Lemma wake_fl_spec : forall (fl : list fitem) (kb : list Z) (eof : bool),
  let B := kb ++ (if eof then [] else fl_bytes fl) in
  let E := eof || fl_fin fl in
  let '(i, r) := wake_fl kb eof fl in
  st_bytes i = B /\ st_eof i = E /\
  r = (match B with [] => E | _ :: _ => true end).
Proof.
  induction fl as [|it fl IH]; intros kb eof B E; cbn [wake_fl].
  - destruct kb as [|x kb].
    + destruct eof; unfold st_bytes, st_eof, B, E; cbn; auto.
    + unfold st_bytes, st_eof, B, E; cbn; auto.
  - destruct kb as [|x kb].
    + destruct eof.
      * unfold st_bytes, st_eof, B, E; cbn; auto.
      * destruct it as [b|].
        -- specialize (IH b false). cbn zeta in IH. destruct (wake_fl b false fl) as [i r].
           unfold B, E. cbn [fl_bytes fl_fin orb app]. exact IH.
        -- specialize (IH [] true). cbn zeta in IH. destruct (wake_fl [] true fl) as [i r].
           unfold B, E. cbn [fl_bytes fl_fin orb app]. cbn in IH. exact IH.
    + unfold st_bytes, st_eof, B, E; cbn; auto.
Qed.

Definition readable (i : inp) : bool :=
  match st_bytes i with [] => st_eof i | _ :: _ => true end.

Lemma wake_spec : forall i, seq (fst (wake i)) i /\ snd (wake i) = readable i.
Proof.
  intros i. unfold wake, readable.
  pose proof (wake_fl_spec (flight i) (kbuf i) (keof i)) as H. cbn zeta in H.
  destruct (wake_fl (kbuf i) (keof i) (flight i)) as [j r]. cbn [fst snd].
  destruct H as (H1 & H2 & H3). split; [split; assumption|]. exact H3.
Qed.

Lemma readable_seq : forall i1 i2, seq i1 i2 -> readable i1 = readable i2.
Proof. intros i1 i2 [H1 H2]. unfold readable. rewrite H1, H2. reflexivity. Qed.
