(* C06 - executable mirror model of how libvncserver turns the bytes of its client
   connections into application callbacks (definitions only; proofs in InputProofs*.v).

   Mirrored C code (/repo/src/libvncserver):
     sockets.c   rfbReadExactTimeout  -> [read_fl]/[read_exact]  (loop of read()s; on EAGAIN a
                                          select() bounded by maxClientWait; 0 = EOF)
                 rfbCheckFds          -> [wake], [process] phase 1/2 (one message per readable
                                          client per call, client list order, closed skipped)
     rfbserver.c rfbProcessClientMessage (state dispatch)         -> [parse_for]/[apply_msg]
                 rfbProcessClientProtocolVersion / rfbAuthNewClient (auth.c)
                 rfbProcessClientSecurityType / rfbVncAuthNone / rfbAuthProcessClientMessage
                 rfbProcessClientInitMessage (sharing policy)     -> [apply_handshake]
                 rfbProcessClientNormalMessage                     -> [parse_normal]/[apply_normal]
                 rfbClientConnectionGone (pointer release)         -> [reap]
     main.c      rfbProcessEvents / rfbUpdateClient (deferred pointer flush), rfbCheckPasswordByList
     scale.c     ScaleX/ScaleY (binary64 arithmetic, emulated exactly over Z) -> [scale_d]

   The network is explicit: every connection has the bytes the kernel already holds ([kbuf]),
   an end-of-file mark, and a queue of fragments still "in flight" which arrive one by one
   exactly when the server waits for that connection (delivery on demand = the harness'
   select() wrap).  A wait with nothing in flight is a timeout (the peer stalled for
   maxClientWait).  External code is not modelled: DES/password comparison is the per-client
   oracle answer [c_authres]; the extended-clipboard handler is the Section variable
   [ext_cut] (instantiated by Session/Clipboard*.v). *)
From Coq Require Import ZArith List Bool Lia.
From LV Require Import Gen.Consts_C06 Wire.C2SInput.
Import ListNotations.
Local Open Scope Z_scope.

(* ------------------------------------------------------------------------------------ *)
(* the byte source of one connection *)

Inductive fitem := Frag (b : list Z) | Fin.
Record inp := mkInp { kbuf : list Z; keof : bool; flight : list fitem }.
Definition inp_empty : inp := mkInp [] false [].

Inductive perr :=
| PTimeout | PEof                 (* rfbReadExact returned -1 (ETIMEDOUT) / 0 *)
| PTooBig                         (* cut text > 1 MiB, text chat out of range *)
| PUnknown (t : Z)                (* unknown message type: connection closed *)
| PUnmodelled (t : Z)             (* message type outside this model (file transfer) *)
| PInternal.                      (* index outside a buffer the model itself just read *)

Inductive rres (A : Type) := ROk (a : A) (i : inp) | RFail (e : perr).
Arguments ROk {A} a i.
Arguments RFail {A} e.

(* rfbReadExactTimeout: [len] more bytes wanted, [acc] already stored, [kb]/[eof] what the
   kernel holds, [fl] in flight.  One read() takes min(len,|kb|); if more is wanted the next
   read() finds the buffer empty: 0 at EOF, otherwise EAGAIN -> select() -> next fragment. *)
Fixpoint read_fl (len : nat) (acc kb : list Z) (eof : bool) (fl : list fitem) : rres (list Z) :=
  let n := Nat.min len (length kb) in
  let acc' := acc ++ firstn n kb in
  let kb' := skipn n kb in
  match (len - n)%nat with
  | O => ROk acc' (mkInp kb' eof fl)
  | S _ as rest =>
      if eof then RFail PEof else
      match fl with
      | [] => RFail PTimeout
      | Frag b :: fl' => read_fl rest acc' b false fl'
      | Fin :: fl' => read_fl rest acc' [] true fl'
      end
  end.

Definition rd (A : Type) := inp -> rres A.
Definition read_exact (len : nat) : rd (list Z) :=
  fun i => read_fl len [] (kbuf i) (keof i) (flight i).
Definition ret {A} (a : A) : rd A := fun i => ROk a i.
Definition fail {A} (e : perr) : rd A := fun _ => RFail e.
Definition bind {A B} (m : rd A) (k : A -> rd B) : rd B :=
  fun i => match m i with ROk a j => k a j | RFail e => RFail e end.
Definition need {A B} (o : option A) (k : A -> rd B) : rd B :=
  match o with Some a => k a | None => fail PInternal end.

(* the select() of rfbCheckFds: is the connection readable now?  (delivery on demand) *)
Fixpoint wake_fl (kb : list Z) (eof : bool) (fl : list fitem) : inp * bool :=
  match kb with
  | _ :: _ => (mkInp kb eof fl, true)
  | [] =>
    if eof then (mkInp kb eof fl, true) else
    match fl with
    | [] => (mkInp [] false [], false)
    | Frag b :: fl' => wake_fl b false fl'
    | Fin :: fl' => wake_fl [] true fl'
    end
  end.
Definition wake (i : inp) : inp * bool := wake_fl (kbuf i) (keof i) (flight i).

(* ------------------------------------------------------------------------------------ *)
(* parsing: the read sequence of every handler *)

Inductive msg :=
| HVersion (b : list Z) | HSecType (t : Z) | HAuthResp (b : list Z) | HClientInit (shared : Z)
| MSetPixFmt (b : list Z) | MFixColourMap (b : list Z) | MSetEncodings (encs : list Z)
| MFUR (b : list Z) | MKey (down key : Z) | MPtr (mask x y : Z)
| MCutText (text : list Z) | MCutExt (payload : list Z)
| MSetScale (palm : bool) (n : Z) | MSetSW (b : list Z) | MSetServerInput (b : list Z)
| MTextChat (len : Z) (text : option (list Z)) | MXvp (b : list Z)
| MSetDesktopSize (hdr : list Z) (screens : list Z).

Definition nat_of (z : Z) : nat := Z.to_nat z.

Fixpoint read_words (n : nat) (acc : list Z) : rd (list Z) :=
  match n with
  | O => ret (rev acc)
  | S k => bind (read_exact 4) (fun w => need (be32_at w 0) (fun v => read_words k (v :: acc)))
  end.

(* rest of a fixed-size message whose type byte [t] is already read *)
Definition read_rest (t : Z) (size : Z) : rd (list Z) :=
  bind (read_exact (nat_of size - 1)) (fun b => ret (t :: b)).

Definition two31 : Z := 2147483648.
Definition two32 : Z := 4294967296.

(* slack for the compressed form of an extended clipboard message (only with the proposed
   repair notes/fix_C18_3.diff, [xl] = true) *)
Definition c06_ext_slack : Z := 1024.

Definition parse_cut (extclip xl : bool) (t : Z) : rd msg :=
  bind (read_rest t c06_sz_ClientCutText) (fun m =>
  need (be32_at m c06_off_cut_length) (fun len0 =>
    let ext := extclip && (two31 <=? len0) in
    let len := if ext then (two32 - len0) mod two32 else len0 in     (* uint32_t negation *)
    let lim := if ext && xl then c06_cut_text_limit + c06_ext_slack else c06_cut_text_limit in
    if lim <? len then fail PTooBig else
    bind (read_exact (nat_of len)) (fun s =>
      ret (if ext then MCutExt s else MCutText s)))).

Definition parse_textchat (t : Z) : rd msg :=
  bind (read_rest t c06_sz_TextChat) (fun m =>
  need (be32_at m c06_off_tc_length) (fun len =>
    if (len =? c06_rfbTextChatOpen) || (len =? c06_rfbTextChatClose) || (len =? c06_rfbTextChatFinished)
    then ret (MTextChat len None)
    else if (0 <? len) && (len <? c06_rfbTextMaxSize)
    then bind (read_exact (nat_of len)) (fun s => ret (MTextChat len (Some s)))
    else fail PTooBig)).

(* the switch on the message type (first byte already read) *)
Definition parse_body (extclip xl : bool) (t : Z) : rd msg :=
    if t =? c06_rfbSetPixelFormat then bind (read_rest t c06_sz_SetPixelFormat) (fun m => ret (MSetPixFmt m))
    else if t =? c06_rfbFixColourMapEntries then bind (read_rest t c06_sz_FixColourMapEntries) (fun m => ret (MFixColourMap m))
    else if t =? c06_rfbSetEncodings then
      bind (read_rest t c06_sz_SetEncodings) (fun m =>
      need (be16_at m c06_off_se_n) (fun n =>
      bind (read_words (nat_of n) []) (fun encs => ret (MSetEncodings encs))))
    else if t =? c06_rfbFramebufferUpdateRequest then bind (read_rest t c06_sz_FramebufferUpdateRequest) (fun m => ret (MFUR m))
    else if t =? c06_rfbKeyEvent then
      bind (read_rest t c06_sz_KeyEvent) (fun m =>
      need (byte_at m c06_off_key_down) (fun d =>
      need (be32_at m c06_off_key_key) (fun k => ret (MKey d k))))
    else if t =? c06_rfbPointerEvent then
      bind (read_rest t c06_sz_PointerEvent) (fun m =>
      need (byte_at m c06_off_ptr_mask) (fun b =>
      need (be16_at m c06_off_ptr_x) (fun x =>
      need (be16_at m c06_off_ptr_y) (fun y => ret (MPtr b x y)))))
    else if t =? c06_rfbClientCutText then parse_cut extclip xl t
    else if (t =? c06_rfbSetScale) || (t =? c06_rfbPalmVNCSetScaleFactor) then
      bind (read_rest t c06_sz_SetScale) (fun m =>
      need (byte_at m c06_off_scale) (fun n => ret (MSetScale (t =? c06_rfbPalmVNCSetScaleFactor) n)))
    else if t =? c06_rfbSetSW then bind (read_rest t c06_sz_SetSW) (fun m => ret (MSetSW m))
    else if t =? c06_rfbSetServerInput then bind (read_rest t c06_sz_SetServerInput) (fun m => ret (MSetServerInput m))
    else if t =? c06_rfbTextChat then parse_textchat t
    else if t =? c06_rfbXvp then bind (read_rest t c06_sz_Xvp) (fun m => ret (MXvp m))
    else if t =? c06_rfbSetDesktopSize then
      bind (read_rest t c06_sz_SetDesktopSize) (fun m =>
      need (byte_at m c06_off_sdm_nscreens) (fun n =>
        if n =? 0 then ret (MSetDesktopSize m [])
        else bind (read_exact (nat_of (n * c06_sz_ExtDesktopScreen))) (fun s => ret (MSetDesktopSize m s))))
    else if t =? c06_rfbFileTransfer then fail (PUnmodelled t)
    else fail (PUnknown t).

Definition parse_normal (extclip xl : bool) : rd msg :=
  bind (read_exact 1) (fun t1 => need (byte_at t1 0) (parse_body extclip xl)).

Inductive cstate := SVersion | SSecType | SAuth | SInit | SNormal.

Definition state_code (s : cstate) : Z :=
  match s with
  | SVersion => c06_RFB_PROTOCOL_VERSION | SSecType => c06_RFB_SECURITY_TYPE
  | SAuth => c06_RFB_AUTHENTICATION | SInit => c06_RFB_INITIALISATION | SNormal => c06_RFB_NORMAL
  end.

Definition parse_for (st : cstate) (extclip xl : bool) : rd msg :=
  match st with
  | SVersion => bind (read_exact (nat_of c06_sz_ProtocolVersion)) (fun b => ret (HVersion b))
  | SSecType => bind (read_exact 1) (fun b => need (byte_at b 0) (fun t => ret (HSecType t)))
  | SAuth => bind (read_exact (nat_of c06_CHALLENGESIZE)) (fun b => ret (HAuthResp b))
  | SInit => bind (read_exact (nat_of c06_sz_ClientInit)) (fun b => need (byte_at b 0) (fun s => ret (HClientInit s)))
  | SNormal => parse_normal extclip xl
  end.

(* ------------------------------------------------------------------------------------ *)
(* ScaleX/ScaleY: (int)(((double)x / (double)from) * (double)to), IEEE-754 binary64 with
   round-to-nearest-even, computed exactly over Z (x in 1..65535, from,to in 1..65535: no
   subnormal, overflow or NaN can occur).  A zero [from] is the explicit error [None]. *)

Definition rne_div (n d : Z) : Z :=
  let q := n / d in
  let r := n mod d in
  if 2 * r <? d then q
  else if d <? 2 * r then q + 1
  else if Z.even q then q else q + 1.

(* (m, e) with fl(x / fw) = m / 2^e and 2^52 <= m <= 2^53 *)
Definition fdiv53 (x fw : Z) : Z * Z :=
  let e0 := 52 - (Z.log2 x - Z.log2 fw) in
  let e := if x * 2 ^ e0 <? fw * 2 ^ 52 then e0 + 1 else e0 in
  (rne_div (x * 2 ^ e) fw, e).

(* trunc(fl((m / 2^e) * tw)) *)
Definition fmul53_trunc (m e tw : Z) : Z :=
  let p := m * tw in
  let k := Z.log2 p - 52 in
  if k <=? 0 then p / 2 ^ e
  else (rne_div p (2 ^ k) * 2 ^ k) / 2 ^ e.

Definition scale_d (x fw tw : Z) : option Z :=
  if fw <=? 0 then None
  else if x <=? 0 then Some 0
  else let '(m, e) := fdiv53 x fw in Some (fmul53_trunc m e tw).

(* ------------------------------------------------------------------------------------ *)
(* connection and server state *)

Record ptrst := mkPtr {
  p_lastbtn : Z;             (* cl->lastPtrButtons *)
  p_lastx : Z; p_lasty : Z;  (* cl->lastPtrX/Y; lastx = -1: nothing deferred *)
  p_defsec : Z; p_defusec : Z   (* cl->startPtrDeferring; usec = 0: not started *)
}.
Definition ptr0 : ptrst := mkPtr 0 (-1) 0 0 0.

(* clipboard messages the server writes to a client (ServerCutText family), before compression *)
Inductive outmsg :=
| OClassic (text : list Z)       (* rfbServerCutTextMsg, length = |text| *)
| OCaps                          (* rfbSendExtendedClipboardCapability's fixed 16 bytes *)
| ONotify                        (* rfbSendExtendedClipboardNotify's fixed 12 bytes *)
| OProvide (content : list Z).   (* Provide|Text, payload = compress(content) *)

Record clipst := mkClip {
  k_ext : bool;              (* cl->enableExtendedClipboard *)
  k_usercap : Z;             (* cl->extClipboardUserCap *)
  k_maxunsol : Z;            (* cl->extClipboardMaxUnsolicitedSize *)
  k_data : option (list Z);  (* cl->extClipboardData (with its terminating NUL) *)
  k_out : list outmsg;       (* clipboard messages written to this client, oldest first *)
  k_locked : bool            (* cl->sendMutex left locked by a clipboard call *)
}.
Definition clip0 : clipst := mkClip false 452984839 (* 0x1B000007 *) 20971520 None [] false.

(* what setXCutTextUTF8 is handed: [valid] bytes produced by zlib followed by [junk] bytes of
   the malloc'ed buffer that were never written; or a call whose arguments the model cannot
   predict (undefined behaviour of the C code / unspecified zlib status) *)
Inductive utf8cb := U8 (valid : list Z) (junk : Z) | U8Undef.

Record client := mkClient {
  c_id : Z;
  c_state : cstate;
  c_closed : bool;           (* cl->sock == -1, not yet reaped *)
  c_minor : Z;
  c_viewonly : bool;
  c_authres : option Z;      (* oracle: index of the password the response was made with *)
  c_in : inp;
  c_ptr : ptrst;
  c_sw : Z; c_sh : Z;        (* cl->scaledScreen width/height *)
  c_clip : clipst;
  c_rev : bool               (* cl->reverseConnection (rfbReverseConnection): no sharing test, no authentication *)
}.

Definition set_state (c : client) (v : cstate) : client :=
  mkClient (c_id c) v (c_closed c) (c_minor c) (c_viewonly c) (c_authres c) (c_in c) (c_ptr c) (c_sw c) (c_sh c) (c_clip c) (c_rev c).
Definition set_closed (c : client) (v : bool) : client :=
  mkClient (c_id c) (c_state c) v (c_minor c) (c_viewonly c) (c_authres c) (c_in c) (c_ptr c) (c_sw c) (c_sh c) (c_clip c) (c_rev c).
Definition set_minor (c : client) (v : Z) : client :=
  mkClient (c_id c) (c_state c) (c_closed c) v (c_viewonly c) (c_authres c) (c_in c) (c_ptr c) (c_sw c) (c_sh c) (c_clip c) (c_rev c).
Definition set_viewonly (c : client) (v : bool) : client :=
  mkClient (c_id c) (c_state c) (c_closed c) (c_minor c) v (c_authres c) (c_in c) (c_ptr c) (c_sw c) (c_sh c) (c_clip c) (c_rev c).
Definition set_authres (c : client) (v : option Z) : client :=
  mkClient (c_id c) (c_state c) (c_closed c) (c_minor c) (c_viewonly c) v (c_in c) (c_ptr c) (c_sw c) (c_sh c) (c_clip c) (c_rev c).
Definition set_in (c : client) (v : inp) : client :=
  mkClient (c_id c) (c_state c) (c_closed c) (c_minor c) (c_viewonly c) (c_authres c) v (c_ptr c) (c_sw c) (c_sh c) (c_clip c) (c_rev c).
Definition set_ptr (c : client) (v : ptrst) : client :=
  mkClient (c_id c) (c_state c) (c_closed c) (c_minor c) (c_viewonly c) (c_authres c) (c_in c) v (c_sw c) (c_sh c) (c_clip c) (c_rev c).
Definition set_scaled (c : client) (w h : Z) : client :=
  mkClient (c_id c) (c_state c) (c_closed c) (c_minor c) (c_viewonly c) (c_authres c) (c_in c) (c_ptr c) w h (c_clip c) (c_rev c).
Definition set_clip (c : client) (v : clipst) : client :=
  mkClient (c_id c) (c_state c) (c_closed c) (c_minor c) (c_viewonly c) (c_authres c) (c_in c) (c_ptr c) (c_sw c) (c_sh c) v (c_rev c).

Definition set_rev (c : client) (v : bool) : client :=
  mkClient (c_id c) (c_state c) (c_closed c) (c_minor c) (c_viewonly c) (c_authres c) (c_in c) (c_ptr c) (c_sw c) (c_sh c) (c_clip c) v.

Record config := mkCfg {
  g_w : Z; g_h : Z;              (* screen->width/height *)
  g_haspw : bool;                (* screen->authPasswdData != NULL *)
  g_firstvo : Z;                 (* screen->authPasswdFirstViewOnly *)
  g_never : bool; g_always : bool; g_dontdisc : bool;   (* neverShared alwaysShared dontDisconnect *)
  g_deferptr : Z;                (* screen->deferPtrUpdateTime (ms) *)
  g_utf8cb : bool;               (* screen->setXCutTextUTF8 != NULL *)
  g_variant : Z                  (* regression-witness selector, see below; 0 = the code as it is *)
}.

(* The mirror follows the code as it is NOW (variant 0), i.e. with the repairs
     4105625 (a pointer event delivered at once discards the older coalesced position),
     c7c2b1b (ScaleX/ScaleY multiply before dividing),
     3fe86ea (rfbSendServerCutTextUTF8 releases the send mutex of clients it sends nothing to),
     260e10a (an extended-clipboard record whose size field exceeds the inflated data is refused),
     2d15d75 (SetEncodings also resets the extended-clipboard capability),
     8e7b6f1 (a scale factor that reduces the width to zero is refused).
   Bits 0..4 of [g_variant] switch the corresponding OLD behaviour back on: they exist so that
   the former defects stay available as proved regression witnesses and so that the check can
   say precisely which defect has come back when the library regresses.  Bit 5 is different:
   it selects the PROPOSED repair notes/fix_C18_3.diff (1 KiB of slack for the compressed form
   of an extended clipboard message), which the library does not contain yet. *)
Definition fix_defer (cfg : config) : bool := negb (Z.testbit (g_variant cfg) 0).
Definition fix_scale (cfg : config) : bool := negb (Z.testbit (g_variant cfg) 1).
Definition fix_lock (cfg : config) : bool := negb (Z.testbit (g_variant cfg) 2).
Definition fix_short (cfg : config) : bool := negb (Z.testbit (g_variant cfg) 3).
Definition fix_extreset (cfg : config) : bool := negb (Z.testbit (g_variant cfg) 4).
Definition fix_extlimit (cfg : config) : bool := Z.testbit (g_variant cfg) 5.

Record server := mkSrv {
  s_cfg : config;
  s_clients : list client;       (* screen->clientHead list: newest first *)
  s_owner : option Z;            (* screen->pointerClient *)
  s_now : Z                      (* virtual clock, ms *)
}.

Inductive event :=
| EvKey (c : Z) (down key : Z)            (* kbdAddEvent(down, key, cl) *)
| EvPtr (c : Z) (mask x y : Z)            (* ptrAddEvent(mask, x, y, cl) *)
| EvPtrUndef (c : Z) (mask : Z)           (* ptrAddEvent with a position computed from a 0-wide scaled screen *)
| EvCut (c : Z) (text : list Z)           (* setXCutText(str, len, cl) *)
| EvCutUTF8 (c : Z) (valid : list Z) (junk : Z)   (* setXCutTextUTF8(buf, |valid|+junk, cl) *)
| EvUndef (c : Z).                        (* a callback the model cannot predict *)

Definition ev_client (e : event) : Z :=
  match e with
  | EvKey c _ _ | EvPtr c _ _ _ | EvPtrUndef c _ | EvCut c _ | EvCutUTF8 c _ _ | EvUndef c => c
  end.

Definition ev_of_utf8 (c : Z) (u : utf8cb) : event :=
  match u with U8 v j => EvCutUTF8 c v j | U8Undef => EvUndef c end.

Definition new_client (cfg : config) (id : Z) (vo : bool) : client :=
  mkClient id SVersion false 0 vo None inp_empty ptr0 (g_w cfg) (g_h cfg) clip0 false.

(* ------------------------------------------------------------------------------------ *)
(* handlers *)

Section Handlers.

(* the extended-clipboard branch of the ClientCutText handler (rfbserver.c:2881-2935):
   view-only flag, clipboard state, payload -> new clipboard state, texts handed to
   setXCutTextUTF8, close? *)
Variable ext_cut : bool -> clipst -> list Z -> clipst * list utf8cb * bool.

Definition digit (b : Z) : option Z := if (48 <=? b) && (b <=? 57) then Some (b - 48) else None.

(* "RFB %03d.%03d\n" restricted to its canonical form (three digits each); anything else is
   treated as rejected - sscanf accepts a few more spellings, which the generators avoid *)
Definition parse_version (b : list Z) : option (Z * Z) :=
  match b with
  | [82; 70; 66; 32; a1; a2; a3; 46; b1; b2; b3; 10] =>
      match digit a1, digit a2, digit a3, digit b1, digit b2, digit b3 with
      | Some x1, Some x2, Some x3, Some y1, Some y2, Some y3 =>
          Some (x1 * 100 + x2 * 10 + x3, y1 * 100 + y2 * 10 + y3)
      | _, _, _, _, _, _ => None
      end
  | _ => None
  end.

(* rfbClientPrimarySecurityType (auth.c): a reverse connection is never asked for the password *)
Definition needs_auth (cfg : config) (c : client) : bool := g_haspw cfg && negb (c_rev c).
Definition primary_sec (cfg : config) (c : client) : Z :=
  if needs_auth cfg c then c06_rfbSecTypeVncAuth else c06_rfbSecTypeNone.

(* ScaleX/ScaleY as they are, or with the repair (x*to)/from: exact for 16-bit operands *)
Definition scale_v (cfg : config) (x fw tw : Z) : option Z :=
  if fix_scale cfg then (if fw <=? 0 then None else Some (x * tw / fw)) else scale_d x fw tw.

(* what a pointer position of this client means on the unscaled screen *)
Definition map_pos (cfg : config) (c : client) (x y : Z) : option (Z * Z) :=
  if (c_sw c =? g_w cfg) && (c_sh c =? g_h cfg) then Some (x, y)     (* scaledScreen == screen *)
  else match scale_v cfg x (c_sw c) (g_w cfg), scale_v cfg y (c_sh c) (g_h cfg) with
       | Some x', Some y' => Some (x', y')
       | _, _ => None
       end.

Definition ptr_event (cfg : config) (c : client) (mask x y : Z) : event :=
  match map_pos cfg c x y with
  | Some (x', y') => EvPtr (c_id c) mask x' y'
  | None => EvPtrUndef (c_id c) mask
  end.

(* result of applying one parsed message of client [c]:
   new client, new pointer owner, events, "close every other normal client",
   "continue with an implicit ClientInit(shared)" *)
Record applied := mkApplied {
  a_client : client; a_owner : option Z; a_events : list event; a_close_others : bool
}.

Definition applied_same (c : client) (o : option Z) : applied := mkApplied c o [] false.
Definition applied_close (c : client) (o : option Z) : applied := mkApplied (set_closed c true) o [] false.

(* rfbProcessClientInitMessage after the ClientInit byte; [others_normal]: another connection
   in RFB_NORMAL exists *)
Definition apply_init (cfg : config) (o : option Z) (c : client) (shared : Z) (others_normal : bool) : applied :=
  let c1 := set_state c SNormal in
  (* rfbserver.c:889: the sharing test does not apply to a reverse connection *)
  if negb (c_rev c) && (g_never cfg || (negb (g_always cfg) && (shared =? 0))) then
    if g_dontdisc cfg then
      (if others_normal then applied_close c1 o else applied_same c1 o)
    else mkApplied c1 o [] true
  else applied_same c1 o.

Definition apply_handshake (cfg : config) (o : option Z) (c : client) (m : msg) (others_normal : bool) : applied :=
  match m with
  | HVersion b =>
      match parse_version b with
      | None => applied_close c o
      | Some (major, minor) =>
          if negb (major =? c06_rfbProtocolMajorVersion) then applied_close c o else
          let c1 := set_minor c minor in
          if minor <? 7 then
            (if needs_auth cfg c then applied_same (set_state c1 SAuth) o
             else applied_same (set_state c1 SInit) o)
          else applied_same (set_state c1 SSecType) o
      end
  | HSecType t =>
      if negb (t =? primary_sec cfg c) then applied_close c o
      else if needs_auth cfg c then applied_same (set_state c SAuth) o
      else if c_minor c =? 889 then apply_init cfg o c 1 others_normal   (* RFB_INITIALISATION_SHARED *)
      else applied_same (set_state c SInit) o
  | HAuthResp _ =>
      match c_authres c with
      | None => applied_close c o
      | Some k =>
          let c1 := if g_firstvo cfg <=? k then set_viewonly c true else c in
          applied_same (set_state c1 SInit) o
      end
  | HClientInit sh => apply_init cfg o c sh others_normal
  | _ => applied_close c o
  end.

Definition set_ext (k : clipst) (v : bool) : clipst :=
  mkClip v (k_usercap k) (k_maxunsol k) (k_data k) (k_out k) (k_locked k).
Definition add_out (k : clipst) (m : outmsg) : clipst :=
  mkClip (k_ext k) (k_usercap k) (k_maxunsol k) (k_data k) (k_out k ++ [m]) (k_locked k).

Fixpoint apply_encodings (cfg : config) (k : clipst) (encs : list Z) : clipst :=
  match encs with
  | [] => k
  | e :: r =>
      if (e =? c06_rfbEncodingExtendedClipboard) && g_utf8cb cfg
      then apply_encodings cfg (add_out (set_ext k true) OCaps) r
      else apply_encodings cfg k r
  end.

Definition ptr_allowed (o : option Z) (id : Z) : bool :=
  match o with Some h => h =? id | None => true end.

(* rfbSetTranslateFunction (translate.c) for a 32 bpp true-colour server: the client's
   bitsPerPixel must be 8/16/24/32, and 8 if it is not true colour; else the client is closed *)
Definition pixfmt_ok (bpp tc : Z) : bool :=
  ((bpp =? 8) || (bpp =? 16) || (bpp =? 24) || (bpp =? 32)) && (negb (tc =? 0) || (bpp =? 8)).

Definition apply_normal (cfg : config) (o : option Z) (c : client) (m : msg) : applied :=
  match m with
  | MKey d k =>
      if c_viewonly c then applied_same c o
      else mkApplied c o [EvKey (c_id c) d k] false
  | MPtr mask x y =>
      if negb (ptr_allowed o (c_id c)) then applied_same c o else     (* another client holds a button *)
      let o' := if mask =? 0 then None else Some (c_id c) in             (* taken/released BEFORE the viewOnly test *)
      if c_viewonly c then applied_same c o' else
      let p := c_ptr c in
      if negb (mask =? p_lastbtn p) || (g_deferptr cfg =? 0) then
        mkApplied (set_ptr c (mkPtr mask (if fix_defer cfg then -1 else p_lastx p) (p_lasty p) (p_defsec p) (p_defusec p)))
                  o' [ptr_event cfg c mask x y] false
      else
        match map_pos cfg c x y with
        | Some (x', y') => mkApplied (set_ptr c (mkPtr mask x' y' (p_defsec p) (p_defusec p))) o' [] false
        | None => mkApplied (set_ptr c (mkPtr mask (-1) (-1) (p_defsec p) (p_defusec p))) o' [] false
        end
  | MCutText t =>
      if c_viewonly c then applied_same c o
      else mkApplied c o [EvCut (c_id c) t] false
  | MCutExt p =>
      let '(k', texts, close) := ext_cut (c_viewonly c) (c_clip c) p in
      let c1 := set_clip c k' in
      mkApplied (if close then set_closed c1 true else c1) o
                (map (ev_of_utf8 (c_id c)) texts) false
  | MSetEncodings encs =>
      (* every SetEncodings first resets the capability flags - since 2d15d75 also the extended clipboard *)
      let k0 := if fix_extreset cfg then set_ext (c_clip c) false else c_clip c in
      applied_same (set_clip c (apply_encodings cfg k0 encs)) o
  | MSetScale _ n =>
      if n =? 0 then applied_close c o else
      let w := g_w cfg / n in
      let h := g_h cfg / n in
      if (w =? g_w cfg) && (h =? g_h cfg) then applied_same (set_scaled c w h) o   (* rfbScalingFind: the screen itself *)
      else if (h =? 0) || (w =? 0) then applied_same c o                         (* allocation refused (8e7b6f1: also width 0): nothing changes *)
      else applied_same (set_scaled c w h) o
  | MFixColourMap _ => applied_close c o
  | MSetPixFmt m =>
      match byte_at m c06_off_spf_bpp, byte_at m c06_off_spf_truecolour with
      | Some bpp, Some tc =>
          if pixfmt_ok bpp tc then applied_same c o else applied_close c o
      | _, _ => applied_close c o
      end
  | MFUR _ | MSetSW _ | MSetServerInput _ | MTextChat _ _ | MXvp _ | MSetDesktopSize _ _ =>
      applied_same c o
  | _ => applied_close c o
  end.

Definition apply_msg (cfg : config) (o : option Z) (c : client) (m : msg) (others_normal : bool) : applied :=
  match c_state c with
  | SNormal => apply_normal cfg o c m
  | _ => apply_handshake cfg o c m others_normal
  end.

(* rfbProcessClientMessage for one connection: parse (reads), then apply *)
Definition handle_client (cfg : config) (o : option Z) (c : client) (others_normal : bool) : applied :=
  match parse_for (c_state c) (k_ext (c_clip c)) (fix_extlimit cfg) (c_in c) with
  | RFail _ => applied_close c o
  | ROk m i' => apply_msg cfg o (set_in c i') m others_normal
  end.

(* ---- the client list ---- *)
Fixpoint find_client (cs : list client) (id : Z) : option client :=
  match cs with
  | [] => None
  | c :: r => if c_id c =? id then Some c else find_client r id
  end.

Fixpoint put_client (cs : list client) (c' : client) : list client :=
  match cs with
  | [] => []
  | c :: r => if c_id c =? c_id c' then c' :: r else c :: put_client r c'
  end.

Definition is_live_normal (c : client) : bool :=
  negb (c_closed c) && match c_state c with SNormal => true | _ => false end.

Definition others_normal_of (cs : list client) (id : Z) : bool :=
  existsb (fun c => negb (c_id c =? id) && is_live_normal c) cs.

Definition close_others (cs : list client) (id : Z) : list client :=
  map (fun c => if negb (c_id c =? id) && is_live_normal c then set_closed c true else c) cs.

Definition handle (s : server) (id : Z) : server * list event :=
  match find_client (s_clients s) id with
  | None => (s, [])
  | Some c =>
      if c_closed c then (s, []) else
      let a := handle_client (s_cfg s) (s_owner s) c (others_normal_of (s_clients s) id) in
      let cs1 := put_client (s_clients s) (a_client a) in
      let cs2 := if a_close_others a then close_others cs1 id else cs1 in
      (mkSrv (s_cfg s) cs2 (a_owner a) (s_now s), a_events a)
  end.

Fixpoint handle_all (s : server) (ids : list Z) : server * list event :=
  match ids with
  | [] => (s, [])
  | id :: r =>
      let '(s1, e1) := handle s id in
      let '(s2, e2) := handle_all s1 r in
      (s2, e1 ++ e2)
  end.

(* phase 1: the select() of rfbCheckFds over all open connections *)
Fixpoint wake_all (cs : list client) : list client * list Z :=
  match cs with
  | [] => ([], [])
  | c :: r =>
      let '(r', ids) := wake_all r in
      if c_closed c then (c :: r', ids) else
      let '(i', rdy) := wake (c_in c) in
      (set_in c i' :: r', if rdy then c_id c :: ids else ids)
  end.

(* rfbUpdateClient's deferred-pointer part for one connection at virtual time [now] (ms) *)
Definition flush_ptr (cfg : config) (now : Z) (c : client) : client * list event :=
  let p := c_ptr c in
  if negb (c_viewonly c) && (0 <=? p_lastx p) then
    let sec := now / 1000 in
    let usec := (now mod 1000) * 1000 in
    if p_defusec p =? 0 then
      (set_ptr c (mkPtr (p_lastbtn p) (p_lastx p) (p_lasty p) sec (if usec =? 0 then 1 else usec)), [])
    else if (sec <? p_defsec p) ||
            (g_deferptr cfg <? (sec - p_defsec p) * 1000 + Z.quot (usec - p_defusec p) 1000) then
      (set_ptr c (mkPtr (p_lastbtn p) (-1) (p_lasty p) (p_defsec p) 0),
       [EvPtr (c_id c) (p_lastbtn p) (p_lastx p) (p_lasty p)])
    else (c, [])
  else (c, []).

Fixpoint flush_all (cfg : config) (now : Z) (cs : list client) : list client * list event :=
  match cs with
  | [] => ([], [])
  | c :: r =>
      let '(c', e1) := flush_ptr cfg now c in
      let '(r', e2) := flush_all cfg now r in
      (c' :: r', e1 ++ e2)
  end.

(* rfbClientConnectionGone for every closed connection *)
Definition reap (cs : list client) (o : option Z) : list client * option Z :=
  (filter (fun c => negb (c_closed c)) cs,
   match o with
   | Some h => if existsb (fun c => (c_id c =? h) && c_closed c) cs then None else o
   | None => None
   end).

(* one rfbProcessEvents(screen, 0) *)
Definition process (s : server) : server * list event :=
  let '(cs1, ready) := wake_all (s_clients s) in
  let '(s2, ev1) := handle_all (mkSrv (s_cfg s) cs1 (s_owner s) (s_now s)) ready in
  let '(cs3, ev2) := flush_all (s_cfg s2) (s_now s2) (s_clients s2) in
  let '(cs4, o4) := reap cs3 (s_owner s2) in
  (mkSrv (s_cfg s2) cs4 o4 (s_now s2), ev1 ++ ev2).

(* ---- script operations (what the harness can do to the server and its connections) ---- *)
Inductive op :=
| OConnect (id : Z) (vo : bool)          (* rfbNewClient; the application's newClientHook sets viewOnly *)
| OSend (id : Z) (frags : list (list Z)) (* the peer sends these fragments, in this order *)
| OEof (id : Z)                          (* the peer closes after what it has sent *)
| OProcess                               (* rfbProcessEvents(screen, 0) *)
| OViewOnly (id : Z) (v : bool)          (* the application changes cl->viewOnly *)
| OAuthRes (id : Z) (k : option Z)       (* oracle: the next response matches password k / none *)
| OTick (ms : Z).                        (* virtual time passes *)

Definition map_client (cs : list client) (id : Z) (f : client -> client) : list client :=
  map (fun c => if c_id c =? id then f c else c) cs.

Definition push_flight (its : list fitem) (c : client) : client :=
  set_in c (mkInp (kbuf (c_in c)) (keof (c_in c)) (flight (c_in c) ++ its)).

Definition step (s : server) (o : op) : server * list event :=
  match o with
  | OConnect id vo =>
      (mkSrv (s_cfg s) (new_client (s_cfg s) id vo :: s_clients s) (s_owner s) (s_now s), [])
  | OSend id frags =>
      (mkSrv (s_cfg s) (map_client (s_clients s) id (push_flight (map Frag frags))) (s_owner s) (s_now s), [])
  | OEof id =>
      (mkSrv (s_cfg s) (map_client (s_clients s) id (push_flight [Fin])) (s_owner s) (s_now s), [])
  | OProcess => process s
  | OViewOnly id v =>
      (mkSrv (s_cfg s) (map_client (s_clients s) id (fun c => set_viewonly c v)) (s_owner s) (s_now s), [])
  | OAuthRes id k =>
      (mkSrv (s_cfg s) (map_client (s_clients s) id (fun c => set_authres c k)) (s_owner s) (s_now s), [])
  | OTick ms => (mkSrv (s_cfg s) (s_clients s) (s_owner s) (s_now s + ms), [])
  end.

Fixpoint run (s : server) (ops : list op) : server * list event :=
  match ops with
  | [] => (s, [])
  | o :: r =>
      let '(s1, e1) := step s o in
      let '(s2, e2) := run s1 r in
      (s2, e1 ++ e2)
  end.

End Handlers.

Definition init_server (cfg : config) : server := mkSrv cfg [] None 0.

(* C06's instance: the extended clipboard cannot be enabled when the application has no
   setXCutTextUTF8 (g_utf8cb = false); reaching the extended branch closes the connection
   here and the drivers flag it *)
Definition ext_cut_off (vo : bool) (k : clipst) (p : list Z) : clipst * list utf8cb * bool :=
  (k, [], true).

Definition c06_step := step ext_cut_off.
Definition c06_run := run ext_cut_off.
