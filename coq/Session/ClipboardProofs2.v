(* C18 - proofs, part 2 (audit follow-up): rejections lifted to one whole rfbProcessClientMessage
   of the server ("only the sender is closed, every other connection's full record is the same"),
   the publish-side Notify branch and the notify -> request -> provide chain, LibVNCClient's own
   rejections, the per-call zlib rules as explicit statements, and rfbSendServerCutTextUTF8 over
   the whole client list. *)
From Coq Require Import ZArith List Bool Lia.
From LV Require Import Gen.Consts_C06 Gen.Consts_C18 Wire.C2SInput Session.InputDefs
  Session.InputProofs Session.InputProofs2 Session.InputProofs3 Session.InputProofs4 Session.InputProofs5
  Session.ClipboardDefs Session.ClipboardProofs.
Import ListNotations.
Local Open Scope Z_scope.

Ltac Zify.zify_post_hook ::= Z.to_euclidean_division_equations.

(* ---- the client list: serving one connection ---- *)
Lemma find_put_same : forall cs c c' id,
  find_client cs id = Some c -> c_id c' = id -> find_client (put_client cs c') id = Some c'.
Proof.
  induction cs as [|x r IH]; intros c c' id F Hid; cbn in *; [discriminate|].
  destruct (c_id x =? id) eqn:E.
  - apply Z.eqb_eq in E. replace (c_id x =? c_id c') with true by (symmetry; apply Z.eqb_eq; congruence).
    cbn. replace (c_id c' =? id) with true by (symmetry; apply Z.eqb_eq; exact Hid). reflexivity.
  - replace (c_id x =? c_id c') with false by (rewrite Hid; symmetry; exact E).
    cbn. rewrite E. apply (IH c); assumption.
Qed.

(* what "this message closes only its sender" means for one rfbProcessClientMessage of
   connection [id] (record [c] before): no callback, pointer owner and configuration as before,
   the sender's record is closed (clipboard state [k'], everything gating looks at unchanged),
   and the FULL record of every other connection is what it was *)
Definition closes_only_sender (ext_cut : bool -> clipst -> list Z -> clipst * list utf8cb * bool)
  (s : server) (id : Z) (c : client) (k' : clipst) : Prop :=
  let r := handle ext_cut s id in
  snd r = [] /\ s_owner (fst r) = s_owner s /\ s_cfg (fst r) = s_cfg s /\ s_now (fst r) = s_now s /\
  (exists c', find_client (s_clients (fst r)) id = Some c' /\ c_closed c' = true /\ c_clip c' = k' /\
              c_id c' = id /\ c_state c' = c_state c /\ c_viewonly c' = c_viewonly c /\ c_ptr c' = c_ptr c) /\
  (forall id', id' <> id -> find_client (s_clients (fst r)) id' = find_client (s_clients s) id').

(* an extended ClientCutText with payload [p] is the next thing connection [id] has sent *)
Definition ext_msg_pending (s : server) (id : Z) (c : client) (p r : list Z) : Prop :=
  find_client (s_clients s) id = Some c /\ c_closed c = false /\ c_state c = SNormal /\
  k_ext (c_clip c) = true /\ 0 < Z.of_nat (length p) <= c06_cut_text_limit /\
  st_bytes (c_in c) = cut_hdr (neg32 (Z.of_nat (length p))) ++ p ++ r.

Lemma handle_no_close_others : forall ext_cut s id c,
  find_client (s_clients s) id = Some c -> c_closed c = false ->
  let a := handle_client ext_cut (s_cfg s) (s_owner s) c (others_normal_of (s_clients s) id) in
  a_close_others a = false ->
  handle ext_cut s id = (mkSrv (s_cfg s) (put_client (s_clients s) (a_client a)) (a_owner a) (s_now s), a_events a) /\
  find_client (put_client (s_clients s) (a_client a)) id = Some (a_client a) /\
  (forall id', id' <> id -> find_client (put_client (s_clients s) (a_client a)) id' = find_client (s_clients s) id').
Proof.
  intros ext_cut s id c F Hc a Ha. unfold handle. rewrite F, Hc. fold a. rewrite Ha.
  destruct (find_client_id _ _ _ F) as [Hid _].
  assert (Hida : c_id (a_client a) = id) by (unfold a; rewrite handle_client_id; exact Hid).
  split; [reflexivity|]. split.
  - apply (find_put_same _ c); assumption.
  - intros id' Hne. apply find_put_other. congruence.
Qed.

(* a stream the parser refuses (too long, unknown type, end of stream inside a message ...) *)
Lemma fail_closes_only_sender : forall ext_cut s id c e,
  find_client (s_clients s) id = Some c -> c_closed c = false ->
  parse_for (c_state c) (k_ext (c_clip c)) (fix_extlimit (s_cfg s)) (c_in c) = RFail e ->
  closes_only_sender ext_cut s id c (c_clip c).
Proof.
  intros ext_cut s id c e F Hc P.
  assert (A : handle_client ext_cut (s_cfg s) (s_owner s) c (others_normal_of (s_clients s) id)
              = applied_close c (s_owner s)) by (unfold handle_client; rewrite P; reflexivity).
  destruct (handle_no_close_others ext_cut s id c F Hc) as (H & Fs & Fo); [rewrite A; reflexivity|].
  rewrite A in H, Fs, Fo. unfold closes_only_sender. rewrite H. cbn [fst snd s_owner s_cfg s_now s_clients a_events a_owner applied_close a_client] in *.
  repeat split; auto.
  exists (set_closed c true). destruct (find_client_id _ _ _ F) as [Hid _].
  split; [exact Fs|]. destruct c; cbn in *. repeat split; auto.
Qed.

Section ClipProofs2.
Variable zinflate : list Z -> list Z * zterm.
Variable zcompress : list Z -> list Z.
Variable fs : bool.

Notation ext := (ext_cut_real zinflate fs).

(* whether the connection is closed and what becomes of the clipboard state does not depend on
   the view-only flag (only the callbacks do) *)
Lemma provide_loop_close_vo : forall bits vo c t inlen idx pos,
  snd (provide_loop fs vo c t inlen bits idx pos) = snd (provide_loop fs false c t inlen bits idx pos).
Proof.
  clear zinflate zcompress.
  induction bits as [|b r IH]; intros vo c t inlen idx pos; cbn [provide_loop]; [reflexivity|].
  destruct b; [|apply IH].
  destruct (ztake c t inlen pos 4) as [szb st].
  destruct st; try reflexivity.
  destruct (be32_at szb 0) as [size|]; [|reflexivity].
  destruct (c18_ext_size_limit <? size); [reflexivity|].
  destruct (ztake c t inlen (pos + 4) (Z.to_nat size)) as [data st2].
  destruct st2; try reflexivity.
  - destruct (fs && (Z.of_nat (length data) <? size)); [reflexivity|].
    specialize (IH vo c t inlen (S idx) (pos + 4 + length data)%nat).
    destruct (provide_loop fs vo c t inlen r (S idx) (pos + 4 + length data)) as [cbs cl].
    destruct (provide_loop fs false c t inlen r (S idx) (pos + 4 + length data)) as [cbs' cl']. cbn in *. exact IH.
  - destruct (fs && (Z.of_nat (length data) <? size)); [reflexivity|].
    specialize (IH vo c t inlen (S idx) (pos + 4 + length data)%nat).
    destruct (provide_loop fs vo c t inlen r (S idx) (pos + 4 + length data)) as [cbs cl].
    destruct (provide_loop fs false c t inlen r (S idx) (pos + 4 + length data)) as [cbs' cl']. cbn in *. exact IH.
Qed.

Lemma ext_vo_indep : forall vo k p,
  fst (fst (ext vo k p)) = fst (fst (ext false k p)) /\ snd (ext vo k p) = snd (ext false k p).
Proof.
  clear zcompress.
  intros vo k p. unfold ext_cut_real.
  destruct (be32_at p 0) as [flags|]; [|split; reflexivity].
  repeat match goal with
         | |- context [if ?x then _ else _] => destruct x
         | |- context [match be32_at ?a ?b with _ => _ end] => destruct (be32_at a b)
         | |- context [match k_data ?a with _ => _ end] => destruct (k_data a)
         end; try (split; reflexivity).
  destruct (zinflate (skipn 4 p)) as [c t].
  pose proof (provide_loop_close_vo (bits_of 16 flags) vo c t (length (skipn 4 p)) 0 0) as H.
  destruct (provide_loop fs vo c t (length (skipn 4 p)) (bits_of 16 flags) 0 0) as [cbs cl].
  destruct (provide_loop fs false c t (length (skipn 4 p)) (bits_of 16 flags) 0 0) as [cbs' cl'].
  cbn in *. split; [reflexivity|exact H].
Qed.

(* a rejection shown for a connection that may deliver holds for a view-only one as well *)
Lemma ext_reject_any_vo : forall vo k p k',
  ext false k p = (k', [], true) -> ext vo k p = (k', [], true).
Proof.
  clear zcompress.
  intros vo k p k' H. destruct vo; [|exact H].
  destruct (ext_vo_indep true k p) as [H1 H2]. pose proof (ext_gated_real zinflate fs k p) as H3.
  rewrite H in H1, H2. destruct (ext true k p) as [[k1 cb1] cl1]. cbn in *. congruence.
Qed.

(* the handler refuses the payload: seen from the whole server, only the sender is closed *)
Lemma reject_closes_only_sender : forall s id c p r k',
  ext_msg_pending s id c p r ->
  ext false (c_clip c) p = (k', [], true) ->
  closes_only_sender ext s id c k'.
Proof.
  clear zcompress.
  intros s id c p r k' (F & Hc & Hst & He & Hl & Hb) Hrej.
  destruct (handle_ext zinflate fs (s_cfg s) (s_owner s) c (others_normal_of (s_clients s) id) p r Hst He Hl Hb)
    as (j & Bj & Ej & A).
  rewrite (ext_reject_any_vo (c_viewonly c) _ _ _ Hrej) in A.
  destruct (handle_no_close_others ext s id c F Hc) as (H & Fs & Fo); [rewrite A; reflexivity|].
  rewrite A in H, Fs, Fo. unfold closes_only_sender. rewrite H.
  cbn [fst snd s_owner s_cfg s_now s_clients a_events a_owner a_client map] in *.
  repeat split; auto.
  exists (set_closed (set_clip (set_in c j) k') true). destruct (find_client_id _ _ _ F) as [Hid _].
  split; [exact Fs|]. destruct c; cbn in *. repeat split; auto.
Qed.

(* ---- the record-level rejections, for any view-only flag ---- *)
Lemma ext_provide_corrupt_short : forall vo k z c t,
  zinflate z = (c, t) -> (length c < 4)%nat -> t <> ZMore ->
  ext vo k (be32 (c18_Provide + c18_Text) ++ z) = (k, [], true).
Proof.
  clear zcompress.
  intros vo k z c t Hz Hl Ht. apply ext_reject_any_vo. unfold ext_cut_real.
  rewrite be32_at_0 by (vm_compute; split; [discriminate|reflexivity]).
  change (has (c18_Provide + c18_Text) c18_Caps) with false.
  change (has (c18_Provide + c18_Text) c18_Request) with false.
  change (has (c18_Provide + c18_Text) c18_Peek) with false.
  change (has (c18_Provide + c18_Text) c18_Provide) with true.
  cbv iota. change (skipn 4 (be32 (c18_Provide + c18_Text) ++ z)) with z.
  rewrite Hz, bits_provide_text. cbn [provide_loop]. unfold ztake.
  replace (4 <? length c - 0)%nat with false by (symmetry; apply Nat.ltb_ge; lia).
  destruct t; try reflexivity. congruence.
Qed.

(* the stream breaks after the size field, before the promised bytes are complete *)
Lemma ext_provide_corrupt_late : forall vo k z size data,
  zinflate z = (be32 size ++ data, ZErr) -> 0 <= size < two32 -> Z.of_nat (length data) <= size ->
  ext vo k (be32 (c18_Provide + c18_Text) ++ z) = (k, [], true).
Proof.
  clear zcompress.
  intros vo k z size data Hz Hs Hd. apply ext_reject_any_vo. unfold ext_cut_real.
  rewrite be32_at_0 by (vm_compute; split; [discriminate|reflexivity]).
  change (has (c18_Provide + c18_Text) c18_Caps) with false.
  change (has (c18_Provide + c18_Text) c18_Request) with false.
  change (has (c18_Provide + c18_Text) c18_Peek) with false.
  change (has (c18_Provide + c18_Text) c18_Provide) with true.
  cbv iota. change (skipn 4 (be32 (c18_Provide + c18_Text) ++ z)) with z.
  rewrite Hz, bits_provide_text. cbn [provide_loop].
  destruct data as [|d0 dr].
  - unfold ztake. rewrite app_nil_r. cbn [length be32 Nat.sub Nat.ltb Nat.leb]. reflexivity.
  - rewrite ztake_lt; [|lia|rewrite app_length; cbn [length be32]; lia].
    cbn [skipn]. replace (firstn 4 (be32 size ++ d0 :: dr)) with (be32 size ++ []) by (rewrite app_nil_r; reflexivity).
    rewrite be32_at_0 by exact Hs.
    destruct (c18_ext_size_limit <? size); [reflexivity|].
    unfold ztake. rewrite app_length. cbn [length be32].
    replace (Z.to_nat size <? 4 + S (length dr) - (0 + 4))%nat with false
      by (symmetry; apply Nat.ltb_ge; cbn [length] in Hd; lia).
    reflexivity.
Qed.

Lemma ext_provide_too_big_vo : forall vo k z size rest t,
  zinflate z = (be32 size ++ rest, t) -> rest <> [] -> c18_ext_size_limit < size < two32 ->
  ext vo k (be32 (c18_Provide + c18_Text) ++ z) = (k, [], true).
Proof.
  clear zcompress.
  intros. apply ext_reject_any_vo. eapply ext_provide_too_big; eassumption. Qed.

Lemma ext_provide_short_stream_vo : forall vo k z size data t, fs = true ->
  zinflate z = (be32 size ++ data, t) -> t = ZEnd \/ t = ZMore -> data <> [] ->
  Z.of_nat (length data) < size <= c18_ext_size_limit ->
  ext vo k (be32 (c18_Provide + c18_Text) ++ z) = (k, [], true).
Proof.
  clear zcompress.
  intros. apply ext_reject_any_vo. eapply ext_provide_short_stream_fixed; eassumption. Qed.

(* finding C18-ext-exact-1MiB-text: the record of a text whose length EQUALS the limit carries
   size = limit + 1 (the terminating NUL is counted) and is refused: the sender is closed *)
Lemma ext_exact_limit_closes : forall vo k z text t,
  Z.of_nat (length text) = c18_ext_size_limit ->
  zinflate z = (be32 (Z.of_nat (length text) + 1) ++ text ++ [0], t) ->
  ext vo k (be32 (c18_Provide + c18_Text) ++ z) = (k, [], true).
Proof.
  clear zcompress.
  intros vo k z text t Hl Hz. apply (ext_provide_too_big_vo vo k z _ (text ++ [0]) t Hz).
  - destruct text; discriminate.
  - rewrite Hl. unfold c18_ext_size_limit, two32. lia.
Qed.

(* a Caps message whose length is not 4 + 4 * (number of formats): refused (rfbserver.c:2966) *)
Lemma ext_caps_bad_length : forall vo k flags p,
  be32_at p 0 = Some flags -> has flags c18_Caps = true -> popcount16 flags <> 0 ->
  Z.of_nat (length p) <> 4 + popcount16 flags * 4 ->
  ext vo k p = (set_caps k flags, [], true).
Proof.
  clear zcompress.
  intros vo k flags p H0 Hc Hp Hl. unfold ext_cut_real. rewrite H0, Hc.
  replace (popcount16 flags =? 0) with false by (symmetry; apply Z.eqb_neq; exact Hp).
  replace (Z.of_nat (length p) =? 4 + popcount16 flags * 4) with false by (symmetry; apply Z.eqb_neq; exact Hl).
  reflexivity.
Qed.

(* ---- lifted: each rejection closes only its sender ---- *)
Lemma only_sender_short_payload : forall s id c p r,
  ext_msg_pending s id c p r -> (length p < 4)%nat -> closes_only_sender ext s id c (c_clip c).
Proof.
  clear zcompress.
  intros s id c p r Hp Hl. apply (reject_closes_only_sender s id c p r _ Hp). apply ext_short_payload. exact Hl. Qed.

Lemma only_sender_size_field : forall s id c z r size rest t,
  ext_msg_pending s id c (be32 (c18_Provide + c18_Text) ++ z) r ->
  zinflate z = (be32 size ++ rest, t) -> rest <> [] -> c18_ext_size_limit < size < two32 ->
  closes_only_sender ext s id c (c_clip c).
Proof.
  clear zcompress.
  intros s id c z r size rest t Hp Hz Hr Hs. apply (reject_closes_only_sender s id c _ r _ Hp).
  eapply ext_provide_too_big; eassumption. Qed.

Lemma only_sender_exact_limit : forall s id c z r text t,
  ext_msg_pending s id c (be32 (c18_Provide + c18_Text) ++ z) r ->
  Z.of_nat (length text) = c18_ext_size_limit ->
  zinflate z = (be32 (Z.of_nat (length text) + 1) ++ text ++ [0], t) ->
  closes_only_sender ext s id c (c_clip c).
Proof.
  clear zcompress.
  intros s id c z r text t Hp Hl Hz. apply (reject_closes_only_sender s id c _ r _ Hp).
  eapply ext_exact_limit_closes; eassumption. Qed.

Lemma only_sender_corrupt_short : forall s id c z r cc t,
  ext_msg_pending s id c (be32 (c18_Provide + c18_Text) ++ z) r ->
  zinflate z = (cc, t) -> (length cc < 4)%nat -> t <> ZMore ->
  closes_only_sender ext s id c (c_clip c).
Proof.
  clear zcompress.
  intros s id c z r cc t Hp Hz Hl Ht. apply (reject_closes_only_sender s id c _ r _ Hp).
  eapply ext_provide_corrupt_short; eassumption. Qed.

Lemma only_sender_corrupt_late : forall s id c z r size data,
  ext_msg_pending s id c (be32 (c18_Provide + c18_Text) ++ z) r ->
  zinflate z = (be32 size ++ data, ZErr) -> 0 <= size < two32 -> Z.of_nat (length data) <= size ->
  closes_only_sender ext s id c (c_clip c).
Proof.
  clear zcompress.
  intros s id c z r size data Hp Hz Hs Hd. apply (reject_closes_only_sender s id c _ r _ Hp).
  eapply ext_provide_corrupt_late; eassumption. Qed.

Lemma only_sender_short_stream : forall s id c z r size data t, fs = true ->
  ext_msg_pending s id c (be32 (c18_Provide + c18_Text) ++ z) r ->
  zinflate z = (be32 size ++ data, t) -> t = ZEnd \/ t = ZMore -> data <> [] ->
  Z.of_nat (length data) < size <= c18_ext_size_limit ->
  closes_only_sender ext s id c (c_clip c).
Proof.
  clear zcompress.
  intros s id c z r size data t Hfs Hp Hz Ht Hd Hs. apply (reject_closes_only_sender s id c _ r _ Hp).
  eapply ext_provide_short_stream_fixed; eassumption. Qed.

Lemma only_sender_caps_length : forall s id c p r flags,
  ext_msg_pending s id c p r ->
  be32_at p 0 = Some flags -> has flags c18_Caps = true -> popcount16 flags <> 0 ->
  Z.of_nat (length p) <> 4 + popcount16 flags * 4 ->
  closes_only_sender ext s id c (set_caps (c_clip c) flags).
Proof.
  clear zcompress.
  intros s id c p r flags Hp H0 Hc Hn Hl. apply (reject_closes_only_sender s id c p r _ Hp).
  apply ext_caps_bad_length; assumption. Qed.

(* the sign-encoded length whose magnitude exceeds the limit: refused before the payload is read *)
Lemma only_sender_negative_length : forall s id c len0 r,
  find_client (s_clients s) id = Some c -> c_closed c = false -> c_state c = SNormal ->
  k_ext (c_clip c) = true ->
  two31 <= len0 < two32 ->
  c06_cut_text_limit + (if fix_extlimit (s_cfg s) then c06_ext_slack else 0) < neg32 len0 ->
  st_bytes (c_in c) = cut_hdr len0 ++ r ->
  closes_only_sender ext s id c (c_clip c).
Proof.
  clear zcompress.
  intros s id c len0 r F Hc Hst He Hl Hb H.
  apply (fail_closes_only_sender ext s id c PTooBig F Hc). rewrite Hst, He. cbn [parse_for].
  eapply parse_cut_ext_too_big; eassumption.
Qed.

(* ---- LibVNCClient's own rejections (it gives up the connection: HandleRFBServerMessage FALSE) ---- *)
(* one whole extended ServerCutText message with payload [p] *)
Definition sct_ext_msg (p : list Z) : list Z :=
  [c18_rfbServerCutText; 0; 0; 0] ++ be32 (neg32 (Z.of_nat (length p))) ++ p.

Lemma lvc_recv_ext_msg : forall xl l p,
  l_utf8 l = true -> 0 < Z.of_nat (length p) <= c18_lvc_cut_limit ->
  lvc_recv zinflate xl l (sct_ext_msg p) = lvc_ext zinflate l p.
Proof.
  clear zcompress.
  intros xl l p Hu Hl. unfold sct_ext_msg, lvc_recv. set (L := Z.of_nat (length p)) in *.
  assert (HL : 0 < L <= c06_cut_text_limit) by (unfold c18_lvc_cut_limit, c06_cut_text_limit in *; lia).
  destruct (neg32_small L HL) as [Hn Hnn].
  change ([c18_rfbServerCutText; 0; 0; 0] ++ be32 (neg32 L) ++ p)
    with (c18_rfbServerCutText :: 0 :: 0 :: 0 :: be32 (neg32 L) ++ p).
  rewrite be32_at_4 by (unfold two31, two32 in *; lia).
  replace (two31 <=? neg32 L) with true by (symmetry; apply Z.leb_le; lia).
  rewrite Hnn. cbn [andb].
  replace ((if xl then c18_lvc_cut_limit + c06_ext_slack else c18_lvc_cut_limit) <? L) with false
    by (symmetry; apply Z.ltb_ge; destruct xl; unfold c06_ext_slack; lia).
  rewrite skipn_8_hdr. unfold L. rewrite Z.eqb_refl. cbn [negb]. rewrite Hu. reflexivity.
Qed.

(* rfbclient.c:2598: a message longer than the limit (classic or extended) *)
Lemma lvc_recv_too_long : forall (xl : bool) l m len0,
  be32_at m 4 = Some len0 ->
  (if two31 <=? len0
   then c18_lvc_cut_limit + (if xl then c06_ext_slack else 0) < neg32 len0
   else c18_lvc_cut_limit < len0) ->
  lvc_recv zinflate xl l m = (l, [], false).
Proof.
  clear zcompress.
  intros xl l m len0 H4 Hb. unfold lvc_recv. rewrite H4.
  destruct (two31 <=? len0); cbn [andb].
  - replace ((if xl then c18_lvc_cut_limit + c06_ext_slack else c18_lvc_cut_limit) <? neg32 len0) with true
      by (symmetry; apply Z.ltb_lt; destruct xl; lia). reflexivity.
  - replace (c18_lvc_cut_limit <? len0) with true by (symmetry; apply Z.ltb_lt; lia). reflexivity.
Qed.

(* rfbclient.c:1930: fewer than 4 payload bytes *)
Lemma lvc_ext_short_payload : forall l p, (length p < 4)%nat -> lvc_ext zinflate l p = (l, [], false).
Proof.
  clear zcompress.
  intros l p H. unfold lvc_ext. destruct p as [|a [|b [|c [|d q]]]]; try reflexivity. cbn in H. lia. Qed.

(* rfbclient.c:1979: the size field exceeds the limit *)
Lemma lvc_ext_too_big : forall l z size rest t,
  zinflate z = (be32 size ++ rest, t) -> rest <> [] -> c18_lvc_ext_size_limit < size < two32 ->
  lvc_ext zinflate l (be32 (c18_Provide + c18_Text) ++ z) = (l, [], false).
Proof.
  clear zcompress.
  intros l z size rest t Hz Hr Hs. unfold lvc_ext.
  rewrite be32_at_0 by (vm_compute; split; [discriminate|reflexivity]).
  change (has (c18_Provide + c18_Text) c18_Text) with true.
  change (has (c18_Provide + c18_Text) c18_Provide) with true.
  change (has (c18_Provide + c18_Text) c18_Caps) with false.
  cbn [negb]. change (skipn 4 (be32 (c18_Provide + c18_Text) ++ z)) with z. rewrite Hz.
  rewrite ztake_lt; [|lia|rewrite app_length; cbn [length be32]; destruct rest; [congruence|cbn; lia]].
  cbn [skipn]. replace (firstn 4 (be32 size ++ rest)) with (be32 size ++ []) by (rewrite app_nil_r; reflexivity).
  rewrite be32_at_0 by (unfold c18_lvc_ext_size_limit in *; lia).
  replace (c18_lvc_ext_size_limit <? size) with true by (symmetry; apply Z.ltb_lt; lia). reflexivity.
Qed.

Lemma lvc_ext_exact_limit : forall l z text t,
  Z.of_nat (length text) = c18_lvc_ext_size_limit ->
  zinflate z = (be32 (Z.of_nat (length text) + 1) ++ text ++ [0], t) ->
  lvc_ext zinflate l (be32 (c18_Provide + c18_Text) ++ z) = (l, [], false).
Proof.
  clear zcompress.
  intros l z text t Hl Hz. apply (lvc_ext_too_big l z _ (text ++ [0]) t Hz).
  - destruct text; discriminate.
  - rewrite Hl. unfold c18_lvc_ext_size_limit, two32. lia.
Qed.

(* rfbclient.c:2001: fewer bytes than the size field promises (stream finished or still open) *)
Lemma lvc_ext_short_stream : forall l z size data t,
  zinflate z = (be32 size ++ data, t) -> t = ZEnd \/ t = ZMore -> data <> [] ->
  Z.of_nat (length data) < size <= c18_lvc_ext_size_limit ->
  lvc_ext zinflate l (be32 (c18_Provide + c18_Text) ++ z) = (l, [], false).
Proof.
  clear zcompress.
  intros l z size data t Hz Ht Hd Hs. unfold lvc_ext.
  rewrite be32_at_0 by (vm_compute; split; [discriminate|reflexivity]).
  change (has (c18_Provide + c18_Text) c18_Text) with true.
  change (has (c18_Provide + c18_Text) c18_Provide) with true.
  change (has (c18_Provide + c18_Text) c18_Caps) with false.
  cbn [negb]. change (skipn 4 (be32 (c18_Provide + c18_Text) ++ z)) with z. rewrite Hz.
  assert (Hdl : (0 < length data)%nat) by (destruct data; [congruence|cbn; lia]).
  rewrite ztake_lt; [|lia|rewrite app_length; cbn [length be32]; lia].
  cbn [skipn]. replace (firstn 4 (be32 size ++ data)) with (be32 size ++ []) by (rewrite app_nil_r; reflexivity).
  rewrite be32_at_0 by (unfold two32, c18_lvc_ext_size_limit in *; lia).
  replace (c18_lvc_ext_size_limit <? size) with false by (symmetry; apply Z.ltb_ge; lia).
  unfold ztake. rewrite app_length. cbn [length be32].
  replace (Z.to_nat size <? 4 + length data - 4)%nat with false by (symmetry; apply Nat.ltb_ge; lia).
  change (skipn 4 (be32 size ++ data)) with data.
  replace (Z.of_nat (length data) =? size) with false by (symmetry; apply Z.eqb_neq; lia).
  destruct Ht as [-> | ->]; [reflexivity|].
  replace (0 <? 4 + length data - 4)%nat with true by (symmetry; apply Nat.ltb_lt; lia). reflexivity.
Qed.

(* rfbclient.c:1973/1995: inflate fails before the size field is complete / before the data is *)
Lemma lvc_ext_corrupt_short : forall l z c t,
  zinflate z = (c, t) -> (length c < 4)%nat -> t <> ZMore ->
  lvc_ext zinflate l (be32 (c18_Provide + c18_Text) ++ z) = (l, [], false).
Proof.
  clear zcompress.
  intros l z c t Hz Hl Ht. unfold lvc_ext.
  rewrite be32_at_0 by (vm_compute; split; [discriminate|reflexivity]).
  change (has (c18_Provide + c18_Text) c18_Text) with true.
  change (has (c18_Provide + c18_Text) c18_Provide) with true.
  change (has (c18_Provide + c18_Text) c18_Caps) with false.
  cbn [negb]. change (skipn 4 (be32 (c18_Provide + c18_Text) ++ z)) with z. rewrite Hz.
  unfold ztake. replace (4 <? length c - 0)%nat with false by (symmetry; apply Nat.ltb_ge; lia).
  destruct t; try reflexivity. congruence.
Qed.

Lemma lvc_ext_corrupt_late : forall l z size data,
  zinflate z = (be32 size ++ data, ZErr) -> 0 <= size < two32 -> Z.of_nat (length data) <= size ->
  lvc_ext zinflate l (be32 (c18_Provide + c18_Text) ++ z) = (l, [], false).
Proof.
  clear zcompress.
  intros l z size data Hz Hs Hd. unfold lvc_ext.
  rewrite be32_at_0 by (vm_compute; split; [discriminate|reflexivity]).
  change (has (c18_Provide + c18_Text) c18_Text) with true.
  change (has (c18_Provide + c18_Text) c18_Provide) with true.
  change (has (c18_Provide + c18_Text) c18_Caps) with false.
  cbn [negb]. change (skipn 4 (be32 (c18_Provide + c18_Text) ++ z)) with z. rewrite Hz.
  destruct data as [|d0 dr].
  - unfold ztake. rewrite app_nil_r. cbn [length be32 Nat.sub Nat.ltb Nat.leb]. reflexivity.
  - rewrite ztake_lt; [|lia|rewrite app_length; cbn [length be32]; lia].
    cbn [skipn]. replace (firstn 4 (be32 size ++ d0 :: dr)) with (be32 size ++ []) by (rewrite app_nil_r; reflexivity).
    rewrite be32_at_0 by exact Hs.
    destruct (c18_lvc_ext_size_limit <? size); [reflexivity|].
    unfold ztake. rewrite app_length. cbn [length be32].
    replace (Z.to_nat size <? 4 + S (length dr) - 4)%nat with false
      by (symmetry; apply Nat.ltb_ge; cbn [length] in Hd; lia).
    reflexivity.
Qed.

(* a Notify (or any message without Provide, or without the text format) is ignored by the client:
   LibVNCClient never sends a Request, so a text announced by Notify only is not fetched *)
Lemma lvc_recv_notify_ignored : forall xl l, l_utf8 l = true ->
  lvc_recv zinflate xl l (enc_out zcompress ONotify) = (l, [], true).
Proof.
  intros xl l Hu. destruct l as [caps u]. cbn [l_utf8] in Hu. subst u. destruct xl; reflexivity. Qed.

End ClipProofs2.

(* ---- the per-call rules of zlib's decoder that [ztake] encodes, as explicit statements:
   any function obeying these four rules IS [ztake] on every call that asks for at least one byte
   (a call asking for 0 bytes has no specified status: ZS_UNKNOWN in the model) ---- *)
Definition zrule_space (zt : list Z -> zterm -> nat -> nat -> nat -> list Z * zstat) : Prop :=
  forall c t inlen pos n, (0 < n)%nat -> (n < length c - pos)%nat ->
  zt c t inlen pos n = (firstn n (skipn pos c), ZS_OK).          (* output space runs out first: Z_OK *)
Definition zrule_end (zt : list Z -> zterm -> nat -> nat -> nat -> list Z * zstat) : Prop :=
  forall c inlen pos n, (length c - pos <= n)%nat ->
  zt c ZEnd inlen pos n = (skipn pos c, ZS_END).                 (* the rest is produced, Z_STREAM_END *)
Definition zrule_err (zt : list Z -> zterm -> nat -> nat -> nat -> list Z * zstat) : Prop :=
  forall c inlen pos n, (length c - pos <= n)%nat ->
  zt c ZErr inlen pos n = (skipn pos c, ZS_DATA).                (* the rest is produced, Z_DATA_ERROR *)
Definition zrule_more (zt : list Z -> zterm -> nat -> nat -> nat -> list Z * zstat) : Prop :=
  forall c inlen pos n, (length c - pos <= n)%nat ->
  zt c ZMore inlen pos n =
    (skipn pos c,
     if (0 <? length c - pos)%nat then ZS_OK                      (* progress: Z_OK *)
     else if (pos =? 0)%nat then (if (0 <? inlen)%nat then ZS_OK else ZS_BUF)   (* only the header consumed / no input *)
     else ZS_BUF).                                                (* no progress: Z_BUF_ERROR *)

Lemma ztake_obeys : zrule_space ztake /\ zrule_end ztake /\ zrule_err ztake /\ zrule_more ztake.
Proof.
  repeat split.
  - intros c t inlen pos n H0 H. apply ztake_lt; assumption.
  - intros c inlen pos n H. unfold ztake.
    replace (n <? length c - pos)%nat with false by (symmetry; apply Nat.ltb_ge; lia). reflexivity.
  - intros c inlen pos n H. unfold ztake.
    replace (n <? length c - pos)%nat with false by (symmetry; apply Nat.ltb_ge; lia). reflexivity.
  - intros c inlen pos n H. unfold ztake.
    replace (n <? length c - pos)%nat with false by (symmetry; apply Nat.ltb_ge; lia). reflexivity.
Qed.

Lemma ztake_characterised : forall zt,
  zrule_space zt -> zrule_end zt -> zrule_err zt -> zrule_more zt ->
  forall c t inlen pos n, (0 < n)%nat -> zt c t inlen pos n = ztake c t inlen pos n.
Proof.
  intros zt R1 R2 R3 R4 c t inlen pos n Hn.
  destruct (Nat.ltb_spec n (length c - pos)) as [H|H].
  - rewrite (R1 c t inlen pos n Hn H). symmetry. apply ztake_lt; assumption.
  - destruct ztake_obeys as (_ & E2 & E3 & E4).
    destruct t; [rewrite R2, E2|rewrite R4, E4|rewrite R3, E3]; auto.
Qed.

(* ---- rfbSendServerCutTextUTF8 / rfbSendServerCutText over the whole client list ---- *)
(* what one connection is sent, by class (closed / extension with Provide and the text fits the
   peer's unsolicited-size limit / extension with Notify / extension with neither / no extension:
   the Latin-1 fallback if the caller gave one) *)
Definition pub_expect (text : list Z) (fallback : option (list Z)) (c : client) : list outmsg :=
  if c_closed c then [] else
  if k_ext (c_clip c) then
    if has (k_usercap (c_clip c)) c18_Provide && (Z.of_nat (length text) <=? k_maxunsol (c_clip c))
    then [OProvide (be32 (Z.of_nat (length text) + 1) ++ text ++ [0])]
    else if has (k_usercap (c_clip c)) c18_Notify then [ONotify] else []
  else match fallback with Some f => [OClassic f] | None => [] end.

Lemma pub_utf8_client_spec : forall text fb c,
  let c' := pub_utf8_client true text fb c in
  k_out (c_clip c') = k_out (c_clip c) ++ pub_expect text fb c /\
  k_data (c_clip c') = (if negb (c_closed c) && k_ext (c_clip c) then Some (text ++ [0]) else k_data (c_clip c)) /\
  k_locked (c_clip c') = k_locked (c_clip c) /\ k_ext (c_clip c') = k_ext (c_clip c) /\
  k_usercap (c_clip c') = k_usercap (c_clip c) /\ k_maxunsol (c_clip c') = k_maxunsol (c_clip c) /\
  set_clip c' (c_clip c) = c.
Proof.
  intros text fb c. unfold pub_utf8_client, pub_expect.
  destruct c as [id st cl mi vo au inn pt sw sh [e uc mu da ou lk]]. cbn.
  destruct cl; cbn; [rewrite app_nil_r; repeat split; reflexivity|].
  destruct e; cbn.
  - destruct (has uc c18_Provide && (Z.of_nat (length text) <=? mu)); cbn.
    + rewrite app_length, Nat2Z.inj_add. cbn. repeat split; reflexivity.
    + destruct (has uc c18_Notify); cbn; rewrite ?app_nil_r; repeat split; reflexivity.
  - destruct fb; cbn; rewrite ?app_nil_r; repeat split; reflexivity.
Qed.

Lemma pub_utf8_client_id : forall fl text fb c, c_id (pub_utf8_client fl text fb c) = c_id c.
Proof.
  intros fl text fb c. unfold pub_utf8_client.
  repeat match goal with
         | |- context [if ?x then _ else _] => destruct x
         | |- context [match fb with _ => _ end] => destruct fb
         end; destruct c; reflexivity.
Qed.

Lemma find_map_client : forall (f : client -> client) cs id,
  (forall c, c_id (f c) = c_id c) ->
  find_client (map f cs) id = option_map f (find_client cs id).
Proof.
  intros f cs id Hf. induction cs as [|x r IH]; cbn; [reflexivity|].
  rewrite Hf. destruct (c_id x =? id); [reflexivity|exact IH].
Qed.

(* every connection of the list - whatever the mix of classes - gets exactly what its class says,
   and nothing else about it changes (the code as it is: fix_lock) *)
Lemma publish_utf8_all : forall text fb s id c,
  fix_lock (s_cfg s) = true ->
  find_client (s_clients s) id = Some c ->
  exists c', find_client (s_clients (publish_utf8 text fb s)) id = Some c' /\
    k_out (c_clip c') = k_out (c_clip c) ++ pub_expect text fb c /\
    k_data (c_clip c') = (if negb (c_closed c) && k_ext (c_clip c) then Some (text ++ [0]) else k_data (c_clip c)) /\
    k_locked (c_clip c') = k_locked (c_clip c) /\ k_ext (c_clip c') = k_ext (c_clip c) /\
    set_clip c' (c_clip c) = c.
Proof.
  intros text fb s id c Hf F. unfold publish_utf8. cbn [s_clients]. rewrite Hf.
  rewrite find_map_client by (intro; apply pub_utf8_client_id). rewrite F. cbn [option_map].
  eexists. split; [reflexivity|].
  destruct (pub_utf8_client_spec text fb c) as (H1 & H2 & H3 & H4 & _ & _ & H7). repeat split; assumption.
Qed.

Lemma publish_utf8_shape : forall text fb s,
  map c_id (s_clients (publish_utf8 text fb s)) = map c_id (s_clients s) /\
  s_owner (publish_utf8 text fb s) = s_owner s /\ s_cfg (publish_utf8 text fb s) = s_cfg s.
Proof.
  intros. unfold publish_utf8. cbn. split; [|split; reflexivity].
  rewrite map_map. apply map_ext. intro. apply pub_utf8_client_id.
Qed.

Lemma publish_classic_all : forall text s id c,
  find_client (s_clients s) id = Some c ->
  find_client (s_clients (publish_classic text s)) id =
    Some (if c_closed c then c else set_clip c (add_out (c_clip c) (OClassic text))).
Proof.
  intros text s id c F. unfold publish_classic. cbn [s_clients].
  rewrite find_map_client, F; [reflexivity|].
  intro x. unfold pub_classic_client. destruct (c_closed x); destruct x; reflexivity.
Qed.

(* ---- the Notify branch of publishing, and the chain notify -> request -> provide ---- *)
Lemma pub_utf8_notify : forall fl text fb c,
  c_closed c = false -> k_ext (c_clip c) = true ->
  has (k_usercap (c_clip c)) c18_Provide = false \/ k_maxunsol (c_clip c) < Z.of_nat (length text) ->
  has (k_usercap (c_clip c)) c18_Notify = true ->
  let c' := pub_utf8_client fl text fb c in
  k_out (c_clip c') = k_out (c_clip c) ++ [ONotify] /\ k_data (c_clip c') = Some (text ++ [0]) /\
  k_locked (c_clip c') = k_locked (c_clip c) /\ k_usercap (c_clip c') = k_usercap (c_clip c) /\
  k_ext (c_clip c') = true.
Proof.
  intros fl text fb c Hc He Hp Hn. unfold pub_utf8_client. rewrite Hc, He, Hn.
  replace (has (k_usercap (c_clip c)) c18_Provide && (Z.of_nat (length text) <=? k_maxunsol (c_clip c))) with false.
  2:{ symmetry. destruct Hp as [Hp|Hp]; [rewrite Hp; reflexivity|].
      apply andb_false_iff. right. apply Z.leb_gt. exact Hp. }
  destruct c as [? ? ? ? ? ? ? ? ? ? []]; cbn in *. auto.
Qed.

(* the text is larger than the peer's unsolicited-size limit: it is announced (Notify), and the
   peer's Request is answered with exactly the published text, NUL-terminated, in one Provide *)
Lemma notify_request_provide : forall zinflate fs fl vo text fb c,
  c_closed c = false -> k_ext (c_clip c) = true ->
  has (k_usercap (c_clip c)) c18_Provide = true -> has (k_usercap (c_clip c)) c18_Notify = true ->
  k_maxunsol (c_clip c) < Z.of_nat (length text) ->
  let c' := pub_utf8_client fl text fb c in
  k_out (c_clip c') = k_out (c_clip c) ++ [ONotify] /\
  ext_cut_real zinflate fs vo (c_clip c') (be32 (c18_Request + c18_Text)) =
    (add_out (c_clip c') (OProvide (be32 (Z.of_nat (length text) + 1) ++ text ++ [0])), [], false).
Proof.
  intros zinflate fs fl vo text fb c Hc He Hp Hn Hm.
  destruct (pub_utf8_notify fl text fb c Hc He (or_intror Hm) Hn) as (H1 & H2 & _ & H4 & _).
  cbv zeta. split; [exact H1|].
  rewrite (ext_request zinflate fs vo _ (text ++ [0]) H2); [| destruct text; discriminate | rewrite H4; exact Hp].
  rewrite app_length, Nat2Z.inj_add. reflexivity.
Qed.

(* ---- the record limit as it is now (d41003f): the text limit plus the terminating NUL ---- *)
Lemma ext_limit_value :
  c18_ext_size_limit = c06_cut_text_limit + 1 /\ c18_lvc_ext_size_limit = c18_lvc_cut_limit + 1 /\
  c06_cut_text_limit = 2 ^ 20 /\ c18_lvc_cut_limit = 2 ^ 20.
Proof. repeat split; reflexivity. Qed.

Lemma ext_text_range : forall text : list Z, Z.of_nat (length text) <= 2 ^ 20 ->
  Z.of_nat (length text) + 1 <= c18_ext_size_limit /\ Z.of_nat (length text) + 1 <= c18_lvc_ext_size_limit.
Proof.
  intros text H. destruct ext_limit_value as (E1 & E2 & E3 & E4). rewrite E1, E2, E3, E4. lia.
Qed.

(* client -> server for every text of 0..2^20 bytes (record-level condition discharged) *)
Lemma ext_c2s_full : forall zinflate zsync fs cfg o c b1 b2 l text bytes r,
  c_state c = SNormal -> c_closed c = false -> c_viewonly c = false -> k_ext (c_clip c) = true ->
  let content := be32 (Z.of_nat (length text) + 1) ++ text ++ [0] in
  zinflate (zsync content) = (content, ZMore) ->
  Z.of_nat (length text) <= 2 ^ 20 ->
  4 + Z.of_nat (length (zsync content)) <= c06_cut_text_limit ->
  lvc_send_utf8 zsync l text = Some bytes ->
  st_bytes (c_in c) = bytes ++ r ->
  let a1 := handle_client (ext_cut_real zinflate fs) cfg o c b1 in
  let a2 := handle_client (ext_cut_real zinflate fs) cfg (a_owner a1) (a_client a1) b2 in
  a_events a1 = [] /\ a_events a2 = [EvCutUTF8 (c_id c) (text ++ [0]) 0] /\
  c_closed (a_client a2) = false /\ st_bytes (c_in (a_client a2)) = r /\ c_clip (a_client a2) = c_clip c.
Proof.
  intros zinflate zsync fs cfg o c b1 b2 l text bytes r Hst Hcl Hvo He content Hz Hs.
  apply (ext_c2s zinflate zsync fs cfg o c b1 b2 l text bytes r Hst Hcl Hvo He Hz).
  destruct (ext_text_range text Hs); assumption.
Qed.

(* server -> client for every text of 0..2^20 bytes: what rfbSendServerCutTextUTF8 queues
   (C18_ext_s2c_sent) reaches GotXCutTextUTF8 as text ++ [0] *)
Lemma lvc_recv_provide_text : forall zinflate zcompress xl l text,
  l_utf8 l = true -> Z.of_nat (length text) <= 2 ^ 20 ->
  let content := be32 (Z.of_nat (length text) + 1) ++ text ++ [0] in
  zinflate (zcompress content) = (content, ZEnd) ->
  4 + Z.of_nat (length (zcompress content)) <= c18_lvc_cut_limit ->
  lvc_recv zinflate xl l (enc_out zcompress (OProvide content)) = (l, [GotCutUTF8 (text ++ [0]) 0], true).
Proof.
  intros zinflate zcompress xl l text Hu Hs content Hz Hc. unfold content in *.
  assert (Hd : Z.of_nat (length (text ++ [0])) = Z.of_nat (length text) + 1)
    by (rewrite app_length; cbn [length]; lia).
  rewrite <- Hd in *. apply lvc_recv_provide; try assumption.
  rewrite Hd. destruct (ext_text_range text Hs). lia.
Qed.
