(* C06 - the remaining input sources and gates of the library, on top of Session/InputDefs.v:
   - the UDP input channel (rfbCheckFds / rfbProcessUDPInput, rfbserver.c): a datagram received on
     screen->udpSock is handed to kbdAddEvent / ptrAddEvent, attributed to screen->udpClient, without
     any test of protocol state, view-only flag, pointer owner or scale - provided the port is open,
     the UDP client is not on hold and (since 93b245e) the screen requires no password;
   - connections put on hold by newClientHook (RFB_CLIENT_ON_HOLD): rfbCheckFds skips them, what
     their peers send waits in the kernel until rfbStartOnHoldClient.
   The world wraps the server of InputDefs.v; [step]/[process] themselves are unchanged. *)
From Coq Require Import ZArith List Bool Lia.
From LV Require Import Gen.Consts_C06 Wire.C2SInput Session.InputDefs Session.InputProofs
  Session.InputProofs2 Session.InputProofs3 Session.InputProofs4 Session.InputProofs5 Session.InputProofs6
  Session.InputProofs7.
Import ListNotations.
Local Open Scope Z_scope.

(* the id under which the harness reports callbacks made for screen->udpClient *)
Definition c06_udp_id : Z := 255.

Record uworld := mkU {
  u_srv : server;
  u_port : bool;                    (* screen->udpSock is open (udpPort != 0) *)
  u_udphold : bool;                 (* newClientHook answers RFB_CLIENT_ON_HOLD for the UDP client *)
  u_held : list Z;                  (* connections with cl->onHold *)
  u_park : list (Z * list fitem)    (* what the peers of held connections have sent, oldest first *)
}.

Inductive uop :=
| UOp (o : op)                        (* an operation of InputDefs.v *)
| UConnectHold (id : Z) (vo : bool)   (* rfbNewClient whose newClientHook returns RFB_CLIENT_ON_HOLD *)
| URelease (id : Z)                   (* rfbStartOnHoldClient *)
| URev (id : Z)                       (* rfbReverseConnection marks the record it just created: cl->reverseConnection *)
| UUdpOn (hold : bool)                (* the application opens the UDP port *)
| UUdp (d : list Z).                  (* one datagram arrives; then one rfbProcessEvents pass *)

(* rfbProcessUDPInput on one datagram [d] (n = its length; the generators stay below
   sizeof(rfbClientToServerMsg)) *)
Definition udp_events (cfg : config) (port hold : bool) (d : list Z) : list event :=
  if negb port || hold || g_haspw cfg then [] else
  match d with
  | [] => []
  | t :: _ =>
      if (t =? c06_rfbKeyEvent) && (Z.of_nat (length d) =? c06_sz_KeyEvent) then
        match byte_at d c06_off_key_down, be32_at d c06_off_key_key with
        | Some dn, Some k => [EvKey c06_udp_id dn k]
        | _, _ => []
        end
      else if (t =? c06_rfbPointerEvent) && (Z.of_nat (length d) =? c06_sz_PointerEvent) then
        match byte_at d c06_off_ptr_mask, be16_at d c06_off_ptr_x, be16_at d c06_off_ptr_y with
        | Some b, Some x, Some y => [EvPtr c06_udp_id b x y]     (* raw position: no ScaleX/ScaleY *)
        | _, _, _ => []
        end
      else []
  end.

Definition is_held (u : uworld) (id : Z) : bool := existsb (Z.eqb id) (u_held u).

Definition with_srv (u : uworld) (s : server) : uworld :=
  mkU s (u_port u) (u_udphold u) (u_held u) (u_park u).

Definition parked_for (pk : list (Z * list fitem)) (id : Z) : list fitem :=
  concat (map snd (filter (fun e => fst e =? id) pk)).

Section World.
Variable ext_cut : bool -> clipst -> list Z -> clipst * list utf8cb * bool.

Definition ustep (u : uworld) (o : uop) : uworld * list event :=
  match o with
  | UOp (OSend id frags) =>
      if is_held u id
      then (mkU (u_srv u) (u_port u) (u_udphold u) (u_held u) (u_park u ++ [(id, map Frag frags)]), [])
      else let '(s', ev) := step ext_cut (u_srv u) (OSend id frags) in (with_srv u s', ev)
  | UOp (OEof id) =>
      if is_held u id
      then (mkU (u_srv u) (u_port u) (u_udphold u) (u_held u) (u_park u ++ [(id, [Fin])]), [])
      else let '(s', ev) := step ext_cut (u_srv u) (OEof id) in (with_srv u s', ev)
  | UOp o' => let '(s', ev) := step ext_cut (u_srv u) o' in (with_srv u s', ev)
  | UConnectHold id vo =>
      let '(s', ev) := step ext_cut (u_srv u) (OConnect id vo) in
      (mkU s' (u_port u) (u_udphold u) (id :: u_held u) (u_park u), ev)
  | URelease id =>
      let s := u_srv u in
      let s' := mkSrv (s_cfg s) (map_client (s_clients s) id (push_flight (parked_for (u_park u) id)))
                      (s_owner s) (s_now s) in
      (mkU s' (u_port u) (u_udphold u) (filter (fun h => negb (h =? id)) (u_held u))
           (filter (fun e => negb (fst e =? id)) (u_park u)), [])
  | URev id =>
      let s := u_srv u in
      (with_srv u (mkSrv (s_cfg s) (map_client (s_clients s) id (fun c => set_rev c true)) (s_owner s) (s_now s)), [])
  | UUdpOn h => ((if u_port u then u else mkU (u_srv u) true h (u_held u) (u_park u)), [])
  | UUdp d =>
      let ev0 := udp_events (s_cfg (u_srv u)) (u_port u) (u_udphold u) d in
      let '(s', ev1) := process ext_cut (u_srv u) in
      (with_srv u s', ev0 ++ ev1)
  end.

Fixpoint urun (u : uworld) (ops : list uop) : uworld * list event :=
  match ops with
  | [] => (u, [])
  | o :: r => let '(u1, e1) := ustep u o in let '(u2, e2) := urun u1 r in (u2, e1 ++ e2)
  end.

Definition init_world (cfg : config) : uworld := mkU (init_server cfg) false false [] [].

(* ---- the UDP source ---- *)
Lemma udp_events_gate : forall cfg port hold d e,
  In e (udp_events cfg port hold d) ->
  port = true /\ hold = false /\ g_haspw cfg = false /\ ev_client e = c06_udp_id /\
  ((exists r dn k, d = c06_rfbKeyEvent :: r /\ Z.of_nat (length d) = c06_sz_KeyEvent /\ e = EvKey c06_udp_id dn k) \/
   (exists r b x y, d = c06_rfbPointerEvent :: r /\ Z.of_nat (length d) = c06_sz_PointerEvent /\
                    e = EvPtr c06_udp_id b x y)).
Proof.
  intros cfg port hold d e. unfold udp_events.
  destruct port; cbn [negb orb]; [|intros []].
  destruct hold; cbn [orb]; [intros []|].
  destruct (g_haspw cfg); [intros []|].
  destruct d as [|t r]; [intros []|].
  destruct ((t =? c06_rfbKeyEvent) && (Z.of_nat (length (t :: r)) =? c06_sz_KeyEvent)) eqn:K.
  - apply andb_true_iff in K. destruct K as [K1 K2]. apply Z.eqb_eq in K1, K2. subst t.
    destruct (byte_at _ c06_off_key_down) as [dn|]; [|intros []].
    destruct (be32_at _ c06_off_key_key) as [k|]; [|intros []].
    intros [<-|[]]. repeat split; auto. left. exists r, dn, k. auto.
  - destruct ((t =? c06_rfbPointerEvent) && (Z.of_nat (length (t :: r)) =? c06_sz_PointerEvent)) eqn:P; [|intros []].
    apply andb_true_iff in P. destruct P as [P1 P2]. apply Z.eqb_eq in P1, P2. subst t.
    destruct (byte_at _ c06_off_ptr_mask) as [b|]; [|intros []].
    destruct (be16_at _ c06_off_ptr_x) as [x|]; [|intros []].
    destruct (be16_at _ c06_off_ptr_y) as [y|]; [|intros []].
    intros [<-|[]]. repeat split; auto. right. exists r, b, x, y. auto.
Qed.

(* positive: on a password-less screen with the port open a well-formed datagram is delivered
   unaltered (key: down flag and key symbol; pointer: mask and the RAW position) *)
Lemma udp_delivers_key : forall cfg dn k,
  g_haspw cfg = false -> byte_ok dn -> 0 <= k < 4294967296 ->
  udp_events cfg true false (enc_key dn k) = [EvKey c06_udp_id dn k].
Proof.
  intros cfg dn k H Hd Hk. unfold udp_events. rewrite H. cbn [negb orb].
  rewrite enc_key_shape. cbn [app length].
  change (c06_rfbKeyEvent =? c06_rfbKeyEvent) with true.
  change (Z.of_nat (length (c06_rfbKeyEvent :: dn :: 0 :: 0 :: be32 k)) =? c06_sz_KeyEvent) with true.
  cbn [andb]. change c06_off_key_down with 1. change c06_off_key_key with 4.
  rewrite byte_at_1. rewrite <- (app_nil_r (be32 k)). rewrite be32_at_4 by (unfold two32; lia). reflexivity.
Qed.

Lemma udp_delivers_ptr : forall cfg b x y,
  g_haspw cfg = false -> byte_ok b -> 0 <= x < 65536 -> 0 <= y < 65536 ->
  udp_events cfg true false (enc_ptr b x y) = [EvPtr c06_udp_id b x y].
Proof.
  intros cfg b x y H Hb Hx Hy. unfold udp_events. rewrite H. cbn [negb orb].
  rewrite enc_ptr_shape. change ([b] ++ be16 x ++ be16 y) with (b :: be16 x ++ be16 y).
  change (c06_rfbPointerEvent =? c06_rfbPointerEvent) with true.
  change (Z.of_nat (length (c06_rfbPointerEvent :: b :: be16 x ++ be16 y)) =? c06_sz_PointerEvent) with true.
  replace ((c06_rfbPointerEvent =? c06_rfbKeyEvent) && (Z.of_nat (length (c06_rfbPointerEvent :: b :: be16 x ++ be16 y)) =? c06_sz_KeyEvent))
    with false by reflexivity.
  cbn [andb]. change c06_off_ptr_mask with 1. change c06_off_ptr_x with 2. change c06_off_ptr_y with 4.
  rewrite byte_at_1. rewrite (be16_at_2 _ _ x _ Hx).
  assert (Hy' : be16_at (c06_rfbPointerEvent :: b :: be16 x ++ be16 y) 4 = Some y).
  { unfold be16 at 1. cbn [app]. rewrite <- (app_nil_r (be16 y)). apply be16_at_4; assumption. }
  rewrite Hy'. reflexivity.
Qed.

Lemma udp_needs_open_port : forall cfg hold d, udp_events cfg false hold d = [].
Proof. reflexivity. Qed.

Lemma udp_refused_with_password : forall cfg port hold d, g_haspw cfg = true -> udp_events cfg port hold d = [].
Proof. intros cfg port hold d H. unfold udp_events. rewrite H. rewrite !orb_true_r. reflexivity. Qed.

Lemma udp_refused_on_hold : forall cfg port d, udp_events cfg port true d = [].
Proof. intros cfg port d. unfold udp_events. rewrite orb_true_r. reflexivity. Qed.

(* ---- gating over every operation of the world ---- *)
Hypothesis ext_gated : forall k p, snd (fst (ext_cut true k p)) = [].

Lemma step_events_only_process : forall s o, o <> OProcess -> snd (step ext_cut s o) = [].
Proof. intros s o H. destruct o; try reflexivity. congruence. Qed.

(* every callback the application receives comes from
   (i)   a message of a connection that was open, in RFB_NORMAL and not view-only when the pass started,
   (ii)  the deferred-pointer flush of a listed connection that is not view-only, or
   (iii) a well-formed datagram (KeyEvent of 8 bytes / PointerEvent of 6 bytes) on a screen without
         password whose UDP port is open and whose UDP client is not on hold *)
Lemma ustep_gate : forall u o e, NoDup (map c_id (s_clients (u_srv u))) ->
  In e (snd (ustep u o)) ->
  (exists c, find_client (s_clients (u_srv u)) (ev_client e) = Some c /\ c_closed c = false /\
             c_state c = SNormal /\ c_viewonly c = false) \/
  (exists c0, find_client (s_clients (u_srv u)) (ev_client e) = Some c0 /\ c_viewonly c0 = false /\
              exists mask x y, e = EvPtr (c_id c0) mask x y /\ 0 <= x) \/
  (exists d, o = UUdp d /\ u_port u = true /\ u_udphold u = false /\ g_haspw (s_cfg (u_srv u)) = false /\
             ev_client e = c06_udp_id /\
             ((exists r dn k, d = c06_rfbKeyEvent :: r /\ Z.of_nat (length d) = c06_sz_KeyEvent /\ e = EvKey c06_udp_id dn k) \/
              (exists r b x y, d = c06_rfbPointerEvent :: r /\ Z.of_nat (length d) = c06_sz_PointerEvent /\
                               e = EvPtr c06_udp_id b x y))).
Proof.
  intros u o e Hn Hin.
  assert (P : forall e, In e (snd (process ext_cut (u_srv u))) ->
              (exists c, find_client (s_clients (u_srv u)) (ev_client e) = Some c /\ c_closed c = false /\
                         c_state c = SNormal /\ c_viewonly c = false) \/
              (exists c0, find_client (s_clients (u_srv u)) (ev_client e) = Some c0 /\ c_viewonly c0 = false /\
                          exists mask x y, e = EvPtr (c_id c0) mask x y /\ 0 <= x))
    by (intros e0 H0; exact (process_gate_tied ext_cut ext_gated (u_srv u) e0 Hn H0)).
  assert (Q : forall o', In e (snd (step ext_cut (u_srv u) o')) -> In e (snd (process ext_cut (u_srv u)))).
  { intros o' H. destruct o'; try (cbn in H; destruct H). exact H. }
  destruct o as [o'|id vo|id|id|h|d]; cbn [ustep] in Hin.
  - assert (In e (snd (step ext_cut (u_srv u) o'))).
    { destruct o'; try (destruct (step ext_cut (u_srv u) _) as [s' ev] eqn:E; cbn [snd] in *; exact Hin).
      - destruct (is_held u id); [destruct Hin|].
        destruct (step ext_cut (u_srv u) (OSend id frags)) as [s' ev]; exact Hin.
      - destruct (is_held u id); [destruct Hin|].
        destruct (step ext_cut (u_srv u) (OEof id)) as [s' ev]; exact Hin. }
    destruct (P e (Q o' H)) as [A|B]; [left; exact A|right; left; exact B].
  - cbn in Hin. destruct Hin.
  - destruct Hin.
  - destruct Hin.
  - destruct Hin.
  - destruct (process ext_cut (u_srv u)) as [s' ev1] eqn:E. cbn [snd] in Hin.
    apply in_app_or in Hin. destruct Hin as [Hin|Hin].
    + right. right. exists d. destruct (udp_events_gate _ _ _ _ _ Hin) as (H1 & H2 & H3 & H4 & H5).
      repeat split; auto.
    + destruct (P e Hin) as [A|B]; [left; exact A|right; left; exact B].
Qed.

(* ---- connections on hold ---- *)
(* what the peer of a held connection sends does not reach the connection's input ... *)
Lemma held_send_parked : forall u id frags, is_held u id = true ->
  u_srv (fst (ustep u (UOp (OSend id frags)))) = u_srv u /\ snd (ustep u (UOp (OSend id frags))) = [] /\
  parked_for (u_park (fst (ustep u (UOp (OSend id frags))))) id = parked_for (u_park u) id ++ map Frag frags.
Proof.
  intros u id frags H. cbn [ustep]. rewrite H. cbn [fst snd u_srv u_park]. repeat split.
  unfold parked_for. rewrite filter_app, map_app, concat_app. cbn [filter fst]. rewrite Z.eqb_refl.
  cbn. rewrite app_nil_r. reflexivity.
Qed.

(* ... so no rfbProcessClientMessage can make a callback for it: it is still in the first
   handshake state (C06_gating: a callback needs RFB_NORMAL) *)
Lemma held_no_callback : forall s id c e,
  find_client (s_clients s) id = Some c -> c_state c = SVersion ->
  ~ In e (snd (handle ext_cut s id)).
Proof.
  intros s id c e F St Hin. destruct (handle_gate ext_cut ext_gated s id e Hin) as (c' & F' & _ & St' & _).
  rewrite F in F'. inversion F'; subst c'. rewrite St in St'. discriminate.
Qed.

(* ... and rfbStartOnHoldClient lets everything that was sent meanwhile arrive, in order *)
Lemma release_delivers : forall u id c,
  find_client (s_clients (u_srv u)) id = Some c ->
  exists c', find_client (s_clients (u_srv (fst (ustep u (URelease id))))) id = Some c' /\
             c' = push_flight (parked_for (u_park u) id) c /\
             is_held (fst (ustep u (URelease id))) id = false /\
             parked_for (u_park (fst (ustep u (URelease id)))) id = [].
Proof.
  intros u id c F. cbn [ustep fst u_srv s_clients u_held u_park].
  exists (push_flight (parked_for (u_park u) id) c). split; [|split; [reflexivity|split]].
  - unfold map_client.
    assert (G : forall cs, find_client cs id = Some c ->
                find_client (map (fun x => if c_id x =? id then push_flight (parked_for (u_park u) id) x else x) cs) id
                = Some (push_flight (parked_for (u_park u) id) c)).
    { induction cs as [|x r IH]; cbn; [discriminate|]. destruct (c_id x =? id) eqn:E.
      - intro H. inversion H; subst x. replace (c_id (push_flight (parked_for (u_park u) id) c)) with (c_id c) by (destruct c; reflexivity).
        rewrite E. reflexivity.
      - intro H. rewrite E. apply IH. exact H. }
    apply G. exact F.
  - unfold is_held. cbn [u_held]. induction (u_held u) as [|h r IH]; cbn; [reflexivity|].
    destruct (h =? id) eqn:E; cbn; [exact IH|]. rewrite Z.eqb_sym, E. exact IH.
  - unfold parked_for. induction (u_park u) as [|[i f] r IH]; cbn; [reflexivity|].
    destruct (i =? id) eqn:E; cbn; [exact IH|]. rewrite E. exact IH.
Qed.

(* ---- reverse connections (rfbReverseConnection): no sharing test, no authentication ---- *)
Lemma reverse_no_sharing_test : forall cfg o c sh b,
  c_rev c = true ->
  apply_init cfg o c sh b = applied_same (set_state c SNormal) o.
Proof. intros cfg o c sh b H. unfold apply_init. rewrite H. reflexivity. Qed.

Lemma reverse_no_authentication : forall cfg c, c_rev c = true ->
  needs_auth cfg c = false /\ primary_sec cfg c = c06_rfbSecTypeNone.
Proof. intros cfg c H. unfold primary_sec, needs_auth. rewrite H, andb_false_r. split; reflexivity. Qed.

Lemma forward_sharing_test : forall cfg o c sh b,
  c_rev c = false ->
  apply_init cfg o c sh b =
    (let c1 := set_state c SNormal in
     if g_never cfg || (negb (g_always cfg) && (sh =? 0)) then
       if g_dontdisc cfg then (if b then applied_close c1 o else applied_same c1 o)
       else mkApplied c1 o [] true
     else applied_same c1 o).
Proof. intros cfg o c sh b H. unfold apply_init. rewrite H. reflexivity. Qed.

End World.

Definition c06_ustep := ustep ext_cut_off.
