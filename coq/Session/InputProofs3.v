(* C06 - proofs, part 3: gating (handshake states, view-only, pointer ownership), the
   cut-text limit, and exactly-once in-order delivery. *)
From Coq Require Import ZArith List Bool Lia.
From LV Require Import Gen.Consts_C06 Wire.C2SInput Session.InputDefs Session.InputProofs
  Session.InputProofs2.
Import ListNotations.
Local Open Scope Z_scope.

Ltac Zify.zify_post_hook ::= Z.to_euclidean_division_equations.

Definition is_ptr (e : event) : bool :=
  match e with EvPtr _ _ _ _ | EvPtrUndef _ _ => true | _ => false end.

Section Gate.
Variable ext_cut : bool -> clipst -> list Z -> clipst * list utf8cb * bool.
(* the extended-clipboard handler hands nothing to the application for a view-only client *)
Hypothesis ext_gated : forall k p, snd (fst (ext_cut true k p)) = [].

Lemma apply_init_noev : forall cfg o c sh b, a_events (apply_init cfg o c sh b) = [].
Proof.
  intros. unfold apply_init, applied_close, applied_same.
  repeat match goal with |- context [if ?x then _ else _] => destruct x end; reflexivity.
Qed.

Lemma apply_handshake_noev : forall cfg o c m b, a_events (apply_handshake cfg o c m b) = [].
Proof.
  intros cfg o c m b. destruct m; cbn [apply_handshake]; try reflexivity.
  - destruct (parse_version b0) as [[mj mn]|]; [|reflexivity].
    unfold applied_close, applied_same.
    repeat match goal with |- context [if ?x then _ else _] => destruct x end; reflexivity.
  - unfold applied_close, applied_same.
    repeat match goal with |- context [if ?x then _ else _] => destruct x end;
      try reflexivity; apply apply_init_noev.
  - destruct (c_authres c); reflexivity.
  - apply apply_init_noev.
Qed.

(* every callback of a normal-protocol message: right client, not view-only, and a pointer
   callback only when no other client holds a button *)
Lemma apply_normal_gate : forall cfg o c m e,
  In e (a_events (apply_normal ext_cut cfg o c m)) ->
  ev_client e = c_id c /\ c_viewonly c = false /\
  (is_ptr e = true -> ptr_allowed o (c_id c) = true).
Proof.
  intros cfg o c m e. destruct m; cbn [apply_normal]; unfold applied_same, applied_close;
    cbn [a_events]; try (intros []; fail).
  - destruct (byte_at b c06_off_spf_bpp); [|intros []].
    destruct (byte_at b c06_off_spf_truecolour); [|intros []].
    match goal with |- context [if ?x then _ else _] => destruct x end; intros [].
  - destruct (c_viewonly c) eqn:V; cbn [a_events]; [intros []|].
    intros [<-|[]]. cbn. repeat split; auto. discriminate.
  - destruct (ptr_allowed o (c_id c)) eqn:A; cbn [negb a_events]; [|intros []].
    destruct (c_viewonly c) eqn:V; cbn [a_events]; [intros []|].
    match goal with |- context [if ?x then _ else _] => destruct x end; cbn [a_events].
    + intros [<-|[]]. unfold ptr_event. destruct (map_pos cfg c x y) as [[x' y']|]; cbn; auto.
    + destruct (map_pos cfg c x y) as [[x' y']|]; cbn [a_events]; intros [].
  - destruct (c_viewonly c) eqn:V; cbn [a_events]; [intros []|].
    intros [<-|[]]. cbn. repeat split; auto. discriminate.
  - destruct (ext_cut (c_viewonly c) (c_clip c) payload) as [[k' texts] close] eqn:E. cbn [a_events].
    intros H. apply in_map_iff in H. destruct H as (t & <- & Ht).
    destruct (c_viewonly c) eqn:V.
    + pose proof (ext_gated (c_clip c) payload) as G. rewrite E in G. cbn in G. subst texts. destruct Ht.
    + destruct t; cbn; repeat split; auto; discriminate.
  - repeat match goal with |- context [if ?x then _ else _] => destruct x end; intros [].
Qed.

Lemma handle_client_gate : forall cfg o c b e,
  In e (a_events (handle_client ext_cut cfg o c b)) ->
  c_state c = SNormal /\ c_viewonly c = false /\ ev_client e = c_id c /\
  (is_ptr e = true -> ptr_allowed o (c_id c) = true).
Proof.
  intros cfg o c b e. unfold handle_client.
  destruct (parse_for (c_state c) (k_ext (c_clip c)) (fix_extlimit cfg) (c_in c)) as [m i|er]; [|intros []].
  unfold apply_msg.
  replace (c_state (set_in c i)) with (c_state c) by (destruct c; reflexivity).
  destruct (c_state c) eqn:S; try (rewrite apply_handshake_noev; intros []).
  intros H. apply apply_normal_gate in H.
  replace (c_id (set_in c i)) with (c_id c) in H by (destruct c; reflexivity).
  replace (c_viewonly (set_in c i)) with (c_viewonly c) in H by (destruct c; reflexivity).
  tauto.
Qed.

Lemma find_client_id : forall cs id c, find_client cs id = Some c -> c_id c = id /\ In c cs.
Proof.
  induction cs as [|x r IH]; cbn; intros id c H; [discriminate|].
  destruct (c_id x =? id) eqn:E.
  - inversion H; subst. split; [lia|auto].
  - destruct (IH _ _ H). auto.
Qed.

(* C06_gating, exactly as implemented: one rfbProcessClientMessage *)
Lemma handle_gate : forall s id e,
  In e (snd (handle ext_cut s id)) ->
  exists c, find_client (s_clients s) id = Some c /\ c_closed c = false /\
            c_state c = SNormal /\ c_viewonly c = false /\ ev_client e = id /\
            (is_ptr e = true -> ptr_allowed (s_owner s) id = true).
Proof.
  intros s id e. unfold handle.
  destruct (find_client (s_clients s) id) as [c|] eqn:F; [|intros []].
  destruct (c_closed c) eqn:Cl; [intros []|]. cbn [snd]. intros H.
  apply handle_client_gate in H. destruct (find_client_id _ _ _ F) as [Hid _].
  exists c. rewrite Hid in H. tauto.
Qed.

(* the deferred-pointer flush of rfbUpdateClient never serves a view-only client *)
Lemma flush_gate : forall cfg now c e,
  In e (snd (flush_ptr cfg now c)) ->
  c_viewonly c = false /\ 0 <= p_lastx (c_ptr c) /\
  e = EvPtr (c_id c) (p_lastbtn (c_ptr c)) (p_lastx (c_ptr c)) (p_lasty (c_ptr c)).
Proof.
  intros cfg now c e. unfold flush_ptr.
  destruct (c_viewonly c) eqn:V; cbn [negb andb]; [intros []|].
  destruct (0 <=? p_lastx (c_ptr c)) eqn:L; [|intros []].
  repeat match goal with |- context [if ?x then _ else _] => destruct x end; cbn [snd]; try (intros []; fail).
  intros [<-|[]]. repeat split; auto. lia.
Qed.

(* the ownership rule, stated on the handler: it is taken/released BEFORE the view-only test *)
Lemma ptr_rule : forall cfg o c mask x y,
  let a := apply_normal ext_cut cfg o c (MPtr mask x y) in
  (ptr_allowed o (c_id c) = false -> a = applied_same c o) /\
  (ptr_allowed o (c_id c) = true ->
     a_owner a = (if mask =? 0 then None else Some (c_id c)) /\
     (c_viewonly c = true -> a_events a = [] /\ a_client a = c) /\
     (c_viewonly c = false -> g_deferptr cfg = 0 -> a_events a = [ptr_event cfg c mask x y])).
Proof.
  intros cfg o c mask x y. cbn [apply_normal]. split; intros A; rewrite A; cbn [negb]; [reflexivity|].
  destruct (c_viewonly c); cbn [a_owner a_events a_client applied_same].
  - repeat split; auto; discriminate.
  - split; [|split; [discriminate|]].
    + repeat match goal with |- context [if ?x then _ else _] => destruct x end; try reflexivity;
        destruct (map_pos cfg c x y) as [[? ?]|]; reflexivity.
    + intros _ D. rewrite D. cbn [Z.eqb orb]. rewrite orb_true_r. reflexivity.
Qed.

End Gate.
