(* C19 - a small Hoare logic over the state monad of Session/FileXferDefs.v and the trace
   invariant used for the dynamic theorems:
     every effect (file-system / zlib call, bytes sent) happens before any rfbCloseClient of the
     same message, and every file-system call is one that the allowed-set [S] contains. *)
From Coq Require Import ZArith List Bool Lia.
From LV Require Import Gen.Consts_C19 Session.FileXferDefs Session.FileXferProofs.
Import ListNotations.
Local Open Scope Z_scope.

Definition hoare {A} (P : world -> Prop) (m : M A) (Q : A -> world -> Prop) : Prop :=
  forall w, P w -> Q (fst (m w)) (snd (m w)).

Lemma hoare_ret : forall A (a : A) (P : world -> Prop) (Q : A -> world -> Prop),
  (forall w, P w -> Q a w) -> hoare P (ret a) Q.
Proof. intros A a P Q H w Hw. simpl. auto. Qed.

Lemma hoare_bind : forall A B (m : M A) (f : A -> M B) P R Q,
  hoare P m R -> (forall a, hoare (R a) (f a) Q) -> hoare P (bind m f) Q.
Proof.
  intros A B m f P R Q Hm Hf w Hw. unfold bind. specialize (Hm w Hw).
  destruct (m w) as [a w']. simpl in Hm. apply Hf. exact Hm.
Qed.

Lemma hoare_conseq : forall A (m : M A) (P P' : world -> Prop) (Q Q' : A -> world -> Prop),
  hoare P' m Q' -> (forall w, P w -> P' w) -> (forall a w, Q' a w -> Q a w) -> hoare P m Q.
Proof. intros A m P P' Q Q' H HP HQ w Hw. apply HQ. apply H. apply HP. exact Hw. Qed.

Lemma hoare_pre : forall A (m : M A) (P P' : world -> Prop) Q,
  hoare P' m Q -> (forall w, P w -> P' w) -> hoare P m Q.
Proof. intros. eapply hoare_conseq; eauto. Qed.

Lemma hoare_post : forall A (m : M A) P (Q Q' : A -> world -> Prop),
  hoare P m Q' -> (forall a w, Q' a w -> Q a w) -> hoare P m Q.
Proof. intros. eapply hoare_conseq; eauto. Qed.

(* ------------------------------------------------------------------ events *)
(* an effect: anything that touches the file system / file contents or sends bytes; closing a
   descriptor or a directory stream is clean-up, not an effect *)
Definition is_effect (e : event) : bool :=
  match e with
  | Tx _ => true
  | Fs FCloseFd => false
  | Fs FClosedir => false
  | Fs _ => true
  | _ => false
  end.

Section Invariant.
Variable S : fs_op -> Prop.        (* the file-system calls this message may make *)
Variable ev0 : list event.         (* the trace before the message *)

(* [ev] most recent first *)
Fixpoint okr (ev : list event) : Prop :=
  match ev with
  | [] => True
  | e :: older =>
      okr older /\ (is_effect e = true -> ~ In CloseClient older) /\ (forall op, e = Fs op -> S op)
  end.

Definition Inv (w : world) : Prop :=
  exists new, w_ev w = new ++ ev0 /\ okr new /\ (sock_open (w_st w) = true -> ~ In CloseClient new).

(* [St true]: additionally the connection is known to be open *)
Definition St (b : bool) (w : world) : Prop := Inv w /\ (b = true -> sock_open (w_st w) = true).

Lemma St_weaken : forall b w, St b w -> St false w.
Proof. intros b w [H _]. split; auto. discriminate. Qed.

Lemma St_and : forall b c w, St b w -> (b = true -> c = true -> sock_open (w_st w) = true) -> St (b && c) w.
Proof. intros b c w [H1 H2] H. split; auto. intro E. apply andb_true_iff in E. destruct E. auto. Qed.

(* ---- primitives ---- *)
Lemma h_emit_harmless : forall e b,
  is_effect e = false -> e <> CloseClient -> (forall op, e = Fs op -> S op) ->
  hoare (St b) (emit e) (fun _ => St b).
Proof.
  intros e b He Hc Hs w [[new [E1 [E2 E3]]] Hb]. simpl. split; auto.
  exists (e :: new). simpl. rewrite E1. repeat split; auto.
  - intro X. rewrite He in X. discriminate.
  - intros Ho [X|X]; [congruence|]. apply E3 in Ho. contradiction.
Qed.

Lemma h_emit_effect : forall e,
  e <> CloseClient -> (forall op, e = Fs op -> S op) ->
  hoare (St true) (emit e) (fun _ => St true).
Proof.
  intros e Hc Hs w [[new [E1 [E2 E3]]] Hb]. simpl. split; auto.
  exists (e :: new). simpl. rewrite E1. repeat split; auto.
  intros Ho [X|X]; [congruence|]. apply E3 in Ho. contradiction.
Qed.

(* computations that neither add events nor touch the socket state *)
Lemma h_quiet : forall A (m : M A) b,
  (forall w, w_ev (snd (m w)) = w_ev w /\ sock_open (w_st (snd (m w))) = sock_open (w_st w)) ->
  hoare (St b) m (fun _ => St b).
Proof.
  intros A m b H w [[new [E1 [E2 E3]]] Hb]. destruct (H w) as [H1 H2]. split.
  - exists new. rewrite H1, H2. auto.
  - rewrite H2. auto.
Qed.

Lemma h_get_st : forall b, hoare (St b) get_st (fun s w => St b w /\ s = w_st w).
Proof. intros b w H. simpl. auto. Qed.

Lemma h_modify : forall (f : xstate -> xstate) b,
  (forall s, sock_open (f s) = sock_open s) ->
  hoare (St b) (bind get_st (fun s => set_st (f s))) (fun _ => St b).
Proof. intros f b H. apply h_quiet. intros w. simpl. auto. Qed.

Lemma h_close_client : forall b, hoare (St b) close_client (fun _ => St false).
Proof.
  intros b w [[new [E1 [E2 E3]]] Hb]. unfold close_client, bind, emit, get_st, set_st. simpl. split; [|discriminate].
  exists (CloseClient :: new). simpl. rewrite E1. repeat split; auto; try discriminate.
Qed.

Lemma h_ask_cb : forall b, hoare (St b) ask_cb (fun _ => St b).
Proof.
  intros b w [[new [E1 [E2 E3]]] Hb]. unfold ask_cb.
  destruct (w_perm w) as [|a rest]; simpl; (split; [|exact Hb]).
  - exists (Ask (w_perm_dflt w) :: new). simpl. rewrite E1. repeat split; auto; try discriminate.
    intros Ho [X|X]; [discriminate|]. apply E3 in Ho. contradiction.
  - exists (Ask a :: new). simpl. rewrite E1. repeat split; auto; try discriminate.
    intros Ho [X|X]; [discriminate|]. apply E3 in Ho. contradiction.
Qed.

Lemma h_next_env : forall b, hoare (St b) next_env (fun _ => St b).
Proof. intros b. apply h_quiet. intros w. unfold next_env. destruct (w_env w); simpl; auto. Qed.

Lemma h_read_exact : forall n b, hoare (St b) (read_exact n) (fun _ => St b).
Proof.
  intros n b. apply h_quiet. intros w. unfold read_exact.
  destruct (sock_open (w_st w) && (n <=? Zlength (w_in w))); simpl; auto.
Qed.

Lemma h_fs_call : forall op, S op -> op <> FCloseFd -> op <> FClosedir ->
  hoare (St true) (fs_call op) (fun _ => St true).
Proof.
  intros op Hs H1 H2. unfold fs_call. eapply hoare_bind.
  - apply h_emit_effect; [discriminate|]. intros op' E. inversion E; subst. exact Hs.
  - intros ?. apply h_next_env.
Qed.

Lemma h_fs_void : forall op b, (op = FCloseFd \/ op = FClosedir) -> S op ->
  hoare (St b) (fs_void op) (fun _ => St b).
Proof.
  intros op b H Hs. unfold fs_void. apply h_emit_harmless; try discriminate.
  - destruct H; subst; reflexivity.
  - intros op' E. inversion E; subst. exact Hs.
Qed.

(* ---- derived: the guarded helpers, under a connection known to be open ---- *)
Ltac hb L := eapply hoare_bind; [apply L | intros ?].
Ltac hweak := apply hoare_ret; intros ? HH; first [exact HH | exact (St_weaken _ _ HH)].

Lemma h_write_exact_T : forall cfg x, hoare (St true) (write_exact cfg x) (fun r => St r).
Proof.
  intros cfg x w [[new [E1 [E2 E3]]] Hb]. specialize (Hb eq_refl).
  unfold write_exact, bind, get_st. rewrite Hb. destruct x as [|c t]; simpl.
  - split; auto. exists new. auto.
  - split; auto. exists (Tx (c :: t) :: new). simpl. rewrite E1. repeat split; auto; try discriminate.
    intros Ho [X|X]; [discriminate|]. apply E3 in Ho. contradiction.
Qed.

Lemma h_write_exact_F : forall cfg x, hoare (St false) (write_exact cfg x) (fun _ => St false).
Proof.
  intros cfg x w [[new [E1 [E2 E3]]] _].
  unfold write_exact, bind, get_st. destruct (sock_open (w_st w)) eqn:Es; destruct x as [|c t]; simpl.
  - split; [|discriminate]. exists new. rewrite ?Es. auto.
  - split; [|discriminate]. exists (Tx (c :: t) :: new). simpl. rewrite E1, ?Es. repeat split; auto; try discriminate.
    intros Ho [X|X]; [discriminate|]. apply E3 in Ho. contradiction.
  - split; [|discriminate]. exists new. rewrite ?Es. repeat split; auto; try discriminate.
  - destruct (fix_f14 cfg); simpl; (split; [|discriminate]); exists new; simpl; rewrite ?Es; repeat split; auto; try discriminate.
Qed.

Lemma h_guard_T : forall cfg, hoare (St true) (guard cfg) (fun r => St r).
Proof.
  intros cfg. unfold guard. eapply hoare_bind with (R := fun _ => St true).
  - destruct (has_cb cfg); [apply h_ask_cb | apply hoare_ret; auto].
  - intros cb_ok. destruct (cb_ok && permit cfg).
    + apply hoare_ret; auto.
    + hb h_close_client. hweak.
Qed.

Lemma h_send_msg_T : forall cfg ct cp sz len buf, hoare (St true) (send_msg cfg ct cp sz len buf) (fun r => St r).
Proof.
  intros. unfold send_msg. hb h_guard_T. destruct a; cbn [negb].
  2:{ hweak. }
  hb h_write_exact_T. destruct a; cbn [negb].
  2:{ hb h_close_client. hweak. }
  destruct (len >? 0).
  - hb h_write_exact_T. destruct a; cbn [negb]; [hweak|]. hb h_close_client. hweak.
  - hweak.
Qed.

Definition is_tok (t : tres) : bool := match t with TOk _ => true | _ => false end.
Definition is_some {A} (o : option A) : bool := match o with Some _ => true | None => false end.

Lemma h_translate_T : forall cfg p,
  hoare (St true) (translate cfg p)
        (fun r w => St (is_tok r) w /\ (forall u, r = TOk u -> translate_pure (home cfg) p C19_MAX_PATH = Some u)).
Proof.
  intros. unfold translate. hb h_guard_T. destruct a; cbn [negb].
  2:{ apply hoare_ret. intros w H. split; [exact H|]. intros; discriminate. }
  destruct (translate_pure (home cfg) p C19_MAX_PATH) as [u|].
  - apply hoare_ret. intros w H. split; [exact H|]. intros u' E. inversion E; subst. reflexivity.
  - apply hoare_ret. intros w H. split; [exact (St_weaken _ _ H)|]. intros; discriminate.
Qed.

Lemma h_read_buffer_T : forall cfg len, hoare (St true) (read_buffer cfg len) (fun r => St (is_some r)).
Proof.
  intros. unfold read_buffer. hb h_guard_T. destruct a; cbn [negb].
  2:{ hweak. }
  destruct (len >? C19_INT_MAX).
  { hb h_close_client. hweak. }
  destruct (len >? 0).
  - hb h_read_exact. destruct a as [b|].
    + hweak.
    + hb h_close_client. hweak.
  - hweak.
Qed.

End Invariant.
