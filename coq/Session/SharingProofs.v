(* Session/SharingProofs.v - proofs about Session/Sharing.v *)
From Coq Require Import List Bool Arith Lia ZArith.
From LV Require Import Session.Sharing.
Import ListNotations.

(* ---------------------------------------------------------------- list access *)
Lemma nth_update_eq : forall A (l : list A) i f x,
  nth_error l i = Some x -> nth_error (update l i f) i = Some (f x).
Proof.
  induction l as [|a t IH]; intros i f x H; destruct i; cbn in *; try discriminate.
  - injection H as <-. reflexivity.
  - apply IH. exact H.
Qed.

Lemma nth_update_neq : forall A (l : list A) i j f, i <> j -> nth_error (update l i f) j = nth_error l j.
Proof.
  induction l as [|a t IH]; intros i j f H; destruct i, j; cbn; try reflexivity; try congruence.
  apply IH. congruence.
Qed.

Lemma update_length : forall A (l : list A) i f, length (update l i f) = length l.
Proof. induction l; intros [|i] f; cbn; auto. Qed.

Lemma nth_close_other : forall l from i j,
  nth_error (close_other_normal from i l) j =
  match nth_error l j with
  | Some c => Some (if negb (Nat.eqb (from + j) i) && live_normal c then close c else c)
  | None => None
  end.
Proof.
  induction l as [|c t IH]; intros from i j; cbn [close_other_normal].
  - destruct j; reflexivity.
  - destruct j as [|j]; cbn [nth_error].
    + rewrite Nat.add_0_r. reflexivity.
    + rewrite IH. replace (S from + j) with (from + S j) by lia. reflexivity.
Qed.

Lemma other_normal_spec : forall l from i,
  other_normal from i l = true <->
  exists j d, nth_error l j = Some d /\ from + j <> i /\ live_normal d = true.
Proof.
  induction l as [|c t IH]; intros from i; cbn [other_normal].
  - split; [discriminate|]. intros [j [d [H _]]]. destruct j; discriminate.
  - rewrite orb_true_iff, andb_true_iff, negb_true_iff, Nat.eqb_neq, IH. split.
    + intros [[Hne Hl]|[j [d [Hn [Hne Hl]]]]].
      * exists 0, c. rewrite Nat.add_0_r. auto.
      * exists (S j), d. cbn. split; [exact Hn|]. split; [lia|exact Hl].
    + intros [j [d [Hn [Hne Hl]]]]. destruct j as [|j]; cbn in Hn.
      * injection Hn as <-. left. rewrite Nat.add_0_r in Hne. auto.
      * right. exists j, d. split; [exact Hn|]. split; [lia|exact Hl].
Qed.

(* ---------------------------------------------------------------- the decision *)
Definition ready (l : list client) (i : nat) (c : client) : Prop :=
  nth_error l i = Some c /\ k_open c = true /\ k_phase c = PInit.

Definition joined (c : client) : client := set_phase c PNormal.

Definition others_exist (l : list client) (i : nat) : Prop :=
  exists j d, j <> i /\ nth_error l j = Some d /\ live_normal d = true.

Lemma client_init_cases : forall fl l i c shared,
  ready l i c ->
  let l1 := update l i joined in
  client_init fl l i shared =
    if exclusive fl (k_rev c) shared then
      if f_dontdisc fl then (if other_normal 0 i l1 then update l1 i close else l1)
      else close_other_normal 0 i l1
    else l1.
Proof.
  intros fl l i c shared [Hn [Ho Hp]]. unfold client_init. rewrite Hn, Ho, Hp. reflexivity.
Qed.

Lemma other_normal_joined : forall l i c, nth_error l i = Some c ->
  (other_normal 0 i (update l i joined) = true <-> others_exist l i).
Proof.
  intros l i c Hn. rewrite other_normal_spec. unfold others_exist. split.
  - intros [j [d [Hj [Hne Hl]]]]. cbn in Hne. rewrite nth_update_neq in Hj by congruence. exists j, d. auto.
  - intros [j [d [Hne [Hj Hl]]]]. exists j, d. rewrite nth_update_neq by congruence. cbn. auto.
Qed.

(* C14_exclusive_disconnects *)
Lemma exclusive_disconnects : forall fl l i c shared,
  ready l i c -> exclusive fl (k_rev c) shared = true -> f_dontdisc fl = false ->
  let l' := client_init fl l i shared in
  nth_error l' i = Some (joined c) /\
  (forall j d, j <> i -> nth_error l j = Some d ->
               nth_error l' j = Some (if live_normal d then close d else d)).
Proof.
  intros fl l i c shared Hr Hex Hdd. cbv zeta. rewrite (client_init_cases fl l i c shared Hr), Hex, Hdd.
  destruct Hr as [Hn _]. split.
  - rewrite nth_close_other, (nth_update_eq _ _ _ _ _ Hn). cbn [Nat.add]. rewrite Nat.eqb_refl. reflexivity.
  - intros j d Hne Hj. rewrite nth_close_other, nth_update_neq by congruence. rewrite Hj. cbn [Nat.add].
    assert (E : Nat.eqb j i = false) by (apply Nat.eqb_neq; exact Hne). rewrite E. reflexivity.
Qed.

(* C14_dontdisconnect_refuses *)
Lemma dontdisconnect_refuses : forall fl l i c shared,
  ready l i c -> exclusive fl (k_rev c) shared = true -> f_dontdisc fl = true ->
  let l' := client_init fl l i shared in
  (forall j, j <> i -> nth_error l' j = nth_error l j) /\
  (others_exist l i -> nth_error l' i = Some (close (joined c))) /\
  (~ others_exist l i -> nth_error l' i = Some (joined c)).
Proof.
  intros fl l i c shared Hr Hex Hdd. cbv zeta. rewrite (client_init_cases fl l i c shared Hr), Hex, Hdd.
  destruct Hr as [Hn _]. pose proof (other_normal_joined l i c Hn) as Hon.
  destruct (other_normal 0 i (update l i joined)) eqn:E.
  - split; [intros j Hne; rewrite !nth_update_neq by congruence; reflexivity|]. split.
    + intros _. erewrite nth_update_eq; [reflexivity|]. apply nth_update_eq. exact Hn.
    + intros Hno. exfalso. apply Hno. apply Hon. reflexivity.
  - split; [intros j Hne; rewrite nth_update_neq by congruence; reflexivity|]. split.
    + intros Hyes. apply Hon in Hyes. discriminate.
    + intros _. apply nth_update_eq. exact Hn.
Qed.

(* C14_shared_never_disconnects *)
Lemma shared_never_disconnects : forall fl l i c shared,
  ready l i c -> exclusive fl (k_rev c) shared = false ->
  let l' := client_init fl l i shared in
  nth_error l' i = Some (joined c) /\ (forall j, j <> i -> nth_error l' j = nth_error l j).
Proof.
  intros fl l i c shared Hr Hex. cbv zeta. rewrite (client_init_cases fl l i c shared Hr), Hex.
  destruct Hr as [Hn _]. split; [apply nth_update_eq; exact Hn|].
  intros j Hne. apply nth_update_neq. congruence.
Qed.

(* C14_reverse_exempt *)
Lemma reverse_exempt : forall fl l i c shared,
  ready l i c -> k_rev c = true ->
  let l' := client_init fl l i shared in
  nth_error l' i = Some (joined c) /\ (forall j, j <> i -> nth_error l' j = nth_error l j).
Proof.
  intros fl l i c shared Hr Hrev. apply shared_never_disconnects; [exact Hr|].
  unfold exclusive. rewrite Hrev. reflexivity.
Qed.

(* C14_midhandshake_untouched: whatever the flags and the state of client i, a client that is not
   in RFB_NORMAL is neither closed nor changed by somebody else's ClientInit *)
Lemma midhandshake_untouched : forall fl l i shared j d,
  j <> i -> nth_error l j = Some d -> is_normal d = false ->
  nth_error (client_init fl l i shared) j = Some d.
Proof.
  intros fl l i shared j d Hne Hj Hnn. unfold client_init.
  destruct (nth_error l i) as [c|]; [|exact Hj].
  destruct (k_open c && match k_phase c with PInit => true | _ => false end); [|exact Hj].
  assert (H1 : nth_error (update l i (fun c0 => set_phase c0 PNormal)) j = Some d)
    by (rewrite nth_update_neq by congruence; exact Hj).
  destruct (exclusive fl (k_rev c) shared); [|exact H1].
  destruct (f_dontdisc fl).
  - match goal with |- context [if ?b then _ else _] => destruct b end.
    + rewrite nth_update_neq by (intro E; apply Hne; symmetry; exact E). exact H1.
    + exact H1.
  - rewrite nth_close_other, H1. unfold live_normal. rewrite Hnn, andb_false_r, andb_false_r. reflexivity.
Qed.

(* ... and they are not counted either: the decision does not depend on them *)
Lemma midhandshake_not_counted : forall l i, others_exist l i ->
  exists j d, j <> i /\ nth_error l j = Some d /\ k_open d = true /\ k_phase d = PNormal.
Proof.
  intros l i [j [d [Hne [Hj Hl]]]]. exists j, d. unfold live_normal, is_normal in Hl.
  apply andb_true_iff in Hl. destruct Hl as [Ho Hp]. destruct (k_phase d); try discriminate. auto.
Qed.

(* ---------------------------------------------------------------- never-shared invariant *)
Lemma count_zero : forall l, (forall j d, nth_error l j = Some d -> inbound_normal d = false) ->
  count_inbound_normal l = 0.
Proof.
  induction l as [|c t IH]; intros H; [reflexivity|]. unfold count_inbound_normal in *. cbn [filter].
  rewrite (H 0 c eq_refl). apply IH. intros j d Hj. apply (H (S j) d). exact Hj.
Qed.

Lemma count_le_one : forall l i,
  (forall j d, nth_error l j = Some d -> j <> i -> inbound_normal d = false) ->
  count_inbound_normal l <= 1.
Proof.
  induction l as [|c t IH]; intros i H; [cbn; lia|]. unfold count_inbound_normal in *. cbn [filter].
  destruct i as [|i].
  - assert (Ht : length (filter inbound_normal t) = 0).
    { apply count_zero. intros j d Hj. apply (H (S j) d Hj). discriminate. }
    destruct (inbound_normal c); cbn [length]; lia.
  - rewrite (H 0 c eq_refl) by discriminate. apply (IH i). intros j d Hj Hne. apply (H (S j) d Hj). congruence.
Qed.

Lemma count_mono : forall l l',
  Forall2 (fun a b => inbound_normal a = true -> inbound_normal b = true) l' l ->
  count_inbound_normal l' <= count_inbound_normal l.
Proof.
  intros l l' H. unfold count_inbound_normal. induction H as [|a b ta tb Hab _ IH]; [cbn; lia|].
  cbn [filter]. destruct (inbound_normal a) eqn:Ea.
  - rewrite (Hab eq_refl). cbn [length]. lia.
  - destruct (inbound_normal b); cbn [length]; lia.
Qed.

Lemma Forall2_update : forall (R : client -> client -> Prop) l i f,
  (forall x, R x x) -> (forall x, nth_error l i = Some x -> R (f x) x) -> Forall2 R (update l i f) l.
Proof.
  intros R. induction l as [|a t IH]; intros i f Hrefl Hf; cbn; [constructor|].
  destruct i as [|i].
  - constructor; [apply Hf; reflexivity|]. clear - Hrefl. induction t; constructor; auto.
  - constructor; [apply Hrefl|]. apply IH; [exact Hrefl|]. intros x Hx. apply Hf. exact Hx.
Qed.

Lemma inbound_le_live : forall d, live_normal d = false -> inbound_normal d = false.
Proof. intros d H. unfold inbound_normal. rewrite H. reflexivity. Qed.

(* never-shared screen: one ClientInit keeps "at most one inbound fully connected client" *)
Lemma client_init_count : forall fl l i shared, f_never fl = true ->
  count_inbound_normal l <= 1 -> count_inbound_normal (client_init fl l i shared) <= 1.
Proof.
  intros fl l i shared Hnever Hc.
  unfold client_init. destruct (nth_error l i) as [c|] eqn:Hn; [|exact Hc].
  destruct (k_open c && match k_phase c with PInit => true | _ => false end) eqn:Hready; [|exact Hc].
  apply andb_true_iff in Hready. destruct Hready as [Hopen Hph].
  set (l1 := update l i (fun c0 => set_phase c0 PNormal)).
  destruct (exclusive fl (k_rev c) shared) eqn:Hex.
  + destruct (f_dontdisc fl).
    * destruct (other_normal 0 i l1) eqn:Eo.
      -- eapply Nat.le_trans; [|exact Hc]. apply count_mono.
         assert (Hl1 : update l1 i close = update l i (fun c0 => close (set_phase c0 PNormal))).
         { unfold l1. clear. revert i. induction l as [|a t IH]; intros [|i]; cbn; auto. f_equal. apply IH. }
         rewrite Hl1. apply Forall2_update; [auto|]. intros x _. cbn. discriminate.
      -- apply (count_le_one l1 i). intros j d Hj Hne. apply inbound_le_live.
         destruct (live_normal d) eqn:El; [|reflexivity]. exfalso.
         assert (other_normal 0 i l1 = true); [|congruence].
         apply other_normal_spec. exists j, d. cbn. auto.
    * apply (count_le_one _ i). intros j d Hj Hne. rewrite nth_close_other in Hj.
      destruct (nth_error l1 j) as [d0|]; [|discriminate]. injection Hj as <-. cbn [Nat.add].
      assert (E : Nat.eqb j i = false) by (apply Nat.eqb_neq; exact Hne). rewrite E. cbn [negb andb].
      destruct (live_normal d0) eqn:El; apply inbound_le_live; [reflexivity|exact El].
  + unfold exclusive in Hex. rewrite Hnever in Hex. cbn in Hex. rewrite andb_true_r in Hex.
    apply negb_false_iff in Hex.
    eapply Nat.le_trans; [|exact Hc]. apply count_mono. apply Forall2_update; [auto|].
    intros x Hx. rewrite Hn in Hx. injection Hx as <-. unfold inbound_normal. cbn. rewrite Hex, andb_false_r. discriminate.
Qed.

(* updates that do not make a client fully connected keep the count *)
Lemma update_count : forall l i f,
  (forall x, inbound_normal (f x) = true -> inbound_normal x = true) ->
  count_inbound_normal (update l i f) <= count_inbound_normal l.
Proof. intros l i f H. apply count_mono. apply Forall2_update; [auto|]. intros x _. apply H. Qed.

Lemma handle_one_count : forall fl l i, f_never fl = true ->
  count_inbound_normal l <= 1 -> count_inbound_normal (handle_one fl l i) <= 1.
Proof.
  intros fl l i Hnever Hc. unfold handle_one.
  destruct (nth_error l i) as [c|]; [|exact Hc]. destruct (active c); [|exact Hc].
  assert (H0 : count_inbound_normal (update l i (fun c0 => set_pmsg c0 None)) <= 1).
  { eapply Nat.le_trans; [apply update_count|exact Hc]. intros x Hx. exact Hx. }
  destruct (k_pmsg c) as [[|sh]|].
  - unfold handle_adv. cbn [k_phase set_pmsg k_minor k_gone]. destruct (k_phase c); try exact H0.
    destruct (k_gone c && Z.ltb 7 (k_minor c)).
    { eapply Nat.le_trans; [apply update_count|exact H0]. intros x Hx. cbn in Hx. discriminate. }
    assert (H1 : count_inbound_normal (update (update l i (fun c0 => set_pmsg c0 None)) i (fun c0 => set_phase c0 PInit)) <= 1).
    { eapply Nat.le_trans; [apply update_count|exact H0]. intros x Hx.
      unfold inbound_normal, live_normal, is_normal in Hx. cbn in Hx. rewrite andb_false_r in Hx. discriminate. }
    destruct (Z.eqb (k_minor c) 889); [apply client_init_count; assumption|exact H1].
  - destruct (k_gone c); [|apply client_init_count; assumption].
    eapply Nat.le_trans; [apply update_count|exact H0]. intros x Hx. cbn in Hx. discriminate.
  - destruct (k_gone c); [|exact Hc].
    eapply Nat.le_trans; [apply update_count|exact Hc]. intros x Hx. cbn in Hx. discriminate.
Qed.

Lemma pass_from_count : forall fl n l, f_never fl = true ->
  count_inbound_normal l <= 1 -> count_inbound_normal (pass_from fl n l) <= 1.
Proof.
  induction n as [|n IH]; intros l Hn Hc; cbn [pass_from]; [exact Hc|].
  apply IH; [exact Hn|]. apply handle_one_count; assumption.
Qed.

Lemma pump_count : forall fl l, f_never fl = true ->
  count_inbound_normal l <= 1 -> count_inbound_normal (pump fl l) <= 1.
Proof. intros. unfold pump, pass. repeat apply pass_from_count; assumption. Qed.

Lemma append_count : forall l c, is_normal c = false ->
  count_inbound_normal (l ++ [c]) = count_inbound_normal l.
Proof.
  intros l c H. unfold count_inbound_normal. rewrite filter_app, app_length. cbn [filter].
  unfold inbound_normal, live_normal. rewrite H, andb_false_r. cbn. lia.
Qed.

Lemma phase_after_version_not_normal : forall m, match phase_after_version m with PNormal => true | _ => false end = false.
Proof. intros m. unfold phase_after_version. destruct (Z.ltb m 7); reflexivity. Qed.

Lemma step_nevershared : forall fl l o, f_never fl = true ->
  count_inbound_normal l <= 1 -> count_inbound_normal (step fl l o) <= 1.
Proof.
  intros fl l o Hnever Hc. destruct o as [rev m|rev m|rev|i|i q|i sh q|i q]; cbn [step].
  - apply pump_count; [exact Hnever|]. rewrite append_count; [exact Hc|]. unfold is_normal. cbn. apply phase_after_version_not_normal.
  - apply pump_count; [exact Hnever|]. rewrite append_count; [exact Hc|reflexivity].
  - apply pump_count; [exact Hnever|]. rewrite append_count; [exact Hc|reflexivity].
  - apply pump_count; [exact Hnever|]. eapply Nat.le_trans; [apply update_count|exact Hc].
    intros x Hx. destruct (k_open x && is_hold x) eqn:E; [|exact Hx].
    unfold inbound_normal, live_normal, is_normal in Hx. cbn in Hx. rewrite phase_after_version_not_normal in Hx.
    rewrite andb_false_r in Hx. discriminate.
  - assert (H1 : count_inbound_normal (enqueue l i (fun p => match p with PSec => true | _ => false end) MAdv) <= 1).
    { unfold enqueue. eapply Nat.le_trans; [apply update_count|exact Hc]. intros x Hx.
      match type of Hx with context [if ?b then _ else _] => destruct b end; exact Hx. }
    destruct q; [exact H1|apply pump_count; assumption].
  - assert (H1 : count_inbound_normal (enqueue l i (fun p => match p with PInit => true | _ => false end) (MInit sh)) <= 1).
    { unfold enqueue. eapply Nat.le_trans; [apply update_count|exact Hc]. intros x Hx.
      match type of Hx with context [if ?b then _ else _] => destruct b end; exact Hx. }
    destruct q; [exact H1|apply pump_count; assumption].
  - assert (H1 : count_inbound_normal (update l i (fun c => if k_open c then set_gone c else c)) <= 1).
    { eapply Nat.le_trans; [apply update_count|exact Hc]. intros x Hx. destruct (k_open x); exact Hx. }
    destruct q; [exact H1|apply pump_count; assumption].
Qed.

(* C14_nevershared_at_most_one: for every arrival order, every protocol version, every shared flag,
   every interleaving of connects (accepted / on hold / refused), handshake steps, hang-ups and
   event-loop passes, with or without dontDisconnect *)
Lemma nevershared_at_most_one : forall fl ops, f_never fl = true ->
  count_inbound_normal (run fl [] ops) <= 1.
Proof.
  intros fl ops Hn. unfold run.
  assert (H : forall l, count_inbound_normal l <= 1 -> count_inbound_normal (fold_left (step fl) ops l) <= 1).
  { induction ops as [|o ops IH]; intros l Hl; cbn; [exact Hl|]. apply IH. apply step_nevershared; assumption. }
  apply H. cbn. lia.
Qed.

Definition hs (i : nat) (sh : bool) : list op := [OAdv i false; OInit i sh false].
Example nevershared_nonvacuous :
  map obs_code (run (mkFlags false true false) [] ([OConn false 8] ++ hs 0 true ++ [OConn false 8] ++ hs 1 true))
    = [(-1)%Z; 4%Z] /\
  map obs_code (run (mkFlags false true true) [] ([OConn false 8] ++ hs 0 true ++ [OConn false 8] ++ hs 1 true))
    = [4%Z; (-1)%Z] /\
  map obs_code (run (mkFlags false false false) [] ([OConn false 8] ++ hs 0 true ++ [OConn false 8] ++ hs 1 true))
    = [4%Z; 4%Z] /\
  count_inbound_normal (run (mkFlags false false false) [] ([OConn false 8] ++ hs 0 true ++ [OConn false 8] ++ hs 1 true)) = 2.
Proof. vm_compute. repeat split. Qed.

Example ready_nonvacuous :
  ready (run (mkFlags false false false) [] [OConn false 8; OAdv 0 false]) 0 (mkClient false PInit true false 8 None).
Proof. vm_compute. repeat split. Qed.

(* protocol versions: 3.3 has no type choice; 3.14 / 3.16 (UltraVNC) behave like 3.8: their ClientInit
   is read and an exclusive request disconnects the others; only 3.889 is implicitly shared *)
Example versions_in_sharing :
  map obs_code (run (mkFlags false false false) [] ([OConn false 8] ++ hs 0 true ++ [OConn false 14] ++ hs 1 false)) = [(-1)%Z; 4%Z] /\
  map obs_code (run (mkFlags false false false) [] ([OConn false 8] ++ hs 0 true ++ [OConn false 889; OAdv 1 false])) = [4%Z; 4%Z] /\
  map obs_code (run (mkFlags false false false) [] ([OConn false 8] ++ hs 0 true ++ [OConn false 3; OInit 1 false false])) = [(-1)%Z; 4%Z].
Proof. vm_compute. repeat split. Qed.

(* hang-up and ClientInit in the same pass: the newer client A (index 1, list head) hangs up, the
   older C (index 0) sends an exclusive ClientInit; with dontDisconnect C is let in because A is
   closed first (and skipped by the iterator).  The other arrival order refuses C. *)
Example same_pass_head_first :
  map obs_code (run (mkFlags false false true) []
    [OConn false 8; OAdv 0 false; OConn false 8; OAdv 1 false; OInit 1 true false;
     ODrop 1 true; OInit 0 false false]) = [4%Z; (-1)%Z] /\
  map obs_code (run (mkFlags false false true) []
    [OConn false 8; OAdv 0 false; OInit 0 true false; OConn false 8; OAdv 1 false;
     ODrop 0 true; OInit 1 false false]) = [(-1)%Z; (-1)%Z].
Proof. vm_compute. repeat split. Qed.

(* ---------------------------------------------------------------- builds without thread support *)
Lemma other_normal_nt_weaker : forall stale l from i,
  other_normal_nt stale from i l = false -> other_normal from i l = false.
Proof.
  induction l as [|c t IH]; intros from i H; cbn in *; [reflexivity|].
  apply orb_false_iff in H. destruct H as [H1 H2]. apply orb_false_iff. split; [|apply IH; exact H2].
  unfold live_normal. destruct (negb (Nat.eqb from i)); cbn in *; [|reflexivity].
  destruct (k_open c); cbn in *; [exact H1|reflexivity].
Qed.

(* what still holds when closed, unreaped RFB_NORMAL clients are counted: the decision is the one of
   the threaded build, or - only with dontDisconnect - the newcomer is refused once more than
   necessary and nobody else is touched.  Never an additional connected client. *)
Lemma nothread_at_most_extra_refusal : forall stale fl l i shared,
  client_init_nt stale fl l i shared = client_init fl l i shared \/
  (f_dontdisc fl = true /\
   client_init_nt stale fl l i shared = update (update l i (fun c => set_phase c PNormal)) i close).
Proof.
  intros stale fl l i shared. unfold client_init_nt, client_init.
  destruct (nth_error l i) as [c|]; [|left; reflexivity].
  destruct (k_open c && match k_phase c with PInit => true | _ => false end); [|left; reflexivity].
  destruct (exclusive fl (k_rev c) shared); [|left; reflexivity].
  destruct (f_dontdisc fl); [|left; reflexivity].
  destruct (other_normal_nt stale 0 i (update l i (fun c0 => set_phase c0 PNormal))) eqn:E.
  - right. split; reflexivity.
  - rewrite (other_normal_nt_weaker _ _ _ _ E). left. reflexivity.
Qed.

Lemma nothread_nevershared : forall stale fl l i shared, f_never fl = true ->
  count_inbound_normal l <= 1 -> count_inbound_normal (client_init_nt stale fl l i shared) <= 1.
Proof.
  intros stale fl l i shared Hn Hc.
  destruct (nothread_at_most_extra_refusal stale fl l i shared) as [->|[_ ->]].
  - apply client_init_count; assumption.
  - eapply Nat.le_trans; [|exact Hc].
    assert (E : update (update l i (fun c => set_phase c PNormal)) i close = update l i (fun c => close (set_phase c PNormal))).
    { clear. revert i. induction l as [|a t IH]; intros [|i]; cbn; auto. f_equal. apply IH. }
    rewrite E. apply update_count. intros x Hx. cbn in Hx. discriminate.
Qed.

Example nothread_nonvacuous :
  let l := [mkClient false PNormal false false 8 None; mkClient false PInit true false 8 None] in
  map obs_code (client_init_nt (fun j => Nat.eqb j 0) (mkFlags false false true) l 1 false) = [(-1)%Z; (-1)%Z] /\
  map obs_code (client_init (mkFlags false false true) l 1 false) = [(-1)%Z; 4%Z].
Proof. vm_compute. split; reflexivity. Qed.
