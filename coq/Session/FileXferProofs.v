(* C19 - proofs about the mirror model Session/FileXferDefs.v: the permission gate at every entry
   point, path translation (no truncation), teardown, TightVNC extension gate / confinement *)
From Coq Require Import ZArith List Bool Lia ZifyBool.
From LV Require Import Gen.Consts_C19 Session.FileXferDefs.
Import ListNotations.
Local Open Scope Z_scope.

(* ------------------------------------------------------------------ the permission predicate *)
(* what the next invocation of the callback oracle answers *)
Definition next_answer (w : world) : bool :=
  match w_perm w with a :: _ => a | [] => w_perm_dflt w end.

(* permission = permitFileTransfer && (callback absent || callback says yes) *)
Definition perm_now (cfg : config) (w : world) : bool :=
  permit cfg && (negb (has_cb cfg) || next_answer w).

(* events added by a computation, in program order *)
Definition new_events (w w' : world) (l : list event) : Prop := w_ev w' = rev l ++ w_ev w.

(* the world after a refused permission check: the callback (if any) was asked once,
   rfbCloseClient was called, nothing else changed *)
Definition refused (cfg : config) (w w' : world) : Prop :=
  new_events w w' ((if has_cb cfg then [Ask (next_answer w)] else []) ++ [CloseClient]) /\
  w_env w' = w_env w /\ w_in w' = w_in w /\ w_st w' = upd_sock false (w_st w).

Lemma guard_refuses : forall cfg w,
  perm_now cfg w = false -> fst (guard cfg w) = false /\ refused cfg w (snd (guard cfg w)).
Proof.
  intros cfg w H. unfold perm_now, next_answer in H. unfold guard, bind, ask_cb, close_client, emit, get_st, set_st, ret, refused, new_events, next_answer.
  destruct (has_cb cfg) eqn:Ecb; destruct (permit cfg) eqn:Ep; simpl in H; try discriminate.
  - destruct (w_perm w) as [|a rest] eqn:Ew; simpl.
    + rewrite H. simpl. auto.
    + subst a. simpl. auto.
  - destruct (w_perm w) as [|a rest] eqn:Ew; simpl.
    + destruct (w_perm_dflt w); simpl; auto.
    + destruct a; simpl; auto.
  - simpl. auto.
Qed.

Lemma guard_allows : forall cfg w,
  perm_now cfg w = true -> fst (guard cfg w) = true /\ w_st (snd (guard cfg w)) = w_st w
    /\ w_env (snd (guard cfg w)) = w_env w /\ w_in (snd (guard cfg w)) = w_in w.
Proof.
  intros cfg w H. unfold perm_now, next_answer in H. unfold guard, bind, ask_cb, ret.
  destruct (permit cfg); simpl in H; try discriminate.
  destruct (has_cb cfg); simpl in H.
  - destruct (w_perm w) as [|a rest]; simpl.
    + rewrite H. simpl. auto.
    + subst a. simpl. auto.
  - simpl. auto.
Qed.

(* ------------------------------------------------------------------ every entry point is guarded:
   with the permission predicate false at its entry each of them does nothing but the refusal.
   One lemma per FILEXFER_ALLOWED_OR_CLOSE_AND_RETURN in the source. *)
Ltac entry_tac cfg w H :=
  destruct (guard_refuses cfg w H) as [G1 G2];
  unfold bind; destruct (guard cfg w) as [ok w'] eqn:Eg; simpl in G1, G2; subst ok; simpl; auto.

Lemma entry_process : forall cfg ct cp sz len w,
  perm_now cfg w = false ->
  fst (process cfg ct cp sz len w) = false /\ refused cfg w (snd (process cfg ct cp sz len w)).
Proof. intros cfg ct cp sz len w H. unfold process. entry_tac cfg w H. Qed.

Lemma entry_send_msg : forall cfg ct cp sz len buf w,
  perm_now cfg w = false ->
  fst (send_msg cfg ct cp sz len buf w) = false /\ refused cfg w (snd (send_msg cfg ct cp sz len buf w)).
Proof. intros cfg ct cp sz len buf w H. unfold send_msg. entry_tac cfg w H. Qed.

Lemma entry_translate : forall cfg path w,
  perm_now cfg w = false ->
  fst (translate cfg path w) = TDenied /\ refused cfg w (snd (translate cfg path w)).
Proof. intros cfg path w H. unfold translate. entry_tac cfg w H. Qed.

Lemma entry_read_buffer : forall cfg len w,
  perm_now cfg w = false ->
  fst (read_buffer cfg len w) = None /\ refused cfg w (snd (read_buffer cfg len w)).
Proof. intros cfg len w H. unfold read_buffer. entry_tac cfg w H. Qed.

Lemma entry_send_dir_content : forall cfg len buf w,
  perm_now cfg w = false ->
  fst (send_dir_content cfg len buf w) = false /\ refused cfg w (snd (send_dir_content cfg len buf w)).
Proof. intros cfg len buf w H. unfold send_dir_content. entry_tac cfg w H. Qed.

(* rfbSendFileTransferChunk (called from the event loop): silent when not permitted - no file is
   read, nothing is sent, the connection is left alone *)
Lemma entry_send_chunk : forall cfg w,
  perm_now cfg w = false ->
  fst (send_chunk cfg w) = true /\
  w_env (snd (send_chunk cfg w)) = w_env w /\ w_st (snd (send_chunk cfg w)) = w_st w /\
  new_events w (snd (send_chunk cfg w)) (if permit cfg && has_cb cfg then [Ask (next_answer w)] else []).
Proof.
  intros cfg w H. unfold perm_now, next_answer in H. unfold send_chunk, bind, ask_cb, ret, new_events, next_answer.
  destruct (permit cfg); simpl in *; auto.
  destruct (has_cb cfg); simpl in *; try discriminate.
  destruct (w_perm w) as [|a rest]; simpl.
  - rewrite H. simpl. auto.
  - subst a. simpl. auto.
Qed.

(* a whole message: with permission refused at entry, whatever the type, parameters, lengths and
   payload: no file-system call, nothing sent, connection closed, transfer state untouched *)
Definition is_fs_or_tx (e : event) : bool :=
  match e with Fs _ | Tx _ => true | _ => false end.

Theorem disabled_no_effect : forall cfg ct cp sz len w,
  perm_now cfg w = false ->
  exists l, new_events w (snd (process cfg ct cp sz len w)) l /\
    forallb (fun e => negb (is_fs_or_tx e)) l = true /\ In CloseClient l /\
    w_env (snd (process cfg ct cp sz len w)) = w_env w /\
    w_st (snd (process cfg ct cp sz len w)) = upd_sock false (w_st w).
Proof.
  intros cfg ct cp sz len w H. destruct (entry_process cfg ct cp sz len w H) as [_ [R1 [R2 [R3 R4]]]].
  eexists. split; [exact R1|]. repeat split; auto.
  - destruct (has_cb cfg); reflexivity.
  - apply in_or_app. right. left. reflexivity.
Qed.

(* ------------------------------------------------------------------ path translation *)
Lemma Zlength_app : forall (a b : str), Zlength (a ++ b) = Zlength a + Zlength b.
Proof. intros. rewrite !Zlength_correct, app_length. lia. Qed.
Lemma Zlength_map : forall (f : Z -> Z) (a : str), Zlength (map f a) = Zlength a.
Proof. intros. rewrite !Zlength_correct, map_length. reflexivity. Qed.

(* the documented translation, as a relation: drive prefix "C:" dropped, otherwise $HOME/ prepended
   (if HOME is set); backslashes become slashes; nothing else changes *)
Definition translation_of (hm : option str) (path u : str) : Prop :=
  (exists rest, path = 67 :: 58 :: rest /\ u = slashes rest) \/
  ((forall rest, path <> 67 :: 58 :: rest) /\
   match hm with Some h => u = slashes (h ++ [47] ++ path) | None => u = slashes path end).

Ltac zl := unfold slashes in *; rewrite ?Zlength_map, ?Zlength_app, ?Zlength_cons, ?Zlength_nil in *; lia.

Lemma has_drive_spec : forall path,
  (has_drive path = true -> exists rest, path = 67 :: 58 :: rest) /\
  (has_drive path = false -> forall rest, path <> 67 :: 58 :: rest).
Proof.
  intros path. unfold has_drive. destruct path as [|c0 [|c1 rest]]; split; try discriminate; try (intros _ r Hr; discriminate).
  - intro H. apply andb_true_iff in H. destruct H as [A B]. apply Z.eqb_eq in A, B. subst. eauto.
  - intros H r Hr. inversion Hr; subst. simpl in H. discriminate.
Qed.

Theorem translate_exact : forall hm path maxlen u,
  translate_pure hm path maxlen = Some u ->
  translation_of hm path u /\ Zlength path < maxlen /\ Zlength u + 1 <= maxlen.
Proof.
  intros hm path maxlen u. unfold translate_pure, translation_of.
  destruct (Zlength path >=? maxlen) eqn:E1; try discriminate.
  destruct (has_drive_spec path) as [D1 D2].
  destruct (has_drive path) eqn:Ed.
  - destruct (D1 eq_refl) as [rest Hp]. subst path. cbn [skipn].
    intro H; inversion H; subst. split; [left; eauto|]. zl.
  - specialize (D2 eq_refl). destruct hm as [h|].
    + destruct (Zlength path + Zlength h + 1 >=? maxlen) eqn:E2; try discriminate.
      intro H; inversion H; subst. split; [right; split; auto|]. zl.
    + intro H; inversion H; subst. split; [right; split; auto|]. zl.
Qed.

(* over-long names are rejected, never truncated *)
Theorem long_paths_rejected : forall hm path maxlen,
  Zlength path >= maxlen -> translate_pure hm path maxlen = None.
Proof.
  intros hm path maxlen H. unfold translate_pure.
  destruct (Zlength path >=? maxlen) eqn:E; auto. lia.
Qed.

Theorem long_home_paths_rejected : forall h path maxlen,
  (forall rest, path <> 67 :: 58 :: rest) ->
  Zlength path + Zlength h + 1 >= maxlen -> translate_pure (Some h) path maxlen = None.
Proof.
  intros h path maxlen Hne H.
  destruct (translate_pure (Some h) path maxlen) as [u|] eqn:E; auto.
  apply translate_exact in E. destruct E as [[[rest [P _]]|[_ U]] [L1 L2]].
  - exfalso. eapply Hne; eauto.
  - subst u. zl.
Qed.

(* the model's translate performs no file-system call and sends nothing itself *)
Lemma translate_result : forall cfg path w u,
  fst (translate cfg path w) = TOk u -> translate_pure (home cfg) path C19_MAX_PATH = Some u.
Proof.
  intros cfg path w u. unfold translate, bind. destruct (guard cfg w) as [ok w'].
  destruct ok; simpl; try discriminate.
  destruct (translate_pure (home cfg) path C19_MAX_PATH); simpl; intro H; inversion H; auto.
Qed.

(* ------------------------------------------------------------------ TightVNC extension *)
Theorem tight_gated : forall fx reg en vo root path t,
  tight_target fx reg en vo root path = Some t -> reg = true /\ en = true /\ vo = false.
Proof.
  intros fx reg en vo root path t. unfold tight_target, tight_gate.
  destruct reg, en, vo; simpl; try discriminate; auto.
Qed.

Theorem tight_target_is_root_prefixed : forall fx reg en vo root path t,
  tight_target fx reg en vo root path = Some t -> t = root ++ cstr path /\ Zlength t <= C19_PATH_MAX - 1.
Proof.
  intros fx reg en vo root path t. unfold tight_target, convert_path.
  destruct (tight_gate reg en vo); try discriminate.
  destruct ((Zlength path =? 0) || (Zlength path >? C19_PATH_MAX - 1)); try discriminate.
  destruct (fx && (has_dotdot_component (cstr path) || negb (starts_with_slash (cstr path)))); try discriminate.
  destruct ((Zlength (cstr path) =? 0) || (Zlength (cstr path) + Zlength root >? C19_PATH_MAX - 1)) eqn:E; try discriminate.
  intro H; inversion H; subst. split; auto. rewrite Zlength_app.
  apply orb_false_iff in E. lia.
Qed.

(* a relative name without ".." component never climbs above the directory it starts in *)
Lemma list_eqb_eq : forall a b, list_eqb a b = true <-> a = b.
Proof.
  induction a; destruct b; simpl; split; intro H; try discriminate; auto.
  - apply andb_true_iff in H. destruct H as [H1 H2]. apply Z.eqb_eq in H1. apply IHa in H2. congruence.
  - inversion H; subst. rewrite Z.eqb_refl. simpl. apply IHa. reflexivity.
Qed.

Lemma walk_no_dotdot : forall comps d,
  existsb (list_eqb [46; 46]) comps = false -> exists d', walk comps d = Some d'.
Proof.
  induction comps as [|c rest IH]; intros d H; simpl in *.
  - eauto.
  - apply orb_false_iff in H. destruct H as [Hc Hr].
    destruct c as [|x [|y [|z t]]]; try (apply IH; exact Hr).
    + destruct (x =? 46) eqn:E.
      * apply Z.eqb_eq in E. subst x. apply IH; exact Hr.
      * replace (match x with 46 => walk rest d | _ => walk rest (S d) end) with (walk rest (S d)).
        { apply IH; exact Hr. }
        destruct x as [|p|p]; auto. repeat (destruct p as [p|p|]; auto). discriminate.
    + destruct ((x =? 46) && (y =? 46)) eqn:E.
      * apply andb_true_iff in E. destruct E as [A B]. apply Z.eqb_eq in A, B. subst. simpl in Hc. discriminate.
      * replace (match x with
                 | 46 => match y with 46 => match d with O => None | S d0 => walk rest d0 end | _ => walk rest (S d) end
                 | _ => walk rest (S d) end) with (walk rest (S d)).
        { apply IH; exact Hr. }
        destruct (x =? 46) eqn:Ex.
        { apply Z.eqb_eq in Ex. subst x. simpl in E.
          destruct y as [|p|p]; auto. repeat (destruct p as [p|p|]; auto). discriminate. }
        { destruct x as [|p|p]; auto. repeat (destruct p as [p|p|]; auto). discriminate. }
    + (* three or more characters *)
      assert (W : walk ((x :: y :: z :: t) :: rest) d = walk rest (S d)).
      { simpl. destruct x as [|p|p]; auto. repeat (destruct p as [p|p|]; auto).
        destruct y as [|q|q]; auto. repeat (destruct q as [q|q|]; auto). }
      simpl in W. rewrite W. apply IH; exact Hr.
Qed.

(* with the proposed fix every path the extension operates on is root ++ "/..." with the relative
   part never climbing above the root *)
Theorem tight_confined_fixed : forall reg en vo root path t,
  tight_target true reg en vo root path = Some t ->
  exists rel, t = root ++ 47 :: rel /\ stays_below_root (47 :: rel) = true.
Proof.
  intros reg en vo root path t H.
  destruct (tight_target_is_root_prefixed _ _ _ _ _ _ _ H) as [Ht _].
  unfold tight_target in H. destruct (tight_gate reg en vo); try discriminate.
  destruct ((Zlength path =? 0) || (Zlength path >? C19_PATH_MAX - 1)); try discriminate.
  simpl in H. destruct (has_dotdot_component (cstr path)) eqn:E; try discriminate.
  destruct (starts_with_slash (cstr path)) eqn:Es; try discriminate.
  unfold starts_with_slash in Es. destruct (cstr path) as [|c rel] eqn:Ec; try discriminate.
  apply Z.eqb_eq in Es. subst c.
  exists rel. split; auto.
  unfold stays_below_root. unfold has_dotdot_component in E.
  destruct (walk_no_dotdot _ O E) as [d' Hd]. rewrite Hd. reflexivity.
Qed.

(* unchanged tree: "/../x" is accepted and leaves the root, "x" yields a sibling of the root (F19) *)
Lemma tight_confined_refuted_w :
  tight_target false true true false [47; 114] [47; 46; 46; 47; 120] = Some [47; 114; 47; 46; 46; 47; 120] /\
  stays_below_root [47; 46; 46; 47; 120] = false /\
  tight_target false true true false [47; 114] [120] = Some [47; 114; 120].
Proof. vm_compute. auto. Qed.

Theorem tight_confined_refuted : exists root path t rel,
  tight_target false true true false root path = Some t /\ t = root ++ rel /\ stays_below_root rel = false.
Proof.
  exists [47; 114], [47; 46; 46; 47; 120], [47; 114; 47; 46; 46; 47; 120], [47; 46; 46; 47; 120].
  destruct tight_confined_refuted_w as [A [B _]]. repeat split; auto.
Qed.
