(* C19 - dynamic theorems about a whole message: effects only while the connection has not been
   closed, and every file-system call is on the translation of a name the client sent *)
From Coq Require Import ZArith List Bool Lia.
From LV Require Import Gen.Consts_C19 Session.FileXferDefs Session.FileXferProofs Session.FileXferHoare.
Import ListNotations.
Local Open Scope Z_scope.

Ltac hb L := eapply hoare_bind; [apply L | intros ?].
Tactic Notation "hbn" constr(L) ident(x) := eapply hoare_bind; [apply L | intros x].
Ltac hweak := apply hoare_ret; intros ? HH; first [exact HH | exact (St_weaken _ _ _ _ HH)].

Lemma hoare_pull : forall A (m : M A) (P : world -> Prop) (P0 : Prop) Q,
  (P0 -> hoare P m Q) -> hoare (fun w => P w /\ P0) m Q.
Proof. intros A m P P0 Q H w [H1 H2]. apply H; auto. Qed.

(* ------------------------------------------------------------------ which calls a message may make *)
(* the names a client names in a message of type ct/cp with the given payload *)
Definition client_names (ct cp : Z) (buffer : str) : list str :=
  if (ct =? C19_DirContentRequest) && (cp =? C19_RDirContent) then [cstr buffer]
  else if ct =? C19_FileTransferRequest then [cstr buffer]
  else if ct =? C19_FileTransferOffer then [cstr (offer_buffer buffer)]
  else if ct =? C19_Command then
    if (cp =? C19_CDirCreate) || (cp =? C19_CFileDelete) then [cstr buffer]
    else if cp =? C19_CFileRename then
      match split_last 42 buffer with Some (a, b, _) => [a; b] | None => [] end
    else []
  else [].

Definition translated (cfg : config) (names : list str) (p : str) : Prop :=
  exists nm, In nm names /\ translate_pure (home cfg) nm C19_MAX_PATH = Some p.

(* path-taking calls only on translated names; stat also on the entries of a listed directory *)
Definition allowed_op (cfg : config) (names : list str) (op : fs_op) : Prop :=
  match op with
  | FOpenR p | FOpenW p | FOpendir p | FMkdir p | FRmdir p | FUnlink p => translated cfg names p
  | FStat p => translated cfg names p \/ exists d n, translated cfg names d /\ ~ In 47 n /\ p = d ++ [47] ++ n
  | FRename a b => translated cfg names a /\ translated cfg names b
  | _ => True
  end.

Section Branches.
Variable cfg : config.
Variable names : list str.
Variable ev0 : list event.
Let S := allowed_op cfg names.
Notation ST := (St S ev0).

Lemma tr_in : forall nm u, In nm names -> translate_pure (home cfg) nm C19_MAX_PATH = Some u -> translated cfg names u.
Proof. intros. exists nm. auto. Qed.

(* small state-only helpers *)
Lemma St_set : forall b w s, ST b w -> sock_open s = sock_open (w_st w) -> ST b (snd (set_st s w)).
Proof.
  intros b w s [[new [E1 [E2 E3]]] Hb] Hs. simpl. split.
  - exists new. simpl. rewrite Hs. auto.
  - simpl. rewrite Hs. auto.
Qed.

(* [s <- get_st ;; set_st (f s) ;;; rest s] where f leaves the socket state alone *)
Lemma h_mod : forall A (f : xstate -> xstate) (rest : xstate -> M A) b Q,
  (forall s, sock_open (f s) = sock_open s) ->
  (forall s, hoare (ST b) (rest s) Q) ->
  hoare (ST b) (bind get_st (fun s => bind (set_st (f s)) (fun _ => rest s))) Q.
Proof.
  intros A f rest b Q Hf Hr w H. unfold bind, get_st. simpl.
  apply Hr. apply (St_set b w (f (w_st w)) H). apply Hf.
Qed.

Lemma h_pre_open : forall b, hoare (ST b) (pre_open cfg) (fun _ => ST b).
Proof.
  intros b w H. unfold pre_open, bind, get_st.
  destruct (fix_f7 cfg && fd_open (w_st w)); [|exact H].
  pose proof (h_fs_void S ev0 FCloseFd b (or_introl eq_refl) I w H) as H1.
  unfold fs_void in H1. simpl in H1. simpl.
  apply (St_set b _ _ H1). reflexivity.
Qed.

Lemma h_set_fd_opened : forall b, hoare (ST b) set_fd_opened (fun _ => ST b).
Proof. intros b. apply h_quiet. intros w. unfold set_fd_opened, bind, get_st, set_st. destruct (fd_open (w_st w)); simpl; auto. Qed.

Lemma h_set_fd_failed : forall b, hoare (ST b) set_fd_failed (fun _ => ST b).
Proof. intros b. apply h_quiet. intros w. unfold set_fd_failed, bind, get_st, set_st, ret. destruct (fd_open (w_st w)); simpl; auto. Qed.

Lemma h_close_fd : forall b, hoare (ST b) close_fd (fun _ => ST b).
Proof.
  intros b. unfold close_fd. hb (h_fs_void S ev0 FCloseFd b (or_introl eq_refl) I).
  apply h_modify. reflexivity.
Qed.

Lemma h_call : forall op, S op -> is_effect (Fs op) = true -> hoare (ST true) (fs_call op) (fun _ => ST true).
Proof. intros op Hs He. apply h_fs_call; auto; intro E; subst; discriminate. Qed.

Lemma h_err : forall b, hoare (ST b) (emit ModelErr;;; ret false) (fun _ : bool => ST false).
Proof. intros b. hb h_emit_harmless; [reflexivity|discriminate|intros; discriminate|]. hweak. Qed.

Lemma h_send : forall ct cp sz len buf, hoare (ST true) (send_msg cfg ct cp sz len buf) (fun _ : bool => ST false).
Proof. intros. eapply hoare_post; [apply h_send_msg_T|]. intros r w H. exact (St_weaken _ _ _ _ H). Qed.

(* send_msg when the connection may already be closed: the guard may still ask, nothing is sent
   on a closed socket *)
Lemma h_guard_F : hoare (ST false) (guard cfg) (fun _ => ST false).
Proof.
  unfold guard. eapply hoare_bind with (R := fun _ => ST false).
  - destruct (has_cb cfg); [apply h_ask_cb | apply hoare_ret; auto].
  - intros cb_ok. destruct (cb_ok && permit cfg); [apply hoare_ret; auto|]. hb h_close_client. hweak.
Qed.

Lemma h_send_F : forall ct cp sz len buf, hoare (ST false) (send_msg cfg ct cp sz len buf) (fun _ : bool => ST false).
Proof.
  intros. unfold send_msg. hbn h_guard_F ok. destruct ok; cbn [negb]; [|hweak].
  hbn h_write_exact_F r1. destruct r1; cbn [negb].
  2:{ hb h_close_client. hweak. }
  destruct (len >? 0); [|hweak].
  hbn h_write_exact_F r2. destruct r2; cbn [negb]; [hweak|]. hb h_close_client. hweak.
Qed.

Lemma h_weak_pre : forall A (m : M A) b Q, hoare (ST false) m Q -> hoare (ST b) m Q.
Proof. intros A m b Q H. eapply hoare_pre; [exact H|]. intros w Hw. exact (St_weaken _ _ _ _ Hw). Qed.

Lemma h_close_dir : forall b, hoare (ST b) close_dir (fun _ => ST b).
Proof.
  intros b. unfold close_dir. hb (h_fs_void S ev0 FClosedir b (or_intror eq_refl) I).
  apply h_modify. reflexivity.
Qed.

Lemma h_mark_dir_open : forall b, hoare (ST b) mark_dir_open (fun _ => ST b).
Proof. intros b. unfold mark_dir_open. apply h_modify. reflexivity. Qed.

Lemma h_send_chunk : hoare (ST true) (send_chunk cfg) (fun _ => ST false).
Proof.
  unfold send_chunk. eapply hoare_bind with (R := fun _ => ST true).
  - destruct (negb (permit cfg)); [apply hoare_ret; auto|]. destruct (has_cb cfg); [apply h_ask_cb | apply hoare_ret; auto].
  - intros allowed. destruct (negb allowed). { hweak. }
    eapply hoare_bind with (R := fun s w => ST true w /\ s = w_st w); [apply h_get_st|]. intros s.
    eapply hoare_pre with (P' := ST true); [|intros w [H _]; exact H].
    destruct (fd_open s && sending s). 2:{ hweak. }
    destruct (negb (sock_open s)). { hweak. }
    hbn (h_call FRead I eq_refl) e.
    destruct e as [[| | | | | | |b]|]; try apply h_err.
    + hbn h_send_msg_T r. apply h_weak_pre. hb h_close_fd. hweak.
    + destruct b as [|c t].
      * hbn h_send_msg_T r. apply h_weak_pre. hb h_close_fd. hweak.
      * destruct (negb (compression s)); [apply h_send|].
        hbn (h_call FCompress I eq_refl) e2.
        destruct e2 as [[| | | | | | |z]|]; try apply h_err; try apply h_send.
        destruct (Zlength z <? Zlength (c :: t)); apply h_send.
Qed.

Lemma h_dir_loop : forall fuel path,
  translated cfg names path ->
  hoare (ST true) (dir_loop fuel cfg path) (fun _ : bool => ST false).
Proof.
  induction fuel as [|k IH]; intros path Hp; cbn [dir_loop].
  - apply h_err.
  - hbn (h_call FReaddir I eq_refl) e.
    destruct e as [[| | | | |n| |]|]; try apply h_err.
    + destruct (has_slash n) eqn:Hsl; [apply h_err|].
      assert (Hst : S (FStat (path ++ [47] ++ n))).
      { right. exists path, n. repeat split; auto. intro Hin. unfold has_slash in Hsl.
        assert (X : existsb (Z.eqb 47) n = true) by (apply existsb_exists; exists 47; split; [exact Hin|apply Z.eqb_refl]).
        congruence. }
      hbn (h_call (FStat (path ++ [47] ++ n)) Hst eq_refl) st.
      destruct st as [[| | |isdir size ct at_ mt| | | |]|]; try apply h_err.
      * apply IH; auto.
      * destruct (hidden n); [apply IH; auto|].
        hbn h_send_msg_T r. destruct r; cbn [negb]; [apply IH; auto|].
        hb h_close_dir. hweak.
    + hweak.
Qed.

Lemma h_send_dir_content : forall len buffer,
  In (cstr buffer) names ->
  hoare (ST true) (send_dir_content cfg len buffer) (fun _ : bool => ST false).
Proof.
  intros len buffer Hin. unfold send_dir_content.
  hbn h_guard_T ok. destruct ok; cbn [negb]; [|hweak].
  hbn h_translate_T t. apply hoare_pull. intros Ht.
  destruct t as [| |path]; try hweak. cbn [is_tok].
  assert (Hp : translated cfg names path). { eapply tr_in; eauto. }
  hbn (h_call (FOpendir path) Hp eq_refl) d.
  destruct d as [[| | | | | | |]|]; try apply h_err.
  - hb h_mark_dir_open. hbn h_send_msg_T r. destruct r; cbn [negb].
    2:{ eapply hoare_bind with (R := fun _ => ST false); [|intros ?; hweak].
        destruct (fix_f7b cfg); [apply h_close_dir|apply h_modify; reflexivity]. }
    eapply hoare_bind with (R := fun _ => ST true).
    { apply h_quiet. intros w. simpl. auto. }
    intros fuel. hbn (h_dir_loop (Datatypes.S fuel) path Hp) l.
    destruct l; cbn [negb]; [|hweak].
    (* after a complete listing the connection state is not known to the invariant: closedir, then
       the end-of-listing message, which checks the socket itself *)
    hb h_close_dir.
    apply h_send_F.
  - apply h_send.
Qed.

Lemma h_br_request : forall size len buffer,
  In (cstr buffer) names ->
  hoare (ST true) (br_request cfg size len buffer) (fun _ : bool => ST false).
Proof.
  intros size len buffer Hin. unfold br_request.
  hbn h_translate_T t. apply hoare_pull. intros Ht.
  destruct t as [| |f1]; try hweak. cbn [is_tok].
  assert (Hp : translated cfg names f1). { eapply tr_in; eauto. }
  hb h_pre_open.
  hbn (h_call (FOpenR f1) Hp eq_refl) o.
  destruct o as [[| | | | | | |]|]; try apply h_err.
  - hb h_set_fd_opened.
    hbn (h_call FFstat I eq_refl) fs.
    destruct fs as [[| | | |fsize ts| | |]|]; try apply h_err.
    + hb (h_fs_void S ev0 FCloseFd true (or_introl eq_refl) I).
      eapply h_mod; [reflexivity|intros ?]. apply h_send.
    + cbv zeta. eapply h_mod; [reflexivity|intros ?].
      hbn h_send_msg_T r. apply h_weak_pre.
      eapply h_mod; [reflexivity|intros ?].
      hbn h_write_exact_F r2. destruct r2; cbn [negb]; [hweak|]. hb h_close_client. hweak.
  - hb h_set_fd_failed. eapply h_mod; [reflexivity|intros ?]. apply h_send.
Qed.

Lemma h_br_offer : forall len buffer,
  In (cstr (offer_buffer buffer)) names ->
  hoare (ST true) (br_offer cfg len buffer) (fun _ : bool => ST false).
Proof.
  intros len buffer Hin. unfold br_offer. cbv zeta.
  hbn h_read_exact h. destruct h as [h4|].
  2:{ hb h_close_client. hweak. }
  hbn h_translate_T t. apply hoare_pull. intros Ht.
  destruct t as [| |f1]; try hweak. cbn [is_tok].
  assert (Hp : translated cfg names f1). { eapply tr_in; eauto. }
  hb h_pre_open.
  hbn (h_call (FOpenW f1) Hp eq_refl) o.
  destruct o as [[| | | | | | |]|]; try apply h_err.
  - hb h_set_fd_opened. hbn h_send_msg_T r. apply h_weak_pre. eapply h_mod; [reflexivity|intros ?]. hweak.
  - hb h_set_fd_failed. apply h_send.
Qed.

Lemma h_br_packet : forall size buffer,
  hoare (ST true) (br_packet cfg size buffer) (fun _ : bool => ST false).
Proof.
  intros size buffer. unfold br_packet.
  eapply hoare_bind with (R := fun s w => ST true w /\ s = w_st w); [apply h_get_st|]. intros s.
  eapply hoare_pre with (P' := ST true); [|intros w [H _]; exact H].
  destruct (fd_open s); [|hweak].
  eapply hoare_bind with (R := fun _ => ST true).
  - destruct (size =? 0).
    + hbn (h_call (FWrite buffer) I eq_refl) wr. destruct wr as [[| |rc| | | | |]|]; apply hoare_ret; auto.
    + hbn (h_call FUncompress I eq_refl) u. destruct u as [[| | | | | | |raw]|]; try (apply hoare_ret; auto; fail).
      hbn (h_call (FWrite raw) I eq_refl) wr. destruct wr as [[| |rc| | | | |]|]; apply hoare_ret; auto.
  - intros rv. destruct rv as [rc|]; [|apply h_err].
    destruct (rc =? -1); [|hweak]. hb h_close_fd. hweak.
Qed.

Lemma h_br_command : forall cp len buffer,
  (forall nm, In nm (client_names C19_Command cp buffer) -> In nm names) ->
  hoare (ST true) (br_command cfg cp len buffer) (fun _ : bool => ST false).
Proof.
  intros cp len buffer Hin. unfold br_command. unfold client_names in Hin.
  replace (C19_Command =? C19_DirContentRequest) with false in Hin by reflexivity.
  replace (C19_Command =? C19_FileTransferRequest) with false in Hin by reflexivity.
  replace (C19_Command =? C19_FileTransferOffer) with false in Hin by reflexivity.
  replace (C19_Command =? C19_Command) with true in Hin by reflexivity.
  cbn [andb] in Hin.
  destruct (cp =? C19_CDirCreate) eqn:E1.
  { cbn [orb] in Hin. hbn h_translate_T t. apply hoare_pull. intros Ht.
    destruct t as [| |f1]; try hweak. cbn [is_tok].
    assert (Hp : translated cfg names f1). { eapply tr_in; [apply Hin; left; reflexivity|eauto]. }
    hbn (h_call (FMkdir f1) Hp eq_refl) r. destruct r as [[| |rc| | | | |]|]; try apply h_err. apply h_send. }
  destruct (cp =? C19_CFileDelete) eqn:E2.
  { cbn [orb] in Hin. hbn h_translate_T t. apply hoare_pull. intros Ht.
    destruct t as [| |f1]; try hweak. cbn [is_tok].
    assert (Hp : translated cfg names f1). { eapply tr_in; [apply Hin; left; reflexivity|eauto]. }
    assert (Hs : S (FStat f1)). { left. exact Hp. }
    hbn (h_call (FStat f1) Hs eq_refl) st.
    destruct st as [[| | |isdir sz ct at_ mt| | | |]|]; try apply h_err; [apply h_send|].
    assert (Hd : S (if isdir then FRmdir f1 else FUnlink f1)). { destruct isdir; exact Hp. }
    assert (He : is_effect (Fs (if isdir then FRmdir f1 else FUnlink f1)) = true). { destruct isdir; reflexivity. }
    hbn (h_call _ Hd He) r. destruct r as [[| |rc| | | | |]|]; try apply h_err. apply h_send. }
  cbn [orb] in Hin.
  destruct (cp =? C19_CFileRename) eqn:E3; [|hweak].
  destruct (split_last 42 buffer) as [[[a b2] i]|]; [|hweak].
  hbn h_translate_T t1. apply hoare_pull. intros Ht1.
  destruct t1 as [| |f1]; try hweak. cbn [is_tok].
  hbn h_translate_T t2. apply hoare_pull. intros Ht2.
  destruct t2 as [| |f2]; try hweak. cbn [is_tok].
  assert (Hp : S (FRename f1 f2)).
  { split; [eapply tr_in; [apply Hin; left; reflexivity|eauto] | eapply tr_in; [apply Hin; right; left; reflexivity|eauto]]. }
  hbn (h_call (FRename f1 f2) Hp eq_refl) r. destruct r as [[| |rc| | | | |]|]; try apply h_err. apply h_send.
Qed.

Lemma h_br_header : forall size, hoare (ST true) (br_header cfg size) (fun _ : bool => ST false).
Proof.
  intros size. unfold br_header. destruct (size =? U32_MINUS1).
  - eapply hoare_bind with (R := fun s w => ST true w /\ s = w_st w); [apply h_get_st|]. intros s.
    eapply hoare_pre with (P' := ST true); [|intros w [H _]; exact H].
    eapply hoare_bind with (R := fun _ => ST true).
    + destruct (fd_open s); [apply (h_fs_void S ev0 FCloseFd true (or_introl eq_refl) I)|apply hoare_ret; auto].
    + intros ?. eapply h_mod; [reflexivity|intros ?]. hweak.
  - eapply h_mod; [reflexivity|intros ?]. apply h_send_chunk.
Qed.

Lemma h_br_eof : hoare (ST true) br_eof (fun _ : bool => ST false).
Proof.
  unfold br_eof.
  eapply hoare_bind with (R := fun s w => ST true w /\ s = w_st w); [apply h_get_st|]. intros s.
  eapply hoare_pre with (P' := ST true); [|intros w [H _]; exact H].
  eapply hoare_bind with (R := fun _ => ST true).
  - destruct (fd_open s); [apply (h_fs_void S ev0 FCloseFd true (or_introl eq_refl) I)|apply hoare_ret; auto].
  - intros ?. eapply h_mod; [reflexivity|intros ?]. hweak.
Qed.

Lemma h_br_abort : forall cp, hoare (ST true) (br_abort cfg cp) (fun _ : bool => ST false).
Proof.
  intros cp. unfold br_abort.
  eapply hoare_bind with (R := fun s w => ST true w /\ s = w_st w); [apply h_get_st|]. intros s.
  eapply hoare_pre with (P' := ST true); [|intros w [H _]; exact H].
  destruct (fd_open s). { hb h_close_fd. hweak. }
  destruct (cp =? 0); [apply h_send|].
  destruct (has_cb cfg); [|apply h_send].
  hbn h_ask_cb a. apply h_send.
Qed.

End Branches.

(* ------------------------------------------------------------------ a whole message *)
Lemma guard_in : forall cfg w, w_in (snd (guard cfg w)) = w_in w.
Proof.
  intros cfg w. unfold guard, bind, ask_cb, close_client, emit, get_st, set_st, ret.
  destruct (has_cb cfg); [destruct (w_perm w) as [|a r]|]; simpl;
    try (destruct (w_perm_dflt w && permit cfg)); try (destruct (a && permit cfg)); try (destruct (permit cfg)); reflexivity.
Qed.

Lemma read_buffer_value : forall cfg len w b,
  fst (read_buffer cfg len w) = Some b -> b = firstn (Z.to_nat len) (w_in w).
Proof.
  intros cfg len w b. unfold read_buffer, bind.
  pose proof (guard_in cfg w) as Gi.
  destruct (guard cfg w) as [ok w1]. simpl in Gi. destruct ok; cbn [negb]; [|simpl; discriminate].
  destruct (len >? C19_INT_MAX). { unfold close_client, bind, emit, get_st, set_st, ret. simpl. discriminate. }
  destruct (len >? 0); [|simpl; discriminate].
  unfold read_exact. destruct (sock_open (w_st w1) && (len <=? Zlength (w_in w1))); simpl.
  - intro H. inversion H. rewrite Gi. reflexivity.
  - unfold close_client, bind, emit, get_st, set_st, ret. simpl. discriminate.
Qed.

(* THE DYNAMIC THEOREM.  For every message on an open connection, whatever the callback oracle
   answers and whenever it changes its mind, whatever the file system returns and whatever bytes
   the client sent: in the trace of this message
     (1) every effect (file-system / zlib call other than close, bytes sent) happens before any
         rfbCloseClient - in particular nothing happens after a refusal;
     (2) every path-taking file-system call is on the translation of a name the client sent in
         this message (stat also on the entries of the directory being listed). *)
Theorem process_trace_ok : forall cfg ct cp sz len w0,
  sock_open (w_st w0) = true ->
  Inv (allowed_op cfg (client_names ct cp (firstn (Z.to_nat len) (w_in w0)))) (w_ev w0)
      (snd (process cfg ct cp sz len w0)).
Proof.
  intros cfg ct cp sz len w0 Hopen.
  set (names := client_names ct cp (firstn (Z.to_nat len) (w_in w0))).
  set (S := allowed_op cfg names).
  assert (H0 : St S (w_ev w0) true w0).
  { split; auto. exists []. simpl. auto. }
  (* with_buffer: the buffer handed to the branch is the first [len] unread bytes *)
  assert (WB : forall k (w : world),
             St S (w_ev w0) true w -> w_in w = w_in w0 ->
             (forall buffer, buffer = firstn (Z.to_nat len) (w_in w0) -> hoare (St S (w_ev w0) true) (k buffer) (fun _ : bool => St S (w_ev w0) false)) ->
             St S (w_ev w0) false (snd (with_buffer cfg len k w))).
  { intros k w Hst Hin Hk. unfold with_buffer, bind.
    pose proof (h_read_buffer_T S (w_ev w0) cfg len w Hst) as Hr.
    pose proof (read_buffer_value cfg len w) as Hv.
    destruct (read_buffer cfg len w) as [r w1]. simpl in Hr, Hv.
    destruct r as [buffer|]; simpl.
    - apply Hk; auto. rewrite <- Hin. apply Hv. reflexivity.
    - exact Hr. }
  assert (Main : St S (w_ev w0) false (snd (process cfg ct cp sz len w0))).
  { unfold process, bind.
    pose proof (h_guard_T S (w_ev w0) cfg w0 H0) as Hg. pose proof (guard_in cfg w0) as Gi.
    destruct (guard cfg w0) as [ok w1]. simpl in Hg, Gi.
    destruct ok; cbn [negb]; [|exact Hg].
    destruct (ct =? C19_DirContentRequest) eqn:E1.
    { destruct (cp =? C19_RDrivesList) eqn:E1a. { apply (h_send cfg names (w_ev w0)). exact Hg. }
      destruct (cp =? C19_RDirContent) eqn:E1b; [|exact (St_weaken _ _ _ _ Hg)].
      apply WB; auto. intros buffer Hb. apply h_send_dir_content.
      unfold names, client_names. rewrite E1, E1b. simpl. left. rewrite Hb. reflexivity. }
    destruct (ct =? C19_FileTransferRequest) eqn:E2.
    { apply WB; auto. intros buffer Hb. apply h_br_request.
      unfold names, client_names. rewrite E1, E2. simpl. left. rewrite Hb. reflexivity. }
    destruct (ct =? C19_FileHeader) eqn:E3. { apply (h_br_header cfg names (w_ev w0)). exact Hg. }
    destruct (ct =? C19_FileTransferOffer) eqn:E4.
    { apply WB; auto. intros buffer Hb. apply h_br_offer.
      unfold names, client_names. rewrite E1, E2, E4. simpl. left. rewrite Hb. reflexivity. }
    destruct (ct =? C19_FilePacket) eqn:E5. { apply WB; auto. intros buffer Hb. apply h_br_packet. }
    destruct (ct =? C19_EndOfFile) eqn:E6. { apply (h_br_eof cfg names (w_ev w0)). exact Hg. }
    destruct (ct =? C19_AbortFileTransfer) eqn:E7. { apply (h_br_abort cfg names (w_ev w0)). exact Hg. }
    destruct (ct =? C19_Command) eqn:E8; [|exact (St_weaken _ _ _ _ Hg)].
    apply WB; auto. intros buffer Hb. apply h_br_command.
    intros nm Hnm. unfold names. apply Z.eqb_eq in E8. rewrite E8. rewrite <- Hb. exact Hnm. }
  exact (proj1 Main).
Qed.

(* the invariant, read chronologically *)
Lemma okr_chrono : forall (S : fs_op -> Prop) new pre e post,
  okr S new -> rev new = pre ++ e :: post ->
  (is_effect e = true -> ~ In CloseClient pre) /\ (forall op, e = Fs op -> S op).
Proof.
  intros S new. induction new as [|x older IH]; intros pre e post Hok Hrev.
  - simpl in Hrev. destruct pre; discriminate.
  - simpl in Hrev. destruct Hok as [Ho [He Hs]].
    destruct post as [|p0 post0] using rev_ind.
    + apply app_inj_tail in Hrev. destruct Hrev as [Hp Hx]. subst x. split; auto.
      intros Hef Hin. apply He; auto. apply in_rev. rewrite Hp. exact Hin.
    + clear IHpost0. rewrite app_comm_cons, app_assoc in Hrev. apply app_inj_tail in Hrev. destruct Hrev as [Hp _].
      eapply IH; eauto.
Qed.

(* chronological trace of one message *)
Definition msg_trace (cfg : config) (ct cp sz len : Z) (w0 : world) (l : list event) : Prop :=
  w_ev (snd (process cfg ct cp sz len w0)) = rev l ++ w_ev w0.

Theorem effects_only_before_close_and_on_translated_names : forall cfg ct cp sz len w0 l pre e post,
  sock_open (w_st w0) = true ->
  msg_trace cfg ct cp sz len w0 l -> l = pre ++ e :: post -> is_effect e = true ->
  ~ In CloseClient pre /\
  (forall op, e = Fs op -> allowed_op cfg (client_names ct cp (firstn (Z.to_nat len) (w_in w0))) op).
Proof.
  intros cfg ct cp sz len w0 l pre e post Hopen Htr Hl He.
  destruct (process_trace_ok cfg ct cp sz len w0 Hopen) as [new [E1 [E2 _]]].
  unfold msg_trace in Htr. rewrite E1 in Htr. apply app_inv_tail in Htr. subst new.
  rewrite <- (rev_involutive l) in Hl.
  destruct (okr_chrono _ _ _ _ _ E2 Hl) as [A B]. split; auto.
Qed.

Theorem msg_trace_exists : forall cfg ct cp sz len w0,
  sock_open (w_st w0) = true -> exists l, msg_trace cfg ct cp sz len w0 l.
Proof.
  intros. destruct (process_trace_ok cfg ct cp sz len w0 H) as [new [E1 _]].
  exists (rev new). unfold msg_trace. rewrite rev_involutive. exact E1.
Qed.

(* ------------------------------------------------------------------ teardown *)
(* "a transfer never outlives its connection", full statement:
     forall cfg st, fd_open (state after connection_gone) = false
   is FALSE for the unchanged tree: after a granted rfbFileTransferRequest the descriptor stays open (F7) *)
Definition cfg_on : config := {| permit := true; has_cb := false; home := None; fix_f7 := false; fix_f14 := false; fix_f7b := false |}.
(* type 3 (request), length 1, payload "f" *)
Definition req_input : str := [3; 0; 0; 0; 0; 0; 0; 0; 0; 0; 1; 102].

Lemma transfer_outlives_connection_w :
  let '(_, _, st, _, _, _) := run_message cfg_on [] true [EOk; EFstat 5 [49]] req_input st0 in
  fd_open st = true /\
  let '(_, _, st') := run_gone cfg_on [] st in fd_open st' = true.
Proof. vm_compute. auto. Qed.

Theorem transfer_outlives_connection : exists cfg perms envs input,
  let '(_, _, st, _, _, _) := run_message cfg perms true envs input st0 in
  let '(_, _, st') := run_gone cfg [] st in fd_open st' = true.
Proof.
  exists cfg_on, [], [EOk; EFstat 5 [49]], req_input.
  pose proof transfer_outlives_connection_w as H. vm_compute in H. vm_compute. tauto.
Qed.

(* since fix commit 4d56b95 (fix_f7 = true): teardown leaves no descriptor behind, whatever the state *)
Theorem teardown_closes_fixed : forall cfg envs st,
  fix_f7 cfg = true ->
  let '(_, _, st') := run_gone cfg envs st in fd_open st' = false /\ lost_fds st' = lost_fds st.
Proof.
  intros cfg envs st Hf. unfold run_gone, connection_gone, bind, get_st, set_st, fs_void, emit, ret, mk_world. simpl.
  rewrite Hf. destruct (fd_open st) eqn:E; simpl; auto.
Qed.

(* F14 in the model: a write on the closed socket leaves the mutex locked, teardown then blocks *)
Theorem teardown_can_block : exists cfg perms envs input,
  let '(_, _, st, _, _, _) := run_message cfg perms false envs input st0 in
  fst (fst (run_gone cfg [] st)) = false.
Proof.
  exists {| permit := true; has_cb := true; home := None; fix_f7 := false; fix_f14 := false; fix_f7b := false |},
         [true; true; true], [EOk; EFstat 5 [49]], req_input.
  vm_compute. reflexivity.
Qed.

(* non-vacuity of the dynamic theorem: a run with effects and a refusal in the middle *)
Example dynamic_nonvacuous :
  let '(_, evs, _, _, _, _) :=
      run_message {| permit := true; has_cb := true; home := None; fix_f7 := false; fix_f14 := false; fix_f7b := false |}
                  [true; true; true] false [EOk; EFstat 5 [49]] req_input st0 in
  evs = [Ask true; Ask true; Ask true; Fs (FOpenR [102]); Fs FFstat; Ask false; CloseClient; CloseClient].
Proof. vm_compute. reflexivity. Qed.

(* non-vacuity of the hypotheses of the gate theorems: permission false at entry with the flag on and
   a callback that says no; permission true in the same world with another callback answer *)
Example disabled_nonvacuous :
  perm_now {| permit := true; has_cb := true; home := None; fix_f7 := false; fix_f14 := false; fix_f7b := false |}
           (mk_world [false; true] true [] req_input st0) = false /\
  perm_now {| permit := true; has_cb := true; home := None; fix_f7 := false; fix_f14 := false; fix_f7b := false |}
           (mk_world [true; false] true [] req_input st0) = true /\
  perm_now {| permit := false; has_cb := false; home := None; fix_f7 := false; fix_f14 := false; fix_f7b := false |}
           (mk_world [] true [] req_input st0) = false.
Proof. vm_compute. auto. Qed.

(* non-vacuity of the translation theorems: accepted names of the three shapes, and a rejected one *)
Example translate_nonvacuous :
  translate_pure (Some [47; 104]) [67; 58; 92; 97] 260 = Some [47; 97] /\
  translate_pure (Some [47; 104]) [97; 92; 98] 260 = Some [47; 104; 47; 97; 47; 98] /\
  translate_pure None [97] 260 = Some [97] /\
  translate_pure None (repeat 97 260) 260 = None /\
  translate_pure None (repeat 97 259) 260 = Some (repeat 97 259).
Proof. vm_compute. auto. Qed.

(* ------------------------------------------------------------------ the dispatcher level (what run_message executes) *)
Lemma read_exact_quiet : forall n w,
  w_ev (snd (read_exact n w)) = w_ev w /\ w_st (snd (read_exact n w)) = w_st w.
Proof. intros n w. unfold read_exact. destruct (sock_open (w_st w) && (n <=? Zlength (w_in w))); simpl; auto. Qed.

Theorem message_trace_ok : forall cfg w0,
  sock_open (w_st w0) = true ->
  exists names, Inv (allowed_op cfg names) (w_ev w0) (snd (handle_message cfg w0)).
Proof.
  intros cfg w0 Hopen. unfold handle_message, bind.
  destruct (read_exact_quiet (C19_sz_msg - 1) w0) as [Q1 Q2].
  destruct (read_exact (C19_sz_msg - 1) w0) as [h w1]. simpl in Q1, Q2.
  assert (Hdefault : exists names, Inv (allowed_op cfg names) (w_ev w0) (snd ((close_client;;; ret false) w1))).
  { exists []. unfold close_client, bind, emit, get_st, set_st, ret. simpl.
    exists [CloseClient]. simpl. rewrite Q1. repeat split; auto; try discriminate. }
  destruct h as [l|]; [|exact Hdefault].
  do 11 (destruct l as [|? l]; [exact Hdefault|]).
  destruct l; [|exact Hdefault].
  eexists. rewrite <- Q1. apply process_trace_ok. rewrite Q2. exact Hopen.
Qed.

(* the same with the set of names made explicit: the names are those the client sent in THIS message - computed
   from the message bytes (type, parameter, length field, payload), not existentially chosen *)
Definition message_names (input : str) : list str :=
  match firstn 11 input with
  | [ct; cp; _; _; _; _; _; l0; l1; l2; l3] =>
      client_names ct cp (firstn (Z.to_nat (u32_of [l0; l1; l2; l3])) (skipn 11 input))
  | _ => []
  end.

Theorem message_trace_ok_names : forall cfg w0,
  sock_open (w_st w0) = true ->
  Inv (allowed_op cfg (message_names (w_in w0))) (w_ev w0) (snd (handle_message cfg w0)).
Proof.
  intros cfg w0 Hopen. unfold handle_message, bind, read_exact. rewrite Hopen. cbn [andb].
  assert (Hdefault : forall names w1, w_ev w1 = w_ev w0 ->
            Inv (allowed_op cfg names) (w_ev w0) (snd ((close_client;;; ret false) w1))).
  { intros names w1 Q1. unfold close_client, bind, emit, get_st, set_st, ret. simpl.
    exists [CloseClient]. simpl. rewrite Q1. repeat split; auto; try discriminate. }
  change (Z.to_nat (C19_sz_msg - 1)) with 11%nat.
  destruct (C19_sz_msg - 1 <=? Zlength (w_in w0)); [|apply Hdefault; reflexivity].
  unfold message_names.
  destruct (firstn 11 (w_in w0)) as [|ct l]; [apply Hdefault; reflexivity|].
  destruct l as [|cp l]; [apply Hdefault; reflexivity|].
  do 9 (destruct l as [|? l]; [apply Hdefault; reflexivity|]).
  destruct l; [|apply Hdefault; reflexivity].
  match goal with |- Inv _ _ (snd (process _ _ _ _ _ ?w)) =>
    change (w_ev w0) with (w_ev w); change (skipn 11 (w_in w0)) with (w_in w) end.
  apply process_trace_ok. exact Hopen.
Qed.
