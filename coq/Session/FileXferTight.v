(* C19 - TightVNC 1.3 file-transfer extension (tightvnc-filetransfer/rfbtightserver.c handleMessage,
   handlefiletransferrequest.c Handle*Request, filetransfermsg.c ChkFile*/CloseUndoneFileUpload/
   FileUpdateComplete/CreateDirectory): the gate and the path part of every message handler.
   Definitions only.

   What is modelled: which file-system calls each client message can cause and on which path.  The
   results of the calls that matter for later paths (creat succeeded, write failed) are parameters of
   the messages (oracle answers).  Not modelled: message encoding, data transfer, the download thread. *)
From Coq Require Import ZArith List Bool Lia.
From LV Require Import Gen.Consts_C19 Session.FileXferDefs.
Import ListNotations.
Local Open Scope Z_scope.

Inductive tmsg :=
| TList (name : str) (entries : list str)  (* rfbFileListRequest; entries = what readdir() returns *)
| TDownload (name : str)                   (* rfbFileDownloadRequest *)
| TUpload (name : str) (creat_ok : bool)   (* rfbFileUploadRequest; creat_ok = result of creat() *)
| TUploadTrunc (partial : str)             (* rfbFileUploadRequest whose name does not arrive completely *)
| TUploadData (fails : bool)               (* rfbFileUploadData with data; fails = short write or compressedLevel != 0 *)
| TUploadDone                              (* rfbFileUploadData with realSize = compressedSize = 0 (+ mtime) *)
| TUploadFailed (has_reason : bool)        (* rfbFileUploadFailed *)
| TDownloadCancel                          (* rfbFileDownloadCancel *)
| TMkdir (name : str)                      (* rfbFileCreateDirRequest *)
| TClose                                   (* the connection is dropped (by the peer or the server) *)
| TMsgTrunc.                               (* a message whose fixed part or announced rest does not arrive completely (rfbReadExact
                                              fails): e.g. rfbFileUploadData with realSize = compressedSize = 0 - the end-of-upload
                                              marker - without the 4 bytes of modification time.  The handler drops the client. *)

Inductive tfs :=
| TStat (p : str) | TOpendir (p : str) | TOpenR (p : str) | TCreat (p : str)
| TUtime (p : str) | TUnlink (p : str) | TMkdirOp (p : str)
| TStatEntry (dir name : str)    (* stat(join_dir dir name) for an entry of the listed directory *)
| TOverflow                      (* strcpy/strcat beyond fullpath[PATH_MAX] in CreateFileListInfo *)
| TLostFd.                       (* HandleFileUpload sets uploadFD = -1 while the previous upload's descriptor is
                                    still open: it is never closed (not by the close hook either) *)

(* strcpy(fullpath, path); if (path[strlen(path)-1] != '/') strcat(fullpath, "/"); strcat(fullpath, d_name) *)
Definition join_dir (d n : str) : str :=
  d ++ (match rev d with 47 :: _ => [] | _ => [47] end) ++ n.

Definition tfs_path (o : tfs) : str :=
  match o with
  | TStat p | TOpendir p | TOpenR p | TCreat p | TUtime p | TUnlink p | TMkdirOp p => p
  | TStatEntry d n => join_dir d n
  | TOverflow | TLostFd => []
  end.

(* rtcp->rcft.rcfu.fName (as C string), uploadInProgress, and whether the connection is still there *)
Record tstate := { up_name : str; up_active : bool; t_alive : bool }.
Definition tstate0 : tstate := {| up_name := []; up_active := false; t_alive := true |}.

(* flags (true = the repaired flow):
   [f19]     ConvertPath refuses ".." components and names without leading '/'  (tree since 9f956a4)
   [fstale]  the name of a refused upload request is not left behind in fName  (tree since 7654ac8)
   [fundone] a new upload request first finishes the undone one (CloseUndoneFileUpload) before its
             name is read into fName                                           (tree since fb3fc0a)
   [flist]   CreateFileListInfo skips entries whose full path does not fit     (tree since 2214ab9) *)
Record tvariant := { f19 : bool; fstale : bool; fundone : bool; flist : bool }.

Definition conv (v : tvariant) (root name : str) : option str :=
  if f19 v && (has_dotdot_component (cstr name) || negb (starts_with_slash (cstr name))) then None
  else convert_path root (cstr name).

Definition len_ok (name : str) : bool := negb ((Zlength name =? 0) || (Zlength name >? C19_PATH_MAX - 1)).

(* CloseUndoneFileUpload *)
Definition close_undone (st : tstate) : list tfs * tstate :=
  if up_active st then ((match up_name st with [] => [] | n => [TUnlink n] end),
                        {| up_name := []; up_active := false; t_alive := t_alive st |})
  else ([], st).

(* rfbCloseClient: the extension's close hook (rfbTightExtensionClientClose) runs CloseUndoneFileUpload *)
Definition drop (st : tstate) : list tfs * tstate :=
  let '(ops, st') := close_undone st in
  (ops, {| up_name := up_name st'; up_active := up_active st'; t_alive := false |}).

(* bytes that arrived are written over the beginning of what fName held *)
Definition overlay (partial old : str) : str := partial ++ skipn (length partial) old.

(* the per-entry stat of a listing: "." and ".." are skipped; the full path is built in fullpath[PATH_MAX] *)
Definition dot_entry (n : str) : bool := list_eqb n [46] || list_eqb n [46; 46].
Fixpoint entry_ops (v : tvariant) (dir : str) (entries : list str) : list tfs :=
  match entries with
  | [] => []
  | n :: rest =>
      if dot_entry n then entry_ops v dir rest
      else if Zlength dir + 1 + Zlength n >=? C19_PATH_MAX then
        (if flist v then entry_ops v dir rest else [TOverflow])
      else TStatEntry dir n :: entry_ops v dir rest
  end.

(* one message, the gate being open for it *)
Definition tight_step (v : tvariant) (root : str) (st : tstate) (m : tmsg) : list tfs * tstate :=
  match m with
  | TList n entries =>
      if len_ok n then match conv v root n with Some p => (TOpendir p :: entry_ops v p entries, st) | None => ([], st) end
      else ([], st)
  | TDownload n =>
      if len_ok n then match conv v root n with Some p => ([TStat p; TOpenR p], st) | None => ([], st) end
      else ([], st)
  | TUpload n ok =>
      if len_ok n then
        let '(pre, st1) := if fundone v then close_undone st else ([], st) in
        (* the name is read straight into rtcp->rcft.rcfu.fName, then converted in place *)
        match conv v root n with
        | Some p => (pre ++ (if up_active st1 then [TLostFd] else []) ++ [TCreat p],
                     {| up_name := p; up_active := ok; t_alive := t_alive st1 |})
        | None => (pre, {| up_name := (if fstale v then [] else cstr n); up_active := up_active st1; t_alive := t_alive st1 |})
        end
      else ([], st)
  | TUploadTrunc partial =>
      let '(pre, st1) := if fundone v then close_undone st else ([], st) in
      let st2 := {| up_name := cstr (overlay partial (up_name st1)); up_active := up_active st1; t_alive := t_alive st1 |} in
      let '(ops, st3) := drop st2 in (pre ++ ops, st3)
  | TUploadData fails => if fails then close_undone st else ([], st)
  | TUploadDone =>
      ((match up_name st with [] => [] | n => [TUtime n] end), {| up_name := up_name st; up_active := false; t_alive := t_alive st |})
  | TUploadFailed has_reason => if has_reason then close_undone st else ([], st)
  | TDownloadCancel => ([], st)
  | TMkdir n =>
      if Zlength n >=? C19_PATH_MAX - 1 then drop st
      else match conv v root n with Some p => ([TMkdirOp p], st) | None => ([], st) end
  | TClose => drop st
  | TMsgTrunc => drop st
  end.

(* handleMessage, per message: [g] = registered && switched on && not view-only at that moment; with the
   gate closed the client is dropped (which runs the close hook); a dropped connection handles nothing *)
Definition tight_step_g (v : tvariant) (root : str) (st : tstate) (gm : bool * tmsg) : list tfs * tstate :=
  if negb (t_alive st) then ([], st)
  else if fst gm then tight_step v root st (snd gm) else drop st.

Fixpoint tight_run (v : tvariant) (root : str) (st : tstate) (ms : list (bool * tmsg)) : list tfs :=
  match ms with
  | [] => []
  | gm :: rest => let '(ops, st') := tight_step_g v root st gm in ops ++ tight_run v root st' rest
  end.

(* the property predicate on a path: root ++ "/" ++ rel, rel never climbing above the root *)
Definition below_root (root p : str) : Prop :=
  exists rel, p = root ++ 47 :: rel /\ stays_below_root (47 :: rel) = true.

(* ------------------------------------------------------------------ initialisation and command-line arguments
   (handlefiletransferrequest.c InitFileTransfer / SetFtpRoot / GetHomeDir, rfbtightserver.c
   rfbTightProcessArg, cargs.c: the extension's processArgument hook is called for every argument
   libvncserver itself does not know, with the rest of the command line) *)
(* [t_rootset]: SetFtpRoot has accepted a directory since the last wipe of ftproot (the variable ftprootIsSet, tree
   since 2a9083d) *)
Record tinit := { t_initted : bool; t_enabled : bool; t_root : str; t_rootset : bool }.
(* static initialisers: fileTransferEnabled = TRUE, fileTransferInitted = FALSE, ftproot = "" *)
Definition tinit0 : tinit := {| t_initted := false; t_enabled := true; t_root := []; t_rootset := false |}.

(* IsFileTransferEnabled().  [fx] = true: the tree since fix commit 2a9083d (= notes/fix_C19_6.diff): transfer is on only
   if a root directory was accepted; false = the flow before it (F19e, regression variant): the flag alone *)
Definition t_effective (fx : bool) (st : tinit) : bool := t_enabled st && (negb fx || t_rootset st).

(* environment: getpwuid(geteuid())->pw_dir, and whether a path is an openable directory
   (stat + S_ISDIR + opendir) *)
Record tenv := { pw_home : option str; dir_ok : str -> bool }.

Definition s_ftproot : str := [45; 102; 116; 112; 114; 111; 111; 116].
Definition s_disable : str := [45; 100; 105; 115; 97; 98; 108; 101; 102; 105; 108; 101; 116; 114; 97; 110; 115; 102; 101; 114].

Definition strip_slash (p : str) : str :=
  match rev p with 47 :: r => rev r | _ => p end.

(* SetFtpRoot: (TRUE/FALSE, state) *)
Definition set_root (env : tenv) (p : str) (st : tinit) : bool * tinit :=
  if (Zlength p =? 0) || (Zlength p >? C19_PATH_MAX - 1) || negb (dir_ok env p) then (false, st)
  else (true, {| t_initted := t_initted st; t_enabled := t_enabled st; t_root := strip_slash p; t_rootset := true |}).

(* InitFileTransfer: runs once; wipes ftproot, tries the home directory, switches transfer on *)
Definition init_ft (env : tenv) (st : tinit) : tinit :=
  if t_initted st then st else
  let st1 := {| t_initted := false; t_enabled := t_enabled st; t_root := []; t_rootset := false |} in
  let st2 := match pw_home env with
             | Some (c :: h) => snd (set_root env (c :: h) st1)
             | _ => st1
             end in
  {| t_initted := true; t_enabled := true; t_root := t_root st2; t_rootset := t_rootset st2 |}.

(* rfbTightProcessArg(argc, argv): number of arguments consumed, new state *)
Definition process_arg (env : tenv) (st : tinit) (argv : list str) : nat * tinit :=
  let st := init_ft env st in
  match argv with
  | [] => (O, st)
  | a :: tl =>
      if list_eqb a s_ftproot then
        match tl with
        | [] => (O, st)
        | p :: _ => let '(ok, st') := set_root env p st in if ok then (2%nat, st') else (O, st)
        end
      else if list_eqb a s_disable then
        (1%nat, {| t_initted := t_initted st; t_enabled := false; t_root := t_root st; t_rootset := t_rootset st |})
      else (O, st)
  end.

(* rfbProcessArguments over arguments unknown to libvncserver itself *)
Fixpoint run_args (env : tenv) (st : tinit) (args : list str) : tinit :=
  match args with
  | [] => st
  | a :: tl =>
      let '(h, st') := process_arg env st (a :: tl) in
      match h, tl with
      | 2%nat, _ :: tl2 => run_args env st' tl2
      | _, _ => run_args env st' tl
      end
  end.
